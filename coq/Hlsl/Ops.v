(* HLSL operator and intrinsic meaning on run-time values (Naga.IR.Values.value:
   32-bit patterns tagged int / uint / float / bool), written in HLSL's own terms:
   - usual arithmetic conversions: bool -> int -> uint -> float (component-wise,
     a scalar operand is broadcast);
   - int and uint + - * wrap (see DialectChoices.md: the specification is silent on
     signed overflow; DXIL arithmetic carries no nsw/nuw flags);
   - integer / and % by zero, and INT_MIN / -1, are undefined: [Fail "UB: ..."];
   - << and >> use the low 5 bits of the amount; >> is arithmetic on int;
   - float -> int/uint conversion of NaN, infinity or an out-of-range value is
     undefined: [Fail "UB: ..."];
   - asint/asuint/asfloat reinterpret the pattern;
   - every arm of ?: is evaluated (HLSL never short-circuits).
   A name or operand shape outside the modelled fragment gives
   [Fail "unsupported: ..."] (the program is then out of fragment).

   Data-dependent undefined behaviour inside an expression is COLLECTED rather than
   raised at once: an operator returns its value together with a list of
   (condition, message) pairs ([ubs]); the expression has undefined behaviour iff
   some condition is true ([check]).  HLSL evaluates every operand of every
   operator (no short-circuit), so this is the same set of failing executions as
   raising at the first failing operator; it keeps symbolic evaluation of the
   operator templates free of case splits (Hlsl/CatalogueProofs.v). *)
From Coq Require Import List ZArith String Bool.
Import ListNotations.
Require Import Naga.Base.Bits32 Naga.Base.F32 Naga.IR.Values Naga.Hlsl.Syntax.
Open Scope string_scope.
Open Scope Z_scope.

Definition two31 : Z := 2147483648.
Definition two32 : Z := 4294967296.

(* signed reading of a pattern, in HLSL-side words *)
Definition sint (u : Z) : Z := if u <? two31 then u else u - two32.
Definition wrap32 (z : Z) : Z := z mod two32.

Definition ubs := list (bool * string).
Definition cres := result (value * ubs).
Definition ret (v : value) : cres := Done (v, []).
Definition cbind (r : cres) (f : value -> cres) : cres :=
  match r with
  | Done (v, u) => match f v with Done (w, u') => Done (w, (u ++ u')%list) | OutOfFuel => OutOfFuel | Fail m => Fail m end
  | OutOfFuel => OutOfFuel
  | Fail m => Fail m
  end.
Notation "x <~~ e1 ;; e2" := (cbind e1 (fun x => e2)) (at level 61, e1 at next level, right associativity).
Definition pure (r : result value) : cres := match r with Done v => Done (v, []) | OutOfFuel => OutOfFuel | Fail m => Fail m end.

Fixpoint first_ub (u : ubs) : option string :=
  match u with [] => None | (c, m) :: u' => if c then Some m else first_ub u' end.
Definition check (r : cres) : result value :=
  match r with
  | Done (v, u) => match first_ub u with Some m => Fail m | None => Done v end
  | OutOfFuel => OutOfFuel
  | Fail m => Fail m
  end.

Fixpoint cmap (f : value -> cres) (l : list value) : result (list value * ubs) :=
  match l with
  | [] => Done ([], [])
  | x :: l' =>
    match f x, cmap f l' with
    | Done (v, u), Done (vs, u') => Done (v :: vs, (u ++ u')%list)
    | Done _, OutOfFuel => OutOfFuel | Done _, Fail m => Fail m
    | OutOfFuel, _ => OutOfFuel | Fail m, _ => Fail m
    end
  end.
Fixpoint czip (f : value -> value -> cres) (l1 l2 : list value) : result (list value * ubs) :=
  match l1, l2 with
  | [], [] => Done ([], [])
  | x :: l1', y :: l2' =>
    match f x y, czip f l1' l2' with
    | Done (v, u), Done (vs, u') => Done (v :: vs, (u ++ u')%list)
    | Done _, OutOfFuel => OutOfFuel | Done _, Fail m => Fail m
    | OutOfFuel, _ => OutOfFuel | Fail m, _ => Fail m
    end
  | _, _ => Fail "unsupported: vector length mismatch"
  end.
Definition wrapv (k : list value -> value) (r : result (list value * ubs)) : cres :=
  match r with Done (vs, u) => Done (k vs, u) | OutOfFuel => OutOfFuel | Fail m => Fail m end.
Definition clift1 (f : value -> cres) (a : value) : cres :=
  match a with VVec l => wrapv VVec (cmap f l) | _ => f a end.
Definition clift2 (f : value -> value -> cres) (a b : value) : cres :=
  match a, b with
  | VVec l1, VVec l2 => wrapv VVec (czip f l1 l2)
  | VVec l1, _ => wrapv VVec (cmap (fun x => f x b) l1)
  | _, VVec l2 => wrapv VVec (cmap (fun y => f a y) l2)
  | _, _ => f a b
  end.

Definition kind_of (v : value) : option skind :=
  match v with
  | VI32 _ => Some KInt | VU32 _ => Some KUint | VF32 _ => Some KFloat | VBool _ => Some KBool
  | _ => None
  end.

(* ---- scalar conversions (casts, constructors, implicit conversions) ---- *)
Definition trunc_or_zero (f : Z) : Z := match z_of_f32_trunc f with Some z => z | None => 0 end.
Definition f_not_finite (f : Z) : bool := match z_of_f32_trunc f with Some _ => false | None => true end.

(* float -> int: truncation; NaN / infinity / out of range are undefined *)
Definition f2i (f : Z) : Z * ubs :=
  (wrap32 (trunc_or_zero f),
   [(f_not_finite f, "UB: float to int conversion of NaN or infinity");
    (negb ((- two31 <=? trunc_or_zero f) && (trunc_or_zero f <? two31)), "UB: float to int conversion out of range")]).
Definition f2u (f : Z) : Z * ubs :=
  (wrap32 (trunc_or_zero f),
   [(f_not_finite f, "UB: float to uint conversion of NaN or infinity");
    (negb ((0 <=? trunc_or_zero f) && (trunc_or_zero f <? two32)), "UB: float to uint conversion out of range")]).

Definition F_ONE : Z := 1065353216.        (* 1.0f *)

Definition conv_scalar (k : skind) (v : value) : cres :=
  match k, v with
  | KInt, VI32 x => ret (VI32 x)
  | KInt, VU32 x => ret (VI32 x)
  | KInt, VBool b => ret (VI32 (if b then 1 else 0))
  | KInt, VF32 f => Done (VI32 (fst (f2i f)), snd (f2i f))
  | KUint, VI32 x => ret (VU32 x)
  | KUint, VU32 x => ret (VU32 x)
  | KUint, VBool b => ret (VU32 (if b then 1 else 0))
  | KUint, VF32 f => Done (VU32 (fst (f2u f)), snd (f2u f))
  | KFloat, VI32 x => ret (VF32 (f32_of_i32 x))
  | KFloat, VU32 x => ret (VF32 (f32_of_u32 x))
  | KFloat, VBool b => ret (VF32 (if b then F_ONE else 0))
  | KFloat, VF32 f => ret (VF32 f)
  | KBool, VI32 x => ret (VBool (negb (x =? 0)))
  | KBool, VU32 x => ret (VBool (negb (x =? 0)))
  | KBool, VBool b => ret (VBool b)
  | KBool, VF32 f => ret (VBool (negb (feq f 0)))
  | _, _ => Fail "unsupported: scalar conversion of a composite"
  end.

(* the conversions that cannot fail: to bool, and upwards along bool < int < uint < float *)
Definition promote (k : skind) (v : value) : result value :=
  match k, v with
  | KInt, VF32 _ | KUint, VF32 _ => Fail "unsupported: implicit float to integer conversion of an operand"
  | _, _ => match conv_scalar k v with Done (x, _) => Done x | OutOfFuel => OutOfFuel | Fail m => Fail m end
  end.

(* usual arithmetic conversions: rank bool < int < uint < float *)
Definition rank (k : skind) : nat := match k with KBool => 0 | KInt => 1 | KUint => 2 | KFloat => 3 end%nat.
Definition join_kind (a b : skind) : skind := if Nat.leb (rank a) (rank b) then b else a.
Definition arith_kind (k : skind) : skind := match k with KBool => KInt | _ => k end.

Definition common_kind (a b : value) : result skind :=
  match kind_of a, kind_of b with
  | Some x, Some y => Done (arith_kind (join_kind x y))
  | _, _ => Fail "unsupported: operator on a non-scalar component"
  end.

(* ---- scalar binary operators ---- *)
(* integer / and %: the value computed when the operation is defined, and when it is not *)
Definition int_div_val (a b : Z) : Z := wrap32 (Z.quot (sint a) (sint b)).
Definition int_rem_val (a b : Z) : Z := wrap32 (Z.rem (sint a) (sint b)).
Definition int_div_ub (a b : Z) : ubs :=
  [(b =? 0, "UB: integer division by zero"); ((a =? two31) && (b =? two32 - 1), "UB: signed division overflow (INT_MIN / -1)")].
Definition int_rem_ub (a b : Z) : ubs :=
  [(b =? 0, "UB: integer remainder by zero"); ((a =? two31) && (b =? two32 - 1), "UB: signed remainder overflow (INT_MIN % -1)")].
Definition uint_div_ub (b : Z) : ubs := [(b =? 0, "UB: integer division by zero")].
Definition uint_rem_ub (b : Z) : ubs := [(b =? 0, "UB: integer remainder by zero")].

Definition shamt (n : Z) : Z := Z.land n 31.

Definition bits_of (v : value) : result Z :=
  match v with
  | VI32 x | VU32 x => Done x
  | VBool b => Done (if b then 1 else 0)
  | _ => Fail "unsupported: integer operand expected"
  end.

Definition arith_op (o : binop) (a b : value) : cres :=
  match common_kind a b with
  | Done k =>
    match promote k a, promote k b with
    | Done (VI32 p), Done (VI32 q) =>
      match o with
      | BAdd => ret (VI32 (wrap32 (p + q))) | BSub => ret (VI32 (wrap32 (p - q))) | BMul => ret (VI32 (wrap32 (p * q)))
      | BDiv => Done (VI32 (int_div_val p q), int_div_ub p q)
      | BMod => Done (VI32 (int_rem_val p q), int_rem_ub p q)
      | _ => Fail "unsupported: arith_op"
      end
    | Done (VU32 p), Done (VU32 q) =>
      match o with
      | BAdd => ret (VU32 (wrap32 (p + q))) | BSub => ret (VU32 (wrap32 (p - q))) | BMul => ret (VU32 (wrap32 (p * q)))
      | BDiv => Done (VU32 (p / q), uint_div_ub q)
      | BMod => Done (VU32 (p mod q), uint_rem_ub q)
      | _ => Fail "unsupported: arith_op"
      end
    | Done (VF32 p), Done (VF32 q) =>
      match o with
      | BAdd => ret (VF32 (fadd p q)) | BSub => ret (VF32 (fsub p q)) | BMul => ret (VF32 (fmul p q))
      | BDiv => ret (VF32 (fdiv p q))
      | _ => Fail "unsupported: % on float operands"
      end
    | Fail m, _ | _, Fail m => Fail m
    | _, _ => Fail "unsupported: arith_op operands"
    end
  | OutOfFuel => OutOfFuel
  | Fail m => Fail m
  end.

Definition cmp_op (o : binop) (a b : value) : result value :=
  match a, b with
  | VBool p, VBool q =>
    match o with
    | BEq => Done (VBool (Bool.eqb p q)) | BNe => Done (VBool (negb (Bool.eqb p q)))
    | _ => Fail "unsupported: ordering on bool"
    end
  | _, _ =>
    k <~ common_kind a b ;;
    x <~ promote k a ;; y <~ promote k b ;;
    match x, y with
    | VI32 p, VI32 q =>
      Done (VBool (match o with
                   | BEq => p =? q | BNe => negb (p =? q)
                   | BLt => sint p <? sint q | BLe => sint p <=? sint q
                   | BGt => sint q <? sint p | BGe => sint q <=? sint p
                   | _ => false end))
    | VU32 p, VU32 q =>
      Done (VBool (match o with
                   | BEq => p =? q | BNe => negb (p =? q)
                   | BLt => p <? q | BLe => p <=? q | BGt => q <? p | BGe => q <=? p
                   | _ => false end))
    | VF32 p, VF32 q =>
      Done (VBool (match o with
                   | BEq => feq p q | BNe => negb (feq p q)
                   | BLt => flt p q | BLe => fle p q | BGt => flt q p | BGe => fle q p
                   | _ => false end))
    | _, _ => Fail "unsupported: comparison operands"
    end
  end.

(* & | ^ : integer operands; two bool operands give a bool (HLSL does not promote bool for the
   bitwise operators: DialectChoices.md); a bool with an integer is promoted *)
Definition bit_op (o : binop) (a b : value) : result value :=
  match a, b with
  | VBool p, VBool q => Done (VBool (match o with BAnd => andb p q | BOr => orb p q | _ => xorb p q end))
  | _, _ =>
    k <~ common_kind a b ;;
    match k with
    | KFloat => Fail "unsupported: bitwise operator on float"
    | _ =>
      x <~ promote k a ;; y <~ promote k b ;;
      p <~ bits_of x ;; q <~ bits_of y ;;
      let r := match o with BAnd => Z.land p q | BOr => Z.lor p q | _ => Z.lxor p q end in
      match k with KUint => Done (VU32 r) | _ => Done (VI32 r) end
    end
  end.

(* shifts: the result has the (promoted) type of the left operand; amount masked to 5 bits *)
Definition shift_op (o : binop) (a b : value) : result value :=
  n <~ bits_of b ;;
  match a with
  | VI32 p =>
    Done (VI32 (match o with BShl => wrap32 (Z.shiftl p (shamt n)) | _ => wrap32 (Z.shiftr (sint p) (shamt n)) end))
  | VU32 p =>
    Done (VU32 (match o with BShl => wrap32 (Z.shiftl p (shamt n)) | _ => Z.shiftr p (shamt n) end))
  | VBool c =>
    let p := if c then 1 else 0 in
    Done (VI32 (match o with BShl => wrap32 (Z.shiftl p (shamt n)) | _ => Z.shiftr p (shamt n) end))
  | _ => Fail "unsupported: shift of a non-integer"
  end.

Definition logic_op (o : binop) (a b : value) : result value :=
  x <~ promote KBool a ;; y <~ promote KBool b ;;
  match x, y with
  | VBool p, VBool q => Done (VBool (match o with BLAnd => andb p q | _ => orb p q end))
  | _, _ => Fail "unsupported: logical operands"
  end.

Definition scalar_bin (o : binop) (a b : value) : cres :=
  match o with
  | BAdd | BSub | BMul | BDiv | BMod => arith_op o a b
  | BShl | BShr => pure (shift_op o a b)
  | BAnd | BOr | BXor => pure (bit_op o a b)
  | BLAnd | BLOr => pure (logic_op o a b)
  | BEq | BNe | BLt | BLe | BGt | BGe => pure (cmp_op o a b)
  end.

(* component-wise on vectors and (HLSL: all operators, * included) on matrices *)
Definition bin_op (o : binop) (a b : value) : cres :=
  match a, b with
  | VMat r1, VMat r2 => wrapv VMat (czip (clift2 (scalar_bin o)) r1 r2)
  | VMat r1, _ => wrapv VMat (cmap (fun r => clift2 (scalar_bin o) r b) r1)
  | _, VMat r2 => wrapv VMat (cmap (fun r => clift2 (scalar_bin o) a r) r2)
  | _, _ => clift2 (scalar_bin o) a b
  end.

(* ---- unary ---- *)
Definition scalar_un (o : unop) (a : value) : result value :=
  match o with
  | UNeg =>
    match a with
    | VI32 x => Done (VI32 (wrap32 (- x)))
    | VU32 x => Done (VU32 (wrap32 (- x)))
    | VF32 x => Done (VF32 (fneg x))
    | VBool b => Done (VI32 (wrap32 (- (if b then 1 else 0))))
    | _ => Fail "unsupported: negation operand"
    end
  | UPlus => Done a
  | UNot => x <~ promote KBool a ;; match x with VBool b => Done (VBool (negb b)) | _ => Fail "unsupported: !" end
  | UBitNot =>
    match a with
    | VI32 x => Done (VI32 (two32 - 1 - x))
    | VU32 x => Done (VU32 (two32 - 1 - x))
    | VBool b => Done (VI32 (two32 - 1 - (if b then 1 else 0)))
    | _ => Fail "unsupported: ~ operand"
    end
  end.

Definition un_op (o : unop) (a : value) : result value :=
  match a with
  | VMat rs => r <~ rmap (lift1 (scalar_un o)) rs ;; Done (VMat r)
  | _ => lift1 (scalar_un o) a
  end.

(* ---- ?: ---- *)
(* scalar ?: ; the selection is made inside the pattern so that the result always has a known kind *)
Definition scalar_select (c x y : value) : result value :=
  match promote KBool c, common_kind x y with
  | Done (VBool cb), Done k =>
    let k' := match kind_of x, kind_of y with Some KBool, Some KBool => KBool | _, _ => k end in
    match promote k' x, promote k' y with
    | Done (VI32 p), Done (VI32 q) => Done (VI32 (if cb then p else q))
    | Done (VU32 p), Done (VU32 q) => Done (VU32 (if cb then p else q))
    | Done (VF32 p), Done (VF32 q) => Done (VF32 (if cb then p else q))
    | Done (VBool p), Done (VBool q) => Done (VBool (if cb then p else q))
    | Fail m, _ | _, Fail m => Fail m
    | _, _ => Fail "unsupported: ?: operands"
    end
  | Fail m, _ | _, Fail m => Fail m
  | _, _ => Fail "unsupported: ?: condition"
  end.

Definition is_scalar (v : value) : bool := match kind_of v with Some _ => true | None => false end.

Fixpoint select_vec (cs xs ys : list value) : result (list value) :=
  match cs, xs, ys with
  | [], [], [] => Done []
  | c :: cs', x :: xs', y :: ys' => v <~ scalar_select c x y ;; vs <~ select_vec cs' xs' ys' ;; Done (v :: vs)
  | _, _, _ => Fail "unsupported: ?: vector shapes"
  end.

Definition splat_to (n : nat) (v : value) : list value :=
  match v with VVec l => l | _ => repeat v n end.

Definition cond_op (c x y : value) : result value :=
  match c with
  | VVec cs =>
    let n := List.length cs in
    vs <~ select_vec cs (splat_to n x) (splat_to n y) ;; Done (VVec vs)
  | _ =>
    if is_scalar x && is_scalar y then scalar_select c x y
    else
      cb <~ promote KBool c ;;
      match x, y with
      | VVec xs, VVec ys =>
        vs <~ select_vec (repeat cb (List.length xs)) xs ys ;; Done (VVec vs)
      | VVec xs, _ => vs <~ select_vec (repeat cb (List.length xs)) xs (repeat y (List.length xs)) ;; Done (VVec vs)
      | _, VVec ys => vs <~ select_vec (repeat cb (List.length ys)) (repeat x (List.length ys)) ys ;; Done (VVec vs)
      | _, _ => match cb with VBool true => Done x | VBool false => Done y | _ => Fail "unsupported: ?: condition" end
      end
  end.

(* ---- intrinsics ---- *)
Definition reinterpret (k : skind) (v : value) : result value :=
  match v with
  | VI32 x | VU32 x | VF32 x =>
    match k with KInt => Done (VI32 x) | KUint => Done (VU32 x) | KFloat => Done (VF32 x) | KBool => Fail "unsupported: as-bool" end
  | _ => Fail "unsupported: asint/asuint/asfloat of a bool or composite"
  end.

(* min(a,b) = a < b ? a : b on integers; on floats the NaN-avoiding D3D min/max (DialectChoices.md) *)
Definition scalar_min (a b : value) : result value :=
  k <~ common_kind a b ;; x <~ promote k a ;; y <~ promote k b ;;
  match x, y with
  | VI32 p, VI32 q => Done (VI32 (if sint p <? sint q then p else q))
  | VU32 p, VU32 q => Done (VU32 (if p <? q then p else q))
  | VF32 p, VF32 q => Done (VF32 (fmin p q))
  | _, _ => Fail "unsupported: min operands"
  end.
Definition scalar_max (a b : value) : result value :=
  k <~ common_kind a b ;; x <~ promote k a ;; y <~ promote k b ;;
  match x, y with
  | VI32 p, VI32 q => Done (VI32 (if sint q <? sint p then p else q))
  | VU32 p, VU32 q => Done (VU32 (if q <? p then p else q))
  | VF32 p, VF32 q => Done (VF32 (fmax p q))
  | _, _ => Fail "unsupported: max operands"
  end.
(* clamp(x, lo, hi) = min(max(x, lo), hi) *)
Definition scalar_clamp (x lo hi : value) : result value :=
  m <~ scalar_max x lo ;; scalar_min m hi.

Definition scalar_abs (a : value) : result value :=
  match a with
  | VI32 x => Done (VI32 (if sint x <? 0 then wrap32 (- x) else x))     (* abs(INT_MIN) wraps: DialectChoices.md *)
  | VU32 x => Done (VU32 x)
  | VF32 x => Done (VF32 (fabs x))
  | _ => Fail "unsupported: abs operand"
  end.

(* sign returns an int: (0 < x) - (x < 0) *)
Definition scalar_sign (a : value) : result value :=
  match a with
  | VI32 x => Done (VI32 (wrap32 ((if 0 <? sint x then 1 else 0) - (if sint x <? 0 then 1 else 0))))
  | VF32 x => Done (VI32 (wrap32 ((if flt 0 x then 1 else 0) - (if flt x 0 then 1 else 0))))
  | _ => Fail "unsupported: sign operand"
  end.

(* bit intrinsics on 32-bit patterns; the bit-counting utilities are those of Base/Bits32.v.
   firstbithigh: unsigned: position (from the LSB) of the highest set bit = 31 - (leading zeros);
   signed: for a negative argument the highest CLEAR bit; firstbitlow: position of the lowest set
   bit; all-ones (-1) when there is no such bit *)
Definition firstbithigh_u (x : Z) : Z := if x =? 0 then two32 - 1 else 31 - count_leading_zeros x.
Definition firstbithigh_i (x : Z) : Z :=
  if sint x <? 0 then firstbithigh_u (two32 - 1 - x) else firstbithigh_u x.
Definition firstbitlow_any (x : Z) : Z := if x =? 0 then two32 - 1 else count_trailing_zeros x.

Definition int1u (f : Z -> Z) (a : value) : result value :=      (* uint-returning bit intrinsics *)
  match a with
  | VU32 x => Done (VU32 (f x))
  | VI32 x => Done (VU32 (f x))
  | _ => Fail "unsupported: integer intrinsic operand"
  end.

Definition float1 (f : Z -> Z) (a : value) : result value :=
  x <~ promote KFloat a ;; match x with VF32 p => Done (VF32 (f p)) | _ => Fail "unsupported: float intrinsic operand" end.

Definition lift3 (f : value -> value -> value -> result value) (a b c : value) : result value :=
  match a, b, c with
  | VVec _, _, _ | _, VVec _, _ | _, _, VVec _ =>
    let n := match a, b, c with VVec l, _, _ | _, VVec l, _ | _, _, VVec l => List.length l | _, _, _ => O end in
    rbind ((fix go l1 l2 l3 := match l1, l2, l3 with
       | [], [], [] => Done []
       | x :: r1, y :: r2, z :: r3 => v <~ f x y z ;; vs <~ go r1 r2 r3 ;; Done (v :: vs)
       | _, _, _ => Fail "unsupported: vector length mismatch" end) (splat_to n a) (splat_to n b) (splat_to n c))
      (fun vs => Done (VVec vs))
  | _, _, _ => f a b c
  end.

Definition all_bools (v : value) : result (list bool) :=
  match v with
  | VVec l => rmap (fun x => c <~ promote KBool x ;; match c with VBool b => Done b | _ => Fail "unsupported: any/all" end) l
  | _ => c <~ promote KBool v ;; match c with VBool b => Done [b] | _ => Fail "unsupported: any/all" end
  end.

(* dot: products then a left-to-right sum (integers wrap; floats round after every operation) *)
Definition dot_op (a b : value) : result value :=
  match a, b with
  | VVec l1, VVec l2 =>
    ps <~ zip_res (fun x y => check (scalar_bin BMul x y)) l1 l2 ;;
    match ps with
    | [] => Fail "unsupported: empty dot"
    | p :: r => fold_left (fun acc y => s <~ acc ;; check (scalar_bin BAdd s y)) r (Done p)
    end
  | _, _ => check (scalar_bin BMul a b)
  end.

(* mul(x, y): HLSL matrices are lists of rows.  vector x matrix: x is a row vector;
   matrix x vector: y is a column vector; matrix x matrix: rows of x times columns of y;
   a scalar operand multiplies every component.  Each result component is a dot product
   (products, then a left-to-right sum).  HLSL does not fix which factor of a product is
   written first; IEEE multiplication is commutative, and the order chosen here (the
   component of y first) is recorded in DialectChoices.md. *)
Definition rows_of (m : value) : result (list (list value)) :=
  match m with VMat rs => rmap vec_elems rs | _ => Fail "unsupported: expected matrix" end.

Fixpoint columns (fuel : nat) (rows : list (list value)) : list (list value) :=
  match fuel with
  | O => []
  | S f =>
    match rows with
    | [] => []
    | [] :: _ => []
    | _ => map (fun r => hd (VBool false) r) rows :: columns f (map (fun r => tl r) rows)
    end
  end.

Definition dot_lists (a b : list value) : result value := dot_op (VVec a) (VVec b).

Definition mul_op (x y : value) : result value :=
  match x, y with
  | VVec v, VMat _ =>
    rows <~ rows_of y ;;
    r <~ rmap (fun col => dot_lists col v) (columns 5 rows) ;; Done (VVec r)
  | VMat _, VVec v =>
    rows <~ rows_of x ;;
    r <~ rmap (fun row => dot_lists v row) rows ;; Done (VVec r)
  | VMat _, VMat _ =>
    xr <~ rows_of x ;; yr <~ rows_of y ;;
    let yc := columns 5 yr in
    r <~ rmap (fun row => e <~ rmap (fun col => dot_lists col row) yc ;; Done (VVec e)) xr ;; Done (VMat r)
  | _, _ => check (bin_op BMul y x)
  end.

Definition intrinsic_known (f : string) : bool :=
  existsb (String.eqb f)
    ["asint"; "asuint"; "asfloat"; "min"; "max"; "clamp"; "abs"; "sign"; "mul"; "dot"; "countbits";
     "firstbithigh"; "firstbitlow"; "reversebits"; "floor"; "ceil"; "trunc"; "round"; "sqrt"; "mad"; "fma";
     "any"; "all"; "isnan"; "isinf"; "saturate";
     "GroupMemoryBarrierWithGroupSync"; "DeviceMemoryBarrierWithGroupSync"; "AllMemoryBarrierWithGroupSync";
     "GroupMemoryBarrier"; "DeviceMemoryBarrier"; "AllMemoryBarrier"].

Definition intrinsic (f : string) (args : list value) : result value :=
  match args with
  | [] =>
    if existsb (String.eqb f) ["GroupMemoryBarrierWithGroupSync"; "DeviceMemoryBarrierWithGroupSync"; "AllMemoryBarrierWithGroupSync";
                               "GroupMemoryBarrier"; "DeviceMemoryBarrier"; "AllMemoryBarrier"]
    then Done (VBool false)            (* single invocation: barriers are no-ops; the value is never used *)
    else Fail ("unsupported: intrinsic " ++ f)
  | [a] =>
    if String.eqb f "asint" then lift1 (reinterpret KInt) a
    else if String.eqb f "asuint" then lift1 (reinterpret KUint) a
    else if String.eqb f "asfloat" then lift1 (reinterpret KFloat) a
    else if String.eqb f "abs" then lift1 scalar_abs a
    else if String.eqb f "sign" then lift1 scalar_sign a
    else if String.eqb f "countbits" then lift1 (int1u count_one_bits) a
    else if String.eqb f "reversebits" then lift1 (int1u reverse_bits) a
    else if String.eqb f "firstbithigh" then
      lift1 (fun v => match v with VU32 x => Done (VU32 (firstbithigh_u x)) | VI32 x => Done (VU32 (firstbithigh_i x))
                               | _ => Fail "unsupported: firstbithigh operand" end) a
    else if String.eqb f "firstbitlow" then lift1 (int1u firstbitlow_any) a
    else if String.eqb f "floor" then lift1 (float1 ffloor) a
    else if String.eqb f "ceil" then lift1 (float1 fceil) a
    else if String.eqb f "trunc" then lift1 (float1 ftrunc) a
    else if String.eqb f "round" then lift1 (float1 fround) a
    else if String.eqb f "sqrt" then lift1 (float1 fsqrt) a
    else if String.eqb f "saturate" then lift1 (fun x => scalar_clamp x (VF32 0) (VF32 F_ONE)) a
    else if String.eqb f "isnan" then
      lift1 (fun v => match v with VF32 x => Done (VBool (is_nan_bits x)) | _ => Fail "unsupported: isnan operand" end) a
    else if String.eqb f "isinf" then
      lift1 (fun v => match v with VF32 x => Done (VBool (is_inf_bits x)) | _ => Fail "unsupported: isinf operand" end) a
    else if String.eqb f "any" then bs <~ all_bools a ;; Done (VBool (existsb (fun b => b) bs))
    else if String.eqb f "all" then bs <~ all_bools a ;; Done (VBool (forallb (fun b => b) bs))
    else Fail ("unsupported: intrinsic " ++ f)
  | [a; b] =>
    if String.eqb f "min" then lift2 scalar_min a b
    else if String.eqb f "max" then lift2 scalar_max a b
    else if String.eqb f "dot" then dot_op a b
    else if String.eqb f "mul" then mul_op a b
    else Fail ("unsupported: intrinsic " ++ f)
  | [a; b; c] =>
    if String.eqb f "clamp" then lift3 scalar_clamp a b c
    else if String.eqb f "mad" || String.eqb f "fma" then
      lift3 (fun x y z =>
               x' <~ promote KFloat x ;; y' <~ promote KFloat y ;; z' <~ promote KFloat z ;;
               match x, x', y', z' with
               | VF32 _, VF32 p, VF32 q, VF32 r => Done (VF32 (ffma p q r))
               | _, _, _, _ => Fail "unsupported: mad on integers"
               end) a b c
    else Fail ("unsupported: intrinsic " ++ f)
  | _ => Fail ("unsupported: intrinsic " ++ f)
  end.

(* ---- shapes: flattening, casts and constructors ---- *)
Fixpoint flatten_value (fuel : nat) (v : value) : list value :=
  match fuel with
  | O => []
  | S f =>
    match v with
    | VVec l | VMat l | VArr l | VStruct l => flat_map (flatten_value f) l
    | _ => [v]
    end
  end.

Fixpoint chunk (fuel : nat) (n : nat) (l : list value) : list (list value) :=
  match fuel with
  | O => []
  | S f => match l with [] => [] | _ => firstn n l :: chunk f n (skipn n l) end
  end.

(* T(args) for scalar / vector / matrix T: the arguments' components, converted, in order *)
Definition construct (t : htype) (args : list value) : cres :=
  let comps := flat_map (flatten_value 8) args in
  match t with
  | TScal k =>
    match comps with
    | [x] => conv_scalar k x
    | _ => Fail "unsupported: scalar constructor arity"
    end
  | TVec k n =>
    if Nat.eqb (List.length comps) n then wrapv VVec (cmap (conv_scalar k) comps)
    else Fail "unsupported: vector constructor arity"
  | TMat k c r =>
    if Nat.eqb (List.length comps) (c * r) then
      wrapv (fun vs => VMat (map VVec (chunk (S (List.length vs)) r vs))) (cmap (conv_scalar k) comps)
    else Fail "unsupported: matrix constructor arity"
  | _ => Fail "unsupported: constructor type"
  end.
