(* Catalogue lemmas: each template of Hlsl/Catalogue.v, evaluated in the HLSL semantics of
   Hlsl/Sem.v + Hlsl/Ops.v with its helper functions AS EMITTED, computes the WGSL meaning
   (Base/Bits32.v, Base/F32.v) for ALL 32-bit operands and never has undefined behaviour.
   Method: [teval] evaluates the template symbolically (the UB conditions of / % and float->int
   are collected as booleans, so evaluation never branches); the residual goal is integer
   arithmetic closed by case analysis on the atomic comparisons and lia. *)
From Coq Require Import List ZArith String Bool Lia ZifyBool.
Import ListNotations.
Require Import Naga.Base.Bits32 Naga.Base.F32 Naga.IR.Syntax Naga.IR.Values Naga.IR.Sem Naga.Hlsl.Syntax Naga.Hlsl.Ops Naga.Hlsl.Sem Naga.Hlsl.FloatConv Naga.Hlsl.Catalogue.
Open Scope string_scope.
Open Scope Z_scope.
Ltac Zify.zify_post_hook ::= Z.to_euclidean_division_equations.

Ltac is_pos_num p := lazymatch p with xH => idtac | xO ?q => is_pos_num q | xI ?q => is_pos_num q end.
Ltac is_num z := lazymatch z with Z0 => idtac | Zpos ?p => is_pos_num p | Zneg ?p => is_pos_num p end.
Ltac ground2 f x y := is_num x; is_num y; let v := eval vm_compute in (f x y) in change (f x y) with v.
Ltac ground_step :=
  match goal with
  | |- context [Z.modulo ?x ?y] => ground2 Z.modulo x y
  | |- context [Z.add ?x ?y] => ground2 Z.add x y
  | |- context [Z.sub ?x ?y] => ground2 Z.sub x y
  | |- context [Z.mul ?x ?y] => ground2 Z.mul x y
  | |- context [Z.land ?x ?y] => ground2 Z.land x y
  | |- context [Z.lor ?x ?y] => ground2 Z.lor x y
  | |- context [Z.lxor ?x ?y] => ground2 Z.lxor x y
  | |- context [Z.eqb ?x ?y] => ground2 Z.eqb x y
  | |- context [Z.ltb ?x ?y] => ground2 Z.ltb x y
  | |- context [Z.leb ?x ?y] => ground2 Z.leb x y
  | |- context [Z.opp ?x] => is_num x; let v := eval vm_compute in (Z.opp x) in change (Z.opp x) with v
  end.
Ltac no_if t := lazymatch t with context [if _ then _ else _] => fail | _ => idtac end.
Ltac atom_step :=
  match goal with
  | |- context [?x =? ?y] => no_if x; no_if y; destruct (Z.eqb_spec x y)
  | |- context [?x <? ?y] => no_if x; no_if y; destruct (Z.ltb_spec x y)
  | |- context [?x <=? ?y] => no_if x; no_if y; destruct (Z.leb_spec x y)
  end; cbn [orb andb negb]; cbv iota.
Ltac crunch := repeat (first [progress (repeat ground_step; cbv iota) | atom_step]).

Ltac teval :=
  unfold eval_template, eval_pure;
  lazy -[Z.add Z.sub Z.mul Z.opp Z.modulo Z.div Z.quot Z.rem Z.eqb Z.ltb Z.leb Z.land Z.lor Z.lxor Z.shiftl Z.shiftr Z.testbit
         Z.min Z.max Z.ones Z.of_nat
         add32 sub32 mul32 neg32 div_i32 div_u32 rem_i32 rem_u32 not32 and32 or32 xor32 shl32 shr_u32 shr_i32
         lt_i32 le_i32 lt_u32 le_u32 abs_i32 min_i32 max_i32 min_u32 max_u32 clamp_i32 clamp_u32 sign_i32
         count_one_bits count_leading_zeros count_trailing_zeros reverse_bits first_leading_bit_u32 first_leading_bit_i32
         first_trailing_bit extract_bits_u32 extract_bits_i32 insert_bits i32_of_u32 u32_of_i32 u32_of_bool bool_of_32
         in32 fadd fsub fmul fdiv fsqrt ffma fneg fabs ffloor fceil ftrunc fround feq flt fle fne fgt fge fmin fmax
         f32_of_z z_of_f32_trunc i32_of_f32 u32_of_f32 f32_of_i32 f32_of_u32 is_nan_bits is_inf_bits
         trunc_or_zero f_not_finite].
Ltac unfold_specs :=
  unfold add32, sub32, mul32, neg32, div_i32, div_u32, rem_i32, rem_u32, not32, and32, or32, xor32,
         lt_i32, le_i32, lt_u32, le_u32, abs_i32, min_i32, max_i32, min_u32, max_u32, clamp_i32, clamp_u32, sign_i32,
         i32_of_u32, u32_of_i32, u32_of_bool, bool_of_32,
         INT_MIN_BITS, ALL_ONES, sgn, wrap, in32, M32, H32 in *;
  unfold add32, sub32, neg32, min_i32, max_i32, min_u32, max_u32, lt_i32, lt_u32, wrap, sgn, M32, H32 in *.
Ltac tpl :=
  intros; teval;
  first [ lazymatch goal with |- ?x = ?x => reflexivity end
        | unfold_specs;
          repeat match goal with b : bool |- _ => destruct b end; cbn [orb andb negb xorb Bool.eqb]; cbv iota;
          crunch; try (exfalso; lia); try (lazymatch goal with |- ?x = ?x => reflexivity end); repeat f_equal; try lia ].


Lemma hlsl_Add_i32_correct : forall (a : Z) (b : Z), in32 a -> in32 b -> 
  eval_template h_Add_i32 [("a", TScal KInt, VI32 a); ("b", TScal KInt, VI32 b)] t_Add_i32 = Done (VI32 (add32 a b)).
Proof. tpl. Qed.

Lemma hlsl_Subtract_i32_correct : forall (a : Z) (b : Z), in32 a -> in32 b -> 
  eval_template h_Subtract_i32 [("a", TScal KInt, VI32 a); ("b", TScal KInt, VI32 b)] t_Subtract_i32 = Done (VI32 (sub32 a b)).
Proof. tpl. Qed.

Lemma hlsl_Multiply_i32_correct : forall (a : Z) (b : Z), in32 a -> in32 b -> 
  eval_template h_Multiply_i32 [("a", TScal KInt, VI32 a); ("b", TScal KInt, VI32 b)] t_Multiply_i32 = Done (VI32 (mul32 a b)).
Proof. tpl. Qed.

Lemma hlsl_Divide_i32_correct : forall (a : Z) (b : Z), in32 a -> in32 b -> 
  eval_template h_Divide_i32 [("a", TScal KInt, VI32 a); ("b", TScal KInt, VI32 b)] t_Divide_i32 = Done (VI32 (div_i32 a b)).
Proof. tpl. Qed.

Lemma hlsl_Equal_i32_correct : forall (a : Z) (b : Z), in32 a -> in32 b -> 
  eval_template h_Equal_i32 [("a", TScal KInt, VI32 a); ("b", TScal KInt, VI32 b)] t_Equal_i32 = Done (VBool (a =? b)).
Proof. tpl. Qed.

Lemma hlsl_NotEqual_i32_correct : forall (a : Z) (b : Z), in32 a -> in32 b -> 
  eval_template h_NotEqual_i32 [("a", TScal KInt, VI32 a); ("b", TScal KInt, VI32 b)] t_NotEqual_i32 = Done (VBool (negb (a =? b))).
Proof. tpl. Qed.

Lemma hlsl_Less_i32_correct : forall (a : Z) (b : Z), in32 a -> in32 b -> 
  eval_template h_Less_i32 [("a", TScal KInt, VI32 a); ("b", TScal KInt, VI32 b)] t_Less_i32 = Done (VBool (lt_i32 a b)).
Proof. tpl. Qed.

Lemma hlsl_LessEqual_i32_correct : forall (a : Z) (b : Z), in32 a -> in32 b -> 
  eval_template h_LessEqual_i32 [("a", TScal KInt, VI32 a); ("b", TScal KInt, VI32 b)] t_LessEqual_i32 = Done (VBool (le_i32 a b)).
Proof. tpl. Qed.

Lemma hlsl_Greater_i32_correct : forall (a : Z) (b : Z), in32 a -> in32 b -> 
  eval_template h_Greater_i32 [("a", TScal KInt, VI32 a); ("b", TScal KInt, VI32 b)] t_Greater_i32 = Done (VBool (lt_i32 b a)).
Proof. tpl. Qed.

Lemma hlsl_GreaterEqual_i32_correct : forall (a : Z) (b : Z), in32 a -> in32 b -> 
  eval_template h_GreaterEqual_i32 [("a", TScal KInt, VI32 a); ("b", TScal KInt, VI32 b)] t_GreaterEqual_i32 = Done (VBool (le_i32 b a)).
Proof. tpl. Qed.

Lemma hlsl_Add_u32_correct : forall (a : Z) (b : Z), in32 a -> in32 b -> 
  eval_template h_Add_u32 [("a", TScal KUint, VU32 a); ("b", TScal KUint, VU32 b)] t_Add_u32 = Done (VU32 (add32 a b)).
Proof. tpl. Qed.

Lemma hlsl_Subtract_u32_correct : forall (a : Z) (b : Z), in32 a -> in32 b -> 
  eval_template h_Subtract_u32 [("a", TScal KUint, VU32 a); ("b", TScal KUint, VU32 b)] t_Subtract_u32 = Done (VU32 (sub32 a b)).
Proof. tpl. Qed.

Lemma hlsl_Multiply_u32_correct : forall (a : Z) (b : Z), in32 a -> in32 b -> 
  eval_template h_Multiply_u32 [("a", TScal KUint, VU32 a); ("b", TScal KUint, VU32 b)] t_Multiply_u32 = Done (VU32 (mul32 a b)).
Proof. tpl. Qed.

Lemma hlsl_Divide_u32_correct : forall (a : Z) (b : Z), in32 a -> in32 b -> 
  eval_template h_Divide_u32 [("a", TScal KUint, VU32 a); ("b", TScal KUint, VU32 b)] t_Divide_u32 = Done (VU32 (div_u32 a b)).
Proof. tpl. Qed.

Lemma hlsl_Modulo_u32_correct : forall (a : Z) (b : Z), in32 a -> in32 b -> 
  eval_template h_Modulo_u32 [("a", TScal KUint, VU32 a); ("b", TScal KUint, VU32 b)] t_Modulo_u32 = Done (VU32 (rem_u32 a b)).
Proof. tpl. Qed.

Lemma hlsl_Equal_u32_correct : forall (a : Z) (b : Z), in32 a -> in32 b -> 
  eval_template h_Equal_u32 [("a", TScal KUint, VU32 a); ("b", TScal KUint, VU32 b)] t_Equal_u32 = Done (VBool (a =? b)).
Proof. tpl. Qed.

Lemma hlsl_NotEqual_u32_correct : forall (a : Z) (b : Z), in32 a -> in32 b -> 
  eval_template h_NotEqual_u32 [("a", TScal KUint, VU32 a); ("b", TScal KUint, VU32 b)] t_NotEqual_u32 = Done (VBool (negb (a =? b))).
Proof. tpl. Qed.

Lemma hlsl_Less_u32_correct : forall (a : Z) (b : Z), in32 a -> in32 b -> 
  eval_template h_Less_u32 [("a", TScal KUint, VU32 a); ("b", TScal KUint, VU32 b)] t_Less_u32 = Done (VBool (lt_u32 a b)).
Proof. tpl. Qed.

Lemma hlsl_LessEqual_u32_correct : forall (a : Z) (b : Z), in32 a -> in32 b -> 
  eval_template h_LessEqual_u32 [("a", TScal KUint, VU32 a); ("b", TScal KUint, VU32 b)] t_LessEqual_u32 = Done (VBool (le_u32 a b)).
Proof. tpl. Qed.

Lemma hlsl_Greater_u32_correct : forall (a : Z) (b : Z), in32 a -> in32 b -> 
  eval_template h_Greater_u32 [("a", TScal KUint, VU32 a); ("b", TScal KUint, VU32 b)] t_Greater_u32 = Done (VBool (lt_u32 b a)).
Proof. tpl. Qed.

Lemma hlsl_GreaterEqual_u32_correct : forall (a : Z) (b : Z), in32 a -> in32 b -> 
  eval_template h_GreaterEqual_u32 [("a", TScal KUint, VU32 a); ("b", TScal KUint, VU32 b)] t_GreaterEqual_u32 = Done (VBool (le_u32 b a)).
Proof. tpl. Qed.

Lemma hlsl_Add_f32_correct : forall (a : Z) (b : Z), in32 a -> in32 b -> 
  eval_template h_Add_f32 [("a", TScal KFloat, VF32 a); ("b", TScal KFloat, VF32 b)] t_Add_f32 = Done (VF32 (fadd a b)).
Proof. tpl. Qed.

Lemma hlsl_Subtract_f32_correct : forall (a : Z) (b : Z), in32 a -> in32 b -> 
  eval_template h_Subtract_f32 [("a", TScal KFloat, VF32 a); ("b", TScal KFloat, VF32 b)] t_Subtract_f32 = Done (VF32 (fsub a b)).
Proof. tpl. Qed.

Lemma hlsl_Multiply_f32_correct : forall (a : Z) (b : Z), in32 a -> in32 b -> 
  eval_template h_Multiply_f32 [("a", TScal KFloat, VF32 a); ("b", TScal KFloat, VF32 b)] t_Multiply_f32 = Done (VF32 (fmul a b)).
Proof. tpl. Qed.

Lemma hlsl_Divide_f32_correct : forall (a : Z) (b : Z), in32 a -> in32 b -> 
  eval_template h_Divide_f32 [("a", TScal KFloat, VF32 a); ("b", TScal KFloat, VF32 b)] t_Divide_f32 = Done (VF32 (fdiv a b)).
Proof. tpl. Qed.

Lemma hlsl_Equal_f32_correct : forall (a : Z) (b : Z), in32 a -> in32 b -> 
  eval_template h_Equal_f32 [("a", TScal KFloat, VF32 a); ("b", TScal KFloat, VF32 b)] t_Equal_f32 = Done (VBool (feq a b)).
Proof. tpl. Qed.

Lemma hlsl_NotEqual_f32_correct : forall (a : Z) (b : Z), in32 a -> in32 b -> 
  eval_template h_NotEqual_f32 [("a", TScal KFloat, VF32 a); ("b", TScal KFloat, VF32 b)] t_NotEqual_f32 = Done (VBool (fne a b)).
Proof. tpl. Qed.

Lemma hlsl_Less_f32_correct : forall (a : Z) (b : Z), in32 a -> in32 b -> 
  eval_template h_Less_f32 [("a", TScal KFloat, VF32 a); ("b", TScal KFloat, VF32 b)] t_Less_f32 = Done (VBool (flt a b)).
Proof. tpl. Qed.

Lemma hlsl_LessEqual_f32_correct : forall (a : Z) (b : Z), in32 a -> in32 b -> 
  eval_template h_LessEqual_f32 [("a", TScal KFloat, VF32 a); ("b", TScal KFloat, VF32 b)] t_LessEqual_f32 = Done (VBool (fle a b)).
Proof. tpl. Qed.

Lemma hlsl_Greater_f32_correct : forall (a : Z) (b : Z), in32 a -> in32 b -> 
  eval_template h_Greater_f32 [("a", TScal KFloat, VF32 a); ("b", TScal KFloat, VF32 b)] t_Greater_f32 = Done (VBool (fgt a b)).
Proof. tpl. Qed.

Lemma hlsl_GreaterEqual_f32_correct : forall (a : Z) (b : Z), in32 a -> in32 b -> 
  eval_template h_GreaterEqual_f32 [("a", TScal KFloat, VF32 a); ("b", TScal KFloat, VF32 b)] t_GreaterEqual_f32 = Done (VBool (fge a b)).
Proof. tpl. Qed.

Lemma hlsl_And_i32_correct : forall (a : Z) (b : Z), in32 a -> in32 b -> 
  eval_template h_And_i32 [("a", TScal KInt, VI32 a); ("b", TScal KInt, VI32 b)] t_And_i32 = Done (VI32 (and32 a b)).
Proof. tpl. Qed.

Lemma hlsl_InclusiveOr_i32_correct : forall (a : Z) (b : Z), in32 a -> in32 b -> 
  eval_template h_InclusiveOr_i32 [("a", TScal KInt, VI32 a); ("b", TScal KInt, VI32 b)] t_InclusiveOr_i32 = Done (VI32 (or32 a b)).
Proof. tpl. Qed.

Lemma hlsl_ExclusiveOr_i32_correct : forall (a : Z) (b : Z), in32 a -> in32 b -> 
  eval_template h_ExclusiveOr_i32 [("a", TScal KInt, VI32 a); ("b", TScal KInt, VI32 b)] t_ExclusiveOr_i32 = Done (VI32 (xor32 a b)).
Proof. tpl. Qed.

Lemma hlsl_BitwiseNot_i32_correct : forall (a : Z), in32 a -> 
  eval_template h_BitwiseNot_i32 [("a", TScal KInt, VI32 a)] t_BitwiseNot_i32 = Done (VI32 (not32 a)).
Proof. tpl. Qed.

Lemma hlsl_And_u32_correct : forall (a : Z) (b : Z), in32 a -> in32 b -> 
  eval_template h_And_u32 [("a", TScal KUint, VU32 a); ("b", TScal KUint, VU32 b)] t_And_u32 = Done (VU32 (and32 a b)).
Proof. tpl. Qed.

Lemma hlsl_InclusiveOr_u32_correct : forall (a : Z) (b : Z), in32 a -> in32 b -> 
  eval_template h_InclusiveOr_u32 [("a", TScal KUint, VU32 a); ("b", TScal KUint, VU32 b)] t_InclusiveOr_u32 = Done (VU32 (or32 a b)).
Proof. tpl. Qed.

Lemma hlsl_ExclusiveOr_u32_correct : forall (a : Z) (b : Z), in32 a -> in32 b -> 
  eval_template h_ExclusiveOr_u32 [("a", TScal KUint, VU32 a); ("b", TScal KUint, VU32 b)] t_ExclusiveOr_u32 = Done (VU32 (xor32 a b)).
Proof. tpl. Qed.

Lemma hlsl_BitwiseNot_u32_correct : forall (a : Z), in32 a -> 
  eval_template h_BitwiseNot_u32 [("a", TScal KUint, VU32 a)] t_BitwiseNot_u32 = Done (VU32 (not32 a)).
Proof. tpl. Qed.

Lemma hlsl_And_bool_correct : forall (a : bool) (b : bool), 
  eval_template h_And_bool [("a", TScal KBool, VBool a); ("b", TScal KBool, VBool b)] t_And_bool = Done (VBool (andb a b)).
Proof. tpl. Qed.

Lemma hlsl_InclusiveOr_bool_correct : forall (a : bool) (b : bool), 
  eval_template h_InclusiveOr_bool [("a", TScal KBool, VBool a); ("b", TScal KBool, VBool b)] t_InclusiveOr_bool = Done (VBool (orb a b)).
Proof. tpl. Qed.

Lemma hlsl_Equal_bool_correct : forall (a : bool) (b : bool), 
  eval_template h_Equal_bool [("a", TScal KBool, VBool a); ("b", TScal KBool, VBool b)] t_Equal_bool = Done (VBool (Bool.eqb a b)).
Proof. tpl. Qed.

Lemma hlsl_NotEqual_bool_correct : forall (a : bool) (b : bool), 
  eval_template h_NotEqual_bool [("a", TScal KBool, VBool a); ("b", TScal KBool, VBool b)] t_NotEqual_bool = Done (VBool (negb (Bool.eqb a b))).
Proof. tpl. Qed.

Lemma hlsl_LogicalNot_bool_correct : forall (a : bool), 
  eval_template h_LogicalNot_bool [("a", TScal KBool, VBool a)] t_LogicalNot_bool = Done (VBool (negb a)).
Proof. tpl. Qed.

Lemma hlsl_Negate_i32_correct : forall (a : Z), in32 a -> 
  eval_template h_Negate_i32 [("a", TScal KInt, VI32 a)] t_Negate_i32 = Done (VI32 (neg32 a)).
Proof. tpl. Qed.

Lemma hlsl_Negate_f32_correct : forall (a : Z), in32 a -> 
  eval_template h_Negate_f32 [("a", TScal KFloat, VF32 a)] t_Negate_f32 = Done (VF32 (fneg a)).
Proof. tpl. Qed.

Lemma hlsl_Select_i32_correct : forall (a : Z) (b : Z) (c : bool), in32 a -> in32 b -> 
  eval_template h_Select_i32 [("a", TScal KInt, VI32 a); ("b", TScal KInt, VI32 b); ("c", TScal KBool, VBool c)] t_Select_i32 = Done (VI32 (if c then b else a)).
Proof. tpl. Qed.

Lemma hlsl_Select_u32_correct : forall (a : Z) (b : Z) (c : bool), in32 a -> in32 b -> 
  eval_template h_Select_u32 [("a", TScal KUint, VU32 a); ("b", TScal KUint, VU32 b); ("c", TScal KBool, VBool c)] t_Select_u32 = Done (VU32 (if c then b else a)).
Proof. tpl. Qed.

Lemma hlsl_Select_f32_correct : forall (a : Z) (b : Z) (c : bool), in32 a -> in32 b -> 
  eval_template h_Select_f32 [("a", TScal KFloat, VF32 a); ("b", TScal KFloat, VF32 b); ("c", TScal KBool, VBool c)] t_Select_f32 = Done (VF32 (if c then b else a)).
Proof. tpl. Qed.

Lemma hlsl_Select_bool_correct : forall (a : bool) (b : bool) (c : bool), 
  eval_template h_Select_bool [("a", TScal KBool, VBool a); ("b", TScal KBool, VBool b); ("c", TScal KBool, VBool c)] t_Select_bool = Done (VBool (if c then b else a)).
Proof. tpl. Qed.

Lemma hlsl_MathAbs_i32_correct : forall (a : Z), in32 a -> 
  eval_template h_MathAbs_i32 [("a", TScal KInt, VI32 a)] t_MathAbs_i32 = Done (VI32 (abs_i32 a)).
Proof. tpl. Qed.

Lemma hlsl_MathMin_i32_correct : forall (a : Z) (b : Z), in32 a -> in32 b -> 
  eval_template h_MathMin_i32 [("a", TScal KInt, VI32 a); ("b", TScal KInt, VI32 b)] t_MathMin_i32 = Done (VI32 (min_i32 a b)).
Proof. tpl. Qed.

Lemma hlsl_MathMax_i32_correct : forall (a : Z) (b : Z), in32 a -> in32 b -> 
  eval_template h_MathMax_i32 [("a", TScal KInt, VI32 a); ("b", TScal KInt, VI32 b)] t_MathMax_i32 = Done (VI32 (max_i32 a b)).
Proof. tpl. Qed.

Lemma hlsl_MathClamp_i32_correct : forall (a : Z) (b : Z) (c : Z), in32 a -> in32 b -> in32 c -> 
  eval_template h_MathClamp_i32 [("a", TScal KInt, VI32 a); ("b", TScal KInt, VI32 b); ("c", TScal KInt, VI32 c)] t_MathClamp_i32 = Done (VI32 (clamp_i32 a b c)).
Proof. tpl. Qed.

Lemma hlsl_MathAbs_u32_correct : forall (a : Z), in32 a -> 
  eval_template h_MathAbs_u32 [("a", TScal KUint, VU32 a)] t_MathAbs_u32 = Done (VU32 (a)).
Proof. tpl. Qed.

Lemma hlsl_MathMin_u32_correct : forall (a : Z) (b : Z), in32 a -> in32 b -> 
  eval_template h_MathMin_u32 [("a", TScal KUint, VU32 a); ("b", TScal KUint, VU32 b)] t_MathMin_u32 = Done (VU32 (min_u32 a b)).
Proof. tpl. Qed.

Lemma hlsl_MathMax_u32_correct : forall (a : Z) (b : Z), in32 a -> in32 b -> 
  eval_template h_MathMax_u32 [("a", TScal KUint, VU32 a); ("b", TScal KUint, VU32 b)] t_MathMax_u32 = Done (VU32 (max_u32 a b)).
Proof. tpl. Qed.

Lemma hlsl_MathClamp_u32_correct : forall (a : Z) (b : Z) (c : Z), in32 a -> in32 b -> in32 c -> 
  eval_template h_MathClamp_u32 [("a", TScal KUint, VU32 a); ("b", TScal KUint, VU32 b); ("c", TScal KUint, VU32 c)] t_MathClamp_u32 = Done (VU32 (clamp_u32 a b c)).
Proof. tpl. Qed.

Lemma hlsl_MathAbs_f32_correct : forall (a : Z), in32 a -> 
  eval_template h_MathAbs_f32 [("a", TScal KFloat, VF32 a)] t_MathAbs_f32 = Done (VF32 (fabs a)).
Proof. tpl. Qed.

Lemma hlsl_MathMin_f32_correct : forall (a : Z) (b : Z), in32 a -> in32 b -> 
  eval_template h_MathMin_f32 [("a", TScal KFloat, VF32 a); ("b", TScal KFloat, VF32 b)] t_MathMin_f32 = Done (VF32 (fmin a b)).
Proof. tpl. Qed.

Lemma hlsl_MathMax_f32_correct : forall (a : Z) (b : Z), in32 a -> in32 b -> 
  eval_template h_MathMax_f32 [("a", TScal KFloat, VF32 a); ("b", TScal KFloat, VF32 b)] t_MathMax_f32 = Done (VF32 (fmax a b)).
Proof. tpl. Qed.

Lemma hlsl_MathClamp_f32_correct : forall (a : Z) (b : Z) (c : Z), in32 a -> in32 b -> in32 c -> 
  eval_template h_MathClamp_f32 [("a", TScal KFloat, VF32 a); ("b", TScal KFloat, VF32 b); ("c", TScal KFloat, VF32 c)] t_MathClamp_f32 = Done (VF32 (fmin (fmax a b) c)).
Proof. tpl. Qed.

Lemma hlsl_MathSign_i32_correct : forall (a : Z), in32 a -> 
  eval_template h_MathSign_i32 [("a", TScal KInt, VI32 a)] t_MathSign_i32 = Done (VI32 (sign_i32 a)).
Proof. tpl. Qed.

Lemma hlsl_MathCountOneBits_i32_correct : forall (a : Z), in32 a -> 
  eval_template h_MathCountOneBits_i32 [("a", TScal KInt, VI32 a)] t_MathCountOneBits_i32 = Done (VI32 (count_one_bits a)).
Proof. tpl. Qed.

Lemma hlsl_MathReverseBits_i32_correct : forall (a : Z), in32 a -> 
  eval_template h_MathReverseBits_i32 [("a", TScal KInt, VI32 a)] t_MathReverseBits_i32 = Done (VI32 (reverse_bits a)).
Proof. tpl. Qed.

Lemma hlsl_MathCountOneBits_u32_correct : forall (a : Z), in32 a -> 
  eval_template h_MathCountOneBits_u32 [("a", TScal KUint, VU32 a)] t_MathCountOneBits_u32 = Done (VU32 (count_one_bits a)).
Proof. tpl. Qed.

Lemma hlsl_MathReverseBits_u32_correct : forall (a : Z), in32 a -> 
  eval_template h_MathReverseBits_u32 [("a", TScal KUint, VU32 a)] t_MathReverseBits_u32 = Done (VU32 (reverse_bits a)).
Proof. tpl. Qed.

Lemma hlsl_MathFloor_f32_correct : forall (a : Z), in32 a -> 
  eval_template h_MathFloor_f32 [("a", TScal KFloat, VF32 a)] t_MathFloor_f32 = Done (VF32 (ffloor a)).
Proof. tpl. Qed.

Lemma hlsl_MathCeil_f32_correct : forall (a : Z), in32 a -> 
  eval_template h_MathCeil_f32 [("a", TScal KFloat, VF32 a)] t_MathCeil_f32 = Done (VF32 (fceil a)).
Proof. tpl. Qed.

Lemma hlsl_MathTrunc_f32_correct : forall (a : Z), in32 a -> 
  eval_template h_MathTrunc_f32 [("a", TScal KFloat, VF32 a)] t_MathTrunc_f32 = Done (VF32 (ftrunc a)).
Proof. tpl. Qed.

Lemma hlsl_MathRound_f32_correct : forall (a : Z), in32 a -> 
  eval_template h_MathRound_f32 [("a", TScal KFloat, VF32 a)] t_MathRound_f32 = Done (VF32 (fround a)).
Proof. tpl. Qed.

Lemma hlsl_MathSqrt_f32_correct : forall (a : Z), in32 a -> 
  eval_template h_MathSqrt_f32 [("a", TScal KFloat, VF32 a)] t_MathSqrt_f32 = Done (VF32 (fsqrt a)).
Proof. tpl. Qed.

Lemma hlsl_MathSaturate_f32_correct : forall (a : Z), in32 a -> 
  eval_template h_MathSaturate_f32 [("a", TScal KFloat, VF32 a)] t_MathSaturate_f32 = Done (VF32 (fmin (fmax a 0) 1065353216)).
Proof. tpl. Qed.

Lemma hlsl_MathFma_f32_correct : forall (a : Z) (b : Z) (c : Z), in32 a -> in32 b -> in32 c -> 
  eval_template h_MathFma_f32 [("a", TScal KFloat, VF32 a); ("b", TScal KFloat, VF32 b); ("c", TScal KFloat, VF32 c)] t_MathFma_f32 = Done (VF32 (ffma a b c)).
Proof. tpl. Qed.

Lemma hlsl_As_u32_i32_correct : forall (a : Z), in32 a -> 
  eval_template h_As_u32_i32 [("a", TScal KInt, VI32 a)] t_As_u32_i32 = Done (VU32 (a)).
Proof. tpl. Qed.

Lemma hlsl_As_f32_i32_correct : forall (a : Z), in32 a -> 
  eval_template h_As_f32_i32 [("a", TScal KInt, VI32 a)] t_As_f32_i32 = Done (VF32 (f32_of_i32 a)).
Proof. tpl. Qed.

Lemma hlsl_As_bool_i32_correct : forall (a : Z), in32 a -> 
  eval_template h_As_bool_i32 [("a", TScal KInt, VI32 a)] t_As_bool_i32 = Done (VBool (bool_of_32 a)).
Proof. tpl. Qed.

Lemma hlsl_As_i32_u32_correct : forall (a : Z), in32 a -> 
  eval_template h_As_i32_u32 [("a", TScal KUint, VU32 a)] t_As_i32_u32 = Done (VI32 (a)).
Proof. tpl. Qed.

Lemma hlsl_As_f32_u32_correct : forall (a : Z), in32 a -> 
  eval_template h_As_f32_u32 [("a", TScal KUint, VU32 a)] t_As_f32_u32 = Done (VF32 (f32_of_u32 a)).
Proof. tpl. Qed.

Lemma hlsl_As_bool_u32_correct : forall (a : Z), in32 a -> 
  eval_template h_As_bool_u32 [("a", TScal KUint, VU32 a)] t_As_bool_u32 = Done (VBool (bool_of_32 a)).
Proof. tpl. Qed.

Lemma hlsl_As_bool_f32_correct : forall (a : Z), in32 a -> 
  eval_template h_As_bool_f32 [("a", TScal KFloat, VF32 a)] t_As_bool_f32 = Done (VBool (negb (feq a 0))).
Proof. tpl. Qed.

Lemma hlsl_As_i32_bool_correct : forall (a : bool), 
  eval_template h_As_i32_bool [("a", TScal KBool, VBool a)] t_As_i32_bool = Done (VI32 (u32_of_bool a)).
Proof. tpl. Qed.

Lemma hlsl_As_u32_bool_correct : forall (a : bool), 
  eval_template h_As_u32_bool [("a", TScal KBool, VBool a)] t_As_u32_bool = Done (VU32 (u32_of_bool a)).
Proof. tpl. Qed.

Lemma hlsl_As_f32_bool_correct : forall (a : bool), 
  eval_template h_As_f32_bool [("a", TScal KBool, VBool a)] t_As_f32_bool = Done (VF32 (if a then 1065353216 else 0)).
Proof. tpl. Qed.

Lemma hlsl_Bitcast_u32_i32_correct : forall (a : Z), in32 a -> 
  eval_template h_Bitcast_u32_i32 [("a", TScal KInt, VI32 a)] t_Bitcast_u32_i32 = Done (VU32 (a)).
Proof. tpl. Qed.

Lemma hlsl_Bitcast_f32_i32_correct : forall (a : Z), in32 a -> 
  eval_template h_Bitcast_f32_i32 [("a", TScal KInt, VI32 a)] t_Bitcast_f32_i32 = Done (VF32 (a)).
Proof. tpl. Qed.

Lemma hlsl_Bitcast_i32_u32_correct : forall (a : Z), in32 a -> 
  eval_template h_Bitcast_i32_u32 [("a", TScal KUint, VU32 a)] t_Bitcast_i32_u32 = Done (VI32 (a)).
Proof. tpl. Qed.

Lemma hlsl_Bitcast_f32_u32_correct : forall (a : Z), in32 a -> 
  eval_template h_Bitcast_f32_u32 [("a", TScal KUint, VU32 a)] t_Bitcast_f32_u32 = Done (VF32 (a)).
Proof. tpl. Qed.

Lemma hlsl_Bitcast_i32_f32_correct : forall (a : Z), in32 a -> 
  eval_template h_Bitcast_i32_f32 [("a", TScal KFloat, VF32 a)] t_Bitcast_i32_f32 = Done (VI32 (a)).
Proof. tpl. Qed.

Lemma hlsl_Bitcast_u32_f32_correct : forall (a : Z), in32 a -> 
  eval_template h_Bitcast_u32_f32 [("a", TScal KFloat, VF32 a)] t_Bitcast_u32_f32 = Done (VU32 (a)).
Proof. tpl. Qed.

Lemma hlsl_SelectScalarCond_i32_correct : forall (a : Z) (b : Z) (c : bool), in32 a -> in32 b -> 
  eval_template h_SelectScalarCond_i32 [("a", TScal KInt, VI32 a); ("b", TScal KInt, VI32 b); ("c", TScal KBool, VBool c)] t_SelectScalarCond_i32 = Done (VI32 (if c then b else a)).
Proof. tpl. Qed.

Lemma hlsl_SelectScalarCond_u32_correct : forall (a : Z) (b : Z) (c : bool), in32 a -> in32 b -> 
  eval_template h_SelectScalarCond_u32 [("a", TScal KUint, VU32 a); ("b", TScal KUint, VU32 b); ("c", TScal KBool, VBool c)] t_SelectScalarCond_u32 = Done (VU32 (if c then b else a)).
Proof. tpl. Qed.

Lemma hlsl_SelectScalarCond_f32_correct : forall (a : Z) (b : Z) (c : bool), in32 a -> in32 b -> 
  eval_template h_SelectScalarCond_f32 [("a", TScal KFloat, VF32 a); ("b", TScal KFloat, VF32 b); ("c", TScal KBool, VBool c)] t_SelectScalarCond_f32 = Done (VF32 (if c then b else a)).
Proof. tpl. Qed.

Lemma hlsl_SelectScalarCond_bool_correct : forall (a : bool) (b : bool) (c : bool), 
  eval_template h_SelectScalarCond_bool [("a", TScal KBool, VBool a); ("b", TScal KBool, VBool b); ("c", TScal KBool, VBool c)] t_SelectScalarCond_bool = Done (VBool (if c then b else a)).
Proof. tpl. Qed.

Lemma hlsl_AddVecScalar_i32_correct : forall (a : Z) (b : Z), in32 a -> in32 b -> 
  eval_template h_AddVecScalar_i32 [("a", TScal KInt, VI32 a); ("b", TScal KInt, VI32 b)] t_AddVecScalar_i32 = Done (VI32 (add32 a b)).
Proof. tpl. Qed.

Lemma hlsl_AddScalarVec_i32_correct : forall (a : Z) (b : Z), in32 a -> in32 b -> 
  eval_template h_AddScalarVec_i32 [("a", TScal KInt, VI32 a); ("b", TScal KInt, VI32 b)] t_AddScalarVec_i32 = Done (VI32 (add32 a b)).
Proof. tpl. Qed.

Lemma hlsl_MultiplyVecScalar_i32_correct : forall (a : Z) (b : Z), in32 a -> in32 b -> 
  eval_template h_MultiplyVecScalar_i32 [("a", TScal KInt, VI32 a); ("b", TScal KInt, VI32 b)] t_MultiplyVecScalar_i32 = Done (VI32 (mul32 a b)).
Proof. tpl. Qed.

Lemma hlsl_MultiplyScalarVec_i32_correct : forall (a : Z) (b : Z), in32 a -> in32 b -> 
  eval_template h_MultiplyScalarVec_i32 [("a", TScal KInt, VI32 a); ("b", TScal KInt, VI32 b)] t_MultiplyScalarVec_i32 = Done (VI32 (mul32 a b)).
Proof. tpl. Qed.

Lemma hlsl_DivideVecScalar_i32_correct : forall (a : Z) (b : Z), in32 a -> in32 b -> 
  eval_template h_DivideVecScalar_i32 [("a", TScal KInt, VI32 a); ("b", TScal KInt, VI32 b)] t_DivideVecScalar_i32 = Done (VI32 (div_i32 a b)).
Proof. tpl. Qed.

Lemma hlsl_DivideScalarVec_i32_correct : forall (a : Z) (b : Z), in32 a -> in32 b -> 
  eval_template h_DivideScalarVec_i32 [("a", TScal KInt, VI32 a); ("b", TScal KInt, VI32 b)] t_DivideScalarVec_i32 = Done (VI32 (div_i32 a b)).
Proof. tpl. Qed.

Lemma hlsl_AddVecScalar_u32_correct : forall (a : Z) (b : Z), in32 a -> in32 b -> 
  eval_template h_AddVecScalar_u32 [("a", TScal KUint, VU32 a); ("b", TScal KUint, VU32 b)] t_AddVecScalar_u32 = Done (VU32 (add32 a b)).
Proof. tpl. Qed.

Lemma hlsl_AddScalarVec_u32_correct : forall (a : Z) (b : Z), in32 a -> in32 b -> 
  eval_template h_AddScalarVec_u32 [("a", TScal KUint, VU32 a); ("b", TScal KUint, VU32 b)] t_AddScalarVec_u32 = Done (VU32 (add32 a b)).
Proof. tpl. Qed.

Lemma hlsl_MultiplyVecScalar_u32_correct : forall (a : Z) (b : Z), in32 a -> in32 b -> 
  eval_template h_MultiplyVecScalar_u32 [("a", TScal KUint, VU32 a); ("b", TScal KUint, VU32 b)] t_MultiplyVecScalar_u32 = Done (VU32 (mul32 a b)).
Proof. tpl. Qed.

Lemma hlsl_MultiplyScalarVec_u32_correct : forall (a : Z) (b : Z), in32 a -> in32 b -> 
  eval_template h_MultiplyScalarVec_u32 [("a", TScal KUint, VU32 a); ("b", TScal KUint, VU32 b)] t_MultiplyScalarVec_u32 = Done (VU32 (mul32 a b)).
Proof. tpl. Qed.

Lemma hlsl_DivideVecScalar_u32_correct : forall (a : Z) (b : Z), in32 a -> in32 b -> 
  eval_template h_DivideVecScalar_u32 [("a", TScal KUint, VU32 a); ("b", TScal KUint, VU32 b)] t_DivideVecScalar_u32 = Done (VU32 (div_u32 a b)).
Proof. tpl. Qed.

Lemma hlsl_DivideScalarVec_u32_correct : forall (a : Z) (b : Z), in32 a -> in32 b -> 
  eval_template h_DivideScalarVec_u32 [("a", TScal KUint, VU32 a); ("b", TScal KUint, VU32 b)] t_DivideScalarVec_u32 = Done (VU32 (div_u32 a b)).
Proof. tpl. Qed.

Lemma hlsl_AddVecScalar_f32_correct : forall (a : Z) (b : Z), in32 a -> in32 b -> 
  eval_template h_AddVecScalar_f32 [("a", TScal KFloat, VF32 a); ("b", TScal KFloat, VF32 b)] t_AddVecScalar_f32 = Done (VF32 (fadd a b)).
Proof. tpl. Qed.

Lemma hlsl_AddScalarVec_f32_correct : forall (a : Z) (b : Z), in32 a -> in32 b -> 
  eval_template h_AddScalarVec_f32 [("a", TScal KFloat, VF32 a); ("b", TScal KFloat, VF32 b)] t_AddScalarVec_f32 = Done (VF32 (fadd a b)).
Proof. tpl. Qed.

Lemma hlsl_MultiplyVecScalar_f32_correct : forall (a : Z) (b : Z), in32 a -> in32 b -> 
  eval_template h_MultiplyVecScalar_f32 [("a", TScal KFloat, VF32 a); ("b", TScal KFloat, VF32 b)] t_MultiplyVecScalar_f32 = Done (VF32 (fmul a b)).
Proof. tpl. Qed.

Lemma hlsl_MultiplyScalarVec_f32_correct : forall (a : Z) (b : Z), in32 a -> in32 b -> 
  eval_template h_MultiplyScalarVec_f32 [("a", TScal KFloat, VF32 a); ("b", TScal KFloat, VF32 b)] t_MultiplyScalarVec_f32 = Done (VF32 (fmul a b)).
Proof. tpl. Qed.

Lemma hlsl_DivideVecScalar_f32_correct : forall (a : Z) (b : Z), in32 a -> in32 b -> 
  eval_template h_DivideVecScalar_f32 [("a", TScal KFloat, VF32 a); ("b", TScal KFloat, VF32 b)] t_DivideVecScalar_f32 = Done (VF32 (fdiv a b)).
Proof. tpl. Qed.

Lemma hlsl_DivideScalarVec_f32_correct : forall (a : Z) (b : Z), in32 a -> in32 b -> 
  eval_template h_DivideScalarVec_f32 [("a", TScal KFloat, VF32 a); ("b", TScal KFloat, VF32 b)] t_DivideScalarVec_f32 = Done (VF32 (fdiv a b)).
Proof. tpl. Qed.

(* ---- lemmas needing their own argument ---- *)
Lemma land31 n : 0 <= n -> Z.land n 31 = n mod 32.
Proof. intros H. change 31 with (Z.ones 5). rewrite Z.land_ones by lia. reflexivity. Qed.

Lemma hlsl_ShiftLeft_i32_correct : forall (a : Z) (b : Z), in32 a -> in32 b -> 
  eval_template h_ShiftLeft_i32 [("a", TScal KInt, VI32 a); ("b", TScal KUint, VU32 b)] t_ShiftLeft_i32 = Done (VI32 (shl32 a b)).
Proof.
  intros a b Ha Hb. teval. unfold shl32, wrap, M32. rewrite land31 by (unfold in32 in Hb; lia). reflexivity.
Qed.

Lemma hlsl_ShiftRight_i32_correct : forall (a : Z) (b : Z), in32 a -> in32 b -> 
  eval_template h_ShiftRight_i32 [("a", TScal KInt, VI32 a); ("b", TScal KUint, VU32 b)] t_ShiftRight_i32 = Done (VI32 (shr_i32 a b)).
Proof.
  intros a b Ha Hb. teval. unfold shr_i32, wrap, sgn, M32, H32. rewrite land31 by (unfold in32 in Hb; lia). reflexivity.
Qed.

Lemma hlsl_ShiftLeft_u32_correct : forall (a : Z) (b : Z), in32 a -> in32 b -> 
  eval_template h_ShiftLeft_u32 [("a", TScal KUint, VU32 a); ("b", TScal KUint, VU32 b)] t_ShiftLeft_u32 = Done (VU32 (shl32 a b)).
Proof.
  intros a b Ha Hb. teval. unfold shl32, wrap, M32. rewrite land31 by (unfold in32 in Hb; lia). reflexivity.
Qed.

Lemma hlsl_ShiftRight_u32_correct : forall (a : Z) (b : Z), in32 a -> in32 b -> 
  eval_template h_ShiftRight_u32 [("a", TScal KUint, VU32 a); ("b", TScal KUint, VU32 b)] t_ShiftRight_u32 = Done (VU32 (shr_u32 a b)).
Proof.
  intros a b Ha Hb. teval. unfold shr_u32. rewrite land31 by (unfold in32 in Hb; lia). reflexivity.
Qed.

Lemma hlsl_MathFirstLeadingBit_u32_correct : forall (a : Z), in32 a -> 
  eval_template h_MathFirstLeadingBit_u32 [("a", TScal KUint, VU32 a)] t_MathFirstLeadingBit_u32 = Done (VU32 (first_leading_bit_u32 a)).
Proof. intros a Ha. teval. reflexivity. Qed.

Lemma hlsl_MathFirstTrailingBit_u32_correct : forall (a : Z), in32 a -> 
  eval_template h_MathFirstTrailingBit_u32 [("a", TScal KUint, VU32 a)] t_MathFirstTrailingBit_u32 = Done (VU32 (first_trailing_bit a)).
Proof. intros a Ha. teval. reflexivity. Qed.

Lemma hlsl_MathFirstTrailingBit_i32_correct : forall (a : Z), in32 a -> 
  eval_template h_MathFirstTrailingBit_i32 [("a", TScal KInt, VI32 a)] t_MathFirstTrailingBit_i32 = Done (VI32 (first_trailing_bit a)).
Proof. intros a Ha. teval. reflexivity. Qed.

Lemma hlsl_MathFirstLeadingBit_i32_correct : forall (a : Z), in32 a -> 
  eval_template h_MathFirstLeadingBit_i32 [("a", TScal KInt, VI32 a)] t_MathFirstLeadingBit_i32 = Done (VI32 (first_leading_bit_i32 a)).
Proof.
  intros a Ha. teval. do 2 f_equal.
  unfold first_leading_bit_i32, not32, ALL_ONES, sgn, in32, M32, H32 in *.
  destruct (Z.eqb_spec a 0) as [E0|N0].
  - subst a. reflexivity.
  - destruct (Z.eqb_spec a (4294967296 - 1)) as [E1|N1].
    + subst a. reflexivity.
    + cbn [orb]. destruct (Z.ltb_spec a 2147483648) as [L|G].
      * destruct (Z.ltb_spec a 0); [lia|]. destruct (Z.eqb_spec a 0); [lia|]. reflexivity.
      * destruct (Z.ltb_spec (a - 4294967296) 0); [|lia].
        destruct (Z.eqb_spec (4294967296 - 1 - a) 0); [lia|]. reflexivity.
Qed.

(* naga_mod on int: lhs - (lhs / divisor) * divisor, every operation wrapping *)
Lemma sub_mul_quot_rem sa sd a d :
  a mod 4294967296 = sa mod 4294967296 -> d mod 4294967296 = sd mod 4294967296 ->
  (a - ((sa ÷ sd) mod 4294967296 * d) mod 4294967296) mod 4294967296 = (Z.rem sa sd) mod 4294967296.
Proof.
  intros Ha Hd.
  rewrite Zminus_mod_idemp_r. rewrite Zminus_mod, Z.mul_mod_idemp_l by lia.
  rewrite (Z.mul_mod (sa ÷ sd) d) by lia. rewrite Ha, Hd. rewrite <- Z.mul_mod by lia.
  rewrite <- Zminus_mod. f_equal. pose proof (Z.quot_rem' sa sd). lia.
Qed.

Lemma sgn_mod u : in32 u -> u mod 4294967296 = (if u <? 2147483648 then u else u - 4294967296) mod 4294967296.
Proof.
  unfold in32, M32. intros H. destruct (Z.ltb_spec u 2147483648); [reflexivity|].
  replace (u - 4294967296) with (u + (-1) * 4294967296) by lia. rewrite Z.mod_add by lia. reflexivity.
Qed.

Lemma hlsl_Modulo_i32_correct : forall (a : Z) (b : Z), in32 a -> in32 b -> 
  eval_template h_Modulo_i32 [("a", TScal KInt, VI32 a); ("b", TScal KInt, VI32 b)] t_Modulo_i32 = Done (VI32 (rem_i32 a b)).
Proof.
  intros a b Ha Hb. teval.
  unfold rem_i32, INT_MIN_BITS, ALL_ONES, wrap, sgn, M32, H32. repeat ground_step.
  assert (Hone : forall x, in32 x -> (x - ((if x <? 2147483648 then x else x - 4294967296) ÷ 1) mod 4294967296 * 1 mod 4294967296) mod 4294967296 = 0).
  { intros x Hx. rewrite Z.quot_1_r, Z.mul_1_r. unfold in32, M32 in Hx.
    destruct (Z.ltb_spec x 2147483648); lia. }
  destruct (Z.eqb_spec b 0) as [B0|B0].
  - (* rhs = 0: divisor 1 *)
    subst b. destruct (a =? 2147483648); cbn [andb orb]; cbv iota; repeat ground_step; cbv iota;
      rewrite Hone by assumption; reflexivity.
  - destruct (Z.eqb_spec a 2147483648) as [A|A]; destruct (Z.eqb_spec b 4294967295) as [B|B]; cbn [andb orb]; cbv iota.
    + (* INT_MIN % -1: divisor 1 *)
      repeat ground_step; cbv iota. rewrite Hone by assumption. reflexivity.
    + repeat (match goal with |- context [b =? ?k] => destruct (Z.eqb_spec b k); [first [contradiction | unfold in32, M32 in *; lia]|] end;
              cbn [andb orb]; cbv iota).
      do 2 f_equal. apply sub_mul_quot_rem; apply sgn_mod; assumption.
    + repeat (match goal with |- context [b =? ?k] => destruct (Z.eqb_spec b k); [first [contradiction | unfold in32, M32 in *; lia]|] end;
              cbn [andb orb]; cbv iota).
      do 2 f_equal. apply sub_mul_quot_rem; apply sgn_mod; assumption.
    + repeat (match goal with |- context [b =? ?k] => destruct (Z.eqb_spec b k); [first [contradiction | unfold in32, M32 in *; lia]|] end;
              cbn [andb orb]; cbv iota).
      do 2 f_equal. apply sub_mul_quot_rem; apply sgn_mod; assumption.
Qed.




(* ---- naga_extractBits / naga_insertBits, from the emitted helper bodies (bit-level argument) ---- *)
Lemma land31_small k : 0 <= k <= 31 -> Z.land k 31 = k.
Proof. intros H. rewrite land31 by lia. apply Z.mod_small. lia. Qed.

Lemma extract_u_bits a o c : 0 <= o -> 1 <= c -> o + c <= 32 ->
  Z.shiftr (Z.shiftl a (32 - c - o) mod 4294967296) (32 - c) = Z.land (Z.shiftr a o) (Z.ones c).
Proof.
  intros Ho Hc Hoc. apply Z.bits_inj'. intros n Hn.
  rewrite Z.shiftr_spec by lia. rewrite Z.land_spec, Z.shiftr_spec by lia.
  rewrite Z.testbit_ones_nonneg by lia.
  change 4294967296 with (2 ^ 32).
  destruct (Z.ltb_spec n c).
  - rewrite Z.mod_pow2_bits_low by lia. rewrite Z.shiftl_spec by lia.
    rewrite andb_true_r. f_equal. lia.
  - rewrite Z.mod_pow2_bits_high by lia. rewrite andb_false_r. reflexivity.
Qed.

Lemma hlsl_MathExtractBits_u32_correct : forall (a : Z) (b : Z) (c : Z), in32 a -> in32 b -> in32 c -> 
  eval_template h_MathExtractBits_u32 [("a", TScal KUint, VU32 a); ("b", TScal KUint, VU32 b); ("c", TScal KUint, VU32 c)] t_MathExtractBits_u32 = Done (VU32 (extract_bits_u32 a b c)).
Proof.
  intros a b c Ha Hb Hc. teval. repeat ground_step. do 2 f_equal.
  unfold extract_bits_u32, in32, M32 in *.
  replace (if b <? 32 then b else 32) with (Z.min b 32) by (destruct (Z.ltb_spec b 32); lia).
  set (o := Z.min b 32). assert (Ho : 0 <= o <= 32) by lia.
  rewrite (Z.mod_small (32 - o)) by lia.
  replace (if c <? 32 - o then c else 32 - o) with (Z.min c (32 - o)) by (destruct (Z.ltb_spec c (32 - o)); lia).
  set (k := Z.min c (32 - o)). assert (Hk : 0 <= k <= 32 - o) by lia.
  destruct (Z.eqb_spec k 0) as [K0|K0]; [reflexivity|].
  rewrite (Z.mod_small (32 - k)) by lia. rewrite (Z.mod_small (32 - k - o)) by lia.
  rewrite !land31_small by lia.
  apply extract_u_bits; lia.
Qed.

Lemma extract_i_bits a o c : 0 <= o -> 1 <= c -> o + c <= 32 ->
  (Z.shiftr (if Z.shiftl a (32 - c - o) mod 4294967296 <? 2147483648
             then Z.shiftl a (32 - c - o) mod 4294967296
             else Z.shiftl a (32 - c - o) mod 4294967296 - 4294967296) (32 - c)) mod 4294967296 =
  (if Z.testbit (Z.land (Z.shiftr a o) (Z.ones c)) (c - 1)
   then (Z.land (Z.shiftr a o) (Z.ones c) - Z.shiftl 1 c) mod 4294967296
   else Z.land (Z.shiftr a o) (Z.ones c)).
Proof.
  intros Ho Hc Hoc.
  pose proof (extract_u_bits a o c Ho Hc Hoc) as Hv.
  set (x := Z.shiftl a (32 - c - o) mod 4294967296) in *.
  set (v := Z.land (Z.shiftr a o) (Z.ones c)) in *.
  assert (Hx : 0 <= x < 4294967296) by (apply Z.mod_pos_bound; lia).
  assert (Hvr : 0 <= v < 2 ^ c).
  { unfold v. rewrite Z.land_ones by lia. apply Z.mod_pos_bound. apply Z.pow_pos_nonneg; lia. }
  assert (P32 : 2 ^ c <= 2 ^ 32) by (apply Z.pow_le_mono_r; lia). change (2 ^ 32) with 4294967296 in P32.
  assert (Hbit : Z.testbit v (c - 1) = Z.testbit x 31).
  { rewrite <- Hv. rewrite Z.shiftr_spec by lia. f_equal. lia. }
  rewrite Hbit.
  assert (Hb31 : Z.testbit x 31 = negb (x <? 2147483648)).
  { pose proof (Z.testbit_spec' x 31 ltac:(lia)) as T. change (2 ^ 31) with 2147483648 in T.
    destruct (Z.ltb_spec x 2147483648).
    - rewrite Z.div_small in T by lia. destruct (Z.testbit x 31); [discriminate|reflexivity].
    - assert (x / 2147483648 = 1) by (symmetry; apply Z.div_unique with (r := x - 2147483648); lia).
      rewrite H0 in T. destruct (Z.testbit x 31); [reflexivity|discriminate]. }
  rewrite Hb31.
  destruct (Z.ltb_spec x 2147483648); cbn [negb].
  - rewrite Hv. apply Z.mod_small. lia.
  - rewrite Z.shiftr_div_pow2 by lia. rewrite Z.shiftl_1_l.
    f_equal.
    replace (x - 4294967296) with (x + (- 2 ^ c) * 2 ^ (32 - c)).
    + rewrite Z.div_add by (apply Z.pow_nonzero; lia).
      rewrite <- Z.shiftr_div_pow2 by lia. rewrite Hv. lia.
    + rewrite Z.mul_opp_l. rewrite <- Z.pow_add_r by lia. replace (c + (32 - c)) with 32 by lia. reflexivity.
Qed.

Lemma hlsl_MathExtractBits_i32_correct : forall (a : Z) (b : Z) (c : Z), in32 a -> in32 b -> in32 c -> 
  eval_template h_MathExtractBits_i32 [("a", TScal KInt, VI32 a); ("b", TScal KUint, VU32 b); ("c", TScal KUint, VU32 c)] t_MathExtractBits_i32 = Done (VI32 (extract_bits_i32 a b c)).
Proof.
  intros a b c Ha Hb Hc. teval. repeat ground_step. do 2 f_equal.
  unfold extract_bits_i32, wrap, in32, M32 in *.
  replace (if b <? 32 then b else 32) with (Z.min b 32) by (destruct (Z.ltb_spec b 32); lia).
  set (o := Z.min b 32). assert (Ho : 0 <= o <= 32) by lia.
  rewrite (Z.mod_small (32 - o)) by lia.
  replace (if c <? 32 - o then c else 32 - o) with (Z.min c (32 - o)) by (destruct (Z.ltb_spec c (32 - o)); lia).
  set (k := Z.min c (32 - o)). assert (Hk : 0 <= k <= 32 - o) by lia.
  destruct (Z.eqb_spec k 0) as [K0|K0]; [reflexivity|].
  rewrite (Z.mod_small (32 - k)) by lia. rewrite (Z.mod_small (32 - k - o)) by lia.
  rewrite !land31_small by lia.
  apply extract_i_bits; lia.
Qed.

(* 0xFFFFFFFF >> (32 - c) is the mask of c low bits *)
Lemma ones_shiftr c : 1 <= c <= 32 -> Z.shiftr 4294967295 (32 - c) = Z.ones c.
Proof.
  intros Hc. change 4294967295 with (Z.ones 32).
  apply Z.bits_inj'. intros n Hn. rewrite Z.shiftr_spec by lia.
  rewrite !Z.testbit_ones_nonneg by lia.
  destruct (Z.ltb_spec n c); destruct (Z.ltb_spec (n + (32 - c)) 32); try reflexivity; lia.
Qed.

Lemma hlsl_MathInsertBits_u32_correct : forall (a : Z) (b : Z) (c : Z) (d : Z), in32 a -> in32 b -> in32 c -> in32 d -> 
  eval_template h_MathInsertBits_u32 [("a", TScal KUint, VU32 a); ("b", TScal KUint, VU32 b); ("c", TScal KUint, VU32 c); ("d", TScal KUint, VU32 d)] t_MathInsertBits_u32 = Done (VU32 (insert_bits a b c d)).
Proof.
  intros a b c d Ha Hb Hc Hd. teval. repeat ground_step. do 2 f_equal.
  unfold insert_bits, not32, wrap, ALL_ONES, in32, M32 in *.
  replace (if c <? 32 then c else 32) with (Z.min c 32) by (destruct (Z.ltb_spec c 32); lia).
  set (o := Z.min c 32). assert (Ho : 0 <= o <= 32) by lia.
  rewrite (Z.mod_small (32 - o)) by lia.
  replace (if d <? 32 - o then d else 32 - o) with (Z.min d (32 - o)) by (destruct (Z.ltb_spec d (32 - o)); lia).
  set (k := Z.min d (32 - o)). assert (Hk : 0 <= k <= 32 - o) by lia.
  destruct (Z.eqb_spec k 0) as [K0|K0]; [reflexivity|].
  rewrite (Z.mod_small (32 - k)) by lia.
  rewrite !land31_small by lia.
  rewrite ones_shiftr by lia.
  reflexivity.
Qed.

Lemma hlsl_MathInsertBits_i32_correct : forall (a : Z) (b : Z) (c : Z) (d : Z), in32 a -> in32 b -> in32 c -> in32 d -> 
  eval_template h_MathInsertBits_i32 [("a", TScal KInt, VI32 a); ("b", TScal KInt, VI32 b); ("c", TScal KUint, VU32 c); ("d", TScal KUint, VU32 d)] t_MathInsertBits_i32 = Done (VI32 (insert_bits a b c d)).
Proof.
  intros a b c d Ha Hb Hc Hd. teval. repeat ground_step. do 2 f_equal.
  unfold insert_bits, not32, wrap, ALL_ONES, in32, M32 in *.
  replace (if c <? 32 then c else 32) with (Z.min c 32) by (destruct (Z.ltb_spec c 32); lia).
  set (o := Z.min c 32). assert (Ho : 0 <= o <= 32) by lia.
  rewrite (Z.mod_small (32 - o)) by lia.
  replace (if d <? 32 - o then d else 32 - o) with (Z.min d (32 - o)) by (destruct (Z.ltb_spec d (32 - o)); lia).
  set (k := Z.min d (32 - o)). assert (Hk : 0 <= k <= 32 - o) by lia.
  destruct (Z.eqb_spec k 0) as [K0|K0]; [reflexivity|].
  rewrite (Z.mod_small (32 - k)) by lia.
  rewrite !land31_small by lia.
  rewrite ones_shiftr by lia.
  reflexivity.
Qed.

(* ---- naga_f2i32 / naga_f2u32: int(clamp(value, lo, hi)) from the emitted helper body.
   For every non-NaN operand below 2^31 (2^32) the conversion is defined in HLSL (the clamped float
   is finite and in range) and yields the WGSL value.  Outside that set: NaN is WGSL-indeterminate
   (Base/F32.v picks 0, the helper yields INT_MIN / 0); for operands >= 2^31 (2^32) the helper yields
   2147483520 (4294967040), the largest float below the bound, where Base/F32.v saturates to
   2147483647 (4294967295) - see the examples below and DialectChoices.md. ---- *)
Lemma fneg_T31 : fneg 1325400064 = 3472883712. Proof. vm_compute. reflexivity. Qed.

Lemma hlsl_As_i32_f32_correct : forall (a : Z), in32 a -> f2i32_defined a = true ->
  eval_template h_As_i32_f32 [("a", TScal KFloat, VF32 a)] t_As_i32_f32 = Done (VI32 (i32_of_f32 a)).
Proof.
  intros a Ha Hd. unfold f2i32_defined in Hd. apply andb_prop in Hd. destruct Hd as [H1 H2].
  apply negb_true_iff in H1. apply negb_true_iff in H2.
  pose proof (f2i32_core a H1 H2) as K. cbv zeta in K. unfold FloatConv.LO, FloatConv.HI in K.
  destruct K as (N & R & M).
  teval. rewrite fneg_T31. rewrite N. repeat ground_step.
  assert (X1 : (-2147483648 <=? trunc_or_zero (fmin (fmax a 3472883712) 1325400063)) = true) by (apply Z.leb_le; lia).
  assert (X2 : (trunc_or_zero (fmin (fmax a 3472883712) 1325400063) <? 2147483648) = true) by (apply Z.ltb_lt; lia).
  rewrite X1, X2. cbv iota. rewrite M. reflexivity.
Qed.

Lemma hlsl_As_u32_f32_correct : forall (a : Z), in32 a -> f2u32_defined a = true ->
  eval_template h_As_u32_f32 [("a", TScal KFloat, VF32 a)] t_As_u32_f32 = Done (VU32 (u32_of_f32 a)).
Proof.
  intros a Ha Hd. unfold f2u32_defined in Hd. apply andb_prop in Hd. destruct Hd as [H1 H2].
  apply negb_true_iff in H1. apply negb_true_iff in H2.
  pose proof (f2u32_core a H1 H2) as K. cbv zeta in K. unfold FloatConv.HIU in K.
  destruct K as (N & R & M).
  teval. rewrite N. repeat ground_step.
  assert (X1 : (0 <=? trunc_or_zero (fmin (fmax a 0) 1333788671)) = true) by (apply Z.leb_le; lia).
  assert (X2 : (trunc_or_zero (fmin (fmax a 0) 1333788671) <? 4294967296) = true) by (apply Z.ltb_lt; lia).
  rewrite X1, X2. cbv iota. rewrite Z.mod_small by lia. rewrite M. reflexivity.
Qed.

(* what the helpers return outside the set above (not WGSL-defined / open question) *)
Example naga_f2i32_of_nan : eval_template h_As_i32_f32 [("a", TScal KFloat, VF32 QNAN)] t_As_i32_f32 = Done (VI32 2147483648).
Proof. vm_compute. reflexivity. Qed.
Example naga_f2i32_of_3e9 : eval_template h_As_i32_f32 [("a", TScal KFloat, VF32 1328702942)] t_As_i32_f32 = Done (VI32 2147483520).
Proof. vm_compute. reflexivity. Qed.
Example naga_f2u32_of_inf : eval_template h_As_u32_f32 [("a", TScal KFloat, VF32 2139095040)] t_As_u32_f32 = Done (VU32 4294967040).
Proof. vm_compute. reflexivity. Qed.

(* ---- vector and matrix operands: one lemma per shape; the WGSL side is the operator of the IR semantics itself (eval_binary, eval_math, eval_relational of IR/Sem.v on IR/Values.v) ---- *)
Ltac seval :=
  intros; unfold eval_template, eval_pure;
  lazy -[Z.add Z.sub Z.mul Z.opp Z.modulo Z.div Z.quot Z.rem Z.eqb Z.ltb Z.leb Z.land Z.lor Z.lxor Z.shiftl Z.shiftr Z.testbit
         fadd fsub fmul fdiv];
  reflexivity.
Definition vf (l : list Z) : value := VVec (map VF32 l).

Lemma hlsl_MathDot_i32_v2_correct : forall a0 a1 b0 b1,
  eval_template [] [("a", TVec KInt 2, VVec (map VI32 [a0; a1])); ("b", TVec KInt 2, VVec (map VI32 [b0; b1]))] t_MathDot_i32
  = eval_math "MathDot" [VVec (map VI32 [a0; a1]); VVec (map VI32 [b0; b1])].
Proof. seval. Qed.

Lemma hlsl_MathDot_i32_v3_correct : forall a0 a1 a2 b0 b1 b2,
  eval_template [] [("a", TVec KInt 3, VVec (map VI32 [a0; a1; a2])); ("b", TVec KInt 3, VVec (map VI32 [b0; b1; b2]))] t_MathDot_i32
  = eval_math "MathDot" [VVec (map VI32 [a0; a1; a2]); VVec (map VI32 [b0; b1; b2])].
Proof. seval. Qed.

Lemma hlsl_MathDot_i32_v4_correct : forall a0 a1 a2 a3 b0 b1 b2 b3,
  eval_template [] [("a", TVec KInt 4, VVec (map VI32 [a0; a1; a2; a3])); ("b", TVec KInt 4, VVec (map VI32 [b0; b1; b2; b3]))] t_MathDot_i32
  = eval_math "MathDot" [VVec (map VI32 [a0; a1; a2; a3]); VVec (map VI32 [b0; b1; b2; b3])].
Proof. seval. Qed.

Lemma hlsl_MathDot_u32_v2_correct : forall a0 a1 b0 b1,
  eval_template [] [("a", TVec KUint 2, VVec (map VU32 [a0; a1])); ("b", TVec KUint 2, VVec (map VU32 [b0; b1]))] t_MathDot_u32
  = eval_math "MathDot" [VVec (map VU32 [a0; a1]); VVec (map VU32 [b0; b1])].
Proof. seval. Qed.

Lemma hlsl_MathDot_u32_v3_correct : forall a0 a1 a2 b0 b1 b2,
  eval_template [] [("a", TVec KUint 3, VVec (map VU32 [a0; a1; a2])); ("b", TVec KUint 3, VVec (map VU32 [b0; b1; b2]))] t_MathDot_u32
  = eval_math "MathDot" [VVec (map VU32 [a0; a1; a2]); VVec (map VU32 [b0; b1; b2])].
Proof. seval. Qed.

Lemma hlsl_MathDot_u32_v4_correct : forall a0 a1 a2 a3 b0 b1 b2 b3,
  eval_template [] [("a", TVec KUint 4, VVec (map VU32 [a0; a1; a2; a3])); ("b", TVec KUint 4, VVec (map VU32 [b0; b1; b2; b3]))] t_MathDot_u32
  = eval_math "MathDot" [VVec (map VU32 [a0; a1; a2; a3]); VVec (map VU32 [b0; b1; b2; b3])].
Proof. seval. Qed.

Lemma hlsl_MathDot_f32_v2_correct : forall a0 a1 b0 b1,
  eval_template [] [("a", TVec KFloat 2, VVec (map VF32 [a0; a1])); ("b", TVec KFloat 2, VVec (map VF32 [b0; b1]))] t_MathDot_f32
  = eval_math "MathDot" [VVec (map VF32 [a0; a1]); VVec (map VF32 [b0; b1])].
Proof. seval. Qed.

Lemma hlsl_MathDot_f32_v3_correct : forall a0 a1 a2 b0 b1 b2,
  eval_template [] [("a", TVec KFloat 3, VVec (map VF32 [a0; a1; a2])); ("b", TVec KFloat 3, VVec (map VF32 [b0; b1; b2]))] t_MathDot_f32
  = eval_math "MathDot" [VVec (map VF32 [a0; a1; a2]); VVec (map VF32 [b0; b1; b2])].
Proof. seval. Qed.

Lemma hlsl_MathDot_f32_v4_correct : forall a0 a1 a2 a3 b0 b1 b2 b3,
  eval_template [] [("a", TVec KFloat 4, VVec (map VF32 [a0; a1; a2; a3])); ("b", TVec KFloat 4, VVec (map VF32 [b0; b1; b2; b3]))] t_MathDot_f32
  = eval_math "MathDot" [VVec (map VF32 [a0; a1; a2; a3]); VVec (map VF32 [b0; b1; b2; b3])].
Proof. seval. Qed.

Lemma hlsl_RelationalAll_v2_correct : forall a0 a1 : bool,
  eval_template [] [("a", TVec KBool 2, VVec (map VBool [a0; a1]))] t_RelationalAll_bool = eval_relational RAll (VVec (map VBool [a0; a1])).
Proof. seval. Qed.

Lemma hlsl_RelationalAll_v3_correct : forall a0 a1 a2 : bool,
  eval_template [] [("a", TVec KBool 3, VVec (map VBool [a0; a1; a2]))] t_RelationalAll_bool = eval_relational RAll (VVec (map VBool [a0; a1; a2])).
Proof. seval. Qed.

Lemma hlsl_RelationalAll_v4_correct : forall a0 a1 a2 a3 : bool,
  eval_template [] [("a", TVec KBool 4, VVec (map VBool [a0; a1; a2; a3]))] t_RelationalAll_bool = eval_relational RAll (VVec (map VBool [a0; a1; a2; a3])).
Proof. seval. Qed.

Lemma hlsl_RelationalAny_v2_correct : forall a0 a1 : bool,
  eval_template [] [("a", TVec KBool 2, VVec (map VBool [a0; a1]))] t_RelationalAny_bool = eval_relational RAny (VVec (map VBool [a0; a1])).
Proof. seval. Qed.

Lemma hlsl_RelationalAny_v3_correct : forall a0 a1 a2 : bool,
  eval_template [] [("a", TVec KBool 3, VVec (map VBool [a0; a1; a2]))] t_RelationalAny_bool = eval_relational RAny (VVec (map VBool [a0; a1; a2])).
Proof. seval. Qed.

Lemma hlsl_RelationalAny_v4_correct : forall a0 a1 a2 a3 : bool,
  eval_template [] [("a", TVec KBool 4, VVec (map VBool [a0; a1; a2; a3]))] t_RelationalAny_bool = eval_relational RAny (VVec (map VBool [a0; a1; a2; a3])).
Proof. seval. Qed.

Lemma hlsl_MulMatVec_c2r2_correct : forall a00 a01 a10 a11 b0 b1,
  eval_template [] [("a", TMat KFloat 2 2, VMat [vf [a00; a01]; vf [a10; a11]]); ("b", TVec KFloat 2, vf [b0; b1])] t_MulMatVec_f32
  = eval_binary Naga.IR.Syntax.BMul (VMat [vf [a00; a01]; vf [a10; a11]]) (vf [b0; b1]).
Proof. seval. Qed.

Lemma hlsl_MulVecMat_c2r2_correct : forall a00 a01 a10 a11 b0 b1,
  eval_template [] [("a", TMat KFloat 2 2, VMat [vf [a00; a01]; vf [a10; a11]]); ("b", TVec KFloat 2, vf [b0; b1])] t_MulVecMat_f32
  = eval_binary Naga.IR.Syntax.BMul (vf [b0; b1]) (VMat [vf [a00; a01]; vf [a10; a11]]).
Proof. seval. Qed.

Lemma hlsl_MulMatScalar_c2r2_correct : forall a00 a01 a10 a11 b,
  eval_template [] [("a", TMat KFloat 2 2, VMat [vf [a00; a01]; vf [a10; a11]]); ("b", TScal KFloat, VF32 b)] t_MulMatScalar_f32
  = eval_binary Naga.IR.Syntax.BMul (VMat [vf [a00; a01]; vf [a10; a11]]) (VF32 b).
Proof. seval. Qed.

Lemma hlsl_MulScalarMat_c2r2_correct : forall a00 a01 a10 a11 b,
  eval_template [] [("a", TMat KFloat 2 2, VMat [vf [a00; a01]; vf [a10; a11]]); ("b", TScal KFloat, VF32 b)] t_MulScalarMat_f32
  = eval_binary Naga.IR.Syntax.BMul (VF32 b) (VMat [vf [a00; a01]; vf [a10; a11]]).
Proof. seval. Qed.

Lemma hlsl_AddMat_c2r2_correct : forall a00 a01 a10 a11 b00 b01 b10 b11,
  eval_template [] [("a", TMat KFloat 2 2, VMat [vf [a00; a01]; vf [a10; a11]]); ("b", TMat KFloat 2 2, VMat [vf [b00; b01]; vf [b10; b11]])] t_AddMat_f32
  = eval_binary Naga.IR.Syntax.BAdd (VMat [vf [a00; a01]; vf [a10; a11]]) (VMat [vf [b00; b01]; vf [b10; b11]]).
Proof. seval. Qed.

Lemma hlsl_SubMat_c2r2_correct : forall a00 a01 a10 a11 b00 b01 b10 b11,
  eval_template [] [("a", TMat KFloat 2 2, VMat [vf [a00; a01]; vf [a10; a11]]); ("b", TMat KFloat 2 2, VMat [vf [b00; b01]; vf [b10; b11]])] t_SubMat_f32
  = eval_binary Naga.IR.Syntax.BSub (VMat [vf [a00; a01]; vf [a10; a11]]) (VMat [vf [b00; b01]; vf [b10; b11]]).
Proof. seval. Qed.

Lemma hlsl_MulMatVec_c2r3_correct : forall a00 a01 a02 a10 a11 a12 b0 b1,
  eval_template [] [("a", TMat KFloat 2 3, VMat [vf [a00; a01; a02]; vf [a10; a11; a12]]); ("b", TVec KFloat 2, vf [b0; b1])] t_MulMatVec_f32
  = eval_binary Naga.IR.Syntax.BMul (VMat [vf [a00; a01; a02]; vf [a10; a11; a12]]) (vf [b0; b1]).
Proof. seval. Qed.

Lemma hlsl_MulVecMat_c2r3_correct : forall a00 a01 a02 a10 a11 a12 b0 b1 b2,
  eval_template [] [("a", TMat KFloat 2 3, VMat [vf [a00; a01; a02]; vf [a10; a11; a12]]); ("b", TVec KFloat 3, vf [b0; b1; b2])] t_MulVecMat_f32
  = eval_binary Naga.IR.Syntax.BMul (vf [b0; b1; b2]) (VMat [vf [a00; a01; a02]; vf [a10; a11; a12]]).
Proof. seval. Qed.

Lemma hlsl_MulMatScalar_c2r3_correct : forall a00 a01 a02 a10 a11 a12 b,
  eval_template [] [("a", TMat KFloat 2 3, VMat [vf [a00; a01; a02]; vf [a10; a11; a12]]); ("b", TScal KFloat, VF32 b)] t_MulMatScalar_f32
  = eval_binary Naga.IR.Syntax.BMul (VMat [vf [a00; a01; a02]; vf [a10; a11; a12]]) (VF32 b).
Proof. seval. Qed.

Lemma hlsl_MulScalarMat_c2r3_correct : forall a00 a01 a02 a10 a11 a12 b,
  eval_template [] [("a", TMat KFloat 2 3, VMat [vf [a00; a01; a02]; vf [a10; a11; a12]]); ("b", TScal KFloat, VF32 b)] t_MulScalarMat_f32
  = eval_binary Naga.IR.Syntax.BMul (VF32 b) (VMat [vf [a00; a01; a02]; vf [a10; a11; a12]]).
Proof. seval. Qed.

Lemma hlsl_AddMat_c2r3_correct : forall a00 a01 a02 a10 a11 a12 b00 b01 b02 b10 b11 b12,
  eval_template [] [("a", TMat KFloat 2 3, VMat [vf [a00; a01; a02]; vf [a10; a11; a12]]); ("b", TMat KFloat 2 3, VMat [vf [b00; b01; b02]; vf [b10; b11; b12]])] t_AddMat_f32
  = eval_binary Naga.IR.Syntax.BAdd (VMat [vf [a00; a01; a02]; vf [a10; a11; a12]]) (VMat [vf [b00; b01; b02]; vf [b10; b11; b12]]).
Proof. seval. Qed.

Lemma hlsl_SubMat_c2r3_correct : forall a00 a01 a02 a10 a11 a12 b00 b01 b02 b10 b11 b12,
  eval_template [] [("a", TMat KFloat 2 3, VMat [vf [a00; a01; a02]; vf [a10; a11; a12]]); ("b", TMat KFloat 2 3, VMat [vf [b00; b01; b02]; vf [b10; b11; b12]])] t_SubMat_f32
  = eval_binary Naga.IR.Syntax.BSub (VMat [vf [a00; a01; a02]; vf [a10; a11; a12]]) (VMat [vf [b00; b01; b02]; vf [b10; b11; b12]]).
Proof. seval. Qed.

Lemma hlsl_MulMatVec_c2r4_correct : forall a00 a01 a02 a03 a10 a11 a12 a13 b0 b1,
  eval_template [] [("a", TMat KFloat 2 4, VMat [vf [a00; a01; a02; a03]; vf [a10; a11; a12; a13]]); ("b", TVec KFloat 2, vf [b0; b1])] t_MulMatVec_f32
  = eval_binary Naga.IR.Syntax.BMul (VMat [vf [a00; a01; a02; a03]; vf [a10; a11; a12; a13]]) (vf [b0; b1]).
Proof. seval. Qed.

Lemma hlsl_MulVecMat_c2r4_correct : forall a00 a01 a02 a03 a10 a11 a12 a13 b0 b1 b2 b3,
  eval_template [] [("a", TMat KFloat 2 4, VMat [vf [a00; a01; a02; a03]; vf [a10; a11; a12; a13]]); ("b", TVec KFloat 4, vf [b0; b1; b2; b3])] t_MulVecMat_f32
  = eval_binary Naga.IR.Syntax.BMul (vf [b0; b1; b2; b3]) (VMat [vf [a00; a01; a02; a03]; vf [a10; a11; a12; a13]]).
Proof. seval. Qed.

Lemma hlsl_MulMatScalar_c2r4_correct : forall a00 a01 a02 a03 a10 a11 a12 a13 b,
  eval_template [] [("a", TMat KFloat 2 4, VMat [vf [a00; a01; a02; a03]; vf [a10; a11; a12; a13]]); ("b", TScal KFloat, VF32 b)] t_MulMatScalar_f32
  = eval_binary Naga.IR.Syntax.BMul (VMat [vf [a00; a01; a02; a03]; vf [a10; a11; a12; a13]]) (VF32 b).
Proof. seval. Qed.

Lemma hlsl_MulScalarMat_c2r4_correct : forall a00 a01 a02 a03 a10 a11 a12 a13 b,
  eval_template [] [("a", TMat KFloat 2 4, VMat [vf [a00; a01; a02; a03]; vf [a10; a11; a12; a13]]); ("b", TScal KFloat, VF32 b)] t_MulScalarMat_f32
  = eval_binary Naga.IR.Syntax.BMul (VF32 b) (VMat [vf [a00; a01; a02; a03]; vf [a10; a11; a12; a13]]).
Proof. seval. Qed.

Lemma hlsl_AddMat_c2r4_correct : forall a00 a01 a02 a03 a10 a11 a12 a13 b00 b01 b02 b03 b10 b11 b12 b13,
  eval_template [] [("a", TMat KFloat 2 4, VMat [vf [a00; a01; a02; a03]; vf [a10; a11; a12; a13]]); ("b", TMat KFloat 2 4, VMat [vf [b00; b01; b02; b03]; vf [b10; b11; b12; b13]])] t_AddMat_f32
  = eval_binary Naga.IR.Syntax.BAdd (VMat [vf [a00; a01; a02; a03]; vf [a10; a11; a12; a13]]) (VMat [vf [b00; b01; b02; b03]; vf [b10; b11; b12; b13]]).
Proof. seval. Qed.

Lemma hlsl_SubMat_c2r4_correct : forall a00 a01 a02 a03 a10 a11 a12 a13 b00 b01 b02 b03 b10 b11 b12 b13,
  eval_template [] [("a", TMat KFloat 2 4, VMat [vf [a00; a01; a02; a03]; vf [a10; a11; a12; a13]]); ("b", TMat KFloat 2 4, VMat [vf [b00; b01; b02; b03]; vf [b10; b11; b12; b13]])] t_SubMat_f32
  = eval_binary Naga.IR.Syntax.BSub (VMat [vf [a00; a01; a02; a03]; vf [a10; a11; a12; a13]]) (VMat [vf [b00; b01; b02; b03]; vf [b10; b11; b12; b13]]).
Proof. seval. Qed.

Lemma hlsl_MulMatVec_c3r2_correct : forall a00 a01 a10 a11 a20 a21 b0 b1 b2,
  eval_template [] [("a", TMat KFloat 3 2, VMat [vf [a00; a01]; vf [a10; a11]; vf [a20; a21]]); ("b", TVec KFloat 3, vf [b0; b1; b2])] t_MulMatVec_f32
  = eval_binary Naga.IR.Syntax.BMul (VMat [vf [a00; a01]; vf [a10; a11]; vf [a20; a21]]) (vf [b0; b1; b2]).
Proof. seval. Qed.

Lemma hlsl_MulVecMat_c3r2_correct : forall a00 a01 a10 a11 a20 a21 b0 b1,
  eval_template [] [("a", TMat KFloat 3 2, VMat [vf [a00; a01]; vf [a10; a11]; vf [a20; a21]]); ("b", TVec KFloat 2, vf [b0; b1])] t_MulVecMat_f32
  = eval_binary Naga.IR.Syntax.BMul (vf [b0; b1]) (VMat [vf [a00; a01]; vf [a10; a11]; vf [a20; a21]]).
Proof. seval. Qed.

Lemma hlsl_MulMatScalar_c3r2_correct : forall a00 a01 a10 a11 a20 a21 b,
  eval_template [] [("a", TMat KFloat 3 2, VMat [vf [a00; a01]; vf [a10; a11]; vf [a20; a21]]); ("b", TScal KFloat, VF32 b)] t_MulMatScalar_f32
  = eval_binary Naga.IR.Syntax.BMul (VMat [vf [a00; a01]; vf [a10; a11]; vf [a20; a21]]) (VF32 b).
Proof. seval. Qed.

Lemma hlsl_MulScalarMat_c3r2_correct : forall a00 a01 a10 a11 a20 a21 b,
  eval_template [] [("a", TMat KFloat 3 2, VMat [vf [a00; a01]; vf [a10; a11]; vf [a20; a21]]); ("b", TScal KFloat, VF32 b)] t_MulScalarMat_f32
  = eval_binary Naga.IR.Syntax.BMul (VF32 b) (VMat [vf [a00; a01]; vf [a10; a11]; vf [a20; a21]]).
Proof. seval. Qed.

Lemma hlsl_AddMat_c3r2_correct : forall a00 a01 a10 a11 a20 a21 b00 b01 b10 b11 b20 b21,
  eval_template [] [("a", TMat KFloat 3 2, VMat [vf [a00; a01]; vf [a10; a11]; vf [a20; a21]]); ("b", TMat KFloat 3 2, VMat [vf [b00; b01]; vf [b10; b11]; vf [b20; b21]])] t_AddMat_f32
  = eval_binary Naga.IR.Syntax.BAdd (VMat [vf [a00; a01]; vf [a10; a11]; vf [a20; a21]]) (VMat [vf [b00; b01]; vf [b10; b11]; vf [b20; b21]]).
Proof. seval. Qed.

Lemma hlsl_SubMat_c3r2_correct : forall a00 a01 a10 a11 a20 a21 b00 b01 b10 b11 b20 b21,
  eval_template [] [("a", TMat KFloat 3 2, VMat [vf [a00; a01]; vf [a10; a11]; vf [a20; a21]]); ("b", TMat KFloat 3 2, VMat [vf [b00; b01]; vf [b10; b11]; vf [b20; b21]])] t_SubMat_f32
  = eval_binary Naga.IR.Syntax.BSub (VMat [vf [a00; a01]; vf [a10; a11]; vf [a20; a21]]) (VMat [vf [b00; b01]; vf [b10; b11]; vf [b20; b21]]).
Proof. seval. Qed.

Lemma hlsl_MulMatVec_c3r3_correct : forall a00 a01 a02 a10 a11 a12 a20 a21 a22 b0 b1 b2,
  eval_template [] [("a", TMat KFloat 3 3, VMat [vf [a00; a01; a02]; vf [a10; a11; a12]; vf [a20; a21; a22]]); ("b", TVec KFloat 3, vf [b0; b1; b2])] t_MulMatVec_f32
  = eval_binary Naga.IR.Syntax.BMul (VMat [vf [a00; a01; a02]; vf [a10; a11; a12]; vf [a20; a21; a22]]) (vf [b0; b1; b2]).
Proof. seval. Qed.

Lemma hlsl_MulVecMat_c3r3_correct : forall a00 a01 a02 a10 a11 a12 a20 a21 a22 b0 b1 b2,
  eval_template [] [("a", TMat KFloat 3 3, VMat [vf [a00; a01; a02]; vf [a10; a11; a12]; vf [a20; a21; a22]]); ("b", TVec KFloat 3, vf [b0; b1; b2])] t_MulVecMat_f32
  = eval_binary Naga.IR.Syntax.BMul (vf [b0; b1; b2]) (VMat [vf [a00; a01; a02]; vf [a10; a11; a12]; vf [a20; a21; a22]]).
Proof. seval. Qed.

Lemma hlsl_MulMatScalar_c3r3_correct : forall a00 a01 a02 a10 a11 a12 a20 a21 a22 b,
  eval_template [] [("a", TMat KFloat 3 3, VMat [vf [a00; a01; a02]; vf [a10; a11; a12]; vf [a20; a21; a22]]); ("b", TScal KFloat, VF32 b)] t_MulMatScalar_f32
  = eval_binary Naga.IR.Syntax.BMul (VMat [vf [a00; a01; a02]; vf [a10; a11; a12]; vf [a20; a21; a22]]) (VF32 b).
Proof. seval. Qed.

Lemma hlsl_MulScalarMat_c3r3_correct : forall a00 a01 a02 a10 a11 a12 a20 a21 a22 b,
  eval_template [] [("a", TMat KFloat 3 3, VMat [vf [a00; a01; a02]; vf [a10; a11; a12]; vf [a20; a21; a22]]); ("b", TScal KFloat, VF32 b)] t_MulScalarMat_f32
  = eval_binary Naga.IR.Syntax.BMul (VF32 b) (VMat [vf [a00; a01; a02]; vf [a10; a11; a12]; vf [a20; a21; a22]]).
Proof. seval. Qed.

Lemma hlsl_AddMat_c3r3_correct : forall a00 a01 a02 a10 a11 a12 a20 a21 a22 b00 b01 b02 b10 b11 b12 b20 b21 b22,
  eval_template [] [("a", TMat KFloat 3 3, VMat [vf [a00; a01; a02]; vf [a10; a11; a12]; vf [a20; a21; a22]]); ("b", TMat KFloat 3 3, VMat [vf [b00; b01; b02]; vf [b10; b11; b12]; vf [b20; b21; b22]])] t_AddMat_f32
  = eval_binary Naga.IR.Syntax.BAdd (VMat [vf [a00; a01; a02]; vf [a10; a11; a12]; vf [a20; a21; a22]]) (VMat [vf [b00; b01; b02]; vf [b10; b11; b12]; vf [b20; b21; b22]]).
Proof. seval. Qed.

Lemma hlsl_SubMat_c3r3_correct : forall a00 a01 a02 a10 a11 a12 a20 a21 a22 b00 b01 b02 b10 b11 b12 b20 b21 b22,
  eval_template [] [("a", TMat KFloat 3 3, VMat [vf [a00; a01; a02]; vf [a10; a11; a12]; vf [a20; a21; a22]]); ("b", TMat KFloat 3 3, VMat [vf [b00; b01; b02]; vf [b10; b11; b12]; vf [b20; b21; b22]])] t_SubMat_f32
  = eval_binary Naga.IR.Syntax.BSub (VMat [vf [a00; a01; a02]; vf [a10; a11; a12]; vf [a20; a21; a22]]) (VMat [vf [b00; b01; b02]; vf [b10; b11; b12]; vf [b20; b21; b22]]).
Proof. seval. Qed.

Lemma hlsl_MulMatVec_c3r4_correct : forall a00 a01 a02 a03 a10 a11 a12 a13 a20 a21 a22 a23 b0 b1 b2,
  eval_template [] [("a", TMat KFloat 3 4, VMat [vf [a00; a01; a02; a03]; vf [a10; a11; a12; a13]; vf [a20; a21; a22; a23]]); ("b", TVec KFloat 3, vf [b0; b1; b2])] t_MulMatVec_f32
  = eval_binary Naga.IR.Syntax.BMul (VMat [vf [a00; a01; a02; a03]; vf [a10; a11; a12; a13]; vf [a20; a21; a22; a23]]) (vf [b0; b1; b2]).
Proof. seval. Qed.

Lemma hlsl_MulVecMat_c3r4_correct : forall a00 a01 a02 a03 a10 a11 a12 a13 a20 a21 a22 a23 b0 b1 b2 b3,
  eval_template [] [("a", TMat KFloat 3 4, VMat [vf [a00; a01; a02; a03]; vf [a10; a11; a12; a13]; vf [a20; a21; a22; a23]]); ("b", TVec KFloat 4, vf [b0; b1; b2; b3])] t_MulVecMat_f32
  = eval_binary Naga.IR.Syntax.BMul (vf [b0; b1; b2; b3]) (VMat [vf [a00; a01; a02; a03]; vf [a10; a11; a12; a13]; vf [a20; a21; a22; a23]]).
Proof. seval. Qed.

Lemma hlsl_MulMatScalar_c3r4_correct : forall a00 a01 a02 a03 a10 a11 a12 a13 a20 a21 a22 a23 b,
  eval_template [] [("a", TMat KFloat 3 4, VMat [vf [a00; a01; a02; a03]; vf [a10; a11; a12; a13]; vf [a20; a21; a22; a23]]); ("b", TScal KFloat, VF32 b)] t_MulMatScalar_f32
  = eval_binary Naga.IR.Syntax.BMul (VMat [vf [a00; a01; a02; a03]; vf [a10; a11; a12; a13]; vf [a20; a21; a22; a23]]) (VF32 b).
Proof. seval. Qed.

Lemma hlsl_MulScalarMat_c3r4_correct : forall a00 a01 a02 a03 a10 a11 a12 a13 a20 a21 a22 a23 b,
  eval_template [] [("a", TMat KFloat 3 4, VMat [vf [a00; a01; a02; a03]; vf [a10; a11; a12; a13]; vf [a20; a21; a22; a23]]); ("b", TScal KFloat, VF32 b)] t_MulScalarMat_f32
  = eval_binary Naga.IR.Syntax.BMul (VF32 b) (VMat [vf [a00; a01; a02; a03]; vf [a10; a11; a12; a13]; vf [a20; a21; a22; a23]]).
Proof. seval. Qed.

Lemma hlsl_AddMat_c3r4_correct : forall a00 a01 a02 a03 a10 a11 a12 a13 a20 a21 a22 a23 b00 b01 b02 b03 b10 b11 b12 b13 b20 b21 b22 b23,
  eval_template [] [("a", TMat KFloat 3 4, VMat [vf [a00; a01; a02; a03]; vf [a10; a11; a12; a13]; vf [a20; a21; a22; a23]]); ("b", TMat KFloat 3 4, VMat [vf [b00; b01; b02; b03]; vf [b10; b11; b12; b13]; vf [b20; b21; b22; b23]])] t_AddMat_f32
  = eval_binary Naga.IR.Syntax.BAdd (VMat [vf [a00; a01; a02; a03]; vf [a10; a11; a12; a13]; vf [a20; a21; a22; a23]]) (VMat [vf [b00; b01; b02; b03]; vf [b10; b11; b12; b13]; vf [b20; b21; b22; b23]]).
Proof. seval. Qed.

Lemma hlsl_SubMat_c3r4_correct : forall a00 a01 a02 a03 a10 a11 a12 a13 a20 a21 a22 a23 b00 b01 b02 b03 b10 b11 b12 b13 b20 b21 b22 b23,
  eval_template [] [("a", TMat KFloat 3 4, VMat [vf [a00; a01; a02; a03]; vf [a10; a11; a12; a13]; vf [a20; a21; a22; a23]]); ("b", TMat KFloat 3 4, VMat [vf [b00; b01; b02; b03]; vf [b10; b11; b12; b13]; vf [b20; b21; b22; b23]])] t_SubMat_f32
  = eval_binary Naga.IR.Syntax.BSub (VMat [vf [a00; a01; a02; a03]; vf [a10; a11; a12; a13]; vf [a20; a21; a22; a23]]) (VMat [vf [b00; b01; b02; b03]; vf [b10; b11; b12; b13]; vf [b20; b21; b22; b23]]).
Proof. seval. Qed.

Lemma hlsl_MulMatVec_c4r2_correct : forall a00 a01 a10 a11 a20 a21 a30 a31 b0 b1 b2 b3,
  eval_template [] [("a", TMat KFloat 4 2, VMat [vf [a00; a01]; vf [a10; a11]; vf [a20; a21]; vf [a30; a31]]); ("b", TVec KFloat 4, vf [b0; b1; b2; b3])] t_MulMatVec_f32
  = eval_binary Naga.IR.Syntax.BMul (VMat [vf [a00; a01]; vf [a10; a11]; vf [a20; a21]; vf [a30; a31]]) (vf [b0; b1; b2; b3]).
Proof. seval. Qed.

Lemma hlsl_MulVecMat_c4r2_correct : forall a00 a01 a10 a11 a20 a21 a30 a31 b0 b1,
  eval_template [] [("a", TMat KFloat 4 2, VMat [vf [a00; a01]; vf [a10; a11]; vf [a20; a21]; vf [a30; a31]]); ("b", TVec KFloat 2, vf [b0; b1])] t_MulVecMat_f32
  = eval_binary Naga.IR.Syntax.BMul (vf [b0; b1]) (VMat [vf [a00; a01]; vf [a10; a11]; vf [a20; a21]; vf [a30; a31]]).
Proof. seval. Qed.

Lemma hlsl_MulMatScalar_c4r2_correct : forall a00 a01 a10 a11 a20 a21 a30 a31 b,
  eval_template [] [("a", TMat KFloat 4 2, VMat [vf [a00; a01]; vf [a10; a11]; vf [a20; a21]; vf [a30; a31]]); ("b", TScal KFloat, VF32 b)] t_MulMatScalar_f32
  = eval_binary Naga.IR.Syntax.BMul (VMat [vf [a00; a01]; vf [a10; a11]; vf [a20; a21]; vf [a30; a31]]) (VF32 b).
Proof. seval. Qed.

Lemma hlsl_MulScalarMat_c4r2_correct : forall a00 a01 a10 a11 a20 a21 a30 a31 b,
  eval_template [] [("a", TMat KFloat 4 2, VMat [vf [a00; a01]; vf [a10; a11]; vf [a20; a21]; vf [a30; a31]]); ("b", TScal KFloat, VF32 b)] t_MulScalarMat_f32
  = eval_binary Naga.IR.Syntax.BMul (VF32 b) (VMat [vf [a00; a01]; vf [a10; a11]; vf [a20; a21]; vf [a30; a31]]).
Proof. seval. Qed.

Lemma hlsl_AddMat_c4r2_correct : forall a00 a01 a10 a11 a20 a21 a30 a31 b00 b01 b10 b11 b20 b21 b30 b31,
  eval_template [] [("a", TMat KFloat 4 2, VMat [vf [a00; a01]; vf [a10; a11]; vf [a20; a21]; vf [a30; a31]]); ("b", TMat KFloat 4 2, VMat [vf [b00; b01]; vf [b10; b11]; vf [b20; b21]; vf [b30; b31]])] t_AddMat_f32
  = eval_binary Naga.IR.Syntax.BAdd (VMat [vf [a00; a01]; vf [a10; a11]; vf [a20; a21]; vf [a30; a31]]) (VMat [vf [b00; b01]; vf [b10; b11]; vf [b20; b21]; vf [b30; b31]]).
Proof. seval. Qed.

Lemma hlsl_SubMat_c4r2_correct : forall a00 a01 a10 a11 a20 a21 a30 a31 b00 b01 b10 b11 b20 b21 b30 b31,
  eval_template [] [("a", TMat KFloat 4 2, VMat [vf [a00; a01]; vf [a10; a11]; vf [a20; a21]; vf [a30; a31]]); ("b", TMat KFloat 4 2, VMat [vf [b00; b01]; vf [b10; b11]; vf [b20; b21]; vf [b30; b31]])] t_SubMat_f32
  = eval_binary Naga.IR.Syntax.BSub (VMat [vf [a00; a01]; vf [a10; a11]; vf [a20; a21]; vf [a30; a31]]) (VMat [vf [b00; b01]; vf [b10; b11]; vf [b20; b21]; vf [b30; b31]]).
Proof. seval. Qed.

Lemma hlsl_MulMatVec_c4r3_correct : forall a00 a01 a02 a10 a11 a12 a20 a21 a22 a30 a31 a32 b0 b1 b2 b3,
  eval_template [] [("a", TMat KFloat 4 3, VMat [vf [a00; a01; a02]; vf [a10; a11; a12]; vf [a20; a21; a22]; vf [a30; a31; a32]]); ("b", TVec KFloat 4, vf [b0; b1; b2; b3])] t_MulMatVec_f32
  = eval_binary Naga.IR.Syntax.BMul (VMat [vf [a00; a01; a02]; vf [a10; a11; a12]; vf [a20; a21; a22]; vf [a30; a31; a32]]) (vf [b0; b1; b2; b3]).
Proof. seval. Qed.

Lemma hlsl_MulVecMat_c4r3_correct : forall a00 a01 a02 a10 a11 a12 a20 a21 a22 a30 a31 a32 b0 b1 b2,
  eval_template [] [("a", TMat KFloat 4 3, VMat [vf [a00; a01; a02]; vf [a10; a11; a12]; vf [a20; a21; a22]; vf [a30; a31; a32]]); ("b", TVec KFloat 3, vf [b0; b1; b2])] t_MulVecMat_f32
  = eval_binary Naga.IR.Syntax.BMul (vf [b0; b1; b2]) (VMat [vf [a00; a01; a02]; vf [a10; a11; a12]; vf [a20; a21; a22]; vf [a30; a31; a32]]).
Proof. seval. Qed.

Lemma hlsl_MulMatScalar_c4r3_correct : forall a00 a01 a02 a10 a11 a12 a20 a21 a22 a30 a31 a32 b,
  eval_template [] [("a", TMat KFloat 4 3, VMat [vf [a00; a01; a02]; vf [a10; a11; a12]; vf [a20; a21; a22]; vf [a30; a31; a32]]); ("b", TScal KFloat, VF32 b)] t_MulMatScalar_f32
  = eval_binary Naga.IR.Syntax.BMul (VMat [vf [a00; a01; a02]; vf [a10; a11; a12]; vf [a20; a21; a22]; vf [a30; a31; a32]]) (VF32 b).
Proof. seval. Qed.

Lemma hlsl_MulScalarMat_c4r3_correct : forall a00 a01 a02 a10 a11 a12 a20 a21 a22 a30 a31 a32 b,
  eval_template [] [("a", TMat KFloat 4 3, VMat [vf [a00; a01; a02]; vf [a10; a11; a12]; vf [a20; a21; a22]; vf [a30; a31; a32]]); ("b", TScal KFloat, VF32 b)] t_MulScalarMat_f32
  = eval_binary Naga.IR.Syntax.BMul (VF32 b) (VMat [vf [a00; a01; a02]; vf [a10; a11; a12]; vf [a20; a21; a22]; vf [a30; a31; a32]]).
Proof. seval. Qed.

Lemma hlsl_AddMat_c4r3_correct : forall a00 a01 a02 a10 a11 a12 a20 a21 a22 a30 a31 a32 b00 b01 b02 b10 b11 b12 b20 b21 b22 b30 b31 b32,
  eval_template [] [("a", TMat KFloat 4 3, VMat [vf [a00; a01; a02]; vf [a10; a11; a12]; vf [a20; a21; a22]; vf [a30; a31; a32]]); ("b", TMat KFloat 4 3, VMat [vf [b00; b01; b02]; vf [b10; b11; b12]; vf [b20; b21; b22]; vf [b30; b31; b32]])] t_AddMat_f32
  = eval_binary Naga.IR.Syntax.BAdd (VMat [vf [a00; a01; a02]; vf [a10; a11; a12]; vf [a20; a21; a22]; vf [a30; a31; a32]]) (VMat [vf [b00; b01; b02]; vf [b10; b11; b12]; vf [b20; b21; b22]; vf [b30; b31; b32]]).
Proof. seval. Qed.

Lemma hlsl_SubMat_c4r3_correct : forall a00 a01 a02 a10 a11 a12 a20 a21 a22 a30 a31 a32 b00 b01 b02 b10 b11 b12 b20 b21 b22 b30 b31 b32,
  eval_template [] [("a", TMat KFloat 4 3, VMat [vf [a00; a01; a02]; vf [a10; a11; a12]; vf [a20; a21; a22]; vf [a30; a31; a32]]); ("b", TMat KFloat 4 3, VMat [vf [b00; b01; b02]; vf [b10; b11; b12]; vf [b20; b21; b22]; vf [b30; b31; b32]])] t_SubMat_f32
  = eval_binary Naga.IR.Syntax.BSub (VMat [vf [a00; a01; a02]; vf [a10; a11; a12]; vf [a20; a21; a22]; vf [a30; a31; a32]]) (VMat [vf [b00; b01; b02]; vf [b10; b11; b12]; vf [b20; b21; b22]; vf [b30; b31; b32]]).
Proof. seval. Qed.

Lemma hlsl_MulMatVec_c4r4_correct : forall a00 a01 a02 a03 a10 a11 a12 a13 a20 a21 a22 a23 a30 a31 a32 a33 b0 b1 b2 b3,
  eval_template [] [("a", TMat KFloat 4 4, VMat [vf [a00; a01; a02; a03]; vf [a10; a11; a12; a13]; vf [a20; a21; a22; a23]; vf [a30; a31; a32; a33]]); ("b", TVec KFloat 4, vf [b0; b1; b2; b3])] t_MulMatVec_f32
  = eval_binary Naga.IR.Syntax.BMul (VMat [vf [a00; a01; a02; a03]; vf [a10; a11; a12; a13]; vf [a20; a21; a22; a23]; vf [a30; a31; a32; a33]]) (vf [b0; b1; b2; b3]).
Proof. seval. Qed.

Lemma hlsl_MulVecMat_c4r4_correct : forall a00 a01 a02 a03 a10 a11 a12 a13 a20 a21 a22 a23 a30 a31 a32 a33 b0 b1 b2 b3,
  eval_template [] [("a", TMat KFloat 4 4, VMat [vf [a00; a01; a02; a03]; vf [a10; a11; a12; a13]; vf [a20; a21; a22; a23]; vf [a30; a31; a32; a33]]); ("b", TVec KFloat 4, vf [b0; b1; b2; b3])] t_MulVecMat_f32
  = eval_binary Naga.IR.Syntax.BMul (vf [b0; b1; b2; b3]) (VMat [vf [a00; a01; a02; a03]; vf [a10; a11; a12; a13]; vf [a20; a21; a22; a23]; vf [a30; a31; a32; a33]]).
Proof. seval. Qed.

Lemma hlsl_MulMatScalar_c4r4_correct : forall a00 a01 a02 a03 a10 a11 a12 a13 a20 a21 a22 a23 a30 a31 a32 a33 b,
  eval_template [] [("a", TMat KFloat 4 4, VMat [vf [a00; a01; a02; a03]; vf [a10; a11; a12; a13]; vf [a20; a21; a22; a23]; vf [a30; a31; a32; a33]]); ("b", TScal KFloat, VF32 b)] t_MulMatScalar_f32
  = eval_binary Naga.IR.Syntax.BMul (VMat [vf [a00; a01; a02; a03]; vf [a10; a11; a12; a13]; vf [a20; a21; a22; a23]; vf [a30; a31; a32; a33]]) (VF32 b).
Proof. seval. Qed.

Lemma hlsl_MulScalarMat_c4r4_correct : forall a00 a01 a02 a03 a10 a11 a12 a13 a20 a21 a22 a23 a30 a31 a32 a33 b,
  eval_template [] [("a", TMat KFloat 4 4, VMat [vf [a00; a01; a02; a03]; vf [a10; a11; a12; a13]; vf [a20; a21; a22; a23]; vf [a30; a31; a32; a33]]); ("b", TScal KFloat, VF32 b)] t_MulScalarMat_f32
  = eval_binary Naga.IR.Syntax.BMul (VF32 b) (VMat [vf [a00; a01; a02; a03]; vf [a10; a11; a12; a13]; vf [a20; a21; a22; a23]; vf [a30; a31; a32; a33]]).
Proof. seval. Qed.

Lemma hlsl_AddMat_c4r4_correct : forall a00 a01 a02 a03 a10 a11 a12 a13 a20 a21 a22 a23 a30 a31 a32 a33 b00 b01 b02 b03 b10 b11 b12 b13 b20 b21 b22 b23 b30 b31 b32 b33,
  eval_template [] [("a", TMat KFloat 4 4, VMat [vf [a00; a01; a02; a03]; vf [a10; a11; a12; a13]; vf [a20; a21; a22; a23]; vf [a30; a31; a32; a33]]); ("b", TMat KFloat 4 4, VMat [vf [b00; b01; b02; b03]; vf [b10; b11; b12; b13]; vf [b20; b21; b22; b23]; vf [b30; b31; b32; b33]])] t_AddMat_f32
  = eval_binary Naga.IR.Syntax.BAdd (VMat [vf [a00; a01; a02; a03]; vf [a10; a11; a12; a13]; vf [a20; a21; a22; a23]; vf [a30; a31; a32; a33]]) (VMat [vf [b00; b01; b02; b03]; vf [b10; b11; b12; b13]; vf [b20; b21; b22; b23]; vf [b30; b31; b32; b33]]).
Proof. seval. Qed.

Lemma hlsl_SubMat_c4r4_correct : forall a00 a01 a02 a03 a10 a11 a12 a13 a20 a21 a22 a23 a30 a31 a32 a33 b00 b01 b02 b03 b10 b11 b12 b13 b20 b21 b22 b23 b30 b31 b32 b33,
  eval_template [] [("a", TMat KFloat 4 4, VMat [vf [a00; a01; a02; a03]; vf [a10; a11; a12; a13]; vf [a20; a21; a22; a23]; vf [a30; a31; a32; a33]]); ("b", TMat KFloat 4 4, VMat [vf [b00; b01; b02; b03]; vf [b10; b11; b12; b13]; vf [b20; b21; b22; b23]; vf [b30; b31; b32; b33]])] t_SubMat_f32
  = eval_binary Naga.IR.Syntax.BSub (VMat [vf [a00; a01; a02; a03]; vf [a10; a11; a12; a13]; vf [a20; a21; a22; a23]; vf [a30; a31; a32; a33]]) (VMat [vf [b00; b01; b02; b03]; vf [b10; b11; b12; b13]; vf [b20; b21; b22; b23]; vf [b30; b31; b32; b33]]).
Proof. seval. Qed.

Lemma hlsl_MulMatMat_c2r2k2_correct : forall a00 a01 a10 a11 b00 b01 b10 b11,
  eval_template [] [("a", TMat KFloat 2 2, VMat [vf [a00; a01]; vf [a10; a11]]); ("b", TMat KFloat 2 2, VMat [vf [b00; b01]; vf [b10; b11]])] t_MulMatMat_f32
  = eval_binary Naga.IR.Syntax.BMul (VMat [vf [a00; a01]; vf [a10; a11]]) (VMat [vf [b00; b01]; vf [b10; b11]]).
Proof. seval. Qed.

Lemma hlsl_MulMatMat_c2r2k3_correct : forall a00 a01 a10 a11 a20 a21 b00 b01 b02 b10 b11 b12,
  eval_template [] [("a", TMat KFloat 3 2, VMat [vf [a00; a01]; vf [a10; a11]; vf [a20; a21]]); ("b", TMat KFloat 2 3, VMat [vf [b00; b01; b02]; vf [b10; b11; b12]])] t_MulMatMat_f32
  = eval_binary Naga.IR.Syntax.BMul (VMat [vf [a00; a01]; vf [a10; a11]; vf [a20; a21]]) (VMat [vf [b00; b01; b02]; vf [b10; b11; b12]]).
Proof. seval. Qed.

Lemma hlsl_MulMatMat_c2r2k4_correct : forall a00 a01 a10 a11 a20 a21 a30 a31 b00 b01 b02 b03 b10 b11 b12 b13,
  eval_template [] [("a", TMat KFloat 4 2, VMat [vf [a00; a01]; vf [a10; a11]; vf [a20; a21]; vf [a30; a31]]); ("b", TMat KFloat 2 4, VMat [vf [b00; b01; b02; b03]; vf [b10; b11; b12; b13]])] t_MulMatMat_f32
  = eval_binary Naga.IR.Syntax.BMul (VMat [vf [a00; a01]; vf [a10; a11]; vf [a20; a21]; vf [a30; a31]]) (VMat [vf [b00; b01; b02; b03]; vf [b10; b11; b12; b13]]).
Proof. seval. Qed.

Lemma hlsl_MulMatMat_c2r3k2_correct : forall a00 a01 a02 a10 a11 a12 b00 b01 b10 b11,
  eval_template [] [("a", TMat KFloat 2 3, VMat [vf [a00; a01; a02]; vf [a10; a11; a12]]); ("b", TMat KFloat 2 2, VMat [vf [b00; b01]; vf [b10; b11]])] t_MulMatMat_f32
  = eval_binary Naga.IR.Syntax.BMul (VMat [vf [a00; a01; a02]; vf [a10; a11; a12]]) (VMat [vf [b00; b01]; vf [b10; b11]]).
Proof. seval. Qed.

Lemma hlsl_MulMatMat_c2r3k3_correct : forall a00 a01 a02 a10 a11 a12 a20 a21 a22 b00 b01 b02 b10 b11 b12,
  eval_template [] [("a", TMat KFloat 3 3, VMat [vf [a00; a01; a02]; vf [a10; a11; a12]; vf [a20; a21; a22]]); ("b", TMat KFloat 2 3, VMat [vf [b00; b01; b02]; vf [b10; b11; b12]])] t_MulMatMat_f32
  = eval_binary Naga.IR.Syntax.BMul (VMat [vf [a00; a01; a02]; vf [a10; a11; a12]; vf [a20; a21; a22]]) (VMat [vf [b00; b01; b02]; vf [b10; b11; b12]]).
Proof. seval. Qed.

Lemma hlsl_MulMatMat_c2r3k4_correct : forall a00 a01 a02 a10 a11 a12 a20 a21 a22 a30 a31 a32 b00 b01 b02 b03 b10 b11 b12 b13,
  eval_template [] [("a", TMat KFloat 4 3, VMat [vf [a00; a01; a02]; vf [a10; a11; a12]; vf [a20; a21; a22]; vf [a30; a31; a32]]); ("b", TMat KFloat 2 4, VMat [vf [b00; b01; b02; b03]; vf [b10; b11; b12; b13]])] t_MulMatMat_f32
  = eval_binary Naga.IR.Syntax.BMul (VMat [vf [a00; a01; a02]; vf [a10; a11; a12]; vf [a20; a21; a22]; vf [a30; a31; a32]]) (VMat [vf [b00; b01; b02; b03]; vf [b10; b11; b12; b13]]).
Proof. seval. Qed.

Lemma hlsl_MulMatMat_c2r4k2_correct : forall a00 a01 a02 a03 a10 a11 a12 a13 b00 b01 b10 b11,
  eval_template [] [("a", TMat KFloat 2 4, VMat [vf [a00; a01; a02; a03]; vf [a10; a11; a12; a13]]); ("b", TMat KFloat 2 2, VMat [vf [b00; b01]; vf [b10; b11]])] t_MulMatMat_f32
  = eval_binary Naga.IR.Syntax.BMul (VMat [vf [a00; a01; a02; a03]; vf [a10; a11; a12; a13]]) (VMat [vf [b00; b01]; vf [b10; b11]]).
Proof. seval. Qed.

Lemma hlsl_MulMatMat_c2r4k3_correct : forall a00 a01 a02 a03 a10 a11 a12 a13 a20 a21 a22 a23 b00 b01 b02 b10 b11 b12,
  eval_template [] [("a", TMat KFloat 3 4, VMat [vf [a00; a01; a02; a03]; vf [a10; a11; a12; a13]; vf [a20; a21; a22; a23]]); ("b", TMat KFloat 2 3, VMat [vf [b00; b01; b02]; vf [b10; b11; b12]])] t_MulMatMat_f32
  = eval_binary Naga.IR.Syntax.BMul (VMat [vf [a00; a01; a02; a03]; vf [a10; a11; a12; a13]; vf [a20; a21; a22; a23]]) (VMat [vf [b00; b01; b02]; vf [b10; b11; b12]]).
Proof. seval. Qed.

Lemma hlsl_MulMatMat_c2r4k4_correct : forall a00 a01 a02 a03 a10 a11 a12 a13 a20 a21 a22 a23 a30 a31 a32 a33 b00 b01 b02 b03 b10 b11 b12 b13,
  eval_template [] [("a", TMat KFloat 4 4, VMat [vf [a00; a01; a02; a03]; vf [a10; a11; a12; a13]; vf [a20; a21; a22; a23]; vf [a30; a31; a32; a33]]); ("b", TMat KFloat 2 4, VMat [vf [b00; b01; b02; b03]; vf [b10; b11; b12; b13]])] t_MulMatMat_f32
  = eval_binary Naga.IR.Syntax.BMul (VMat [vf [a00; a01; a02; a03]; vf [a10; a11; a12; a13]; vf [a20; a21; a22; a23]; vf [a30; a31; a32; a33]]) (VMat [vf [b00; b01; b02; b03]; vf [b10; b11; b12; b13]]).
Proof. seval. Qed.

Lemma hlsl_MulMatMat_c3r2k2_correct : forall a00 a01 a10 a11 b00 b01 b10 b11 b20 b21,
  eval_template [] [("a", TMat KFloat 2 2, VMat [vf [a00; a01]; vf [a10; a11]]); ("b", TMat KFloat 3 2, VMat [vf [b00; b01]; vf [b10; b11]; vf [b20; b21]])] t_MulMatMat_f32
  = eval_binary Naga.IR.Syntax.BMul (VMat [vf [a00; a01]; vf [a10; a11]]) (VMat [vf [b00; b01]; vf [b10; b11]; vf [b20; b21]]).
Proof. seval. Qed.

Lemma hlsl_MulMatMat_c3r2k3_correct : forall a00 a01 a10 a11 a20 a21 b00 b01 b02 b10 b11 b12 b20 b21 b22,
  eval_template [] [("a", TMat KFloat 3 2, VMat [vf [a00; a01]; vf [a10; a11]; vf [a20; a21]]); ("b", TMat KFloat 3 3, VMat [vf [b00; b01; b02]; vf [b10; b11; b12]; vf [b20; b21; b22]])] t_MulMatMat_f32
  = eval_binary Naga.IR.Syntax.BMul (VMat [vf [a00; a01]; vf [a10; a11]; vf [a20; a21]]) (VMat [vf [b00; b01; b02]; vf [b10; b11; b12]; vf [b20; b21; b22]]).
Proof. seval. Qed.

Lemma hlsl_MulMatMat_c3r2k4_correct : forall a00 a01 a10 a11 a20 a21 a30 a31 b00 b01 b02 b03 b10 b11 b12 b13 b20 b21 b22 b23,
  eval_template [] [("a", TMat KFloat 4 2, VMat [vf [a00; a01]; vf [a10; a11]; vf [a20; a21]; vf [a30; a31]]); ("b", TMat KFloat 3 4, VMat [vf [b00; b01; b02; b03]; vf [b10; b11; b12; b13]; vf [b20; b21; b22; b23]])] t_MulMatMat_f32
  = eval_binary Naga.IR.Syntax.BMul (VMat [vf [a00; a01]; vf [a10; a11]; vf [a20; a21]; vf [a30; a31]]) (VMat [vf [b00; b01; b02; b03]; vf [b10; b11; b12; b13]; vf [b20; b21; b22; b23]]).
Proof. seval. Qed.

Lemma hlsl_MulMatMat_c3r3k2_correct : forall a00 a01 a02 a10 a11 a12 b00 b01 b10 b11 b20 b21,
  eval_template [] [("a", TMat KFloat 2 3, VMat [vf [a00; a01; a02]; vf [a10; a11; a12]]); ("b", TMat KFloat 3 2, VMat [vf [b00; b01]; vf [b10; b11]; vf [b20; b21]])] t_MulMatMat_f32
  = eval_binary Naga.IR.Syntax.BMul (VMat [vf [a00; a01; a02]; vf [a10; a11; a12]]) (VMat [vf [b00; b01]; vf [b10; b11]; vf [b20; b21]]).
Proof. seval. Qed.

Lemma hlsl_MulMatMat_c3r3k3_correct : forall a00 a01 a02 a10 a11 a12 a20 a21 a22 b00 b01 b02 b10 b11 b12 b20 b21 b22,
  eval_template [] [("a", TMat KFloat 3 3, VMat [vf [a00; a01; a02]; vf [a10; a11; a12]; vf [a20; a21; a22]]); ("b", TMat KFloat 3 3, VMat [vf [b00; b01; b02]; vf [b10; b11; b12]; vf [b20; b21; b22]])] t_MulMatMat_f32
  = eval_binary Naga.IR.Syntax.BMul (VMat [vf [a00; a01; a02]; vf [a10; a11; a12]; vf [a20; a21; a22]]) (VMat [vf [b00; b01; b02]; vf [b10; b11; b12]; vf [b20; b21; b22]]).
Proof. seval. Qed.

Lemma hlsl_MulMatMat_c3r3k4_correct : forall a00 a01 a02 a10 a11 a12 a20 a21 a22 a30 a31 a32 b00 b01 b02 b03 b10 b11 b12 b13 b20 b21 b22 b23,
  eval_template [] [("a", TMat KFloat 4 3, VMat [vf [a00; a01; a02]; vf [a10; a11; a12]; vf [a20; a21; a22]; vf [a30; a31; a32]]); ("b", TMat KFloat 3 4, VMat [vf [b00; b01; b02; b03]; vf [b10; b11; b12; b13]; vf [b20; b21; b22; b23]])] t_MulMatMat_f32
  = eval_binary Naga.IR.Syntax.BMul (VMat [vf [a00; a01; a02]; vf [a10; a11; a12]; vf [a20; a21; a22]; vf [a30; a31; a32]]) (VMat [vf [b00; b01; b02; b03]; vf [b10; b11; b12; b13]; vf [b20; b21; b22; b23]]).
Proof. seval. Qed.

Lemma hlsl_MulMatMat_c3r4k2_correct : forall a00 a01 a02 a03 a10 a11 a12 a13 b00 b01 b10 b11 b20 b21,
  eval_template [] [("a", TMat KFloat 2 4, VMat [vf [a00; a01; a02; a03]; vf [a10; a11; a12; a13]]); ("b", TMat KFloat 3 2, VMat [vf [b00; b01]; vf [b10; b11]; vf [b20; b21]])] t_MulMatMat_f32
  = eval_binary Naga.IR.Syntax.BMul (VMat [vf [a00; a01; a02; a03]; vf [a10; a11; a12; a13]]) (VMat [vf [b00; b01]; vf [b10; b11]; vf [b20; b21]]).
Proof. seval. Qed.

Lemma hlsl_MulMatMat_c3r4k3_correct : forall a00 a01 a02 a03 a10 a11 a12 a13 a20 a21 a22 a23 b00 b01 b02 b10 b11 b12 b20 b21 b22,
  eval_template [] [("a", TMat KFloat 3 4, VMat [vf [a00; a01; a02; a03]; vf [a10; a11; a12; a13]; vf [a20; a21; a22; a23]]); ("b", TMat KFloat 3 3, VMat [vf [b00; b01; b02]; vf [b10; b11; b12]; vf [b20; b21; b22]])] t_MulMatMat_f32
  = eval_binary Naga.IR.Syntax.BMul (VMat [vf [a00; a01; a02; a03]; vf [a10; a11; a12; a13]; vf [a20; a21; a22; a23]]) (VMat [vf [b00; b01; b02]; vf [b10; b11; b12]; vf [b20; b21; b22]]).
Proof. seval. Qed.

Lemma hlsl_MulMatMat_c3r4k4_correct : forall a00 a01 a02 a03 a10 a11 a12 a13 a20 a21 a22 a23 a30 a31 a32 a33 b00 b01 b02 b03 b10 b11 b12 b13 b20 b21 b22 b23,
  eval_template [] [("a", TMat KFloat 4 4, VMat [vf [a00; a01; a02; a03]; vf [a10; a11; a12; a13]; vf [a20; a21; a22; a23]; vf [a30; a31; a32; a33]]); ("b", TMat KFloat 3 4, VMat [vf [b00; b01; b02; b03]; vf [b10; b11; b12; b13]; vf [b20; b21; b22; b23]])] t_MulMatMat_f32
  = eval_binary Naga.IR.Syntax.BMul (VMat [vf [a00; a01; a02; a03]; vf [a10; a11; a12; a13]; vf [a20; a21; a22; a23]; vf [a30; a31; a32; a33]]) (VMat [vf [b00; b01; b02; b03]; vf [b10; b11; b12; b13]; vf [b20; b21; b22; b23]]).
Proof. seval. Qed.

Lemma hlsl_MulMatMat_c4r2k2_correct : forall a00 a01 a10 a11 b00 b01 b10 b11 b20 b21 b30 b31,
  eval_template [] [("a", TMat KFloat 2 2, VMat [vf [a00; a01]; vf [a10; a11]]); ("b", TMat KFloat 4 2, VMat [vf [b00; b01]; vf [b10; b11]; vf [b20; b21]; vf [b30; b31]])] t_MulMatMat_f32
  = eval_binary Naga.IR.Syntax.BMul (VMat [vf [a00; a01]; vf [a10; a11]]) (VMat [vf [b00; b01]; vf [b10; b11]; vf [b20; b21]; vf [b30; b31]]).
Proof. seval. Qed.

Lemma hlsl_MulMatMat_c4r2k3_correct : forall a00 a01 a10 a11 a20 a21 b00 b01 b02 b10 b11 b12 b20 b21 b22 b30 b31 b32,
  eval_template [] [("a", TMat KFloat 3 2, VMat [vf [a00; a01]; vf [a10; a11]; vf [a20; a21]]); ("b", TMat KFloat 4 3, VMat [vf [b00; b01; b02]; vf [b10; b11; b12]; vf [b20; b21; b22]; vf [b30; b31; b32]])] t_MulMatMat_f32
  = eval_binary Naga.IR.Syntax.BMul (VMat [vf [a00; a01]; vf [a10; a11]; vf [a20; a21]]) (VMat [vf [b00; b01; b02]; vf [b10; b11; b12]; vf [b20; b21; b22]; vf [b30; b31; b32]]).
Proof. seval. Qed.

Lemma hlsl_MulMatMat_c4r2k4_correct : forall a00 a01 a10 a11 a20 a21 a30 a31 b00 b01 b02 b03 b10 b11 b12 b13 b20 b21 b22 b23 b30 b31 b32 b33,
  eval_template [] [("a", TMat KFloat 4 2, VMat [vf [a00; a01]; vf [a10; a11]; vf [a20; a21]; vf [a30; a31]]); ("b", TMat KFloat 4 4, VMat [vf [b00; b01; b02; b03]; vf [b10; b11; b12; b13]; vf [b20; b21; b22; b23]; vf [b30; b31; b32; b33]])] t_MulMatMat_f32
  = eval_binary Naga.IR.Syntax.BMul (VMat [vf [a00; a01]; vf [a10; a11]; vf [a20; a21]; vf [a30; a31]]) (VMat [vf [b00; b01; b02; b03]; vf [b10; b11; b12; b13]; vf [b20; b21; b22; b23]; vf [b30; b31; b32; b33]]).
Proof. seval. Qed.

Lemma hlsl_MulMatMat_c4r3k2_correct : forall a00 a01 a02 a10 a11 a12 b00 b01 b10 b11 b20 b21 b30 b31,
  eval_template [] [("a", TMat KFloat 2 3, VMat [vf [a00; a01; a02]; vf [a10; a11; a12]]); ("b", TMat KFloat 4 2, VMat [vf [b00; b01]; vf [b10; b11]; vf [b20; b21]; vf [b30; b31]])] t_MulMatMat_f32
  = eval_binary Naga.IR.Syntax.BMul (VMat [vf [a00; a01; a02]; vf [a10; a11; a12]]) (VMat [vf [b00; b01]; vf [b10; b11]; vf [b20; b21]; vf [b30; b31]]).
Proof. seval. Qed.

Lemma hlsl_MulMatMat_c4r3k3_correct : forall a00 a01 a02 a10 a11 a12 a20 a21 a22 b00 b01 b02 b10 b11 b12 b20 b21 b22 b30 b31 b32,
  eval_template [] [("a", TMat KFloat 3 3, VMat [vf [a00; a01; a02]; vf [a10; a11; a12]; vf [a20; a21; a22]]); ("b", TMat KFloat 4 3, VMat [vf [b00; b01; b02]; vf [b10; b11; b12]; vf [b20; b21; b22]; vf [b30; b31; b32]])] t_MulMatMat_f32
  = eval_binary Naga.IR.Syntax.BMul (VMat [vf [a00; a01; a02]; vf [a10; a11; a12]; vf [a20; a21; a22]]) (VMat [vf [b00; b01; b02]; vf [b10; b11; b12]; vf [b20; b21; b22]; vf [b30; b31; b32]]).
Proof. seval. Qed.

Lemma hlsl_MulMatMat_c4r3k4_correct : forall a00 a01 a02 a10 a11 a12 a20 a21 a22 a30 a31 a32 b00 b01 b02 b03 b10 b11 b12 b13 b20 b21 b22 b23 b30 b31 b32 b33,
  eval_template [] [("a", TMat KFloat 4 3, VMat [vf [a00; a01; a02]; vf [a10; a11; a12]; vf [a20; a21; a22]; vf [a30; a31; a32]]); ("b", TMat KFloat 4 4, VMat [vf [b00; b01; b02; b03]; vf [b10; b11; b12; b13]; vf [b20; b21; b22; b23]; vf [b30; b31; b32; b33]])] t_MulMatMat_f32
  = eval_binary Naga.IR.Syntax.BMul (VMat [vf [a00; a01; a02]; vf [a10; a11; a12]; vf [a20; a21; a22]; vf [a30; a31; a32]]) (VMat [vf [b00; b01; b02; b03]; vf [b10; b11; b12; b13]; vf [b20; b21; b22; b23]; vf [b30; b31; b32; b33]]).
Proof. seval. Qed.

Lemma hlsl_MulMatMat_c4r4k2_correct : forall a00 a01 a02 a03 a10 a11 a12 a13 b00 b01 b10 b11 b20 b21 b30 b31,
  eval_template [] [("a", TMat KFloat 2 4, VMat [vf [a00; a01; a02; a03]; vf [a10; a11; a12; a13]]); ("b", TMat KFloat 4 2, VMat [vf [b00; b01]; vf [b10; b11]; vf [b20; b21]; vf [b30; b31]])] t_MulMatMat_f32
  = eval_binary Naga.IR.Syntax.BMul (VMat [vf [a00; a01; a02; a03]; vf [a10; a11; a12; a13]]) (VMat [vf [b00; b01]; vf [b10; b11]; vf [b20; b21]; vf [b30; b31]]).
Proof. seval. Qed.

Lemma hlsl_MulMatMat_c4r4k3_correct : forall a00 a01 a02 a03 a10 a11 a12 a13 a20 a21 a22 a23 b00 b01 b02 b10 b11 b12 b20 b21 b22 b30 b31 b32,
  eval_template [] [("a", TMat KFloat 3 4, VMat [vf [a00; a01; a02; a03]; vf [a10; a11; a12; a13]; vf [a20; a21; a22; a23]]); ("b", TMat KFloat 4 3, VMat [vf [b00; b01; b02]; vf [b10; b11; b12]; vf [b20; b21; b22]; vf [b30; b31; b32]])] t_MulMatMat_f32
  = eval_binary Naga.IR.Syntax.BMul (VMat [vf [a00; a01; a02; a03]; vf [a10; a11; a12; a13]; vf [a20; a21; a22; a23]]) (VMat [vf [b00; b01; b02]; vf [b10; b11; b12]; vf [b20; b21; b22]; vf [b30; b31; b32]]).
Proof. seval. Qed.

Lemma hlsl_MulMatMat_c4r4k4_correct : forall a00 a01 a02 a03 a10 a11 a12 a13 a20 a21 a22 a23 a30 a31 a32 a33 b00 b01 b02 b03 b10 b11 b12 b13 b20 b21 b22 b23 b30 b31 b32 b33,
  eval_template [] [("a", TMat KFloat 4 4, VMat [vf [a00; a01; a02; a03]; vf [a10; a11; a12; a13]; vf [a20; a21; a22; a23]; vf [a30; a31; a32; a33]]); ("b", TMat KFloat 4 4, VMat [vf [b00; b01; b02; b03]; vf [b10; b11; b12; b13]; vf [b20; b21; b22; b23]; vf [b30; b31; b32; b33]])] t_MulMatMat_f32
  = eval_binary Naga.IR.Syntax.BMul (VMat [vf [a00; a01; a02; a03]; vf [a10; a11; a12; a13]; vf [a20; a21; a22; a23]; vf [a30; a31; a32; a33]]) (VMat [vf [b00; b01; b02; b03]; vf [b10; b11; b12; b13]; vf [b20; b21; b22; b23]; vf [b30; b31; b32; b33]]).
Proof. seval. Qed.

(* ---- refuted templates: a witness operand on which the emitted expression does not compute the
   WGSL meaning.  Each is a finding (known_findings.jsonl). ---- *)

(* countLeadingZeros is emitted as firstbithigh(a): the POSITION of the highest set bit, not the number
   of leading zeros (and, for i32, with the type of firstbithigh's result) *)
Lemma hlsl_MathCountLeadingZeros_u32_refuted :
  exists a, in32 a /\ eval_template h_MathCountLeadingZeros_u32 [("a", TScal KUint, VU32 a)] t_MathCountLeadingZeros_u32
                      <> Done (VU32 (count_leading_zeros a)).
Proof. exists 1. split; [unfold in32, M32; lia | vm_compute; discriminate]. Qed.
Lemma hlsl_MathCountLeadingZeros_i32_refuted :
  exists a, in32 a /\ eval_template h_MathCountLeadingZeros_i32 [("a", TScal KInt, VI32 a)] t_MathCountLeadingZeros_i32
                      <> Done (VI32 (count_leading_zeros a)).
Proof. exists 1. split; [unfold in32, M32; lia | vm_compute; discriminate]. Qed.
(* countTrailingZeros is emitted as firstbitlow(a): -1 instead of 32 for a = 0 *)
Lemma hlsl_MathCountTrailingZeros_u32_refuted :
  exists a, in32 a /\ eval_template h_MathCountTrailingZeros_u32 [("a", TScal KUint, VU32 a)] t_MathCountTrailingZeros_u32
                      <> Done (VU32 (count_trailing_zeros a)).
Proof. exists 0. split; [unfold in32, M32; lia | vm_compute; discriminate]. Qed.
Lemma hlsl_MathCountTrailingZeros_i32_refuted :
  exists a, in32 a /\ eval_template h_MathCountTrailingZeros_i32 [("a", TScal KInt, VI32 a)] t_MathCountTrailingZeros_i32
                      <> Done (VI32 (count_trailing_zeros a)).
Proof. exists 0. split; [unfold in32, M32; lia | vm_compute; discriminate]. Qed.
(* HLSL sign() returns an int: used where an f32 is expected without a conversion (e.g. directly inside
   asuint(...) of a buffer store) it yields the integer -1 / 0 / 1, not the float.  Witness: -1.0 *)
Lemma hlsl_MathSign_f32_refuted :
  exists a, in32 a /\ eval_template h_MathSign_f32 [("a", TScal KFloat, VF32 a)] t_MathSign_f32
                      <> Done (VF32 (if is_nan_bits a then a else if flt 0 a then 1065353216 else if flt a 0 then 3212836864 else a)).
Proof. exists 3212836864. split; [unfold in32, M32; lia | vm_compute; discriminate]. Qed.

(* ---- the catalogue as a whole ---- *)
Definition entry_ok (e : cat_entry) : Prop :=
  match e_status e, e_spec e with
  | Proved, Some spec =>
    forall zs, List.length zs = List.length (e_args e) -> Forall in32 zs -> e_pre e zs = true ->
    eval_template (e_helpers e) (bind_operands operand_names (e_args e) zs) (e_template e) = Done (spec zs)
  | Proved, None => False
  | _, _ => True
  end.

Ltac entry_by L :=
  cbv [entry_ok e_status e_spec e_args e_pre e_helpers e_template List.length];
  let zs := fresh "zs" in let Hl := fresh "Hl" in let Ha := fresh "Ha" in let Hp := fresh "Hp" in
  intros zs Hl Ha Hp;
  destruct zs as [|? [|? [|? [|? [|? ?]]]]]; try discriminate Hl;
  repeat match goal with H : Forall _ (_ :: _) |- _ => inversion H; clear H; subst end;
  cbv [bind_operands operand_names mkval nthz nthb nth];
  apply L; assumption.

Theorem catalogue_sound : Forall entry_ok catalogue.
Proof.
  unfold catalogue.
  repeat (apply Forall_cons; [ shelve | ]). apply Forall_nil.
  Unshelve.
  - entry_by hlsl_Add_i32_correct.
  - entry_by hlsl_Subtract_i32_correct.
  - entry_by hlsl_Multiply_i32_correct.
  - entry_by hlsl_Divide_i32_correct.
  - entry_by hlsl_Modulo_i32_correct.
  - entry_by hlsl_Equal_i32_correct.
  - entry_by hlsl_NotEqual_i32_correct.
  - entry_by hlsl_Less_i32_correct.
  - entry_by hlsl_LessEqual_i32_correct.
  - entry_by hlsl_Greater_i32_correct.
  - entry_by hlsl_GreaterEqual_i32_correct.
  - entry_by hlsl_Add_u32_correct.
  - entry_by hlsl_Subtract_u32_correct.
  - entry_by hlsl_Multiply_u32_correct.
  - entry_by hlsl_Divide_u32_correct.
  - entry_by hlsl_Modulo_u32_correct.
  - entry_by hlsl_Equal_u32_correct.
  - entry_by hlsl_NotEqual_u32_correct.
  - entry_by hlsl_Less_u32_correct.
  - entry_by hlsl_LessEqual_u32_correct.
  - entry_by hlsl_Greater_u32_correct.
  - entry_by hlsl_GreaterEqual_u32_correct.
  - entry_by hlsl_Add_f32_correct.
  - entry_by hlsl_Subtract_f32_correct.
  - entry_by hlsl_Multiply_f32_correct.
  - entry_by hlsl_Divide_f32_correct.
  - exact I.
  - entry_by hlsl_Equal_f32_correct.
  - entry_by hlsl_NotEqual_f32_correct.
  - entry_by hlsl_Less_f32_correct.
  - entry_by hlsl_LessEqual_f32_correct.
  - entry_by hlsl_Greater_f32_correct.
  - entry_by hlsl_GreaterEqual_f32_correct.
  - entry_by hlsl_And_i32_correct.
  - entry_by hlsl_InclusiveOr_i32_correct.
  - entry_by hlsl_ExclusiveOr_i32_correct.
  - entry_by hlsl_ShiftLeft_i32_correct.
  - entry_by hlsl_ShiftRight_i32_correct.
  - entry_by hlsl_BitwiseNot_i32_correct.
  - entry_by hlsl_And_u32_correct.
  - entry_by hlsl_InclusiveOr_u32_correct.
  - entry_by hlsl_ExclusiveOr_u32_correct.
  - entry_by hlsl_ShiftLeft_u32_correct.
  - entry_by hlsl_ShiftRight_u32_correct.
  - entry_by hlsl_BitwiseNot_u32_correct.
  - entry_by hlsl_And_bool_correct.
  - entry_by hlsl_InclusiveOr_bool_correct.
  - entry_by hlsl_Equal_bool_correct.
  - entry_by hlsl_NotEqual_bool_correct.
  - entry_by hlsl_LogicalNot_bool_correct.
  - entry_by hlsl_Negate_i32_correct.
  - entry_by hlsl_Negate_f32_correct.
  - entry_by hlsl_Select_i32_correct.
  - entry_by hlsl_Select_u32_correct.
  - entry_by hlsl_Select_f32_correct.
  - entry_by hlsl_Select_bool_correct.
  - entry_by hlsl_MathAbs_i32_correct.
  - entry_by hlsl_MathMin_i32_correct.
  - entry_by hlsl_MathMax_i32_correct.
  - entry_by hlsl_MathClamp_i32_correct.
  - entry_by hlsl_MathAbs_u32_correct.
  - entry_by hlsl_MathMin_u32_correct.
  - entry_by hlsl_MathMax_u32_correct.
  - entry_by hlsl_MathClamp_u32_correct.
  - entry_by hlsl_MathAbs_f32_correct.
  - entry_by hlsl_MathMin_f32_correct.
  - entry_by hlsl_MathMax_f32_correct.
  - entry_by hlsl_MathClamp_f32_correct.
  - entry_by hlsl_MathSign_i32_correct.
  - exact I.
  - entry_by hlsl_MathCountOneBits_i32_correct.
  - entry_by hlsl_MathReverseBits_i32_correct.
  - entry_by hlsl_MathFirstLeadingBit_i32_correct.
  - entry_by hlsl_MathFirstTrailingBit_i32_correct.
  - exact I.
  - exact I.
  - entry_by hlsl_MathExtractBits_i32_correct.
  - entry_by hlsl_MathInsertBits_i32_correct.
  - entry_by hlsl_MathCountOneBits_u32_correct.
  - entry_by hlsl_MathReverseBits_u32_correct.
  - entry_by hlsl_MathFirstLeadingBit_u32_correct.
  - entry_by hlsl_MathFirstTrailingBit_u32_correct.
  - exact I.
  - exact I.
  - entry_by hlsl_MathExtractBits_u32_correct.
  - entry_by hlsl_MathInsertBits_u32_correct.
  - entry_by hlsl_MathFloor_f32_correct.
  - entry_by hlsl_MathCeil_f32_correct.
  - entry_by hlsl_MathTrunc_f32_correct.
  - entry_by hlsl_MathRound_f32_correct.
  - entry_by hlsl_MathSqrt_f32_correct.
  - entry_by hlsl_MathSaturate_f32_correct.
  - exact I.
  - exact I.
  - exact I.
  - exact I.
  - exact I.
  - exact I.
  - exact I.
  - exact I.
  - exact I.
  - exact I.
  - exact I.
  - exact I.
  - exact I.
  - exact I.
  - exact I.
  - exact I.
  - exact I.
  - exact I.
  - exact I.
  - exact I.
  - entry_by hlsl_MathFma_f32_correct.
  - exact I.
  - exact I.
  - entry_by hlsl_As_u32_i32_correct.
  - entry_by hlsl_As_f32_i32_correct.
  - entry_by hlsl_As_bool_i32_correct.
  - entry_by hlsl_As_i32_u32_correct.
  - entry_by hlsl_As_f32_u32_correct.
  - entry_by hlsl_As_bool_u32_correct.
  - entry_by hlsl_As_i32_f32_correct.
  - entry_by hlsl_As_u32_f32_correct.
  - entry_by hlsl_As_bool_f32_correct.
  - entry_by hlsl_As_i32_bool_correct.
  - entry_by hlsl_As_u32_bool_correct.
  - entry_by hlsl_As_f32_bool_correct.
  - entry_by hlsl_Bitcast_u32_i32_correct.
  - entry_by hlsl_Bitcast_f32_i32_correct.
  - entry_by hlsl_Bitcast_i32_u32_correct.
  - entry_by hlsl_Bitcast_f32_u32_correct.
  - entry_by hlsl_Bitcast_i32_f32_correct.
  - entry_by hlsl_Bitcast_u32_f32_correct.
  - entry_by hlsl_SelectScalarCond_i32_correct.
  - entry_by hlsl_SelectScalarCond_u32_correct.
  - entry_by hlsl_SelectScalarCond_f32_correct.
  - entry_by hlsl_SelectScalarCond_bool_correct.
  - exact I.
  - exact I.
  - exact I.
  - exact I.
  - exact I.
  - exact I.
  - exact I.
  - exact I.
  - entry_by hlsl_AddVecScalar_i32_correct.
  - entry_by hlsl_AddScalarVec_i32_correct.
  - entry_by hlsl_MultiplyVecScalar_i32_correct.
  - entry_by hlsl_MultiplyScalarVec_i32_correct.
  - entry_by hlsl_DivideVecScalar_i32_correct.
  - entry_by hlsl_DivideScalarVec_i32_correct.
  - entry_by hlsl_AddVecScalar_u32_correct.
  - entry_by hlsl_AddScalarVec_u32_correct.
  - entry_by hlsl_MultiplyVecScalar_u32_correct.
  - entry_by hlsl_MultiplyScalarVec_u32_correct.
  - entry_by hlsl_DivideVecScalar_u32_correct.
  - entry_by hlsl_DivideScalarVec_u32_correct.
  - entry_by hlsl_AddVecScalar_f32_correct.
  - entry_by hlsl_AddScalarVec_f32_correct.
  - entry_by hlsl_MultiplyVecScalar_f32_correct.
  - entry_by hlsl_MultiplyScalarVec_f32_correct.
  - entry_by hlsl_DivideVecScalar_f32_correct.
  - entry_by hlsl_DivideScalarVec_f32_correct.
  - exact I.
  - exact I.
  - exact I.
  - exact I.
  - exact I.
  - exact I.
  - exact I.
  - exact I.
Qed.
