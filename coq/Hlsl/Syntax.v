(* The subset of HLSL that naga's HLSL backend emits (hlsl/internal/codegen),
   as Gallina data.  Produced from the emitted text by the reader lib/hlslread.py
   (JSON) and decoded by Hlsl/Decode.v.  Property C03.

   Types: naga spells a WGSL matCxR as floatCxR, i.e. an HLSL matrix with C rows
   of R components; row i of the HLSL matrix is column i of the WGSL matrix.
   [TMat k c r] keeps naga's spelling (c = first number). *)
From Coq Require Import List ZArith String Bool.
Import ListNotations.
Open Scope Z_scope.

Inductive skind := KInt | KUint | KFloat | KBool.

Inductive htype :=
| TVoid
| TScal (k : skind)
| TVec (k : skind) (n : nat)
| TMat (k : skind) (c r : nat)
| TNamed (name : string)                    (* struct or typedef name *)
| TArr (elem : htype) (n : nat)
| TBuf (rw : bool).                         (* ByteAddressBuffer / RWByteAddressBuffer *)

Inductive unop := UNeg | UNot | UBitNot | UPlus.

Inductive binop :=
| BAdd | BSub | BMul | BDiv | BMod
| BShl | BShr | BAnd | BOr | BXor
| BLAnd | BLOr
| BEq | BNe | BLt | BLe | BGt | BGe.

Inductive expr :=
| ELitI (z : Z)                             (* unsuffixed integer literal: int *)
| ELitU (z : Z)                             (* u-suffixed literal: uint *)
| ELitF (bits : Z)                          (* float literal, as the binary32 pattern it denotes *)
| ELitB (b : bool)
| EVar (x : string)
| EUn (o : unop) (e : expr)
| EBin (o : binop) (a b : expr)
| ECond (c a b : expr)
| ECast (t : htype) (e : expr)              (* (T)e *)
| ECtor (t : htype) (args : list expr)      (* T(e1, ...) for scalar, vector and matrix type names *)
| ECall (f : string) (args : list expr)     (* user function, generated helper or intrinsic *)
| EMember (e : expr) (m : string)           (* .member or swizzle *)
| EIndex (e i : expr)
| EMethod (obj : expr) (m : string) (args : list expr)   (* buf.Load(...), buf.Store(...), ... *)
| EInit (es : list expr).                   (* { e1, ... } initialiser list *)

Inductive stmt :=
| SDecl (t : htype) (x : string) (init : option expr)
| SAssign (o : option binop) (lhs rhs : expr)            (* lhs = rhs;  lhs op= rhs; *)
| SIncr (lhs : expr)                                     (* lhs++ (for-loop step) *)
| SExpr (e : expr)
| SIf (c : expr) (a b : list stmt)
| SWhile (c : expr) (body : list stmt)
| SDoWhile (body : list stmt) (c : expr)
| SFor (init : list stmt) (c : expr) (step : list stmt) (body : list stmt)
| SSwitch (e : expr) (cases : list (option expr * list stmt))   (* label (None = default), body; C fall-through *)
| SBreak
| SContinue
| SReturn (e : option expr)
| SBlock (b : list stmt).

Record param := mkparam { p_inout : bool; p_type : htype; p_name : string; p_sem : option string }.

Record func := mkfunc {
  fn_name : string; fn_ret : htype; fn_params : list param; fn_body : list stmt;
  fn_numthreads : option (list Z) }.        (* Some _ : compute entry point *)

Inductive gkind :=
| GStatic                                   (* static T x = init;  (private) *)
| GConst                                    (* static const T x = init; *)
| GShared                                   (* groupshared T x; *)
| GCBuffer (reg : string)                   (* cbuffer x : register(bN[, spaceM]) { T x; } *)
| GBuffer (rw : bool) (reg : string).       (* [RW]ByteAddressBuffer x : register(...) *)

Record gvar := mkgvar { gv_kind : gkind; gv_type : htype; gv_name : string; gv_init : option expr }.

Record program := mkprogram {
  pr_structs : list (string * list (htype * string));
  pr_typedefs : list (string * htype);
  pr_globals : list gvar;
  pr_funcs : list func }.

(* ---- boolean equalities used by the op-table obligation ---- *)
Definition skind_eqb (a b : skind) : bool :=
  match a, b with KInt, KInt | KUint, KUint | KFloat, KFloat | KBool, KBool => true | _, _ => false end.

Fixpoint htype_eqb (a b : htype) : bool :=
  match a, b with
  | TVoid, TVoid => true
  | TScal k, TScal k' => skind_eqb k k'
  | TVec k n, TVec k' n' => skind_eqb k k' && Nat.eqb n n'
  | TMat k c r, TMat k' c' r' => skind_eqb k k' && Nat.eqb c c' && Nat.eqb r r'
  | TNamed s, TNamed s' => String.eqb s s'
  | TArr e n, TArr e' n' => htype_eqb e e' && Nat.eqb n n'
  | TBuf r, TBuf r' => Bool.eqb r r'
  | _, _ => false
  end.

Definition unop_eqb (a b : unop) : bool :=
  match a, b with UNeg, UNeg | UNot, UNot | UBitNot, UBitNot | UPlus, UPlus => true | _, _ => false end.

Definition binop_code (o : binop) : nat :=
  match o with
  | BAdd => 0 | BSub => 1 | BMul => 2 | BDiv => 3 | BMod => 4 | BShl => 5 | BShr => 6 | BAnd => 7 | BOr => 8 | BXor => 9
  | BLAnd => 10 | BLOr => 11 | BEq => 12 | BNe => 13 | BLt => 14 | BLe => 15 | BGt => 16 | BGe => 17
  end%nat.
Definition binop_eqb (a b : binop) : bool := Nat.eqb (binop_code a) (binop_code b).

Fixpoint expr_eqb (a b : expr) {struct a} : bool :=
  let fix list_eqb (l1 l2 : list expr) {struct l1} : bool :=
      match l1, l2 with
      | [], [] => true
      | x :: l1', y :: l2' => expr_eqb x y && list_eqb l1' l2'
      | _, _ => false
      end in
  match a, b with
  | ELitI x, ELitI y | ELitU x, ELitU y | ELitF x, ELitF y => x =? y
  | ELitB x, ELitB y => Bool.eqb x y
  | EVar x, EVar y => String.eqb x y
  | EUn o e, EUn o' e' => unop_eqb o o' && expr_eqb e e'
  | EBin o x y, EBin o' x' y' => binop_eqb o o' && expr_eqb x x' && expr_eqb y y'
  | ECond c x y, ECond c' x' y' => expr_eqb c c' && expr_eqb x x' && expr_eqb y y'
  | ECast t e, ECast t' e' => htype_eqb t t' && expr_eqb e e'
  | ECtor t l, ECtor t' l' => htype_eqb t t' && list_eqb l l'
  | ECall f l, ECall f' l' => String.eqb f f' && list_eqb l l'
  | EMember e m, EMember e' m' => expr_eqb e e' && String.eqb m m'
  | EIndex e i, EIndex e' i' => expr_eqb e e' && expr_eqb i i'
  | EMethod o m l, EMethod o' m' l' => expr_eqb o o' && String.eqb m m' && list_eqb l l'
  | EInit l, EInit l' => list_eqb l l'
  | _, _ => false
  end.

Definition opt_eqb {A} (f : A -> A -> bool) (a b : option A) : bool :=
  match a, b with Some x, Some y => f x y | None, None => true | _, _ => false end.

(* statements of helper bodies are straight-line (declarations and a return);
   anything else compares unequal, which is the safe direction for the obligation *)
Definition stmt_eqb (a b : stmt) : bool :=
  match a, b with
  | SDecl t x i, SDecl t' x' i' => htype_eqb t t' && String.eqb x x' && opt_eqb expr_eqb i i'
  | SAssign o l r, SAssign o' l' r' => opt_eqb binop_eqb o o' && expr_eqb l l' && expr_eqb r r'
  | SReturn e, SReturn e' => opt_eqb expr_eqb e e'
  | SExpr e, SExpr e' => expr_eqb e e'
  | _, _ => false
  end.

Fixpoint stmts_eqb (a b : list stmt) : bool :=
  match a, b with
  | [], [] => true
  | x :: a', y :: b' => stmt_eqb x y && stmts_eqb a' b'
  | _, _ => false
  end.

Definition param_eqb (a b : param) : bool :=
  Bool.eqb (p_inout a) (p_inout b) && htype_eqb (p_type a) (p_type b) && String.eqb (p_name a) (p_name b).

Fixpoint params_eqb (a b : list param) : bool :=
  match a, b with
  | [], [] => true
  | x :: a', y :: b' => param_eqb x y && params_eqb a' b'
  | _, _ => false
  end.

Definition func_eqb (a b : func) : bool :=
  String.eqb (fn_name a) (fn_name b) && htype_eqb (fn_ret a) (fn_ret b)
  && params_eqb (fn_params a) (fn_params b) && stmts_eqb (fn_body a) (fn_body b).

Fixpoint funcs_eqb (a b : list func) : bool :=
  match a, b with
  | [], [] => true
  | x :: a', y :: b' => func_eqb x y && funcs_eqb a' b'
  | _, _ => false
  end.
