(* C13 — arithmetic of order-preserving renumbering: count / rank / keep, live sets. *)
From Coq Require Import List Arith Bool Lia.
Import ListNotations.
Require Import Naga.IR.Syntax Naga.Passes.Remap.
Local Open Scope nat_scope.

(* ---- count / rank ---- *)
Lemma count_split u i a b : count u i (a + b) = count u i a + count u (i + a) b.
Proof.
  revert i. induction a as [|a IH]; intro i; cbn [count Nat.add].
  - now rewrite Nat.add_0_r.
  - rewrite IH. replace (S i + a) with (i + S a) by lia. lia.
Qed.

Lemma rank_add u a k : rank u (a + k) = rank u a + count u a k.
Proof. unfold rank. rewrite count_split. reflexivity. Qed.

Lemma rank_S u h : rank u (S h) = rank u h + (if u h then 1 else 0).
Proof. replace (S h) with (h + 1) by lia. rewrite rank_add. cbn [count]. lia. Qed.

Lemma rank_mono u a b : a <= b -> rank u a <= rank u b.
Proof. intro H. replace b with (a + (b - a)) by lia. rewrite rank_add. lia. Qed.

Lemma rank_lt_used u a b : a < b -> u a = true -> rank u a < rank u b.
Proof.
  intros H Hu. replace b with (S a + (b - S a)) by lia. rewrite rank_add, rank_S, Hu. lia.
Qed.

Lemma rank_inj_used u a b : u a = true -> u b = true -> rank u a = rank u b -> a = b.
Proof.
  intros Ha Hb E. destruct (Nat.lt_trichotomy a b) as [L|[L|L]]; auto.
  - pose proof (rank_lt_used u a b L Ha). lia.
  - pose proof (rank_lt_used u b a L Hb). lia.
Qed.

Lemma count_le u i k : count u i k <= k.
Proof. revert i. induction k as [|k IH]; intro i; cbn [count]; [lia|]. specialize (IH (S i)). destruct (u i); lia. Qed.

Lemma rank_le u h : rank u h <= h.
Proof. apply count_le. Qed.

Lemma count_all_true u i k : (forall x, u x = true) -> count u i k = k.
Proof. intro H. revert i. induction k as [|k IH]; intro i; cbn [count]; [reflexivity|]. rewrite H, IH. reflexivity. Qed.

Lemma rank_all_true u h : (forall x, u x = true) -> rank u h = h.
Proof. intro H. apply count_all_true, H. Qed.

Lemma count_ext u v i k : (forall x, i <= x < i + k -> u x = v x) -> count u i k = count v i k.
Proof.
  revert i. induction k as [|k IH]; intros i H; cbn [count]; [reflexivity|].
  rewrite (H i) by lia. rewrite IH; [reflexivity|]. intros x Hx. apply H. lia.
Qed.

Lemma rank_ext u v h : (forall x, x < h -> u x = v x) -> rank u h = rank v h.
Proof. intro H. apply count_ext. intros x Hx. apply H. lia. Qed.

(* ---- keep ---- *)
Lemma keep_from_nth {A} u i (l : list A) k x :
  nth_error l k = Some x -> u (i + k) = true -> nth_error (keep_from u i l) (count u i k) = Some x.
Proof.
  revert i k. induction l as [|y l IH]; intros i k Hn Hu.
  - destruct k; discriminate.
  - destruct k as [|k]; cbn [keep_from count].
    + rewrite Nat.add_0_r in Hu. rewrite Hu. cbn in Hn |- *. exact Hn.
    + cbn in Hn. replace (i + S k) with (S i + k) in Hu by lia.
      specialize (IH (S i) k Hn Hu). destruct (u i); cbn; exact IH.
Qed.

Lemma keep_nth {A} u (l : list A) h x :
  nth_error l h = Some x -> u h = true -> nth_error (keep u l) (rank u h) = Some x.
Proof. intros. unfold keep, rank. apply keep_from_nth; auto. Qed.

Lemma keep_from_length {A} u i (l : list A) : List.length (keep_from u i l) = count u i (List.length l).
Proof.
  revert i. induction l as [|y l IH]; intro i; cbn [keep_from count List.length]; [reflexivity|].
  destruct (u i); cbn [List.length]; rewrite IH; lia.
Qed.

Lemma keep_length {A} u (l : list A) : List.length (keep u l) = rank u (List.length l).
Proof. apply keep_from_length. Qed.

Lemma keep_from_all_true {A} u i (l : list A) : (forall x, u x = true) -> keep_from u i l = l.
Proof. intro H. revert i. induction l as [|y l IH]; intro i; cbn [keep_from]; [reflexivity|]. rewrite H, IH. reflexivity. Qed.

(* every element of keep comes from a live position *)
Lemma keep_from_nth_inv {A} u i (l : list A) j x :
  nth_error (keep_from u i l) j = Some x ->
  exists k, nth_error l k = Some x /\ u (i + k) = true /\ j = count u i k.
Proof.
  revert i j. induction l as [|y l IH]; intros i j H; cbn [keep_from] in H.
  - destruct j; discriminate.
  - destruct (u i) eqn:Hu.
    + destruct j as [|j].
      * cbn in H. exists 0. rewrite Nat.add_0_r. cbn. auto.
      * cbn in H. destruct (IH (S i) j H) as (k & Hk & Huk & Hj).
        exists (S k). cbn [nth_error count]. rewrite Hu. replace (i + S k) with (S i + k) by lia. repeat split; auto; lia.
    + destruct (IH (S i) j H) as (k & Hk & Huk & Hj).
      exists (S k). cbn [nth_error count]. rewrite Hu. replace (i + S k) with (S i + k) by lia. repeat split; auto.
Qed.

Lemma keep_nth_inv {A} u (l : list A) j x :
  nth_error (keep u l) j = Some x -> exists k, nth_error l k = Some x /\ u k = true /\ j = rank u k.
Proof. intro H. destruct (keep_from_nth_inv u 0 l j x H) as (k & ? & ? & ?). exists k. auto. Qed.

(* ---- live sets as lists of booleans ---- *)
Lemma set_true_length u h : List.length (set_true u h) = List.length u.
Proof. revert h. induction u as [|b u IH]; intro h; [reflexivity|]. destruct h; cbn; [reflexivity|]. now rewrite IH. Qed.

Lemma uget_lt u k : uget u k = true -> k < List.length u.
Proof.
  unfold uget. intro H. destruct (Nat.lt_ge_cases k (List.length u)) as [L|L]; auto.
  rewrite nth_overflow in H by lia. discriminate.
Qed.

Lemma uget_set_true u h k : uget (set_true u h) k = ((Nat.eqb k h && Nat.ltb h (List.length u)) || uget u k)%bool.
Proof.
  unfold uget. revert h k. induction u as [|b u IH]; intros h k.
  - cbn. destruct k; rewrite andb_false_r; reflexivity.
  - destruct h as [|h]; destruct k as [|k]; cbn [set_true nth List.length].
    + reflexivity.
    + reflexivity.
    + reflexivity.
    + rewrite IH. cbn [Nat.eqb]. f_equal.
Qed.

Lemma marks_length u l : List.length (marks u l) = List.length u.
Proof. unfold marks. revert u. induction l as [|x l IH]; intro u; cbn; [reflexivity|]. rewrite IH. apply set_true_length. Qed.

Lemma uget_marks u l k : uget (marks u l) k = true <-> uget u k = true \/ (In k l /\ k < List.length u).
Proof.
  unfold marks. revert u. induction l as [|x l IH]; intro u; cbn [fold_left].
  - split; [auto|]. intros [H|[[] _]]. exact H.
  - rewrite IH. unfold mark. rewrite uget_set_true, set_true_length. split.
    + intros [H|[H1 H2]].
      * apply orb_true_iff in H. destruct H as [H|H]; [|auto].
        apply andb_true_iff in H. destruct H as [E L]. apply Nat.eqb_eq in E. apply Nat.ltb_lt in L. subst. right. split; [left; reflexivity|exact L].
      * right. split; [right; exact H1|exact H2].
    + intros [H|[[E|H1] H2]].
      * left. rewrite H. apply orb_true_r.
      * subst. left. rewrite Nat.eqb_refl. cbn. apply orb_true_iff. left. apply Nat.ltb_lt. exact H2.
      * right. auto.
Qed.

Lemma uget_marks_mono u l k : uget u k = true -> uget (marks u l) k = true.
Proof. intro H. apply uget_marks. auto. Qed.

Lemma uget_marks_notin u l k : ~ In k l -> uget (marks u l) k = uget u k.
Proof.
  intro H. destruct (uget (marks u l) k) eqn:E.
  - apply uget_marks in E. destruct E as [E|[E _]]; [now rewrite E|contradiction].
  - destruct (uget u k) eqn:E2; [|reflexivity]. rewrite uget_marks_mono in E; [discriminate|exact E2].
Qed.

Lemma uget_repeat_false n k : uget (repeat false n) k = false.
Proof. unfold uget. revert k. induction n; intro k; destruct k; cbn; auto. Qed.

Lemma all_true_uget u : all_true u = true -> forall k, k < List.length u -> uget u k = true.
Proof.
  unfold all_true, uget. intros H k Hk. rewrite forallb_forall in H. apply H. apply nth_In. exact Hk.
Qed.
