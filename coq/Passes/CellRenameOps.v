(* C13 — renaming of memory cells in run-time values (needed for removal of globals:
   CompactUnused drops dead global variables, so every later cell moves down).

   [vren live] renames the cell of every pointer inside a value through [rank live]
   (order-preserving; live cells keep their relative order), [vok live] says that
   every pointer inside a value names a live cell.  This file proves that every
   value operator of the reference semantics (IR/Values.v, IR/Sem.v: arithmetic,
   comparisons, lifts to vectors/matrices, select, relational, math builtins,
   conversions, compose, access, load/store paths, zero values, atomics) commutes
   with the renaming: if the operator yields [Done v] on operands whose pointers are
   live, it yields [Done (vren v)] on the renamed operands, and the pointers of v are
   live again.  Operators never invent pointers and never look inside them, but they
   do pass them through (select, compose, splat, ...), so this is proved operator by
   operator, for all operands. *)
From Coq Require Import List Arith Bool String Lia ZArith.
Import ListNotations.
Require Import Naga.Base.Bits32 Naga.Base.F32 Naga.IR.Syntax Naga.IR.Values Naga.IR.Sem.
Require Import Naga.Passes.Remap Naga.Passes.RemapProofs Naga.Passes.RenameSound.
Local Open Scope nat_scope.
Local Open Scope list_scope.

(* ---- induction over values (nested lists) ---- *)
Section ValueInd.
Variable P : value -> Prop.
Hypothesis Hb : forall b, P (VBool b).
Hypothesis Hi : forall z, P (VI32 z).
Hypothesis Hu : forall z, P (VU32 z).
Hypothesis Hf : forall z, P (VF32 z).
Hypothesis Hvec : forall l, Forall P l -> P (VVec l).
Hypothesis Hmat : forall l, Forall P l -> P (VMat l).
Hypothesis Harr : forall l, Forall P l -> P (VArr l).
Hypothesis Hst : forall l, Forall P l -> P (VStruct l).
Hypothesis Hptr : forall c p, P (VPtr c p).
Fixpoint value_ind2 (v : value) : P v :=
  let fix go (l : list value) : Forall P l :=
    match l with [] => Forall_nil P | x :: l' => Forall_cons x (value_ind2 x) (go l') end in
  match v with
  | VBool b => Hb b
  | VI32 z => Hi z
  | VU32 z => Hu z
  | VF32 z => Hf z
  | VVec l => Hvec l (go l)
  | VMat l => Hmat l (go l)
  | VArr l => Harr l (go l)
  | VStruct l => Hst l (go l)
  | VPtr c p => Hptr c p
  end.
End ValueInd.

Section Ren.
Variable live : nat -> bool.

Fixpoint vren (v : value) : value :=
  match v with
  | VVec l => VVec (map vren l)
  | VMat l => VMat (map vren l)
  | VArr l => VArr (map vren l)
  | VStruct l => VStruct (map vren l)
  | VPtr c p => VPtr (rank live c) p
  | _ => v
  end.

Fixpoint vok (v : value) : bool :=
  match v with
  | VVec l => forallb vok l
  | VMat l => forallb vok l
  | VArr l => forallb vok l
  | VStruct l => forallb vok l
  | VPtr c _ => live c
  | _ => true
  end.

(* ---- the simulation relation on results ---- *)
Definition rsim {A} (ren : A -> A) (ok : A -> bool) (r r' : result A) : Prop :=
  forall a, r = Done a -> r' = Done (ren a) /\ ok a = true.

Definition sim := rsim vren vok.
Definition siml := rsim (map vren) (forallb vok).
Definition simll := rsim (map (map vren)) (forallb (forallb vok)).

Lemma rsim_done {A} (ren : A -> A) ok a : ok a = true -> rsim ren ok (Done a) (Done (ren a)).
Proof. intros H x E. inversion E; subst. auto. Qed.

Lemma rsim_fail {A} (ren : A -> A) ok msg r' : rsim ren ok (Fail msg) r'.
Proof. intros x E. discriminate. Qed.

Lemma rsim_oof {A} (ren : A -> A) ok r' : rsim ren ok OutOfFuel r'.
Proof. intros x E. discriminate. Qed.

Lemma rsim_bind {A B} (renA : A -> A) okA (renB : B -> B) okB e e' k k' :
  rsim renA okA e e' ->
  (forall a, okA a = true -> rsim renB okB (k a) (k' (renA a))) ->
  rsim renB okB (rbind e k) (rbind e' k').
Proof.
  intros He Hk b H. inv_bind H. destruct (He a Ha) as [E Hok]. rewrite E. cbn [rbind].
  exact (Hk a Hok b H).
Qed.

Lemma rmap_sim {A B} (renA : A -> A) okA (renB : B -> B) okB (f f' : A -> result B) l :
  (forall x, In x l -> okA x = true -> rsim renB okB (f x) (f' (renA x))) ->
  forallb okA l = true ->
  rsim (map renB) (forallb okB) (rmap f l) (rmap f' (map renA l)).
Proof.
  induction l as [|x l IH]; intros Hf Hl; cbn [rmap map].
  - apply (rsim_done (map renB) (forallb okB) []). reflexivity.
  - cbn [forallb] in Hl. apply andb_true_iff in Hl. destruct Hl as [Hx Hl].
    apply (rsim_bind renB okB); [apply Hf; [left; reflexivity|exact Hx]|].
    intros y Hy. apply (rsim_bind (map renB) (forallb okB)).
    + apply IH; [|exact Hl]. intros z Hz. apply Hf. right. exact Hz.
    + intros ys Hys. apply (rsim_done (map renB) (forallb okB) (y :: ys)). cbn [forallb]. rewrite Hy, Hys. reflexivity.
Qed.

(* the operands are handles (not renamed) *)
Lemma rmap_sim_same {A B} (renB : B -> B) okB (f f' : A -> result B) l :
  (forall x, In x l -> rsim renB okB (f x) (f' x)) ->
  rsim (map renB) (forallb okB) (rmap f l) (rmap f' l).
Proof.
  intro Hf. rewrite <- (map_id l) at 2.
  apply (rmap_sim (fun x => x) (fun _ => true)); [intros x Hx _; apply Hf; exact Hx|].
  apply forallb_forall. reflexivity.
Qed.

Definition C1 (f : value -> result value) : Prop := forall a, vok a = true -> sim (f a) (f (vren a)).
Definition C2 (f : value -> value -> result value) : Prop :=
  forall a b, vok a = true -> vok b = true -> sim (f a b) (f (vren a) (vren b)).
Definition C3 (f : value -> value -> value -> result value) : Prop :=
  forall a b c, vok a = true -> vok b = true -> vok c = true -> sim (f a b c) (f (vren a) (vren b) (vren c)).

Lemma done_vec vs : forallb vok vs = true -> sim (Done (VVec vs)) (Done (VVec (map vren vs))).
Proof. intro H. exact (rsim_done vren vok (VVec vs) H). Qed.
Lemma done_mat vs : forallb vok vs = true -> sim (Done (VMat vs)) (Done (VMat (map vren vs))).
Proof. intro H. exact (rsim_done vren vok (VMat vs) H). Qed.

(* ---- lifting ---- *)
Lemma zip_res_sim2 f f' l1 :
  (forall a b, vok a = true -> vok b = true -> sim (f a b) (f' (vren a) (vren b))) -> forall l2,
  forallb vok l1 = true -> forallb vok l2 = true ->
  siml (zip_res f l1 l2) (zip_res f' (map vren l1) (map vren l2)).
Proof.
  intro Hf. induction l1 as [|x l1 IH]; intros l2 H1 H2; destruct l2 as [|y l2]; cbn [zip_res map];
    try apply rsim_fail.
  - apply (rsim_done (map vren) (forallb vok) []). reflexivity.
  - cbn [forallb] in H1, H2. apply andb_true_iff in H1. apply andb_true_iff in H2.
    destruct H1 as [Hx H1], H2 as [Hy H2].
    apply (rsim_bind vren vok); [apply Hf; assumption|].
    intros v Hv. apply (rsim_bind (map vren) (forallb vok)); [apply IH; assumption|].
    intros vs Hvs. apply (rsim_done (map vren) (forallb vok) (v :: vs)). cbn [forallb]. rewrite Hv, Hvs. reflexivity.
Qed.

Lemma zip_res_sim f l1 : C2 f -> forall l2,
  forallb vok l1 = true -> forallb vok l2 = true ->
  siml (zip_res f l1 l2) (zip_res f (map vren l1) (map vren l2)).
Proof. intro Hf. apply zip_res_sim2. exact Hf. Qed.

Lemma lift1_sim f : C1 f -> C1 (lift1 f).
Proof.
  intros Hf a Ha. destruct a; try exact (Hf _ Ha).
  cbn [lift1 vren]. cbn [vok] in Ha.
  apply (rsim_bind (map vren) (forallb vok)).
  - apply (rmap_sim vren vok); [|exact Ha]. intros x _ Hx. apply Hf. exact Hx.
  - intros vs Hvs. apply done_vec. exact Hvs.
Qed.

Lemma lift2_sim f : C2 f -> C2 (lift2 f).
Proof.
  intros Hf a b Ha Hb.
  destruct a; destruct b; try exact (Hf _ _ Ha Hb); cbn [lift2 vren].
  all: try (apply (rsim_bind (map vren) (forallb vok));
            [apply (rmap_sim vren vok); [intros x _ Hx; apply (Hf x _ Hx Hb)|exact Ha]
            |intros vs Hvs; apply done_vec; exact Hvs]; fail).
  all: try (apply (rsim_bind (map vren) (forallb vok));
            [apply (rmap_sim vren vok); [intros x _ Hx; apply (Hf _ x Ha Hx)|exact Hb]
            |intros vs Hvs; apply done_vec; exact Hvs]; fail).
  apply (rsim_bind (map vren) (forallb vok)); [apply zip_res_sim; assumption|].
  intros vs Hvs. apply done_vec. exact Hvs.
Qed.

Lemma lift_mat_sim f : C1 f -> C1 (lift_mat f).
Proof.
  intros Hf a Ha. destruct a; try exact (lift1_sim f Hf _ Ha).
  cbn [lift_mat vren]. cbn [vok] in Ha.
  apply (rsim_bind (map vren) (forallb vok)).
  - apply (rmap_sim vren vok); [|exact Ha]. intros x _ Hx. apply (lift1_sim f Hf). exact Hx.
  - intros vs Hvs. apply done_mat. exact Hvs.
Qed.

Lemma lift3_sim f : C3 f -> C3 (lift3 f).
Proof.
  intros Hf a b c Ha Hb Hc.
  destruct a; try exact (Hf _ _ _ Ha Hb Hc).
  destruct b; try exact (Hf _ _ _ Ha Hb Hc).
  destruct c; try exact (Hf _ _ _ Ha Hb Hc).
  cbn [vren]. unfold lift3.
  match goal with |- sim (rbind (?F l l0 l1) _) _ => set (go := F) end.
  assert (Hgo : forall m1 m2 m3, forallb vok m1 = true -> forallb vok m2 = true -> forallb vok m3 = true ->
                                 siml (go m1 m2 m3) (go (map vren m1) (map vren m2) (map vren m3))).
  { clear Ha Hb Hc. clear l l0 l1. induction m1 as [|x l1 IH]; intros l2 l3 H1 H2 H3; destruct l2 as [|y l2]; destruct l3 as [|z l3];
      cbn [map]; try (unfold go; apply rsim_fail).
    - unfold go. apply (rsim_done (map vren) (forallb vok) []). reflexivity.
    - cbn [forallb] in H1, H2, H3. apply andb_true_iff in H1. apply andb_true_iff in H2. apply andb_true_iff in H3.
      destruct H1 as [Hx H1], H2 as [Hy H2], H3 as [Hz H3].
      change (go (x :: l1) (y :: l2) (z :: l3)) with (v <~ f x y z ;; vs <~ go l1 l2 l3 ;; Done (v :: vs)).
      change (go (vren x :: map vren l1) (vren y :: map vren l2) (vren z :: map vren l3))
        with (v <~ f (vren x) (vren y) (vren z) ;; vs <~ go (map vren l1) (map vren l2) (map vren l3) ;; Done (v :: vs)).
      apply (rsim_bind vren vok); [apply Hf; assumption|].
      intros v Hv. apply (rsim_bind (map vren) (forallb vok)); [apply IH; assumption|].
      intros vs Hvs. apply (rsim_done (map vren) (forallb vok) (v :: vs)). cbn [forallb]. rewrite Hv, Hvs. reflexivity. }
  apply (rsim_bind (map vren) (forallb vok)); [apply Hgo; assumption|].
  intros vs Hvs. apply done_vec. exact Hvs.
Qed.

(* ---- scalar operators ---- *)
Ltac fin H := try discriminate H; inversion H; subst; split; reflexivity.

Lemma neg_scalar_sim : C1 neg_scalar.
Proof. intros a Ha v H. destruct a; cbn [neg_scalar vren] in *; fin H. Qed.
Lemma lognot_scalar_sim : C1 lognot_scalar.
Proof. intros a Ha v H. destruct a; cbn [lognot_scalar vren] in *; fin H. Qed.
Lemma bitnot_scalar_sim : C1 bitnot_scalar.
Proof. intros a Ha v H. destruct a; cbn [bitnot_scalar vren] in *; fin H. Qed.
Lemma abs_scalar_sim : C1 abs_scalar.
Proof. intros a Ha v H. destruct a; cbn [abs_scalar vren] in *; fin H. Qed.
Lemma sign_scalar_sim : C1 sign_scalar.
Proof. intros a Ha v H. destruct a; cbn [sign_scalar vren] in *; fin H. Qed.
Lemma int1_sim fi fu : C1 (int1 fi fu).
Proof. intros a Ha v H. destruct a; cbn [int1 vren] in *; fin H. Qed.
Lemma float1_sim ff : C1 (float1 ff).
Proof. intros a Ha v H. destruct a; cbn [float1 vren] in *; fin H. Qed.
Lemma convert_scalar_sim k : C1 (convert_scalar k).
Proof. intros a Ha v H. destruct k; destruct a; cbn [convert_scalar vren] in *; fin H. Qed.
Lemma bitcast_scalar_sim k : C1 (bitcast_scalar k).
Proof. intros a Ha v H. destruct k; destruct a; cbn [bitcast_scalar vren] in *; fin H. Qed.
Lemma isnan_sim : C1 (fun x => match x with VF32 z => Done (VBool (is_nan_bits z)) | _ => Fail "isNan: operand" end).
Proof. intros a Ha v H. destruct a; cbn [vren] in *; fin H. Qed.
Lemma isinf_sim : C1 (fun x => match x with VF32 z => Done (VBool (is_inf_bits z)) | _ => Fail "isInf: operand" end).
Proof. intros a Ha v H. destruct a; cbn [vren] in *; fin H. Qed.

Lemma arith_scalar_sim o : C2 (arith_scalar o).
Proof. intros a b Ha Hb v H. destruct o; destruct a; destruct b; cbn [arith_scalar vren] in *; fin H. Qed.
Lemma cmp_scalar_sim o : C2 (cmp_scalar o).
Proof. intros a b Ha Hb v H. destruct o; destruct a; destruct b; cbn [cmp_scalar vren] in *; fin H. Qed.
Lemma bit_scalar_sim o : C2 (bit_scalar o).
Proof. intros a b Ha Hb v H. destruct a; destruct b; cbn [bit_scalar vren] in *; fin H. Qed.
Lemma shl_scalar_sim : C2 shl_scalar.
Proof. intros a b Ha Hb v H. destruct a; destruct b; cbn [shl_scalar vren] in *; fin H. Qed.
Lemma shr_scalar_sim : C2 shr_scalar.
Proof. intros a b Ha Hb v H. destruct a; destruct b; cbn [shr_scalar vren] in *; fin H. Qed.
Lemma num2_sim fi fu ff : C2 (num2 fi fu ff).
Proof. intros a b Ha Hb v H. destruct a; destruct b; cbn [num2 vren] in *; fin H. Qed.

Lemma clamp_scalar_sim : C3 clamp_scalar.
Proof.
  intros e lo hi He Hlo Hhi. unfold clamp_scalar.
  apply (rsim_bind vren vok); [apply num2_sim; assumption|].
  intros m Hm. apply num2_sim; assumption.
Qed.

Lemma fma_sim : C3 (fun x y z => match x, y, z with VF32 p, VF32 q, VF32 r => Done (VF32 (ffma p q r)) | _, _, _ => Fail "fma: operands" end).
Proof.
  intros a b c Ha Hb Hc v H.
  destruct a; try discriminate H; destruct b; try discriminate H; destruct c; try discriminate H.
  cbn [vren]. inversion H; subst. split; reflexivity.
Qed.

Lemma extract_scalar_sim : C3 extract_scalar.
Proof.
  intros a b c Ha Hb Hc v H. unfold extract_scalar in *.
  destruct a; try discriminate H; destruct b; try discriminate H; destruct c; try discriminate H;
    cbn [vren]; inversion H; subst; split; reflexivity.
Qed.

Lemma insert_scalar_sim a b c d :
  vok a = true -> vok b = true -> vok c = true -> vok d = true ->
  sim (insert_scalar a b c d) (insert_scalar (vren a) (vren b) (vren c) (vren d)).
Proof.
  intros Ha Hb Hc Hd v H. unfold insert_scalar in *.
  destruct a; try discriminate H; destruct b; try discriminate H; destruct c; try discriminate H; destruct d; try discriminate H;
    cbn [vren]; inversion H; subst; split; reflexivity.
Qed.

(* ---- matrices ---- *)
Lemma vec_elems_sim v : vok v = true -> siml (vec_elems v) (vec_elems (vren v)).
Proof.
  intro Hv. destruct v; try apply rsim_fail. cbn [vec_elems vren]. cbn [vok] in Hv.
  apply (rsim_done (map vren) (forallb vok) l Hv).
Qed.

Lemma mat_cols_sim v : vok v = true -> simll (mat_cols v) (mat_cols (vren v)).
Proof.
  intro Hv. destruct v; try apply rsim_fail. cbn [mat_cols vren]. cbn [vok] in Hv.
  apply (rmap_sim vren vok (map vren) (forallb vok)); [|exact Hv].
  intros x _ Hx. apply vec_elems_sim. exact Hx.
Qed.

Lemma forallb_tl {A} (p : A -> bool) l : forallb p l = true -> forallb p (tl l) = true.
Proof. destruct l; cbn; [auto|]. intro H. apply andb_true_iff in H. tauto. Qed.

Lemma transpose_lists_ren fuel : forall cols,
  transpose_lists fuel (map (map vren) cols) = map (map vren) (transpose_lists fuel cols).
Proof.
  induction fuel as [|fuel IH]; intro cols; cbn [transpose_lists]; [reflexivity|].
  destruct cols as [|c cols]; [reflexivity|]. cbn [map].
  destruct c as [|x c]; [reflexivity|]. cbn [map].
  replace (tl (vren x :: map vren c) :: map (fun c0 => tl c0) (map (map vren) cols))
    with (map (map vren) (tl (x :: c) :: map (fun c0 => tl c0) cols)).
  2: { cbn [tl map]. f_equal. rewrite !map_map. apply map_ext. intro l. destruct l; reflexivity. }
  rewrite IH. f_equal. cbn [hd]. f_equal. rewrite !map_map. apply map_ext. intro l. destruct l; reflexivity.
Qed.

Lemma transpose_lists_ok fuel : forall cols,
  forallb (forallb vok) cols = true -> forallb (forallb vok) (transpose_lists fuel cols) = true.
Proof.
  induction fuel as [|fuel IH]; intros cols H; cbn [transpose_lists]; [reflexivity|].
  destruct cols as [|c cols]; [reflexivity|]. destruct c as [|x c]; [reflexivity|].
  cbn [forallb]. apply andb_true_iff. split.
  - apply forallb_forall. intros y Hy. apply in_map_iff in Hy. destruct Hy as (l & E & Hl). subst y.
    rewrite forallb_forall in H. specialize (H l Hl). destruct l; [reflexivity|]. cbn in H |- *.
    apply andb_true_iff in H. tauto.
  - apply IH. apply forallb_forall. intros y Hy. apply in_map_iff in Hy. destruct Hy as (l & E & Hl). subst y.
    rewrite forallb_forall in H. apply forallb_tl. apply H. exact Hl.
Qed.

Lemma fsum_fold_sim r : forall acc acc',
  sim acc acc' -> forallb vok r = true ->
  sim (fold_left (fun acc y => a <~ acc ;; arith_scalar OAdd a y) r acc)
      (fold_left (fun acc y => a <~ acc ;; arith_scalar OAdd a y) (map vren r) acc').
Proof.
  induction r as [|y r IH]; intros acc acc' Ha Hr; cbn [fold_left map]; [exact Ha|].
  cbn [forallb] in Hr. apply andb_true_iff in Hr. destruct Hr as [Hy Hr].
  apply IH; [|exact Hr]. apply (rsim_bind vren vok); [exact Ha|].
  intros a Hok. apply arith_scalar_sim; assumption.
Qed.

Lemma fsum_sim l : forallb vok l = true -> sim (fsum l) (fsum (map vren l)).
Proof.
  intro H. destruct l as [|x r]; [apply rsim_fail|]. cbn [fsum map]. cbn [forallb] in H.
  apply andb_true_iff in H. destruct H as [Hx Hr].
  apply fsum_fold_sim; [|exact Hr]. apply (rsim_done vren vok x Hx).
Qed.

Lemma dot_vals_sim a b : forallb vok a = true -> forallb vok b = true -> sim (dot_vals a b) (dot_vals (map vren a) (map vren b)).
Proof.
  intros Ha Hb. unfold dot_vals. apply (rsim_bind (map vren) (forallb vok)).
  - apply zip_res_sim; [apply arith_scalar_sim|assumption|assumption].
  - intros ps Hps. apply fsum_sim. exact Hps.
Qed.

Lemma mat_mul_vec_sim : C2 mat_mul_vec.
Proof.
  intros m v Hm Hv. unfold mat_mul_vec.
  apply (rsim_bind (map (map vren)) (forallb (forallb vok))); [apply mat_cols_sim; exact Hm|].
  intros cols Hcols. apply (rsim_bind (map vren) (forallb vok)); [apply vec_elems_sim; exact Hv|].
  intros vs Hvs. rewrite transpose_lists_ren.
  apply (rsim_bind (map vren) (forallb vok)).
  - apply (rmap_sim (map vren) (forallb vok) vren vok); [|apply transpose_lists_ok; exact Hcols].
    intros row _ Hrow. apply dot_vals_sim; assumption.
  - intros r Hr. apply done_vec. exact Hr.
Qed.

Lemma vec_mul_mat_sim : C2 vec_mul_mat.
Proof.
  intros v m Hv Hm. unfold vec_mul_mat.
  apply (rsim_bind (map (map vren)) (forallb (forallb vok))); [apply mat_cols_sim; exact Hm|].
  intros cols Hcols. apply (rsim_bind (map vren) (forallb vok)); [apply vec_elems_sim; exact Hv|].
  intros vs Hvs.
  apply (rsim_bind (map vren) (forallb vok)).
  - apply (rmap_sim (map vren) (forallb vok) vren vok); [|exact Hcols].
    intros col _ Hcol. apply dot_vals_sim; assumption.
  - intros r Hr. apply done_vec. exact Hr.
Qed.

Lemma mat_mul_mat_sim : C2 mat_mul_mat.
Proof.
  intros a b Ha Hb. unfold mat_mul_mat.
  apply (rsim_bind (map (map vren)) (forallb (forallb vok))); [apply mat_cols_sim; exact Hb|].
  intros bcols Hbcols.
  apply (rsim_bind (map vren) (forallb vok)).
  - apply (rmap_sim (map vren) (forallb vok) vren vok); [|exact Hbcols].
    intros bc _ Hbc. exact (mat_mul_vec_sim a (VVec bc) Ha Hbc).
  - intros r Hr. apply done_mat. exact Hr.
Qed.

Lemma mul_value_sim : C2 mul_value.
Proof.
  intros a b Ha Hb.
  destruct a; destruct b;
    try exact (lift2_sim _ (arith_scalar_sim OMul) _ _ Ha Hb);
    try exact (mat_mul_mat_sim _ _ Ha Hb);
    try exact (mat_mul_vec_sim _ _ Ha Hb);
    try exact (vec_mul_mat_sim _ _ Ha Hb);
    cbn [mul_value vren].
  all: try (apply (rsim_bind (map vren) (forallb vok));
            [apply (rmap_sim vren vok vren vok); [intros x _ Hx; exact (lift2_sim _ (arith_scalar_sim OMul) x _ Hx Hb)|exact Ha]
            |intros r Hr; apply done_mat; exact Hr]; fail).
  all: try (apply (rsim_bind (map vren) (forallb vok));
            [apply (rmap_sim vren vok vren vok); [intros x _ Hx; exact (lift2_sim _ (arith_scalar_sim OMul) _ x Ha Hx)|exact Hb]
            |intros r Hr; apply done_mat; exact Hr]; fail).
Qed.

Lemma addsub_value_sim o : C2 (addsub_value o).
Proof.
  intros a b Ha Hb.
  destruct a; destruct b; try exact (lift2_sim _ (arith_scalar_sim o) _ _ Ha Hb).
  cbn [addsub_value vren]. cbn [vok] in Ha, Hb.
  apply (rsim_bind (map vren) (forallb vok)).
  - apply zip_res_sim; [apply lift2_sim, arith_scalar_sim|assumption|assumption].
  - intros r Hr. apply done_mat. exact Hr.
Qed.

(* ---- unary / binary / select / relational / conversions ---- *)
Lemma eval_unary_sim o : C1 (eval_unary o).
Proof.
  destruct o.
  - exact (lift_mat_sim _ neg_scalar_sim).
  - exact (lift1_sim _ lognot_scalar_sim).
  - exact (lift1_sim _ bitnot_scalar_sim).
Qed.

Lemma eval_binary_sim o : C2 (eval_binary o).
Proof.
  destruct o; cbn [eval_binary];
    first [ apply addsub_value_sim | apply mul_value_sim
          | apply lift2_sim; first [apply arith_scalar_sim | apply cmp_scalar_sim | apply bit_scalar_sim
                                   | apply shl_scalar_sim | apply shr_scalar_sim ] ].
Qed.

Lemma eval_select_sim : C3 eval_select.
Proof.
  intros c a r Hc Ha Hr. destruct c; try apply rsim_fail.
  - cbn [eval_select vren].
    replace (if b then vren a else vren r) with (vren (if b then a else r)) by (destruct b; reflexivity).
    apply (rsim_done vren vok). destruct b; assumption.
  - destruct a; try apply rsim_fail. destruct r; try apply rsim_fail.
    cbn [vren]. unfold eval_select.
    match goal with |- sim (rbind (?F l l0 l1) _) _ => set (go := F) end.
    assert (Hgo : forall cs la lr, forallb vok la = true -> forallb vok lr = true ->
                                   siml (go cs la lr) (go (map vren cs) (map vren la) (map vren lr))).
    { clear Hc Ha Hr. clear l l0 l1. induction cs as [|c cs IH]; intros la lr Ha Hr; destruct la as [|x la]; destruct lr as [|y lr]; cbn [map];
        try (unfold go; apply rsim_fail); try (destruct c; unfold go; apply rsim_fail; fail).
      - unfold go. apply (rsim_done (map vren) (forallb vok) []). reflexivity.
      - destruct c; try (unfold go; apply rsim_fail).
        cbn [vren]. cbn [forallb] in Ha, Hr. apply andb_true_iff in Ha. apply andb_true_iff in Hr.
        destruct Ha as [Hx Ha], Hr as [Hy Hr].
        change (go (VBool b :: cs) (x :: la) (y :: lr)) with (vs <~ go cs la lr ;; Done ((if b then x else y) :: vs)).
        change (go (VBool b :: map vren cs) (vren x :: map vren la) (vren y :: map vren lr))
          with (vs <~ go (map vren cs) (map vren la) (map vren lr) ;; Done ((if b then vren x else vren y) :: vs)).
        apply (rsim_bind (map vren) (forallb vok)); [apply IH; assumption|].
        intros vs Hvs.
        replace ((if b then vren x else vren y) :: map vren vs) with (map vren ((if b then x else y) :: vs))
          by (destruct b; reflexivity).
        apply (rsim_done (map vren) (forallb vok)). cbn [forallb]. rewrite Hvs. destruct b; rewrite ?Hx, ?Hy; reflexivity. }
    apply (rsim_bind (map vren) (forallb vok)); [apply Hgo; assumption|].
    intros vs Hvs. apply done_vec. exact Hvs.
Qed.

Lemma bools_of_ren v : bools_of (vren v) = bools_of v.
Proof.
  destruct v; try reflexivity. cbn [bools_of vren].
  apply rmap_map_ext. intros x _. destruct x; reflexivity.
Qed.

Lemma eval_relational_sim f : C1 (eval_relational f).
Proof.
  destruct f.
  - intros a Ha v H. cbn [eval_relational] in *. rewrite bools_of_ren. destruct (bools_of a); cbn [rbind] in *; fin H.
  - intros a Ha v H. cbn [eval_relational] in *. rewrite bools_of_ren. destruct (bools_of a); cbn [rbind] in *; fin H.
  - exact (lift1_sim _ isnan_sim).
  - exact (lift1_sim _ isinf_sim).
Qed.

Lemma eval_as_sim k conv : C1 (eval_as k conv).
Proof.
  intros a Ha. unfold eval_as. destruct conv as [w|].
  - destruct (Z.eqb w 4); [exact (lift_mat_sim _ (convert_scalar_sim k) a Ha)|].
    destruct (Z.eqb w 1 && match k with SBool => true | _ => false end)%bool;
      [exact (lift_mat_sim _ (convert_scalar_sim k) a Ha)|apply rsim_fail].
  - exact (lift1_sim _ (bitcast_scalar_sim k) a Ha).
Qed.

(* ---- math builtins ---- *)
Lemma saturate_sim : C1 (fun x => clamp_scalar x (VF32 0) (VF32 1065353216)).
Proof. intros a Ha. exact (clamp_scalar_sim a (VF32 0) (VF32 1065353216) Ha eq_refl eq_refl). Qed.

Lemma eval_math_sim f args :
  forallb vok args = true -> sim (eval_math f args) (eval_math f (map vren args)).
Proof.
  intro H.
  destruct args as [|a [|b [|c [|d [|e r]]]]]; cbn [map]; try apply rsim_fail; cbn [forallb] in H;
    repeat (apply andb_true_iff in H; let Hx := fresh "Hx" in destruct H as [Hx H]); unfold eval_math;
    repeat match goal with |- sim (if ?c then _ else _) _ => destruct c end; try apply rsim_fail.
  - apply lift1_sim; [apply abs_scalar_sim|assumption].
  - apply lift1_sim; [apply sign_scalar_sim|assumption].
  - apply lift1_sim; [apply int1_sim|assumption].
  - apply lift1_sim; [apply int1_sim|assumption].
  - apply lift1_sim; [apply int1_sim|assumption].
  - apply lift1_sim; [apply int1_sim|assumption].
  - apply lift1_sim; [apply int1_sim|assumption].
  - apply lift1_sim; [apply int1_sim|assumption].
  - apply lift1_sim; [apply float1_sim|assumption].
  - apply lift1_sim; [apply float1_sim|assumption].
  - apply lift1_sim; [apply float1_sim|assumption].
  - apply lift1_sim; [apply float1_sim|assumption].
  - apply lift1_sim; [apply float1_sim|assumption].
  - apply lift1_sim; [apply saturate_sim|assumption].
  - apply lift2_sim; [apply num2_sim|assumption|assumption].
  - apply lift2_sim; [apply num2_sim|assumption|assumption].
  - destruct a; try apply rsim_fail. destruct b; try apply rsim_fail.
    cbn [vren]. apply dot_vals_sim; assumption.
  - apply lift3_sim; [apply clamp_scalar_sim|assumption|assumption|assumption].
  - apply lift3_sim; [apply fma_sim|assumption|assumption|assumption].
  - destruct a; try (apply extract_scalar_sim; assumption).
    cbn [vren]. cbn [vok] in Hx.
    apply (rsim_bind (map vren) (forallb vok)).
    + apply (rmap_sim vren vok vren vok); [|exact Hx]. intros x _ Hxx. apply extract_scalar_sim; assumption.
    + intros vs Hvs. apply done_vec. exact Hvs.
  - destruct a; try (apply insert_scalar_sim; assumption).
    destruct b; try (apply insert_scalar_sim; assumption).
    cbn [vren]. cbn [vok] in Hx, Hx0.
    apply (rsim_bind (map vren) (forallb vok)).
    + apply zip_res_sim2; [|assumption|assumption]. intros x y Hxx Hyy. apply insert_scalar_sim; assumption.
    + intros vs Hvs. apply done_vec. exact Hvs.
Qed.

(* ---- values without pointers: literals, zero values ---- *)
Definition closed (v : value) : Prop := vren v = v /\ vok v = true.
Definition closedl (l : list value) : Prop := map vren l = l /\ forallb vok l = true.

Lemma closed_sim r : (forall v, r = Done v -> closed v) -> sim r r.
Proof. intros H v E. destruct (H v E) as [E1 E2]. rewrite E1. auto. Qed.

Lemma closed_repeat z n : closed z -> closedl (repeat z n).
Proof.
  intros [E1 E2]. split.
  - induction n; cbn; [reflexivity|]. rewrite E1, IHn. reflexivity.
  - induction n; cbn; [reflexivity|]. rewrite E2, IHn. reflexivity.
Qed.

Lemma value_of_literal_closed l v : value_of_literal l = Done v -> closed v.
Proof. destruct l; cbn; intro H; inversion H; subst; split; reflexivity. Qed.

Lemma zero_scalar_closed s v : zero_scalar s = Done v -> closed v.
Proof.
  unfold zero_scalar. destruct (skind s); try discriminate; try destruct (Z.eqb (swidth s) 4); intro H; inversion H; subst;
    split; reflexivity.
Qed.

Lemma rmap_closed {A} (f : A -> result value) l vs :
  (forall x v, In x l -> f x = Done v -> closed v) -> rmap f l = Done vs -> closedl vs.
Proof.
  revert vs. induction l as [|x l IH]; intros vs Hf H; cbn [rmap] in H.
  - inversion H; subst. split; reflexivity.
  - inv_bind H. inv_bind H. inversion H; subst.
    destruct (Hf x a (or_introl eq_refl) Ha) as [E1 E2].
    destruct (IH a0 (fun y v Hy => Hf y v (or_intror Hy)) Ha0) as [F1 F2].
    split; cbn [map forallb]; [rewrite E1, F1|rewrite E2, F2]; reflexivity.
Qed.

Lemma zero_inner_closed fuel types : forall t v, zero_inner fuel types t = Done v -> closed v.
Proof.
  induction fuel as [|fuel IH]; intros t v H; cbn [zero_inner] in H; [discriminate|].
  assert (Hh : forall h z, (ty <~ nth_res "zero: type handle" types h ;; zero_inner fuel types (ty_inner ty)) = Done z -> closed z).
  { intros h z E. inv_bind E. eapply IH; eauto. }
  destruct t; try discriminate.
  - eapply zero_scalar_closed; eauto.
  - inv_bind H. inversion H; subst. apply zero_scalar_closed in Ha.
    destruct (closed_repeat a (Z.to_nat size) Ha) as [E1 E2]. split; cbn [vren vok]; [rewrite E1|]; auto.
  - inv_bind H. inversion H; subst. apply zero_scalar_closed in Ha.
    destruct (closed_repeat a (Z.to_nat rows) Ha) as [E1 E2].
    assert (Hc : closed (VVec (repeat a (Z.to_nat rows)))) by (split; cbn [vren vok]; [rewrite E1|]; auto).
    destruct (closed_repeat _ (Z.to_nat cols) Hc) as [F1 F2]. split; cbn [vren vok]; [rewrite F1|]; auto.
  - destruct size as [n|]; [|discriminate]. destruct (Z.ltb BIG n); [discriminate|].
    inv_bind H. inversion H; subst. apply Hh in Ha.
    destruct (closed_repeat a (Z.to_nat n) Ha) as [E1 E2]. split; cbn [vren vok]; [rewrite E1|]; auto.
  - inv_bind H. inversion H; subst.
    destruct (rmap_closed _ _ _ (fun x z _ E => Hh (m_type x) z E) Ha) as [E1 E2].
    split; cbn [vren vok]; [rewrite E1|]; auto.
  - eapply zero_scalar_closed; eauto.
Qed.

Lemma zero_value_closed types h v : zero_value types h = Done v -> closed v.
Proof. unfold zero_value. intro H. inv_bind H. eapply zero_inner_closed; eauto. Qed.

(* ---- compose ---- *)
Lemma flatten_scalars_ren comps : flatten_scalars (map vren comps) = map vren (flatten_scalars comps).
Proof.
  unfold flatten_scalars. induction comps as [|c comps IH]; cbn [map flat_map]; [reflexivity|].
  rewrite IH, map_app. f_equal. destruct c; reflexivity.
Qed.

Lemma flatten_scalars_ok comps : forallb vok comps = true -> forallb vok (flatten_scalars comps) = true.
Proof.
  unfold flatten_scalars. induction comps as [|c comps IH]; intro H; cbn [flat_map]; [reflexivity|].
  cbn [forallb] in H. apply andb_true_iff in H. destruct H as [Hc H].
  rewrite forallb_app, (IH H), andb_true_r. destruct c; cbn [forallb]; rewrite ?andb_true_r; exact Hc.
Qed.

Lemma forallb_firstn {A} (p : A -> bool) n l : forallb p l = true -> forallb p (firstn n l) = true.
Proof.
  revert l. induction n as [|n IH]; intros l H; [reflexivity|]. destruct l; [reflexivity|].
  cbn in H |- *. apply andb_true_iff in H. destruct H as [H1 H2]. rewrite H1, (IH l H2). reflexivity.
Qed.
Lemma forallb_skipn {A} (p : A -> bool) n l : forallb p l = true -> forallb p (skipn n l) = true.
Proof.
  revert l. induction n as [|n IH]; intros l H; [exact H|]. destruct l; [reflexivity|].
  cbn in H |- *. apply andb_true_iff in H. destruct H as [H1 H2]. exact (IH l H2).
Qed.

Lemma chunks_ren fuel n : forall l, chunks fuel n (map vren l) = map (map vren) (chunks fuel n l).
Proof.
  induction fuel as [|fuel IH]; intro l; cbn [chunks]; [reflexivity|].
  destruct l as [|x l]; [reflexivity|]. cbn [map].
  change (vren x :: map vren l) with (map vren (x :: l)).
  rewrite firstn_map, skipn_map, IH. reflexivity.
Qed.

Lemma chunks_ok fuel n : forall l, forallb vok l = true -> forallb (forallb vok) (chunks fuel n l) = true.
Proof.
  induction fuel as [|fuel IH]; intros l H; cbn [chunks]; [reflexivity|].
  destruct l as [|x l]; [reflexivity|]. cbn [forallb].
  rewrite (forallb_firstn vok n _ H), (IH _ (forallb_skipn vok n _ H)). reflexivity.
Qed.

Lemma compose_sim types t comps :
  forallb vok comps = true -> sim (compose types t comps) (compose types t (map vren comps)).
Proof.
  intro H. unfold compose. destruct (nth_res "compose: type handle" types t) as [ty| |]; cbn [rbind]; try apply rsim_fail; try apply rsim_oof.
  destruct (ty_inner ty); try apply rsim_fail.
  - rewrite flatten_scalars_ren, map_length.
    destruct (Nat.eqb _ _); [|apply rsim_fail]. apply done_vec. apply flatten_scalars_ok. exact H.
  - rewrite map_length. destruct (Nat.eqb (List.length comps) _); [apply done_mat; exact H|].
    cbv zeta. rewrite flatten_scalars_ren, map_length.
    destruct (Nat.eqb _ _); [|apply rsim_fail].
    rewrite chunks_ren.
    replace (map VVec (map (map vren) (chunks (S (List.length (flatten_scalars comps))) (Z.to_nat rows) (flatten_scalars comps))))
      with (map vren (map VVec (chunks (S (List.length (flatten_scalars comps))) (Z.to_nat rows) (flatten_scalars comps))))
      by (rewrite !map_map; reflexivity).
    apply done_mat. rewrite forallb_forall. intros x Hx. apply in_map_iff in Hx. destruct Hx as (c & E & Hc). subst x.
    pose proof (chunks_ok (S (List.length (flatten_scalars comps))) (Z.to_nat rows) _ (flatten_scalars_ok _ H)) as Hk.
    rewrite forallb_forall in Hk. exact (Hk c Hc).
  - exact (rsim_done vren vok (VArr comps) H).
  - exact (rsim_done vren vok (VStruct comps) H).
Qed.

(* ---- access, load and store paths ---- *)
Lemma elems_sim v : vok v = true -> siml (elems v) (elems (vren v)).
Proof.
  intro H. destruct v as [| | | |l|l|l|l|]; try apply rsim_fail; cbn [elems vren]; cbn [vok] in H; apply (rsim_done (map vren) (forallb vok) l H).
Qed.

Lemma nth_res_sim msg l i : forallb vok l = true -> sim (nth_res msg l i) (nth_res msg (map vren l) i).
Proof.
  intros H v E. apply nth_res_done in E. unfold nth_res. rewrite nth_error_map, E. cbn. split; [reflexivity|].
  rewrite forallb_forall in H. apply H. eapply nth_error_In; eauto.
Qed.

Lemma index_value_sim v i : vok v = true -> sim (index_value v i) (index_value (vren v) i).
Proof.
  intro H. unfold index_value. apply (rsim_bind (map vren) (forallb vok)); [apply elems_sim; exact H|].
  intros l Hl. apply nth_res_sim. exact Hl.
Qed.

Lemma access_sim v i : vok v = true -> sim (access v i) (access (vren v) i).
Proof.
  intro H. destruct v; try exact (index_value_sim _ i H).
  cbn [access vren]. exact (rsim_done vren vok (VPtr cell (path ++ [i])) H).
Qed.

Lemma index_of_value_ren v : index_of_value (vren v) = index_of_value v.
Proof. destruct v; reflexivity. Qed.

Lemma load_path_sim p : forall v, vok v = true -> sim (load_path v p) (load_path (vren v) p).
Proof.
  induction p as [|i p IH]; intros v H; cbn [load_path]; [exact (rsim_done vren vok v H)|].
  apply (rsim_bind vren vok); [apply index_value_sim; exact H|]. intros x Hx. apply IH. exact Hx.
Qed.

Lemma set_nth_map {A B} (f : A -> B) l i x : map f (set_nth l i x) = set_nth (map f l) i (f x).
Proof. revert i. induction l as [|y l IH]; intro i; destruct i; cbn; try reflexivity. rewrite IH. reflexivity. Qed.

Lemma forallb_set_nth {A} (p : A -> bool) l i x : forallb p l = true -> p x = true -> forallb p (set_nth l i x) = true.
Proof.
  revert i. induction l as [|y l IH]; intros i Hl Hx; destruct i; cbn in *; auto.
  - apply andb_true_iff in Hl. destruct Hl as [_ Hl]. rewrite Hx, Hl. reflexivity.
  - apply andb_true_iff in Hl. destruct Hl as [Hy Hl]. rewrite Hy, (IH i Hl Hx). reflexivity.
Qed.

Lemma rebuild_ren v l : vren (rebuild v l) = rebuild (vren v) (map vren l).
Proof. destruct v; reflexivity. Qed.

Lemma rebuild_ok v l0 l : elems v = Done l0 -> forallb vok l = true -> vok (rebuild v l) = true.
Proof. destruct v; cbn; intros E H; try discriminate; exact H. Qed.

Lemma store_path_sim p nv : vok nv = true -> forall v, vok v = true ->
  sim (store_path v p nv) (store_path (vren v) p (vren nv)).
Proof.
  intro Hnv. induction p as [|i p IH]; intros v H; cbn [store_path]; [exact (rsim_done vren vok nv Hnv)|].
  intros w E. inv_bind E. inv_bind E. inv_bind E. inversion E; subst. rename a into l, a0 into x, a1 into x'.
  destruct (elems_sim v H l Ha) as [E1 Hl]. rewrite E1. cbn [rbind].
  destruct (nth_res_sim _ l i Hl x Ha0) as [E2 Hx]. rewrite E2. cbn [rbind].
  destruct (IH x Hx x' Ha1) as [E3 Hx']. rewrite E3. cbn [rbind].
  rewrite rebuild_ren, set_nth_map. split; [reflexivity|].
  eapply rebuild_ok; [exact Ha|]. apply forallb_set_nth; assumption.
Qed.

(* ---- atomics ---- *)
Definition oren (o : option value) : option value := option_map vren o.
Definition ook (o : option value) : bool := match o with Some v => vok v | None => true end.

Lemma atomic_new_sim fn old v :
  vok old = true -> vok v = true ->
  rsim oren ook (atomic_new fn old v) (atomic_new fn (vren old) (vren v)).
Proof.
  intros Ho Hv. unfold atomic_new.
  repeat match goal with |- rsim _ _ (if ?c then _ else _) _ => destruct c end; try apply rsim_fail.
  all: try (apply (rsim_bind vren vok);
            [first [apply arith_scalar_sim | apply bit_scalar_sim | apply num2_sim]; assumption
            |intros r Hr; exact (rsim_done oren ook (Some r) Hr)]; fail).
  - exact (rsim_done oren ook (Some v) Hv).
  - exact (rsim_done oren ook (Some v) Hv).
  - exact (rsim_done oren ook None eq_refl).
Qed.

End Ren.
