(* C13 — statement operands that ir.InlineUserFunctions leaves in the CALLEE's numbering.

   remapInlineStatementHandles (inline.go:597-693, model [rstmt] of Passes/Inline.v, tied to the Go
   code on every run) rewrites the expression handles of the statement kinds it knows and returns
   every other statement unchanged; inside StmtAtomic it does not rewrite the Compare operand of an
   AtomicExchange.  A callee statement of such a kind therefore lands in the caller with handles that
   name the caller's expressions of the same NUMBER, not the copies of the callee's expressions
   (which live at base + h).  [inline_stale m] lists the kinds of such statements in the bodies of
   the functions that m calls: a non-empty list on a module the pass changes is a miscompilation
   witness (evaluated by check C13 on every module; see the lemmas below for why the handles stay). *)
From Coq Require Import List Arith Bool String.
Import ListNotations.
Require Import Naga.IR.Syntax Naga.Passes.Remap Naga.Passes.Compact Naga.Passes.Inline.
Local Open Scope string_scope.
Local Open Scope list_scope.

Definition stale_of_stmt (s : stmt) : list string :=
  match s with
  | SAtomic _ _ (Some _) _ _ => ["StmtAtomic.Compare"]
  | SOther t refs => if String.eqb t "StmtImageStore" then [] else match refs with [] => [] | _ => [t] end
  | _ => []
  end.

Fixpoint stmt_stale (s : stmt) : list string :=
  let fix block_stale (b : list stmt) : list string :=
    match b with [] => [] | x :: b' => stmt_stale x ++ block_stale b' end in
  match s with
  | SBlock b => block_stale b
  | SIf _ a r => block_stale a ++ block_stale r
  | SSwitch _ cases =>
    (fix cases_stale (cs : list (switch_value * list stmt * bool)) : list string :=
       match cs with [] => [] | (_, b, _) :: cs' => block_stale b ++ cases_stale cs' end) cases
  | SLoop b c _ => block_stale b ++ block_stale c
  | _ => stale_of_stmt s
  end.
Fixpoint block_stale (b : list stmt) : list string :=
  match b with [] => [] | x :: b' => stmt_stale x ++ block_stale b' end.

(* kinds of un-remapped statements in the functions that some StmtCall of the module targets *)
Definition inline_stale (m : module) : list string :=
  flat_map (fun fi => match nth_error (m_functions m) fi with Some f => block_stale (f_body f) | None => [] end)
           (flat_map (fun f => block_calls (f_body f)) (all_funcs m)).

(* the model of remapInlineStatementHandles keeps these statements verbatim (handles h < n of the
   callee should have become base + h) *)
Lemma rstmt_keeps_other base n t refs :
  String.eqb t "StmtImageStore" = false -> rstmt base n (SOther t refs) = SOther t refs.
Proof. intro H. cbn [rstmt]. rewrite H. reflexivity. Qed.

Lemma rstmt_keeps_compare base n p f c v r :
  exists p' v' r', rstmt base n (SAtomic p f (Some c) v r) = SAtomic p' f (Some c) v' r'.
Proof. cbn [rstmt]. eauto. Qed.

(* ... while a Store of the same callee handle is moved into the copied block *)
Lemma rstmt_moves_store base n p v : p < n -> v < n -> rstmt base n (SStore p v) = SStore (base + p) (base + v).
Proof.
  intros Hp Hv. cbn [rstmt]. unfold shift.
  apply Nat.ltb_lt in Hp. apply Nat.ltb_lt in Hv. rewrite Hp, Hv. reflexivity.
Qed.
