(* C13 — CompactExpressions: the model (Passes/Compact.v) is an instance of the
   general renumbering lemma (Passes/RenameSound.v). *)
From Coq Require Import List Arith Bool String Lia ZArith.
Import ListNotations.
Require Import Naga.IR.Syntax Naga.IR.Values Naga.IR.Sem.
Require Import Naga.Passes.Remap Naga.Passes.RemapProofs Naga.Passes.Compact Naga.Passes.RenameSound.
Local Open Scope nat_scope.
Local Open Scope list_scope.

(* ====================================================================== *)
(* Induction over statements (nested lists)                                *)
Definition structured (s : stmt) : bool :=
  match s with SBlock _ | SIf _ _ _ | SSwitch _ _ | SLoop _ _ _ => true | _ => false end.

Section StmtInd.
Variable P : stmt -> Prop.
Variable Q : list stmt -> Prop.
Variable C : list (switch_value * list stmt * bool) -> Prop.
Hypothesis Hleaf : forall s, structured s = false -> P s.
Hypothesis Hblock : forall b, Q b -> P (SBlock b).
Hypothesis Hif : forall c a r, Q a -> Q r -> P (SIf c a r).
Hypothesis Hswitch : forall sel cs, C cs -> P (SSwitch sel cs).
Hypothesis Hloop : forall b c bi, Q b -> Q c -> P (SLoop b c bi).
Hypothesis Qnil : Q [].
Hypothesis Qcons : forall s b, P s -> Q b -> Q (s :: b).
Hypothesis Cnil : C [].
Hypothesis Ccons : forall v b ft cs, Q b -> C cs -> C ((v, b, ft) :: cs).

Fixpoint stmt_ind3 (s : stmt) : P s :=
  let fix go (b : list stmt) : Q b :=
    match b with [] => Qnil | x :: b' => Qcons x b' (stmt_ind3 x) (go b') end in
  match s as s0 return P s0 with
  | SBlock b => Hblock b (go b)
  | SIf c a r => Hif c a r (go a) (go r)
  | SSwitch sel cs =>
    Hswitch sel cs
      ((fix goc (cs : list (switch_value * list stmt * bool)) : C cs :=
          match cs with
          | [] => Cnil
          | (v, b, ft) :: cs' => Ccons v b ft cs' (go b) (goc cs')
          end) cs)
  | SLoop b c bi => Hloop b c bi (go b) (go c)
  | SEmit a b => Hleaf (SEmit a b) eq_refl
  | SBreak => Hleaf SBreak eq_refl
  | SContinue => Hleaf SContinue eq_refl
  | SReturn v => Hleaf (SReturn v) eq_refl
  | SKill => Hleaf SKill eq_refl
  | SBarrier fl => Hleaf (SBarrier fl) eq_refl
  | SStore p v => Hleaf (SStore p v) eq_refl
  | SAtomic p f c v r => Hleaf (SAtomic p f c v r) eq_refl
  | SCall f a r => Hleaf (SCall f a r) eq_refl
  | SOther t refs => Hleaf (SOther t refs) eq_refl
  end.

Fixpoint block_ind3 (b : list stmt) : Q b :=
  match b with [] => Qnil | x :: b' => Qcons x b' (stmt_ind3 x) (block_ind3 b') end.
End StmtInd.

(* ====================================================================== *)
(* Hypothesis of the theorems: handles in range, operands precede their users *)
Definition fn_wf (f : func) : Prop :=
  fwd_free (f_exprs f)
  /\ (forall x, In x (block_uses (f_body f)) -> x < List.length (f_exprs f))
  /\ Forall (fun l => match lv_init l with Some h => h < List.length (f_exprs f) | None => True end) (f_locals f).

Definition module_wf (m : module) : Prop := Forall fn_wf (all_funcs m).

(* executable version, run by the check on every module it sees *)
Fixpoint fwd_freeb (i : nat) (es : list expr) : bool :=
  match es with
  | [] => true
  | e :: es' => forallb (fun x => Nat.ltb x i) (expr_refs e) && fwd_freeb (S i) es'
  end.

Definition fn_wfb (f : func) : bool :=
  let n := List.length (f_exprs f) in
  fwd_freeb 0 (f_exprs f)
  && forallb (fun x => Nat.ltb x n) (block_uses (f_body f))
  && forallb (fun l => match lv_init l with Some h => Nat.ltb h n | None => true end) (f_locals f).

Definition module_wfb (m : module) : bool := forallb fn_wfb (all_funcs m).

Lemma fwd_freeb_sound es i :
  fwd_freeb i es = true -> forall h e x, nth_error es h = Some e -> In x (expr_refs e) -> x < i + h.
Proof.
  revert i. induction es as [|e0 es IH]; intros i H h e x Hn Hx.
  - destruct h; discriminate.
  - cbn [fwd_freeb] in H. apply andb_true_iff in H. destruct H as [H1 H2].
    destruct h as [|h]; cbn in Hn.
    + inversion Hn; subst. rewrite forallb_forall in H1. apply H1 in Hx. apply Nat.ltb_lt in Hx. lia.
    + specialize (IH (S i) H2 h e x Hn Hx). lia.
Qed.

Lemma fn_wfb_sound f : fn_wfb f = true -> fn_wf f.
Proof.
  unfold fn_wfb, fn_wf. intro H. apply andb_true_iff in H. destruct H as [H H3].
  apply andb_true_iff in H. destruct H as [H1 H2]. repeat split.
  - intros h e x Hn Hx. apply (fwd_freeb_sound _ 0 H1 h e x Hn Hx).
  - intros x Hx. rewrite forallb_forall in H2. apply H2 in Hx. apply Nat.ltb_lt. exact Hx.
  - rewrite forallb_forall in H3. apply Forall_forall. intros l Hl. specialize (H3 l Hl).
    destruct (lv_init l); [apply Nat.ltb_lt; exact H3|exact I].
Qed.

Lemma module_wfb_sound m : module_wfb m = true -> module_wf m.
Proof.
  unfold module_wfb, module_wf. intro H. rewrite forallb_forall in H. apply Forall_forall.
  intros f Hf. apply fn_wfb_sound, H, Hf.
Qed.

(* ====================================================================== *)
(* The live set computed by the model                                      *)

Lemma propagate_length es i u : List.length (propagate es i u) = List.length u.
Proof.
  revert u. induction i as [|i IH]; intro u; cbn [propagate]; [reflexivity|].
  rewrite IH. destruct (uget u i); [apply marks_length|reflexivity].
Qed.

Lemma propagate_mono es i u k : uget u k = true -> uget (propagate es i u) k = true.
Proof.
  revert u. induction i as [|i IH]; intros u H; cbn [propagate]; [exact H|].
  apply IH. destruct (uget u i); [apply uget_marks_mono; exact H|exact H].
Qed.

Definition refs_below (es : list expr) : Prop :=
  forall h x, In x (compact_expr_refs (nth h es dummy_expr)) -> x < h.

Lemma fwd_free_refs_below es : fwd_free es -> refs_below es.
Proof.
  intros H h x Hx. destruct (nth_error es h) as [e|] eqn:E.
  - rewrite (nth_error_nth _ _ _ E) in Hx. apply (H h e x E). apply compact_refs_incl. exact Hx.
  - apply nth_error_None in E. rewrite nth_overflow in Hx by exact E. cbn in Hx. contradiction.
Qed.

Lemma propagate_stable es i u k : refs_below es -> i <= k -> uget (propagate es i u) k = uget u k.
Proof.
  intro Hb. revert u. induction i as [|i IH]; intros u Hk; cbn [propagate]; [reflexivity|].
  rewrite IH by lia. destruct (uget u i); [|reflexivity].
  apply uget_marks_notin. intro Hin. apply Hb in Hin. lia.
Qed.

Lemma propagate_closed es i u :
  refs_below es ->
  forall j x, j < i -> uget (propagate es i u) j = true ->
              In x (compact_expr_refs (nth j es dummy_expr)) -> x < List.length u ->
              uget (propagate es i u) x = true.
Proof.
  intro Hb. revert u. induction i as [|i IH]; intros u j x Hj Hu Hx Hlen; [lia|].
  cbn [propagate] in *.
  destruct (Nat.eq_dec j i) as [->|Hne].
  - rewrite propagate_stable in Hu by (auto; lia).
    destruct (uget u i) eqn:E.
    + apply propagate_mono. apply uget_marks. right. split; assumption.
    + congruence.
  - apply IH with (j := j); auto; try lia.
    destruct (uget u i); [rewrite marks_length|]; exact Hlen.
Qed.

(* nothing is live without a reason: a root, or an operand of a live expression *)
Lemma propagate_sound es i u k :
  uget (propagate es i u) k = true ->
  uget u k = true \/ exists j, j < i /\ uget (propagate es i u) j = true /\ In k (compact_expr_refs (nth j es dummy_expr)).
Proof.
  revert u. induction i as [|i IH]; intros u H; cbn [propagate] in *; [left; exact H|].
  destruct (IH _ H) as [H1|(j & Hj & Hu & Hin)].
  - destruct (uget u i) eqn:E; [|left; exact H1].
    apply uget_marks in H1. destruct H1 as [H1|[H1 _]]; [left; exact H1|].
    right. exists i. split; [lia|]. split; [|exact H1].
    apply propagate_mono. apply uget_marks_mono. exact E.
  - right. exists j. split; [lia|]. split; assumption.
Qed.

Lemma used_exprs_length f : List.length (used_exprs f) = List.length (f_exprs f).
Proof. unfold used_exprs. rewrite propagate_length, marks_length, repeat_length. reflexivity. Qed.

Lemma used_root f x : In x (fn_roots f) -> x < List.length (f_exprs f) -> uget (used_exprs f) x = true.
Proof.
  intros Hin Hlt. unfold used_exprs. apply propagate_mono. apply uget_marks. right.
  rewrite repeat_length. split; assumption.
Qed.

Lemma used_closed f h e x :
  fwd_free (f_exprs f) -> uget (used_exprs f) h = true -> nth_error (f_exprs f) h = Some e ->
  In x (compact_expr_refs e) -> uget (used_exprs f) x = true.
Proof.
  intros Hf Hu He Hx. pose proof (fwd_free_refs_below _ Hf) as Hb.
  assert (Hh : h < List.length (f_exprs f)) by (apply nth_error_Some; congruence).
  unfold used_exprs in *. apply propagate_closed with (j := h); auto.
  - rewrite (nth_error_nth _ _ _ He). exact Hx.
  - rewrite marks_length, repeat_length.
    assert (x < h) by (apply (Hf h e x He); apply compact_refs_incl; exact Hx). lia.
Qed.

(* ====================================================================== *)
(* Statements: the rewritten body is related to the original                *)

Lemma cstmt_block u b : cstmt u (SBlock b) = Some (SBlock (cblock u b)).
Proof. reflexivity. Qed.
Lemma cstmt_if u c a r : cstmt u (SIf c a r) = Some (SIf (rank u c) (cblock u a) (cblock u r)).
Proof. reflexivity. Qed.
Lemma cstmt_switch u sel cs : cstmt u (SSwitch sel cs) = Some (SSwitch (rank u sel) (ccases u cs)).
Proof. reflexivity. Qed.
Lemma cstmt_loop u b c bi : cstmt u (SLoop b c bi) = Some (SLoop (cblock u b) (cblock u c) (rename_opt (rank u) bi)).
Proof. reflexivity. Qed.

Lemma stmt_uses_block b : stmt_uses (SBlock b) = block_uses b.
Proof. reflexivity. Qed.
Lemma stmt_uses_if c a r : stmt_uses (SIf c a r) = c :: block_uses a ++ block_uses r.
Proof. reflexivity. Qed.
Lemma stmt_uses_switch sel cs : stmt_uses (SSwitch sel cs) = sel :: cases_uses cs.
Proof. reflexivity. Qed.
Lemma stmt_uses_loop b c bi : stmt_uses (SLoop b c bi) = block_uses b ++ block_uses c ++ opt_list bi.
Proof. reflexivity. Qed.

Section Body.
Variable u : nat -> bool.
Variable n : nat.
Let okk := ok u n.
Let T := fun _ : nat => True.

Definition all_ok (l : list nat) : Prop := forall x, In x l -> okk x.

Lemma all_ok_app l1 l2 : all_ok (l1 ++ l2) -> all_ok l1 /\ all_ok l2.
Proof. unfold all_ok. intro H. split; intros x Hx; apply H; apply in_or_app; auto. Qed.

Lemma all_ok_Forall l : all_ok l -> Forall okk l.
Proof. intro H. apply Forall_forall. exact H. Qed.

Lemma all_ok_opt o : all_ok (opt_list o) -> ok_opt u n o.
Proof. destruct o; cbn; intro H; [apply H; left; reflexivity|exact I]. Qed.

Lemma cstmt_leaf s :
  structured s = false -> all_ok (stmt_uses s) ->
  match cstmt u s with
  | Some s' => srel u n (fun x => x) T s s'
  | None => exists a c, s = SEmit a c /\ rank u c <= rank u a
  end.
Proof.
  intros Hs Hok. destruct s; try discriminate; cbn [cstmt].
  - (* Emit *)
    destruct (Nat.ltb (rank u start) (rank u stop)) eqn:E.
    + constructor.
    + apply Nat.ltb_ge in E. eauto.
  - apply (sr_simple u n _ T SBreak); [reflexivity|constructor].
  - apply (sr_simple u n _ T SContinue); [reflexivity|constructor].
  - apply (sr_simple u n _ T (SReturn value)); [reflexivity|apply all_ok_Forall; exact Hok].
  - apply (sr_simple u n _ T SKill); [reflexivity|constructor].
  - apply (sr_simple u n _ T (SBarrier flags)); [reflexivity|constructor].
  - apply (sr_simple u n _ T (SStore pointer value)); [reflexivity|apply all_ok_Forall; exact Hok].
  - apply (sr_simple u n _ T (SAtomic pointer f compare value result)); [reflexivity|apply all_ok_Forall; exact Hok].
  - (* Call *)
    cbn [stmt_uses stmt_refs] in Hok. apply all_ok_app in Hok. destruct Hok as [Ha Hr].
    apply (sr_call u n (fun x => x) T f args result); [exact I|apply all_ok_Forall; exact Ha|apply all_ok_opt; exact Hr].
  - apply (sr_simple u n _ T (SOther tag refs)); [reflexivity|apply all_ok_Forall; exact Hok].
Qed.

Lemma cblock_rel : forall b, all_ok (block_uses b) -> brel u n (fun x => x) T b (cblock u b).
Proof.
  apply (block_ind3
           (fun s => all_ok (stmt_uses s) ->
                     match cstmt u s with
                     | Some s' => srel u n (fun x => x) T s s'
                     | None => exists a c, s = SEmit a c /\ rank u c <= rank u a
                     end)
           (fun b => all_ok (block_uses b) -> brel u n (fun x => x) T b (cblock u b))
           (fun cs => all_ok (cases_uses cs) -> crel u n (fun x => x) T cs (ccases u cs))).
  - exact cstmt_leaf.
  - intros b IH H. rewrite cstmt_block. constructor. apply IH. exact H.
  - intros c a r IHa IHr H. rewrite cstmt_if. rewrite stmt_uses_if in H.
    assert (Hc : okk c) by (apply H; left; reflexivity).
    assert (H' : all_ok (block_uses a ++ block_uses r)) by (intros x Hx; apply H; right; exact Hx).
    apply all_ok_app in H'. destruct H' as [H1 H2]. constructor; auto.
  - intros sel cs IH H. rewrite cstmt_switch. rewrite stmt_uses_switch in H.
    constructor; [apply H; left; reflexivity|]. apply IH. intros x Hx. apply H. right. exact Hx.
  - intros b c bi IHb IHc H. rewrite cstmt_loop. rewrite stmt_uses_loop in H.
    apply all_ok_app in H. destruct H as [H1 H]. apply all_ok_app in H. destruct H as [H2 H3].
    constructor; auto. apply all_ok_opt. exact H3.
  - intros _. constructor.
  - intros s b IHs IHb H. cbn [block_uses] in H. apply all_ok_app in H. destruct H as [H1 H2].
    cbn [cblock]. specialize (IHs H1). specialize (IHb H2).
    destruct (cstmt u s) as [s'|].
    + constructor; assumption.
    + destruct IHs as (a & c & -> & Hle). apply br_drop; assumption.
  - intros _. constructor.
  - intros v b ft cs IHb IHc H. cbn [cases_uses] in H. apply all_ok_app in H. destruct H as [H1 H2].
    cbn [ccases]. constructor; auto.
Qed.
End Body.

(* identity: every statement is related to itself under the live set "everything" *)
Lemma rename_expr_id r e : (forall x, r x = x) -> rename_expr r e = e.
Proof.
  intro H. assert (Hm : forall l, map r l = l) by (intro l; rewrite (map_ext _ (fun x => x)) by exact H; apply map_id).
  destruct e; cbn [rename_expr]; rewrite ?H, ?Hm; try reflexivity.
  destruct (compact_knows_expr tag); reflexivity.
Qed.

Lemma rename_callres_id e : rename_callres (fun x => x) e = e.
Proof. destruct e; reflexivity. Qed.

Lemma rename_opt_id r o : (forall x, r x = x) -> rename_opt r o = o.
Proof. intro H. destruct o; cbn; [rewrite H|]; reflexivity. Qed.

Lemma rename_simple_stmt_id r s : (forall x, r x = x) -> rename_simple_stmt r s = s.
Proof.
  intro H. assert (Hm : forall l, map r l = l) by (intro l; rewrite (map_ext _ (fun x => x)) by exact H; apply map_id).
  destruct s; cbn [rename_simple_stmt]; rewrite ?H, ?Hm, ?(rename_opt_id r) by exact H; reflexivity.
Qed.

Definition utrue : nat -> bool := fun _ => true.

Section Ident.
Variable n : nat.
Let T := fun _ : nat => True.
Let Hid : forall x, rank utrue x = x := fun x => rank_all_true utrue x (fun _ => eq_refl).

Definition all_lt (l : list nat) : Prop := forall x, In x l -> x < n.

Lemma all_lt_ok l : all_lt l -> Forall (ok utrue n) l.
Proof. intro H. apply Forall_forall. intros x Hx. split; [reflexivity|apply H; exact Hx]. Qed.

Lemma all_lt_app l1 l2 : all_lt (l1 ++ l2) -> all_lt l1 /\ all_lt l2.
Proof. unfold all_lt. intro H. split; intros x Hx; apply H; apply in_or_app; auto. Qed.

Lemma srel_leaf_id s : structured s = false -> all_lt (stmt_uses s) -> srel utrue n (fun x => x) T s s.
Proof.
  intros Hs Hok. destruct s; try discriminate.
  - pose proof (sr_emit utrue n (fun x => x) T start stop) as H. rewrite !Hid in H. exact H.
  - apply (sr_simple utrue n _ T SBreak); [reflexivity|constructor].
  - apply (sr_simple utrue n _ T SContinue); [reflexivity|constructor].
  - pose proof (sr_simple utrue n (fun x => x) T (SReturn value) eq_refl (all_lt_ok _ Hok)) as H.
    rewrite rename_simple_stmt_id in H by exact Hid. exact H.
  - apply (sr_simple utrue n _ T SKill); [reflexivity|constructor].
  - apply (sr_simple utrue n _ T (SBarrier flags)); [reflexivity|constructor].
  - pose proof (sr_simple utrue n (fun x => x) T (SStore pointer value) eq_refl (all_lt_ok _ Hok)) as H.
    rewrite rename_simple_stmt_id in H by exact Hid. exact H.
  - pose proof (sr_simple utrue n (fun x => x) T (SAtomic pointer f compare value result) eq_refl (all_lt_ok _ Hok)) as H.
    rewrite rename_simple_stmt_id in H by exact Hid. exact H.
  - cbn [stmt_uses stmt_refs] in Hok. apply all_lt_app in Hok. destruct Hok as [Ha Hr].
    assert (Hro : ok_opt utrue n result).
    { destruct result; cbn; [split; [reflexivity|apply Hr; left; reflexivity]|exact I]. }
    pose proof (sr_call utrue n (fun x => x) T f args result I (all_lt_ok _ Ha) Hro) as H.
    rewrite (rename_opt_id _ _ Hid) in H.
    rewrite (map_ext _ (fun x => x)) in H by exact Hid. rewrite map_id in H. exact H.
  - pose proof (sr_simple utrue n (fun x => x) T (SOther tag refs) eq_refl (all_lt_ok _ Hok)) as H.
    rewrite rename_simple_stmt_id in H by exact Hid. exact H.
Qed.

Lemma brel_refl : forall b, all_lt (block_uses b) -> brel utrue n (fun x => x) T b b.
Proof.
  apply (block_ind3
           (fun s => all_lt (stmt_uses s) -> srel utrue n (fun x => x) T s s)
           (fun b => all_lt (block_uses b) -> brel utrue n (fun x => x) T b b)
           (fun cs => all_lt (cases_uses cs) -> crel utrue n (fun x => x) T cs cs)).
  - exact srel_leaf_id.
  - intros b IH H. constructor. apply IH. exact H.
  - intros c a r IHa IHr H. rewrite stmt_uses_if in H.
    assert (Hc : ok utrue n c) by (split; [reflexivity|apply H; left; reflexivity]).
    assert (H' : all_lt (block_uses a ++ block_uses r)) by (intros x Hx; apply H; right; exact Hx).
    apply all_lt_app in H'. destruct H' as [H1 H2].
    pose proof (sr_if utrue n (fun x => x) T c a a r r Hc (IHa H1) (IHr H2)) as G. rewrite Hid in G. exact G.
  - intros sel cs IH H. rewrite stmt_uses_switch in H.
    assert (Hc : ok utrue n sel) by (split; [reflexivity|apply H; left; reflexivity]).
    assert (H' : all_lt (cases_uses cs)) by (intros x Hx; apply H; right; exact Hx).
    pose proof (sr_switch utrue n (fun x => x) T sel cs cs Hc (IH H')) as G. rewrite Hid in G. exact G.
  - intros b c bi IHb IHc H. rewrite stmt_uses_loop in H.
    apply all_lt_app in H. destruct H as [H1 H]. apply all_lt_app in H. destruct H as [H2 H3].
    assert (Hbi : ok_opt utrue n bi).
    { destruct bi; cbn; [split; [reflexivity|apply H3; left; reflexivity]|exact I]. }
    pose proof (sr_loop utrue n (fun x => x) T b b c c bi Hbi (IHb H1) (IHc H2)) as G.
    rewrite (rename_opt_id _ _ Hid) in G. exact G.
  - intros _. constructor.
  - intros s b IHs IHb H. cbn [block_uses] in H. apply all_lt_app in H. destruct H as [H1 H2].
    constructor; auto.
  - intros _. constructor.
  - intros v b ft cs IHb IHc H. cbn [cases_uses] in H. apply all_lt_app in H. destruct H as [H1 H2].
    constructor; auto.
Qed.
End Ident.

(* ====================================================================== *)
(* fspec for the two outcomes of compact_function                          *)

Lemma fspec_id f : fn_wf f -> fspec utrue (List.length (f_exprs f)) (fun x => x) (fun _ => True) f f.
Proof.
  intros (Hf & Hu & Hl).
  assert (Hid : forall x, rank utrue x = x) by (intro x; apply rank_all_true; reflexivity).
  constructor.
  - reflexivity.
  - exact Hf.
  - reflexivity.
  - intros h e _ He. rewrite Hid, rename_expr_id by exact Hid. rewrite rename_callres_id. exact He.
  - rewrite Hid. reflexivity.
  - apply brel_refl. exact Hu.
  - rewrite <- (map_id (f_locals f)) at 1. apply map_ext. intro l. destruct l as [nm ty [i|]]; cbn; [rewrite Hid|]; reflexivity.
  - apply Forall_forall. intros l Hin. rewrite Forall_forall in Hl. specialize (Hl l Hin).
    destruct (lv_init l); cbn; [split; [reflexivity|exact Hl]|exact I].
Qed.

Lemma in_fn_roots_uses f x : In x (block_uses (f_body f)) -> In x (fn_roots f).
Proof. intro H. unfold fn_roots. apply in_or_app. right. apply in_or_app. right. exact H. Qed.

Lemma in_fn_roots_init f l h : In l (f_locals f) -> lv_init l = Some h -> In h (fn_roots f).
Proof.
  intros Hl Hi. unfold fn_roots. apply in_or_app. right. apply in_or_app. left.
  apply in_flat_map. exists l. split; [exact Hl|]. rewrite Hi. left. reflexivity.
Qed.

Lemma fspec_compact f :
  fn_wf f ->
  fspec (uget (used_exprs f)) (List.length (f_exprs f)) (fun x => x) (fun _ => True) f (compact_function_with (used_exprs f) f).
Proof.
  intros (Hf & Hu & Hl). set (u := uget (used_exprs f)).
  constructor; cbn [compact_function_with f_exprs f_body f_locals].
  - reflexivity.
  - exact Hf.
  - intros h e x Hh He Hx. eapply used_closed; eauto.
  - intros h e Hh He. rewrite rename_callres_id. fold u. rewrite nth_error_map.
    rewrite (keep_nth u _ h e He Hh). reflexivity.
  - rewrite map_length. apply keep_length.
  - apply cblock_rel. intros x Hx. split; [|apply Hu; exact Hx].
    apply used_root; [apply in_fn_roots_uses; exact Hx|apply Hu; exact Hx].
  - reflexivity.
  - apply Forall_forall. intros l Hin. rewrite Forall_forall in Hl. specialize (Hl l Hin).
    destruct (lv_init l) as [h|] eqn:E; cbn; [|exact I].
    split; [|exact Hl]. apply used_root; [eapply in_fn_roots_init; eauto|exact Hl].
Qed.

Lemma frel_compact_function f :
  fn_wf f -> frel (fun x => x) (fun _ => True) f (compact_function f).
Proof.
  intro Hwf. unfold compact_function. destruct (f_exprs f) eqn:E.
  - exists utrue. apply fspec_id. exact Hwf.
  - destruct (all_true (used_exprs f)).
    + exists utrue. apply fspec_id. exact Hwf.
    + exists (uget (used_exprs f)). apply fspec_compact. exact Hwf.
Qed.

(* ====================================================================== *)
(* The theorem                                                             *)

Lemma module_wf_function m i f : module_wf m -> nth_error (m_functions m) i = Some f -> fn_wf f.
Proof.
  unfold module_wf, all_funcs. intros H Hn. rewrite Forall_forall in H. apply H.
  apply in_or_app. left. eapply nth_error_In; eauto.
Qed.

Lemma module_wf_entry m i e : module_wf m -> nth_error (m_entry_points m) i = Some e -> fn_wf (ep_func e).
Proof.
  unfold module_wf, all_funcs. intros H Hn. rewrite Forall_forall in H. apply H.
  apply in_or_app. right. apply in_map. eapply nth_error_In; eauto.
Qed.

Theorem compact_expressions_sound m :
  module_wf m ->
  forall fuel ep gs args res,
    run_entry fuel m ep gs args = Done res ->
    run_entry fuel (compact_expressions m) ep gs args = Done res.
Proof.
  intros Hwf fuel ep gs args res.
  apply (sim_run_entry m (compact_expressions m) (fun x => x) (fun _ => True)); try reflexivity.
  - intros i f _ Hn. exists (compact_function f). split.
    + cbn [compact_expressions map_funcs m_functions]. rewrite nth_error_map, Hn. reflexivity.
    + apply frel_compact_function. eapply module_wf_function; eauto.
  - intros i e Hn. eexists. split.
    + cbn [compact_expressions map_funcs m_entry_points]. rewrite nth_error_map, Hn. reflexivity.
    + cbn [ep_func]. apply frel_compact_function. eapply module_wf_entry; eauto.
Qed.
