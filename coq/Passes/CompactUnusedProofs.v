(* C13 — CompactUnused (model): removal of unreachable functions is an instance of the
   general renumbering lemma.  PARTIAL: the theorem assumes (executable side conditions,
   evaluated by the check on every module) that the computed live set is closed under
   calls, and that no global variable is removed (removing a global shifts memory
   cells, which needs a simulation up to a cell renaming rather than equality). *)
From Coq Require Import List Arith Bool String Lia ZArith.
Import ListNotations.
Require Import Naga.IR.Syntax Naga.IR.Values Naga.IR.Sem.
Require Import Naga.Passes.Remap Naga.Passes.RemapProofs Naga.Passes.Compact Naga.Passes.RenameSound Naga.Passes.CompactExprProofs.
Local Open Scope nat_scope.
Local Open Scope list_scope.

Lemma stmt_calls_block b : stmt_calls (SBlock b) = block_calls b.
Proof. reflexivity. Qed.
Lemma stmt_calls_if c a r : stmt_calls (SIf c a r) = block_calls a ++ block_calls r.
Proof. reflexivity. Qed.
Fixpoint cases_calls (cs : list (switch_value * list stmt * bool)) : list nat :=
  match cs with [] => [] | (_, b, _) :: cs' => block_calls b ++ cases_calls cs' end.
Lemma stmt_calls_switch sel cs : stmt_calls (SSwitch sel cs) = cases_calls cs.
Proof. reflexivity. Qed.
Lemma stmt_calls_loop b c bi : stmt_calls (SLoop b c bi) = block_calls b ++ block_calls c.
Proof. reflexivity. Qed.

Lemma rename_f_block_eq rf b : rename_f_stmt rf (SBlock b) = SBlock (rename_f_block rf b).
Proof. reflexivity. Qed.
Lemma rename_f_if_eq rf c a r : rename_f_stmt rf (SIf c a r) = SIf c (rename_f_block rf a) (rename_f_block rf r).
Proof. reflexivity. Qed.
Lemma rename_f_switch_eq rf sel cs : rename_f_stmt rf (SSwitch sel cs) = SSwitch sel (rename_f_cases rf cs).
Proof. reflexivity. Qed.
Lemma rename_f_loop_eq rf b c bi : rename_f_stmt rf (SLoop b c bi) = SLoop (rename_f_block rf b) (rename_f_block rf c) bi.
Proof. reflexivity. Qed.

Section FBody.
Variable n : nat.
Variable rf : nat -> nat.
Variable fused : nat -> Prop.
Let Hid : forall x, rank utrue x = x := fun x => rank_all_true utrue x (fun _ => eq_refl).

Definition all_fused (l : list nat) : Prop := forall x, In x l -> fused x.
Lemma all_fused_app l1 l2 : all_fused (l1 ++ l2) -> all_fused l1 /\ all_fused l2.
Proof. unfold all_fused. intro H. split; intros x Hx; apply H; apply in_or_app; auto. Qed.

Lemma srel_leaf_f s :
  structured s = false -> all_lt n (stmt_uses s) -> all_fused (stmt_calls s) ->
  srel utrue n rf fused s (rename_f_stmt rf s).
Proof.
  intros Hs Hok Hc. destruct s; try discriminate; cbn [rename_f_stmt].
  - pose proof (sr_emit utrue n rf fused start stop) as H. rewrite !Hid in H. exact H.
  - apply (sr_simple utrue n rf fused SBreak); [reflexivity|constructor].
  - apply (sr_simple utrue n rf fused SContinue); [reflexivity|constructor].
  - pose proof (sr_simple utrue n rf fused (SReturn value) eq_refl (all_lt_ok _ _ Hok)) as H.
    rewrite rename_simple_stmt_id in H by exact Hid. exact H.
  - apply (sr_simple utrue n rf fused SKill); [reflexivity|constructor].
  - apply (sr_simple utrue n rf fused (SBarrier flags)); [reflexivity|constructor].
  - pose proof (sr_simple utrue n rf fused (SStore pointer value) eq_refl (all_lt_ok _ _ Hok)) as H.
    rewrite rename_simple_stmt_id in H by exact Hid. exact H.
  - pose proof (sr_simple utrue n rf fused (SAtomic pointer f compare value result) eq_refl (all_lt_ok _ _ Hok)) as H.
    rewrite rename_simple_stmt_id in H by exact Hid. exact H.
  - cbn [stmt_uses stmt_refs] in Hok. apply all_lt_app in Hok. destruct Hok as [Ha Hr].
    assert (Hro : ok_opt utrue n result).
    { destruct result; cbn; [split; [reflexivity|apply Hr; left; reflexivity]|exact I]. }
    assert (Hf : fused f) by (apply Hc; left; reflexivity).
    pose proof (sr_call utrue n rf fused f args result Hf (all_lt_ok _ _ Ha) Hro) as H.
    rewrite (rename_opt_id _ _ Hid) in H.
    rewrite (map_ext _ (fun x => x)) in H by exact Hid. rewrite map_id in H. exact H.
  - pose proof (sr_simple utrue n rf fused (SOther tag refs) eq_refl (all_lt_ok _ _ Hok)) as H.
    rewrite rename_simple_stmt_id in H by exact Hid. exact H.
Qed.

Lemma brel_rename_f : forall b, all_lt n (block_uses b) -> all_fused (block_calls b) ->
                                brel utrue n rf fused b (rename_f_block rf b).
Proof.
  apply (block_ind3
           (fun s => all_lt n (stmt_uses s) -> all_fused (stmt_calls s) -> srel utrue n rf fused s (rename_f_stmt rf s))
           (fun b => all_lt n (block_uses b) -> all_fused (block_calls b) -> brel utrue n rf fused b (rename_f_block rf b))
           (fun cs => all_lt n (cases_uses cs) -> all_fused (cases_calls cs) -> crel utrue n rf fused cs (rename_f_cases rf cs))).
  - exact srel_leaf_f.
  - intros b IH H Hc. rewrite rename_f_block_eq. constructor. apply IH; assumption.
  - intros c a r IHa IHr H Hc. rewrite rename_f_if_eq. rewrite stmt_uses_if in H. rewrite stmt_calls_if in Hc.
    assert (Hcc : ok utrue n c) by (split; [reflexivity|apply H; left; reflexivity]).
    assert (H' : all_lt n (block_uses a ++ block_uses r)) by (intros x Hx; apply H; right; exact Hx).
    apply all_lt_app in H'. destruct H' as [H1 H2]. apply all_fused_app in Hc. destruct Hc as [C1 C2].
    pose proof (sr_if utrue n rf fused c a _ r _ Hcc (IHa H1 C1) (IHr H2 C2)) as G. rewrite Hid in G. exact G.
  - intros sel cs IH H Hc. rewrite rename_f_switch_eq. rewrite stmt_uses_switch in H. rewrite stmt_calls_switch in Hc.
    assert (Hcc : ok utrue n sel) by (split; [reflexivity|apply H; left; reflexivity]).
    assert (H' : all_lt n (cases_uses cs)) by (intros x Hx; apply H; right; exact Hx).
    pose proof (sr_switch utrue n rf fused sel cs _ Hcc (IH H' Hc)) as G. rewrite Hid in G. exact G.
  - intros b c bi IHb IHc H Hc. rewrite rename_f_loop_eq. rewrite stmt_uses_loop in H. rewrite stmt_calls_loop in Hc.
    apply all_lt_app in H. destruct H as [H1 H]. apply all_lt_app in H. destruct H as [H2 H3].
    apply all_fused_app in Hc. destruct Hc as [C1 C2].
    assert (Hbi : ok_opt utrue n bi).
    { destruct bi; cbn; [split; [reflexivity|apply H3; left; reflexivity]|exact I]. }
    pose proof (sr_loop utrue n rf fused b _ c _ bi Hbi (IHb H1 C1) (IHc H2 C2)) as G.
    rewrite (rename_opt_id _ _ Hid) in G. exact G.
  - intros _ _. constructor.
  - intros s b IHs IHb H Hc. cbn [block_uses block_calls] in H, Hc. apply all_lt_app in H. destruct H as [H1 H2].
    apply all_fused_app in Hc. destruct Hc as [C1 C2]. cbn [rename_f_block]. constructor; auto.
  - intros _ _. constructor.
  - intros v b ft cs IHb IHc H Hc. cbn [cases_uses cases_calls] in H, Hc. apply all_lt_app in H. destruct H as [H1 H2].
    apply all_fused_app in Hc. destruct Hc as [C1 C2]. cbn [rename_f_cases]. constructor; auto.
Qed.
End FBody.

Lemma fspec_rename_f rf fused f :
  fn_wf f -> all_fused fused (block_calls (f_body f)) ->
  fspec utrue (List.length (f_exprs f)) rf fused f (rename_gf_func (fun h => h) rf f).
Proof.
  intros (Hf & Hu & Hl) Hc.
  assert (Hid : forall x, rank utrue x = x) by (intro x; apply rank_all_true; reflexivity).
  constructor; cbn [rename_gf_func f_exprs f_body f_locals].
  - reflexivity.
  - exact Hf.
  - reflexivity.
  - intros h e _ He. rewrite Hid, rename_expr_id by exact Hid. rewrite nth_error_map, He. cbn [option_map].
    f_equal. destruct e; reflexivity.
  - rewrite Hid. apply map_length.
  - apply brel_rename_f; assumption.
  - rewrite <- (map_id (f_locals f)) at 1. apply map_ext. intro l. destruct l as [nm ty [i|]]; cbn; [rewrite Hid|]; reflexivity.
  - apply Forall_forall. intros l Hin. rewrite Forall_forall in Hl. specialize (Hl l Hin).
    destruct (lv_init l); cbn; [split; [reflexivity|exact Hl]|exact I].
Qed.

(* executable side condition: the live set contains the entry points' callees and is closed under calls *)
Definition calls_closedb (m : module) (uf : uset) : bool :=
  forallb (fun e => forallb (uget uf) (block_calls (f_body (ep_func e)))) (m_entry_points m)
  && forallb (fun f => forallb (uget uf) (block_calls (f_body f))) (keep (uget uf) (m_functions m)).

Theorem compact_unused_sound_partial m :
  module_wf m ->
  calls_closedb m (used_functions m) = true ->
  all_true (used_globals m (used_functions m)) = true ->
  forall fuel ep gs args res,
    run_entry fuel m ep gs args = Done res ->
    run_entry fuel (compact_unused m) ep gs args = Done res.
Proof.
  intros Hwf Hcl Hg fuel ep gs args res.
  unfold compact_unused. destruct (m_entry_points m) as [|ep0 eps0] eqn:Eeps; [auto|]. rewrite <- Eeps.
  rewrite Hg. cbn [negb andb].
  destruct (all_true (used_functions m)) eqn:Hall; cbn [negb]; [auto|].
  set (uf := used_functions m) in *.
  apply andb_true_iff in Hcl. destruct Hcl as [Hcl1 Hcl2].
  rewrite forallb_forall in Hcl1, Hcl2.
  apply (sim_run_entry m _ (remap0 uf) (fun i => uget uf i = true)); try reflexivity.
  - intros i f Hu Hn. exists (rename_gf_func (fun h => h) (remap0 uf) f). split.
    + cbn [m_functions]. rewrite nth_error_map. unfold remap0. rewrite Hu.
      rewrite (keep_nth _ _ i f Hn Hu). reflexivity.
    + exists utrue. apply fspec_rename_f; [eapply module_wf_function; eauto|].
      intros x Hx. assert (Hk : In f (keep (uget uf) (m_functions m))).
      { eapply nth_error_In. apply (keep_nth _ _ i f Hn Hu). }
      specialize (Hcl2 f Hk). rewrite forallb_forall in Hcl2. apply Hcl2. exact Hx.
  - intros i e Hn. eexists. split.
    + cbn [m_entry_points]. rewrite nth_error_map, Hn. reflexivity.
    + cbn [ep_func]. exists utrue. apply fspec_rename_f; [eapply module_wf_entry; eauto|].
      intros x Hx. specialize (Hcl1 e (nth_error_In _ _ Hn)). rewrite forallb_forall in Hcl1. apply Hcl1. exact Hx.
Qed.
