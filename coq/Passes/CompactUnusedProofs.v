(* C13 — CompactUnused (model): removal of unreachable functions is an instance of the
   general renumbering lemma.  PARTIAL: the theorem assumes (executable side conditions,
   evaluated by the check on every module) that the computed live set is closed under
   calls, and that no global variable is removed (removing a global shifts memory
   cells, which needs a simulation up to a cell renaming rather than equality). *)
From Coq Require Import List Arith Bool String Lia ZArith.
Import ListNotations.
Require Import Naga.IR.Syntax Naga.IR.Values Naga.IR.Sem.
Require Import Naga.Passes.Remap Naga.Passes.RemapProofs Naga.Passes.Compact Naga.Passes.RenameSound Naga.Passes.CompactExprProofs.
Local Open Scope nat_scope.
Local Open Scope list_scope.

Lemma stmt_calls_block b : stmt_calls (SBlock b) = block_calls b.
Proof. reflexivity. Qed.
Lemma stmt_calls_if c a r : stmt_calls (SIf c a r) = block_calls a ++ block_calls r.
Proof. reflexivity. Qed.
Fixpoint cases_calls (cs : list (switch_value * list stmt * bool)) : list nat :=
  match cs with [] => [] | (_, b, _) :: cs' => block_calls b ++ cases_calls cs' end.
Lemma stmt_calls_switch sel cs : stmt_calls (SSwitch sel cs) = cases_calls cs.
Proof. reflexivity. Qed.
Lemma stmt_calls_loop b c bi : stmt_calls (SLoop b c bi) = block_calls b ++ block_calls c.
Proof. reflexivity. Qed.

Lemma rename_f_block_eq rf b : rename_f_stmt rf (SBlock b) = SBlock (rename_f_block rf b).
Proof. reflexivity. Qed.
Lemma rename_f_if_eq rf c a r : rename_f_stmt rf (SIf c a r) = SIf c (rename_f_block rf a) (rename_f_block rf r).
Proof. reflexivity. Qed.
Lemma rename_f_switch_eq rf sel cs : rename_f_stmt rf (SSwitch sel cs) = SSwitch sel (rename_f_cases rf cs).
Proof. reflexivity. Qed.
Lemma rename_f_loop_eq rf b c bi : rename_f_stmt rf (SLoop b c bi) = SLoop (rename_f_block rf b) (rename_f_block rf c) bi.
Proof. reflexivity. Qed.

Section FBody.
Variable n : nat.
Variable rf : nat -> nat.
Variable fused : nat -> Prop.
Let Hid : forall x, rank utrue x = x := fun x => rank_all_true utrue x (fun _ => eq_refl).

Definition all_fused (l : list nat) : Prop := forall x, In x l -> fused x.
Lemma all_fused_app l1 l2 : all_fused (l1 ++ l2) -> all_fused l1 /\ all_fused l2.
Proof. unfold all_fused. intro H. split; intros x Hx; apply H; apply in_or_app; auto. Qed.

Lemma srel_leaf_f s :
  structured s = false -> all_lt n (stmt_uses s) -> all_fused (stmt_calls s) ->
  srel utrue n rf fused s (rename_f_stmt rf s).
Proof.
  intros Hs Hok Hc. destruct s; try discriminate; cbn [rename_f_stmt].
  - pose proof (sr_emit utrue n rf fused start stop) as H. rewrite !Hid in H. exact H.
  - apply (sr_simple utrue n rf fused SBreak); [reflexivity|constructor].
  - apply (sr_simple utrue n rf fused SContinue); [reflexivity|constructor].
  - pose proof (sr_simple utrue n rf fused (SReturn value) eq_refl (all_lt_ok _ _ Hok)) as H.
    rewrite rename_simple_stmt_id in H by exact Hid. exact H.
  - apply (sr_simple utrue n rf fused SKill); [reflexivity|constructor].
  - apply (sr_simple utrue n rf fused (SBarrier flags)); [reflexivity|constructor].
  - pose proof (sr_simple utrue n rf fused (SStore pointer value) eq_refl (all_lt_ok _ _ Hok)) as H.
    rewrite rename_simple_stmt_id in H by exact Hid. exact H.
  - pose proof (sr_simple utrue n rf fused (SAtomic pointer f compare value result) eq_refl (all_lt_ok _ _ Hok)) as H.
    rewrite rename_simple_stmt_id in H by exact Hid. exact H.
  - cbn [stmt_uses stmt_refs] in Hok. apply all_lt_app in Hok. destruct Hok as [Ha Hr].
    assert (Hro : ok_opt utrue n result).
    { destruct result; cbn; [split; [reflexivity|apply Hr; left; reflexivity]|exact I]. }
    assert (Hf : fused f) by (apply Hc; left; reflexivity).
    pose proof (sr_call utrue n rf fused f args result Hf (all_lt_ok _ _ Ha) Hro) as H.
    rewrite (rename_opt_id _ _ Hid) in H.
    rewrite (map_ext _ (fun x => x)) in H by exact Hid. rewrite map_id in H. exact H.
  - pose proof (sr_simple utrue n rf fused (SOther tag refs) eq_refl (all_lt_ok _ _ Hok)) as H.
    rewrite rename_simple_stmt_id in H by exact Hid. exact H.
Qed.

Lemma brel_rename_f : forall b, all_lt n (block_uses b) -> all_fused (block_calls b) ->
                                brel utrue n rf fused b (rename_f_block rf b).
Proof.
  apply (block_ind3
           (fun s => all_lt n (stmt_uses s) -> all_fused (stmt_calls s) -> srel utrue n rf fused s (rename_f_stmt rf s))
           (fun b => all_lt n (block_uses b) -> all_fused (block_calls b) -> brel utrue n rf fused b (rename_f_block rf b))
           (fun cs => all_lt n (cases_uses cs) -> all_fused (cases_calls cs) -> crel utrue n rf fused cs (rename_f_cases rf cs))).
  - exact srel_leaf_f.
  - intros b IH H Hc. rewrite rename_f_block_eq. constructor. apply IH; assumption.
  - intros c a r IHa IHr H Hc. rewrite rename_f_if_eq. rewrite stmt_uses_if in H. rewrite stmt_calls_if in Hc.
    assert (Hcc : ok utrue n c) by (split; [reflexivity|apply H; left; reflexivity]).
    assert (H' : all_lt n (block_uses a ++ block_uses r)) by (intros x Hx; apply H; right; exact Hx).
    apply all_lt_app in H'. destruct H' as [H1 H2]. apply all_fused_app in Hc. destruct Hc as [C1 C2].
    pose proof (sr_if utrue n rf fused c a _ r _ Hcc (IHa H1 C1) (IHr H2 C2)) as G. rewrite Hid in G. exact G.
  - intros sel cs IH H Hc. rewrite rename_f_switch_eq. rewrite stmt_uses_switch in H. rewrite stmt_calls_switch in Hc.
    assert (Hcc : ok utrue n sel) by (split; [reflexivity|apply H; left; reflexivity]).
    assert (H' : all_lt n (cases_uses cs)) by (intros x Hx; apply H; right; exact Hx).
    pose proof (sr_switch utrue n rf fused sel cs _ Hcc (IH H' Hc)) as G. rewrite Hid in G. exact G.
  - intros b c bi IHb IHc H Hc. rewrite rename_f_loop_eq. rewrite stmt_uses_loop in H. rewrite stmt_calls_loop in Hc.
    apply all_lt_app in H. destruct H as [H1 H]. apply all_lt_app in H. destruct H as [H2 H3].
    apply all_fused_app in Hc. destruct Hc as [C1 C2].
    assert (Hbi : ok_opt utrue n bi).
    { destruct bi; cbn; [split; [reflexivity|apply H3; left; reflexivity]|exact I]. }
    pose proof (sr_loop utrue n rf fused b _ c _ bi Hbi (IHb H1 C1) (IHc H2 C2)) as G.
    rewrite (rename_opt_id _ _ Hid) in G. exact G.
  - intros _ _. constructor.
  - intros s b IHs IHb H Hc. cbn [block_uses block_calls] in H, Hc. apply all_lt_app in H. destruct H as [H1 H2].
    apply all_fused_app in Hc. destruct Hc as [C1 C2]. cbn [rename_f_block]. constructor; auto.
  - intros _ _. constructor.
  - intros v b ft cs IHb IHc H Hc. cbn [cases_uses cases_calls] in H, Hc. apply all_lt_app in H. destruct H as [H1 H2].
    apply all_fused_app in Hc. destruct Hc as [C1 C2]. cbn [rename_f_cases]. constructor; auto.
Qed.
End FBody.

Lemma fspec_rename_f rf fused f :
  fn_wf f -> all_fused fused (block_calls (f_body f)) ->
  fspec utrue (List.length (f_exprs f)) rf fused f (rename_gf_func (fun h => h) rf f).
Proof.
  intros (Hf & Hu & Hl) Hc.
  assert (Hid : forall x, rank utrue x = x) by (intro x; apply rank_all_true; reflexivity).
  constructor; cbn [rename_gf_func f_exprs f_body f_locals].
  - reflexivity.
  - exact Hf.
  - reflexivity.
  - intros h e _ He. rewrite Hid, rename_expr_id by exact Hid. rewrite nth_error_map, He. cbn [option_map].
    f_equal. destruct e; reflexivity.
  - rewrite Hid. apply map_length.
  - apply brel_rename_f; assumption.
  - rewrite <- (map_id (f_locals f)) at 1. apply map_ext. intro l. destruct l as [nm ty [i|]]; cbn; [rewrite Hid|]; reflexivity.
  - apply Forall_forall. intros l Hin. rewrite Forall_forall in Hl. specialize (Hl l Hin).
    destruct (lv_init l); cbn; [split; [reflexivity|exact Hl]|exact I].
Qed.

(* executable side condition: the live set contains the entry points' callees and is closed under calls *)
Definition calls_closedb (m : module) (uf : uset) : bool :=
  forallb (fun e => forallb (uget uf) (block_calls (f_body (ep_func e)))) (m_entry_points m)
  && forallb (fun f => forallb (uget uf) (block_calls (f_body f))) (keep (uget uf) (m_functions m)).

Theorem compact_unused_sound_partial m :
  module_wf m ->
  calls_closedb m (used_functions m) = true ->
  all_true (used_globals m (used_functions m)) = true ->
  forall fuel ep gs args res,
    run_entry fuel m ep gs args = Done res ->
    run_entry fuel (compact_unused m) ep gs args = Done res.
Proof.
  intros Hwf Hcl Hg fuel ep gs args res.
  unfold compact_unused. destruct (m_entry_points m) as [|ep0 eps0] eqn:Eeps; [auto|]. rewrite <- Eeps.
  rewrite Hg. cbn [negb andb].
  destruct (all_true (used_functions m)) eqn:Hall; cbn [negb]; [auto|].
  set (uf := used_functions m) in *.
  apply andb_true_iff in Hcl. destruct Hcl as [Hcl1 Hcl2].
  rewrite forallb_forall in Hcl1, Hcl2.
  apply (sim_run_entry m _ (remap0 uf) (fun i => uget uf i = true)); try reflexivity.
  - intros i f Hu Hn. exists (rename_gf_func (fun h => h) (remap0 uf) f). split.
    + cbn [m_functions]. rewrite nth_error_map. unfold remap0. rewrite Hu.
      rewrite (keep_nth _ _ i f Hn Hu). reflexivity.
    + exists utrue. apply fspec_rename_f; [eapply module_wf_function; eauto|].
      intros x Hx. assert (Hk : In f (keep (uget uf) (m_functions m))).
      { eapply nth_error_In. apply (keep_nth _ _ i f Hn Hu). }
      specialize (Hcl2 f Hk). rewrite forallb_forall in Hcl2. apply Hcl2. exact Hx.
  - intros i e Hn. eexists. split.
    + cbn [m_entry_points]. rewrite nth_error_map, Hn. reflexivity.
    + cbn [ep_func]. exists utrue. apply fspec_rename_f; [eapply module_wf_entry; eauto|].
      intros x Hx. specialize (Hcl1 e (nth_error_In _ _ Hn)). rewrite forallb_forall in Hcl1. apply Hcl1. exact Hx.
Qed.

(* ====================================================================== *)
(* The work-list computation of the live functions is call-closed           *)

Fixpoint cost (fs : list func) (i : nat) (uf : uset) : nat :=
  match fs with
  | [] => 0
  | f :: fs' => (if uget uf i then 0 else S (List.length (block_calls (f_body f)))) + cost fs' (S i) uf
  end.

Lemma cost_mark_other fs i uf k : k < i -> cost fs i (mark uf k) = cost fs i uf.
Proof.
  revert i. induction fs as [|f fs IH]; intros i Hk; cbn [cost]; [reflexivity|].
  rewrite IH by lia. unfold mark. rewrite uget_set_true.
  replace (Nat.eqb i k) with false by (symmetry; apply Nat.eqb_neq; lia). reflexivity.
Qed.

Lemma cost_mark fs i uf k f :
  nth_error fs k = Some f -> uget uf (i + k) = false -> i + k < List.length uf ->
  cost fs i (mark uf (i + k)) + S (List.length (block_calls (f_body f))) = cost fs i uf.
Proof.
  revert i k. induction fs as [|g fs IH]; intros i k Hn Hu Hlt.
  - destruct k; discriminate.
  - destruct k as [|k]; cbn [cost].
    + cbn in Hn. inversion Hn; subst. rewrite Nat.add_0_r in *.
      rewrite cost_mark_other by lia. unfold mark. rewrite uget_set_true, Nat.eqb_refl.
      replace (Nat.ltb i (List.length uf)) with true by (symmetry; apply Nat.ltb_lt; exact Hlt).
      cbn. rewrite Hu. lia.
    + cbn in Hn. replace (i + S k) with (S i + k) in * by lia.
      specialize (IH (S i) k Hn Hu Hlt).
      unfold mark in *. rewrite uget_set_true.
      replace (Nat.eqb i (S i + k)) with false by (symmetry; apply Nat.eqb_neq; lia). cbn [andb orb]. lia.
Qed.

Section Reach.
Variable fs : list func.
Let F := List.length fs.
Definition callees (fn : nat) : list nat :=
  match nth_error fs fn with Some f => block_calls (f_body f) | None => [] end.

(* callees of marked functions are marked or pending; so are the items of the initial work list *)
Definition rinv (w0 : list nat) (uf : uset) (work : list nat) : Prop :=
  (forall fn c, uget uf fn = true -> In c (callees fn) -> c < F -> uget uf c = true \/ In c work)
  /\ (forall c, In c w0 -> c < F -> uget uf c = true \/ In c work).

Definition rclosed (w0 : list nat) (uf : uset) : Prop :=
  (forall fn c, uget uf fn = true -> In c (callees fn) -> c < F -> uget uf c = true)
  /\ (forall c, In c w0 -> c < F -> uget uf c = true).

Lemma reach_closed w0 : forall fuel uf work,
  List.length uf = F -> List.length work + cost fs 0 uf < fuel -> rinv w0 uf work ->
  rclosed w0 (reach fuel fs uf work).
Proof.
  induction fuel as [|fuel IH]; intros uf work Hlen Hfuel (I1 & I2); [lia|].
  cbn [reach]. destruct work as [|fn rest].
  - split.
    + intros g c Hg Hc Hlt. destruct (I1 g c Hg Hc Hlt) as [H|[]]. exact H.
    + intros c Hc Hlt. destruct (I2 c Hc Hlt) as [H|[]]. exact H.
  - destruct (Nat.ltb fn (List.length uf) && negb (uget uf fn))%bool eqn:E.
    + apply andb_true_iff in E. destruct E as [E1 E2]. apply Nat.ltb_lt in E1. apply negb_true_iff in E2.
      assert (Hfn : fn < F) by lia.
      destruct (nth_error fs fn) as [f|] eqn:Ef; [|apply nth_error_None in Ef; unfold F in Hfn; lia].
      assert (Hcost : cost fs 0 (mark uf fn) + S (List.length (block_calls (f_body f))) = cost fs 0 uf)
        by (apply (cost_mark fs 0 uf fn f Ef); cbn; auto).
      apply IH.
      * unfold mark. rewrite set_true_length. exact Hlen.
      * rewrite app_length. cbn [List.length] in Hfuel. lia.
      * split.
        -- intros g c Hg Hc Hlt. unfold mark in Hg |- *. rewrite uget_set_true in Hg |- *.
           destruct (Nat.eqb g fn) eqn:Eg.
           ++ apply Nat.eqb_eq in Eg. subst g. right. apply in_or_app. left.
              unfold callees in Hc. rewrite Ef in Hc. exact Hc.
           ++ cbn [andb orb] in Hg. destruct (I1 g c Hg Hc Hlt) as [H|[H|H]].
              ** left. rewrite H. apply orb_true_r.
              ** subst c. left. rewrite Nat.eqb_refl. replace (Nat.ltb fn (List.length uf)) with true by (symmetry; apply Nat.ltb_lt; exact E1). reflexivity.
              ** right. apply in_or_app. right. exact H.
        -- intros c Hc Hlt. unfold mark. rewrite uget_set_true. destruct (I2 c Hc Hlt) as [H|[H|H]].
           ++ left. rewrite H. apply orb_true_r.
           ++ subst c. left. rewrite Nat.eqb_refl. replace (Nat.ltb fn (List.length uf)) with true by (symmetry; apply Nat.ltb_lt; exact E1). reflexivity.
           ++ right. apply in_or_app. right. exact H.
    + apply IH; [exact Hlen|cbn [List.length] in Hfuel; lia|].
      assert (Hskip : fn < F -> uget uf fn = true).
      { intro Hlt. apply andb_false_iff in E. destruct E as [E|E].
        - apply Nat.ltb_ge in E. lia.
        - apply negb_false_iff in E. exact E. }
      split.
      * intros g c Hg Hc Hlt. destruct (I1 g c Hg Hc Hlt) as [H|[H|H]]; auto. subst c. left. apply Hskip. exact Hlt.
      * intros c Hc Hlt. destruct (I2 c Hc Hlt) as [H|[H|H]]; auto. subst c. left. apply Hskip. exact Hlt.
Qed.

Lemma cost_all_false : forall l i n, cost l i (repeat false n) = fold_right (fun f a => S (List.length (block_calls (f_body f))) + a) 0 l.
Proof.
  induction l as [|f l IH]; intros i n; cbn [cost fold_right]; [reflexivity|].
  rewrite uget_repeat_false, IH. reflexivity.
Qed.
End Reach.

Definition calls_in_rangeb (m : module) : bool :=
  forallb (fun f => forallb (fun c => Nat.ltb c (List.length (m_functions m))) (block_calls (f_body f))) (all_funcs m).

Lemma used_functions_closed m :
  calls_in_rangeb m = true -> calls_closedb m (used_functions m) = true.
Proof.
  intro Hr. unfold calls_in_rangeb in Hr. rewrite forallb_forall in Hr.
  set (w0 := flat_map (fun e => block_calls (f_body (ep_func e))) (m_entry_points m)).
  assert (Hc : rclosed (m_functions m) w0 (used_functions m)).
  { unfold used_functions. fold w0. apply reach_closed.
    - apply repeat_length.
    - unfold reach_fuel. rewrite cost_all_false. lia.
    - split; intros; right; auto. rewrite uget_repeat_false in H. discriminate. }
  destruct Hc as (C1 & C2).
  unfold calls_closedb. apply andb_true_iff. split; apply forallb_forall.
  - intros e He. apply forallb_forall. intros c Hc. apply C2.
    + unfold w0. apply in_flat_map. exists e. split; assumption.
    + assert (Hf : In (ep_func e) (all_funcs m)) by (unfold all_funcs; apply in_or_app; right; apply in_map; exact He).
      specialize (Hr _ Hf). rewrite forallb_forall in Hr. apply Nat.ltb_lt. apply Hr. exact Hc.
  - intros f Hf. apply forallb_forall. intros c Hc.
    apply In_nth_error in Hf. destruct Hf as (j & Hj).
    destruct (keep_nth_inv _ _ _ _ Hj) as (k & Hk & Hu & _).
    apply (C1 k c Hu).
    + unfold callees. rewrite Hk. exact Hc.
    + assert (Hf : In f (all_funcs m)) by (unfold all_funcs; apply in_or_app; left; eapply nth_error_In; eauto).
      specialize (Hr _ Hf). rewrite forallb_forall in Hr. apply Nat.ltb_lt. apply Hr. exact Hc.
Qed.

(* removal of unreachable functions: no side condition on the live-set computation left *)
Theorem compact_unused_functions_sound m :
  module_wf m -> calls_in_rangeb m = true ->
  all_true (used_globals m (used_functions m)) = true ->
  forall fuel ep gs args res,
    run_entry fuel m ep gs args = Done res ->
    run_entry fuel (compact_unused m) ep gs args = Done res.
Proof.
  intros Hwf Hr Hg. apply compact_unused_sound_partial; auto. apply used_functions_closed. exact Hr.
Qed.
