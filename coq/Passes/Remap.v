(* C13 — generic machinery for handle renumbering (definitions only).
   naga's compaction passes (ir/compact.go) all have the same shape: compute a
   set of live arena entries, drop the others keeping the order, and rewrite
   every handle h into the number of live entries below h.  This file gives the
   vocabulary: live sets as [list bool], [rank], order-preserving filtering,
   and the renaming of expression handles in expressions and statements. *)
From Coq Require Import List Arith Bool String ZArith.
Import ListNotations.
Require Import Naga.IR.Syntax.
Local Open Scope nat_scope.

(* ---- live sets ---- *)
Definition uset := list bool.
Definition uget (u : uset) (h : nat) : bool := nth h u false.

Fixpoint set_true (u : uset) (h : nat) : uset :=
  match u, h with
  | [], _ => []
  | _ :: u', O => true :: u'
  | b :: u', S h' => b :: set_true u' h'
  end.

(* Go: if int(h) < len(referenced) { referenced[h] = true } *)
Definition mark (u : uset) (h : nat) : uset := set_true u h.
Definition marks (u : uset) (l : list nat) : uset := fold_left mark l u.

Definition all_true (u : uset) : bool := forallb (fun b => b) u.

(* number of live entries in [i, i+k) *)
Fixpoint count (u : nat -> bool) (i k : nat) : nat :=
  match k with
  | O => O
  | S k' => (if u i then 1 else 0) + count u (S i) k'
  end.

(* new handle of h: number of live entries below h *)
Definition rank (u : nat -> bool) (h : nat) : nat := count u 0 h.

(* the live entries of l (whose first element has index i), in order *)
Fixpoint keep_from {A} (u : nat -> bool) (i : nat) (l : list A) : list A :=
  match l with
  | [] => []
  | x :: l' => if u i then x :: keep_from u (S i) l' else keep_from u (S i) l'
  end.
Definition keep {A} (u : nat -> bool) (l : list A) : list A := keep_from u 0 l.

(* ---- renaming of expression handles ---- *)
Section Rename.
Variable r : nat -> nat.

(* expression kinds whose handle fields ir/compact.go knows (markExprHandleRefs,
   remapExprHandles); the other non-core kinds pass through its default case *)
Definition compact_knows_expr (tag : string) : bool :=
  (String.eqb tag "ExprImageSample" || String.eqb tag "ExprImageLoad" || String.eqb tag "ExprImageQuery"
   || String.eqb tag "ExprRayQueryGetIntersection" || String.eqb tag "ExprDerivative")%bool.

Definition rename_expr (e : expr) : expr :=
  match e with
  | ECompose t cs => ECompose t (map r cs)
  | EAccess b i => EAccess (r b) (r i)
  | EAccessIndex b i => EAccessIndex (r b) i
  | ESplat n v => ESplat n (r v)
  | ESwizzle n v p => ESwizzle n (r v) p
  | ELoad p => ELoad (r p)
  | EUnary o x => EUnary o (r x)
  | EBinary o a b => EBinary o (r a) (r b)
  | ESelect c a b => ESelect (r c) (r a) (r b)
  | ERelational f a => ERelational f (r a)
  | EMath f args => EMath f (map r args)
  | EAs x k c => EAs (r x) k c
  | EArrayLength a => EArrayLength (r a)
  | EOther t refs => if compact_knows_expr t then EOther t (map r refs) else e
  | _ => e
  end.

(* handles that compaction treats as referenced by an expression *)
Definition compact_expr_refs (e : expr) : list nat :=
  match e with
  | EOther t refs => if compact_knows_expr t then refs else []
  | _ => expr_refs e
  end.

Definition rename_opt (o : option nat) : option nat := option_map r o.

(* statements other than Emit and the structured ones *)
Definition rename_simple_stmt (s : stmt) : stmt :=
  match s with
  | SReturn v => SReturn (rename_opt v)
  | SStore p v => SStore (r p) (r v)
  | SAtomic p f c v res => SAtomic (r p) f (rename_opt c) (r v) (rename_opt res)
  | SCall f args res => SCall f (map r args) (rename_opt res)
  | SOther t refs => SOther t (map r refs)
  | _ => s
  end.
End Rename.

(* ---- all expression handles used by the statements of a block, Emit ranges excluded
        (markStmtExprRefsForCompact) ---- *)
Fixpoint stmt_uses (s : stmt) : list nat :=
  let fix block_uses (b : list stmt) : list nat :=
    match b with [] => [] | x :: b' => stmt_uses x ++ block_uses b' end in
  match s with
  | SBlock b => block_uses b
  | SIf c a r => c :: block_uses a ++ block_uses r
  | SSwitch sel cases =>
    sel :: (fix cases_uses (cs : list (switch_value * list stmt * bool)) : list nat :=
              match cs with [] => [] | (_, b, _) :: cs' => block_uses b ++ cases_uses cs' end) cases
  | SLoop b c bi => block_uses b ++ block_uses c ++ opt_list bi
  | _ => stmt_refs s
  end.

Fixpoint block_uses (b : list stmt) : list nat :=
  match b with [] => [] | x :: b' => stmt_uses x ++ block_uses b' end.

Fixpoint cases_uses (cs : list (switch_value * list stmt * bool)) : list nat :=
  match cs with [] => [] | (_, b, _) :: cs' => block_uses b ++ cases_uses cs' end.

(* ---- statement rewriting of CompactExpressions (remapStmtExprHandlesCompact):
        handles through [r]; an Emit range [a,b) becomes [rank a, rank b), and is
        dropped when it contains no live handle ---- *)
Section CompactStmt.
Variable u : nat -> bool.
Let r := rank u.

Fixpoint cstmt (s : stmt) : option stmt :=
  let fix cblock (b : list stmt) : list stmt :=
    match b with
    | [] => []
    | x :: b' => match cstmt x with Some x' => x' :: cblock b' | None => cblock b' end
    end in
  match s with
  | SEmit a b => if Nat.ltb (r a) (r b) then Some (SEmit (r a) (r b)) else None
  | SBlock b => Some (SBlock (cblock b))
  | SIf c a rj => Some (SIf (r c) (cblock a) (cblock rj))
  | SSwitch sel cases =>
    Some (SSwitch (r sel)
            ((fix ccases (cs : list (switch_value * list stmt * bool)) :=
                match cs with [] => [] | (v, b, ft) :: cs' => (v, cblock b, ft) :: ccases cs' end) cases))
  | SLoop b c bi => Some (SLoop (cblock b) (cblock c) (rename_opt r bi))
  | _ => Some (rename_simple_stmt r s)
  end.

Fixpoint cblock (b : list stmt) : list stmt :=
  match b with
  | [] => []
  | x :: b' => match cstmt x with Some x' => x' :: cblock b' | None => cblock b' end
  end.

Fixpoint ccases (cs : list (switch_value * list stmt * bool)) : list (switch_value * list stmt * bool) :=
  match cs with [] => [] | (v, b, ft) :: cs' => (v, cblock b, ft) :: ccases cs' end.
End CompactStmt.

(* ---- generic helpers ---- *)
Definition map_funcs (g : func -> func) (m : module) : module :=
  mkmodule (m_types m) (m_constants m) (m_globals m) (m_global_exprs m)
           (map g (m_functions m))
           (map (fun e => mkep (ep_name e) (ep_stage e) (ep_workgroup e) (g (ep_func e))) (m_entry_points m))
           (m_overrides m).

Definition all_funcs (m : module) : list func := m_functions m ++ map ep_func (m_entry_points m).
