(* C13 — test machinery (no theorem depends on it): a module transformation that lets
   the reference interpreter (IR/Sem.v) run modules in which some Load / ArrayLength
   expressions are covered by no Emit statement, as InlineUserFunctions produces them
   (the call-result handle is rewritten in place into a Load of the return slot;
   aliased arguments are copies of the caller's expression).  Such an expression is
   given the meaning "evaluated when used": before every statement, an Emit of each
   uncovered Load/ArrayLength that the statement's operands depend on is inserted. *)
From Coq Require Import List Arith Bool String ZArith.
Import ListNotations.
Require Import Naga.IR.Syntax Naga.Passes.Remap.
Local Open Scope nat_scope.
Local Open Scope list_scope.

Fixpoint stmt_emitted (s : stmt) : list (nat * nat) :=
  let fix go (b : list stmt) : list (nat * nat) :=
    match b with [] => [] | x :: b' => stmt_emitted x ++ go b' end in
  match s with
  | SEmit a b => [(a, b)]
  | SBlock b => go b
  | SIf _ a r => go a ++ go r
  | SSwitch _ cases =>
    (fix goc (cs : list (switch_value * list stmt * bool)) : list (nat * nat) :=
       match cs with [] => [] | (_, b, _) :: cs' => go b ++ goc cs' end) cases
  | SLoop b c _ => go b ++ go c
  | _ => []
  end.
Fixpoint block_emitted (b : list stmt) : list (nat * nat) :=
  match b with [] => [] | x :: b' => stmt_emitted x ++ block_emitted b' end.

Definition covered_set (n : nat) (ranges : list (nat * nat)) : uset :=
  fold_left (fun u r => marks u (seq (fst r) (snd r - fst r))) ranges (repeat false n).

Section Fn.
Variable es : list expr.
Variable lazy : uset.       (* uncovered Load / ArrayLength handles *)

(* lazy handles among the transitive operands of h (and h itself) *)
Fixpoint deps (fuel : nat) (h : nat) (acc : uset) : uset :=
  match fuel with
  | O => acc
  | S fu =>
    let acc := if uget lazy h then mark acc h else acc in
    match nth_error es h with
    | Some e => fold_left (fun a x => deps fu x a) (expr_refs e) acc
    | None => acc
    end
  end.

Definition emits_for (hs : list nat) : list stmt :=
  let n := List.length es in
  let acc := fold_left (fun a h => deps (S n) h a) hs (repeat false n) in
  flat_map (fun h => if uget acc h then [SEmit h (S h)] else []) (seq 0 n).

Definition range_refs (a b : nat) : list nat :=
  flat_map (fun h => match nth_error es h with Some e => expr_refs e | None => [] end) (seq a (b - a)).

Fixpoint lstmt (s : stmt) : list stmt :=
  let fix go (b : list stmt) : list stmt :=
    match b with [] => [] | x :: b' => lstmt x ++ go b' end in
  match s with
  | SEmit a b => emits_for (range_refs a b) ++ [s]
  | SBlock b => [SBlock (go b)]
  | SIf c a r => emits_for [c] ++ [SIf c (go a) (go r)]
  | SSwitch sel cases =>
    emits_for [sel] ++
    [SSwitch sel ((fix goc (cs : list (switch_value * list stmt * bool)) :=
                     match cs with [] => [] | (v, b, ft) :: cs' => (v, go b, ft) :: goc cs' end) cases)]
  | SLoop b c bi => [SLoop (go b) (go c ++ emits_for (opt_list bi)) bi]
  | _ => emits_for (stmt_refs s) ++ [s]
  end.
Fixpoint lblock (b : list stmt) : list stmt :=
  match b with [] => [] | x :: b' => lstmt x ++ lblock b' end.
End Fn.

Definition lenient_func (f : func) : func :=
  let n := List.length (f_exprs f) in
  let cov := covered_set n (block_emitted (f_body f)) in
  let lazy := map (fun p => match snd p with
                            | ELoad _ | EArrayLength _ => negb (uget cov (fst p))
                            | _ => false
                            end) (combine (seq 0 n) (f_exprs f)) in
  if forallb negb lazy then f else
  mkfunc (f_name f) (f_args f) (f_result f) (f_locals f) (f_exprs f) (f_expr_types f)
         (lblock (f_exprs f) lazy (f_body f)) (f_named f).

(* ---- ExprAlias (mem2reg): "the value of the source expression" (ir/expression.go: the DXIL
        emitter resolves it to the source's value id).  Every use of an alias handle is
        redirected to the source; the alias entry itself becomes an inert literal. ---- *)
Definition alias_source (e : expr) : option nat :=
  match e with
  | EOther t (s :: nil) => if String.eqb t "ExprAlias" then Some s else None
  | _ => None
  end.

Fixpoint resolve_alias (fuel : nat) (es : list expr) (h : nat) : nat :=
  match fuel with
  | O => h
  | S fu => match nth_error es h with
            | Some e => match alias_source e with Some s => resolve_alias fu es s | None => h end
            | None => h
            end
  end.

Fixpoint rstmt (r : nat -> nat) (s : stmt) : stmt :=
  let fix go (b : list stmt) : list stmt :=
    match b with [] => [] | x :: b' => rstmt r x :: go b' end in
  match s with
  | SEmit _ _ => s
  | SBlock b => SBlock (go b)
  | SIf c a rj => SIf (r c) (go a) (go rj)
  | SSwitch sel cases =>
    SSwitch (r sel) ((fix goc (cs : list (switch_value * list stmt * bool)) :=
                        match cs with [] => [] | (v, b, ft) :: cs' => (v, go b, ft) :: goc cs' end) cases)
  | SLoop b c bi => SLoop (go b) (go c) (option_map r bi)
  | _ => rename_simple_stmt r s
  end.

Definition dealias_func (f : func) : func :=
  if forallb (fun e => match alias_source e with Some _ => false | None => true end) (f_exprs f) then f else
  let es := f_exprs f in
  let r := resolve_alias (S (List.length es)) es in
  mkfunc (f_name f) (f_args f) (f_result f)
         (map (fun l => mklocal (lv_name l) (lv_type l) (option_map r (lv_init l))) (f_locals f))
         (map (fun e => match alias_source e with Some _ => ELiteral (LBool false) | None => rename_expr r e end) es)
         (f_expr_types f) (map (rstmt r) (f_body f)) (f_named f).

(* ---- ExprPhi at if / switch merge points (mem2reg phase B): converted back to a slot.
        Incoming values are stored into a fresh local at the end of the corresponding branch;
        the phi becomes a Load of that local, evaluated by the Emit that follows the construct.
        Loop-header phis are left alone (mem2reg does not produce them; if one appears the
        interpreter stops with "not modelled"). PredKey numbers: ir/expression.go PhiPredKey. ---- *)
Record phi_in := mkphi { pi_key : nat; pi_case : nat; pi_value : nat }.
Definition phi_table := list (nat * list phi_in).

Section DePhi.
Variable ph : phi_table.
Variable slot : nat -> nat.     (* phi handle -> handle of the ELocalVariable expression of its slot *)

Definition find_phi (h : nat) : list phi_in :=
  match find (fun p => Nat.eqb (fst p) h) ph with Some p => snd p | None => [] end.

Fixpoint leading_emits (b : list stmt) : list nat :=
  match b with
  | SEmit a c :: b' => seq a (c - a) ++ leading_emits b'
  | _ => []
  end.

Definition stores_for (sel : phi_in -> bool) (hs : list nat) : list stmt :=
  flat_map (fun h => flat_map (fun i => if sel i then [SStore (slot h) (pi_value i)] else []) (find_phi h)) hs.

Definition key_is (k : nat) (i : phi_in) : bool := Nat.eqb (pi_key i) k.
Definition case_is (c : nat) (i : phi_in) : bool := (Nat.eqb (pi_key i) 4 && Nat.eqb (pi_case i) c)%bool.

(* a case body also reaches the merge point of its switch through a `break` (directly in the body, in an if or in a
   block; a break inside a nested loop or switch leaves that one): the incoming value of the case is stored there too *)
Fixpoint before_breaks (st : list stmt) (s : stmt) : list stmt :=
  let fix go (b : list stmt) : list stmt :=
    match b with [] => [] | x :: b' => before_breaks st x ++ go b' end in
  match s with
  | SBreak => st ++ [SBreak]
  | SIf c a r => [SIf c (go a) (go r)]
  | SBlock b => [SBlock (go b)]
  | _ => [s]
  end.
Definition before_breaks_block (st : list stmt) (b : list stmt) : list stmt := flat_map (before_breaks st) b.

Fixpoint dstmt (after : list nat) (s : stmt) : list stmt :=
  let fix go (b : list stmt) : list stmt :=
    match b with [] => [] | x :: b' => dstmt (leading_emits b') x ++ go b' end in
  match s with
  | SIf c a r => [SIf c (go a ++ stores_for (key_is 0) after) (go r ++ stores_for (key_is 1) after)]
  | SSwitch sel cases =>
    stores_for (key_is 5) after ++
    [SSwitch sel ((fix goc (idx : nat) (cs : list (switch_value * list stmt * bool)) :=
                     match cs with
                     | [] => []
                     | (v, b, ft) :: cs' =>
                       let st := stores_for (case_is idx) after in
                       (v, before_breaks_block st (go b) ++ st, ft) :: goc (S idx) cs'
                     end) 0 cases)]
  | SLoop b c bi => [SLoop (go b) (go c) bi]
  | SBlock b => [SBlock (go b)]
  | _ => [s]
  end.
Fixpoint dblock (b : list stmt) : list stmt :=
  match b with [] => [] | x :: b' => dstmt (leading_emits b') x ++ dblock b' end.
End DePhi.

Fixpoint index_in (h : nat) (l : list nat) (i : nat) : nat :=
  match l with [] => 0 | x :: l' => if Nat.eqb x h then i else index_in h l' (S i) end.

Definition zeroable (t : ty) : bool :=
  match ty_inner t with
  | TScalar s => match skind s with Sint | Uint | Float => Z.eqb (swidth s) 4 | SBool => true | _ => false end
  | _ => false
  end.
Fixpoint first_zeroable (ts : list ty) (i : nat) : nat :=
  match ts with [] => 0 | t :: ts' => if zeroable t then i else first_zeroable ts' (S i) end.

Definition dephi_func (types : list ty) (ph : phi_table) (f : func) : func :=
  let mergeable := filter (fun p => forallb (fun i => negb (Nat.eqb (pi_key i) 2 || Nat.eqb (pi_key i) 3)) (snd p)) ph in
  match mergeable with
  | [] => f
  | _ =>
    let hs := map fst mergeable in
    let n := List.length (f_exprs f) in
    let nl := List.length (f_locals f) in
    let slot := fun h => n + index_in h hs 0 in
    let t0 := first_zeroable types 0 in
    mkfunc (f_name f) (f_args f) (f_result f)
           (f_locals f ++ map (fun _ => mklocal "_phi" t0 None) hs)
           (map (fun p => if existsb (Nat.eqb (fst p)) hs then ELoad (slot (fst p)) else snd p) (combine (seq 0 n) (f_exprs f))
            ++ map (fun h => ELocalVariable (nl + index_in h hs 0)) hs)
           (f_expr_types f) (dblock mergeable slot (f_body f)) (f_named f)
  end.

(* phis: one table per function, in the order functions ++ entry points *)
Definition dephi (phis : list phi_table) (m : module) : module :=
  let nf := List.length (m_functions m) in
  let tab := fun i => nth i phis [] in
  mkmodule (m_types m) (m_constants m) (m_globals m) (m_global_exprs m)
           (map (fun p => dephi_func (m_types m) (tab (fst p)) (snd p)) (combine (seq 0 nf) (m_functions m)))
           (map (fun p => let e := snd p in
                          mkep (ep_name e) (ep_stage e) (ep_workgroup e) (dephi_func (m_types m) (tab (nf + fst p)) (ep_func e)))
                (combine (seq 0 (List.length (m_entry_points m))) (m_entry_points m)))
           (m_overrides m).

Definition lenient (phis : list phi_table) (m : module) : module :=
  map_funcs (fun f => lenient_func (dealias_func f)) (dephi phis m).

Definition count_lazy (m : module) : nat :=
  List.length (filter (fun f => negb (block_size (f_body (lenient_func f)) =? block_size (f_body f))) (all_funcs m)).
