(* C13 — Gallina model of ir.InlineUserFunctions(module, nil) (ir/inline.go), definitions only.
   Policy nil = every call to an in-range function is inlined.  The model follows the Go code
   step by step, because the tie (tool inlinemodel, lib/c13inline.py) compares the model's
   output with the Go output structurally (Passes/Show.v).

   Shape of the pass (inline.go:45-82):
     order <- topologicalCallOrder(module)            error on a call cycle
     for fh in order:  inlineCallsInFunction(Functions[fh])      callees before callers
     for every entry point: inlineCallsInFunction(ep.Function)
   inlineCallsInFunction(f) modifies ONLY f (its body, expression arena, expression types,
   locals, named expressions) and reads, besides f, only Module.Types and the functions
   called by f, which have already been processed.  Hence every topological order yields the
   same module.  Go's order depends on map iteration (collectCalleeHandles returns the keys of
   a map), so the model does not reproduce it: it processes, round after round, every function
   all of whose callees are done; if some function is never ready the call graph has a cycle.

   Where the model returns an error ([inline_r] = IErr, [inline_user_functions] = None):
     IECycle      Go returns "function call cycle involving ..."      (any cycle in Functions[], reachable or not)
     IEArity      Go returns "callee ... expects n arguments but call provides m"
     IETypeRange  Go returns "argument i has out-of-range type handle"
     IEArgIndex   Go returns "callee references argument k but call provides only n"
     IEArgHandle  an ALIASED call argument names a handle outside the caller's arena as it is
                  when the callee's slots are reserved: Go either panics (index out of range)
                  or copies the Kind of a reserved slot that is not filled yet (a nil Kind, not
                  representable in IR/Syntax.v).  Never happens on modules whose statement
                  operands are in range.
   Divergences on ill-formed input only: handles are unbounded nat (Go: uint32 wrap-around of
   `Variable + localOffset`). *)
From Coq Require Import List Arith Bool String ZArith.
Import ListNotations.
Require Import Naga.IR.Syntax Naga.Passes.Remap Naga.Passes.Compact.
Local Open Scope string_scope.
Local Open Scope list_scope.
Local Open Scope nat_scope.

Inductive inl_err := IECycle | IEArity | IETypeRange | IEArgIndex | IEArgHandle.
Inductive ires (A : Type) := IOk (a : A) | IErr (e : inl_err).
Arguments IOk {A} a.
Arguments IErr {A} e.

Definition ibind {A B} (r : ires A) (f : A -> ires B) : ires B :=
  match r with IOk a => f a | IErr e => IErr e end.

Fixpoint imap {A B} (f : A -> ires B) (l : list A) : ires (list B) :=
  match l with
  | [] => IOk []
  | x :: l' => ibind (f x) (fun y => ibind (imap f l') (fun ys => IOk (y :: ys)))
  end.

(* ---- small helpers ---- *)
Fixpoint replace_nth {A} (l : list A) (n : nat) (x : A) : list A :=
  match l, n with
  | [], _ => []
  | _ :: l', O => x :: l'
  | y :: l', S n' => y :: replace_nth l' n' x
  end.

Definition with_body (f : func) (b : list stmt) : func :=
  mkfunc (f_name f) (f_args f) (f_result f) (f_locals f) (f_exprs f) (f_expr_types f) b (f_named f).
Definition with_locals (f : func) (ls : list local_var) : func :=
  mkfunc (f_name f) (f_args f) (f_result f) ls (f_exprs f) (f_expr_types f) (f_body f) (f_named f).
Definition with_exprs (f : func) (es : list expr) (ts : list type_resolution) : func :=
  mkfunc (f_name f) (f_args f) (f_result f) (f_locals f) es ts (f_body f) (f_named f).
Definition with_named (f : func) (nm : list (nat * string)) : func :=
  mkfunc (f_name f) (f_args f) (f_result f) (f_locals f) (f_exprs f) (f_expr_types f) (f_body f) nm.

(* caller.LocalVars = append(caller.LocalVars, l) *)
Definition push_local (c : func) (l : local_var) : func := with_locals c (f_locals c ++ [l]).
(* caller.Expressions = append(.., e); caller.ExpressionTypes = append(.., t)   (always in lockstep in inline.go) *)
Definition push_expr (c : func) (e : expr) (t : type_resolution) : func :=
  with_exprs c (f_exprs c ++ [e]) (f_expr_types c ++ [t]).

(* ====================================================================== *)
(* shouldAliasArgType (inline.go:838-848)                                   *)
Definition should_alias_arg_type (t : type_inner) : bool :=
  match t with
  | TPointer _ _ => true
  | TBindingArray _ _ => true
  | TVector _ _ | TMatrix _ _ _ | TArray _ _ _ | TStruct _ _ => true
  | TOther tag => String.eqb tag "ImageType" || String.eqb tag "SamplerType"
  | TScalar _ | TValuePointer _ _ _ | TAtomic _ => false     (* AccelerationStructureType, RayQueryType: TOther, false *)
  end.

(* ====================================================================== *)
(* handle maps: calleeExprMap[i] = base + i for i < n (one contiguous block);
   mapH / rm: identity outside the map                                      *)
Definition shift (base n h : nat) : nat := if Nat.ltb h n then base + h else h.

(* remapInlineStatementHandles / remapInlineBlockHandles (inline.go:586-693).
   Kinds it knows: Emit, Block, If, Loop, Switch, Return, Store, ImageStore, Atomic, Call.
   NOT rewritten (Go's default case returns the statement unchanged): StmtImageAtomic,
   StmtWorkGroupUniformLoad, StmtRayQuery, StmtSubgroup*, and the Compare operand of an
   AtomicExchange inside StmtAtomic.Fun. *)
Section RemapInline.
Variables base n : nat.
Let sh := shift base n.

Definition remap_emit (a b : nat) : stmt :=
  if Nat.leb b a then SEmit (sh a) (sh a)                        (* start >= end: empty range *)
  else SEmit (sh a) (if Nat.ltb (b - 1) n then base + (b - 1) + 1 else b).

Fixpoint rstmt (s : stmt) : stmt :=
  let fix rblock (b : list stmt) : list stmt :=
    match b with [] => [] | x :: b' => rstmt x :: rblock b' end in
  match s with
  | SEmit a b => remap_emit a b
  | SBlock b => SBlock (rblock b)
  | SIf c a r => SIf (sh c) (rblock a) (rblock r)
  | SLoop b c bi => SLoop (rblock b) (rblock c) (option_map sh bi)
  | SSwitch sel cases =>
    SSwitch (sh sel)
            ((fix rcases (cs : list (switch_value * list stmt * bool)) :=
                match cs with [] => [] | (v, b, ft) :: cs' => (v, rblock b, ft) :: rcases cs' end) cases)
  | SReturn v => SReturn (option_map sh v)
  | SStore p v => SStore (sh p) (sh v)
  | SAtomic p f c v r => SAtomic (sh p) f c (sh v) (option_map sh r)      (* Compare stays *)
  | SCall f args r => SCall f (map sh args) (option_map sh r)
  | SOther t refs => if String.eqb t "StmtImageStore" then SOther t (map sh refs) else s
  | SBreak | SContinue | SKill | SBarrier _ => s
  end.

Fixpoint rblock (b : list stmt) : list stmt :=
  match b with [] => [] | x :: b' => rstmt x :: rblock b' end.
End RemapInline.

(* ====================================================================== *)
(* blockContainsReturn / blockHasEarlyReturn (inline.go:695-755)            *)
Fixpoint stmt_contains_return (s : stmt) : bool :=
  let fix block_contains (b : list stmt) : bool :=
    match b with [] => false | x :: b' => stmt_contains_return x || block_contains b' end in
  match s with
  | SReturn _ => true
  | SIf _ a r => block_contains a || block_contains r
  | SSwitch _ cases =>
    (fix cases_contain (cs : list (switch_value * list stmt * bool)) : bool :=
       match cs with [] => false | (_, b, _) :: cs' => block_contains b || cases_contain cs' end) cases
  | SLoop b c _ => block_contains b || block_contains c
  | SBlock b => block_contains b
  | _ => false
  end.
Fixpoint block_contains_return (b : list stmt) : bool :=
  match b with [] => false | x :: b' => stmt_contains_return x || block_contains_return b' end.

(* a return at the top level of the block (or of a nested StmtBlock) is not "early" *)
Fixpoint stmt_has_early_return (s : stmt) : bool :=
  let fix block_early (b : list stmt) : bool :=
    match b with [] => false | x :: b' => stmt_has_early_return x || block_early b' end in
  match s with
  | SIf _ a r => block_contains_return a || block_contains_return r
  | SSwitch _ cases => existsb (fun c => block_contains_return (snd (fst c))) cases
  | SLoop b c _ => block_contains_return b || block_contains_return c
  | SBlock b => block_early b
  | _ => false
  end.
Fixpoint block_has_early_return (b : list stmt) : bool :=
  match b with [] => false | x :: b' => stmt_has_early_return x || block_has_early_return b' end.

(* ====================================================================== *)
(* rewriteReturnsForInline (inline.go:757-823).
   [slot] = Some p: the callee has a result and p is what getSlotPtr returns;
   a return without value, or any return of a callee without result, is dropped
   (replaced by Break when the body is wrapped in a loop). *)
Section RewriteReturns.
Variable slot : option nat.
Variable wrap : bool.

Definition rewrite_return (v : option nat) : list stmt :=
  match slot, v with
  | Some p, Some x => SStore p x :: (if wrap then [SBreak] else [])
  | _, _ => if wrap then [SBreak] else []
  end.

Fixpoint rw_stmt (s : stmt) : list stmt :=
  let fix rw_block (b : list stmt) : list stmt :=
    match b with [] => [] | x :: b' => rw_stmt x ++ rw_block b' end in
  match s with
  | SReturn v => rewrite_return v
  | SBlock b => [SBlock (rw_block b)]
  | SIf c a r => [SIf c (rw_block a) (rw_block r)]
  | SLoop b c bi => [SLoop (rw_block b) (rw_block c) bi]
  | SSwitch sel cases =>
    [SSwitch sel ((fix rw_cases (cs : list (switch_value * list stmt * bool)) :=
                     match cs with [] => [] | (v, b, ft) :: cs' => (v, rw_block b, ft) :: rw_cases cs' end) cases)]
  | _ => [s]
  end.
Fixpoint rw_block (b : list stmt) : list stmt :=
  match b with [] => [] | x :: b' => rw_stmt x ++ rw_block b' end.
End RewriteReturns.

(* getSlotPtr: the FIRST ExprLocalVariable{slot} of the whole caller arena; the zero handle if there is none *)
Fixpoint find_local_expr (es : list expr) (slot i : nat) : option nat :=
  match es with
  | [] => None
  | ELocalVariable v :: es' => if Nat.eqb v slot then Some i else find_local_expr es' slot (S i)
  | _ :: es' => find_local_expr es' slot (S i)
  end.
Definition get_slot_ptr (es : list expr) (slot : nat) : nat :=
  match find_local_expr es slot 0 with Some i => i | None => 0 end.

(* ====================================================================== *)
(* inlineOneCall (inline.go:274-584)                                        *)

(* one call argument: handle in the caller, type of the callee's parameter, aliased?, spill slot *)
Record call_arg := mkcarg { ca_handle : nat; ca_type : nat; ca_alias : bool }.

(* step 2, first loop: classification; error on an out-of-range parameter type *)
Fixpoint classify_args (types : list ty) (args : list nat) (params : list fn_arg) : ires (list call_arg) :=
  match args, params with
  | a :: args', p :: params' =>
    match nth_error types (fa_type p) with
    | None => IErr IETypeRange
    | Some t => ibind (classify_args types args' params')
                      (fun l => IOk (mkcarg a (fa_type p) (should_alias_arg_type (ty_inner t)) :: l))
    end
  | _, _ => IOk []
  end.

(* step 2, second loop: per spilled argument a local "_inline_arg_<callee>", an ExprLocalVariable
   (FIRST batch of slot pointers) and the prefix store; returns the slot of every argument *)
Fixpoint spill_args (cname : string) (c : func) (args : list call_arg) : func * list stmt * list (option nat) :=
  match args with
  | [] => (c, [], [])
  | a :: rest =>
    if ca_alias a then
      let '(c', st, sl) := spill_args cname c rest in (c', st, None :: sl)
    else
      let slot := List.length (f_locals c) in
      let c1 := push_local c (mklocal ("_inline_arg_" ++ cname)%string (ca_type a) None) in
      let ptr := List.length (f_exprs c1) in
      let c2 := push_expr c1 (ELocalVariable slot) (RValue (TPointer (ca_type a) SpFunction)) in
      let '(c', st, sl) := spill_args cname c2 rest in
      (c', SStore ptr (ca_handle a) :: st, Some slot :: sl)
  end.

(* step 3: argLoadExprs; per spilled argument a SECOND ExprLocalVariable and the ExprLoad of it *)
Fixpoint arg_loads (c : func) (args : list call_arg) (slots : list (option nat)) : func * list nat :=
  match args, slots with
  | a :: rest, Some slot :: slots' =>
    let ptr := List.length (f_exprs c) in
    let c1 := push_expr c (ELocalVariable slot) (RValue (TPointer (ca_type a) SpFunction)) in
    let ld := List.length (f_exprs c1) in
    let c2 := push_expr c1 (ELoad ptr) (RHandle (ca_type a)) in
    let '(c', l) := arg_loads c2 rest slots' in (c', ld :: l)
  | a :: rest, None :: slots' =>
    let '(c', l) := arg_loads c rest slots' in (c', ca_handle a :: l)
  | _, _ => (c, [])
  end.

(* step 4: expression types of the reserved block: callee.ExpressionTypes[i] if it exists, else the zero TypeResolution *)
Definition pad_types (n : nat) (ts : list type_resolution) : list type_resolution :=
  firstn n ts ++ repeat RNone (n - List.length ts).

(* step 5: the Kind written into slot calleeExprMap[i].  [pre] is the caller's arena before the block was reserved. *)
Definition fill_expr (pre : list expr) (loads : list nat) (loff base n : nat) (e : expr) : ires expr :=
  match e with
  | EFunctionArgument k =>
    match nth_error loads k with
    | None => IErr IEArgIndex
    | Some h => match nth_error pre h with Some e' => IOk e' | None => IErr IEArgHandle end
    end
  | ELocalVariable v => IOk (ELocalVariable (v + loff))
  | _ => IOk (rename_expr (shift base n) e)                     (* remapExprHandles (compact.go) *)
  end.

(* step 6: caller.NamedExpressions[k] = v (a Go map) *)
Definition named_set (nm : list (nat * string)) (k : nat) (v : string) : list (nat * string) :=
  filter (fun p => negb (Nat.eqb (fst p) k)) nm ++ [(k, v)].
Definition copy_named (cname : string) (base n : nat) (callee_named caller_named : list (nat * string)) : list (nat * string) :=
  fold_left (fun nm p => if Nat.ltb (fst p) n then named_set nm (base + fst p) ("_" ++ cname ++ "_" ++ snd p)%string else nm)
            callee_named caller_named.

(* step 8b: one Emit per callee expression that is the argument of a SPILLED parameter, in callee expression order *)
Fixpoint arg_emits (es : list expr) (slots : list (option nat)) (h : nat) : list stmt :=
  match es with
  | [] => []
  | EFunctionArgument k :: es' =>
    match nth_error slots k with
    | Some (Some _) => SEmit h (h + 1) :: arg_emits es' slots (S h)
    | _ => arg_emits es' slots (S h)                             (* index out of range, or aliased *)
    end
  | _ :: es' => arg_emits es' slots (S h)
  end.

(* 4./5. the reserved contiguous block, LocalVar.Init fix-up, 6. named expressions.
   [c3]: the caller after steps 1-3; [loff] = len(caller.LocalVars) before step 1 *)
Definition copy_callee (c3 : func) (loff : nat) (loads : list nat) (callee : func) : ires func :=
  let base := List.length (f_exprs c3) in
  let n := List.length (f_exprs callee) in
  ibind (imap (fill_expr (f_exprs c3) loads loff base n) (f_exprs callee)) (fun filled =>
  let c4 := with_exprs c3 (f_exprs c3 ++ filled) (f_expr_types c3 ++ pad_types n (f_expr_types callee)) in
  (* the callee's locals were copied verbatim in step 1 (they sit at [loff, loff + len)); their Init goes through calleeExprMap *)
  let c5 := with_locals c4
              (firstn loff (f_locals c4)
               ++ map (fun l => mklocal (lv_name l) (lv_type l) (option_map (shift base n) (lv_init l))) (f_locals callee)
               ++ skipn (loff + List.length (f_locals callee)) (f_locals c4)) in
  IOk (with_named c5 (copy_named (f_name callee) base n (f_named callee) (f_named c5)))).

(* 7. return slot: local "_inline_ret_<callee>", its pointer expression and the Load of it.
   -> (caller, Some (slot, handle of the pointer, handle of the load)) *)
Definition add_ret_slot (cname : string) (c6 : func) (r : option fn_result) : func * option (nat * nat * nat) :=
  match r with
  | None => (c6, None)
  | Some r =>
    let slot := List.length (f_locals c6) in
    let a := push_local c6 (mklocal ("_inline_ret_" ++ cname)%string (fr_type r) None) in
    let ptr := List.length (f_exprs a) in
    let b := push_expr a (ELocalVariable slot) (RValue (TPointer (fr_type r) SpFunction)) in
    let ld := List.length (f_exprs b) in
    (push_expr b (ELoad ptr) (RHandle (fr_type r)), Some (slot, ptr, ld))
  end.

(* 8./9. the callee's body in the caller's handle space, returns rewritten, wrapped in a loop if it returns early.
   [arena]: the caller's expressions after step 7 (getSlotPtr searches all of it) *)
Definition inlined_body (base n : nat) (body0 : list stmt) (arena : list expr) (ret : option (nat * nat * nat)) : list stmt :=
  let body := rblock base n body0 in
  let early := block_has_early_return body in
  let slotptr := match ret with Some (slot, _, _) => Some (get_slot_ptr arena slot) | None => None end in
  let body1 := rw_block slotptr early body in
  if early then [SLoop body1 [] None] else body1.

(* 10. the caller's ExprCallResult becomes the Load of the return slot (Kind copied in place) *)
Definition wire_call_result (c7 : func) (res : option nat) (ret : option (nat * nat * nat)) : func :=
  match res, ret with
  | Some cr, Some (_, ptr, _) =>
    if Nat.ltb cr (List.length (f_exprs c7)) then with_exprs c7 (replace_nth (f_exprs c7) cr (ELoad ptr)) (f_expr_types c7) else c7
  | _, _ => c7
  end.

Definition inline_one_call (types : list ty) (caller : func) (args : list nat) (res : option nat) (callee : func)
  : ires (list stmt * func) :=
  let cname := f_name callee in
  if negb (Nat.eqb (List.length args) (List.length (f_args callee))) then IErr IEArity else
  let loff := List.length (f_locals caller) in
  ibind (classify_args types args (f_args callee)) (fun cargs =>
  (* 1. callee locals appended; the spill locals come AFTER them *)
  let c1 := with_locals caller (f_locals caller ++ f_locals callee) in
  let sp := spill_args cname c1 cargs in                             (* 2. *)
  let al := arg_loads (fst (fst sp)) cargs (snd sp) in               (* 3. *)
  let base := List.length (f_exprs (fst al)) in
  let n := List.length (f_exprs callee) in
  ibind (copy_callee (fst al) loff (snd al) callee) (fun c6 =>       (* 4.-6. *)
  let rs := add_ret_slot cname c6 (f_result callee) in               (* 7. *)
  IOk (snd (fst sp)                                                  (* prefix stores *)
       ++ arg_emits (f_exprs callee) (snd sp) base                   (* 8b. *)
       ++ inlined_body base n (f_body callee) (f_exprs (fst rs)) (snd rs),
       wire_call_result (fst rs) res (snd rs)))).

(* ====================================================================== *)
(* inlineBlock (inline.go:171-258) and inlineCallsInFunction.
   Go keeps the original statement when nothing changed below it and rebuilds it otherwise
   (Switch: Value, Body and FallThrough of every case are copied); both are the same value. *)
Section InlineBlock.
Variable types : list ty.
Variable funcs : list func.       (* Module.Functions; the callees of the function at hand are final *)

Fixpoint istmt (s : stmt) (c : func) {struct s} : ires (list stmt * func) :=
  let fix iblock (b : list stmt) (c : func) {struct b} : ires (list stmt * func) :=
    match b with
    | [] => IOk ([], c)
    | x :: b' => ibind (istmt x c) (fun r1 => ibind (iblock b' (snd r1)) (fun r2 => IOk (fst r1 ++ fst r2, snd r2)))
    end in
  match s with
  | SCall f args res =>
    match nth_error funcs f with
    | None => IOk ([s], c)                                       (* int(sk.Function) >= len(module.Functions) *)
    | Some callee => inline_one_call types c args res callee
    end
  | SBlock b => ibind (iblock b c) (fun r => IOk ([SBlock (fst r)], snd r))
  | SIf cond a rj =>
    ibind (iblock a c) (fun ra => ibind (iblock rj (snd ra)) (fun rr => IOk ([SIf cond (fst ra) (fst rr)], snd rr)))
  | SLoop b ct bi =>
    ibind (iblock b c) (fun rb => ibind (iblock ct (snd rb)) (fun rc => IOk ([SLoop (fst rb) (fst rc) bi], snd rc)))
  | SSwitch sel cases =>
    ibind ((fix icases (cs : list (switch_value * list stmt * bool)) (c : func) {struct cs}
              : ires (list (switch_value * list stmt * bool) * func) :=
              match cs with
              | [] => IOk ([], c)
              | (v, b, ft) :: cs' =>
                ibind (iblock b c) (fun rb => ibind (icases cs' (snd rb)) (fun rc => IOk ((v, fst rb, ft) :: fst rc, snd rc)))
              end) cases c)
          (fun r => IOk ([SSwitch sel (fst r)], snd r))
  | _ => IOk ([s], c)
  end.

Fixpoint iblock (b : list stmt) (c : func) : ires (list stmt * func) :=
  match b with
  | [] => IOk ([], c)
  | x :: b' => ibind (istmt x c) (fun r1 => ibind (iblock b' (snd r1)) (fun r2 => IOk (fst r1 ++ fst r2, snd r2)))
  end.

Definition inline_calls_in_function (caller : func) : ires func :=
  ibind (iblock (f_body caller) caller) (fun r => IOk (with_body (snd r) (fst r))).
End InlineBlock.

(* ====================================================================== *)
(* InlineUserFunctions (inline.go:45-118)                                   *)

(* all callees of f (out-of-range handles are skipped by `visit`) are processed *)
Definition ready (done : list bool) (f : func) : bool :=
  forallb (fun h => Nat.leb (List.length done) h || nth h done false) (block_calls (f_body f)).

(* one sweep over Functions[i..]: process every function that is not done and ready *)
Fixpoint sweep (types : list ty) (k i : nat) (fs : list func) (done : list bool) : ires (list func * list bool) :=
  match k with
  | O => IOk (fs, done)
  | S k' =>
    match nth_error fs i with
    | None => IOk (fs, done)
    | Some f =>
      if nth i done false then sweep types k' (S i) fs done
      else if ready done f then
        ibind (inline_calls_in_function types fs f)
              (fun f' => sweep types k' (S i) (replace_nth fs i f') (replace_nth done i true))
      else sweep types k' (S i) fs done
    end
  end.

Fixpoint sweeps (types : list ty) (fuel : nat) (fs : list func) (done : list bool) : ires (list func) :=
  if forallb (fun b => b) done then IOk fs else
  match fuel with
  | O => IErr IECycle              (* some function never became ready: it is on, or calls into, a cycle *)
  | S fuel' =>
    ibind (sweep types (List.length fs) 0 fs done) (fun r => sweeps types fuel' (fst r) (snd r))
  end.

Definition inline_r (m : module) : ires module :=
  let n := List.length (m_functions m) in
  ibind (sweeps (m_types m) n (m_functions m) (repeat false n)) (fun fs =>
  ibind (imap (fun e => ibind (inline_calls_in_function (m_types m) fs (ep_func e))
                              (fun f' => IOk (mkep (ep_name e) (ep_stage e) (ep_workgroup e) f')))
              (m_entry_points m)) (fun eps =>
  IOk (mkmodule (m_types m) (m_constants m) (m_globals m) (m_global_exprs m) fs eps (m_overrides m)))).

Definition inline_user_functions (m : module) : option module :=
  match inline_r m with IOk m' => Some m' | IErr _ => None end.

(* ====================================================================== *)
(* Evidence: how many call sites the pass expands, and how many of them fall in the
   "simple" class: the callee (as it is when it is inlined, i.e. after its own calls
   have been expanded) has no locals and a straight-line body of Emit/Store with at
   most one Return, which is the last statement.
   Every StmtCall to an in-range function that occurs in the ORIGINAL body of a
   function or entry point is expanded exactly once (into that function). *)
Fixpoint straight_line (b : list stmt) : bool :=
  match b with
  | [] => true
  | [SReturn _] => true
  | SEmit _ _ :: b' => straight_line b'
  | SStore _ _ :: b' => straight_line b'
  | _ => false
  end.
Definition simple_callee (f : func) : bool :=
  straight_line (f_body f) && Nat.eqb (List.length (f_locals f)) 0.

Definition inline_simple_class (m : module) : option (nat * nat) :=      (* (call sites, simple call sites) *)
  match inline_r m with
  | IErr _ => None
  | IOk m' =>
    let sites := flat_map (fun f => filter (fun h => Nat.ltb h (List.length (m_functions m))) (block_calls (f_body f))) (all_funcs m) in
    Some (List.length sites,
          List.length (filter (fun h => match nth_error (m_functions m') h with Some f => simple_callee f | None => false end) sites))
  end.
