(* C13 — canonical JSON rendering of a decoded IR module (every field of IR/Syntax.v),
   used to compare modules structurally outside Coq.  Named expressions are sorted by
   handle (Go keeps them in a map). *)
From Coq Require Import List ZArith String Bool Arith.
Import ListNotations.
Require Import Naga.Base.Json Naga.IR.Syntax.
Open Scope string_scope.
Open Scope list_scope.

Definition jn (n : nat) : json := JNum (Z.of_nat n).
Definition jo {A} (f : A -> json) (o : option A) : json := match o with Some x => f x | None => JNull end.
Definition jl {A} (f : A -> json) (l : list A) : json := JArr (map f l).
Definition jc (tag : string) (args : list json) : json := JArr (JStr tag :: args).

Definition show_kind (k : scalar_kind) : json :=
  JStr (match k with Sint => "sint" | Uint => "uint" | Float => "float" | SBool => "bool"
                | AbstractInt => "aint" | AbstractFloat => "afloat" end).
Definition show_scalar (s : scalar) : json := JArr [show_kind (skind s); JNum (swidth s)].
Definition show_space (s : addr_space) : json :=
  JStr (match s with SpFunction => "function" | SpPrivate => "private" | SpWorkGroup => "workgroup" | SpUniform => "uniform"
                | SpStorage => "storage" | SpPushConstant => "push" | SpHandle => "handle" | SpImmediate => "immediate"
                | SpTaskPayload => "task" end).
Definition show_binding (b : binding) : json :=
  match b with
  | BBuiltin n i => jc "builtin" [JStr n; JBool i]
  | BLocation l i bs => jc "location" [JNum l; jo (fun x => JArr [JNum (ikind x); JNum (isampling x)]) i; jo JNum bs]
  end.
Definition show_member (m : struct_member) : json :=
  JArr [JStr (m_name m); jn (m_type m); jo show_binding (m_binding m); JNum (m_offset m)].
Definition show_inner (t : type_inner) : json :=
  match t with
  | TScalar s => jc "scalar" [show_scalar s]
  | TVector n s => jc "vector" [JNum n; show_scalar s]
  | TMatrix c r s => jc "matrix" [JNum c; JNum r; show_scalar s]
  | TArray b sz st => jc "array" [jn b; jo JNum sz; JNum st]
  | TStruct ms sp => jc "struct" [jl show_member ms; JNum sp]
  | TPointer b s => jc "pointer" [jn b; show_space s]
  | TValuePointer sz s sp => jc "valueptr" [jo JNum sz; show_scalar s; show_space sp]
  | TAtomic s => jc "atomic" [show_scalar s]
  | TBindingArray b sz => jc "bindingarray" [jn b; jo JNum sz]
  | TOther t => jc "other" [JStr t]
  end.
Definition show_ty (t : ty) : json := JArr [JStr (ty_name t); show_inner (ty_inner t)].
Definition show_resolution (r : type_resolution) : json :=
  match r with RHandle h => jc "h" [jn h] | RValue t => jc "v" [show_inner t] | RNone => JNull end.
Definition show_literal (l : literal) : json :=
  match l with
  | LF64 b => jc "f64" [JNum b] | LF32 b => jc "f32" [JNum b] | LF16 b => jc "f16" [JNum b]
  | LU32 b => jc "u32" [JNum b] | LI32 b => jc "i32" [JNum b] | LU64 b => jc "u64" [JNum b] | LI64 b => jc "i64" [JNum b]
  | LBool b => jc "bool" [JBool b] | LAbstractInt v => jc "aint" [JNum v] | LAbstractFloat b => jc "afloat" [JNum b]
  end.
Definition show_unop (o : unop) : json := JStr (match o with UNegate => "neg" | ULogicalNot => "not" | UBitwiseNot => "bnot" end).
Definition show_binop (o : binop) : json :=
  JStr (match o with
        | BAdd => "add" | BSub => "sub" | BMul => "mul" | BDiv => "div" | BMod => "mod"
        | BEq => "eq" | BNe => "ne" | BLt => "lt" | BLe => "le" | BGt => "gt" | BGe => "ge"
        | BAnd => "and" | BXor => "xor" | BOr => "or" | BLogicalAnd => "land" | BLogicalOr => "lor" | BShl => "shl" | BShr => "shr" end).
Definition show_relfun (f : relfun) : json :=
  JStr (match f with RAll => "all" | RAny => "any" | RIsNan => "isnan" | RIsInf => "isinf" end).
Definition show_expr (e : expr) : json :=
  match e with
  | ELiteral l => jc "lit" [show_literal l]
  | EConstant c => jc "const" [jn c]
  | EOverride o => jc "override" [jn o]
  | EZeroValue t => jc "zero" [jn t]
  | ECompose t cs => jc "compose" [jn t; jl jn cs]
  | EAccess b i => jc "access" [jn b; jn i]
  | EAccessIndex b i => jc "accessindex" [jn b; JNum i]
  | ESplat n v => jc "splat" [JNum n; jn v]
  | ESwizzle n v p => jc "swizzle" [JNum n; jn v; jl JNum p]
  | EFunctionArgument i => jc "arg" [jn i]
  | EGlobalVariable g => jc "global" [jn g]
  | ELocalVariable l => jc "local" [jn l]
  | ELoad p => jc "load" [jn p]
  | EUnary o x => jc "unary" [show_unop o; jn x]
  | EBinary o a b => jc "binary" [show_binop o; jn a; jn b]
  | ESelect c a b => jc "select" [jn c; jn a; jn b]
  | ERelational f a => jc "relational" [show_relfun f; jn a]
  | EMath f args => jc "math" [JStr f; jl jn args]
  | EAs x k c => jc "as" [jn x; show_kind k; jo JNum c]
  | ECallResult f => jc "callresult" [jn f]
  | EArrayLength a => jc "arraylength" [jn a]
  | EAtomicResult t c => jc "atomicresult" [jn t; JBool c]
  | EOther t refs => jc "other" [JStr t; jl jn refs]
  end.
Definition show_sv (v : switch_value) : json :=
  match v with SVI32 b => jc "i32" [JNum b] | SVU32 b => jc "u32" [JNum b] | SVDefault => JStr "default" end.

Fixpoint show_stmt (s : stmt) : json :=
  let fix show_block (b : list stmt) : list json :=
    match b with [] => [] | x :: b' => show_stmt x :: show_block b' end in
  match s with
  | SEmit a b => jc "emit" [jn a; jn b]
  | SBlock b => jc "block" [JArr (show_block b)]
  | SIf c a r => jc "if" [jn c; JArr (show_block a); JArr (show_block r)]
  | SSwitch sel cases =>
    jc "switch" [jn sel;
                 JArr ((fix go (cs : list (switch_value * list stmt * bool)) : list json :=
                          match cs with [] => [] | (v, b, ft) :: cs' => JArr [show_sv v; JArr (show_block b); JBool ft] :: go cs' end) cases)]
  | SLoop b c bi => jc "loop" [JArr (show_block b); JArr (show_block c); jo jn bi]
  | SBreak => JStr "break"
  | SContinue => JStr "continue"
  | SReturn v => jc "return" [jo jn v]
  | SKill => JStr "kill"
  | SBarrier f => jc "barrier" [JNum f]
  | SStore p v => jc "store" [jn p; jn v]
  | SAtomic p f c v r => jc "atomic" [jn p; JStr f; jo jn c; jn v; jo jn r]
  | SCall f args r => jc "call" [jn f; jl jn args; jo jn r]
  | SOther t refs => jc "other" [JStr t; jl jn refs]
  end.
Definition show_body (b : list stmt) : json := JArr (map show_stmt b).

Fixpoint insert_named (p : nat * string) (l : list (nat * string)) : list (nat * string) :=
  match l with
  | [] => [p]
  | q :: l' => if Nat.leb (fst p) (fst q) then p :: l else q :: insert_named p l'
  end.
Definition sort_named (l : list (nat * string)) : list (nat * string) := fold_right insert_named [] l.

Definition show_func (f : func) : json :=
  JObj [("name", JStr (f_name f));
        ("args", jl (fun a => JArr [JStr (fa_name a); jn (fa_type a); jo show_binding (fa_binding a)]) (f_args f));
        ("result", jo (fun r => JArr [jn (fr_type r); jo show_binding (fr_binding r)]) (f_result f));
        ("locals", jl (fun l => JArr [JStr (lv_name l); jn (lv_type l); jo jn (lv_init l)]) (f_locals f));
        ("exprs", jl show_expr (f_exprs f));
        ("expr_types", jl show_resolution (f_expr_types f));
        ("body", show_body (f_body f));
        ("named", jl (fun p => JArr [jn (fst p); JStr (snd p)]) (sort_named (f_named f)))].

Definition show_const_value (v : const_value) : json :=
  match v with
  | CVScalar b k => jc "scalar" [JNum b; show_kind k] | CVComposite cs => jc "composite" [jl jn cs]
  | CVZero => JStr "zero" | CVNone => JNull
  end.
Definition show_stage (s : stage) : json :=
  JStr (match s with StVertex => "vertex" | StFragment => "fragment" | StCompute => "compute" | StOther n => n end).

Definition show_module (m : module) : json :=
  JObj [("types", jl show_ty (m_types m));
        ("constants", jl (fun c => JArr [JStr (c_name c); jn (c_type c); show_const_value (c_value c); jn (c_init c); JBool (c_abstract c)]) (m_constants m));
        ("globals", jl (fun g => JArr [JStr (g_name g); show_space (g_space g); jo (fun b => JArr [JNum (fst b); JNum (snd b)]) (g_binding g);
                                       jn (g_type g); jo jn (g_init g); jo jn (g_init_expr g); JNum (g_access g)]) (m_globals m));
        ("global_exprs", jl show_expr (m_global_exprs m));
        ("functions", jl show_func (m_functions m));
        ("entry_points", jl (fun e => JArr [JStr (ep_name e); show_stage (ep_stage e); jl JNum (ep_workgroup e); show_func (ep_func e)]) (m_entry_points m));
        ("overrides", jl (fun o => JArr [JStr (o_name o); jo JNum (o_id o); jn (o_type o); jo jn (o_init o)]) (m_overrides m))].
