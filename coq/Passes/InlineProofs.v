(* C13 — facts about the model of ir.InlineUserFunctions (Passes/Inline.v), for all modules:
     inline_no_calls     after the pass no StmtCall to a function of the module remains in any
                         function body or entry-point body (no hypothesis on the input module);
     inline_frame        types, constants, globals, global expressions, overrides are unchanged and
                         the numbers of functions and entry points are preserved;
     inline_breaks_fwd_free   the pass does NOT preserve module_wf (CompactExprProofs.v): the caller's
                         ExprCallResult is rewritten in place into a Load of a LATER handle (witness by vm_compute).
   The semantic soundness of the pass is not attempted here. *)
From Coq Require Import List Arith Bool String Lia ZArith.
Import ListNotations.
Require Import Naga.IR.Syntax.
Require Import Naga.Passes.Remap Naga.Passes.Compact Naga.Passes.CompactExprProofs Naga.Passes.CompactUnusedProofs.
Require Import Naga.Passes.Inline.
Local Open Scope nat_scope.
Local Open Scope list_scope.

(* ====================================================================== *)
(* lists                                                                    *)
Lemma replace_nth_length {A} (l : list A) i x : List.length (replace_nth l i x) = List.length l.
Proof. revert i. induction l as [|y l IH]; intros [|i]; cbn [replace_nth List.length]; auto. Qed.

Lemma nth_error_replace_nth {A} (l : list A) i j x :
  nth_error (replace_nth l i x) j =
  if Nat.eqb i j then (if Nat.ltb i (List.length l) then Some x else None) else nth_error l j.
Proof.
  revert i j. induction l as [|y l IH]; intros i j.
  - destruct i, j; cbn; try reflexivity. destruct (Nat.eqb i j); reflexivity.
  - destruct i as [|i], j as [|j]; cbn [replace_nth nth_error Nat.eqb]; try reflexivity.
    rewrite IH. cbn [List.length]. change (S i <? S (List.length l)) with (i <? List.length l). reflexivity.
Qed.

Lemma nth_replace_nth_bool (l : list bool) i j :
  nth j (replace_nth l i true) false = true -> j = i \/ nth j l false = true.
Proof.
  revert i j. induction l as [|y l IH]; intros i j H.
  - destruct i, j; cbn in H; discriminate.
  - destruct i as [|i], j as [|j]; cbn [replace_nth nth] in *; auto.
    destruct (IH _ _ H); auto.
Qed.

Lemma block_calls_app a b : block_calls (a ++ b) = block_calls a ++ block_calls b.
Proof. induction a as [|x a IH]; cbn [app block_calls]; [reflexivity|]. rewrite IH, app_assoc. reflexivity. Qed.

(* ====================================================================== *)
(* top-level names for the nested fixpoints, and their equations            *)
Section RCases.
Variables base n : nat.
Fixpoint rcases (cs : list (switch_value * list stmt * bool)) :=
  match cs with [] => [] | (v, b, ft) :: cs' => (v, rblock base n b, ft) :: rcases cs' end.
End RCases.
Lemma rstmt_block base n b : rstmt base n (SBlock b) = SBlock (rblock base n b).
Proof. reflexivity. Qed.
Lemma rstmt_if base n c a r : rstmt base n (SIf c a r) = SIf (shift base n c) (rblock base n a) (rblock base n r).
Proof. reflexivity. Qed.
Lemma rstmt_loop base n b c bi : rstmt base n (SLoop b c bi) = SLoop (rblock base n b) (rblock base n c) (option_map (shift base n) bi).
Proof. reflexivity. Qed.
Lemma rstmt_switch base n sel cs : rstmt base n (SSwitch sel cs) = SSwitch (shift base n sel) (rcases base n cs).
Proof. reflexivity. Qed.

Section RwCases.
Variable slot : option nat.
Variable wrap : bool.
Fixpoint rw_cases (cs : list (switch_value * list stmt * bool)) :=
  match cs with [] => [] | (v, b, ft) :: cs' => (v, rw_block slot wrap b, ft) :: rw_cases cs' end.
End RwCases.
Lemma rw_stmt_block sl w b : rw_stmt sl w (SBlock b) = [SBlock (rw_block sl w b)].
Proof. reflexivity. Qed.
Lemma rw_stmt_if sl w c a r : rw_stmt sl w (SIf c a r) = [SIf c (rw_block sl w a) (rw_block sl w r)].
Proof. reflexivity. Qed.
Lemma rw_stmt_loop sl w b c bi : rw_stmt sl w (SLoop b c bi) = [SLoop (rw_block sl w b) (rw_block sl w c) bi].
Proof. reflexivity. Qed.
Lemma rw_stmt_switch sl w sel cs : rw_stmt sl w (SSwitch sel cs) = [SSwitch sel (rw_cases sl w cs)].
Proof. reflexivity. Qed.

Section ICases.
Variable types : list ty.
Variable funcs : list func.
Fixpoint icases (cs : list (switch_value * list stmt * bool)) (c : func)
  : ires (list (switch_value * list stmt * bool) * func) :=
  match cs with
  | [] => IOk ([], c)
  | (v, b, ft) :: cs' =>
    ibind (iblock types funcs b c) (fun rb => ibind (icases cs' (snd rb)) (fun rc => IOk ((v, fst rb, ft) :: fst rc, snd rc)))
  end.
Lemma istmt_block b c : istmt types funcs (SBlock b) c = ibind (iblock types funcs b c) (fun r => IOk ([SBlock (fst r)], snd r)).
Proof. reflexivity. Qed.
Lemma istmt_if cond a rj c :
  istmt types funcs (SIf cond a rj) c =
  ibind (iblock types funcs a c) (fun ra => ibind (iblock types funcs rj (snd ra)) (fun rr => IOk ([SIf cond (fst ra) (fst rr)], snd rr))).
Proof. reflexivity. Qed.
Lemma istmt_loop b ct bi c :
  istmt types funcs (SLoop b ct bi) c =
  ibind (iblock types funcs b c) (fun rb => ibind (iblock types funcs ct (snd rb)) (fun rc => IOk ([SLoop (fst rb) (fst rc) bi], snd rc))).
Proof. reflexivity. Qed.
Lemma istmt_switch sel cs c :
  istmt types funcs (SSwitch sel cs) c = ibind (icases cs c) (fun r => IOk ([SSwitch sel (fst r)], snd r)).
Proof. reflexivity. Qed.
End ICases.

(* ====================================================================== *)
(* the rewritings of the callee body keep its calls                         *)
Lemma rblock_calls base n b : block_calls (rblock base n b) = block_calls b.
Proof.
  apply (block_ind3 (fun s => stmt_calls (rstmt base n s) = stmt_calls s)
                    (fun b => block_calls (rblock base n b) = block_calls b)
                    (fun cs => cases_calls (rcases base n cs) = cases_calls cs)).
  - intros s Hs. destruct s; try discriminate Hs; try reflexivity.
    + cbn [rstmt]. unfold remap_emit. destruct (Nat.leb _ _); reflexivity.
    + cbn [rstmt]. destruct (String.eqb _ _); reflexivity.
  - intros b0 H. rewrite rstmt_block, !stmt_calls_block. exact H.
  - intros c a r Ha Hr. rewrite rstmt_if, !stmt_calls_if, Ha, Hr. reflexivity.
  - intros sel cs H. rewrite rstmt_switch, !stmt_calls_switch. exact H.
  - intros b0 c bi Hb Hc. rewrite rstmt_loop, !stmt_calls_loop, Hb, Hc. reflexivity.
  - reflexivity.
  - intros s b0 Hs Hb. cbn [rblock block_calls]. rewrite Hs, Hb. reflexivity.
  - reflexivity.
  - intros v b0 ft cs Hb Hc. cbn [rcases cases_calls]. rewrite Hb, Hc. reflexivity.
Qed.

Lemma rw_block_calls sl w b : block_calls (rw_block sl w b) = block_calls b.
Proof.
  apply (block_ind3 (fun s => block_calls (rw_stmt sl w s) = stmt_calls s)
                    (fun b => block_calls (rw_block sl w b) = block_calls b)
                    (fun cs => cases_calls (rw_cases sl w cs) = cases_calls cs)).
  - intros s Hs. destruct s; try discriminate Hs; try (cbn; rewrite ?app_nil_r; reflexivity).
    cbn [rw_stmt]. unfold rewrite_return. destruct sl, value, w; reflexivity.
  - intros b0 H. rewrite rw_stmt_block. cbn [block_calls]. rewrite !stmt_calls_block, H, app_nil_r. reflexivity.
  - intros c a r Ha Hr. rewrite rw_stmt_if. cbn [block_calls]. rewrite !stmt_calls_if, Ha, Hr, app_nil_r. reflexivity.
  - intros sel cs H. rewrite rw_stmt_switch. cbn [block_calls]. rewrite !stmt_calls_switch, H, app_nil_r. reflexivity.
  - intros b0 c bi Hb Hc. rewrite rw_stmt_loop. cbn [block_calls]. rewrite !stmt_calls_loop, Hb, Hc, app_nil_r. reflexivity.
  - reflexivity.
  - intros s b0 Hs Hb. cbn [rw_block]. rewrite block_calls_app, Hs, Hb. reflexivity.
  - reflexivity.
  - intros v b0 ft cs Hb Hc. cbn [rw_cases cases_calls]. rewrite Hb, Hc. reflexivity.
Qed.

Lemma spill_args_calls cname c args : block_calls (snd (fst (spill_args cname c args))) = [].
Proof.
  revert c. induction args as [|a rest IH]; intro c; cbn [spill_args]; [reflexivity|].
  destruct (ca_alias a).
  - specialize (IH c). destruct (spill_args cname c rest) as [[c' st] sl]. exact IH.
  - match goal with |- context [spill_args cname ?c2 rest] => specialize (IH c2); destruct (spill_args cname c2 rest) as [[c' st] sl] end.
    cbn [fst snd] in *. cbn [block_calls stmt_calls]. exact IH.
Qed.

Lemma arg_emits_calls es slots h : block_calls (arg_emits es slots h) = [].
Proof.
  revert h. induction es as [|e es IH]; intro h; cbn [arg_emits]; [reflexivity|].
  destruct e; try apply IH. destruct (nth_error slots index) as [[s|]|]; apply IH.
Qed.

Lemma inlined_body_calls base n body0 arena ret : block_calls (inlined_body base n body0 arena ret) = block_calls body0.
Proof.
  unfold inlined_body. destruct (block_has_early_return _).
  - cbn [block_calls]. rewrite stmt_calls_loop. cbn [block_calls]. rewrite !app_nil_r, rw_block_calls, rblock_calls. reflexivity.
  - rewrite rw_block_calls, rblock_calls. reflexivity.
Qed.

(* the statements that replace a call contain exactly the calls of the callee's body *)
Lemma inline_one_call_calls types c args res callee ss c' :
  inline_one_call types c args res callee = IOk (ss, c') ->
  block_calls ss = block_calls (f_body callee).
Proof.
  unfold inline_one_call. intro H.
  destruct (negb _); [discriminate|].
  destruct (classify_args _ _ _) as [cargs|]; [|discriminate]. unfold ibind at 1 in H.
  destruct (copy_callee _ _ _ _) as [c6|]; [|discriminate]. unfold ibind in H.
  inversion H; subst ss. rewrite !block_calls_app, spill_args_calls, arg_emits_calls, inlined_body_calls. reflexivity.
Qed.

(* ====================================================================== *)
(* inlineBlock: every remaining call is out of range, provided the callees have none in range *)
Definition no_calls_below (N : nat) (b : list stmt) : Prop := forall h, In h (block_calls b) -> N <= h.

Section IBlockCalls.
Variable types : list ty.
Variable funcs : list func.
Let N := List.length funcs.

Definition callees_clean (calls : list nat) : Prop :=
  forall h callee, In h calls -> nth_error funcs h = Some callee -> no_calls_below N (f_body callee).

Lemma iblock_no_calls b :
  forall c ss c', iblock types funcs b c = IOk (ss, c') -> callees_clean (block_calls b) -> no_calls_below N ss.
Proof.
  apply (block_ind3
           (fun s => forall c ss c', istmt types funcs s c = IOk (ss, c') -> callees_clean (stmt_calls s) -> no_calls_below N ss)
           (fun b => forall c ss c', iblock types funcs b c = IOk (ss, c') -> callees_clean (block_calls b) -> no_calls_below N ss)
           (fun cs => forall c cs' c', icases types funcs cs c = IOk (cs', c') -> callees_clean (cases_calls cs) ->
                                       forall h, In h (cases_calls cs') -> N <= h)).
  - (* leaves *)
    intros s Hs c ss c' H Hc.
    destruct s; try discriminate Hs;
      try (cbn [istmt] in H; inversion H; subst; intros h Hh; cbn in Hh; contradiction).
    cbn [istmt] in H. destruct (nth_error funcs f) as [callee|] eqn:En.
    + apply inline_one_call_calls in H. intros h Hh. rewrite H in Hh.
      apply (Hc f callee); [cbn; auto|exact En|exact Hh].
    + inversion H; subst. intros h Hh. cbn in Hh. destruct Hh as [<-|[]].
      apply nth_error_None in En. exact En.
  - intros b0 IH c ss c' H Hc. rewrite istmt_block in H.
    destruct (iblock types funcs b0 c) as [[ss0 c0]|] eqn:E; [|discriminate]. cbn [ibind fst snd] in H.
    inversion H; subst. intros h Hh. cbn [block_calls] in Hh. rewrite stmt_calls_block, app_nil_r in Hh.
    eapply IH; eauto.
  - intros cond a r IHa IHr c ss c' H Hc. rewrite istmt_if in H.
    destruct (iblock types funcs a c) as [[sa ca]|] eqn:Ea; [|discriminate]. cbn [ibind fst snd] in H.
    destruct (iblock types funcs r ca) as [[sr cr]|] eqn:Er; [|discriminate]. cbn [ibind fst snd] in H.
    inversion H; subst. intros h Hh. cbn [block_calls] in Hh. rewrite stmt_calls_if, app_nil_r in Hh.
    rewrite stmt_calls_if in Hc.
    apply in_app_or in Hh. destruct Hh as [Hh|Hh].
    + eapply IHa; eauto. intros x y Hx. apply Hc, in_or_app; auto.
    + eapply IHr; eauto. intros x y Hx. apply Hc, in_or_app; auto.
  - intros sel cs IH c ss c' H Hc. rewrite istmt_switch in H.
    destruct (icases types funcs cs c) as [[cs0 c0]|] eqn:E; [|discriminate]. cbn [ibind fst snd] in H.
    inversion H; subst. intros h Hh. cbn [block_calls] in Hh. rewrite stmt_calls_switch, app_nil_r in Hh.
    rewrite stmt_calls_switch in Hc. eapply IH; eauto.
  - intros b0 ct bi IHb IHc c ss c' H Hc. rewrite istmt_loop in H.
    destruct (iblock types funcs b0 c) as [[sb cb]|] eqn:Eb; [|discriminate]. cbn [ibind fst snd] in H.
    destruct (iblock types funcs ct cb) as [[sc cc]|] eqn:Ec; [|discriminate]. cbn [ibind fst snd] in H.
    inversion H; subst. intros h Hh. cbn [block_calls] in Hh. rewrite stmt_calls_loop, app_nil_r in Hh.
    rewrite stmt_calls_loop in Hc.
    apply in_app_or in Hh. destruct Hh as [Hh|Hh].
    + eapply IHb; eauto. intros x y Hx. apply Hc, in_or_app; auto.
    + eapply IHc; eauto. intros x y Hx. apply Hc, in_or_app; auto.
  - intros c ss c' H _. cbn [iblock] in H. inversion H; subst. intros h [].
  - intros s b0 IHs IHb c ss c' H Hc. cbn [iblock] in H.
    destruct (istmt types funcs s c) as [[s1 c1]|] eqn:Es; [|discriminate]. cbn [ibind fst snd] in H.
    destruct (iblock types funcs b0 c1) as [[s2 c2]|] eqn:Eb; [|discriminate]. cbn [ibind fst snd] in H.
    inversion H; subst. intros h Hh. rewrite block_calls_app in Hh. cbn [block_calls] in Hc.
    apply in_app_or in Hh. destruct Hh as [Hh|Hh].
    + eapply IHs; eauto. intros x y Hx. apply Hc, in_or_app; auto.
    + eapply IHb; eauto. intros x y Hx. apply Hc, in_or_app; auto.
  - intros c cs' c' H _. cbn [icases] in H. inversion H; subst. intros h [].
  - intros v b0 ft cs IHb IHc c cs' c' H Hc. cbn [icases] in H.
    destruct (iblock types funcs b0 c) as [[s1 c1]|] eqn:Eb; [|discriminate]. cbn [ibind fst snd] in H.
    destruct (icases types funcs cs c1) as [[s2 c2]|] eqn:Ec; [|discriminate]. cbn [ibind fst snd] in H.
    inversion H; subst. intros h Hh. cbn [cases_calls] in Hh, Hc.
    apply in_app_or in Hh. destruct Hh as [Hh|Hh].
    + eapply IHb; eauto. intros x y Hx. apply Hc, in_or_app; auto.
    + eapply IHc; eauto. intros x y Hx. apply Hc, in_or_app; auto.
Qed.

Lemma inline_calls_in_function_no_calls f f' :
  inline_calls_in_function types funcs f = IOk f' -> callees_clean (block_calls (f_body f)) -> no_calls_below N (f_body f').
Proof.
  unfold inline_calls_in_function. intros H Hc.
  destruct (iblock types funcs (f_body f) f) as [[ss c]|] eqn:E; [|discriminate]. cbn [ibind fst snd] in H.
  inversion H; subst. cbn [with_body f_body]. eapply iblock_no_calls; eauto.
Qed.
End IBlockCalls.

(* ====================================================================== *)
(* the bottom-up processing                                                 *)
Definition sweep_inv (N : nat) (fs : list func) (done : list bool) : Prop :=
  List.length fs = N /\ List.length done = N /\
  forall i f, nth i done false = true -> nth_error fs i = Some f -> no_calls_below N (f_body f).

Lemma ready_clean N fs done f :
  sweep_inv N fs done -> ready done f = true -> callees_clean fs (block_calls (f_body f)).
Proof.
  intros (Hl & Hd & Hinv) Hr h callee Hh Hn. unfold ready in Hr. rewrite forallb_forall in Hr.
  specialize (Hr h Hh). apply orb_true_iff in Hr. destruct Hr as [Hr|Hr].
  - apply Nat.leb_le in Hr. assert (nth_error fs h = None) by (apply nth_error_None; lia). congruence.
  - rewrite Hl. eapply Hinv; eauto.
Qed.

Lemma sweep_inv_step types N k : forall i fs done fs' done',
  sweep types k i fs done = IOk (fs', done') -> sweep_inv N fs done -> sweep_inv N fs' done'.
Proof.
  induction k as [|k IH]; intros i fs done fs' done' H Hinv; cbn [sweep] in H.
  - inversion H; subst; exact Hinv.
  - destruct (nth_error fs i) as [f|] eqn:En; [|inversion H; subst; exact Hinv].
    destruct (nth i done false) eqn:Ed; [eapply IH; eauto|].
    destruct (ready done f) eqn:Er; [|eapply IH; eauto].
    destruct (inline_calls_in_function types fs f) as [f'|] eqn:Ef; [|discriminate]. cbn [ibind] in H.
    eapply IH; [exact H|].
    pose proof (ready_clean N fs done f Hinv Er) as Hc.
    destruct Hinv as (Hl & Hd & Hinv).
    pose proof (inline_calls_in_function_no_calls types fs f f' Ef Hc) as Hf'. rewrite Hl in Hf'.
    split; [rewrite replace_nth_length; exact Hl|]. split; [rewrite replace_nth_length; exact Hd|].
    intros j g Hj Hg. rewrite nth_error_replace_nth in Hg.
    destruct (Nat.eqb i j) eqn:Eij.
    + destruct (Nat.ltb i (List.length fs)); [|discriminate]. inversion Hg; subst. exact Hf'.
    + apply nth_replace_nth_bool in Hj. destruct Hj as [->|Hj]; [rewrite Nat.eqb_refl in Eij; discriminate|].
      eapply Hinv; eauto.
Qed.

Lemma sweeps_clean types N fuel : forall fs done fs',
  sweeps types fuel fs done = IOk fs' -> sweep_inv N fs done ->
  List.length fs' = N /\ forall f, In f fs' -> no_calls_below N (f_body f).
Proof.
  induction fuel as [|fuel IH]; intros fs done fs' H Hinv; cbn [sweeps] in H.
  - destruct (forallb (fun b => b) done) eqn:Ea; [|discriminate]. inversion H; subst.
    destruct Hinv as (Hl & Hd & Hinv). split; [exact Hl|].
    intros f Hf. apply In_nth_error in Hf. destruct Hf as [i Hi].
    eapply Hinv; eauto. rewrite forallb_forall in Ea. apply Ea. apply nth_In.
    rewrite Hd, <- Hl. apply nth_error_Some. congruence.
  - destruct (forallb (fun b => b) done) eqn:Ea.
    + inversion H; subst. destruct Hinv as (Hl & Hd & Hinv). split; [exact Hl|].
      intros f Hf. apply In_nth_error in Hf. destruct Hf as [i Hi].
      eapply Hinv; eauto. rewrite forallb_forall in Ea. apply Ea. apply nth_In.
      rewrite Hd, <- Hl. apply nth_error_Some. congruence.
    + destruct (sweep types (List.length fs) 0 fs done) as [[fs1 done1]|] eqn:Es; [|discriminate]. cbn [ibind fst snd] in H.
      eapply IH; [exact H|]. eapply sweep_inv_step; eauto.
Qed.

Lemma imap_length {A B} (f : A -> ires B) l l' : imap f l = IOk l' -> List.length l' = List.length l.
Proof.
  revert l'. induction l as [|x l IH]; intros l' H; cbn [imap] in H.
  - inversion H; reflexivity.
  - destruct (f x); [|discriminate]. cbn [ibind] in H. destruct (imap f l); [|discriminate]. cbn [ibind] in H.
    inversion H; subst. cbn [List.length]. rewrite (IH _ eq_refl). reflexivity.
Qed.

Lemma imap_in {A B} (f : A -> ires B) l l' y : imap f l = IOk l' -> In y l' -> exists x, In x l /\ f x = IOk y.
Proof.
  revert l'. induction l as [|x l IH]; intros l' H Hy; cbn [imap] in H.
  - inversion H; subst. destruct Hy.
  - destruct (f x) as [y0|] eqn:Ef; [|discriminate]. cbn [ibind] in H. destruct (imap f l) as [ys|]; [|discriminate]. cbn [ibind] in H.
    inversion H; subst. destruct Hy as [<-|Hy].
    + exists x. split; [left; reflexivity|exact Ef].
    + destruct (IH _ eq_refl Hy) as (x' & Hx' & Hf). exists x'. split; [right; exact Hx'|exact Hf].
Qed.

(* ====================================================================== *)
(* Theorems                                                                 *)

(* what the pass does not touch *)
Theorem inline_frame m m' :
  inline_user_functions m = Some m' ->
  m_types m' = m_types m /\ m_constants m' = m_constants m /\ m_globals m' = m_globals m
  /\ m_global_exprs m' = m_global_exprs m /\ m_overrides m' = m_overrides m
  /\ List.length (m_functions m') = List.length (m_functions m)
  /\ List.length (m_entry_points m') = List.length (m_entry_points m).
Proof.
  unfold inline_user_functions, inline_r. intro H.
  destruct (sweeps _ _ _ _) as [fs|] eqn:Es; [|discriminate]. cbn [ibind] in H.
  destruct (imap _ _) as [eps|] eqn:Ee; [|discriminate]. cbn [ibind] in H.
  inversion H; subst. cbn. repeat split; try reflexivity.
  - eapply (sweeps_clean _ (List.length (m_functions m))); [exact Es|].
    split; [reflexivity|]. split; [apply repeat_length|].
    intros i f Hi. exfalso. clear -Hi.
    assert (Hf : forall n i, nth i (repeat false n) false = false).
    { induction n; intros [|j]; cbn; auto. }
    rewrite Hf in Hi. discriminate.
  - eapply imap_length; eauto.
Qed.

(* after the pass no statement calls a function of the module *)
Theorem inline_no_calls m m' :
  inline_user_functions m = Some m' ->
  forall f, In f (all_funcs m') ->
  forall h, In h (block_calls (f_body f)) -> List.length (m_functions m') <= h.
Proof.
  intros H. pose proof (inline_frame m m' H) as (_ & _ & _ & _ & _ & Hlen & _).
  revert H. unfold inline_user_functions, inline_r. intro H.
  destruct (sweeps _ _ _ _) as [fs|] eqn:Es; [|discriminate]. cbn [ibind] in H.
  destruct (imap _ _) as [eps|] eqn:Ee; [|discriminate]. cbn [ibind] in H.
  inversion H; subst. clear H. cbn [m_functions] in Hlen.
  assert (Hfs : List.length fs = List.length (m_functions m) /\ forall f, In f fs -> no_calls_below (List.length (m_functions m)) (f_body f)).
  { eapply sweeps_clean; [exact Es|].
    split; [reflexivity|]. split; [apply repeat_length|].
    intros i f Hi. exfalso. clear -Hi.
    assert (Hf : forall n i, nth i (repeat false n) false = false).
    { induction n; intros [|j]; cbn; auto. }
    rewrite Hf in Hi. discriminate. }
  destruct Hfs as (Hl & Hclean).
  intros f Hf h Hh. unfold all_funcs in Hf. cbn [m_functions m_entry_points] in *.
  apply in_app_or in Hf. destruct Hf as [Hf|Hf].
  - rewrite Hl. apply (Hclean f Hf h Hh).
  - apply in_map_iff in Hf. destruct Hf as (e' & <- & He').
    destruct (imap_in _ _ _ _ Ee He') as (e & He & Hfe).
    destruct (inline_calls_in_function (m_types m) fs (ep_func e)) as [f'|] eqn:Ef; [|discriminate]. cbn [ibind] in Hfe.
    inversion Hfe; subst. cbn [ep_func] in Hh.
    eapply inline_calls_in_function_no_calls in Ef.
    + apply Ef, Hh.
    + intros x callee _ Hn. rewrite Hl. apply Hclean. eapply nth_error_In; eauto.
Qed.

(* consequently the model is idempotent on its own output as far as calls are concerned:
   a second application finds nothing to expand in any body *)

(* module_wf (operands precede their users) is NOT preserved: the ExprCallResult of the caller
   becomes a Load of the return-slot pointer, which is appended after it *)
Definition u32_ty : ty := mkty "" (TScalar (mkscalar Uint 4)).
Definition wf_witness : module :=
  mkmodule [u32_ty] [] [] []
           [mkfunc "g" [] (Some (mkres 0 None)) [] [ELiteral (LU32 7)] [RHandle 0] [SReturn (Some 0)] []]
           [mkep "main" StCompute [1; 1; 1]%Z
                 (mkfunc "main" [] None [] [ECallResult 0] [RHandle 0] [SCall 0 [] (Some 0); SReturn None] [])]
           [].

Theorem inline_breaks_fwd_free :
  exists m m', module_wfb m = true /\ inline_user_functions m = Some m' /\ module_wfb m' = false.
Proof.
  exists wf_witness. eexists. split; [vm_compute; reflexivity|]. split; [vm_compute; reflexivity|]. vm_compute. reflexivity.
Qed.

Print Assumptions inline_no_calls.
Print Assumptions inline_frame.
Print Assumptions inline_breaks_fwd_free.
