(* C13 — CompactConstants (model): a second application changes nothing.

   Let m' = compact_constants m.  A constant of m is kept because it is named (and
   not abstract), or referenced by an [EConstant] of a function / a global's
   initialiser, or a component of a kept composite.  Each of these reasons survives
   the renumbering (names, types and abstract flags are unchanged; references and
   components are rewritten by the same order-preserving table), so the second run
   marks every constant of m' and takes the early exit.

   Two facts about the fixpoint loop [close_consts] are needed:
   * soundness in m ([close_P]): whatever is marked is a root or a component of
     something marked;
   * completeness in m' ([close_closed]): with fuel > number of constants the loop
     reaches a set closed under components (pigeonhole: every round that is not
     yet closed marks at least one more constant).
   No hypothesis on the module is needed. *)
From Coq Require Import List Arith Bool String Lia ZArith.
Import ListNotations.
Require Import Naga.IR.Syntax.
Require Import Naga.Passes.Remap Naga.Passes.RemapProofs Naga.Passes.Compact Naga.Passes.CompactUnusedIdem.
Local Open Scope nat_scope.
Local Open Scope list_scope.

(* ====================================================================== *)
(* Counting marks                                                           *)

Fixpoint cnt (u : uset) : nat :=
  match u with [] => 0 | b :: u' => (if b then 1 else 0) + cnt u' end.

Lemma cnt_le_length u : cnt u <= List.length u.
Proof. induction u as [|b u IH]; cbn [cnt List.length]; [lia|]. destruct b; lia. Qed.

Lemma cnt_set_true_le u : forall h, cnt u <= cnt (set_true u h).
Proof.
  induction u as [|b u IH]; intro h; [destruct h; cbn; lia|].
  destruct h as [|h]; cbn [set_true cnt]; [destruct b; lia|]. specialize (IH h). lia.
Qed.

Lemma set_true_dich u : forall h, set_true u h = u \/ cnt u < cnt (set_true u h).
Proof.
  induction u as [|b u IH]; intro h; [left; destruct h; reflexivity|].
  destruct h as [|h]; cbn [set_true cnt].
  - destruct b; [left; reflexivity|right; lia].
  - destruct (IH h) as [E|L]; [left; rewrite E; reflexivity|right; lia].
Qed.

Lemma cnt_marks_le l : forall u, cnt u <= cnt (marks u l).
Proof.
  unfold marks. induction l as [|a l IH]; intro u; cbn [fold_left]; [lia|].
  specialize (IH (mark u a)). pose proof (cnt_set_true_le u a). unfold mark in *. lia.
Qed.

Lemma marks_dich l : forall u, marks u l = u \/ cnt u < cnt (marks u l).
Proof.
  induction l as [|a l IH]; intro u; [left; reflexivity|].
  change (marks u (a :: l)) with (marks (mark u a) l).
  destruct (set_true_dich u a) as [E|L].
  - unfold mark. rewrite E. apply IH.
  - right. pose proof (cnt_marks_le l (mark u a)). unfold mark in *. lia.
Qed.

Lemma uget_map_true {A} (f : A -> bool) (l : list A) k :
  uget (map f l) k = true <-> exists c, nth_error l k = Some c /\ f c = true.
Proof.
  unfold uget. revert k. induction l as [|a l IH]; intro k.
  - split; [destruct k; discriminate|]. intros (c & H & _). destruct k; discriminate.
  - destruct k as [|k]; cbn [map nth nth_error].
    + split; [intro H; exists a; auto|]. intros (c & H & Hf). inversion H; subst. exact Hf.
    + apply IH.
Qed.

(* ====================================================================== *)
(* One sweep / the fixpoint loop                                            *)

Definition cstep (c : constant) (i : nat) (u : uset) : uset :=
  if uget u i then match c_value c with CVComposite comps => marks u comps | _ => u end else u.

Lemma sweep_cons c cs i u : sweep_consts (c :: cs) i u = sweep_consts cs (S i) (cstep c i u).
Proof. reflexivity. Qed.

Lemma cstep_length c i u : List.length (cstep c i u) = List.length u.
Proof.
  unfold cstep. destruct (uget u i); [|reflexivity]. destruct (c_value c); try reflexivity. apply marks_length.
Qed.

Lemma cstep_mono c i u k : uget u k = true -> uget (cstep c i u) k = true.
Proof.
  intro H. unfold cstep. destruct (uget u i); [|exact H]. destruct (c_value c); try exact H.
  apply uget_marks_mono. exact H.
Qed.

Lemma cstep_cnt c i u : cnt u <= cnt (cstep c i u).
Proof.
  unfold cstep. destruct (uget u i); [|lia]. destruct (c_value c); try lia. apply cnt_marks_le.
Qed.

Lemma sweep_length cs : forall i u, List.length (sweep_consts cs i u) = List.length u.
Proof. induction cs as [|c cs IH]; intros i u; [reflexivity|]. rewrite sweep_cons, IH. apply cstep_length. Qed.

Lemma sweep_mono cs : forall i u k, uget u k = true -> uget (sweep_consts cs i u) k = true.
Proof. induction cs as [|c cs IH]; intros i u k H; [exact H|]. rewrite sweep_cons. apply IH, cstep_mono, H. Qed.

Lemma sweep_cnt cs : forall i u, cnt u <= cnt (sweep_consts cs i u).
Proof.
  induction cs as [|c cs IH]; intros i u; [cbn; lia|]. rewrite sweep_cons.
  specialize (IH (S i) (cstep c i u)). pose proof (cstep_cnt c i u). lia.
Qed.

Lemma close_length cs : forall t u, List.length (close_consts t cs u) = List.length u.
Proof. induction t as [|t IH]; intro u; [reflexivity|]. cbn [close_consts]. rewrite IH. apply sweep_length. Qed.

Lemma close_mono cs : forall t u k, uget u k = true -> uget (close_consts t cs u) k = true.
Proof. induction t as [|t IH]; intros u k H; [exact H|]. cbn [close_consts]. apply IH, sweep_mono, H. Qed.

(* "the components of the marked constant c (at index i) are marked" *)
Definition local_closed (c : constant) (i : nat) (u : uset) : Prop :=
  uget u i = true ->
  forall comps k, c_value c = CVComposite comps -> In k comps -> k < List.length u -> uget u k = true.

Definition closed_at (cs : list constant) (i : nat) (u : uset) : Prop :=
  forall j c, nth_error cs j = Some c -> local_closed c (i + j) u.

Lemma cstep_dich c i u : (cstep c i u = u /\ local_closed c i u) \/ cnt u < cnt (cstep c i u).
Proof.
  unfold cstep, local_closed. destruct (uget u i) eqn:Hu.
  2:{ left. split; [reflexivity|]. intro; discriminate. }
  destruct (c_value c) as [bits k0|comps| |] eqn:Ev;
    try (left; split; [reflexivity|]; intros _ comps' k H; discriminate).
  destruct (marks_dich comps u) as [E|L]; [left|right; exact L].
  split; [exact E|]. intros _ comps' k H Hin Hlt. inversion H; subst comps'.
  assert (H2 : uget (marks u comps) k = true) by (apply uget_marks; right; auto).
  rewrite E in H2. exact H2.
Qed.

Lemma sweep_dich : forall cs i u,
  (sweep_consts cs i u = u /\ closed_at cs i u) \/ cnt u < cnt (sweep_consts cs i u).
Proof.
  induction cs as [|c cs IH]; intros i u.
  - left. split; [reflexivity|]. intros j c H. destruct j; discriminate.
  - rewrite sweep_cons. destruct (cstep_dich c i u) as [(E & Hc)|L].
    + rewrite E. destruct (IH (S i) u) as [(E2 & Hc2)|L2]; [left|right; exact L2].
      split; [exact E2|]. intros j c0 Hn. destruct j as [|j]; cbn [nth_error] in Hn.
      * inversion Hn; subst. rewrite Nat.add_0_r. exact Hc.
      * replace (i + S j) with (S i + j) by lia. apply Hc2. exact Hn.
    + right. pose proof (sweep_cnt cs (S i) (cstep c i u)). lia.
Qed.

Lemma close_fix cs u : sweep_consts cs 0 u = u -> forall t, close_consts t cs u = u.
Proof. intros E t. induction t as [|t IH]; cbn [close_consts]; [reflexivity|]. rewrite E. exact IH. Qed.

Lemma close_dich cs : forall t u,
  closed_at cs 0 (close_consts t cs u) \/ cnt u + t <= cnt (close_consts t cs u).
Proof.
  induction t as [|t IH]; intro u; [right; cbn [close_consts]; lia|].
  cbn [close_consts]. destruct (sweep_dich cs 0 u) as [(E & Hc)|L].
  - left. rewrite E, (close_fix cs u E). exact Hc.
  - destruct (IH (sweep_consts cs 0 u)) as [H|H]; [left; exact H|right; lia].
Qed.

(* completeness: more rounds than entries -> closed under components *)
Lemma close_closed cs t u : List.length u < t -> closed_at cs 0 (close_consts t cs u).
Proof.
  intro Ht. destruct (close_dich cs t u) as [H|H]; [exact H|].
  pose proof (cnt_le_length (close_consts t cs u)) as H2. rewrite close_length in H2. lia.
Qed.

(* soundness: an induction principle for what the loop marks *)
Section ClosureInd.
Variable cs : list constant.
Variable P : nat -> Prop.
Hypothesis Hstep : forall j c comps k,
  P j -> nth_error cs j = Some c -> c_value c = CVComposite comps -> In k comps -> k < List.length cs -> P k.

Lemma sweep_P : forall cs' i u,
  (forall j c, nth_error cs' j = Some c -> nth_error cs (i + j) = Some c) ->
  List.length u = List.length cs -> (forall k, uget u k = true -> P k) ->
  forall k, uget (sweep_consts cs' i u) k = true -> P k.
Proof.
  induction cs' as [|c cs' IH]; intros i u Hsuf Hlen Hu k; [apply Hu|].
  rewrite sweep_cons. apply IH.
  - intros j c0 Hn. replace (S i + j) with (i + S j) by lia. apply Hsuf. exact Hn.
  - rewrite cstep_length. exact Hlen.
  - intros x Hx. unfold cstep in Hx. destruct (uget u i) eqn:Hui; [|apply Hu; exact Hx].
    destruct (c_value c) as [bits k0|comps| |] eqn:Ev; try (apply Hu; exact Hx).
    apply uget_marks in Hx. destruct Hx as [Hx|[Hin Hlt]]; [apply Hu; exact Hx|].
    apply (Hstep i c comps x); auto; [|lia].
    specialize (Hsuf 0 c eq_refl). rewrite Nat.add_0_r in Hsuf. exact Hsuf.
Qed.

Lemma close_P : forall t u,
  List.length u = List.length cs -> (forall k, uget u k = true -> P k) ->
  forall k, uget (close_consts t cs u) k = true -> P k.
Proof.
  induction t as [|t IH]; intros u Hlen Hu k; [apply Hu|]. cbn [close_consts]. apply IH.
  - rewrite sweep_length. exact Hlen.
  - apply sweep_P; auto.
Qed.
End ClosureInd.

(* ====================================================================== *)
(* The module after one run                                                 *)

Definition u0_of (m : module) : uset :=
  map (fun c => const_named c && negb (const_is_abstract (m_types m) c))%bool (m_constants m).
Definition refs_of (m : module) : list nat :=
  flat_map fn_const_refs (all_funcs m) ++ flat_map (fun g => opt_list (g_init g)) (m_globals m).

Lemma kept_eq m :
  kept_constants m = close_consts (S (List.length (m_constants m))) (m_constants m) (marks (u0_of m) (refs_of m)).
Proof. reflexivity. Qed.

Lemma kept_length m : List.length (kept_constants m) = List.length (m_constants m).
Proof. rewrite kept_eq, close_length, marks_length. apply map_length. Qed.

Lemma kept_closed m : closed_at (m_constants m) 0 (kept_constants m).
Proof. rewrite kept_eq. apply close_closed. rewrite marks_length. unfold u0_of. rewrite map_length. lia. Qed.

Definition rbc (m : module) (c : nat) : nat :=
  if Nat.ltb c (List.length (m_constants m)) then remap_s (kept_constants m) c else c.

Definition fix_const (m : module) (c : constant) : constant :=
  mkconst (c_name c) (c_type c)
          (match c_value c with CVComposite comps => CVComposite (map (rbc m) comps) | v => v end)
          (c_init c) (c_abstract c).

Definition fix_global (m : module) (gv : global_var) : global_var :=
  mkglobal (g_name gv) (g_space gv) (g_binding gv) (g_type gv)
           (option_map (rbc m) (g_init gv)) (g_init_expr gv) (g_access gv).

Definition fix_func (m : module) : func -> func :=
  remap_const_func (List.length (m_constants m)) (remap_s (kept_constants m)).

(* what compact_constants builds when it removes something *)
Definition cc_shape (m : module) : module :=
  mkmodule (m_types m)
           (map (fix_const m) (keep (uget (kept_constants m)) (m_constants m)))
           (map (fix_global m) (m_globals m))
           (m_global_exprs m)
           (map (fix_func m) (m_functions m))
           (map (fun e => mkep (ep_name e) (ep_stage e) (ep_workgroup e) (fix_func m (ep_func e))) (m_entry_points m))
           (m_overrides m).

Lemma compact_constants_cases m : compact_constants m = m \/ compact_constants m = cc_shape m.
Proof.
  unfold compact_constants, cc_shape, fix_func, fix_global, fix_const, rbc.
  destruct (m_constants m) eqn:E; [left; reflexivity|].
  destruct (all_true (kept_constants m)); [left; reflexivity|right; reflexivity].
Qed.

Lemma compact_constants_id m : all_true (kept_constants m) = true -> compact_constants m = m.
Proof. intro H. unfold compact_constants. destruct (m_constants m); [reflexivity|]. rewrite H. reflexivity. Qed.

Lemma fn_const_refs_fix m f : fn_const_refs (fix_func m f) = map (rbc m) (fn_const_refs f).
Proof.
  unfold fn_const_refs, fix_func. cbn [remap_const_func f_exprs]. generalize (f_exprs f). intro l.
  induction l as [|e l IH]; cbn [map flat_map]; [reflexivity|].
  rewrite map_app, IH. destruct e; reflexivity.
Qed.

Lemma opt_list_map {A B} (r : A -> B) o : opt_list (option_map r o) = map r (opt_list o).
Proof. destruct o; reflexivity. Qed.

Section ConstIdem.
Variable m : module.
Let cs := m_constants m.
Let n := List.length cs.
Let u := kept_constants m.
Let live := uget u.
Let m' := cc_shape m.
Let cs' := map (fix_const m) (keep live cs).
Let u' := kept_constants m'.

Lemma live_lt k : live k = true -> k < n.
Proof. intro H. apply uget_lt in H. unfold u in H. rewrite kept_length in H. exact H. Qed.

Lemma rbc_live k : live k = true -> rbc m k = rank live k.
Proof.
  intro H. unfold rbc, remap_s. pose proof (live_lt k H) as L.
  replace (Nat.ltb k (List.length (m_constants m))) with true by (symmetry; apply Nat.ltb_lt; exact L).
  fold u. unfold live in H. rewrite H. reflexivity.
Qed.

Lemma cs'_nth k c : live k = true -> nth_error cs k = Some c -> nth_error cs' (rank live k) = Some (fix_const m c).
Proof. intros H Hn. unfold cs'. rewrite nth_error_map, (keep_nth _ _ k c Hn H). reflexivity. Qed.

Lemma cs'_length : List.length cs' = rank live n.
Proof. unfold cs'. rewrite map_length. apply keep_length. Qed.

Lemma rank_lt k : live k = true -> rank live k < List.length cs'.
Proof. intro H. rewrite cs'_length. apply rank_lt_used; [apply live_lt|]; exact H. Qed.

Lemma u'_length : List.length u' = List.length cs'.
Proof. unfold u'. rewrite kept_length. reflexivity. Qed.

Lemma refs'_eq : refs_of m' = map (rbc m) (refs_of m).
Proof.
  unfold refs_of, m', cc_shape, all_funcs. cbn [m_functions m_entry_points m_globals].
  rewrite map_app. f_equal.
  - rewrite map_map. cbn [ep_func]. rewrite <- (map_map ep_func (fix_func m)), <- map_app.
    rewrite flat_map_map_in. rewrite (flat_map_ext _ _ (fn_const_refs_fix m)). apply flat_map_map_out.
  - rewrite flat_map_map_in. cbn [fix_global g_init].
    rewrite (flat_map_ext _ (fun g => map (rbc m) (opt_list (g_init g)))) by (intro; apply opt_list_map).
    apply flat_map_map_out.
Qed.

Lemma u0'_length : List.length (u0_of m') = List.length cs'.
Proof. unfold u0_of. rewrite map_length. reflexivity. Qed.

(* a root of the first run is a root of the second *)
Lemma root_transfer k :
  live k = true -> uget (marks (u0_of m) (refs_of m)) k = true ->
  uget (marks (u0_of m') (refs_of m')) (rank live k) = true.
Proof.
  intros Hl H. apply uget_marks in H. apply uget_marks. destruct H as [H|[Hin _]].
  - left. unfold u0_of in H. apply uget_map_true in H. destruct H as (c & Hn & Hf).
    unfold u0_of. apply uget_map_true. exists (fix_const m c). split.
    + apply cs'_nth; assumption.
    + exact Hf.
  - right. split.
    + rewrite refs'_eq, <- (rbc_live k Hl). apply in_map. exact Hin.
    + rewrite u0'_length. apply rank_lt. exact Hl.
Qed.

Definition transferred (k : nat) : Prop := live k = true /\ uget u' (rank live k) = true.

Lemma transfer_all k : live k = true -> transferred k.
Proof.
  unfold live at 1, u. rewrite kept_eq.
  apply (close_P (m_constants m) transferred).
  - intros j c comps x (Hlj & Htj) Hn Hv Hin Hlt.
    assert (Hlx : live x = true).
    { specialize (kept_closed m j c Hn) as Hcl. cbn [Nat.add] in Hcl.
      apply (Hcl Hlj comps x Hv Hin). rewrite kept_length. exact Hlt. }
    split; [exact Hlx|].
    + specialize (kept_closed m' (rank live j) (fix_const m c) (cs'_nth j c Hlj Hn)) as Hcl'. cbn [Nat.add] in Hcl'.
      apply (Hcl' Htj (map (rbc m) comps) (rank live x)).
      * cbn [fix_const c_value]. rewrite Hv. reflexivity.
      * rewrite <- (rbc_live x Hlx). apply in_map. exact Hin.
      * fold u'. rewrite u'_length. apply rank_lt. exact Hlx.
  - rewrite marks_length. unfold u0_of. apply map_length.
  - intros x Hx.
    assert (Hlx : live x = true).
    { unfold live, u. rewrite kept_eq. apply close_mono. exact Hx. }
    split; [exact Hlx|]. unfold u'. rewrite kept_eq. apply close_mono. apply root_transfer; assumption.
Qed.

Lemma consts_live : all_true (kept_constants (cc_shape m)) = true.
Proof.
  fold m'. fold u'. apply all_true_of_uget. intros j Hj. rewrite u'_length, cs'_length in Hj.
  destruct (rank_surj _ _ _ Hj) as (k & _ & Hu & E). rewrite E. apply transfer_all. exact Hu.
Qed.
End ConstIdem.

Theorem compact_constants_result_all_live m :
  all_true (kept_constants (compact_constants m)) = true \/ compact_constants m = m.
Proof.
  destruct (compact_constants_cases m) as [E|E]; [right; exact E|left]. rewrite E. apply consts_live.
Qed.

Theorem compact_constants_idempotent m : compact_constants (compact_constants m) = compact_constants m.
Proof.
  destruct (compact_constants_result_all_live m) as [H|E].
  - apply compact_constants_id. exact H.
  - rewrite E. exact E.
Qed.

Print Assumptions compact_constants_result_all_live.
Print Assumptions compact_constants_idempotent.

(* ====================================================================== *)
(* Non-vacuity: a module where the pass removes constants and renumbers a   *)
(* two-level composite chain, a function reference and a global initialiser *)
Open Scope string_scope.
Definition cidem_u32 : ty := mkty "" (TScalar (mkscalar Uint 4)).
Definition cidem_v2 : ty := mkty "" (TVector 2%Z (mkscalar Uint 4)).
Definition cidem_sc (nm : string) : constant := mkconst nm 0 (CVScalar 1%Z Uint) 0 false.
Definition cidem_cc (nm : string) (l : list nat) : constant := mkconst nm 1 (CVComposite l) 0 false.
Definition cidem_fn : func := mkfunc "f" [] None [] [EConstant 5; EConstant 0] [] [SReturn None] [].
Definition cidem_module : module :=
  mkmodule [cidem_u32; cidem_v2]
           [cidem_sc ""; cidem_sc ""; cidem_sc ""; cidem_cc "" [1; 1]; cidem_cc "" [3; 3]; cidem_cc "" [4; 4];
            cidem_sc ""; cidem_sc "named"; cidem_sc ""]
           [mkglobal "g" SpPrivate None 0 (Some 8) None 0%Z] []
           [cidem_fn] [] [].

Example cidem_example :
  map c_value (m_constants (compact_constants cidem_module))
  = [CVScalar 1%Z Uint; CVScalar 1%Z Uint; CVComposite [1; 1]; CVComposite [2; 2]; CVComposite [3; 3];
     CVScalar 1%Z Uint; CVScalar 1%Z Uint]
  /\ map f_exprs (m_functions (compact_constants cidem_module)) = [[EConstant 4; EConstant 0]]
  /\ map g_init (m_globals (compact_constants cidem_module)) = [Some 6]
  /\ compact_constants (compact_constants cidem_module) = compact_constants cidem_module.
Proof. vm_compute. repeat split; reflexivity. Qed.
