(* C13 — CompactExpressions (model): the result is well-formed again, and a second
   application changes nothing. *)
From Coq Require Import List Arith Bool String Lia ZArith.
Import ListNotations.
Require Import Naga.IR.Syntax.
Require Import Naga.Passes.Remap Naga.Passes.RemapProofs Naga.Passes.Compact Naga.Passes.RenameSound Naga.Passes.CompactExprProofs.
Local Open Scope nat_scope.
Local Open Scope list_scope.

(* ---- how renaming acts on the operand lists ---- *)
Lemma opt_list_rename r o : opt_list (rename_opt r o) = map r (opt_list o).
Proof. destruct o; reflexivity. Qed.

Lemma compact_refs_rename r e : compact_expr_refs (rename_expr r e) = map r (compact_expr_refs e).
Proof.
  destruct e; cbn [rename_expr compact_expr_refs expr_refs map]; try reflexivity.
  destruct (compact_knows_expr tag) eqn:E; cbn [compact_expr_refs]; rewrite E; reflexivity.
Qed.

(* non-core kinds that ir/compact.go does not know keep their handles as they are:
   such an expression must not carry any for the result to be well-formed *)
Definition expr_known (e : expr) : bool :=
  match e with
  | EOther t refs => compact_knows_expr t || match refs with [] => true | _ => false end
  | _ => true
  end.

Lemma expr_refs_rename r e : expr_known e = true -> expr_refs (rename_expr r e) = map r (expr_refs e).
Proof.
  destruct e; cbn [rename_expr expr_refs map expr_known]; try reflexivity.
  intro H. destruct (compact_knows_expr tag); cbn [expr_refs]; [reflexivity|].
  cbn in H. destruct refs; [reflexivity|discriminate].
Qed.

Lemma stmt_uses_simple r s :
  structured s = false -> (forall a b, s <> SEmit a b) ->
  stmt_uses (rename_simple_stmt r s) = map r (stmt_uses s).
Proof.
  intros Hs Hne. destruct s; try discriminate; cbn [rename_simple_stmt stmt_uses stmt_refs map]; try reflexivity.
  - apply opt_list_rename.
  - rewrite !map_app. cbn [map]. rewrite !opt_list_rename. reflexivity.
  - rewrite map_app, opt_list_rename. reflexivity.
Qed.

Lemma block_uses_cblock u : forall b, block_uses (cblock u b) = map (rank u) (block_uses b).
Proof.
  apply (block_ind3
           (fun s => match cstmt u s with
                     | Some s' => stmt_uses s' = map (rank u) (stmt_uses s)
                     | None => stmt_uses s = []
                     end)
           (fun b => block_uses (cblock u b) = map (rank u) (block_uses b))
           (fun cs => cases_uses (ccases u cs) = map (rank u) (cases_uses cs))).
  - intros s Hs. destruct s; try discriminate; cbn [cstmt]; try (apply stmt_uses_simple; [reflexivity|intros; discriminate]).
    destruct (Nat.ltb (rank u start) (rank u stop)); reflexivity.
  - intros b IH. rewrite cstmt_block, !stmt_uses_block. exact IH.
  - intros c a r IHa IHr. rewrite cstmt_if, !stmt_uses_if. cbn [map]. rewrite map_app, IHa, IHr. reflexivity.
  - intros sel cs IH. rewrite cstmt_switch, !stmt_uses_switch. cbn [map]. rewrite IH. reflexivity.
  - intros b c bi IHb IHc. rewrite cstmt_loop, !stmt_uses_loop. rewrite !map_app, IHb, IHc, opt_list_rename. reflexivity.
  - reflexivity.
  - intros s b IHs IHb. cbn [cblock block_uses]. rewrite map_app. destruct (cstmt u s).
    + cbn [block_uses]. rewrite IHs, IHb. reflexivity.
    + rewrite IHs, IHb. reflexivity.
  - reflexivity.
  - intros v b ft cs IHb IHc. cbn [ccases cases_uses]. rewrite map_app, IHb, IHc. reflexivity.
Qed.

(* ---- the arena after compaction ---- *)
Section After.
Variable f : func.
Hypothesis Hwf : fn_wf f.
Let us := used_exprs f.
Let u := uget us.
Let n := List.length (f_exprs f).
Let f' := compact_function_with us f.

Lemma u_lt k : u k = true -> k < n.
Proof. intro H. apply uget_lt in H. unfold us in H. rewrite used_exprs_length in H. exact H. Qed.

Lemma exprs'_nth j e' :
  nth_error (f_exprs f') j = Some e' ->
  exists k e, nth_error (f_exprs f) k = Some e /\ u k = true /\ j = rank u k /\ e' = rename_expr (rank u) e.
Proof.
  cbn [f' compact_function_with f_exprs]. rewrite nth_error_map. fold u.
  destruct (nth_error (keep u (f_exprs f)) j) as [e|] eqn:E; [|discriminate].
  intro H. inversion H; subst. destruct (keep_nth_inv _ _ _ _ E) as (k & Hk & Hu & Hj). eauto 8.
Qed.

Lemma exprs'_length : List.length (f_exprs f') = rank u n.
Proof. cbn [f' compact_function_with f_exprs]. rewrite map_length. apply keep_length. Qed.

Lemma rank_used_lt k : u k = true -> rank u k < List.length (f_exprs f').
Proof. intro H. rewrite exprs'_length. apply rank_lt_used; [apply u_lt; exact H|exact H]. Qed.

(* operands that compaction knows about precede their users in the new arena *)
Lemma cfwd_free' : refs_below (f_exprs f').
Proof.
  intros j x Hx. destruct (nth_error (f_exprs f') j) as [e'|] eqn:E.
  - rewrite (nth_error_nth _ _ _ E) in Hx.
    destruct (exprs'_nth _ _ E) as (k & e & Hk & Hu & -> & ->).
    rewrite compact_refs_rename in Hx. apply in_map_iff in Hx. destruct Hx as (y & <- & Hy).
    destruct Hwf as (Hf & _).
    apply rank_lt_used.
    + apply (Hf k e y Hk). apply compact_refs_incl. exact Hy.
    + eapply used_closed; eauto.
  - apply nth_error_None in E. rewrite nth_overflow in Hx by exact E. cbn in Hx. contradiction.
Qed.

Lemma roots' x : In x (fn_roots f) -> u x = true -> In (rank u x) (fn_roots f').
Proof.
  intros Hin Hu. unfold fn_roots in *. cbn [f' compact_function_with f_named f_locals f_body].
  apply in_app_or in Hin. destruct Hin as [Hin|Hin]; [|apply in_app_or in Hin; destruct Hin as [Hin|Hin]].
  - apply in_or_app. left. fold u. unfold compact_named.
    apply in_map_iff in Hin. destruct Hin as (p & <- & Hp).
    apply in_map_iff. exists (rank u (fst p), snd p). split; [reflexivity|].
    apply in_map_iff. exists p. split; [reflexivity|]. apply filter_In. split; assumption.
  - apply in_or_app. right. apply in_or_app. left.
    apply in_flat_map in Hin. destruct Hin as (l & Hl & Hx).
    apply in_flat_map. exists (compact_local (rank u) l). split; [apply in_map; exact Hl|].
    cbn [compact_local lv_init]. destruct (lv_init l) as [h|]; cbn in Hx |- *; [|contradiction].
    destruct Hx as [->|[]]. left. reflexivity.
  - apply in_or_app. right. apply in_or_app. right. fold u.
    rewrite block_uses_cblock. apply in_map. exact Hin.
Qed.

(* every surviving expression is live in the result *)
Lemma used'_all : forall d k, n - k <= d -> u k = true -> uget (used_exprs f') (rank u k) = true.
Proof.
  induction d as [|d IH]; intros k Hd Hu; pose proof (u_lt k Hu) as Hk; [lia|].
  unfold u, us, used_exprs in Hu. apply propagate_sound in Hu. fold n in Hu.
  destruct Hu as [Hroot|(j & Hj & Huj & Hin)].
  - apply uget_marks in Hroot. destruct Hroot as [Hroot|[Hroot _]]; [rewrite uget_repeat_false in Hroot; discriminate|].
    apply used_root; [|apply rank_used_lt].
    + apply roots'; [exact Hroot|]. apply used_root; [exact Hroot|exact Hk].
    + apply used_root; [exact Hroot|exact Hk].
  - change (uget (used_exprs f) j = true) in Huj.
    destruct (nth_error (f_exprs f) j) as [e|] eqn:E; [|apply nth_error_None in E; fold n in E; lia].
    rewrite (nth_error_nth _ _ _ E) in Hin.
    assert (Hkj : k < j) by (destruct Hwf as (Hf & _); apply (Hf j e k E); apply compact_refs_incl; exact Hin).
    assert (Hj' : uget (used_exprs f') (rank u j) = true) by (apply IH; [lia|exact Huj]).
    assert (He' : nth_error (f_exprs f') (rank u j) = Some (rename_expr (rank u) e)).
    { cbn [f' compact_function_with f_exprs]. rewrite nth_error_map. fold u.
      rewrite (keep_nth u _ j e E Huj). reflexivity. }
    unfold used_exprs in *. apply propagate_closed with (j := rank u j).
    + exact cfwd_free'.
    + apply rank_used_lt. exact Huj.
    + exact Hj'.
    + rewrite (nth_error_nth _ _ _ He'), compact_refs_rename. apply in_map. exact Hin.
    + rewrite marks_length, repeat_length. apply rank_used_lt.
      eapply used_closed; eauto. destruct Hwf; assumption.
Qed.

Lemma all_true_used' : all_true (used_exprs f') = true.
Proof.
  unfold all_true. apply forallb_forall. intros b Hb.
  apply In_nth_error in Hb. destruct Hb as (j & Hj).
  assert (Hlt : j < List.length (f_exprs f')).
  { rewrite <- used_exprs_length. apply nth_error_Some. congruence. }
  destruct (nth_error (f_exprs f') j) as [e'|] eqn:E; [|apply nth_error_None in E; lia].
  destruct (exprs'_nth _ _ E) as (k & e & Hk & Hu & -> & _).
  pose proof (used'_all n k ltac:(lia) Hu) as H.
  unfold uget in H. rewrite (nth_error_nth _ _ false Hj) in H. exact H.
Qed.

Lemma compact_twice : compact_function f' = f'.
Proof.
  unfold compact_function. destruct (f_exprs f'); [reflexivity|]. rewrite all_true_used'. reflexivity.
Qed.

(* well-formedness of the result *)
Hypothesis Hknown : forallb expr_known (f_exprs f) = true.

Lemma fn_wf' : fn_wf f'.
Proof.
  destruct Hwf as (Hf & Hu & Hl). repeat split.
  - intros j e' x E Hx. destruct (exprs'_nth _ _ E) as (k & e & Hk & Huk & -> & ->).
    rewrite forallb_forall in Hknown.
    rewrite expr_refs_rename in Hx by (apply Hknown; eapply nth_error_In; eauto).
    apply in_map_iff in Hx. destruct Hx as (y & <- & Hy).
    assert (Hyc : In y (compact_expr_refs e)).
    { destruct e; cbn [compact_expr_refs]; try exact Hy.
      assert (Hk' : expr_known (EOther tag refs) = true) by (apply Hknown; eapply nth_error_In; eauto).
      cbn in Hk'. destruct (compact_knows_expr tag); [exact Hy|]. cbn in Hk', Hy. destruct refs; [contradiction|discriminate]. }
    apply rank_lt_used; [apply (Hf k e y Hk Hy)|eapply used_closed; eauto].
  - intros x Hx. cbn [f' compact_function_with f_body] in Hx. fold u in Hx.
    rewrite block_uses_cblock in Hx. apply in_map_iff in Hx. destruct Hx as (y & <- & Hy).
    apply rank_used_lt. apply used_root; [apply in_fn_roots_uses; exact Hy|apply Hu; exact Hy].
  - cbn [f' compact_function_with f_locals]. apply Forall_forall. intros l' Hl'.
    apply in_map_iff in Hl'. destruct Hl' as (l & <- & Hin). cbn [compact_local lv_init].
    rewrite Forall_forall in Hl. specialize (Hl l Hin).
    destruct (lv_init l) as [h|] eqn:E; cbn [option_map]; [|exact I].
    apply rank_used_lt. apply used_root; [eapply in_fn_roots_init; eauto|exact Hl].
Qed.
End After.

Theorem compact_function_idempotent f : fn_wf f -> compact_function (compact_function f) = compact_function f.
Proof.
  intro Hwf. unfold compact_function at 2 3. destruct (f_exprs f) eqn:E.
  - unfold compact_function. rewrite E. reflexivity.
  - destruct (all_true (used_exprs f)) eqn:A.
    + unfold compact_function. rewrite E, A. reflexivity.
    + apply compact_twice. exact Hwf.
Qed.

Theorem compact_function_wf f :
  fn_wf f -> forallb expr_known (f_exprs f) = true -> fn_wf (compact_function f).
Proof.
  intros Hwf Hk. unfold compact_function. destruct (f_exprs f) eqn:E; [exact Hwf|].
  destruct (all_true (used_exprs f)); [exact Hwf|]. apply fn_wf'; [exact Hwf|]. rewrite E. exact Hk.
Qed.

Lemma all_funcs_map_funcs g m : all_funcs (map_funcs g m) = map g (all_funcs m).
Proof.
  unfold all_funcs, map_funcs. cbn [m_functions m_entry_points]. rewrite map_app, !map_map. reflexivity.
Qed.

Theorem compact_expressions_idempotent m :
  module_wf m -> compact_expressions (compact_expressions m) = compact_expressions m.
Proof.
  unfold module_wf, all_funcs. intro H. rewrite Forall_forall in H.
  unfold compact_expressions, map_funcs. cbn [m_types m_constants m_globals m_global_exprs m_functions m_entry_points m_overrides].
  f_equal.
  - rewrite map_map. apply map_ext_in. intros f Hf. apply compact_function_idempotent. apply H. apply in_or_app. left. exact Hf.
  - rewrite map_map. apply map_ext_in. intros e He. cbn [ep_name ep_stage ep_workgroup ep_func]. f_equal.
    apply compact_function_idempotent. apply H. apply in_or_app. right. apply in_map. exact He.
Qed.

Definition module_known (m : module) : bool := forallb (fun f => forallb expr_known (f_exprs f)) (all_funcs m).

Theorem compact_expressions_wf m :
  module_wf m -> module_known m = true -> module_wf (compact_expressions m).
Proof.
  unfold module_wf, module_known. intros H Hk. unfold compact_expressions. rewrite all_funcs_map_funcs.
  rewrite Forall_forall in *. rewrite forallb_forall in Hk.
  intros f' Hf'. apply in_map_iff in Hf'. destruct Hf' as (f & <- & Hf).
  apply compact_function_wf; auto.
Qed.
