(* C13 — removal of global variables: a simulation up to the renaming of memory cells.

   Module m' is m with the dead globals dropped (order kept) and every
   [EGlobalVariable g] of a function renumbered to [rank ug g].  Memory cells are the
   globals followed by the local variables allocated so far, so in m' every cell moves
   down: cell c becomes [rank live c] with [live c = if c < |globals| then ug c else true].
   Run-time values carry cells inside pointers; [vren]/[vok] (Passes/CellRenameOps.v)
   rename them / say that they name live cells.

   [cell_sim_run_entry]: if no function of m mentions a dead global, then every run of an
   entry point of m that terminates with a result terminates in m' with the same fuel, and
   yields the renamed result: the final contents of the live globals (pointers renamed)
   and the renamed return value. *)
From Coq Require Import List Arith Bool String Lia ZArith.
Import ListNotations.
Require Import Naga.IR.Syntax Naga.IR.Values Naga.IR.Sem.
Require Import Naga.Passes.Remap Naga.Passes.RemapProofs Naga.Passes.RenameSound Naga.Passes.CellRenameOps.
Local Open Scope nat_scope.
Local Open Scope list_scope.

(* ---- keep / rank: a few more facts ---- *)
Lemma keep_from_ext {A} u v i (l : list A) :
  (forall x, i <= x < i + List.length l -> u x = v x) -> keep_from u i l = keep_from v i l.
Proof.
  revert i. induction l as [|y l IH]; intros i H; cbn [keep_from]; [reflexivity|].
  rewrite (H i) by (cbn; lia). rewrite IH; [reflexivity|]. intros x Hx. apply H. cbn. lia.
Qed.

Lemma keep_ext {A} u v (l : list A) : (forall x, x < List.length l -> u x = v x) -> keep u l = keep v l.
Proof. intro H. apply keep_from_ext. intros x Hx. apply H. lia. Qed.

Lemma keep_from_set_nth {A} u i (l : list A) k x :
  u (i + k) = true -> keep_from u i (set_nth l k x) = set_nth (keep_from u i l) (count u i k) x.
Proof.
  revert i k. induction l as [|y l IH]; intros i k Hu; [destruct k; reflexivity|].
  destruct k as [|k]; cbn [set_nth keep_from count].
  - rewrite Nat.add_0_r in Hu. rewrite Hu. reflexivity.
  - replace (i + S k) with (S i + k) in Hu by lia. rewrite (IH (S i) k Hu).
    destruct (u i); reflexivity.
Qed.

Lemma keep_set_nth {A} u (l : list A) k x : u k = true -> keep u (set_nth l k x) = set_nth (keep u l) (rank u k) x.
Proof. intro H. apply keep_from_set_nth. exact H. Qed.

Lemma keep_from_app_one {A} u i (l : list A) x :
  keep_from u i (l ++ [x]) = keep_from u i l ++ (if u (i + List.length l) then [x] else []).
Proof.
  revert i. induction l as [|y l IH]; intro i; cbn [app keep_from List.length].
  - rewrite Nat.add_0_r. destruct (u i); reflexivity.
  - rewrite IH. replace (S i + List.length l) with (i + S (List.length l)) by lia.
    destruct (u i); reflexivity.
Qed.

Lemma keep_from_firstn {A} u (l : list A) : forall i n,
  firstn (count u i n) (keep_from u i l) = keep_from u i (firstn n l).
Proof.
  induction l as [|y l IH]; intros i n.
  - cbn [keep_from]. rewrite firstn_nil. destruct n; reflexivity.
  - destruct n as [|n]; cbn [firstn keep_from count]; [reflexivity|].
    destruct (u i) eqn:E; cbn [Nat.add firstn]; rewrite IH; reflexivity.
Qed.

Lemma keep_firstn {A} u (l : list A) n : firstn (rank u n) (keep u l) = keep u (firstn n l).
Proof. apply keep_from_firstn. Qed.

Lemma set_nth_length {A} (l : list A) i x : List.length (set_nth l i x) = List.length l.
Proof. revert i. induction l as [|y l IH]; intro i; destruct i; cbn; auto. Qed.

Lemma map_repeat {A B} (f : A -> B) x n : map f (repeat x n) = repeat (f x) n.
Proof. induction n; cbn; [reflexivity|]. rewrite IHn. reflexivity. Qed.

Lemma forallb_repeat {A} (p : A -> bool) x n : p x = true -> forallb p (repeat x n) = true.
Proof. intro H. induction n; cbn; [reflexivity|]. rewrite H, IHn. reflexivity. Qed.

Lemma forallb_app_one {A} (p : A -> bool) l x : forallb p l = true -> p x = true -> forallb p (l ++ [x]) = true.
Proof. intros H1 H2. rewrite forallb_app, H1. cbn. rewrite H2. reflexivity. Qed.

Lemma forallb_nth {A} (p : A -> bool) l i x : forallb p l = true -> nth_error l i = Some x -> p x = true.
Proof. intros H E. rewrite forallb_forall in H. apply H. eapply nth_error_In; eauto. Qed.

Lemma map_tl {A B} (f : A -> B) l : map f (tl l) = tl (map f l).
Proof. destruct l; reflexivity. Qed.

(* ====================================================================== *)
Section Sim.
Variables m m' : module.
Variable ug : nat -> bool.                 (* live globals of m *)
Let G := List.length (m_globals m).
Definition cell_live (c : nat) : bool := if Nat.ltb c G then ug c else true.
Notation live := cell_live.
Notation rc := (rank cell_live).
Notation vren := (vren live).
Notation vok := (vok live).
Notation sim := (sim live).
Notation siml := (siml live).
Notation oren := (oren live).
Notation ook := (ook live).

Hypothesis Htypes : m_types m' = m_types m.
Hypothesis Hconsts : m_constants m' = m_constants m.
Hypothesis Hgexprs : m_global_exprs m' = m_global_exprs m.
Hypothesis Hglobals : m_globals m' = keep ug (m_globals m).

Definition not_globalvar (e : expr) : bool := match e with EGlobalVariable _ => false | _ => true end.
Hypothesis Hgx : forallb not_globalvar (m_global_exprs m) = true.

(* the expression of m' that stands for e *)
Definition gexpr_rel (e e' : expr) : Prop :=
  match e with
  | EGlobalVariable g => exists g', e' = EGlobalVariable g' /\ (g < G -> ug g = true /\ g' = rank ug g)
  | _ => e' = e
  end.

Record frel_g (f f' : func) : Prop := mkfrel_g {
  fg_locals : f_locals f' = f_locals f;
  fg_body : f_body f' = f_body f;
  fg_len : List.length (f_exprs f') = List.length (f_exprs f);
  fg_exprs : forall h e, nth_error (f_exprs f) h = Some e ->
                         exists e', nth_error (f_exprs f') h = Some e' /\ gexpr_rel e e'
}.

Hypothesis Hfuncs : forall i f, nth_error (m_functions m) i = Some f ->
                                exists f', nth_error (m_functions m') i = Some f' /\ frel_g f f'.
Hypothesis Heps : forall i e, nth_error (m_entry_points m) i = Some e ->
                              exists e', nth_error (m_entry_points m') i = Some e' /\ frel_g (ep_func e) (ep_func e').

(* ---- cells ---- *)
Lemma live_ge c : G <= c -> live c = true.
Proof. intro H. unfold cell_live. replace (Nat.ltb c G) with false by (symmetry; apply Nat.ltb_ge; exact H). reflexivity. Qed.

Lemma live_lt c : c < G -> live c = ug c.
Proof. intro H. unfold cell_live. replace (Nat.ltb c G) with true by (symmetry; apply Nat.ltb_lt; exact H). reflexivity. Qed.

Lemma rc_lt c : c <= G -> rc c = rank ug c.
Proof. intro H. apply rank_ext. intros x Hx. apply live_lt. lia. Qed.

Definition mren (mem : list value) : list value := map vren (keep live mem).
Definition mem_ok (mem : list value) : bool := forallb vok mem && Nat.leb G (List.length mem).

Lemma mem_ok_vok mem : mem_ok mem = true -> forallb vok mem = true.
Proof. unfold mem_ok. intro H. apply andb_true_iff in H. tauto. Qed.
Lemma mem_ok_len mem : mem_ok mem = true -> G <= List.length mem.
Proof. unfold mem_ok. intro H. apply andb_true_iff in H. destruct H as [_ H]. apply Nat.leb_le. exact H. Qed.

Lemma mren_nth mem c cell :
  nth_error mem c = Some cell -> live c = true -> nth_error (mren mem) (rc c) = Some (vren cell).
Proof. intros E H. unfold mren. rewrite nth_error_map, (keep_nth live mem c cell E H). reflexivity. Qed.

Lemma mren_length mem : List.length (mren mem) = rc (List.length mem).
Proof. unfold mren. rewrite map_length. apply keep_length. Qed.

Lemma mren_set_nth mem c x : live c = true -> mren (set_nth mem c x) = set_nth (mren mem) (rc c) (vren x).
Proof. intro H. unfold mren. rewrite (keep_set_nth live mem c x H), set_nth_map. reflexivity. Qed.

Lemma mren_app_one mem v : G <= List.length mem -> mren (mem ++ [v]) = mren mem ++ [vren v].
Proof.
  intro H. unfold mren, keep. rewrite keep_from_app_one. cbn [Nat.add]. rewrite (live_ge _ H), map_app. reflexivity.
Qed.

(* ---- frames ---- *)
Definition fren (fr : frame) : frame := mkframe (map oren (fr_cache fr)) (map vren (fr_args fr)) (map rc (fr_locals fr)).
Definition frame_ok (fr : frame) : bool :=
  forallb ook (fr_cache fr) && forallb vok (fr_args fr) && forallb live (fr_locals fr).

Lemma frame_ok_inv fr : frame_ok fr = true ->
  forallb ook (fr_cache fr) = true /\ forallb vok (fr_args fr) = true /\ forallb live (fr_locals fr) = true.
Proof. unfold frame_ok. intro H. apply andb_true_iff in H. destruct H as [H H3]. apply andb_true_iff in H. tauto. Qed.

Lemma frame_ok_intro c a l :
  forallb ook c = true -> forallb vok a = true -> forallb live l = true -> frame_ok (mkframe c a l) = true.
Proof. intros H1 H2 H3. unfold frame_ok. cbn. rewrite H1, H2, H3. reflexivity. Qed.

Lemma fren_set_cache fr h v : fren (set_cache fr h v) = set_cache (fren fr) h (vren v).
Proof. unfold fren, set_cache. cbn [fr_cache fr_args fr_locals]. rewrite set_nth_map. reflexivity. Qed.

Lemma frame_ok_set_cache fr h v : frame_ok fr = true -> vok v = true -> frame_ok (set_cache fr h v) = true.
Proof.
  intros H Hv. apply frame_ok_inv in H. destruct H as (H1 & H2 & H3). unfold set_cache.
  apply frame_ok_intro; auto. apply forallb_set_nth; auto.
Qed.

(* ---- expressions ---- *)
Lemma eval_expr_sim get get' cv cv' args locals mem e e' :
  gexpr_rel e e' ->
  (forall x, sim (get x) (get' x)) -> (forall c, sim (cv c) (cv' c)) ->
  forallb vok args = true -> forallb live locals = true -> forallb vok mem = true ->
  sim (eval_expr m get cv args locals mem e) (eval_expr m' get' cv' (map vren args) (map rc locals) (mren mem) e').
Proof.
  intros Hrel Hget Hcv Hargs Hloc Hmem.
  destruct e; cbn [gexpr_rel] in Hrel; try subst e'; cbn [eval_expr]; try apply rsim_fail.
  - (* literal *) apply closed_sim. intros v E. eapply value_of_literal_closed; eauto.
  - apply Hcv.
  - rewrite Htypes. apply closed_sim. intros v E. eapply zero_value_closed; eauto.
  - (* compose *)
    apply (rsim_bind (map vren) (forallb vok)); [apply rmap_sim_same; intros; apply Hget|].
    intros vs Hvs. rewrite Htypes. apply compose_sim. exact Hvs.
  - (* access *)
    apply (rsim_bind vren vok); [apply Hget|]. intros bv Hbv.
    apply (rsim_bind vren vok); [apply Hget|]. intros iv Hiv.
    rewrite index_of_value_ren. destruct (index_of_value iv); cbn [rbind]; [|apply rsim_oof|apply rsim_fail].
    apply access_sim. exact Hbv.
  - apply (rsim_bind vren vok); [apply Hget|]. intros bv Hbv. apply access_sim. exact Hbv.
  - (* splat *)
    apply (rsim_bind vren vok); [apply Hget|]. intros x Hx.
    rewrite <- map_repeat. apply done_vec. apply forallb_repeat. exact Hx.
  - (* swizzle *)
    apply (rsim_bind vren vok); [apply Hget|]. intros x Hx.
    apply (rsim_bind (map vren) (forallb vok)); [apply vec_elems_sim; exact Hx|]. intros l Hl.
    apply (rsim_bind (map vren) (forallb vok)).
    + apply rmap_sim_same. intros i _. apply nth_res_sim. exact Hl.
    + intros vs Hvs. apply done_vec. exact Hvs.
  - apply nth_res_sim. exact Hargs.
  - (* global variable *)
    destruct Hrel as (g' & -> & Hg). cbn [eval_expr].
    intros v E. inv_bind E. apply nth_res_done in Ha.
    assert (Hlt : g < G) by (apply nth_error_Some; unfold G; congruence).
    destruct (Hg Hlt) as [Hu ->].
    rewrite Hglobals, (nth_res_some _ _ _ _ (keep_nth ug _ g a Ha Hu)). cbn [rbind].
    destruct (g_space a); inversion E; subst; cbn [CellRenameOps.vren CellRenameOps.vok];
      rewrite (live_lt g Hlt), Hu; (split; [|reflexivity]); f_equal; f_equal; symmetry; apply rc_lt; lia.
  - (* local variable *)
    intros v E. inv_bind E. apply nth_res_done in Ha. inversion E; subst.
    unfold nth_res. rewrite nth_error_map, Ha. cbn. split; [reflexivity|]. eapply forallb_nth; eauto.
  - (* load *)
    apply (rsim_bind vren vok); [apply Hget|]. intros pv Hpv.
    destruct pv; try apply rsim_fail. cbn [CellRenameOps.vren]. cbn [CellRenameOps.vok] in Hpv.
    intros v E. inv_bind E. apply nth_res_done in Ha.
    rewrite (nth_res_some _ _ _ _ (mren_nth _ _ _ Ha Hpv)). cbn [rbind].
    apply load_path_sim; [eapply forallb_nth; eauto|exact E].
  - apply (rsim_bind vren vok); [apply Hget|]. intros v Hv. apply eval_unary_sim. exact Hv.
  - apply (rsim_bind vren vok); [apply Hget|]. intros a Ha.
    apply (rsim_bind vren vok); [apply Hget|]. intros b Hb. apply eval_binary_sim; assumption.
  - apply (rsim_bind vren vok); [apply Hget|]. intros a Ha.
    apply (rsim_bind vren vok); [apply Hget|]. intros b Hb.
    apply (rsim_bind vren vok); [apply Hget|]. intros c Hc. apply eval_select_sim; assumption.
  - apply (rsim_bind vren vok); [apply Hget|]. intros v Hv. apply eval_relational_sim. exact Hv.
  - apply (rsim_bind (map vren) (forallb vok)); [apply rmap_sim_same; intros; apply Hget|].
    intros vs Hvs. apply eval_math_sim. exact Hvs.
  - apply (rsim_bind vren vok); [apply Hget|]. intros v Hv. apply eval_as_sim. exact Hv.
  - (* array length *)
    apply (rsim_bind vren vok); [apply Hget|]. intros pv Hpv.
    destruct pv; try apply rsim_fail. cbn [CellRenameOps.vren]. cbn [CellRenameOps.vok] in Hpv.
    intros v E. inv_bind E. apply nth_res_done in Ha.
    rewrite (nth_res_some _ _ _ _ (mren_nth _ _ _ Ha Hpv)). cbn [rbind].
    inv_bind E. inv_bind E. inversion E; subst.
    destruct (load_path_sim live path a (forallb_nth _ _ _ _ Hmem Ha) a0 Ha0) as [E1 Hok1]. rewrite E1. cbn [rbind].
    destruct (elems_sim live a0 Hok1 a1 Ha1) as [E2 _]. rewrite E2. cbn [rbind]. rewrite map_length. split; reflexivity.
Qed.

(* module constants and global initialisers: no pointers to globals inside *)
Lemma eval_global_expr_sim fuel : forall i, sim (eval_global_expr fuel m i) (eval_global_expr fuel m' i).
Proof.
  induction fuel as [|fuel IH]; intro i; cbn [eval_global_expr]; [apply rsim_oof|].
  rewrite Hgexprs. destruct (nth_res "global expression handle" (m_global_exprs m) i) as [e| |] eqn:E; cbn [rbind];
    [|apply rsim_oof|apply rsim_fail].
  apply nth_res_done in E.
  assert (Hng : not_globalvar e = true) by (eapply forallb_nth; eauto).
  pose proof (eval_expr_sim (eval_global_expr fuel m) (eval_global_expr fuel m')
                (fun c => k <~ nth_res "constant handle" (m_constants m) c ;; eval_global_expr fuel m (c_init k))
                (fun c => k <~ nth_res "constant handle" (m_constants m') c ;; eval_global_expr fuel m' (c_init k))
                [] [] [] e e) as H.
  cbn [map] in H. unfold mren, keep in H. cbn [keep_from map] in H. apply H; auto.
  - destruct e; try reflexivity. discriminate.
  - intro c. rewrite Hconsts. destruct (nth_res "constant handle" (m_constants m) c); cbn [rbind];
      [apply IH|apply rsim_oof|apply rsim_fail].
Qed.

Lemma const_value_of_sim c : sim (const_value_of m c) (const_value_of m' c).
Proof.
  unfold const_value_of. rewrite Hconsts, Hgexprs.
  destruct (nth_res "constant handle" (m_constants m) c); cbn [rbind]; [apply eval_global_expr_sim|apply rsim_oof|apply rsim_fail].
Qed.

Lemma default_global_sim g : sim (default_global m g) (default_global m' g).
Proof.
  unfold default_global. rewrite Hgexprs, Htypes.
  destruct (g_init_expr g); [apply eval_global_expr_sim|].
  destruct (g_init g); [apply const_value_of_sim|].
  apply closed_sim. intros v E. eapply zero_value_closed; eauto.
Qed.

(* ---- one function ---- *)
Section Fun.
Variables f f' : func.
Hypothesis FR : frel_g f f'.

Lemma pure_kind_rel e e' : gexpr_rel e e' -> pure_kind e' = pure_kind e.
Proof. destruct e; cbn; intro H; try (subst; reflexivity). destruct H as (g' & -> & _). reflexivity. Qed.

Lemma eval_handle_sim fr mem : frame_ok fr = true -> forallb vok mem = true ->
  forall fuel h, sim (eval_handle fuel m f fr mem h) (eval_handle fuel m' f' (fren fr) (mren mem) h).
Proof.
  intros Hfr Hmem. destruct (frame_ok_inv _ Hfr) as (Hc & Ha & Hl).
  induction fuel as [|fuel IH]; intro h.
  - cbn [eval_handle fren fr_cache]. rewrite nth_error_map.
    destruct (nth_error (fr_cache fr) h) as [[v|]|] eqn:E; cbn [option_map CellRenameOps.oren]; try apply rsim_oof.
    apply (rsim_done vren vok v). exact (forallb_nth ook _ _ _ Hc E).
  - cbn [eval_handle fren fr_cache]. rewrite nth_error_map.
    destruct (nth_error (fr_cache fr) h) as [[v|]|] eqn:E; cbn [option_map CellRenameOps.oren].
    + apply (rsim_done vren vok v). exact (forallb_nth ook _ _ _ Hc E).
    + destruct (nth_res "expression handle" (f_exprs f) h) as [e| |] eqn:Ee; cbn [rbind]; [|apply rsim_oof|apply rsim_fail].
      apply nth_res_done in Ee. destruct (fg_exprs _ _ FR h e Ee) as (e' & Ee' & Hrel).
      rewrite (nth_res_some _ _ _ _ Ee'). cbn [rbind]. rewrite (pure_kind_rel _ _ Hrel).
      destruct (pure_kind e); [|apply rsim_fail].
      apply eval_expr_sim; auto. intro c. apply const_value_of_sim.
    + destruct (nth_res "expression handle" (f_exprs f) h) as [e| |] eqn:Ee; cbn [rbind]; [|apply rsim_oof|apply rsim_fail].
      apply nth_res_done in Ee. destruct (fg_exprs _ _ FR h e Ee) as (e' & Ee' & Hrel).
      rewrite (nth_res_some _ _ _ _ Ee'). cbn [rbind]. rewrite (pure_kind_rel _ _ Hrel).
      destruct (pure_kind e); [|apply rsim_fail].
      apply eval_expr_sim; auto. intro c. apply const_value_of_sim.
Qed.

Lemma operand_sim fr mem h : frame_ok fr = true -> forallb vok mem = true ->
  sim (operand m f fr mem h) (operand m' f' (fren fr) (mren mem) h).
Proof. intros Hfr Hmem. unfold operand. rewrite (fg_len _ _ FR). apply eval_handle_sim; assumption. Qed.

Lemma operands_sim fr mem l : frame_ok fr = true -> forallb vok mem = true ->
  siml (rmap (operand m f fr mem) l) (rmap (operand m' f' (fren fr) (mren mem)) l).
Proof. intros Hfr Hmem. apply rmap_sim_same. intros x _. apply operand_sim; assumption. Qed.

Lemma emit_range_sim mem n : forallb vok mem = true -> forall h fr, frame_ok fr = true ->
  rsim fren frame_ok (emit_range n m f fr mem h) (emit_range n m' f' (fren fr) (mren mem) h).
Proof.
  intro Hmem. induction n as [|n IH]; intros h fr Hfr; cbn [emit_range]; [apply (rsim_done fren frame_ok fr Hfr)|].
  destruct (nth_res "emit: expression handle" (f_exprs f) h) as [e| |] eqn:Ee; cbn [rbind]; [|apply rsim_oof|apply rsim_fail].
  apply nth_res_done in Ee. destruct (fg_exprs _ _ FR h e Ee) as (e' & Ee' & Hrel).
  rewrite (nth_res_some _ _ _ _ Ee'). cbn [rbind].
  destruct (frame_ok_inv _ Hfr) as (Hc & Ha & Hl).
  apply (rsim_bind vren vok).
  - apply (eval_expr_sim (operand m f fr mem) (operand m' f' (fren fr) (mren mem))); auto.
    + intro x. apply operand_sim; assumption.
    + intro c. apply const_value_of_sim.
  - intros v Hv. rewrite <- fren_set_cache. apply IH. apply frame_ok_set_cache; assumption.
Qed.

Lemma alloc_locals_sim ls : forall fr mem, frame_ok fr = true -> mem_ok mem = true ->
  rsim (fun p => (fren (fst p), mren (snd p))) (fun p => frame_ok (fst p) && mem_ok (snd p))%bool
       (alloc_locals m f ls fr mem) (alloc_locals m' f' ls (fren fr) (mren mem)).
Proof.
  induction ls as [|l ls IH]; intros fr mem Hfr Hmem; cbn [alloc_locals].
  - apply (rsim_done (fun p => (fren (fst p), mren (snd p))) (fun p => frame_ok (fst p) && mem_ok (snd p))%bool (fr, mem)).
    cbn. rewrite Hfr, Hmem. reflexivity.
  - apply (rsim_bind vren vok).
    + destruct (lv_init l); [apply operand_sim; [assumption|apply mem_ok_vok; assumption]|].
      rewrite Htypes. apply closed_sim. intros v E. eapply zero_value_closed; eauto.
    + intros v Hv. pose proof (mem_ok_len _ Hmem) as Hlen. pose proof (mem_ok_vok _ Hmem) as Hvok.
      destruct (frame_ok_inv _ Hfr) as (Hc & Ha & Hl).
      rewrite mren_length.
      replace (mkframe (fr_cache (fren fr)) (fr_args (fren fr)) (fr_locals (fren fr) ++ [rc (List.length mem)]))
        with (fren (mkframe (fr_cache fr) (fr_args fr) (fr_locals fr ++ [List.length mem])))
        by (unfold fren; cbn [fr_cache fr_args fr_locals]; rewrite map_app; reflexivity).
      rewrite <- (mren_app_one mem v Hlen).
      apply IH.
      * apply frame_ok_intro; auto. apply forallb_app_one; [exact Hl|apply live_ge; exact Hlen].
      * unfold mem_ok. rewrite (forallb_app_one vok mem v Hvok Hv). cbn [andb]. apply Nat.leb_le. rewrite app_length. cbn. lia.
Qed.

End Fun.

(* ---- statements ---- *)
Definition out3 := (outcome * frame * list value)%type.
Definition oren_out (o : outcome) : outcome := match o with OReturn v => OReturn (oren v) | _ => o end.
Definition out_ok (o : outcome) : bool := match o with OReturn v => ook v | _ => true end.
Definition ren3 (x : out3) : out3 := let '(o, fr, mem) := x in (oren_out o, fren fr, mren mem).
Definition ok3 (x : out3) : bool := let '(o, fr, mem) := x in (out_ok o && frame_ok fr && mem_ok mem)%bool.
Definition ren2 (x : option value * list value) := (oren (fst x), mren (snd x)).
Definition ok2 (x : option value * list value) : bool := (ook (fst x) && mem_ok (snd x))%bool.

Lemma ok3_intro o fr mem : out_ok o = true -> frame_ok fr = true -> mem_ok mem = true -> ok3 (o, fr, mem) = true.
Proof. intros H1 H2 H3. cbn. rewrite H1, H2, H3. reflexivity. Qed.

Lemma ok3_inv o fr mem : ok3 (o, fr, mem) = true -> out_ok o = true /\ frame_ok fr = true /\ mem_ok mem = true.
Proof. cbn. intro H. apply andb_true_iff in H. destruct H as [H H3]. apply andb_true_iff in H. tauto. Qed.

Lemma done3 o fr mem : out_ok o = true -> frame_ok fr = true -> mem_ok mem = true ->
  rsim ren3 ok3 (Done (o, fr, mem)) (Done (oren_out o, fren fr, mren mem)).
Proof. intros H1 H2 H3. apply (rsim_done ren3 ok3 (o, fr, mem)). apply ok3_intro; assumption. Qed.

Lemma store_mem_sim mem p v : mem_ok mem = true -> vok p = true -> vok v = true ->
  rsim mren mem_ok (store_mem mem p v) (store_mem (mren mem) (vren p) (vren v)).
Proof.
  intros Hmem Hp Hv. destruct p; try apply rsim_fail. cbn [store_mem CellRenameOps.vren]. cbn [CellRenameOps.vok] in Hp.
  intros mem1 E. inv_bind E. inv_bind E. inversion E; subst. apply nth_res_done in Ha.
  pose proof (mem_ok_vok _ Hmem) as Hvok.
  rewrite (nth_res_some _ _ _ _ (mren_nth _ _ _ Ha Hp)). cbn [rbind].
  destruct (store_path_sim live path v Hv a (forallb_nth _ _ _ _ Hvok Ha) a0 Ha0) as [E1 Hok1].
  rewrite E1. cbn [rbind]. rewrite (mren_set_nth mem cell a0 Hp). split; [reflexivity|].
  unfold mem_ok. rewrite set_nth_length, (forallb_set_nth vok mem cell a0 Hvok Hok1). cbn [andb].
  apply Nat.leb_le. apply mem_ok_len. exact Hmem.
Qed.

Lemma switch_matches_ren sv v : switch_matches sv (vren v) = switch_matches sv v.
Proof. destruct sv; destruct v; reflexivity. Qed.

Lemma find_case_ren cases v : forall i, find_case cases (vren v) i = find_case cases v i.
Proof.
  induction cases as [|[[sv b] ft] cases IH]; intro i; cbn [find_case]; [reflexivity|].
  rewrite switch_matches_ren, IH. reflexivity.
Qed.

Definition P_block (fuel : nat) : Prop :=
  forall f f' b fr mem, frel_g f f' -> frame_ok fr = true -> mem_ok mem = true ->
    rsim ren3 ok3 (exec_block fuel m f b fr mem) (exec_block fuel m' f' b (fren fr) (mren mem)).
Definition P_stmt (fuel : nat) : Prop :=
  forall f f' s fr mem, frel_g f f' -> frame_ok fr = true -> mem_ok mem = true ->
    rsim ren3 ok3 (exec_stmt fuel m f s fr mem) (exec_stmt fuel m' f' s (fren fr) (mren mem)).
Definition P_cases (fuel : nat) : Prop :=
  forall f f' cs fr mem, frel_g f f' -> frame_ok fr = true -> mem_ok mem = true ->
    rsim ren3 ok3 (exec_cases fuel m f cs fr mem) (exec_cases fuel m' f' cs (fren fr) (mren mem)).
Definition P_loop (fuel : nat) : Prop :=
  forall f f' b c bi fr mem, frel_g f f' -> frame_ok fr = true -> mem_ok mem = true ->
    rsim ren3 ok3 (exec_loop fuel m f b c bi fr mem) (exec_loop fuel m' f' b c bi (fren fr) (mren mem)).
Definition P_call (fuel : nat) : Prop :=
  forall fi args mem, forallb vok args = true -> mem_ok mem = true ->
    rsim ren2 ok2 (call_function fuel m fi args mem) (call_function fuel m' fi (map vren args) (mren mem)).
Definition P_run (fuel : nat) : Prop :=
  forall f f' args mem, frel_g f f' -> forallb vok args = true -> mem_ok mem = true ->
    rsim ren2 ok2 (run_function fuel m f args mem) (run_function fuel m' f' (map vren args) (mren mem)).
Definition P_all (fuel : nat) : Prop :=
  P_block fuel /\ P_stmt fuel /\ P_cases fuel /\ P_loop fuel /\ P_call fuel /\ P_run fuel.

Theorem cell_sim_all : forall fuel, P_all fuel.
Proof.
  induction fuel as [|fuel IH].
  { unfold P_all, P_block, P_stmt, P_cases, P_loop, P_call, P_run. split; [|split; [|split; [|split; [|split]]]]; intros; cbn; apply rsim_oof. }
  destruct IH as (IHb & IHs & IHc & IHl & IHcall & IHrun).
  split; [|split; [|split; [|split; [|split]]]].
  - (* blocks *)
    red. intros f f' b fr mem FR Hfr Hmem. cbn [exec_block]. destruct b as [|s rest]; [apply done3; auto|].
    apply (rsim_bind ren3 ok3); [apply IHs; assumption|].
    intros [[o fr1] mem1] Hok. apply ok3_inv in Hok. destruct Hok as (Ho & Hfr1 & Hmem1).
    cbn [ren3]. destruct o; cbn [oren_out]; try (apply done3; assumption).
    apply IHb; assumption.
  - (* statements *)
    red. intros f f' s fr mem FR Hfr Hmem. pose proof (mem_ok_vok _ Hmem) as Hvok.
    destruct s; cbn [exec_stmt]; try apply rsim_fail; try (apply done3; auto; fail).
    + (* Emit *)
      apply (rsim_bind fren frame_ok); [apply emit_range_sim; assumption|].
      intros fr1 Hfr1. apply done3; auto.
    + apply IHb; assumption.
    + (* If *)
      apply (rsim_bind vren vok); [apply operand_sim; assumption|].
      intros cv Hcv. destruct cv; try apply rsim_fail. cbn [CellRenameOps.vren]. destruct b; apply IHb; assumption.
    + (* Switch *)
      apply (rsim_bind vren vok); [apply operand_sim; assumption|].
      intros sv Hsv. rewrite find_case_ren.
      destruct (match find_case cases sv 0 with Some i => Some i | None => find_default cases 0 end) as [i|]; [|apply done3; auto].
      apply (rsim_bind ren3 ok3); [apply IHc; assumption|].
      intros [[o fr1] mem1] Hok. apply ok3_inv in Hok. destruct Hok as (Ho & Hfr1 & Hmem1).
      cbn [ren3]. destruct o; cbn [oren_out]; apply done3; auto.
    + apply IHl; assumption.
    + (* Return *)
      destruct value as [h|]; [|apply done3; auto].
      apply (rsim_bind vren vok); [apply operand_sim; assumption|].
      intros v Hv. exact (done3 (OReturn (Some v)) fr mem Hv Hfr Hmem).
    + (* Store *)
      apply (rsim_bind vren vok); [apply operand_sim; assumption|]. intros pv Hpv.
      apply (rsim_bind vren vok); [apply operand_sim; assumption|]. intros vv Hvv.
      apply (rsim_bind mren mem_ok); [apply store_mem_sim; assumption|].
      intros mem1 Hmem1. apply done3; auto.
    + (* Atomic *)
      destruct compare; [apply rsim_fail|].
      apply (rsim_bind vren vok); [apply operand_sim; assumption|]. intros pv Hpv.
      apply (rsim_bind vren vok); [apply operand_sim; assumption|]. intros vv Hvv.
      destruct pv; try apply rsim_fail. cbn [CellRenameOps.vren].
      intros x E. inv_bind E. apply nth_res_done in Ha.
      pose proof Hpv as Hlive. cbn [CellRenameOps.vok] in Hlive.
      rewrite (nth_res_some _ _ _ _ (mren_nth _ _ _ Ha Hlive)). cbn [rbind].
      inv_bind E. destruct (load_path_sim live path a (forallb_nth _ _ _ _ Hvok Ha) a0 Ha0) as [E1 Hold]. rewrite E1. cbn [rbind].
      inv_bind E. destruct (atomic_new_sim live f0 a0 vv Hold Hvv a1 Ha1) as [E2 Hnw]. rewrite E2. cbn [rbind].
      inv_bind E. inversion E; subst.
      assert (Hst : (match oren a1 with Some x => store_mem (mren mem) (VPtr (rank live cell) path) x | None => Done (mren mem) end)
                    = Done (mren a2) /\ mem_ok a2 = true).
      { destruct a1 as [x|]; cbn [CellRenameOps.oren option_map].
        - exact (store_mem_sim mem (VPtr cell path) x Hmem Hpv Hnw a2 Ha2).
        - inversion Ha2; subst. auto. }
      destruct Hst as [E3 Hmem2]. rewrite E3. cbn [rbind]. split.
      * cbn [ren3 oren_out]. destruct result; [rewrite fren_set_cache|]; reflexivity.
      * apply ok3_intro; auto. destruct result; [apply frame_ok_set_cache; assumption|assumption].
    + (* Call *)
      apply (rsim_bind (map vren) (forallb vok)); [apply operands_sim; assumption|]. intros vs Hvs.
      apply (rsim_bind ren2 ok2); [apply IHcall; assumption|].
      intros [ret mem1] Hok. unfold ok2 in Hok. cbn [fst snd] in Hok. apply andb_true_iff in Hok. destruct Hok as [Hret Hmem1].
      cbn [ren2 fst snd]. destruct result as [h|].
      * destruct ret as [v|]; cbn [CellRenameOps.oren option_map]; [|apply rsim_fail].
        rewrite <- fren_set_cache. apply done3; auto. apply frame_ok_set_cache; assumption.
      * apply done3; auto.
  - (* cases *)
    red. intros f f' cs fr mem FR Hfr Hmem. cbn [exec_cases]. destruct cs as [|[[sv body] ft] rest]; [apply done3; auto|].
    apply (rsim_bind ren3 ok3); [apply IHb; assumption|].
    intros [[o fr1] mem1] Hok. apply ok3_inv in Hok. destruct Hok as (Ho & Hfr1 & Hmem1).
    cbn [ren3]. destruct o; cbn [oren_out]; try (apply done3; assumption).
    destruct ft; [apply IHc; assumption|apply done3; auto].
  - (* loops *)
    red. intros f f' b c bi fr mem FR Hfr Hmem. cbn [exec_loop].
    apply (rsim_bind ren3 ok3); [apply IHb; assumption|].
    intros [[o fr1] mem1] Hok. apply ok3_inv in Hok. destruct Hok as (Ho & Hfr1 & Hmem1).
    cbn [ren3].
    assert (Hcont : rsim ren3 ok3
      (r2 <~ exec_block fuel m f c fr1 mem1 ;;
       let '(o2, fr2, mem2) := r2 in
       match o2 with
       | ONormal =>
         match bi with
         | None => exec_loop fuel m f b c bi fr2 mem2
         | Some h => bv <~ operand m f fr2 mem2 h ;;
                     match bv with
                     | VBool true => Done (ONormal, fr2, mem2)
                     | VBool false => exec_loop fuel m f b c bi fr2 mem2
                     | _ => Fail "break if: not a bool"
                     end
         end
       | OReturn _ | OKill => Done (o2, fr2, mem2)
       | _ => Fail "break/continue escaping a continuing block"
       end)
      (r2 <~ exec_block fuel m' f' c (fren fr1) (mren mem1) ;;
       let '(o2, fr2, mem2) := r2 in
       match o2 with
       | ONormal =>
         match bi with
         | None => exec_loop fuel m' f' b c bi fr2 mem2
         | Some h => bv <~ operand m' f' fr2 mem2 h ;;
                     match bv with
                     | VBool true => Done (ONormal, fr2, mem2)
                     | VBool false => exec_loop fuel m' f' b c bi fr2 mem2
                     | _ => Fail "break if: not a bool"
                     end
         end
       | OReturn _ | OKill => Done (o2, fr2, mem2)
       | _ => Fail "break/continue escaping a continuing block"
       end)).
    { apply (rsim_bind ren3 ok3); [apply IHb; assumption|].
      intros [[o2 fr2] mem2] Hok2. apply ok3_inv in Hok2. destruct Hok2 as (Ho2 & Hfr2 & Hmem2).
      cbn [ren3]. destruct o2; cbn [oren_out]; try apply rsim_fail; try (apply done3; assumption).
      destruct bi as [h|]; [|apply IHl; assumption].
      apply (rsim_bind vren vok); [apply operand_sim; [assumption|assumption|apply mem_ok_vok; assumption]|].
      intros bv Hbv. destruct bv; try apply rsim_fail. cbn [CellRenameOps.vren].
      destruct b0; [apply done3; auto|apply IHl; assumption]. }
    destruct o; cbn [oren_out]; try (apply done3; assumption); exact Hcont.
  - (* calls *)
    red. intros fi args mem Hargs Hmem. cbn [call_function].
    destruct (nth_res "function handle" (m_functions m) fi) as [f| |] eqn:E; cbn [rbind]; [|apply rsim_oof|apply rsim_fail].
    apply nth_res_done in E. destruct (Hfuncs fi f E) as (f' & E' & FR).
    rewrite (nth_res_some _ _ _ _ E'). cbn [rbind]. apply IHrun; assumption.
  - (* function bodies *)
    red. intros f f' args mem FR Hargs Hmem. cbn [run_function].
    rewrite (fg_len _ _ FR), (fg_locals _ _ FR), (fg_body _ _ FR).
    replace (mkframe (repeat None (List.length (f_exprs f))) (map vren args) [])
      with (fren (mkframe (repeat None (List.length (f_exprs f))) args []))
      by (unfold fren; cbn [fr_cache fr_args fr_locals map]; rewrite map_repeat; reflexivity).
    apply (rsim_bind (fun p => (fren (fst p), mren (snd p))) (fun p => frame_ok (fst p) && mem_ok (snd p))%bool).
    + apply alloc_locals_sim; [exact FR| |exact Hmem].
      apply frame_ok_intro; [apply forallb_repeat; reflexivity|exact Hargs|reflexivity].
    + intros [fr mem0] Hok. cbn [fst snd] in Hok |- *. apply andb_true_iff in Hok. destruct Hok as [Hfr Hmem0].
      apply (rsim_bind ren3 ok3); [apply IHb; assumption|].
      intros [[o fr1] mem1] Hok. apply ok3_inv in Hok. destruct Hok as (Ho & Hfr1 & Hmem1).
      cbn [ren3]. destruct o; cbn [oren_out]; try apply rsim_fail.
      * apply (rsim_done ren2 ok2 (None, mem1)). unfold ok2. cbn. exact Hmem1.
      * apply (rsim_done ren2 ok2 (v, mem1)). unfold ok2. cbn [fst snd]. cbn [out_ok] in Ho. rewrite Ho, Hmem1. reflexivity.
      * apply (rsim_done ren2 ok2 (None, mem1)). unfold ok2. cbn. exact Hmem1.
Qed.

(* ---- initial memory ---- *)
Definition gren (given : list (option value)) : list (option value) := map oren (keep ug given).

Definition ghead (mm : module) (g : global_var) (given : list (option value)) : result value :=
  match given with
  | Some v :: _ => Done v
  | _ => match g_space g with SpHandle => Done (VBool false) | _ => default_global mm g end
  end.

Lemma init_globals_cons mm g gl given :
  init_globals mm (g :: gl) given = (v <~ ghead mm g given ;; vs <~ init_globals mm gl (tl given) ;; Done (v :: vs)).
Proof. reflexivity. Qed.

Lemma ghead_sim g given : forallb ook given = true -> sim (ghead m g given) (ghead m' g (map oren given)).
Proof.
  intro H.
  assert (Hd : sim (match g_space g with SpHandle => Done (VBool false) | _ => default_global m g end)
                   (match g_space g with SpHandle => Done (VBool false) | _ => default_global m' g end)).
  { destruct (g_space g); try apply default_global_sim. exact (rsim_done vren vok (VBool false) eq_refl). }
  destruct given as [|[x|] gt]; cbn [ghead map CellRenameOps.oren option_map]; try exact Hd.
  cbn [forallb CellRenameOps.ook] in H. apply andb_true_iff in H. destruct H as [Hx _].
  exact (rsim_done vren vok x Hx).
Qed.

Lemma ghead_keep mm g i given : ug i = true -> ghead mm g (map oren (keep_from ug i given)) = ghead mm g (map oren given).
Proof. intro Hu. destruct given as [|x gt]; cbn [keep_from]; [reflexivity|]. rewrite Hu. cbn [map]. destruct (oren x); reflexivity. Qed.

Lemma keep_from_tl_true {A} i (l : list A) : ug i = true -> tl (keep_from ug i l) = keep_from ug (S i) (tl l).
Proof. intro Hu. destruct l; cbn [keep_from tl]; [reflexivity|]. rewrite Hu. reflexivity. Qed.

Lemma keep_from_tl_false {A} i (l : list A) : ug i = false -> keep_from ug i l = keep_from ug (S i) (tl l).
Proof. intro Hu. destruct l; cbn [keep_from tl]; [reflexivity|]. rewrite Hu. reflexivity. Qed.

Lemma init_globals_sim : forall gl i given vs,
  forallb ook given = true ->
  init_globals m gl given = Done vs ->
  init_globals m' (keep_from ug i gl) (map oren (keep_from ug i given)) = Done (map vren (keep_from ug i vs))
  /\ forallb vok vs = true /\ List.length vs = List.length gl.
Proof.
  induction gl as [|g gl IH]; intros i given vs Hgiven H.
  - cbn [init_globals] in H. inversion H; subst. cbn. auto.
  - rewrite init_globals_cons in H. inv_bind H. inv_bind H. inversion H; subst. rename a into v, a0 into vs.
    assert (Htl : forallb ook (tl given) = true) by (apply forallb_tl; exact Hgiven).
    destruct (ghead_sim g given Hgiven v Ha) as [Ehd Hvok].
    destruct (IH (S i) (tl given) vs Htl Ha0) as (E & Hvs & Hlen).
    split; [|split; [cbn [forallb]; rewrite Hvok, Hvs; reflexivity|cbn [List.length]; rewrite Hlen; reflexivity]].
    cbn [keep_from]. destruct (ug i) eqn:Hu.
    + rewrite init_globals_cons, (ghead_keep m' g i given Hu), Ehd. cbn [rbind].
      rewrite <- map_tl, (keep_from_tl_true i given Hu), E. cbn [rbind map]. reflexivity.
    + rewrite (keep_from_tl_false i given Hu). exact E.
Qed.

(* ---- entry points ---- *)
Theorem cell_sim_run_entry fuel ep gs args cells ret :
  forallb ook gs = true -> forallb vok args = true ->
  run_entry fuel m ep gs args = Done (cells, ret) ->
  run_entry fuel m' ep (gren gs) (map vren args) = Done (map vren (keep ug cells), oren ret).
Proof.
  intros Hgs Hargs H. unfold run_entry in *. inv_bind H. apply nth_res_done in Ha.
  destruct (Heps ep a Ha) as (e' & He' & FR). rewrite (nth_res_some _ _ _ _ He'). cbn [rbind].
  inv_bind H. inv_bind H. destruct a1 as [ret1 mem1]. inversion H; subst. rename a0 into mem0.
  destruct (init_globals_sim (m_globals m) 0 gs mem0 Hgs Ha0) as (E0 & Hvok0 & Hlen0).
  rewrite Hglobals. unfold gren, keep. rewrite E0. cbn [rbind].
  assert (Hm0 : map vren (keep_from ug 0 mem0) = mren mem0).
  { unfold mren, keep. f_equal. apply keep_from_ext. intros x Hx. symmetry. apply live_lt. unfold G. lia. }
  rewrite Hm0.
  assert (Hmem0 : mem_ok mem0 = true).
  { unfold mem_ok. rewrite Hvok0. cbn [andb]. apply Nat.leb_le. unfold G. lia. }
  destruct (cell_sim_all fuel) as (_ & _ & _ & _ & _ & Hrun).
  destruct (Hrun (ep_func a) (ep_func e') args mem0 FR Hargs Hmem0 (ret, mem1) Ha1) as [E1 Hok1].
  rewrite E1. cbn [rbind ren2 fst snd]. f_equal. f_equal.
  fold (keep ug (m_globals m)). rewrite keep_length. fold G.
  unfold mren. rewrite firstn_map. f_equal.
  rewrite <- (rc_lt G (le_n _)). rewrite keep_firstn.
  apply keep_ext. intros x Hx. apply live_lt. rewrite firstn_length in Hx. lia.
Qed.

End Sim.

(* ---- inputs without pointers (what a harness can supply) are left alone by the renaming ---- *)
Definition pfree (v : value) : bool := vok (fun _ => false) v.
Definition opfree (o : option value) : bool := match o with Some v => pfree v | None => true end.

Lemma pfree_closed live v : pfree v = true -> vren live v = v /\ vok live v = true.
Proof.
  unfold pfree. induction v using value_ind2; cbn [vren vok]; intro Hp; try (split; reflexivity); try discriminate.
  all: assert (Hl : map (vren live) l = l /\ forallb (vok live) l = true)
      by (induction H as [|x l Hx Hl IH]; cbn [forallb map] in *; [split; reflexivity|];
          apply andb_true_iff in Hp; destruct Hp as [Hp1 Hp2]; destruct (Hx Hp1) as [E1 E2]; destruct (IH Hp2) as [F1 F2];
          rewrite E1, E2, F1, F2; split; reflexivity).
  all: destruct Hl as [E1 E2]; rewrite E1; split; [reflexivity|exact E2].
Qed.

Lemma pfree_list live l : forallb pfree l = true -> map (vren live) l = l /\ forallb (vok live) l = true.
Proof.
  induction l as [|x l IH]; cbn [forallb map]; intro H; [split; reflexivity|].
  apply andb_true_iff in H. destruct H as [H1 H2]. destruct (pfree_closed live x H1) as [E1 E2]. destruct (IH H2) as [F1 F2].
  rewrite E1, E2, F1, F2. split; reflexivity.
Qed.

Lemma opfree_list live l : forallb opfree l = true -> map (oren live) l = l /\ forallb (ook live) l = true.
Proof.
  induction l as [|x l IH]; cbn [forallb map]; intro H; [split; reflexivity|].
  apply andb_true_iff in H. destruct H as [H1 H2]. destruct (IH H2) as [F1 F2]. rewrite F1, F2.
  destruct x as [v|]; cbn [oren option_map ook opfree] in *; [|split; reflexivity].
  destruct (pfree_closed live v H1) as [E1 E2]. rewrite E1, E2. split; reflexivity.
Qed.

Lemma forallb_keep_from {A} (p : A -> bool) u i l : forallb p l = true -> forallb p (keep_from u i l) = true.
Proof.
  revert i. induction l as [|x l IH]; intros i H; cbn [keep_from]; [reflexivity|].
  cbn [forallb] in H. apply andb_true_iff in H. destruct H as [H1 H2].
  destruct (u i); cbn [forallb]; rewrite ?H1; apply IH; exact H2.
Qed.
