(* C13 — the general lemma: evaluation commutes with order-preserving renumbering
   of the expression arena of every function (dead entries dropped, Emit ranges
   adjusted, empty Emits removed) and with renumbering of the function arena.

   [sim_run_entry]: if module m' is related to m function by function through
   [fspec] (for some live set per function that is closed under operands and
   contains every statement operand), then every run of an entry point of m that
   terminates with a result terminates in m' with the same result, with the same fuel.

   The direction is a refinement: a dead expression covered by an Emit may fail in
   m (an out-of-bounds Load, say) and is not evaluated in m'. *)
From Coq Require Import List Arith Bool String Lia ZArith.
Import ListNotations.
Require Import Naga.IR.Syntax Naga.IR.Values Naga.IR.Sem Naga.Passes.Remap Naga.Passes.RemapProofs.
Local Open Scope nat_scope.

(* ---- result monad ---- *)
Lemma rbind_done {A B} (e : result A) (k : A -> result B) y :
  rbind e k = Done y -> exists a, e = Done a /\ k a = Done y.
Proof. destruct e; cbn; intros; try discriminate. eauto. Qed.

Ltac inv_bind H :=
  let a := fresh "a" in let Ha := fresh "Ha" in
  apply rbind_done in H; destruct H as (a & Ha & H).

Lemma rmap_map_ext {A B C} (g : A -> result C) (g' : B -> result C) (r : A -> B) l :
  (forall x, In x l -> g' (r x) = g x) -> rmap g' (map r l) = rmap g l.
Proof.
  induction l as [|x l IH]; intro H; cbn [map rmap]; [reflexivity|].
  rewrite H by (left; reflexivity). rewrite IH; [reflexivity|]. intros. apply H. right. assumption.
Qed.

Lemma rmap_ext {A C} (g g' : A -> result C) l : (forall x, In x l -> g' x = g x) -> rmap g' l = rmap g l.
Proof. intro H. rewrite <- (map_id l) at 1. apply rmap_map_ext. exact H. Qed.

Lemma nth_error_set_nth {A} (l : list A) i j x :
  nth_error (set_nth l i x) j =
  if Nat.eqb i j then match nth_error l i with Some _ => Some x | None => None end else nth_error l j.
Proof.
  revert i j. induction l as [|y l IH]; intros i j.
  - cbn. destruct (Nat.eqb i j); destruct i, j; reflexivity.
  - destruct i as [|i], j as [|j]; cbn [set_nth nth_error Nat.eqb]; try reflexivity. apply IH.
Qed.

Lemma nth_res_done {A} msg (l : list A) i x : nth_res msg l i = Done x -> nth_error l i = Some x.
Proof. unfold nth_res. destruct (nth_error l i); intro H; inversion H. reflexivity. Qed.

Lemma nth_res_some {A} msg (l : list A) i x : nth_error l i = Some x -> nth_res msg l i = Done x.
Proof. unfold nth_res. intro H. rewrite H. reflexivity. Qed.

(* ---- renaming of the function handle of a call result ---- *)
Definition rename_callres (rf : nat -> nat) (e : expr) : expr :=
  match e with ECallResult f => ECallResult (rf f) | _ => e end.

Lemma pure_kind_rename r rf e : pure_kind (rename_callres rf (rename_expr r e)) = pure_kind e.
Proof. destruct e; cbn; try reflexivity. destruct (compact_knows_expr tag); reflexivity. Qed.

(* ---- expressions: evaluation commutes with renaming of the operands ---- *)
Lemma eval_expr_rename m m' get get' cv cv' args locals mem r rf e :
  m_types m' = m_types m -> m_globals m' = m_globals m ->
  (forall c, cv' c = cv c) ->
  (forall x, In x (compact_expr_refs e) -> get' (r x) = get x) ->
  eval_expr m' get' cv' args locals mem (rename_callres rf (rename_expr r e)) = eval_expr m get cv args locals mem e.
Proof.
  intros Ht Hg Hc Hx.
  destruct e; cbn [rename_expr rename_callres eval_expr compact_expr_refs expr_refs] in *; rewrite ?Ht, ?Hg, ?Hc;
    try reflexivity.
  - rewrite (rmap_map_ext get get' r) by exact Hx. reflexivity.
  - rewrite !Hx by (cbn; auto). reflexivity.
  - rewrite !Hx by (cbn; auto). reflexivity.
  - rewrite !Hx by (cbn; auto). reflexivity.
  - rewrite !Hx by (cbn; auto). reflexivity.
  - rewrite !Hx by (cbn; auto). reflexivity.
  - rewrite !Hx by (cbn; auto). reflexivity.
  - rewrite !Hx by (cbn; auto). reflexivity.
  - rewrite !Hx by (cbn; auto). reflexivity.
  - rewrite !Hx by (cbn; auto). reflexivity.
  - rewrite (rmap_map_ext get get' r) by exact Hx. reflexivity.
  - rewrite !Hx by (cbn; auto). reflexivity.
  - rewrite !Hx by (cbn; auto). reflexivity.
  - destruct (compact_knows_expr tag); reflexivity.
Qed.

Lemma eval_expr_ext m m' get get' cv cv' args locals mem e :
  m_types m' = m_types m -> m_globals m' = m_globals m ->
  (forall c, cv' c = cv c) -> (forall x, get' x = get x) ->
  eval_expr m' get' cv' args locals mem e = eval_expr m get cv args locals mem e.
Proof.
  intros Ht Hg Hc Hx.
  destruct e; cbn [eval_expr]; rewrite ?Ht, ?Hg, ?Hc, ?Hx; try reflexivity.
  - rewrite (rmap_ext get get') by (intros; apply Hx). reflexivity.
  - rewrite (rmap_ext get get') by (intros; apply Hx). reflexivity.
Qed.

(* ---- module-level data that the passes of this file leave alone ---- *)
Section SameGlobals.
Variables m m' : module.
Hypothesis Htypes : m_types m' = m_types m.
Hypothesis Hglobals : m_globals m' = m_globals m.
Hypothesis Hconsts : m_constants m' = m_constants m.
Hypothesis Hgexprs : m_global_exprs m' = m_global_exprs m.

Lemma eval_global_expr_same fuel i : eval_global_expr fuel m' i = eval_global_expr fuel m i.
Proof.
  revert i. induction fuel as [|fuel IH]; intro i; cbn [eval_global_expr]; [reflexivity|].
  rewrite Hgexprs. destruct (nth_res "global expression handle" (m_global_exprs m) i); cbn [rbind]; try reflexivity.
  apply eval_expr_ext; auto.
  intro c. rewrite Hconsts. destruct (nth_res "constant handle" (m_constants m) c); cbn [rbind]; auto.
Qed.

Lemma const_value_of_same c : const_value_of m' c = const_value_of m c.
Proof.
  unfold const_value_of. rewrite Hconsts, Hgexprs.
  destruct (nth_res "constant handle" (m_constants m) c); cbn [rbind]; auto. apply eval_global_expr_same.
Qed.

Lemma default_global_same g : default_global m' g = default_global m g.
Proof.
  unfold default_global. rewrite Hgexprs, Htypes.
  destruct (g_init_expr g); [apply eval_global_expr_same|].
  destruct (g_init g); [apply const_value_of_same|reflexivity].
Qed.

Lemma init_globals_same gs given : init_globals m' gs given = init_globals m gs given.
Proof.
  revert given. induction gs as [|g gs IH]; intro given; cbn [init_globals]; [reflexivity|].
  rewrite default_global_same, IH. reflexivity.
Qed.
End SameGlobals.

(* ====================================================================== *)
(* The relation between a function and its renumbered version              *)
Lemma compact_refs_incl e x : In x (compact_expr_refs e) -> In x (expr_refs e).
Proof. destruct e; cbn; auto. destruct (compact_knows_expr tag); cbn; tauto. Qed.

Section Rel.
Variable u : nat -> bool.      (* live expressions of the source function *)
Variable n : nat.              (* size of the source arena *)
Variable rf : nat -> nat.      (* renumbering of function handles *)
Variable fused : nat -> Prop.  (* function handles that have a counterpart *)
Let r := rank u.

Definition ok (h : nat) : Prop := u h = true /\ h < n.
Definition ok_opt (o : option nat) : Prop := match o with Some h => ok h | None => True end.

Definition simple_stmt (s : stmt) : bool :=
  match s with
  | SEmit _ _ | SBlock _ | SIf _ _ _ | SSwitch _ _ | SLoop _ _ _ | SCall _ _ _ => false
  | _ => true
  end.

Inductive srel : stmt -> stmt -> Prop :=
| sr_emit a b : srel (SEmit a b) (SEmit (r a) (r b))
| sr_block b b' : brel b b' -> srel (SBlock b) (SBlock b')
| sr_if c a a' rj rj' : ok c -> brel a a' -> brel rj rj' -> srel (SIf c a rj) (SIf (r c) a' rj')
| sr_switch sel cs cs' : ok sel -> crel cs cs' -> srel (SSwitch sel cs) (SSwitch (r sel) cs')
| sr_loop b b' c c' bi : ok_opt bi -> brel b b' -> brel c c' -> srel (SLoop b c bi) (SLoop b' c' (rename_opt r bi))
| sr_call fn args res : fused fn -> Forall ok args -> ok_opt res ->
                        srel (SCall fn args res) (SCall (rf fn) (map r args) (rename_opt r res))
| sr_simple s : simple_stmt s = true -> Forall ok (stmt_refs s) -> srel s (rename_simple_stmt r s)
with brel : list stmt -> list stmt -> Prop :=
| br_nil : brel [] []
| br_cons s s' b b' : srel s s' -> brel b b' -> brel (s :: b) (s' :: b')
| br_drop a c b b' : r c <= r a -> brel b b' -> brel (SEmit a c :: b) b'
with crel : list (switch_value * list stmt * bool) -> list (switch_value * list stmt * bool) -> Prop :=
| cr_nil : crel [] []
| cr_cons v b b' ft cs cs' : brel b b' -> crel cs cs' -> crel ((v, b, ft) :: cs) ((v, b', ft) :: cs').

Definition fwd_free (es : list expr) : Prop :=
  forall h e x, nth_error es h = Some e -> In x (expr_refs e) -> x < h.

Record fspec (f f' : func) : Prop := mkfspec {
  fs_n : n = List.length (f_exprs f);
  fs_fwd : fwd_free (f_exprs f);
  fs_closed : forall h e x, u h = true -> nth_error (f_exprs f) h = Some e -> In x (compact_expr_refs e) -> u x = true;
  fs_exprs : forall h e, u h = true -> nth_error (f_exprs f) h = Some e ->
                         nth_error (f_exprs f') (r h) = Some (rename_callres rf (rename_expr r e));
  fs_len : List.length (f_exprs f') = r n;
  fs_body : brel (f_body f) (f_body f');
  fs_locals : f_locals f' = map (fun l => mklocal (lv_name l) (lv_type l) (option_map r (lv_init l))) (f_locals f);
  fs_inits : Forall (fun l => ok_opt (lv_init l)) (f_locals f)
}.

Definition R (fr fr' : frame) : Prop :=
  fr_args fr' = fr_args fr /\ fr_locals fr' = fr_locals fr /\
  forall h, ok h -> nth_error (fr_cache fr') (r h) = nth_error (fr_cache fr) h.

Lemma find_case_crel cs cs' sel i : crel cs cs' -> find_case cs' sel i = find_case cs sel i.
Proof. intro H. revert i. induction H; intro i; cbn [find_case]; [reflexivity|]. rewrite IHcrel. reflexivity. Qed.

Lemma find_default_crel cs cs' i : crel cs cs' -> find_default cs' i = find_default cs i.
Proof. intro H. revert i. induction H; intro i; cbn [find_default]; [reflexivity|]. rewrite IHcrel. reflexivity. Qed.

Lemma crel_skipn cs cs' i : crel cs cs' -> crel (skipn i cs) (skipn i cs').
Proof. intro H. revert i. induction H; intro i; destruct i; cbn [skipn]; try constructor; auto. Qed.

(* ---- one function, fixed modules ---- *)
Section Fun.
Variables m m' : module.
Hypothesis Htypes : m_types m' = m_types m.
Hypothesis Hglobals : m_globals m' = m_globals m.
Hypothesis Hconsts : m_constants m' = m_constants m.
Hypothesis Hgexprs : m_global_exprs m' = m_global_exprs m.
Variables f f' : func.
Hypothesis FS : fspec f f'.

Lemma eval_handle_sim fr fr' mem :
  R fr fr' ->
  forall fuel fuel' h, ok h -> h < fuel -> r h < fuel' ->
  eval_handle fuel' m' f' fr' mem (r h) = eval_handle fuel m f fr mem h.
Proof.
  intros HR fuel. induction fuel as [|fuel IH]; intros fuel' h Hok Hlt Hlt'; [lia|].
  destruct fuel' as [|fuel']; [lia|].
  cbn [eval_handle]. destruct HR as (Ha & Hl & Hc). rewrite (Hc h Hok).
  destruct (nth_error (fr_cache fr) h) as [[v|]|]; try reflexivity.
  - destruct Hok as [Hu Hn]. rewrite (fs_n _ _ FS) in Hn.
    destruct (nth_error (f_exprs f) h) as [e|] eqn:He; [|apply nth_error_None in He; lia].
    rewrite (nth_res_some _ _ _ _ He), (nth_res_some _ _ _ _ (fs_exprs _ _ FS h e Hu He)). cbn [rbind].
    rewrite pure_kind_rename. destruct (pure_kind e); [|reflexivity].
    rewrite Ha, Hl. apply eval_expr_rename; auto.
    + intro c. apply const_value_of_same; auto.
    + intros x Hx.
      assert (x < h) by (eapply (fs_fwd _ _ FS); eauto using compact_refs_incl).
      apply IH.
      * split; [eapply (fs_closed _ _ FS); eauto|]. rewrite (fs_n _ _ FS). lia.
      * lia.
      * assert (r x < r h) by (apply rank_lt_used; [assumption|eapply (fs_closed _ _ FS); eauto]). lia.
  - destruct Hok as [Hu Hn]. rewrite (fs_n _ _ FS) in Hn.
    destruct (nth_error (f_exprs f) h) as [e|] eqn:He; [|apply nth_error_None in He; lia].
    rewrite (nth_res_some _ _ _ _ He), (nth_res_some _ _ _ _ (fs_exprs _ _ FS h e Hu He)). cbn [rbind].
    rewrite pure_kind_rename. destruct (pure_kind e); [|reflexivity].
    rewrite Ha, Hl. apply eval_expr_rename; auto.
    + intro c. apply const_value_of_same; auto.
    + intros x Hx.
      assert (x < h) by (eapply (fs_fwd _ _ FS); eauto using compact_refs_incl).
      apply IH.
      * split; [eapply (fs_closed _ _ FS); eauto|]. rewrite (fs_n _ _ FS). lia.
      * lia.
      * assert (r x < r h) by (apply rank_lt_used; [assumption|eapply (fs_closed _ _ FS); eauto]). lia.
Qed.

Lemma operand_sim fr fr' mem h :
  R fr fr' -> ok h -> operand m' f' fr' mem (r h) = operand m f fr mem h.
Proof.
  intros HR Hok. unfold operand. apply eval_handle_sim; auto.
  - destruct Hok as [_ Hn]. rewrite (fs_n _ _ FS) in Hn. lia.
  - rewrite (fs_len _ _ FS). destruct Hok as [_ Hn]. pose proof (rank_mono u h n). unfold r. lia.
Qed.

Lemma operands_sim fr fr' mem l :
  R fr fr' -> Forall ok l -> rmap (operand m' f' fr' mem) (map r l) = rmap (operand m f fr mem) l.
Proof.
  intros HR Hl. apply rmap_map_ext. intros x Hx. apply operand_sim; auto.
  rewrite Forall_forall in Hl. auto.
Qed.

Lemma R_set_cache fr fr' h v : R fr fr' -> ok h -> R (set_cache fr h v) (set_cache fr' (r h) v).
Proof.
  intros (Ha & Hl & Hc) Hok. unfold set_cache. split; [exact Ha|]. split; [exact Hl|].
  cbn [fr_cache]. intros x Hx. rewrite !nth_error_set_nth.
  destruct (Nat.eqb h x) eqn:E.
  - apply Nat.eqb_eq in E. subst x. rewrite Nat.eqb_refl. rewrite (Hc h Hok). reflexivity.
  - apply Nat.eqb_neq in E. destruct (Nat.eqb (r h) (r x)) eqn:E2.
    + apply Nat.eqb_eq in E2. exfalso. apply E. destruct Hok, Hx. eapply rank_inj_used; eauto.
    + apply Hc. exact Hx.
Qed.

Lemma R_set_cache_dead fr fr' h v : R fr fr' -> u h = false -> R (set_cache fr h v) fr'.
Proof.
  intros (Ha & Hl & Hc) Hu. unfold set_cache. split; [exact Ha|]. split; [exact Hl|].
  cbn [fr_cache]. intros x Hx. rewrite nth_error_set_nth.
  destruct (Nat.eqb h x) eqn:E; [|apply Hc; exact Hx].
  apply Nat.eqb_eq in E. subst x. destruct Hx as [Hx _]. congruence.
Qed.

Lemma R_opt_cache fr fr' res v :
  R fr fr' -> ok_opt res ->
  R (match res with Some h => set_cache fr h v | None => fr end)
    (match rename_opt r res with Some h => set_cache fr' h v | None => fr' end).
Proof. intros HR Hres. destruct res; cbn; [apply R_set_cache; auto|exact HR]. Qed.

(* SEmit *)
Lemma emit_sim mem k :
  forall h fr fr' fr1, R fr fr' ->
  emit_range k m f fr mem h = Done fr1 ->
  exists fr1', emit_range (count u h k) m' f' fr' mem (r h) = Done fr1' /\ R fr1 fr1'.
Proof.
  induction k as [|k IH]; intros h fr fr' fr1 HR H.
  - cbn in H |- *. inversion H; subst. eauto.
  - cbn [emit_range] in H. inv_bind H. inv_bind H. rename a into e, a0 into v.
    apply nth_res_done in Ha.
    assert (Hn : h < n) by (rewrite (fs_n _ _ FS); apply nth_error_Some; congruence).
    cbn [count]. destruct (u h) eqn:Hu.
    + cbn [Nat.add emit_range].
      rewrite (nth_res_some _ _ _ _ (fs_exprs _ _ FS h e Hu Ha)). cbn [rbind].
      assert (E : eval_expr m' (operand m' f' fr' mem) (const_value_of m') (fr_args fr') (fr_locals fr') mem
                            (rename_callres rf (rename_expr r e)) = Done v).
      { rewrite <- Ha0. destruct HR as (Hfa & Hfl & Hc). rewrite Hfa, Hfl. apply eval_expr_rename; auto.
        - intro c. apply const_value_of_same; auto.
        - intros x Hx. apply operand_sim; [repeat split; auto|].
          split; [eapply (fs_closed _ _ FS); eauto|].
          assert (x < h) by (eapply (fs_fwd _ _ FS); eauto using compact_refs_incl). lia. }
      rewrite E. cbn [rbind].
      replace (S (r h)) with (r (S h)) by (unfold r; rewrite rank_S, Hu; lia).
      apply IH with (fr := set_cache fr h v); [|exact H].
      apply R_set_cache; [exact HR|split; assumption].
    + cbn [Nat.add]. replace (r h) with (r (S h)) by (unfold r; rewrite rank_S, Hu; lia).
      apply IH with (fr := set_cache fr h v); [|exact H].
      apply R_set_cache_dead; assumption.
Qed.

Lemma emit_stmt_sim mem a b fr fr' fr1 :
  R fr fr' -> emit_range (b - a) m f fr mem a = Done fr1 ->
  exists fr1', emit_range (r b - r a) m' f' fr' mem (r a) = Done fr1' /\ R fr1 fr1'.
Proof.
  intros HR H. destruct (Nat.le_gt_cases a b) as [L|L].
  - replace (r b - r a) with (count u a (b - a)).
    + eapply emit_sim; eauto.
    + unfold r. replace b with (a + (b - a)) at 2 by lia. rewrite rank_add. lia.
  - replace (b - a) with 0 in H by lia. cbn in H. inversion H; subst.
    replace (r b - r a) with 0 by (pose proof (rank_mono u b a); unfold r; lia).
    cbn. eauto.
Qed.

Lemma emit_drop_sim mem a b fr fr' fr1 :
  R fr fr' -> r b <= r a -> emit_range (b - a) m f fr mem a = Done fr1 -> R fr1 fr'.
Proof.
  intros HR Hle H. destruct (emit_stmt_sim mem a b fr fr' fr1 HR H) as (fr1' & E & HR1).
  replace (r b - r a) with 0 in E by lia. cbn in E. inversion E; subst. exact HR1.
Qed.

(* local variables *)
Lemma alloc_locals_sim ls :
  Forall (fun l => ok_opt (lv_init l)) ls ->
  forall fr fr' mem fr1 mem1, R fr fr' ->
  alloc_locals m f ls fr mem = Done (fr1, mem1) ->
  exists fr1', alloc_locals m' f' (map (fun l => mklocal (lv_name l) (lv_type l) (option_map r (lv_init l))) ls) fr' mem
               = Done (fr1', mem1) /\ R fr1 fr1'.
Proof.
  induction 1 as [|l ls Hl Hls IH]; intros fr fr' mem fr1 mem1 HR H.
  - cbn in H |- *. inversion H; subst. eauto.
  - cbn [alloc_locals map] in H |- *. inv_bind H. cbn [lv_init lv_type].
    assert (E : match option_map r (lv_init l) with
                | Some h => operand m' f' fr' mem h
                | None => zero_value (m_types m') (lv_type l)
                end = Done a).
    { rewrite <- Ha. destruct (lv_init l) as [h|]; cbn [option_map].
      - apply operand_sim; auto.
      - rewrite Htypes. reflexivity. }
    rewrite E. cbn [rbind].
    eapply IH; [|exact H].
    destruct HR as (Hfa & Hfl & Hc). split; [exact Hfa|]. split; [cbn; rewrite Hfl; reflexivity|exact Hc].
Qed.

End Fun.
End Rel.

(* ====================================================================== *)
(* Whole modules                                                           *)
Section ModSim.
Variables m m' : module.
Variable rf : nat -> nat.
Variable fused : nat -> Prop.
Hypothesis Htypes : m_types m' = m_types m.
Hypothesis Hglobals : m_globals m' = m_globals m.
Hypothesis Hconsts : m_constants m' = m_constants m.
Hypothesis Hgexprs : m_global_exprs m' = m_global_exprs m.

Definition frel (f f' : func) : Prop := exists u, fspec u (List.length (f_exprs f)) rf fused f f'.

Hypothesis Hfuncs : forall i f, fused i -> nth_error (m_functions m) i = Some f ->
                                exists f', nth_error (m_functions m') (rf i) = Some f' /\ frel f f'.

Definition out3 := (outcome * frame * list value)%type.

Definition P_block (fuel : nat) : Prop :=
  forall u f f' b b' fr fr' mem o fr1 mem1,
    fspec u (List.length (f_exprs f)) rf fused f f' ->
    brel u (List.length (f_exprs f)) rf fused b b' -> R u (List.length (f_exprs f)) fr fr' ->
    exec_block fuel m f b fr mem = Done (o, fr1, mem1) ->
    forall fuel', fuel <= fuel' ->
    exists fr1', exec_block fuel' m' f' b' fr' mem = Done (o, fr1', mem1) /\ R u (List.length (f_exprs f)) fr1 fr1'.

Definition P_stmt (fuel : nat) : Prop :=
  forall u f f' s s' fr fr' mem o fr1 mem1,
    fspec u (List.length (f_exprs f)) rf fused f f' ->
    srel u (List.length (f_exprs f)) rf fused s s' -> R u (List.length (f_exprs f)) fr fr' ->
    exec_stmt fuel m f s fr mem = Done (o, fr1, mem1) ->
    forall fuel', fuel <= fuel' ->
    exists fr1', exec_stmt fuel' m' f' s' fr' mem = Done (o, fr1', mem1) /\ R u (List.length (f_exprs f)) fr1 fr1'.

Definition P_cases (fuel : nat) : Prop :=
  forall u f f' cs cs' fr fr' mem o fr1 mem1,
    fspec u (List.length (f_exprs f)) rf fused f f' ->
    crel u (List.length (f_exprs f)) rf fused cs cs' -> R u (List.length (f_exprs f)) fr fr' ->
    exec_cases fuel m f cs fr mem = Done (o, fr1, mem1) ->
    forall fuel', fuel <= fuel' ->
    exists fr1', exec_cases fuel' m' f' cs' fr' mem = Done (o, fr1', mem1) /\ R u (List.length (f_exprs f)) fr1 fr1'.

Definition P_loop (fuel : nat) : Prop :=
  forall u f f' b b' c c' bi fr fr' mem o fr1 mem1,
    fspec u (List.length (f_exprs f)) rf fused f f' ->
    brel u (List.length (f_exprs f)) rf fused b b' -> brel u (List.length (f_exprs f)) rf fused c c' ->
    ok_opt u (List.length (f_exprs f)) bi -> R u (List.length (f_exprs f)) fr fr' ->
    exec_loop fuel m f b c bi fr mem = Done (o, fr1, mem1) ->
    forall fuel', fuel <= fuel' ->
    exists fr1', exec_loop fuel' m' f' b' c' (rename_opt (rank u) bi) fr' mem = Done (o, fr1', mem1)
                 /\ R u (List.length (f_exprs f)) fr1 fr1'.

Definition P_call (fuel : nat) : Prop :=
  forall fi args mem res, fused fi ->
    call_function fuel m fi args mem = Done res ->
    forall fuel', fuel <= fuel' -> call_function fuel' m' (rf fi) args mem = Done res.

Definition P_run (fuel : nat) : Prop :=
  forall f f' args mem res, frel f f' ->
    run_function fuel m f args mem = Done res ->
    forall fuel', fuel <= fuel' -> run_function fuel' m' f' args mem = Done res.

Definition P_all (fuel : nat) : Prop :=
  P_block fuel /\ P_stmt fuel /\ P_cases fuel /\ P_loop fuel /\ P_call fuel /\ P_run fuel.

Lemma R_frame0 u f f' args :
  fspec u (List.length (f_exprs f)) rf fused f f' ->
  R u (List.length (f_exprs f)) (mkframe (repeat None (List.length (f_exprs f))) args [])
    (mkframe (repeat None (List.length (f_exprs f'))) args []).
Proof.
  intro FS. split; [reflexivity|]. split; [reflexivity|]. cbn [fr_cache]. intros h [Hu Hn].
  rewrite (fs_len _ _ _ _ _ _ FS).
  assert (rank u h < rank u (List.length (f_exprs f))) by (apply rank_lt_used; assumption).
  rewrite !nth_error_repeat by assumption. reflexivity.
Qed.

Lemma operand_sim' u f f' fr fr' mem h :
  fspec u (List.length (f_exprs f)) rf fused f f' -> R u (List.length (f_exprs f)) fr fr' ->
  ok u (List.length (f_exprs f)) h -> operand m' f' fr' mem (rank u h) = operand m f fr mem h.
Proof. intros. eapply operand_sim; eauto. Qed.

Lemma operands_sim' u f f' fr fr' mem l :
  fspec u (List.length (f_exprs f)) rf fused f f' -> R u (List.length (f_exprs f)) fr fr' ->
  Forall (ok u (List.length (f_exprs f))) l ->
  rmap (operand m' f' fr' mem) (map (rank u) l) = rmap (operand m f fr mem) l.
Proof. intros. eapply operands_sim; eauto. Qed.

Lemma emit_stmt_sim' u f f' mem a b fr fr' fr1 :
  fspec u (List.length (f_exprs f)) rf fused f f' -> R u (List.length (f_exprs f)) fr fr' ->
  emit_range (b - a) m f fr mem a = Done fr1 ->
  exists fr1', emit_range (rank u b - rank u a) m' f' fr' mem (rank u a) = Done fr1' /\ R u (List.length (f_exprs f)) fr1 fr1'.
Proof. intros. eapply emit_stmt_sim; eauto. Qed.

Theorem sim_all : forall fuel, P_all fuel.
Proof.
  induction fuel as [|fuel IH].
  { repeat split; red; intros; cbn in *; discriminate. }
  destruct IH as (IHb & IHs & IHc & IHl & IHcall & IHrun).
  repeat split.
  - (* blocks *)
    red. intros u f f' b b' fr fr' mem o fr1 mem1 FS Hb HR H fuel' Hle.
    destruct fuel' as [|fuel']; [lia|]. assert (Hle' : fuel <= fuel') by lia.
    cbn [exec_block] in H. inversion Hb; subst.
    + inversion H; subst. cbn [exec_block]. eauto.
    + inv_bind H. destruct a as [[o1 fr2] mem2].
      destruct (IHs u f f' s s' fr fr' mem o1 fr2 mem2 FS H0 HR Ha fuel' Hle') as (fr2' & E & HR2).
      cbn [exec_block]. rewrite E. cbn [rbind].
      destruct o1; try (inversion H; subst; eauto; fail).
      all: eapply IHb; eauto.
    + (* dropped Emit *)
      inv_bind H. destruct a0 as [[o1 fr2] mem2].
      destruct fuel as [|fuel0]; [cbn in Ha; discriminate|].
      cbn [exec_stmt] in Ha. inv_bind Ha. inversion Ha; subst.
      assert (HR2 : R u (List.length (f_exprs f)) fr2 fr') by (eapply emit_drop_sim; eauto).
      eapply IHb; eauto.
  - (* statements *)
    red. intros u f f' s s' fr fr' mem o fr1 mem1 FS Hs HR H fuel' Hle.
    destruct fuel' as [|fuel']; [lia|]. assert (Hle' : fuel <= fuel') by lia.
    inversion Hs; subst; cbn [exec_stmt] in H |- *.
    + (* Emit *)
      inv_bind H. inversion H; subst.
      destruct (emit_stmt_sim' _ _ _ _ _ _ _ _ _ FS HR Ha) as (fr1' & E & HR1).
      rewrite E. cbn [rbind]. eauto.
    + eapply IHb; eauto.
    + (* If *)
      inv_bind H. rewrite (operand_sim' _ _ _ _ _ _ _ FS HR H0), Ha.
      cbn [rbind]. destruct a0; try discriminate. destruct b; eapply IHb; eauto.
    + (* Switch *)
      inv_bind H. rewrite (operand_sim' _ _ _ _ _ _ _ FS HR H0), Ha.
      cbn [rbind]. rewrite (find_case_crel _ _ _ _ _ _ a 0 H1), (find_default_crel _ _ _ _ _ _ 0 H1).
      destruct (match find_case cs a 0 with Some i => Some i | None => find_default cs 0 end) as [i|].
      * inv_bind H. destruct a0 as [[o1 fr2] mem2]. inversion H; subst.
        destruct (IHc u f f' (skipn i cs) (skipn i cs') _ _ _ _ _ _ FS (crel_skipn _ _ _ _ _ _ i H1) HR Ha0 fuel' Hle')
          as (fr1' & E & HR1).
        rewrite E. cbn [rbind]. eauto.
      * inversion H; subst. eauto.
    + (* Loop *)
      eapply IHl; eauto.
    + (* Call *)
      inv_bind H. inv_bind H. destruct a0 as [ret mem2].
      rewrite (operands_sim' _ _ _ _ _ _ _ FS HR H1), Ha.
      cbn [rbind]. rewrite (IHcall _ _ _ _ H0 Ha0 fuel' Hle'). cbn [rbind].
      destruct res as [h|]; cbn [rename_opt option_map].
      * destruct ret as [v|]; [|discriminate]. inversion H; subst.
        eexists. split; [reflexivity|]. apply R_set_cache; auto.
      * inversion H; subst. eauto.
    + (* simple statements *)
      destruct s; try discriminate; cbn [rename_simple_stmt stmt_refs] in *.
      * inversion H; subst. eauto.
      * inversion H; subst. eauto.
      * (* Return *)
        destruct value as [h|]; cbn [rename_opt option_map].
        -- inv_bind H. inversion H; subst.
           assert (Hok : ok u (List.length (f_exprs f)) h) by (inversion H1; assumption).
           rewrite (operand_sim' _ _ _ _ _ _ _ FS HR Hok), Ha. cbn [rbind]. eauto.
        -- inversion H; subst. eauto.
      * inversion H; subst. eauto.
      * inversion H; subst. eauto.
      * (* Store *)
        inv_bind H. inv_bind H. inv_bind H. inversion H; subst.
        assert (Hp : ok u (List.length (f_exprs f)) pointer) by (inversion H1; assumption).
        assert (Hv : ok u (List.length (f_exprs f)) value) by (inversion H1 as [|? ? ? Hx]; inversion Hx; assumption).
        rewrite (operand_sim' _ _ _ _ _ _ _ FS HR Hp), Ha. cbn [rbind].
        rewrite (operand_sim' _ _ _ _ _ _ _ FS HR Hv), Ha0. cbn [rbind].
        rewrite Ha1. cbn [rbind]. eauto.
      * (* Atomic *)
        destruct compare as [c|]; cbn [rename_opt option_map]; [discriminate|].
        inv_bind H. inv_bind H.
        assert (Hp : ok u (List.length (f_exprs f)) pointer) by (inversion H1; assumption).
        assert (Hv : ok u (List.length (f_exprs f)) value).
        { inversion H1 as [|? ? ? Hx]; subst. cbn in Hx. inversion Hx; assumption. }
        assert (Hr : ok_opt u (List.length (f_exprs f)) result).
        { inversion H1 as [|? ? ? Hx]; subst. cbn in Hx. inversion Hx as [|? ? ? Hy]; subst.
          destruct result; cbn in *; [inversion Hy; assumption|exact I]. }
        rewrite (operand_sim' _ _ _ _ _ _ _ FS HR Hp), Ha. cbn [rbind].
        rewrite (operand_sim' _ _ _ _ _ _ _ FS HR Hv), Ha0. cbn [rbind].
        destruct a; try discriminate.
        inv_bind H. inv_bind H. inv_bind H. inv_bind H. inversion H; subst.
        rewrite Ha1. cbn [rbind]. rewrite Ha2. cbn [rbind]. rewrite Ha3. cbn [rbind]. rewrite Ha4. cbn [rbind].
        eexists. split; [reflexivity|]. apply R_opt_cache; auto.
  - (* cases *)
    red. intros u f f' cs cs' fr fr' mem o fr1 mem1 FS Hc HR H fuel' Hle.
    destruct fuel' as [|fuel']; [lia|]. assert (Hle' : fuel <= fuel') by lia.
    cbn [exec_cases] in H |- *. inversion Hc; subst.
    + inversion H; subst. eauto.
    + inv_bind H. destruct a as [[o1 fr2] mem2].
      destruct (IHb u f f' b b' fr fr' mem o1 fr2 mem2 FS H0 HR Ha fuel' Hle') as (fr2' & E & HR2).
      rewrite E. cbn [rbind].
      destruct o1; try (inversion H; subst; eauto; fail).
      all: destruct ft; [eapply IHc; eauto|inversion H; subst; eauto].
  - (* loops *)
    red. intros u f f' b b' c c' bi fr fr' mem o fr1 mem1 FS Hb Hc Hbi HR H fuel' Hle.
    destruct fuel' as [|fuel']; [lia|]. assert (Hle' : fuel <= fuel') by lia.
    cbn [exec_loop] in H |- *.
    inv_bind H. destruct a as [[o1 fr2] mem2].
    destruct (IHb u f f' b b' fr fr' mem o1 fr2 mem2 FS Hb HR Ha fuel' Hle') as (fr2' & E & HR2).
    rewrite E. cbn [rbind].
    assert (Hcont :
      (r2 <~ exec_block fuel m f c fr2 mem2 ;;
       let '(o2, fr3, mem3) := r2 in
       match o2 with
       | ONormal =>
         match bi with
         | None => exec_loop fuel m f b c bi fr3 mem3
         | Some h => bv <~ operand m f fr3 mem3 h ;;
                     match bv with
                     | VBool true => Done (ONormal, fr3, mem3)
                     | VBool false => exec_loop fuel m f b c bi fr3 mem3
                     | _ => Fail "break if: not a bool"
                     end
         end
       | OReturn _ | OKill => Done (o2, fr3, mem3)
       | _ => Fail "break/continue escaping a continuing block"
       end) = Done (o, fr1, mem1) ->
      exists fr1',
        (r2 <~ exec_block fuel' m' f' c' fr2' mem2 ;;
         let '(o2, fr3, mem3) := r2 in
         match o2 with
         | ONormal =>
           match rename_opt (rank u) bi with
           | None => exec_loop fuel' m' f' b' c' (rename_opt (rank u) bi) fr3 mem3
           | Some h => bv <~ operand m' f' fr3 mem3 h ;;
                       match bv with
                       | VBool true => Done (ONormal, fr3, mem3)
                       | VBool false => exec_loop fuel' m' f' b' c' (rename_opt (rank u) bi) fr3 mem3
                       | _ => Fail "break if: not a bool"
                       end
           end
         | OReturn _ | OKill => Done (o2, fr3, mem3)
         | _ => Fail "break/continue escaping a continuing block"
         end) = Done (o, fr1', mem1) /\ R u (List.length (f_exprs f)) fr1 fr1').
    { intro H2. inv_bind H2. destruct a as [[o2 fr3] mem3].
      destruct (IHb u f f' c c' fr2 fr2' mem2 o2 fr3 mem3 FS Hc HR2 Ha0 fuel' Hle') as (fr3' & E3 & HR3).
      rewrite E3. cbn [rbind].
      destruct o2; try discriminate; try (inversion H2; subst; eauto; fail).
      destruct bi as [h|]; cbn [rename_opt option_map].
      - inv_bind H2.
        rewrite (operand_sim' _ _ _ _ _ _ _ FS HR3 Hbi), Ha1. cbn [rbind].
        destruct a; try discriminate. destruct b0.
        + inversion H2; subst. eauto.
        + eapply (IHl u f f' b b' c c' (Some h)); eauto.
      - eapply (IHl u f f' b b' c c' None); eauto. }
    destruct o1; try (inversion H; subst; eauto; fail); apply Hcont; exact H.
  - (* calls *)
    red. intros fi args mem res Hfu H fuel' Hle.
    destruct fuel' as [|fuel']; [lia|]. assert (Hle' : fuel <= fuel') by lia.
    cbn [call_function] in H |- *. inv_bind H. apply nth_res_done in Ha.
    destruct (Hfuncs fi a Hfu Ha) as (f' & Hf' & Hrel).
    rewrite (nth_res_some _ _ _ _ Hf'). cbn [rbind]. eapply IHrun; eauto.
  - (* function bodies *)
    red. intros f f' args mem res [u FS] H fuel' Hle.
    destruct fuel' as [|fuel']; [lia|]. assert (Hle' : fuel <= fuel') by lia.
    cbn [run_function] in H |- *.
    inv_bind H. destruct a as [fr mem0]. inv_bind H. destruct a as [[o fr1] mem1].
    rewrite (fs_locals _ _ _ _ _ _ FS).
    destruct (alloc_locals_sim u _ rf fused m m' Htypes Hglobals Hconsts Hgexprs f f' FS (f_locals f)
                (fs_inits _ _ _ _ _ _ FS) _ _ mem fr mem0 (R_frame0 u f f' args FS) Ha) as (fr' & E & HR).
    rewrite E. cbn [rbind].
    destruct (IHb u f f' (f_body f) (f_body f') fr fr' mem0 o fr1 mem1 FS (fs_body _ _ _ _ _ _ FS) HR Ha0 fuel' Hle')
      as (fr1' & E1 & HR1).
    rewrite E1. cbn [rbind]. exact H.
Qed.

(* entry points *)
Hypothesis Heps : forall i e, nth_error (m_entry_points m) i = Some e ->
                              exists e', nth_error (m_entry_points m') i = Some e' /\ frel (ep_func e) (ep_func e').

Theorem sim_run_entry fuel ep gs args res :
  run_entry fuel m ep gs args = Done res -> run_entry fuel m' ep gs args = Done res.
Proof.
  unfold run_entry. intro H. inv_bind H. apply nth_res_done in Ha.
  destruct (Heps ep a Ha) as (e' & He' & Hrel).
  rewrite (nth_res_some _ _ _ _ He'). cbn [rbind].
  inv_bind H. inv_bind H. destruct a1 as [ret mem1].
  rewrite Hglobals, (init_globals_same m m' Htypes Hglobals Hconsts Hgexprs), Ha0. cbn [rbind].
  destruct (sim_all fuel) as (_ & _ & _ & _ & _ & Hrun).
  rewrite (Hrun _ _ _ _ _ Hrel Ha1 fuel (le_n _)). cbn [rbind]. exact H.
Qed.

End ModSim.
