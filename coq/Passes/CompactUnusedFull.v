(* C13 — CompactUnused (model), FULL statement: unreachable functions AND unused global
   variables are removed, and every terminating run of an entry point is reproduced on
   the result, on the kept globals, up to the order-preserving renaming of memory cells.

   Two steps:
     m  --(functions removed, calls renumbered: Passes/RenameSound.v, equal results)-->  m1
     m1 --(globals removed, EGlobalVariable renumbered: Passes/CellRenameSound.v,
           results renamed)-->  compact_unused m
   The side conditions of the partial theorem are gone: that the live sets computed by the
   model are closed under calls is [used_functions_closed]; that no function kept mentions
   a removed global follows from the definition of [used_globals] (every [EGlobalVariable]
   of an entry point or kept function is marked).

   Hypotheses left (all executable, evaluated by the check on every module):
   [module_wf], [calls_in_rangeb], and [gexprs_closedb]: the module-scope expression arena
   (constant and global initialisers) contains no [EGlobalVariable] (WGSL initialisers are
   const-expressions; ir/compact.go does not renumber that arena either). *)
From Coq Require Import List Arith Bool String Lia ZArith.
Import ListNotations.
Require Import Naga.IR.Syntax Naga.IR.Values Naga.IR.Sem.
Require Import Naga.Passes.Remap Naga.Passes.RemapProofs Naga.Passes.Compact Naga.Passes.RenameSound
               Naga.Passes.CompactExprProofs Naga.Passes.CompactUnusedProofs Naga.Passes.CompactUnusedIdem
               Naga.Passes.CellRenameOps Naga.Passes.CellRenameSound.
Local Open Scope nat_scope.
Local Open Scope list_scope.

Definition gexprs_closedb (m : module) : bool := forallb not_globalvar (m_global_exprs m).

(* ---- the shape of the result, with the kept globals made explicit ---- *)
Lemma compact_unused_shape m :
  let uf := used_functions m in
  let ug := used_globals m uf in
  m_entry_points m = [] \/
  (all_true uf = true /\ all_true ug = true /\ compact_unused m = m) \/
  exists rg rf,
    (forall k, uget uf k = true -> rf k = rank (uget uf) k)
    /\ (forall k, uget ug k = true -> rg k = rank (uget ug) k)
    /\ compact_unused m = cu_shape m rg rf (keep (uget ug) (m_globals m)).
Proof.
  cbv zeta.
  destruct (m_entry_points m) as [|ep0 eps0] eqn:Eeps; [left; reflexivity|right].
  assert (Hne : m_entry_points m <> []) by (rewrite Eeps; discriminate).
  rewrite (compact_unused_unfold m Hne). cbv zeta.
  set (uf := used_functions m). set (ug := used_globals m uf).
  assert (Hlg : List.length ug = List.length (m_globals m)).
  { unfold ug, used_globals. rewrite marks_length. apply repeat_length. }
  assert (Hlf : List.length uf = List.length (m_functions m)) by (apply uf_length).
  destruct (all_true ug) eqn:Hg; destruct (all_true uf) eqn:Hf; cbn [negb andb].
  - left. auto.
  - right. exists (fun h => h), (remap0 uf). repeat split.
    + apply remap0_live.
    + intros k Hk. apply id_live; assumption.
    + unfold cu_shape. fold uf. fold ug.
      rewrite (keep_all_lt (uget ug) (m_globals m)); [reflexivity|].
      intros x Hx. apply all_true_uget; [exact Hg|lia].
  - right. exists (remap0 ug), (fun h => h). repeat split.
    + intros k Hk. apply id_live; assumption.
    + apply remap0_live.
    + unfold cu_shape. fold uf.
      rewrite (keep_all_lt (uget uf) (m_functions m)); [reflexivity|].
      intros x Hx. apply all_true_uget; [exact Hf|lia].
  - right. exists (remap0 ug), (remap0 uf). repeat split; apply remap0_live.
Qed.

(* every global mentioned by an entry point or a kept function is live *)
Lemma used_globals_spec m f g :
  In f (map ep_func (m_entry_points m) ++ keep (uget (used_functions m)) (m_functions m)) ->
  In g (fn_globals f) -> g < List.length (m_globals m) ->
  uget (used_globals m (used_functions m)) g = true.
Proof.
  intros Hf Hg Hlt. unfold used_globals. apply uget_marks. right. split.
  - apply in_flat_map. exists f. split; assumption.
  - rewrite repeat_length. exact Hlt.
Qed.

Lemma fn_globals_nth f h g : nth_error (f_exprs f) h = Some (EGlobalVariable g) -> In g (fn_globals f).
Proof.
  intro H. unfold fn_globals. apply in_flat_map. exists (EGlobalVariable g). split; [eapply nth_error_In; eauto|left; reflexivity].
Qed.

Section Full.
Variable m : module.
Let uf := used_functions m.
Let ugs := used_globals m uf.
Let ug := uget ugs.
Let G := List.length (m_globals m).

Hypothesis Hwf : module_wf m.
Hypothesis Hrange : calls_in_rangeb m = true.
Hypothesis Hgx : gexprs_closedb m = true.

(* ---- step 1: functions ---- *)
Section Step1.
Variable rf : nat -> nat.
Hypothesis Hrf : forall k, uget uf k = true -> rf k = rank (uget uf) k.
Let m1 := cu_shape m (fun h => h) rf (m_globals m).

Lemma step1_sound fuel ep gs args res :
  run_entry fuel m ep gs args = Done res -> run_entry fuel m1 ep gs args = Done res.
Proof.
  pose proof (used_functions_closed m Hrange) as Hcl. fold uf in Hcl.
  apply andb_true_iff in Hcl. destruct Hcl as [Hcl1 Hcl2]. rewrite forallb_forall in Hcl1, Hcl2.
  apply (sim_run_entry m m1 rf (fun i => uget uf i = true)); try reflexivity.
  - intros i f Hu Hn. exists (rename_gf_func (fun h => h) rf f). split.
    + unfold m1, cu_shape. cbn [m_functions]. fold uf. rewrite nth_error_map, (Hrf i Hu), (keep_nth _ _ i f Hn Hu). reflexivity.
    + exists utrue. apply fspec_rename_f; [eapply module_wf_function; eauto|].
      intros x Hx. assert (Hk : In f (keep (uget uf) (m_functions m))).
      { eapply nth_error_In. apply (keep_nth _ _ i f Hn Hu). }
      specialize (Hcl2 f Hk). rewrite forallb_forall in Hcl2. apply Hcl2. exact Hx.
  - intros i e Hn. eexists. split.
    + unfold m1, cu_shape. cbn [m_entry_points]. rewrite nth_error_map, Hn. reflexivity.
    + cbn [ep_func]. exists utrue. apply fspec_rename_f; [eapply module_wf_entry; eauto|].
      intros x Hx. specialize (Hcl1 e (nth_error_In _ _ Hn)). rewrite forallb_forall in Hcl1. apply Hcl1. exact Hx.
Qed.

(* ---- step 2: globals ---- *)
Variable rg : nat -> nat.
Hypothesis Hrg : forall k, ug k = true -> rg k = rank ug k.
Let m2 := cu_shape m rg rf (keep ug (m_globals m)).

Lemma frel_g_rename f :
  In f (map ep_func (m_entry_points m) ++ keep (uget uf) (m_functions m)) ->
  frel_g m1 ug (rename_gf_func (fun h => h) rf f) (rename_gf_func rg rf f).
Proof.
  intro Hin. constructor; cbn [rename_gf_func f_locals f_body f_exprs]; try reflexivity.
  - rewrite !map_length. reflexivity.
  - intros h e He. rewrite nth_error_map in He.
    destruct (nth_error (f_exprs f) h) as [e0|] eqn:E0; [|discriminate]. cbn [option_map] in He. inversion He; subst e.
    exists (rename_gf_expr rg rf e0). split; [rewrite nth_error_map, E0; reflexivity|].
    destruct e0; cbn [rename_gf_expr gexpr_rel]; try reflexivity.
    exists (rg g). split; [reflexivity|]. intro Hlt.
    assert (Hu : ug g = true).
    { unfold ug, ugs, uf. eapply used_globals_spec; eauto. eapply fn_globals_nth; eauto. }
    split; [exact Hu|apply Hrg; exact Hu].
Qed.

Lemma step2_sound fuel ep gs args cells ret :
  forallb (ook (cell_live m1 ug)) gs = true -> forallb (vok (cell_live m1 ug)) args = true ->
  run_entry fuel m1 ep gs args = Done (cells, ret) ->
  run_entry fuel m2 ep (gren m1 ug gs) (map (vren (cell_live m1 ug)) args)
  = Done (map (vren (cell_live m1 ug)) (keep ug cells), oren (cell_live m1 ug) ret).
Proof.
  apply (cell_sim_run_entry m1 m2 ug); try reflexivity.
  - exact Hgx.
  - intros i f1 Hn. unfold m1, cu_shape in Hn. cbn [m_functions] in Hn. rewrite nth_error_map in Hn.
    destruct (nth_error (keep (uget (used_functions m)) (m_functions m)) i) as [f|] eqn:E; [|discriminate].
    cbn [option_map] in Hn. inversion Hn; subst f1.
    exists (rename_gf_func rg rf f). split.
    + unfold m2, cu_shape. cbn [m_functions]. rewrite nth_error_map, E. reflexivity.
    + apply frel_g_rename. apply in_or_app. right. eapply nth_error_In; eauto.
  - intros i e1 Hn. unfold m1, cu_shape in Hn. cbn [m_entry_points] in Hn. rewrite nth_error_map in Hn.
    destruct (nth_error (m_entry_points m) i) as [e|] eqn:E; [|discriminate].
    cbn [option_map] in Hn. inversion Hn; subst e1.
    eexists. split.
    + unfold m2, cu_shape. cbn [m_entry_points]. rewrite nth_error_map, E. reflexivity.
    + cbn [ep_func]. apply frel_g_rename. apply in_or_app. left. apply in_map. eapply nth_error_In; eauto.
Qed.
End Step1.

(* nothing removed: the same statement holds with the identity renaming *)
Lemma frel_g_id f :
  all_true ugs = true ->
  In f (map ep_func (m_entry_points m) ++ keep (uget uf) (m_functions m)) -> frel_g m ug f f.
Proof.
  intros Hall Hin. constructor; try reflexivity.
  intros h e He. exists e. split; [exact He|].
  destruct e; cbn [gexpr_rel]; try reflexivity.
  exists g. split; [reflexivity|]. intro Hlt.
  assert (Hu : ug g = true).
  { unfold ug, ugs, uf. eapply used_globals_spec; eauto. eapply fn_globals_nth; eauto. }
  split; [exact Hu|]. apply id_live; assumption.
Qed.

Definition cu_live : nat -> bool := cell_live m ug.

Theorem compact_unused_sound_cells fuel ep gs args cells ret :
  forallb (ook cu_live) gs = true -> forallb (vok cu_live) args = true ->
  run_entry fuel m ep gs args = Done (cells, ret) ->
  run_entry fuel (compact_unused m) ep (map (oren cu_live) (keep ug gs)) (map (vren cu_live) args)
  = Done (map (vren cu_live) (keep ug cells), oren cu_live ret).
Proof.
  intros Hgs Hargs H.
  assert (Hlg : List.length ugs = List.length (m_globals m)).
  { unfold ugs, used_globals. rewrite marks_length. apply repeat_length. }
  destruct (compact_unused_shape m) as [Hnil|[(Hf & Hg & E)|(rg & rf & Hrf & Hrg & E)]].
  - unfold run_entry in H. rewrite Hnil in H. destruct ep; discriminate.
  - rewrite E. fold uf in Hf. fold uf ugs in Hg.
    assert (Hkeep : keep (uget uf) (m_functions m) = m_functions m).
    { apply keep_all_lt. intros x Hx. apply all_true_uget; [exact Hf|]. unfold uf. rewrite uf_length. exact Hx. }
    apply (cell_sim_run_entry m m ug); try reflexivity; auto.
    + symmetry. apply keep_all_lt. intros x Hx. apply all_true_uget; [exact Hg|lia].
    + intros i f Hn. exists f. split; [exact Hn|]. apply frel_g_id; [exact Hg|].
      apply in_or_app. right. rewrite Hkeep. eapply nth_error_In; eauto.
    + intros i e Hn. exists e. split; [exact Hn|]. apply frel_g_id; [exact Hg|].
      apply in_or_app. left. apply in_map. eapply nth_error_In; eauto.
  - rewrite E. fold uf in Hrf. fold uf ugs in Hrg. fold uf ugs.
    pose proof (step1_sound rf Hrf fuel ep gs args (cells, ret) H) as H1.
    exact (step2_sound rf rg Hrg fuel ep gs args cells ret Hgs Hargs H1).
Qed.

End Full.

(* ---- the statement for inputs a harness can supply (no pointers in buffers / arguments) ---- *)
Theorem compact_unused_sound m :
  module_wf m -> calls_in_rangeb m = true -> gexprs_closedb m = true ->
  forall fuel ep gs args cells ret,
    forallb opfree gs = true -> forallb pfree args = true ->
    run_entry fuel m ep gs args = Done (cells, ret) ->
    let ug := uget (used_globals m (used_functions m)) in
    run_entry fuel (compact_unused m) ep (keep ug gs) args
    = Done (map (vren (cu_live m)) (keep ug cells), option_map (vren (cu_live m)) ret).
Proof.
  intros Hwf Hr Hgx fuel ep gs args cells ret Hgs Hargs H. cbv zeta.
  destruct (pfree_list (cu_live m) args Hargs) as [Ea Hoka].
  destruct (opfree_list (cu_live m) gs Hgs) as [Eg Hokg].
  pose proof (compact_unused_sound_cells m Hwf Hr Hgx fuel ep gs args cells ret Hokg Hoka H) as R.
  rewrite Ea in R.
  assert (Ek : map (oren (cu_live m)) (keep (uget (used_globals m (used_functions m))) gs)
               = keep (uget (used_globals m (used_functions m))) gs).
  { apply opfree_list. unfold keep. apply forallb_keep_from. exact Hgs. }
  rewrite Ek in R. exact R.
Qed.

(* when the final contents of the kept globals hold no pointers (every well-typed WGSL module:
   pointers cannot be stored), the results are literally equal *)
Corollary compact_unused_sound_pfree m :
  module_wf m -> calls_in_rangeb m = true -> gexprs_closedb m = true ->
  forall fuel ep gs args cells ret,
    forallb opfree gs = true -> forallb pfree args = true ->
    run_entry fuel m ep gs args = Done (cells, ret) ->
    forallb pfree cells = true -> opfree ret = true ->
    let ug := uget (used_globals m (used_functions m)) in
    run_entry fuel (compact_unused m) ep (keep ug gs) args = Done (keep ug cells, ret).
Proof.
  intros Hwf Hr Hgx fuel ep gs args cells ret Hgs Hargs H Hc Hret. cbv zeta.
  rewrite (compact_unused_sound m Hwf Hr Hgx fuel ep gs args cells ret Hgs Hargs H).
  assert (Ek : map (vren (cu_live m)) (keep (uget (used_globals m (used_functions m))) cells)
               = keep (uget (used_globals m (used_functions m))) cells).
  { apply pfree_list. unfold keep. apply forallb_keep_from. exact Hc. }
  rewrite Ek. destruct ret as [v|]; [|reflexivity].
  cbn [option_map]. cbn [opfree] in Hret. rewrite (proj1 (pfree_closed (cu_live m) v Hret)). reflexivity.
Qed.
