(* C13 — CompactUnused (model): a second application changes nothing.

   Let m' = compact_unused m.  The second run computes its live sets on m':
   * functions: the call graph of m' is the image, under the order-preserving
     renaming of the live functions, of the call graph of m restricted to the live
     functions; every live function of m is reachable from the entry points' calls
     ([reach_sound]: the work-list computation only marks reachable functions) and
     the work-list computation on m' marks everything reachable ([reach_closed]),
     so every function of m' is marked;
   * globals: every kept global is [rank g] of a g that occurs as [EGlobalVariable g]
     in an entry point or a kept function of m; the renamed function carries
     [EGlobalVariable (rank g)], so every global of m' is marked.
   Hence the second run takes the early exit "nothing to remove" and returns m'.

   The theorem needs NO hypothesis (not even [calls_in_rangeb]): an out-of-range
   callee is never marked in m, is renamed to 0 (or left as it is), and only adds a
   root to the second computation, which marks everything anyway. *)
From Coq Require Import List Arith Bool String Lia ZArith.
Import ListNotations.
Require Import Naga.IR.Syntax.
Require Import Naga.Passes.Remap Naga.Passes.RemapProofs Naga.Passes.Compact
               Naga.Passes.CompactExprProofs Naga.Passes.CompactUnusedProofs.
Local Open Scope nat_scope.
Local Open Scope list_scope.

(* ====================================================================== *)
(* Small generic facts                                                      *)

Lemma flat_map_map_in {A B C} (h : B -> list C) (g : A -> B) (l : list A) :
  flat_map h (map g l) = flat_map (fun x => h (g x)) l.
Proof. induction l as [|x l IH]; cbn [map flat_map]; [reflexivity|]. rewrite IH. reflexivity. Qed.

Lemma flat_map_map_out {A B C} (r : B -> C) (h : A -> list B) (l : list A) :
  flat_map (fun x => map r (h x)) l = map r (flat_map h l).
Proof. induction l as [|x l IH]; cbn [map flat_map]; [reflexivity|]. rewrite map_app, IH. reflexivity. Qed.

Lemma rank_all_lt u h : (forall x, x < h -> u x = true) -> rank u h = h.
Proof.
  intro H. rewrite (rank_ext u (fun _ => true) h H). apply rank_all_true. reflexivity.
Qed.

Lemma rank_surj u n j : j < rank u n -> exists k, k < n /\ u k = true /\ j = rank u k.
Proof.
  induction n as [|n IH]; intro H.
  - unfold rank in H. cbn [count] in H. lia.
  - rewrite rank_S in H. destruct (Nat.lt_ge_cases j (rank u n)) as [L|L].
    + destruct (IH L) as (k & Hk & Hu & Hj). exists k. repeat split; auto.
    + destruct (u n) eqn:Hu; [|lia]. exists n. repeat split; auto. lia.
Qed.

Lemma keep_from_all_lt {A} u i (l : list A) :
  (forall x, i <= x < i + List.length l -> u x = true) -> keep_from u i l = l.
Proof.
  revert i. induction l as [|y l IH]; intros i H; cbn [keep_from]; [reflexivity|].
  cbn [List.length] in H. rewrite (H i) by lia. rewrite IH; [reflexivity|]. intros x Hx. apply H. lia.
Qed.

Lemma keep_all_lt {A} u (l : list A) : (forall x, x < List.length l -> u x = true) -> keep u l = l.
Proof. intro H. apply keep_from_all_lt. intros x Hx. apply H. lia. Qed.

Lemma uget_cons b u k : uget (b :: u) (S k) = uget u k.
Proof. reflexivity. Qed.

Lemma all_true_of_uget u : (forall k, k < List.length u -> uget u k = true) -> all_true u = true.
Proof.
  induction u as [|b u IH]; intro H; [reflexivity|].
  cbn [all_true forallb]. apply andb_true_iff. split.
  - apply (H 0). cbn. lia.
  - apply IH. intros k Hk. rewrite <- (uget_cons b). apply H. cbn. lia.
Qed.

(* ====================================================================== *)
(* How the renaming acts on the call lists and the global references         *)

Lemma stmt_calls_leaf_rename rf s :
  structured s = false -> stmt_calls (rename_f_stmt rf s) = map rf (stmt_calls s).
Proof. destruct s; try discriminate; reflexivity. Qed.

Lemma block_calls_rename rf : forall b, block_calls (rename_f_block rf b) = map rf (block_calls b).
Proof.
  apply (block_ind3
           (fun s => stmt_calls (rename_f_stmt rf s) = map rf (stmt_calls s))
           (fun b => block_calls (rename_f_block rf b) = map rf (block_calls b))
           (fun cs => cases_calls (rename_f_cases rf cs) = map rf (cases_calls cs))).
  - apply stmt_calls_leaf_rename.
  - intros b IH. rewrite rename_f_block_eq, !stmt_calls_block. exact IH.
  - intros c a r IHa IHr. rewrite rename_f_if_eq, !stmt_calls_if, map_app, IHa, IHr. reflexivity.
  - intros sel cs IH. rewrite rename_f_switch_eq, !stmt_calls_switch. exact IH.
  - intros b c bi IHb IHc. rewrite rename_f_loop_eq, !stmt_calls_loop, map_app, IHb, IHc. reflexivity.
  - reflexivity.
  - intros s b IHs IHb. cbn [rename_f_block block_calls]. rewrite map_app, IHs, IHb. reflexivity.
  - reflexivity.
  - intros v b ft cs IHb IHc. cbn [rename_f_cases cases_calls]. rewrite map_app, IHb, IHc. reflexivity.
Qed.

Lemma fn_calls_rename rg rf f :
  block_calls (f_body (rename_gf_func rg rf f)) = map rf (block_calls (f_body f)).
Proof. cbn [rename_gf_func f_body]. apply block_calls_rename. Qed.

Lemma fn_globals_rename rg rf f : fn_globals (rename_gf_func rg rf f) = map rg (fn_globals f).
Proof.
  unfold fn_globals. cbn [rename_gf_func f_exprs]. generalize (f_exprs f). intro l.
  induction l as [|e l IH]; cbn [map flat_map]; [reflexivity|].
  rewrite map_app, IH. destruct e; reflexivity.
Qed.

(* ====================================================================== *)
(* The work-list computation: length, and "only reachable functions are marked" *)

Lemma reach_length fs : forall fuel uf work, List.length (reach fuel fs uf work) = List.length uf.
Proof.
  induction fuel as [|fuel IH]; intros uf work; cbn [reach]; [reflexivity|].
  destruct work as [|fn rest]; [reflexivity|].
  destruct (Nat.ltb fn (List.length uf) && negb (uget uf fn))%bool.
  - rewrite IH. unfold mark. apply set_true_length.
  - apply IH.
Qed.

Section ReachSound.
Variable fs : list func.
Variable w0 : list nat.

Inductive reachable : nat -> Prop :=
| rch_root c : In c w0 -> reachable c
| rch_step a c : reachable a -> In c (callees fs a) -> reachable c.

Lemma reach_sound : forall fuel uf work,
  (forall k, uget uf k = true -> reachable k) -> (forall c, In c work -> reachable c) ->
  forall k, uget (reach fuel fs uf work) k = true -> reachable k.
Proof.
  induction fuel as [|fuel IH]; intros uf work Hu Hw k; cbn [reach]; [apply Hu|].
  destruct work as [|fn rest]; [apply Hu|].
  destruct (Nat.ltb fn (List.length uf) && negb (uget uf fn))%bool.
  - apply IH.
    + intros x Hx. unfold mark in Hx. rewrite uget_set_true in Hx. apply orb_true_iff in Hx.
      destruct Hx as [Hx|Hx]; [|apply Hu; exact Hx].
      apply andb_true_iff in Hx. destruct Hx as [Hx _]. apply Nat.eqb_eq in Hx. subst x.
      apply Hw. left. reflexivity.
    + intros c Hc. destruct (nth_error fs fn) as [f|] eqn:Ef.
      * apply in_app_or in Hc. destruct Hc as [Hc|Hc].
        -- apply rch_step with fn; [apply Hw; left; reflexivity|]. unfold callees. rewrite Ef. exact Hc.
        -- apply Hw. right. exact Hc.
      * apply Hw. right. exact Hc.
  - apply IH; [exact Hu|]. intros c Hc. apply Hw. right. exact Hc.
Qed.

Lemma callees_lt a c : In c (callees fs a) -> a < List.length fs.
Proof.
  unfold callees. destruct (nth_error fs a) eqn:E; [|intros []].
  intros _. apply nth_error_Some. congruence.
Qed.
End ReachSound.

(* ====================================================================== *)
(* The module after one run, described by its renamings                     *)

(* what compact_unused builds when it removes something; rg/rf/gl' abstract the
   "only functions / only globals removed" variants *)
Definition cu_shape (m : module) (rg rf : nat -> nat) (gl' : list global_var) : module :=
  let g := rename_gf_func rg rf in
  mkmodule (m_types m) (m_constants m) gl' (m_global_exprs m)
           (map g (keep (uget (used_functions m)) (m_functions m)))
           (map (fun e => mkep (ep_name e) (ep_stage e) (ep_workgroup e) (g (ep_func e))) (m_entry_points m))
           (m_overrides m).

Section Idem.
Variable m : module.
Let fs := m_functions m.
Let eps := m_entry_points m.
Let uf := used_functions m.
Let ug := used_globals m uf.
Let w0 := flat_map (fun e => block_calls (f_body (ep_func e))) eps.

Variables rg rf : nat -> nat.
Variable gl' : list global_var.
Hypothesis Hrf : forall k, uget uf k = true -> rf k = rank (uget uf) k.
Hypothesis Hrg : forall k, uget ug k = true -> rg k = rank (uget ug) k.
Hypothesis Hgl : List.length gl' = rank (uget ug) (List.length (m_globals m)).

Let g := rename_gf_func rg rf.
Let m' := cu_shape m rg rf gl'.
Let fs' := map g (keep (uget uf) fs).
Let uf' := used_functions m'.

Lemma uf_length : List.length uf = List.length fs.
Proof. unfold uf, used_functions. rewrite reach_length. apply repeat_length. Qed.

Lemma uf_closed : rclosed fs w0 uf.
Proof.
  unfold uf, used_functions. apply reach_closed.
  - apply repeat_length.
  - unfold reach_fuel. rewrite cost_all_false. fold fs eps. lia.
  - split.
    + intros fn c H. rewrite uget_repeat_false in H. discriminate.
    + intros c Hc _. right. exact Hc.
Qed.

Lemma uf_sound k : uget uf k = true -> reachable fs w0 k.
Proof.
  unfold uf, used_functions. apply reach_sound.
  - intros x Hx. rewrite uget_repeat_false in Hx. discriminate.
  - intros c Hc. apply rch_root. exact Hc.
Qed.

Lemma reachable_live k : reachable fs w0 k -> k < List.length fs -> uget uf k = true.
Proof.
  destruct uf_closed as (C1 & C2).
  induction 1 as [c Hc|a c Ha IH Hc]; intro Hlt.
  - apply C2; assumption.
  - apply (C1 a c); auto. apply IH. eapply callees_lt. exact Hc.
Qed.

(* ---- the functions of m' ---- *)
Lemma m'_functions : m_functions m' = fs'.
Proof. reflexivity. Qed.

Lemma m'_work : flat_map (fun e => block_calls (f_body (ep_func e))) (m_entry_points m') = map rf w0.
Proof.
  unfold m', cu_shape. cbn [m_entry_points]. rewrite flat_map_map_in. cbn [ep_func].
  unfold w0. rewrite <- flat_map_map_out. apply flat_map_ext. intro e. apply fn_calls_rename.
Qed.

Lemma fs'_nth k f : uget uf k = true -> nth_error fs k = Some f -> nth_error fs' (rf k) = Some (g f).
Proof.
  intros Hu Hn. unfold fs'. rewrite nth_error_map, (Hrf k Hu), (keep_nth _ _ k f Hn Hu). reflexivity.
Qed.

Lemma fs'_length : List.length fs' = rank (uget uf) (List.length fs).
Proof. unfold fs'. rewrite map_length. apply keep_length. Qed.

Lemma live_nth k : uget uf k = true -> exists f, nth_error fs k = Some f.
Proof.
  intro Hu. apply uget_lt in Hu. rewrite uf_length in Hu.
  destruct (nth_error fs k) as [f|] eqn:E; [eauto|]. apply nth_error_None in E. lia.
Qed.

Lemma rf_lt k : uget uf k = true -> rf k < List.length fs'.
Proof.
  intro Hu. destruct (live_nth k Hu) as (f & Hf).
  apply nth_error_Some. rewrite (fs'_nth k f Hu Hf). discriminate.
Qed.

Lemma uf'_length : List.length uf' = List.length fs'.
Proof. unfold uf', used_functions. rewrite reach_length, repeat_length. reflexivity. Qed.

Lemma uf'_closed : rclosed fs' (map rf w0) uf'.
Proof.
  unfold uf', used_functions. rewrite m'_work, m'_functions. apply reach_closed.
  - apply repeat_length.
  - unfold reach_fuel. rewrite cost_all_false. lia.
  - split.
    + intros fn c H. rewrite uget_repeat_false in H. discriminate.
    + intros c Hc _. right. exact Hc.
Qed.

(* a live function of m is marked, under its new number, by the run on m' *)
Lemma live_transfer k : reachable fs w0 k -> uget uf k = true -> uget uf' (rf k) = true.
Proof.
  destruct uf'_closed as (C1 & C2).
  induction 1 as [c Hc|a c Ha IH Hc]; intro Hl.
  - apply C2; [apply in_map; exact Hc|apply rf_lt; exact Hl].
  - assert (Hla : uget uf a = true) by (apply reachable_live; [exact Ha|eapply callees_lt; exact Hc]).
    destruct (live_nth a Hla) as (fa & Hfa).
    apply (C1 (rf a) (rf c)).
    + apply IH. exact Hla.
    + unfold callees. rewrite (fs'_nth a fa Hla Hfa). unfold g. rewrite fn_calls_rename.
      apply in_map. unfold callees in Hc. rewrite Hfa in Hc. exact Hc.
    + apply rf_lt. exact Hl.
Qed.

Lemma funcs_live : all_true uf' = true.
Proof.
  apply all_true_of_uget. intros j Hj. rewrite uf'_length, fs'_length in Hj.
  destruct (rank_surj _ _ _ Hj) as (k & _ & Hu & E).
  rewrite E, <- (Hrf k Hu). apply live_transfer; [apply uf_sound|]; exact Hu.
Qed.

(* ---- the globals of m' ---- *)
Lemma globals_live : all_true (used_globals m' uf') = true.
Proof.
  unfold used_globals. rewrite m'_functions.
  rewrite (keep_all_lt (uget uf') fs').
  2:{ intros x Hx. apply all_true_uget; [apply funcs_live|]. rewrite uf'_length. exact Hx. }
  unfold m', cu_shape. cbn [m_globals m_entry_points].
  rewrite map_map. cbn [ep_func]. fold g.
  rewrite <- (map_map ep_func g). unfold fs'. rewrite <- map_app.
  rewrite flat_map_map_in. unfold g.
  rewrite (flat_map_ext _ _ (fun f => fn_globals_rename rg rf f)).
  rewrite flat_map_map_out.
  apply all_true_of_uget. intros j Hj. rewrite marks_length, repeat_length, Hgl in Hj.
  destruct (rank_surj _ _ _ Hj) as (k & _ & Hu & E).
  pose proof Hu as Hu2. unfold ug, used_globals in Hu2. apply uget_marks in Hu2.
  destruct Hu2 as [Hu2|[Hin _]]; [rewrite uget_repeat_false in Hu2; discriminate|].
  apply uget_marks. right. split.
  - rewrite E, <- (Hrg k Hu). apply in_map. exact Hin.
  - rewrite repeat_length, Hgl. exact Hj.
Qed.
End Idem.

(* ====================================================================== *)
(* Assembly                                                                 *)

Lemma compact_unused_id m :
  all_true (used_functions m) = true -> all_true (used_globals m (used_functions m)) = true ->
  compact_unused m = m.
Proof.
  intros Hf Hg. unfold compact_unused. destruct (m_entry_points m); [reflexivity|].
  rewrite Hf, Hg. reflexivity.
Qed.

Lemma compact_unused_unfold m :
  m_entry_points m <> [] ->
  compact_unused m =
    let uf := used_functions m in
    let ug := used_globals m uf in
    let rm_g := negb (all_true ug) in
    let rm_f := negb (all_true uf) in
    if (negb rm_g && negb rm_f)%bool then m else
    let rg := if rm_g then remap0 ug else (fun h => h) in
    let rf := if rm_f then remap0 uf else (fun h => h) in
    let g := rename_gf_func rg rf in
    mkmodule (m_types m) (m_constants m)
             (if rm_g then keep (uget ug) (m_globals m) else m_globals m)
             (m_global_exprs m)
             (map g (if rm_f then keep (uget uf) (m_functions m) else m_functions m))
             (map (fun e => mkep (ep_name e) (ep_stage e) (ep_workgroup e) (g (ep_func e))) (m_entry_points m))
             (m_overrides m).
Proof.
  intro H. unfold compact_unused. destruct (m_entry_points m); [contradiction|reflexivity].
Qed.

Lemma remap0_live u k : uget u k = true -> remap0 u k = rank (uget u) k.
Proof. intro H. unfold remap0. rewrite H. reflexivity. Qed.

Lemma id_live u k : all_true u = true -> uget u k = true -> k = rank (uget u) k.
Proof.
  intros Ha Hk. symmetry. apply rank_all_lt. intros x Hx. apply all_true_uget; [exact Ha|].
  apply uget_lt in Hk. lia.
Qed.

(* the result is the input or has the shape analysed above *)
Lemma compact_unused_cases m :
  compact_unused m = m \/
  exists rg rf gl',
    (forall k, uget (used_functions m) k = true -> rf k = rank (uget (used_functions m)) k)
    /\ (forall k, uget (used_globals m (used_functions m)) k = true ->
                  rg k = rank (uget (used_globals m (used_functions m))) k)
    /\ List.length gl' = rank (uget (used_globals m (used_functions m))) (List.length (m_globals m))
    /\ compact_unused m = cu_shape m rg rf gl'.
Proof.
  destruct (m_entry_points m) as [|ep0 eps0] eqn:Eeps.
  { left. unfold compact_unused. rewrite Eeps. reflexivity. }
  assert (Hne : m_entry_points m <> []) by (rewrite Eeps; discriminate).
  rewrite (compact_unused_unfold m Hne). cbv zeta.
  set (uf := used_functions m). set (ug := used_globals m uf).
  assert (Hlg : List.length ug = List.length (m_globals m)).
  { unfold ug, used_globals. rewrite marks_length. apply repeat_length. }
  assert (Hlf : List.length uf = List.length (m_functions m)) by (apply uf_length).
  destruct (all_true ug) eqn:Hg; destruct (all_true uf) eqn:Hf; cbn [negb andb].
  - left. reflexivity.
  - right. exists (fun h => h), (remap0 uf), (m_globals m). repeat split.
    + apply remap0_live.
    + intros k Hk. apply id_live; assumption.
    + symmetry. apply rank_all_lt. intros x Hx. apply all_true_uget; [exact Hg|lia].
  - right. exists (remap0 ug), (fun h => h), (keep (uget ug) (m_globals m)). repeat split.
    + intros k Hk. apply id_live; assumption.
    + apply remap0_live.
    + apply keep_length.
    + unfold cu_shape. fold uf.
      rewrite (keep_all_lt (uget uf) (m_functions m)); [reflexivity|].
      intros x Hx. apply all_true_uget; [exact Hf|lia].
  - right. exists (remap0 ug), (remap0 uf), (keep (uget ug) (m_globals m)). repeat split.
    + apply remap0_live.
    + apply remap0_live.
    + apply keep_length.
Qed.

(* the second run finds every function and every global of the result live *)
Theorem compact_unused_result_all_live m :
  all_true (used_functions (compact_unused m)) = true
  /\ all_true (used_globals (compact_unused m) (used_functions (compact_unused m))) = true
  \/ compact_unused m = m.
Proof.
  destruct (compact_unused_cases m) as [E|(rg & rf & gl' & Hrf & Hrg & Hgl & E)]; [right; exact E|].
  left. rewrite E. split.
  - apply funcs_live; assumption.
  - apply globals_live; assumption.
Qed.

Theorem compact_unused_idempotent m : compact_unused (compact_unused m) = compact_unused m.
Proof.
  destruct (compact_unused_result_all_live m) as [(Hf & Hg)|E].
  - apply compact_unused_id; assumption.
  - rewrite E. exact E.
Qed.

(* the same under the executable hypothesis the other CompactUnused theorems carry *)
Corollary compact_unused_idempotent_in_range m :
  calls_in_rangeb m = true -> compact_unused (compact_unused m) = compact_unused m.
Proof. intros _. apply compact_unused_idempotent. Qed.

Print Assumptions compact_unused_result_all_live.
Print Assumptions compact_unused_idempotent.

(* ====================================================================== *)
(* Non-vacuity: a module where the pass removes a function AND a global     *)
Open Scope string_scope.
Definition idem_u32 : ty := mkty "" (TScalar (mkscalar Uint 4)).
Definition idem_main : func :=
  mkfunc "main" [] None []
         [EGlobalVariable 1; ELiteral (LU32 7); ELoad 0; EBinary BMul 2 1]
         []
         [SCall 2 [] None; SEmit 2 4; SStore 0 3; SReturn None]
         [].
Definition idem_dead : func :=
  mkfunc "dead" [] None [] [EGlobalVariable 0; ELiteral (LU32 1)] [] [SStore 0 1; SReturn None] [].
Definition idem_dead2 : func :=
  mkfunc "dead2" [] None [] [] [] [SCall 0 [] None; SReturn None] [].
Definition idem_live : func :=
  mkfunc "live" [] None [] [EGlobalVariable 2; ELiteral (LU32 3)] [] [SStore 0 1; SReturn None] [].
Definition idem_module : module :=
  mkmodule [idem_u32] []
           [mkglobal "unused" SpPrivate None 0 None None 0;
            mkglobal "a" SpPrivate None 0 None None 0;
            mkglobal "b" SpPrivate None 0 None None 0] []
           [idem_dead; idem_dead2; idem_live] [mkep "main" StCompute [1; 1; 1]%Z idem_main] [].

Example idem_example :
  calls_in_rangeb idem_module = true
  /\ map f_name (m_functions idem_module) = ["dead"; "dead2"; "live"]
  /\ map f_name (m_functions (compact_unused idem_module)) = ["live"]
  /\ map g_name (m_globals idem_module) = ["unused"; "a"; "b"]
  /\ map g_name (m_globals (compact_unused idem_module)) = ["a"; "b"]
  /\ map (fun e => f_exprs (ep_func e)) (m_entry_points (compact_unused idem_module))
     = [[EGlobalVariable 0; ELiteral (LU32 7); ELoad 0; EBinary BMul 2 1]]
  /\ map f_exprs (m_functions (compact_unused idem_module)) = [[EGlobalVariable 1; ELiteral (LU32 3)]]
  /\ compact_unused (compact_unused idem_module) = compact_unused idem_module.
Proof. vm_compute. repeat split; reflexivity. Qed.
