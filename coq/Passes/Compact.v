(* C13 — Gallina models of the compaction passes of ir/compact.go (definitions only).
   Each pass is: compute the live set, drop dead arena entries keeping the order,
   renumber handles by rank.  The models follow the Go code step by step (which
   roots keep an entry alive, in which arenas handles are rewritten, when the pass
   returns early), because the tie of check C13 compares the model's output with
   the Go output structurally.

   Divergence from Go, on ill-formed input only: where Go would panic on an
   out-of-range handle (direct slice indexing) the model ignores the handle. *)
From Coq Require Import List Arith Bool String ZArith.
Import ListNotations.
Require Import Naga.IR.Syntax Naga.Passes.Remap.
Local Open Scope nat_scope.

(* ====================================================================== *)
(* CompactExpressions (compact.go:844-953)                                  *)

(* Phase 1 roots: named expressions, local initialisers, statement operands
   (Emit ranges are NOT roots) *)
Definition fn_roots (f : func) : list nat :=
  map fst (f_named f) ++ flat_map (fun l => opt_list (lv_init l)) (f_locals f) ++ block_uses (f_body f).

Definition dummy_expr : expr := ELiteral (LBool false).

(* Phase 2: for i = n-1 downto 0: if used[i] then mark the operands of expression i *)
Fixpoint propagate (es : list expr) (i : nat) (u : uset) : uset :=
  match i with
  | O => u
  | S i' => propagate es i' (if uget u i' then marks u (compact_expr_refs (nth i' es dummy_expr)) else u)
  end.

Definition used_exprs (f : func) : uset :=
  let n := List.length (f_exprs f) in
  propagate (f_exprs f) n (marks (repeat false n) (fn_roots f)).

Definition compact_local (r : nat -> nat) (l : local_var) : local_var :=
  mklocal (lv_name l) (lv_type l) (option_map r (lv_init l)).

Definition compact_named (u : nat -> bool) (nm : list (nat * string)) : list (nat * string) :=
  map (fun p => (rank u (fst p), snd p)) (filter (fun p => u (fst p)) nm).

Definition compact_expr_types (u : nat -> bool) (n : nat) (ts : list type_resolution) : list type_resolution :=
  match ts with
  | [] => []
  | _ => keep u (firstn n (ts ++ repeat RNone (n - List.length ts)))
  end.

Definition compact_function_with (u : uset) (f : func) : func :=
  let ub := uget u in
  let r := rank ub in
  mkfunc (f_name f) (f_args f) (f_result f)
         (map (compact_local r) (f_locals f))
         (map (rename_expr r) (keep ub (f_exprs f)))
         (compact_expr_types ub (List.length (f_exprs f)) (f_expr_types f))
         (cblock ub (f_body f))
         (compact_named ub (f_named f)).

Definition compact_function (f : func) : func :=
  match f_exprs f with
  | [] => f
  | _ => let u := used_exprs f in
         if all_true u then f else compact_function_with u f
  end.

Definition compact_expressions (m : module) : module := map_funcs compact_function m.

(* ====================================================================== *)
(* CompactUnused (compact.go:6-177)                                         *)

Fixpoint stmt_calls (s : stmt) : list nat :=
  let fix block_calls (b : list stmt) : list nat :=
    match b with [] => [] | x :: b' => stmt_calls x ++ block_calls b' end in
  match s with
  | SCall f _ _ => [f]
  | SBlock b => block_calls b
  | SIf _ a r => block_calls a ++ block_calls r
  | SSwitch _ cases =>
    (fix cases_calls (cs : list (switch_value * list stmt * bool)) : list nat :=
       match cs with [] => [] | (_, b, _) :: cs' => block_calls b ++ cases_calls cs' end) cases
  | SLoop b c _ => block_calls b ++ block_calls c
  | _ => []
  end.
Fixpoint block_calls (b : list stmt) : list nat :=
  match b with [] => [] | x :: b' => stmt_calls x ++ block_calls b' end.

Definition fn_globals (f : func) : list nat :=
  flat_map (fun e => match e with EGlobalVariable g => [g] | _ => [] end) (f_exprs f).

(* functions reachable through StmtCall from the work list (depth first, as traceStatementsForRefs) *)
Fixpoint reach (fuel : nat) (fs : list func) (uf : uset) (work : list nat) : uset :=
  match fuel with
  | O => uf
  | S fu =>
    match work with
    | [] => uf
    | fn :: rest =>
      if (Nat.ltb fn (List.length uf) && negb (uget uf fn))%bool then
        reach fu fs (mark uf fn)
              (match nth_error fs fn with Some f => block_calls (f_body f) ++ rest | None => rest end)
      else reach fu fs uf rest
    end
  end.

Definition reach_fuel (fs : list func) (work : list nat) : nat :=
  S (List.length work + fold_right (fun f a => S (List.length (block_calls (f_body f))) + a) 0 fs).

Definition used_functions (m : module) : uset :=
  let work := flat_map (fun e => block_calls (f_body (ep_func e))) (m_entry_points m) in
  reach (reach_fuel (m_functions m) work) (m_functions m) (repeat false (List.length (m_functions m))) work.

Fixpoint live_funcs_from (uf : nat -> bool) (i : nat) (fs : list func) : list func :=
  match fs with
  | [] => []
  | f :: fs' => if uf i then f :: live_funcs_from uf (S i) fs' else live_funcs_from uf (S i) fs'
  end.

Definition used_globals (m : module) (uf : uset) : uset :=
  marks (repeat false (List.length (m_globals m)))
        (flat_map fn_globals (map ep_func (m_entry_points m) ++ keep (uget uf) (m_functions m))).

Section RenameModuleHandles.
Variable rg : nat -> nat.      (* global variable handles *)
Variable rf : nat -> nat.      (* function handles *)

Definition rename_gf_expr (e : expr) : expr :=
  match e with
  | EGlobalVariable g => EGlobalVariable (rg g)
  | ECallResult f => ECallResult (rf f)
  | _ => e
  end.

Fixpoint rename_f_stmt (s : stmt) : stmt :=
  let fix go_block (b : list stmt) : list stmt :=
    match b with [] => [] | x :: b' => rename_f_stmt x :: go_block b' end in
  match s with
  | SCall f args res => SCall (rf f) args res
  | SBlock b => SBlock (go_block b)
  | SIf c a r => SIf c (go_block a) (go_block r)
  | SSwitch sel cases =>
    SSwitch sel ((fix go_cases (cs : list (switch_value * list stmt * bool)) :=
                    match cs with [] => [] | (v, b, ft) :: cs' => (v, go_block b, ft) :: go_cases cs' end) cases)
  | SLoop b c bi => SLoop (go_block b) (go_block c) bi
  | _ => s
  end.
Fixpoint rename_f_block (b : list stmt) : list stmt :=
  match b with [] => [] | x :: b' => rename_f_stmt x :: rename_f_block b' end.
Fixpoint rename_f_cases (cs : list (switch_value * list stmt * bool)) :=
  match cs with [] => [] | (v, b, ft) :: cs' => (v, rename_f_block b, ft) :: rename_f_cases cs' end.

Definition rename_gf_func (f : func) : func :=
  mkfunc (f_name f) (f_args f) (f_result f) (f_locals f)
         (map rename_gf_expr (f_exprs f)) (f_expr_types f) (rename_f_block (f_body f)) (f_named f).
End RenameModuleHandles.

(* Go's remap tables are zero-initialised: a dead handle maps to 0 *)
Definition remap0 (u : uset) (h : nat) : nat := if uget u h then rank (uget u) h else 0.

Definition compact_unused (m : module) : module :=
  match m_entry_points m with
  | [] => m
  | _ =>
    let uf := used_functions m in
    let ug := used_globals m uf in
    let rm_g := negb (all_true ug) in
    let rm_f := negb (all_true uf) in
    if (negb rm_g && negb rm_f)%bool then m else
    let rg := if rm_g then remap0 ug else (fun h => h) in
    let rf := if rm_f then remap0 uf else (fun h => h) in
    let g := rename_gf_func rg rf in
    mkmodule (m_types m) (m_constants m)
             (if rm_g then keep (uget ug) (m_globals m) else m_globals m)
             (m_global_exprs m)
             (map g (if rm_f then keep (uget uf) (m_functions m) else m_functions m))
             (map (fun e => mkep (ep_name e) (ep_stage e) (ep_workgroup e) (g (ep_func e))) (m_entry_points m))
             (m_overrides m)
  end.

(* ====================================================================== *)
(* Shared by CompactConstants / CompactTypes / ReorderTypes                 *)

(* Go writes ^Handle(0) for a removed entry.  The extracted tools keep nat in
   unary, so the harness rewrites 4294967295 to this value in the dumps. *)
Definition sentinel : nat := 99999.

Definition remap_s (u : uset) (h : nat) : nat := if uget u h then rank (uget u) h else sentinel.

(* "safe" remapping of compact.go: sentinel and out-of-range handles pass through *)
Definition safe_remap (n : nat) (r : nat -> nat) (h : nat) : nat :=
  if (Nat.eqb h sentinel || negb (Nat.ltb h n))%bool then h else r h.

Definition abstract_kind (k : scalar_kind) : bool :=
  match k with AbstractInt | AbstractFloat => true | _ => false end.

(* IsAbstractType (compact.go:360) *)
Fixpoint is_abstract_type (fuel : nat) (types : list ty) (t : type_inner) : bool :=
  match fuel with
  | O => false
  | S fu =>
    match t with
    | TScalar s | TVector _ s | TMatrix _ _ s => abstract_kind (skind s)
    | TArray b _ _ => match nth_error types b with Some bt => is_abstract_type fu types (ty_inner bt) | None => false end
    | _ => false
    end
  end.
Definition is_abstract (types : list ty) (t : type_inner) : bool := is_abstract_type (S (List.length types)) types t.

Definition type_inner_refs (t : type_inner) : list nat :=
  match t with
  | TArray b _ _ => [b]
  | TStruct ms _ => map m_type ms
  | TPointer b _ => [b]
  | TBindingArray b _ => [b]
  | _ => []
  end.

Definition remap_type_inner (r : nat -> nat) (t : type_inner) : type_inner :=
  match t with
  | TArray b n s => TArray (r b) n s
  | TStruct ms sp => TStruct (map (fun m => mkmember (m_name m) (r (m_type m)) (m_binding m) (m_offset m)) ms) sp
  | TPointer b s => TPointer (r b) s
  | TBindingArray b n => TBindingArray (r b) n
  | _ => t
  end.

(* remapExprTypeHandles *)
Definition remap_expr_type (r : nat -> nat) (e : expr) : expr :=
  match e with
  | EZeroValue t => EZeroValue (r t)
  | ECompose t cs => ECompose (r t) cs
  | EAtomicResult t c => EAtomicResult (r t) c
  | _ => e
  end.

Definition expr_type_refs (e : expr) : list nat :=
  match e with
  | EZeroValue t | ECompose t _ | EAtomicResult t _ => [t]
  | _ => []
  end.

(* ====================================================================== *)
(* CompactConstants (compact.go:694-832)                                    *)

Definition const_named (c : constant) : bool :=
  negb (String.eqb (c_name c) "") && negb (String.eqb (c_name c) "_").

Definition const_is_abstract (types : list ty) (c : constant) : bool :=
  if c_abstract c then true
  else match nth_error types (c_type c) with Some t => is_abstract types (ty_inner t) | None => false end.

Definition fn_const_refs (f : func) : list nat :=
  flat_map (fun e => match e with EConstant c => [c] | _ => [] end) (f_exprs f).

Fixpoint sweep_consts (cs : list constant) (i : nat) (u : uset) : uset :=
  match cs with
  | [] => u
  | c :: cs' =>
    sweep_consts cs' (S i)
      (if uget u i then match c_value c with CVComposite comps => marks u comps | _ => u end else u)
  end.

Fixpoint close_consts (fuel : nat) (cs : list constant) (u : uset) : uset :=
  match fuel with
  | O => u
  | S fu => close_consts fu cs (sweep_consts cs 0 u)
  end.

Definition kept_constants (m : module) : uset :=
  let u0 := map (fun c => const_named c && negb (const_is_abstract (m_types m) c))%bool (m_constants m) in
  let u1 := marks u0 (flat_map fn_const_refs (all_funcs m) ++ flat_map (fun g => opt_list (g_init g)) (m_globals m)) in
  close_consts (S (List.length (m_constants m))) (m_constants m) u1.

Definition remap_const_func (n : nat) (r : nat -> nat) (f : func) : func :=
  mkfunc (f_name f) (f_args f) (f_result f) (f_locals f)
         (map (fun e => match e with EConstant c => EConstant (if Nat.ltb c n then r c else c) | _ => e end) (f_exprs f))
         (f_expr_types f) (f_body f) (f_named f).

Definition compact_constants (m : module) : module :=
  match m_constants m with
  | [] => m
  | _ =>
    let u := kept_constants m in
    if all_true u then m else
    let n := List.length (m_constants m) in
    let r := remap_s u in
    let rb := fun c => if Nat.ltb c n then r c else c in
    let g := remap_const_func n r in
    mkmodule (m_types m)
             (map (fun c => mkconst (c_name c) (c_type c)
                                    (match c_value c with CVComposite comps => CVComposite (map rb comps) | v => v end)
                                    (c_init c) (c_abstract c))
                  (keep (uget u) (m_constants m)))
             (map (fun gv => mkglobal (g_name gv) (g_space gv) (g_binding gv) (g_type gv)
                                      (option_map rb (g_init gv)) (g_init_expr gv) (g_access gv)) (m_globals m))
             (m_global_exprs m)
             (map g (m_functions m))
             (map (fun e => mkep (ep_name e) (ep_stage e) (ep_workgroup e) (g (ep_func e))) (m_entry_points m))
             (m_overrides m)
  end.

(* ====================================================================== *)
(* CompactTypes (compact.go:190-355)                                        *)

Definition fn_type_refs (f : func) : list nat :=
  map fa_type (f_args f) ++ match f_result f with Some r => [fr_type r] | None => [] end
  ++ map lv_type (f_locals f) ++ flat_map expr_type_refs (f_exprs f).

Definition referenced_types (m : module) : uset :=
  marks (repeat false (List.length (m_types m)))
        (flat_map (fun t => type_inner_refs (ty_inner t)) (m_types m)
         ++ map c_type (m_constants m) ++ map o_type (m_overrides m) ++ map g_type (m_globals m)
         ++ flat_map fn_type_refs (all_funcs m)).

Fixpoint map_idx {A B} (f : nat -> A -> B) (i : nat) (l : list A) : list B :=
  match l with [] => [] | x :: l' => f i x :: map_idx f (S i) l' end.

Definition kept_types (m : module) : uset :=
  let refd := referenced_types m in
  map_idx (fun i t => if is_abstract (m_types m) (ty_inner t) then false
                      else (uget refd i || negb (String.eqb (ty_name t) ""))%bool) 0 (m_types m).

(* remapFunctionTypes: direct table lookups for arguments/result/locals, safe ones in expressions *)
Definition remap_resolution_compact (r rs : nat -> nat) (t : type_resolution) : type_resolution :=
  match t with
  | RHandle h => if Nat.eqb (r h) sentinel then RNone else RHandle (r h)
  | RValue v => RValue (remap_type_inner rs v)
  | RNone => RNone
  end.

Definition remap_func_types (r rs : nat -> nat) (res : type_resolution -> type_resolution) (f : func) : func :=
  mkfunc (f_name f)
         (map (fun a => mkarg (fa_name a) (r (fa_type a)) (fa_binding a)) (f_args f))
         (option_map (fun x => mkres (r (fr_type x)) (fr_binding x)) (f_result f))
         (map (fun l => mklocal (lv_name l) (r (lv_type l)) (lv_init l)) (f_locals f))
         (map (remap_expr_type rs) (f_exprs f))
         (map res (f_expr_types f))
         (f_body f) (f_named f).

Definition remap_module_types (r rs : nat -> nat) (res : type_resolution -> type_resolution)
           (types' : list ty) (m : module) : module :=
  let g := remap_func_types r rs res in
  mkmodule (map (fun t => mkty (ty_name t) (remap_type_inner rs (ty_inner t))) types')
           (map (fun c => mkconst (c_name c) (r (c_type c)) (c_value c) (c_init c) (c_abstract c)) (m_constants m))
           (map (fun gv => mkglobal (g_name gv) (g_space gv) (g_binding gv) (r (g_type gv)) (g_init gv) (g_init_expr gv) (g_access gv))
                (m_globals m))
           (map (remap_expr_type rs) (m_global_exprs m))
           (map g (m_functions m))
           (map (fun e => mkep (ep_name e) (ep_stage e) (ep_workgroup e) (g (ep_func e))) (m_entry_points m))
           (map (fun o => mkoverride (o_name o) (o_id o) (r (o_type o)) (o_init o)) (m_overrides m)).

(* the module and Module.TypeUseOrder *)
Definition compact_types (mo : module * list nat) : module * list nat :=
  let (m, tuo) := mo in
  match m_types m with
  | [] => mo
  | _ =>
    let u := kept_types m in
    if all_true u then mo else
    let n := List.length (m_types m) in
    let r := remap_s u in
    let rs := safe_remap n r in
    (remap_module_types r rs (remap_resolution_compact r rs) (keep (uget u) (m_types m)) m,
     map r (filter (fun h => Nat.ltb h n && negb (Nat.eqb (r h) sentinel))%bool tuo))
  end.

(* ====================================================================== *)
(* ReorderTypes (compact.go:435-586)                                        *)

Definition rt_state := (uset * list nat)%type.      (* seen, order (reversed) *)
Definition rt_guard (n : nat) (st : rt_state) (h : nat) : bool :=
  (negb (Nat.eqb h sentinel) && Nat.ltb h n && negb (uget (fst st) h))%bool.

Fixpoint visit_deps (fuel : nat) (types : list ty) (st : rt_state) (t : type_inner) : rt_state :=
  match fuel with
  | O => st
  | S fu =>
    fold_left (fun st d =>
                 if rt_guard (List.length types) st d then
                   let st' := match nth_error types d with Some dt => visit_deps fu types st (ty_inner dt) | None => st end in
                   if rt_guard (List.length types) st' d then (mark (fst st') d, d :: snd st') else st'
                 else st)
              (type_inner_refs t) st
  end.

Definition visit_type (types : list ty) (st : rt_state) (h : nat) : rt_state :=
  if rt_guard (List.length types) st h then
    let st' := match nth_error types h with Some t => visit_deps (S (List.length types)) types st (ty_inner t) | None => st end in
    if uget (fst st') h then st' else (mark (fst st') h, h :: snd st')
  else st.

Definition type_order (types : list ty) (tuo : list nat) : list nat :=
  let n := List.length types in
  let st := fold_left (visit_type types) tuo (repeat false n, []) in
  let st := fold_left (visit_type types) (seq 0 n) st in
  rev (snd st).

Fixpoint index_of (h : nat) (l : list nat) (i : nat) : nat :=
  match l with [] => 0 | x :: l' => if Nat.eqb x h then i else index_of h l' (S i) end.

Definition remap_resolution_reorder (n : nat) (r rs : nat -> nat) (t : type_resolution) : type_resolution :=
  match t with
  | RHandle h => RHandle (safe_remap n r h)
  | RValue v => RValue (remap_type_inner rs v)
  | RNone => RNone
  end.

Definition reorder_types (mo : module * list nat) : module * list nat :=
  let (m, tuo) := mo in
  match m_types m with
  | [] => mo
  | _ =>
    let n := List.length (m_types m) in
    let order := type_order (m_types m) tuo in
    if (Nat.eqb (List.length order) n && forallb (fun p => Nat.eqb (fst p) (snd p)) (combine order (seq 0 n)))%bool then mo else
    let r := fun h => index_of h order 0 in
    let rs := safe_remap n r in
    (remap_module_types rs rs (remap_resolution_reorder n r rs)
                        (map (fun old => nth old (m_types m) (mkty "" (TOther "missing"))) order) m,
     tuo)
  end.

(* ====================================================================== *)
(* DeduplicateEmits (compact.go:1696-1785)                                  *)

Definition is_pre_emit (e : expr) : bool :=
  match e with
  | ELiteral _ | EConstant _ | EOverride _ | EZeroValue _ | EGlobalVariable _ | EFunctionArgument _ | ELocalVariable _ => true
  | _ => false
  end.

Definition hmem (h : nat) (l : list nat) : bool := existsb (Nat.eqb h) l.

Section Dedup.
Variable exprs : list expr.

Definition emit_redundant (emitted : list nat) (a b : nat) : bool :=
  let hs := seq a (b - a) in
  (Nat.eqb a b
   || forallb (fun h => hmem h emitted) hs
   || forallb (fun h => match nth_error exprs h with Some e => is_pre_emit e | None => true end) hs)%bool.

Fixpoint dedup_stmt (s : stmt) : stmt :=
  let fix go (emitted : list nat) (b : list stmt) : list stmt :=
    match b with
    | [] => []
    | x :: b' =>
      match x with
      | SEmit a c => if emit_redundant emitted a c then go emitted b' else x :: go (seq a (c - a) ++ emitted) b'
      | _ => dedup_stmt x :: go emitted b'
      end
    end in
  match s with
  | SBlock b => SBlock (go [] b)
  | SIf c a r => SIf c (go [] a) (go [] r)
  | SSwitch sel cases =>
    SSwitch sel ((fix go_cases (cs : list (switch_value * list stmt * bool)) :=
                    match cs with [] => [] | (v, b, ft) :: cs' => (v, go [] b, ft) :: go_cases cs' end) cases)
  | SLoop b c bi => SLoop (go [] b) (go [] c) bi
  | _ => s
  end.

Fixpoint dedup_block_from (emitted : list nat) (b : list stmt) : list stmt :=
  match b with
  | [] => []
  | x :: b' =>
    match x with
    | SEmit a c => if emit_redundant emitted a c then dedup_block_from emitted b'
                   else x :: dedup_block_from (seq a (c - a) ++ emitted) b'
    | _ => dedup_stmt x :: dedup_block_from emitted b'
    end
  end.
End Dedup.

Definition dedup_function (f : func) : func :=
  mkfunc (f_name f) (f_args f) (f_result f) (f_locals f) (f_exprs f) (f_expr_types f)
         (dedup_block_from (f_exprs f) [] (f_body f)) (f_named f).

Definition dedup_emits (m : module) : module := map_funcs dedup_function m.

(* the two pipelines the harness also drives *)
Definition lower_pipeline (mo : module * list nat) : module * list nat :=
  let (m, tuo) := mo in
  let (m2, tuo2) := reorder_types (compact_types (compact_expressions (compact_constants m), tuo)) in
  (dedup_emits m2, tuo2).

Definition unused_pipeline (mo : module * list nat) : module * list nat :=
  let (m, tuo) := mo in
  reorder_types (compact_types (compact_expressions (compact_constants (compact_unused m)), tuo)).
