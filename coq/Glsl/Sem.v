(* Executable fuel-indexed semantics of the GLSL subset of Glsl/Syntax.v (property C05),
   single invocation, over the run-time values of IR/Values.v so that final buffer
   contents compare directly with the IR reference interpreter (tool irrun).

   - expressions are pure (user functions and atomics are called only from the statement
     forms naga emits:  T x = f(..);  x = f(..);  f(..);  return f(..);)
   - struct, array, vector and matrix values have by-value semantics; l-values are
     (root variable, path) pairs; inout/out parameters are copy-in / copy-out
   - buffer and uniform blocks are structured values supplied by the harness, keyed by
     the block name; a runtime-sized array is as long as the supplied value (.length())
   - variables declared without initialiser hold a poison value: reading it is
     Fail "UB: ..." (GLSL leaves the value undefined)
   - block scoping: every compound statement opens a scope; redeclaration in the same
     scope and use of an undeclared name are Fail "TYPE: ..." *)
From Coq Require Import List ZArith String Bool Ascii.
Import ListNotations.
Require Import Naga.Base.Bits32 Naga.Base.F32 Naga.IR.Values Naga.Glsl.Syntax Naga.Glsl.Ops.
Open Scope string_scope.
Open Scope Z_scope.

Definition POISON : value := VPtr 0 [].
Definition is_poison (v : value) : bool := match v with VPtr _ _ => true | _ => false end.

Definition tv := (gty * value)%type.
Definition scope := list (string * tv).
Record state := mkst { st_globals : scope; st_scopes : list scope }.

Fixpoint sc_find (x : string) (s : scope) : option tv :=
  match s with [] => None | (y, r) :: s' => if String.eqb x y then Some r else sc_find x s' end.

Fixpoint sc_set (x : string) (v : value) (s : scope) : option scope :=
  match s with
  | [] => None
  | (y, (t, w)) :: s' =>
    if String.eqb x y then Some ((y, (t, v)) :: s')
    else match sc_set x v s' with Some s'' => Some ((y, (t, w)) :: s'') | None => None end
  end.

Fixpoint scopes_find (x : string) (ss : list scope) : option tv :=
  match ss with
  | [] => None
  | s :: ss' => match sc_find x s with Some r => Some r | None => scopes_find x ss' end
  end.

Fixpoint scopes_set (x : string) (v : value) (ss : list scope) : option (list scope) :=
  match ss with
  | [] => None
  | s :: ss' =>
    match sc_set x v s with
    | Some s' => Some (s' :: ss')
    | None => match scopes_set x v ss' with Some r => Some (s :: r) | None => None end
    end
  end.

Definition lookup (st : state) (x : string) : option tv :=
  match scopes_find x (st_scopes st) with Some r => Some r | None => sc_find x (st_globals st) end.

Fixpoint find_struct (ss : list sdef) (n : string) : option sdef :=
  match ss with [] => None | s :: ss' => if String.eqb n (s_name s) then Some s else find_struct ss' n end.

Fixpoint find_func (fs : list func) (n : string) : option func :=
  match fs with [] => None | f :: fs' => if String.eqb n (f_name f) then Some f else find_func fs' n end.

Fixpoint find_gvar (gs : list gvar) (n : string) : option gvar :=
  match gs with [] => None | g :: gs' => if String.eqb n (g_name g) then Some g else find_gvar gs' n end.

Fixpoint member_index (ms : list (string * gty)) (f : string) (i : nat) : option (nat * gty) :=
  match ms with
  | [] => None
  | (n, t) :: ms' => if String.eqb f n then Some (i, t) else member_index ms' f (S i)
  end.

Definition nth_res {A} (msg : string) (l : list A) (n : nat) : result A :=
  match nth_error l n with Some x => Done x | None => Fail msg end.

Fixpoint set_nth {A} (l : list A) (n : nat) (x : A) : list A :=
  match l, n with
  | [], _ => []
  | _ :: l', O => x :: l'
  | y :: l', S n' => y :: set_nth l' n' x
  end.

Definition elems (v : value) : result (list value) :=
  match v with
  | VVec l | VMat l | VArr l | VStruct l => Done l
  | VPtr _ _ => UB "access into an uninitialised variable"
  | _ => TYPE "member/index access into a scalar"
  end.

Definition rebuild (v : value) (l : list value) : value :=
  match v with VVec _ => VVec l | VMat _ => VMat l | VArr _ => VArr l | VStruct _ => VStruct l | _ => v end.

Fixpoint load_path (v : value) (p : list nat) : result value :=
  match p with
  | [] => Done v
  | i :: p' => l <~ elems v ;; x <~ nth_res "UB: index out of bounds" l i ;; load_path x p'
  end.

Fixpoint store_path (v : value) (p : list nat) (nv : value) : result value :=
  match p with
  | [] => Done nv
  | i :: p' =>
    l <~ elems v ;; x <~ nth_res "UB: index out of bounds (store)" l i ;;
    x' <~ store_path x p' nv ;; Done (rebuild v (set_nth l i x'))
  end.

(* ---- swizzles ---- *)
Definition comp_index (c : ascii) : option nat :=
  let s := String c EmptyString in
  if String.eqb s "x" || String.eqb s "r" || String.eqb s "s" then Some 0%nat
  else if String.eqb s "y" || String.eqb s "g" || String.eqb s "t" then Some 1%nat
  else if String.eqb s "z" || String.eqb s "b" || String.eqb s "p" then Some 2%nat
  else if String.eqb s "w" || String.eqb s "a" || String.eqb s "q" then Some 3%nat
  else None.

Fixpoint swizzle_indices (f : string) : option (list nat) :=
  match f with
  | EmptyString => Some []
  | String c r => match comp_index c, swizzle_indices r with Some i, Some l => Some (i :: l) | _, _ => None end
  end.

Definition swizzle (v : value) (f : string) : result value :=
  match v with
  | VVec l =>
    match swizzle_indices f with
    | Some [i] => nth_res "TYPE: swizzle component beyond the vector size" l i
    | Some (i :: j :: r) =>
      if Nat.leb (List.length (i :: j :: r)) 4 then
        vs <~ rmap (fun k => nth_res "TYPE: swizzle component beyond the vector size" l k) (i :: j :: r) ;; Done (VVec vs)
      else TYPE "swizzle with more than four components"
    | _ => TYPE ("not a swizzle: " ++ f)
    end
  | VPtr _ _ => UB "access into an uninitialised variable"
  | _ => TYPE ("field selection on a value that is neither a struct nor a vector: " ++ f)
  end.

Definition index_of (v : value) : result nat :=
  match v with
  | VI32 z => if z <? H32 then Done (Z.to_nat z) else UB "negative array index"
  | VU32 z => Done (Z.to_nat z)
  | _ => TYPE "array index must be an integer"
  end.

Definition elem_ty (t : gty) : gty :=
  match t with
  | TArr e _ => e
  | TVec k _ => TScalar k
  | TMat _ r => TVec KFloat r
  | _ => TUnknown
  end.

(* ---- conformance of a value to a declared type (with desktop implicit conversions) ---- *)
Fixpoint coerce (fuel : nat) (es : bool) (ss : list sdef) (t : gty) (v : value) {struct fuel} : result value :=
  match fuel with
  | O => OutOfFuel
  | S fu =>
    if is_poison v then Done v else      (* an undefined value may be copied; using it is UB *)
    match t with
    | TUnknown => Done v
    | TVoid => TYPE "value of type void"
    | TScalar k =>
      match kind_of_scalar v with
      | Some k' => if sk_eqb k k' then Done v
                   else if es then TYPE "initialiser/operand type differs from the declared type (GLSL ES has no implicit conversions)"
                   else imp_scalar k v
      | None => TYPE "value does not have the declared scalar type"
      end
    | TVec k n =>
      match v with
      | VVec l =>
        if Nat.eqb (List.length l) n then
          match base_kind v with
          | Some k' => if sk_eqb k k' then Done v
                       else if es then TYPE "vector type differs from the declared type (GLSL ES has no implicit conversions)"
                       else imp_value k v
          | None => TYPE "value does not have the declared vector type"
          end
        else TYPE "vector size differs from the declared type"
      | _ => TYPE "value does not have the declared vector type"
      end
    | TMat c r =>
      match v with
      | VMat cols =>
        if Nat.eqb (List.length cols) c
           && forallb (fun col => match col with VVec l => Nat.eqb (List.length l) r | _ => false end) cols
        then Done v else TYPE "matrix dimensions differ from the declared type"
      | _ => TYPE "value does not have the declared matrix type"
      end
    | TStruct n =>
      match v, find_struct ss n with
      | VStruct l, Some sd =>
        rbind ((fix go (ms : list (string * gty)) (l : list value) : result (list value) :=
                  match ms, l with
                  | [], [] => Done []
                  | (_, mt) :: ms', x :: l' => y <~ coerce fu es ss mt x ;; ys <~ go ms' l' ;; Done (y :: ys)
                  | _, _ => TYPE "struct value with a wrong number of members"
                  end) (s_members sd) l) (fun l' => Done (VStruct l'))
      | _, None => TYPE ("undeclared struct type " ++ n)
      | _, _ => TYPE ("value does not have the declared struct type " ++ n)
      end
    | TArr e n =>
      match v with
      | VArr l =>
        if match n with Some k => Nat.eqb (List.length l) k | None => true end
        then l' <~ rmap (coerce fu es ss e) l ;; Done (VArr l')
        else TYPE "array size differs from the declared type"
      | _ => TYPE "value does not have the declared array type"
      end
    end
  end.

Definition zero_scalar (k : sk) : value :=
  match k with KInt => VI32 0 | KUint => VU32 0 | KFloat => VF32 0 | KBool => VBool false end.

Fixpoint zero_of (fuel : nat) (ss : list sdef) (t : gty) {struct fuel} : result value :=
  match fuel with
  | O => OutOfFuel
  | S fu =>
    match t with
    | TScalar k => Done (zero_scalar k)
    | TVec k n => Done (VVec (repeat (zero_scalar k) n))
    | TMat c r => Done (VMat (repeat (VVec (repeat (VF32 0) r)) c))
    | TStruct n =>
      match find_struct ss n with
      | Some sd => l <~ rmap (fun m => zero_of fu ss (snd m)) (s_members sd) ;; Done (VStruct l)
      | None => TYPE ("undeclared struct type " ++ n)
      end
    | TArr e (Some n) => z <~ zero_of fu ss e ;; Done (VArr (repeat z n))
    | _ => OOF "zero value of this type"
    end
  end.

(* the value of a variable declared without initialiser: undefined leaves in the shape of its type *)
Fixpoint poison_of (fuel : nat) (ss : list sdef) (t : gty) {struct fuel} : value :=
  match fuel with
  | O => POISON
  | S fu =>
    match t with
    | TVec _ n => VVec (repeat POISON n)
    | TMat c r => VMat (repeat (VVec (repeat POISON r)) c)
    | TStruct n =>
      match find_struct ss n with
      | Some sd => VStruct (map (fun m => poison_of fu ss (snd m)) (s_members sd))
      | None => POISON
      end
    | TArr e (Some n) => VArr (repeat (poison_of fu ss e) n)
    | _ => POISON
    end
  end.

Section WithProgram.
Variable P : prog.

Definition cfuel : nat := S (S (List.length (p_structs P))).
Definition conform (t : gty) (v : value) : result value := coerce (cfuel + 8) (p_es P) (p_structs P) t v.
Definition undef (t : gty) : value := poison_of (cfuel + 8) (p_structs P) t.

Definition ctor_struct (n : string) (args : list value) : result value :=
  match find_struct (p_structs P) n with
  | None => TYPE ("undeclared struct type " ++ n)
  | Some sd =>
    if Nat.eqb (List.length args) (List.length (s_members sd)) then conform (TStruct n) (VStruct args)
    else TYPE ("struct constructor with a wrong number of arguments: " ++ n)
  end.

Definition eval_ctor (t : gty) (args : list value) : result value :=
  match t with
  | TScalar k =>
    match args with
    | [VVec (x :: _)] => conv_scalar k x
    | [x] => conv_scalar k x
    | _ => TYPE "scalar constructor takes one argument"
    end
  | TVec k n => ctor_vec k n args
  | TMat c r => ctor_mat c r args
  | TStruct n => ctor_struct n args
  | TArr e n =>
    if match n with Some k => Nat.eqb (List.length args) k | None => true end
    then conform (TArr e n) (VArr args) else TYPE "array constructor with a wrong number of arguments"
  | _ => TYPE "constructor of this type"
  end.

Definition is_noop_builtin (f : string) : bool :=
  String.eqb f "barrier" || String.eqb f "memoryBarrier" || String.eqb f "memoryBarrierShared"
  || String.eqb f "memoryBarrierBuffer" || String.eqb f "memoryBarrierImage" || String.eqb f "groupMemoryBarrier"
  || String.eqb f "memoryBarrierAtomicCounter".

Definition atomic_fun (f : string) : option (value -> value -> result value) :=
  if String.eqb f "atomicAdd" then Some (arith_s BAdd)
  else if String.eqb f "atomicAnd" then Some (bit_s BAnd)
  else if String.eqb f "atomicOr" then Some (bit_s BOr)
  else if String.eqb f "atomicXor" then Some (bit_s BXor)
  else if String.eqb f "atomicMin" then Some g_min_s
  else if String.eqb f "atomicMax" then Some g_max_s
  else if String.eqb f "atomicExchange" then Some (fun _ v => Done v)
  else None.

(* ---- pure expression evaluation ---- *)
Section Eval.
Variable st : state.

Fixpoint eval_expr (e : expr) : result tv :=
  match e with
  | EInt z => Done (TScalar KInt, VI32 z)
  | EUint z => Done (TScalar KUint, VU32 z)
  | EFloat z => Done (TScalar KFloat, VF32 z)
  | EBool b => Done (TScalar KBool, VBool b)
  | EVar x =>
    match lookup st x with
    | Some (t, v) => if is_poison v then UB ("read of the uninitialised variable " ++ x) else Done (t, v)
    | None => TYPE ("undeclared identifier " ++ x)
    end
  | EUn o a => r <~ eval_expr a ;; v <~ eval_unop o (snd r) ;; Done (TUnknown, v)
  | EBin o a b => ra <~ eval_expr a ;; rb <~ eval_expr b ;; v <~ eval_binop (p_es P) o (snd ra) (snd rb) ;; Done (TUnknown, v)
  | ECond c a b =>
    rc <~ eval_expr c ;;
    match snd rc with
    | VBool true => eval_expr a
    | VBool false => eval_expr b
    | _ => TYPE "?: condition must be a scalar bool"
    end
  | ECall f args =>
    vs <~ (fix go (l : list expr) : result (list value) :=
             match l with [] => Done [] | a :: l' => r <~ eval_expr a ;; rs <~ go l' ;; Done (snd r :: rs) end) args ;;
    match find_func (p_funcs P) f with
    | Some _ => OOF ("call of the user function " ++ f ++ " nested in an expression")
    | None =>
      if is_noop_builtin f then TYPE "void function used as a value"
      else match atomic_fun f with
           | Some _ => OOF "atomic function nested in an expression"
           | None => v <~ eval_builtin f vs ;; Done (TUnknown, v)
           end
    end
  | ECtor t args =>
    vs <~ (fix go (l : list expr) : result (list value) :=
             match l with [] => Done [] | a :: l' => r <~ eval_expr a ;; rs <~ go l' ;; Done (snd r :: rs) end) args ;;
    v <~ eval_ctor t vs ;; Done (t, v)
  | EField a f =>
    r <~ eval_expr a ;;
    match fst r with
    | TStruct n =>
      match find_struct (p_structs P) n with
      | Some sd =>
        match member_index (s_members sd) f 0 with
        | Some (i, mt) =>
          l <~ elems (snd r) ;; v <~ nth_res "TYPE: struct value shorter than its type" l i ;;
          if is_poison v then UB ("read of an uninitialised member " ++ f) else Done (mt, v)
        | None => TYPE ("struct " ++ n ++ " has no member " ++ f)
        end
      | None => TYPE ("undeclared struct type " ++ n)
      end
    | _ =>
      v <~ swizzle (snd r) f ;;
      if is_poison v || match v with VVec l => existsb is_poison l | _ => false end
      then UB "read of an uninitialised vector component" else Done (TUnknown, v)
    end
  | EIndex a i =>
    r <~ eval_expr a ;; ri <~ eval_expr i ;; n <~ index_of (snd ri) ;;
    l <~ elems (snd r) ;;
    match snd r with
    | VStruct _ => TYPE "indexing a struct"
    | _ => v <~ nth_res "UB: index out of bounds" l n ;;
           if is_poison v then UB "read of an uninitialised element" else Done (elem_ty (fst r), v)
    end
  | ELength a =>
    r <~ eval_expr a ;;
    match snd r with
    | VArr l => Done (TScalar KInt, VI32 (Z.of_nat (List.length l)))
    | _ => OOF ".length() of a non-array"
    end
  end.

(* l-values: root variable, path, type at the path *)
Definition lval := (string * list nat * gty)%type.

Fixpoint eval_lvalue (e : expr) : result lval :=
  match e with
  | EVar x =>
    match lookup st x with
    | Some (t, _) => Done (x, [], t)
    | None => TYPE ("undeclared identifier " ++ x)
    end
  | EField a f =>
    lv <~ eval_lvalue a ;;
    let '(x, pth, t) := lv in
    match t with
    | TStruct n =>
      match find_struct (p_structs P) n with
      | Some sd =>
        match member_index (s_members sd) f 0 with
        | Some (i, mt) => Done (x, (pth ++ [i])%list, mt)
        | None => TYPE ("struct " ++ n ++ " has no member " ++ f)
        end
      | None => TYPE ("undeclared struct type " ++ n)
      end
    | TVec k n =>
      match swizzle_indices f with
      | Some [i] => if Nat.ltb i n then Done (x, (pth ++ [i])%list, TScalar k) else TYPE "swizzle component beyond the vector size"
      | Some _ => OOF "multi-component swizzle as an l-value"
      | None => TYPE ("not a swizzle: " ++ f)
      end
    | _ => TYPE ("field selection in an l-value that is neither a struct nor a vector: " ++ f)
    end
  | EIndex a i =>
    lv <~ eval_lvalue a ;;
    let '(x, pth, t) := lv in
    ri <~ eval_expr i ;; n <~ index_of (snd ri) ;;
    match lookup st x with
    | Some (_, root) =>
      cur <~ load_path root pth ;; l <~ elems cur ;;
      match t with
      | TStruct _ => TYPE "indexing a struct"
      | _ => if Nat.ltb n (List.length l) then Done (x, (pth ++ [n])%list, elem_ty t) else UB "index out of bounds"
      end
    | None => TYPE ("undeclared identifier " ++ x)
    end
  | _ => TYPE "expression is not an l-value"
  end.

Definition load_lv (lv : lval) : result value :=
  let '(x, pth, _) := lv in
  match lookup st x with
  | Some (_, root) => v <~ load_path root pth ;; if is_poison v then UB ("read of the uninitialised variable " ++ x) else Done v
  | None => TYPE ("undeclared identifier " ++ x)
  end.
End Eval.

Definition writable (x : string) : bool :=
  match find_gvar (p_globals P) x with
  | Some g => match g_kind g with GConst | GUniform | GBuiltin => false | _ => true end
  | None => true
  end.

Definition store_lv (st : state) (lv : lval) (v : value) : result state :=
  let '(x, pth, t) := lv in
  v' <~ conform t v ;;
  match scopes_find x (st_scopes st) with
  | Some (_, root) =>
    root' <~ store_path root pth v' ;;
    match scopes_set x root' (st_scopes st) with
    | Some ss => Done (mkst (st_globals st) ss)
    | None => Fail "internal: scopes_set"
    end
  | None =>
    match sc_find x (st_globals st) with
    | Some (_, root) =>
      if writable x then
        root' <~ store_path root pth v' ;;
        match sc_set x root' (st_globals st) with
        | Some gs => Done (mkst gs (st_scopes st))
        | None => Fail "internal: sc_set"
        end
      else TYPE ("assignment to the read-only variable " ++ x)
    | None => TYPE ("undeclared identifier " ++ x)
    end
  end.

Definition declare (st : state) (x : string) (t : gty) (v : value) : result state :=
  match st_scopes st with
  | [] => Fail "internal: no scope"
  | s :: rest =>
    match sc_find x s with
    | Some _ => TYPE ("redeclaration of " ++ x ++ " in the same scope")
    | None => Done (mkst (st_globals st) (((x, (t, v)) :: s) :: rest))
    end
  end.

Definition push (st : state) : state := mkst (st_globals st) ([] :: st_scopes st).
Definition pop (st : state) : state := mkst (st_globals st) (tl (st_scopes st)).

Inductive outcome := ONormal | OBreak | OContinue | OReturn (v : option tv).

Definition incr_value (v : value) : result value :=
  match v with
  | VI32 z => Done (VI32 (g_add z 1))
  | VU32 z => Done (VU32 (g_add z 1))
  | VF32 z => Done (VF32 (fadd z F_ONE))
  | _ => TYPE "++ on a non-numeric operand"
  end.

(* arguments: callee scope and the copy-out list (parameter name, caller l-value) *)
Fixpoint bind_params (st : state) (ps : list param) (args : list expr) : result (scope * list (string * lval)) :=
  match ps, args with
  | [], [] => Done ([], [])
  | p :: ps', a :: args' =>
    r <~ bind_params st ps' args' ;;
    let '(sc, outs) := r in
    match sc_find (p_name p) sc with
    | Some _ => TYPE ("duplicate parameter name " ++ p_name p)
    | None =>
      match p_qual p with
      | PIn => r <~ eval_expr st a ;; v <~ conform (p_ty p) (snd r) ;; Done ((p_name p, (p_ty p, v)) :: sc, outs)
      | PInout =>
        lv <~ eval_lvalue st a ;; v <~ load_lv st lv ;; v' <~ conform (p_ty p) v ;;
        Done ((p_name p, (p_ty p, v')) :: sc, (p_name p, lv) :: outs)
      | POut => lv <~ eval_lvalue st a ;; Done ((p_name p, (p_ty p, undef (p_ty p))) :: sc, (p_name p, lv) :: outs)
      end
    end
  | _, _ => TYPE "call with a wrong number of arguments"
  end.

Fixpoint copy_outs (st : state) (callee : scope) (outs : list (string * lval)) : result state :=
  match outs with
  | [] => Done st
  | (pn, lv) :: outs' =>
    match sc_find pn callee with
    | Some (_, v) =>
      if is_poison v then UB ("out parameter " ++ pn ++ " was not written")
      else st' <~ store_lv st lv v ;; copy_outs st' callee outs'
    | None => Fail "internal: parameter lost"
    end
  end.

Fixpoint case_matches (st : state) (sel : value) (labels : list (option expr)) : result bool :=
  match labels with
  | [] => Done false
  | None :: r => case_matches st sel r
  | Some e :: r =>
    lv <~ eval_expr st e ;;
    p <~ unify (p_es P) sel (snd lv) ;;
    m <~ agg_eq (fst p) (snd p) ;;
    if m then Done true else case_matches st sel r
  end.

Fixpoint find_case (st : state) (sel : value) (cases : list (list (option expr) * list stmt)) (i : nat) : result (option nat) :=
  match cases with
  | [] => Done None
  | (labels, _) :: r => m <~ case_matches st sel labels ;; if m then Done (Some i) else find_case st sel r (S i)
  end.

Fixpoint find_default (cases : list (list (option expr) * list stmt)) (i : nat) : option nat :=
  match cases with
  | [] => None
  | (labels, _) :: r => if existsb (fun l => match l with None => true | _ => false end) labels then Some i else find_default r (S i)
  end.

Fixpoint exec_stmts (fuel : nat) (ss : list stmt) (st : state) {struct fuel} : result (outcome * state) :=
  match fuel with
  | O => OutOfFuel
  | S fu =>
    match ss with
    | [] => Done (ONormal, st)
    | s :: rest =>
      r <~ exec_stmt fu s st ;;
      let '(o, st') := r in
      match o with ONormal => exec_stmts fu rest st' | _ => Done (o, st') end
    end
  end
with exec_stmt (fuel : nat) (s : stmt) (st : state) {struct fuel} : result (outcome * state) :=
  match fuel with
  | O => OutOfFuel
  | S fu =>
    match s with
    | SDecl t x None => st' <~ declare st x t (undef t) ;; Done (ONormal, st')
    | SDecl t x (Some e) =>
      r <~ eval_rhs fu e st ;;
      let '(res, st1) := r in
      match res with
      | Some (_, v) => v' <~ conform t v ;; st2 <~ declare st1 x t v' ;; Done (ONormal, st2)
      | None => TYPE "void function used as an initialiser"
      end
    | SAssign lhs rhs =>
      r <~ eval_rhs fu rhs st ;;
      let '(res, st1) := r in
      match res with
      | Some (_, v) => lv <~ eval_lvalue st1 lhs ;; st2 <~ store_lv st1 lv v ;; Done (ONormal, st2)
      | None => TYPE "void function used as a value"
      end
    | SIncr lhs =>
      lv <~ eval_lvalue st lhs ;; v <~ load_lv st lv ;; v' <~ incr_value v ;; st' <~ store_lv st lv v' ;; Done (ONormal, st')
    | SExpr e => r <~ eval_rhs fu e st ;; Done (ONormal, snd r)
    | SIf c a b =>
      rc <~ eval_expr st c ;;
      match snd rc with
      | VBool true => exec_scoped fu a st
      | VBool false => exec_scoped fu b st
      | _ => TYPE "if: condition must be a scalar bool"
      end
    | SWhile c body => exec_while fu c body st
    | SDoWhile body c => exec_dowhile fu body c st
    | SFor init c step body =>
      r <~ exec_stmts fu init (push st) ;;
      let '(o, st1) := r in
      match o with
      | ONormal => r2 <~ exec_for fu c step body st1 ;; Done (fst r2, pop (snd r2))
      | _ => TYPE "control transfer in a for-initialiser"
      end
    | SSwitch sel cases =>
      rs <~ eval_expr st sel ;;
      match snd rs with
      | VI32 _ | VU32 _ =>
        fc <~ find_case st (snd rs) cases 0 ;;
        match (match fc with Some i => Some i | None => find_default cases 0 end) with
        | None => Done (ONormal, st)
        | Some i =>
          r <~ exec_cases fu (skipn i cases) (push st) ;;
          let '(o, st') := r in
          Done (match o with OBreak => ONormal | _ => o end, pop st')
        end
      | _ => TYPE "switch: selector must be a scalar integer"
      end
    | SBreak => Done (OBreak, st)
    | SContinue => Done (OContinue, st)
    | SReturn None => Done (OReturn None, st)
    | SReturn (Some e) =>
      r <~ eval_rhs fu e st ;;
      match fst r with
      | Some x => Done (OReturn (Some x), snd r)
      | None => TYPE "void function used as a return value"
      end
    | SDiscard => OOF "discard"
    | SBlock b => exec_scoped fu b st
    end
  end
with exec_scoped (fuel : nat) (b : list stmt) (st : state) {struct fuel} : result (outcome * state) :=
  match fuel with
  | O => OutOfFuel
  | S fu => r <~ exec_stmts fu b (push st) ;; Done (fst r, pop (snd r))
  end
with exec_cases (fuel : nat) (cases : list (list (option expr) * list stmt)) (st : state) {struct fuel}
  : result (outcome * state) :=
  match fuel with
  | O => OutOfFuel
  | S fu =>
    match cases with
    | [] => Done (ONormal, st)
    | (_, body) :: rest =>
      r <~ exec_stmts fu body st ;;
      let '(o, st') := r in
      match o with ONormal => exec_cases fu rest st' | _ => Done (o, st') end
    end
  end
with exec_while (fuel : nat) (c : expr) (body : list stmt) (st : state) {struct fuel} : result (outcome * state) :=
  match fuel with
  | O => OutOfFuel
  | S fu =>
    rc <~ eval_expr st c ;;
    match snd rc with
    | VBool false => Done (ONormal, st)
    | VBool true =>
      r <~ exec_scoped fu body st ;;
      let '(o, st') := r in
      match o with
      | OBreak => Done (ONormal, st')
      | OReturn _ => Done (o, st')
      | ONormal | OContinue => exec_while fu c body st'
      end
    | _ => TYPE "while: condition must be a scalar bool"
    end
  end
with exec_dowhile (fuel : nat) (body : list stmt) (c : expr) (st : state) {struct fuel} : result (outcome * state) :=
  match fuel with
  | O => OutOfFuel
  | S fu =>
    r <~ exec_scoped fu body st ;;
    let '(o, st') := r in
    match o with
    | OBreak => Done (ONormal, st')
    | OReturn _ => Done (o, st')
    | ONormal | OContinue =>          (* continue in a do-while jumps to the condition *)
      rc <~ eval_expr st' c ;;
      match snd rc with
      | VBool false => Done (ONormal, st')
      | VBool true => exec_dowhile fu body c st'
      | _ => TYPE "do-while: condition must be a scalar bool"
      end
    end
  end
with exec_for (fuel : nat) (c : expr) (step body : list stmt) (st : state) {struct fuel} : result (outcome * state) :=
  match fuel with
  | O => OutOfFuel
  | S fu =>
    rc <~ eval_expr st c ;;
    match snd rc with
    | VBool false => Done (ONormal, st)
    | VBool true =>
      r <~ exec_scoped fu body st ;;
      let '(o, st') := r in
      match o with
      | OBreak => Done (ONormal, st')
      | OReturn _ => Done (o, st')
      | ONormal | OContinue =>
        r2 <~ exec_stmts fu step st' ;;
        match fst r2 with
        | ONormal => exec_for fu c step body (snd r2)
        | _ => TYPE "control transfer in a for-step"
        end
      end
    | _ => TYPE "for: condition must be a scalar bool"
    end
  end
(* right-hand sides / expression statements: the only places where functions with effects are called *)
with eval_rhs (fuel : nat) (e : expr) (st : state) {struct fuel} : result (option tv * state) :=
  match fuel with
  | O => OutOfFuel
  | S fu =>
    match e with
    | ECall f args =>
      match find_func (p_funcs P) f with
      | Some fn => call_fn fu fn args st
      | None =>
        if is_noop_builtin f then
          (match args with [] => Done (None, st) | _ => TYPE "barrier with arguments" end)
        else
          match atomic_fun f, args with
          | Some op, [target; operand] =>
            lv <~ eval_lvalue st target ;; old <~ load_lv st lv ;;
            ro <~ eval_expr st operand ;;
            nw <~ op old (snd ro) ;;
            st' <~ store_lv st lv nw ;;
            Done (Some (TUnknown, old), st')
          | Some _, _ => TYPE "atomic function: arguments"
          | None, _ => r <~ eval_expr st e ;; Done (Some r, st)
          end
      end
    | _ => r <~ eval_expr st e ;; Done (Some r, st)
    end
  end
with call_fn (fuel : nat) (fn : func) (args : list expr) (st : state) {struct fuel} : result (option tv * state) :=
  match fuel with
  | O => OutOfFuel
  | S fu =>
    b <~ bind_params st (f_params fn) args ;;
    let '(sc, outs) := b in
    r <~ exec_stmts fu (f_body fn) (mkst (st_globals st) [sc]) ;;
    let '(o, st') := r in
    ret <~ match o with
           | OReturn (Some (_, v)) =>
             match f_ret fn with
             | TVoid => TYPE ("void function returns a value: " ++ f_name fn)
             | t => v' <~ conform t v ;; Done (Some (t, v'))
             end
           | OReturn None | ONormal =>
             match f_ret fn with
             | TVoid => Done None
             | _ => UB ("function ends without returning a value: " ++ f_name fn)
             end
           | _ => TYPE "break/continue outside of a loop or switch"
           end ;;
    st2 <~ copy_outs (mkst (st_globals st') (st_scopes st)) (hd [] (st_scopes st')) outs ;;
    Done (ret, st2)
  end.

(* ---- whole program: initial globals, run main, final contents of the buffer blocks ---- *)
Fixpoint assoc_value (k : string) (l : list (string * value)) : option value :=
  match l with [] => None | (k', v) :: l' => if String.eqb k k' then Some v else assoc_value k l' end.

Fixpoint init_globals (gs : list gvar) (buffers builtins : list (string * value)) (shared_zero : bool) (acc : scope)
  : result scope :=
  match gs with
  | [] => Done acc
  | g :: gs' =>
    match sc_find (g_name g) acc with
    | Some _ => TYPE ("redeclaration of the global " ++ g_name g)
    | None =>
      v <~ match g_kind g with
           | GBuffer | GUniform =>
             match assoc_value (g_block g) buffers with
             | Some v =>
               match coerce (cfuel + 8) true (p_structs P) (g_ty g) v with
               | Fail m => Fail ("TYPE: the members of block " ++ g_block g ++ " do not have the types of the WGSL buffer: " ++ m)
               | r => r
               end
             | None => Fail ("HARNESS: no contents supplied for block " ++ g_block g)
             end
           | GBuiltin =>
             match assoc_value (g_name g) builtins with
             | Some v => coerce (cfuel + 8) true (p_structs P) (g_ty g) v
             | None => Fail ("HARNESS: no value supplied for built-in " ++ g_name g)
             end
           | GShared => if shared_zero then zero_of (cfuel + 8) (p_structs P) (g_ty g) else Done (undef (g_ty g))
           | GPlain | GConst =>
             match g_init g with
             | Some e => r <~ eval_expr (mkst acc []) e ;; conform (g_ty g) (snd r)
             | None => match g_kind g with GConst => TYPE "const without initialiser" | _ => Done (undef (g_ty g)) end
             end
           end ;;
      init_globals gs' buffers builtins shared_zero (acc ++ [(g_name g, (g_ty g, v))])%list
    end
  end.

Fixpoint dup_name (l : list string) : option string :=
  match l with
  | [] => None
  | x :: r => if existsb (String.eqb x) r then Some x else dup_name r
  end.

Definition collect_buffers (gs : list gvar) (final : scope) : list (string * value) :=
  flat_map (fun g => match g_kind g with
                     | GBuffer => match sc_find (g_name g) final with Some (_, v) => [(g_block g, v)] | None => [] end
                     | _ => [] end) gs.

Definition run_main (fuel : nat) (buffers builtins : list (string * value)) (shared_zero : bool)
  : result (list (string * value)) :=
  match dup_name (map f_name (p_funcs P)), dup_name (map s_name (p_structs P)), dup_name (map g_block (filter (fun g => match g_kind g with GBuffer | GUniform => true | _ => false end) (p_globals P))) with
  | Some f, _, _ => TYPE ("redefinition of the function " ++ f)
  | _, Some s, _ => TYPE ("redefinition of the struct " ++ s)
  | _, _, Some b => TYPE ("redefinition of the block " ++ b)
  | None, None, None =>
    gl <~ init_globals (p_globals P) buffers builtins shared_zero [] ;;
    match find_func (p_funcs P) "main" with
    | None => TYPE "no function main"
    | Some m =>
      r <~ call_fn fuel m [] (mkst gl []) ;;
      Done (collect_buffers (p_globals P) (st_globals (snd r)))
    end
  end.

End WithProgram.
