(* Catalogue of the GLSL expression templates naga emits per (IR operator / math builtin, scalar
   kind, shape), read off glsl/internal/codegen/expressions.go, as expression trees over the
   operand variables a, b, c, d.  CatalogueProofs.v proves each template correct for ALL 32-bit
   operands under the property's definedness hypotheses (or refutes it); Glsl/OpTable.v ties the
   catalogue to /repo through the regenerated probe table coq/Gen/GlslOpTable.v. *)
From Coq Require Import List ZArith String Bool.
Import ListNotations.
Require Import Naga.IR.Values Naga.Glsl.Syntax Naga.Glsl.Ops Naga.Glsl.Sem.
Open Scope string_scope.
Open Scope Z_scope.

(* ---- evaluation of a template: operands bound as local variables of an empty program ---- *)
Definition P0 (es : bool) : prog := mkprog es 0 [] [] [].
Definition env (vars : list (string * value)) : state :=
  mkst [] [map (fun kv => (fst kv, (TUnknown, snd kv))) vars].
Definition teval (es : bool) (e : expr) (vars : list (string * value)) : result value :=
  r <~ eval_expr (P0 es) (env vars) e ;; Done (snd r).

Definition va := EVar "a".
Definition vb := EVar "b".
Definition vc := EVar "c".
Definition vd := EVar "d".

(* ---- templates ---- *)
Definition t_bin (o : binop) := EBin o va vb.
Definition t_un (o : unop) := EUn o va.
Definition t_call1 (f : string) := ECall f [va].
Definition t_call2 (f : string) := ECall f [va; vb].
Definition t_call3 (f : string) := ECall f [va; vb; vc].
Definition t_select := ECond vc vb va.                          (* select(a, b, c) = c ? b : a *)
Definition t_ctor (t : gty) := ECtor t [va].
Definition t_ctor_call (t : gty) (f : string) := ECtor t [ECall f [va]].

Definition comp_names : list string := ["x"; "y"; "z"; "w"].
(* bvecN(a.x && b.x, a.y && b.y, ...) *)
Definition t_bool_vec (o : binop) (n : nat) :=
  ECtor (TVec KBool n) (map (fun c => EBin o (EField va c) (EField vb c)) (firstn n comp_names)).
(* ( + a.x * b.x + a.y * b.y ...) *)
Definition t_int_dot (n : nat) : expr :=
  match firstn n comp_names with
  | [] => EInt 0
  | c0 :: rest =>
    fold_left (fun acc c => EBin BAdd acc (EBin BMul (EField va c) (EField vb c))) rest
              (EBin BMul (EUn UPlus (EField va c0)) (EField vb c0))
  end.
Definition t_saturate (n : nat) :=
  match n with
  | 1%nat => ECall "clamp" [va; EFloat 0; EFloat F_ONE]
  | _ => ECall "clamp" [va; ECtor (TVec KFloat n) [EFloat 0]; ECtor (TVec KFloat n) [EFloat F_ONE]]
  end.
Definition t_fma_fused := ECall "fma" [va; vb; vc].
Definition t_fma_unfused := EBin BAdd (EBin BMul va vb) vc.
Definition t_clz := EBin BSub (EInt 31) (ECall "findMSB" [va]).
Definition t_ctz := ECall "findLSB" [va].
Definition t_min32 (x : expr) := ECall "min" [x; EUint 32].
Definition t_extract :=
  ECall "bitfieldExtract" [va; ECtor (TScalar KInt) [t_min32 vb];
                           ECtor (TScalar KInt) [ECall "min" [vc; EBin BSub (EUint 32) (t_min32 vb)]]].
Definition t_insert :=
  ECall "bitfieldInsert" [va; vb; ECtor (TScalar KInt) [t_min32 vc];
                          ECtor (TScalar KInt) [ECall "min" [vd; EBin BSub (EUint 32) (t_min32 vc)]]].

Definition ty_of (k : sk) (n : nat) : gty := match n with 1%nat => TScalar k | _ => TVec k n end.

Definition sk_of (kind : string) : option sk :=
  if String.eqb kind "i32" then Some KInt else if String.eqb kind "u32" then Some KUint
  else if String.eqb kind "f32" then Some KFloat else if String.eqb kind "bool" then Some KBool else None.

Definition is (a b : string) := String.eqb a b.
Definition one_of (a : string) (l : list string) := existsb (String.eqb a) l.

(* the templates accepted for (operator, kind of the first operand, shape n = 1 scalar / 2..4 vector) *)
Definition catalogue (op kind : string) (n : nat) : list expr :=
  let scalar := Nat.eqb n 1 in
  let num := one_of kind ["i32"; "u32"; "f32"] in
  let int := one_of kind ["i32"; "u32"] in
  if is op "add" && num then [t_bin BAdd]
  else if is op "sub" && num then [t_bin BSub]
  else if is op "mul" && num then [t_bin BMul]
  else if is op "div" && num then [t_bin BDiv]
  else if is op "rem" && int then [t_bin BMod]
  else if is op "and" && int then [t_bin BAnd]
  else if is op "or" && int then [t_bin BOr]
  else if is op "xor" && int then [t_bin BXor]
  else if is op "and" && is kind "bool" then [if scalar then t_bin BLAnd else t_bool_vec BLAnd n]
  else if is op "or" && is kind "bool" then [if scalar then t_bin BLOr else t_bool_vec BLOr n]
  else if is op "shl" && int then [t_bin BShl]
  else if is op "shr" && int then [t_bin BShr]
  else if is op "eq" then [if scalar then t_bin BEq else t_call2 "equal"]
  else if is op "ne" then [if scalar then t_bin BNe else t_call2 "notEqual"]
  else if is op "lt" && num then [if scalar then t_bin BLt else t_call2 "lessThan"]
  else if is op "le" && num then [if scalar then t_bin BLe else t_call2 "lessThanEqual"]
  else if is op "gt" && num then [if scalar then t_bin BGt else t_call2 "greaterThan"]
  else if is op "ge" && num then [if scalar then t_bin BGe else t_call2 "greaterThanEqual"]
  else if is op "neg" && one_of kind ["i32"; "f32"] then [t_un UNeg]
  else if is op "lognot" && is kind "bool" then [if scalar then t_un ULogNot else t_call1 "not"]
  else if is op "bitnot" && int then [t_un UBitNot]
  else if is op "select" && scalar then [t_select]
  else if is op "select_scalar_cond" then [t_select]
  else if is op "all" && is kind "bool" then [t_call1 "all"]
  else if is op "any" && is kind "bool" then [t_call1 "any"]
  else if is op "abs" && one_of kind ["i32"; "f32"] then [t_call1 "abs"]
  else if is op "sign" && one_of kind ["i32"; "f32"] then [t_call1 "sign"]
  else if is op "min" && num then [t_call2 "min"]
  else if is op "max" && num then [t_call2 "max"]
  else if is op "clamp" && num then [t_call3 "clamp"]
  else if one_of op ["floor"; "ceil"; "trunc"; "round"; "sqrt"] && is kind "f32" then [t_call1 op]
  else if is op "saturate" && is kind "f32" then [t_saturate n]
  else if is op "fma" && is kind "f32" then [t_fma_fused; t_fma_unfused]
  else if is op "dot" && int then [t_int_dot n]
  else if is op "dot" && is kind "f32" then [t_call2 "dot"]
  else if is op "countOneBits" && is kind "i32" then [t_call1 "bitCount"]
  else if is op "countOneBits" && is kind "u32" then [t_ctor_call (ty_of KUint n) "bitCount"]
  else if is op "reverseBits" && int then [t_call1 "bitfieldReverse"]
  else if is op "firstLeadingBit" && is kind "i32" then [t_call1 "findMSB"]
  else if is op "firstLeadingBit" && is kind "u32" then [t_ctor_call (ty_of KUint n) "findMSB"]
  else if is op "firstTrailingBit" && is kind "i32" then [t_call1 "findLSB"]
  else if is op "firstTrailingBit" && is kind "u32" then [t_ctor_call (ty_of KUint n) "findLSB"]
  else if is op "extractBits" && int then [t_extract]
  else if is op "insertBits" && int then [t_insert]
  else if is op "convert_to_i32" then [t_ctor (ty_of KInt n)]
  else if is op "convert_to_u32" then [t_ctor (ty_of KUint n)]
  else if is op "convert_to_f32" then [t_ctor (ty_of KFloat n)]
  else if is op "convert_to_bool" then [t_ctor (ty_of KBool n)]
  else if is op "bitcast_to_u32" && is kind "i32" then [t_ctor (ty_of KUint n)]
  else if is op "bitcast_to_i32" && is kind "u32" then [t_ctor (ty_of KInt n)]
  else if is op "bitcast_to_f32" && is kind "i32" then [t_call1 "intBitsToFloat"]
  else if is op "bitcast_to_f32" && is kind "u32" then [t_call1 "uintBitsToFloat"]
  else if is op "bitcast_to_i32" && is kind "f32" then [t_call1 "floatBitsToInt"]
  else if is op "bitcast_to_u32" && is kind "f32" then [t_call1 "floatBitsToUint"]
  else [].

(* templates naga emits today that are REFUTED (CatalogueProofs: *_refuted): wrong or ill-typed even where
   WGSL and GLSL both define the result.  They are findings (known_findings.jsonl), listed here so that the
   regenerated table is still fully classified and any OTHER change breaks the obligation. *)
Definition refuted (op kind : string) (n : nat) : list expr :=
  if is op "select" && negb (Nat.eqb n 1) then [t_select]                    (* bvec condition in ?: *)
  else if is op "abs" && is kind "u32" then [t_call1 "abs"]                  (* no abs(uint) in GLSL *)
  else if is op "countLeadingZeros" && one_of kind ["i32"; "u32"] then [t_clz]
  else if is op "countTrailingZeros" && one_of kind ["i32"; "u32"] then [t_ctz]
  else [].

(* ---- decidable equality of templates ---- *)
Definition opt_nat_eqb (a b : option nat) : bool :=
  match a, b with Some x, Some y => Nat.eqb x y | None, None => true | _, _ => false end.

Fixpoint gty_eqb (a b : gty) : bool :=
  match a, b with
  | TScalar k, TScalar k' => sk_eqb k k'
  | TVec k n, TVec k' n' => sk_eqb k k' && Nat.eqb n n'
  | TMat c r, TMat c' r' => Nat.eqb c c' && Nat.eqb r r'
  | TStruct s, TStruct s' => String.eqb s s'
  | TArr e n, TArr e' n' => gty_eqb e e' && opt_nat_eqb n n'
  | TVoid, TVoid | TUnknown, TUnknown => true
  | _, _ => false
  end.

Definition unop_eqb (a b : unop) : bool :=
  match a, b with UNeg, UNeg | UPlus, UPlus | ULogNot, ULogNot | UBitNot, UBitNot => true | _, _ => false end.

Definition binop_tag (o : binop) : Z :=
  match o with
  | BAdd => 0 | BSub => 1 | BMul => 2 | BDiv => 3 | BMod => 4 | BShl => 5 | BShr => 6 | BAnd => 7 | BOr => 8
  | BXor => 9 | BLAnd => 10 | BLOr => 11 | BEq => 12 | BNe => 13 | BLt => 14 | BLe => 15 | BGt => 16 | BGe => 17
  end.
Definition binop_eqb (a b : binop) : bool := binop_tag a =? binop_tag b.

Fixpoint expr_eqb (a b : expr) {struct a} : bool :=
  let fix list_eqb (l1 l2 : list expr) {struct l1} : bool :=
      match l1, l2 with
      | [], [] => true
      | x :: l1', y :: l2' => expr_eqb x y && list_eqb l1' l2'
      | _, _ => false
      end in
  match a, b with
  | EInt x, EInt y | EUint x, EUint y | EFloat x, EFloat y => x =? y
  | EBool x, EBool y => Bool.eqb x y
  | EVar x, EVar y => String.eqb x y
  | EUn o x, EUn o' y => unop_eqb o o' && expr_eqb x y
  | EBin o x1 x2, EBin o' y1 y2 => binop_eqb o o' && expr_eqb x1 y1 && expr_eqb x2 y2
  | ECond x1 x2 x3, ECond y1 y2 y3 => expr_eqb x1 y1 && expr_eqb x2 y2 && expr_eqb x3 y3
  | ECall f xs, ECall g ys => String.eqb f g && list_eqb xs ys
  | ECtor t xs, ECtor u ys => gty_eqb t u && list_eqb xs ys
  | EField x f, EField y g => expr_eqb x y && String.eqb f g
  | EIndex x1 x2, EIndex y1 y2 => expr_eqb x1 y1 && expr_eqb x2 y2
  | ELength x, ELength y => expr_eqb x y
  | _, _ => false
  end.

Definition row := (string * string * nat * nat * gty * expr)%type.

Definition in_catalogue (r : row) : bool :=
  let '(op, kind, n, _, _, e) := r in existsb (expr_eqb e) (catalogue op kind n).
Definition in_refuted (r : row) : bool :=
  let '(op, kind, n, _, _, e) := r in existsb (expr_eqb e) (refuted op kind n).

(* the type naga declares for the result must be the WGSL result type of the operator *)
Definition result_kind (op kind : string) : option sk :=
  if one_of op ["eq"; "ne"; "lt"; "le"; "gt"; "ge"; "all"; "any"; "convert_to_bool"] then Some KBool
  else if one_of op ["convert_to_i32"; "bitcast_to_i32"] then Some KInt
  else if one_of op ["convert_to_u32"; "bitcast_to_u32"] then Some KUint
  else if one_of op ["convert_to_f32"; "bitcast_to_f32"] then Some KFloat
  else sk_of kind.
Definition result_shape (op : string) (n : nat) : nat := if one_of op ["all"; "any"; "dot"] then 1%nat else n.

Definition decl_ok (r : row) : bool :=
  let '(op, kind, n, _, t, _) := r in
  match result_kind op kind with
  | Some k => gty_eqb t (ty_of k (result_shape op n))
  | None => false
  end.
