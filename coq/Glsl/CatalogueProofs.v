(* For every catalogue template: evaluated in the GLSL semantics of Glsl/Ops.v + Glsl/Sem.v it yields the
   WGSL-defined value (Base/Bits32.v, Base/F32.v) for ALL 32-bit operands, under the property's
   definedness hypotheses (C05: "every input on which both WGSL and GLSL define the result").
   Refuted templates get *_refuted lemmas with witnesses; they are findings. *)
From Coq Require Import List ZArith String Bool Lia.
From Coq Require Import ZifyBool.
Import ListNotations.
Require Import Naga.Base.Bits32 Naga.Base.F32 Naga.IR.Values.
Require Import Naga.Glsl.Syntax Naga.Glsl.Ops Naga.Glsl.Sem Naga.Glsl.Catalogue.
Open Scope string_scope.
Open Scope Z_scope.
Ltac Zify.zify_post_hook ::= Z.to_euclidean_division_equations.

(* reduce the evaluator on a concrete template with symbolic operands, leaving the leaf operations folded *)
Ltac tred := lazy - [g_add g_sub g_mul g_neg g_div_i g_div_u g_mod_i g_mod_u g_shl g_shr_u g_shr_i g_not g_lt_i g_le_i
  g_abs_i g_sign_i g_min_i g_max_i g_min_u g_max_u g_bitCount g_findLSB g_findMSB_u g_findMSB_i g_bitfieldReverse
  g_bfe_u g_bfe_i g_bfi g_f2i g_f2u g_sign_f f32_of_i32 f32_of_u32 fadd fsub fmul fdiv fneg fabs ffloor fceil ftrunc fround
  fsqrt ffma feq flt fle fgt fge fne fmin fmax is_nan_bits is_inf_bits
  Z.add Z.sub Z.mul Z.opp Z.quot Z.rem Z.div Z.modulo Z.eqb Z.ltb Z.leb Z.land Z.lor Z.lxor Z.shiftl Z.shiftr Z.testbit Z.ones
  Z.min Z.max sgn wrap M32 H32
  add32 sub32 mul32 neg32 div_i32 div_u32 rem_i32 rem_u32 not32 and32 or32 xor32 shl32 shr_u32 shr_i32
  lt_i32 le_i32 lt_u32 le_u32 abs_i32 min_i32 max_i32 min_u32 max_u32 clamp_i32 clamp_u32 sign_i32
  count_one_bits count_leading_zeros count_trailing_zeros reverse_bits first_leading_bit_u32 first_leading_bit_i32
  first_trailing_bit extract_bits_u32 extract_bits_i32 insert_bits bool_of_32 u32_of_bool i32_of_f32 u32_of_f32
  dot_vals INT_MIN_BITS ALL_ONES F_ONE F_MONE].

Ltac no_if t := lazymatch t with context [if _ then _ else _] => fail | _ => idtac end.
Ltac atom_cases :=
  repeat (match goal with
  | |- context [?x =? ?y] => no_if x; no_if y; destruct (Z.eqb_spec x y)
  | |- context [?x <? ?y] => no_if x; no_if y; destruct (Z.ltb_spec x y)
  | |- context [?x <=? ?y] => no_if x; no_if y; destruct (Z.leb_spec x y)
  end; cbn [orb andb negb]; cbv iota).

Ltac unfold_int :=
  unfold g_add, g_sub, g_mul, g_neg, g_div_i, g_div_u, g_mod_i, g_mod_u, g_shl, g_shr_u, g_shr_i, g_not, g_lt_i, g_le_i,
         g_abs_i, g_sign_i, g_min_i, g_max_i, g_min_u, g_max_u,
         add32, sub32, mul32, neg32, div_i32, div_u32, rem_i32, rem_u32, not32, and32, or32, xor32, shl32, shr_u32, shr_i32,
         lt_i32, le_i32, lt_u32, le_u32, abs_i32, min_i32, max_i32, min_u32, max_u32, clamp_i32, clamp_u32, sign_i32,
         bool_of_32, u32_of_bool, UB, INT_MIN_BITS, ALL_ONES, in32 in *.
Ltac unfold_arith := unfold sgn, wrap, M32, H32 in *.

(* operand environments *)
Definition e1 (a : value) := [("a", a)].
Definition e2 (a b : value) := [("a", a); ("b", b)].
Definition e3 (a b c : value) := [("a", a); ("b", b); ("c", c)].
Definition e4 (a b c d : value) := [("a", a); ("b", b); ("c", c); ("d", d)].

(* ---- definedness: the property's restriction to executions free of GLSL-undefined behaviour ---- *)
Definition defined_div_i32 (a b : Z) := b <> 0 /\ ~ (a = INT_MIN_BITS /\ b = ALL_ONES).
Definition defined_div_u32 (a b : Z) := b <> 0.
Definition defined_rem_i32 (a b : Z) := b <> 0 /\ 0 <= sgn a /\ 0 <= sgn b.    (* GLSL: % undefined with a negative operand *)
Definition defined_rem_u32 (a b : Z) := b <> 0.
Definition defined_shift (b : Z) := b < 32.                                   (* GLSL: shift by >= width undefined *)


(* ======================================================================================
   Part 0.  Leaf lemmas: the GLSL scalar operations of Glsl/Ops.v against Base/Bits32.v and
   Base/F32.v (pure integer reasoning, before the conversion-strategy hint below is set)
   ====================================================================================== *)
(* bridges (unfolding is done in goals only: unfolding these constants inside hypotheses makes Qed very slow) *)
Lemma in32_b a : in32 a -> 0 <= a < 4294967296.
Proof. unfold in32, M32. intros H; exact H. Qed.
Lemma sgn_eq a : sgn a = if a <? 2147483648 then a else a - 4294967296.
Proof. reflexivity. Qed.
Lemma sgn_nonneg a : in32 a -> 0 <= sgn a -> sgn a = a /\ 0 <= a < 2147483648.
Proof. unfold in32, sgn, M32, H32. intros Ha. destruct (Z.ltb_spec a 2147483648); lia. Qed.
Lemma def_shift_b b : defined_shift b -> b < 32.
Proof. unfold defined_shift. intros H; exact H. Qed.

Lemma g_div_i_ok a b : in32 a -> in32 b -> defined_div_i32 a b -> g_div_i a b = Done (div_i32 a b).
Proof.
  unfold defined_div_i32, g_div_i, div_i32, UB, INT_MIN_BITS, ALL_ONES. intros Ha Hb [Hz Hov].
  destruct (Z.eqb_spec b 0); [contradiction|].
  destruct (Z.eqb_spec a H32); destruct (Z.eqb_spec b (M32 - 1)); cbn [andb]; cbv iota;
    try reflexivity. exfalso; apply Hov; split; assumption.
Qed.
Lemma g_div_u_ok a b : defined_div_u32 a b -> g_div_u a b = Done (div_u32 a b).
Proof. unfold defined_div_u32, g_div_u, div_u32, UB. intros Hz. destruct (Z.eqb_spec b 0); [contradiction|reflexivity]. Qed.

Lemma mod_i_core a b : 0 <= a < 2147483648 -> 0 <= b < 2147483648 -> b <> 0 ->
  (if b =? 0 then @Fail Z ("UB: " ++ "integer remainder by zero")
   else if (a <? 0) || (b <? 0) then Fail ("UB: " ++ "integer % with a negative operand") else Done (a mod b))
  = Done (if b =? 0 then 0 else if (a =? 2147483648) && (b =? 4294967296 - 1) then 0 else (Z.rem a b) mod 4294967296).
Proof.
  intros Ha Hb Hz.
  destruct (Z.eqb_spec b 0); [contradiction|].
  destruct (Z.ltb_spec a 0); [lia|]. destruct (Z.ltb_spec b 0); [lia|]. cbn [orb]; cbv iota.
  destruct (Z.eqb_spec a 2147483648); [lia|]. cbn [andb]; cbv iota.
  f_equal. rewrite Z.rem_mod_nonneg by lia.
  pose proof (Z.mod_pos_bound a b ltac:(lia)). symmetry. apply Z.mod_small. lia.
Qed.
Lemma g_mod_i_ok a b : in32 a -> in32 b -> defined_rem_i32 a b -> g_mod_i a b = Done (rem_i32 a b).
Proof.
  unfold defined_rem_i32. intros Ha Hb (Hz & Hsa & Hsb).
  destruct (sgn_nonneg a Ha Hsa) as [Ea La]. destruct (sgn_nonneg b Hb Hsb) as [Eb Lb].
  unfold g_mod_i, rem_i32, UB, INT_MIN_BITS, ALL_ONES, wrap, M32, H32. rewrite Ea, Eb.
  apply mod_i_core; assumption.
Qed.
Lemma g_mod_u_ok a b : defined_rem_u32 a b -> g_mod_u a b = Done (rem_u32 a b).
Proof. unfold defined_rem_u32, g_mod_u, rem_u32, UB. intros Hz. destruct (Z.eqb_spec b 0); [contradiction|reflexivity]. Qed.

(* naga emits the shift amount unmasked: the GLSL result is defined only for amounts below 32 *)
Lemma shift_guard b : in32 b -> defined_shift b -> (b <? 0) || (32 <=? b) = false /\ b mod 32 = b.
Proof.
  unfold in32, defined_shift, M32. intros Hb Hd. split.
  - destruct (Z.ltb_spec b 0); destruct (Z.leb_spec 32 b); cbn; lia.
  - apply Z.mod_small. lia.
Qed.
Lemma g_shl_ok a b : in32 b -> defined_shift b -> g_shl a b = Done (shl32 a b).
Proof. intros Hb Hd. destruct (shift_guard b Hb Hd) as [G M]. unfold g_shl, shl32, UB. rewrite G, M. reflexivity. Qed.
Lemma g_shr_i_ok a b : in32 b -> defined_shift b -> g_shr_i a b = Done (shr_i32 a b).
Proof. intros Hb Hd. destruct (shift_guard b Hb Hd) as [G M]. unfold g_shr_i, shr_i32, UB. rewrite G, M. reflexivity. Qed.
Lemma g_shr_u_ok a b : in32 b -> defined_shift b -> g_shr_u a b = Done (shr_u32 a b).
Proof. intros Hb Hd. destruct (shift_guard b Hb Hd) as [G M]. unfold g_shr_u, shr_u32, UB. rewrite G, M. reflexivity. Qed.
Lemma g_shl_undefined a b : 32 <= b -> g_shl a b = Fail "UB: shift amount negative or >= 32".
Proof.
  intros H. unfold g_shl, UB. destruct (Z.ltb_spec b 0); destruct (Z.leb_spec 32 b); cbn [orb]; cbv iota; try lia; reflexivity.
Qed.

Lemma g_sign_i_ok a : in32 a -> g_sign_i a = sign_i32 a.
Proof.
  unfold in32, g_sign_i, sign_i32, ALL_ONES, sgn, M32, H32. intros Ha.
  destruct (Z.ltb_spec a 2147483648); atom_cases; lia.
Qed.
Lemma g_le_i_true lo hi : sgn lo <= sgn hi -> g_le_i lo hi = true.
Proof. intros H. unfold g_le_i. destruct (Z.leb_spec (sgn lo) (sgn hi)); [reflexivity|lia]. Qed.

Lemma bitcount_popcount n a : bitcount_nat n a = popcount_nat n a.
Proof. induction n as [|n IH]; [reflexivity|]. cbn [bitcount_nat popcount_nat]. rewrite IH. reflexivity. Qed.
Lemma g_bitCount_ok a : g_bitCount a = count_one_bits a.
Proof. unfold g_bitCount, count_one_bits. apply bitcount_popcount. Qed.
Lemma bitrev_reverse n a : bitrev_nat n a = reverse_nat n a.
Proof. induction n as [|n IH]; [reflexivity|]. cbn [bitrev_nat reverse_nat]. rewrite IH. reflexivity. Qed.
Lemma g_bitfieldReverse_ok a : g_bitfieldReverse a = reverse_bits a.
Proof. unfold g_bitfieldReverse, reverse_bits. apply bitrev_reverse. Qed.

(* ---- most significant bit: msb_nat against clz_nat ---- *)
Lemma testbit_top n a : 0 <= n -> 0 <= a < 2 ^ (n + 1) -> Z.testbit a n = false -> a < 2 ^ n.
Proof.
  intros Hn Ha Hb. destruct (Z.lt_ge_cases a (2 ^ n)) as [|Hge]; [assumption|]. exfalso.
  assert (Hp : 0 < 2 ^ n) by (apply Z.pow_pos_nonneg; lia).
  assert (Hq : 2 ^ (n + 1) = 2 * 2 ^ n) by (rewrite Z.pow_add_r by lia; change (2 ^ 1) with 2; lia).
  assert (E : a / 2 ^ n = 1) by (symmetry; apply (Z.div_unique a (2 ^ n) 1 (a - 2 ^ n)); lia).
  assert (T : Z.testbit a n = true) by (apply Z.testbit_true; [lia|]; rewrite E; reflexivity).
  congruence.
Qed.

Lemma msb_clz n a : 0 <= a < 2 ^ Z.of_nat n ->
  (a = 0 -> msb_nat n a = -1 /\ clz_nat n a = Z.of_nat n) /\
  (a <> 0 -> msb_nat n a = Z.of_nat n - 1 - clz_nat n a /\ 0 <= clz_nat n a < Z.of_nat n).
Proof.
  revert a. induction n as [|n IH]; intros a Ha.
  - change (2 ^ Z.of_nat 0) with 1 in Ha. split; intros; cbn [msb_nat clz_nat Z.of_nat]; lia.
  - cbn [msb_nat clz_nat]. destruct (Z.testbit a (Z.of_nat n)) eqn:T.
    + split; intros H.
      * subst a. rewrite Z.testbit_0_l in T. discriminate.
      * lia.
    + assert (Hlt : a < 2 ^ Z.of_nat n).
      { apply testbit_top; [lia| |assumption]. replace (Z.of_nat n + 1) with (Z.of_nat (S n)) by lia. assumption. }
      destruct (IH a ltac:(lia)) as [I0 I1]. split; intros H.
      * destruct (I0 H) as [? ?]. split; lia.
      * destruct (I1 H) as [? ?]. split; lia.
Qed.

Lemma msb_clz32 a : in32 a ->
  (a = 0 -> msb_nat 32 a = -1) /\ (a <> 0 -> msb_nat 32 a = 31 - clz_nat 32 a /\ 0 <= clz_nat 32 a < 32).
Proof.
  intros Ha. apply in32_b in Ha.
  destruct (msb_clz 32 a) as [I0 I1]; [change (2 ^ Z.of_nat 32) with 4294967296; exact Ha|].
  change (Z.of_nat 32) with 32 in *. split; intros H.
  - apply I0; assumption.
  - destruct (I1 H) as [E R]. split; [lia|assumption].
Qed.

Lemma msb32 a : in32 a ->
  wrap (msb_nat 32 a) = if a =? 0 then ALL_ONES else 31 - count_leading_zeros a.
Proof.
  intros Ha. unfold count_leading_zeros. destruct (msb_clz32 a Ha) as [I0 I1].
  destruct (Z.eqb_spec a 0) as [E|E].
  - rewrite (I0 E). reflexivity.
  - destruct (I1 E) as [-> R]. unfold wrap, M32. apply Z.mod_small. lia.
Qed.

Lemma g_findMSB_u_ok a : in32 a -> g_findMSB_u a = first_leading_bit_u32 a.
Proof. intros Ha. unfold g_findMSB_u, first_leading_bit_u32. apply msb32. assumption. Qed.

Lemma g_not_in32 a : in32 a -> in32 (g_not a).
Proof. unfold g_not, in32, M32. lia. Qed.

Lemma g_findMSB_i_ok a : in32 a -> g_findMSB_i a = first_leading_bit_i32 a.
Proof.
  intros Ha. unfold g_findMSB_i, first_leading_bit_i32.
  rewrite (msb32 a Ha), (msb32 (g_not a) (g_not_in32 a Ha)). apply in32_b in Ha.
  unfold g_not, not32, ALL_ONES, sgn, M32, H32.
  destruct (Z.eqb_spec a 0); destruct (Z.eqb_spec a (4294967296 - 1)); destruct (Z.ltb_spec a 2147483648);
    cbn [orb]; cbv iota; try lia.
  - destruct (Z.ltb_spec a 0); [lia|]. reflexivity.
  - destruct (Z.ltb_spec (a - 4294967296) 0); [|lia]. destruct (Z.eqb_spec (4294967296 - 1 - a) 0); [reflexivity|lia].
  - destruct (Z.ltb_spec a 0); [lia|]. reflexivity.
  - destruct (Z.ltb_spec (a - 4294967296) 0); [|lia]. destruct (Z.eqb_spec (4294967296 - 1 - a) 0); [lia|reflexivity].
Qed.

(* ---- least significant bit: lsb_from against ctz_from ---- *)
Lemma lsb_ctz a f : forall i, 0 <= i ->
  (lsb_from f i a = ctz_from f i a /\ i <= lsb_from f i a < i + Z.of_nat f) \/
  (lsb_from f i a = -1 /\ ctz_from f i a = 32 /\ forall k, i <= k < i + Z.of_nat f -> Z.testbit a k = false).
Proof.
  induction f as [|f IH]; intros i Hi.
  - right. cbn [lsb_from ctz_from]. repeat split. intros; lia.
  - cbn [lsb_from ctz_from]. destruct (Z.testbit a i) eqn:T.
    + left. split; [reflexivity|lia].
    + destruct (IH (i + 1) ltac:(lia)) as [[E R]|[E [E2 R]]].
      * left. split; [assumption|lia].
      * right. repeat split; try assumption. intros k Hk.
        destruct (Z.eq_dec k i) as [->|]; [assumption|]. apply R. lia.
Qed.

Lemma all_bits_zero a : in32 a -> (forall k, 0 <= k < 32 -> Z.testbit a k = false) -> a = 0.
Proof.
  intros Ha H. apply in32_b in Ha. apply Z.bits_inj'. intros n Hn. rewrite Z.bits_0.
  destruct (Z.lt_ge_cases n 32); [apply H; lia|].
  apply Z.testbit_false; [lia|]. rewrite Z.div_small; [reflexivity|].
  split; [lia|]. apply Z.lt_le_trans with (2 ^ 32); [change (2 ^ 32) with 4294967296; lia|]. apply Z.pow_le_mono_r; lia.
Qed.

Lemma g_findLSB_ok a : in32 a -> g_findLSB a = first_trailing_bit a.
Proof.
  intros Ha. unfold g_findLSB, first_trailing_bit, count_trailing_zeros.
  destruct (Z.eqb_spec a 0) as [->|E]; [reflexivity|].
  destruct (lsb_ctz a 32 0 ltac:(lia)) as [[E1 R]|[_ [_ R]]].
  - rewrite E1 in *. unfold wrap, M32. apply Z.mod_small. change (Z.of_nat 32) with 32 in R. lia.
  - exfalso. apply E. apply all_bits_zero; [assumption|]. intros k Hk. apply R. change (Z.of_nat 32) with 32. lia.
Qed.

Lemma clz_bits a : in32 a -> g_sub 31 (g_findMSB_u a) = count_leading_zeros a.
Proof.
  intros Ha. unfold g_findMSB_u. rewrite (msb32 a Ha). unfold g_sub, count_leading_zeros.
  destruct (Z.eqb_spec a 0) as [->|E]; [reflexivity|].
  destruct (msb_clz32 a Ha) as [_ I1]. destruct (I1 E) as [_ R]. unfold wrap, M32.
  replace (31 - (31 - clz_nat 32 a)) with (clz_nat 32 a) by lia. apply Z.mod_small. lia.
Qed.
Lemma g_findMSB_i_nonneg a : 0 <= sgn a -> g_findMSB_i a = g_findMSB_u a.
Proof. intros H. unfold g_findMSB_i, g_findMSB_u. destruct (Z.ltb_spec (sgn a) 0); [lia|reflexivity]. Qed.

(* ---- extractBits / insertBits: offset and count clamped as WGSL prescribes, so always GLSL-defined ---- *)
Lemma sgn_small x : 0 <= x <= 32 -> sgn x = x.
Proof. intros. unfold sgn, H32. destruct (Z.ltb_spec x 2147483648); lia. Qed.

Lemma clamp_args b c : in32 b -> in32 c ->
  let o := g_min_u b 32 in let n := g_min_u c (g_sub 32 o) in
  o = Z.min b 32 /\ n = Z.min c (32 - Z.min b 32) /\ 0 <= o <= 32 /\ 0 <= n <= 32 - o.
Proof.
  unfold in32, M32, g_min_u, g_sub, wrap, M32. intros Hb Hc.
  destruct (Z.ltb_spec 32 b).
  - replace ((32 - 32) mod 4294967296) with 0 by reflexivity.
    destruct (Z.ltb_spec 0 c); repeat split; lia.
  - rewrite (Z.mod_small (32 - b)) by lia.
    destruct (Z.ltb_spec (32 - b) c); repeat split; lia.
Qed.

Lemma bf_ok o n : 0 <= o <= 32 -> 0 <= n <= 32 - o -> bf_defined o n = true.
Proof.
  intros Ho Hn. unfold bf_defined. rewrite (sgn_small o) by lia. rewrite (sgn_small n) by lia.
  destruct (Z.leb_spec 0 o); destruct (Z.leb_spec 0 n); destruct (Z.leb_spec (o + n) 32); cbn [andb]; lia.
Qed.

Lemma g_bfe_u_ok a b c : in32 b -> in32 c ->
  g_bfe_u a (g_min_u b 32) (g_min_u c (g_sub 32 (g_min_u b 32))) = Done (extract_bits_u32 a b c).
Proof.
  intros Hb Hc. destruct (clamp_args b c Hb Hc) as (Eo & En & Ho & Hn).
  unfold g_bfe_u. rewrite bf_ok by assumption. cbn [negb]. cbv iota.
  unfold extract_bits_u32. cbv zeta. rewrite En, Eo.
  destruct (Z.eqb_spec (Z.min c (32 - Z.min b 32)) 0); reflexivity.
Qed.
Lemma g_bfe_i_ok a b c : in32 b -> in32 c ->
  g_bfe_i a (g_min_u b 32) (g_min_u c (g_sub 32 (g_min_u b 32))) = Done (extract_bits_i32 a b c).
Proof.
  intros Hb Hc. destruct (clamp_args b c Hb Hc) as (Eo & En & Ho & Hn).
  unfold g_bfe_i. rewrite bf_ok by assumption. cbn [negb]. cbv iota.
  unfold extract_bits_i32. cbv zeta. rewrite En, Eo.
  destruct (Z.eqb_spec (Z.min c (32 - Z.min b 32)) 0); reflexivity.
Qed.
Lemma g_bfi_ok a nb c d : in32 c -> in32 d ->
  g_bfi a nb (g_min_u c 32) (g_min_u d (g_sub 32 (g_min_u c 32))) = Done (insert_bits a nb c d).
Proof.
  intros Hc Hd. destruct (clamp_args c d Hc Hd) as (Eo & En & Ho & Hn).
  unfold g_bfi. rewrite bf_ok by assumption. cbn [negb]. cbv iota.
  unfold insert_bits. cbv zeta. rewrite En, Eo.
  destruct (Z.eqb_spec (Z.min d (32 - Z.min c 32)) 0); reflexivity.
Qed.

(* ---- float -> integer: GLSL drops the fractional part and leaves unrepresentable values undefined; WGSL
   saturates.  They agree exactly where GLSL defines the result. ---- *)
Definition defined_f2i (a : Z) := exists z, z_of_f32_trunc a = Some z /\ -2147483648 <= z <= 2147483647.
Definition defined_f2u (a : Z) := exists z, z_of_f32_trunc a = Some z /\ flt a 0 = false /\ 0 <= z <= 4294967295.

Lemma g_f2i_ok a : defined_f2i a -> g_f2i a = Done (i32_of_f32 a).
Proof.
  intros (z & Hz & Hr). unfold g_f2i, i32_of_f32. rewrite Hz.
  unfold z_of_f32_trunc in Hz.
  destruct (of_bits a); try discriminate;
    (destruct (Z.leb_spec (-2147483648) z); destruct (Z.leb_spec z 2147483647); cbn [andb]; cbv iota; try lia;
     unfold M32; do 2 f_equal; lia).
Qed.
Lemma g_f2u_ok a : defined_f2u a -> g_f2u a = Done (u32_of_f32 a).
Proof.
  intros (z & Hz & Hn & Hr). unfold g_f2u, u32_of_f32. rewrite Hz, Hn.
  unfold z_of_f32_trunc in Hz.
  destruct (of_bits a); try discriminate;
    (destruct (Z.leb_spec z 4294967295); cbv iota; try lia; f_equal; lia).
Qed.
Lemma flt_one_zero : flt F_ONE 0 = false.
Proof. vm_compute. reflexivity. Qed.

(* ======================================================================================
   Part 1.  Evaluation of the templates in the GLSL semantics
   ====================================================================================== *)
(* kernel conversion (Qed): unfold the evaluator before the leaf operations *)
Local Strategy 1000 [g_add g_sub g_mul g_neg g_div_i g_div_u g_mod_i g_mod_u g_shl g_shr_u g_shr_i g_not g_lt_i g_le_i
  g_abs_i g_sign_i g_min_i g_max_i g_min_u g_max_u g_bitCount g_findLSB g_findMSB_u g_findMSB_i g_bitfieldReverse
  g_bfe_u g_bfe_i g_bfi g_f2i g_f2u g_sign_f f32_of_i32 f32_of_u32 fadd fsub fmul fdiv fneg fabs ffloor fceil ftrunc fround
  fsqrt ffma feq flt fle fgt fge fne fmin fmax is_nan_bits is_inf_bits sgn wrap dot_vals].


(* ---- evaluation lemmas: what each template reduces to, in terms of the leaf operations of Glsl/Ops.v ---- *)
Lemma ev_div_i32 es a b : teval es (t_bin BDiv) (e2 (VI32 a) (VI32 b)) = (r <~ g_div_i a b ;; Done (VI32 r)).
Proof. tred. destruct (g_div_i a b); reflexivity. Qed.
Lemma ev_div_u32 es a b : teval es (t_bin BDiv) (e2 (VU32 a) (VU32 b)) = (r <~ g_div_u a b ;; Done (VU32 r)).
Proof. tred. destruct (g_div_u a b); reflexivity. Qed.
Lemma ev_rem_i32 es a b : teval es (t_bin BMod) (e2 (VI32 a) (VI32 b)) = (r <~ g_mod_i a b ;; Done (VI32 r)).
Proof. tred. destruct (g_mod_i a b); reflexivity. Qed.
Lemma ev_rem_u32 es a b : teval es (t_bin BMod) (e2 (VU32 a) (VU32 b)) = (r <~ g_mod_u a b ;; Done (VU32 r)).
Proof. tred. destruct (g_mod_u a b); reflexivity. Qed.
Lemma ev_shl_i32 es a b : teval es (t_bin BShl) (e2 (VI32 a) (VU32 b)) = (r <~ g_shl a b ;; Done (VI32 r)).
Proof. tred. destruct (g_shl a b); reflexivity. Qed.
Lemma ev_shl_u32 es a b : teval es (t_bin BShl) (e2 (VU32 a) (VU32 b)) = (r <~ g_shl a b ;; Done (VU32 r)).
Proof. tred. destruct (g_shl a b); reflexivity. Qed.
Lemma ev_shr_i32 es a b : teval es (t_bin BShr) (e2 (VI32 a) (VU32 b)) = (r <~ g_shr_i a b ;; Done (VI32 r)).
Proof. tred. destruct (g_shr_i a b); reflexivity. Qed.
Lemma ev_shr_u32 es a b : teval es (t_bin BShr) (e2 (VU32 a) (VU32 b)) = (r <~ g_shr_u a b ;; Done (VU32 r)).
Proof. tred. destruct (g_shr_u a b); reflexivity. Qed.
Lemma ev_sign_i32 es a : teval es (t_call1 "sign") (e1 (VI32 a)) = Done (VI32 (g_sign_i a)).
Proof. tred. reflexivity. Qed.
Lemma ev_clamp_i32 es a lo hi : teval es (t_call3 "clamp") (e3 (VI32 a) (VI32 lo) (VI32 hi))
  = if g_le_i lo hi then Done (VI32 (g_min_i (g_max_i a lo) hi)) else Fail "UB: clamp with minVal > maxVal".
Proof. tred. destruct (g_le_i lo hi); reflexivity. Qed.
Lemma ev_clamp_u32 es a lo hi : teval es (t_call3 "clamp") (e3 (VU32 a) (VU32 lo) (VU32 hi))
  = if lo <=? hi then Done (VU32 (g_min_u (g_max_u a lo) hi)) else Fail "UB: clamp with minVal > maxVal".
Proof. tred. destruct (lo <=? hi); reflexivity. Qed.
Lemma ev_clamp_f32 es a lo hi : teval es (t_call3 "clamp") (e3 (VF32 a) (VF32 lo) (VF32 hi))
  = if negb (flt hi lo) then Done (VF32 (fmin (fmax a lo) hi)) else Fail "UB: clamp with minVal > maxVal".
Proof. tred. destruct (flt hi lo); reflexivity. Qed.
Lemma ev_saturate es a : teval es (t_saturate 1) (e1 (VF32 a))
  = if negb (flt F_ONE 0) then Done (VF32 (fmin (fmax a 0) F_ONE)) else Fail "UB: clamp with minVal > maxVal".
Proof. tred. destruct (flt F_ONE 0); reflexivity. Qed.
Lemma ev_bitCount_i32 es a : teval es (t_call1 "bitCount") (e1 (VI32 a)) = Done (VI32 (g_bitCount a)).
Proof. tred. reflexivity. Qed.
Lemma ev_bitCount_u32 es a : teval es (t_ctor_call (TScalar KUint) "bitCount") (e1 (VU32 a)) = Done (VU32 (g_bitCount a)).
Proof. tred. reflexivity. Qed.
Lemma ev_bitrev_i32 es a : teval es (t_call1 "bitfieldReverse") (e1 (VI32 a)) = Done (VI32 (g_bitfieldReverse a)).
Proof. tred. reflexivity. Qed.
Lemma ev_bitrev_u32 es a : teval es (t_call1 "bitfieldReverse") (e1 (VU32 a)) = Done (VU32 (g_bitfieldReverse a)).
Proof. tred. reflexivity. Qed.
Lemma ev_findMSB_i32 es a : teval es (t_call1 "findMSB") (e1 (VI32 a)) = Done (VI32 (g_findMSB_i a)).
Proof. tred. reflexivity. Qed.
Lemma ev_findMSB_u32 es a : teval es (t_ctor_call (TScalar KUint) "findMSB") (e1 (VU32 a)) = Done (VU32 (g_findMSB_u a)).
Proof. tred. reflexivity. Qed.
Lemma ev_findLSB_i32 es a : teval es (t_call1 "findLSB") (e1 (VI32 a)) = Done (VI32 (g_findLSB a)).
Proof. tred. reflexivity. Qed.
Lemma ev_findLSB_u32 es a : teval es (t_ctor_call (TScalar KUint) "findLSB") (e1 (VU32 a)) = Done (VU32 (g_findLSB a)).
Proof. tred. reflexivity. Qed.
Lemma ev_clz_u32 es a : teval es t_clz (e1 (VU32 a)) = Done (VI32 (g_sub 31 (g_findMSB_u a))).
Proof. tred. reflexivity. Qed.
Lemma ev_clz_i32 es a : teval es t_clz (e1 (VI32 a)) = Done (VI32 (g_sub 31 (g_findMSB_i a))).
Proof. tred. reflexivity. Qed.
Lemma ev_ctz_i32 es a : teval es t_ctz (e1 (VI32 a)) = Done (VI32 (g_findLSB a)).
Proof. tred. reflexivity. Qed.
Lemma ev_extract_u32 es a b c : teval es t_extract (e3 (VU32 a) (VU32 b) (VU32 c))
  = (r <~ g_bfe_u a (g_min_u b 32) (g_min_u c (g_sub 32 (g_min_u b 32))) ;; Done (VU32 r)).
Proof. tred. destruct (g_bfe_u a (g_min_u b 32) (g_min_u c (g_sub 32 (g_min_u b 32)))); reflexivity. Qed.
Lemma ev_extract_i32 es a b c : teval es t_extract (e3 (VI32 a) (VU32 b) (VU32 c))
  = (r <~ g_bfe_i a (g_min_u b 32) (g_min_u c (g_sub 32 (g_min_u b 32))) ;; Done (VI32 r)).
Proof. tred. destruct (g_bfe_i a (g_min_u b 32) (g_min_u c (g_sub 32 (g_min_u b 32)))); reflexivity. Qed.
Lemma ev_insert_u32 es a nb c d : teval es t_insert (e4 (VU32 a) (VU32 nb) (VU32 c) (VU32 d))
  = (r <~ g_bfi a nb (g_min_u c 32) (g_min_u d (g_sub 32 (g_min_u c 32))) ;; Done (VU32 r)).
Proof. tred. destruct (g_bfi a nb (g_min_u c 32) (g_min_u d (g_sub 32 (g_min_u c 32)))); reflexivity. Qed.
Lemma ev_insert_i32 es a nb c d : teval es t_insert (e4 (VI32 a) (VI32 nb) (VU32 c) (VU32 d))
  = (r <~ g_bfi a nb (g_min_u c 32) (g_min_u d (g_sub 32 (g_min_u c 32))) ;; Done (VI32 r)).
Proof. tred. destruct (g_bfi a nb (g_min_u c 32) (g_min_u d (g_sub 32 (g_min_u c 32)))); reflexivity. Qed.
Lemma ev_f2i es a : teval es (t_ctor (TScalar KInt)) (e1 (VF32 a)) = (r <~ g_f2i a ;; Done (VI32 r)).
Proof. tred. destruct (g_f2i a); reflexivity. Qed.
Lemma ev_f2u es a : teval es (t_ctor (TScalar KUint)) (e1 (VF32 a)) = (r <~ g_f2u a ;; Done (VU32 r)).
Proof. tred. destruct (g_f2u a); reflexivity. Qed.


(* ======================================================================================
   Part 2.  The catalogue lemmas
   ====================================================================================== *)

(* ================= arithmetic ================= *)
Lemma glsl_add_i32_correct es a b : teval es (t_bin BAdd) (e2 (VI32 a) (VI32 b)) = Done (VI32 (add32 a b)).
Proof. tred. reflexivity. Qed.
Lemma glsl_add_u32_correct es a b : teval es (t_bin BAdd) (e2 (VU32 a) (VU32 b)) = Done (VU32 (add32 a b)).
Proof. tred. reflexivity. Qed.
Lemma glsl_add_f32_correct es a b : teval es (t_bin BAdd) (e2 (VF32 a) (VF32 b)) = Done (VF32 (fadd a b)).
Proof. tred. reflexivity. Qed.
Lemma glsl_sub_i32_correct es a b : teval es (t_bin BSub) (e2 (VI32 a) (VI32 b)) = Done (VI32 (sub32 a b)).
Proof. tred. reflexivity. Qed.
Lemma glsl_sub_u32_correct es a b : teval es (t_bin BSub) (e2 (VU32 a) (VU32 b)) = Done (VU32 (sub32 a b)).
Proof. tred. reflexivity. Qed.
Lemma glsl_sub_f32_correct es a b : teval es (t_bin BSub) (e2 (VF32 a) (VF32 b)) = Done (VF32 (fsub a b)).
Proof. tred. reflexivity. Qed.
Lemma glsl_mul_i32_correct es a b : teval es (t_bin BMul) (e2 (VI32 a) (VI32 b)) = Done (VI32 (mul32 a b)).
Proof. tred. reflexivity. Qed.
Lemma glsl_mul_u32_correct es a b : teval es (t_bin BMul) (e2 (VU32 a) (VU32 b)) = Done (VU32 (mul32 a b)).
Proof. tred. reflexivity. Qed.
Lemma glsl_mul_f32_correct es a b : teval es (t_bin BMul) (e2 (VF32 a) (VF32 b)) = Done (VF32 (fmul a b)).
Proof. tred. reflexivity. Qed.

Lemma glsl_div_i32_correct es a b : in32 a -> in32 b -> defined_div_i32 a b ->
  teval es (t_bin BDiv) (e2 (VI32 a) (VI32 b)) = Done (VI32 (div_i32 a b)).
Proof. intros. rewrite ev_div_i32, g_div_i_ok by assumption. reflexivity. Qed.
Lemma glsl_div_u32_correct es a b : in32 a -> in32 b -> defined_div_u32 a b ->
  teval es (t_bin BDiv) (e2 (VU32 a) (VU32 b)) = Done (VU32 (div_u32 a b)).
Proof. intros. rewrite ev_div_u32, g_div_u_ok by assumption. reflexivity. Qed.
Lemma glsl_div_f32_correct es a b : teval es (t_bin BDiv) (e2 (VF32 a) (VF32 b)) = Done (VF32 (fdiv a b)).
Proof. tred. reflexivity. Qed.
Lemma glsl_rem_i32_correct es a b : in32 a -> in32 b -> defined_rem_i32 a b ->
  teval es (t_bin BMod) (e2 (VI32 a) (VI32 b)) = Done (VI32 (rem_i32 a b)).
Proof. intros. rewrite ev_rem_i32, g_mod_i_ok by assumption. reflexivity. Qed.
Lemma glsl_rem_u32_correct es a b : in32 a -> in32 b -> defined_rem_u32 a b ->
  teval es (t_bin BMod) (e2 (VU32 a) (VU32 b)) = Done (VU32 (rem_u32 a b)).
Proof. intros. rewrite ev_rem_u32, g_mod_u_ok by assumption. reflexivity. Qed.

(* ================= bitwise, shifts ================= *)
Lemma glsl_and_i32_correct es a b : teval es (t_bin BAnd) (e2 (VI32 a) (VI32 b)) = Done (VI32 (and32 a b)).
Proof. tred. reflexivity. Qed.
Lemma glsl_and_u32_correct es a b : teval es (t_bin BAnd) (e2 (VU32 a) (VU32 b)) = Done (VU32 (and32 a b)).
Proof. tred. reflexivity. Qed.
Lemma glsl_or_i32_correct es a b : teval es (t_bin BOr) (e2 (VI32 a) (VI32 b)) = Done (VI32 (or32 a b)).
Proof. tred. reflexivity. Qed.
Lemma glsl_or_u32_correct es a b : teval es (t_bin BOr) (e2 (VU32 a) (VU32 b)) = Done (VU32 (or32 a b)).
Proof. tred. reflexivity. Qed.
Lemma glsl_xor_i32_correct es a b : teval es (t_bin BXor) (e2 (VI32 a) (VI32 b)) = Done (VI32 (xor32 a b)).
Proof. tred. reflexivity. Qed.
Lemma glsl_xor_u32_correct es a b : teval es (t_bin BXor) (e2 (VU32 a) (VU32 b)) = Done (VU32 (xor32 a b)).
Proof. tred. reflexivity. Qed.
Lemma glsl_and_bool_correct es a b : teval es (t_bin BLAnd) (e2 (VBool a) (VBool b)) = Done (VBool (a && b)).
Proof. tred. reflexivity. Qed.
Lemma glsl_or_bool_correct es a b : teval es (t_bin BLOr) (e2 (VBool a) (VBool b)) = Done (VBool (a || b)).
Proof. tred. reflexivity. Qed.

Lemma glsl_shl_i32_correct es a b : in32 a -> in32 b -> defined_shift b ->
  teval es (t_bin BShl) (e2 (VI32 a) (VU32 b)) = Done (VI32 (shl32 a b)).
Proof. intros. rewrite ev_shl_i32, g_shl_ok by assumption. reflexivity. Qed.
Lemma glsl_shl_u32_correct es a b : in32 a -> in32 b -> defined_shift b ->
  teval es (t_bin BShl) (e2 (VU32 a) (VU32 b)) = Done (VU32 (shl32 a b)).
Proof. intros. rewrite ev_shl_u32, g_shl_ok by assumption. reflexivity. Qed.
Lemma glsl_shr_i32_correct es a b : in32 a -> in32 b -> defined_shift b ->
  teval es (t_bin BShr) (e2 (VI32 a) (VU32 b)) = Done (VI32 (shr_i32 a b)).
Proof. intros. rewrite ev_shr_i32, g_shr_i_ok by assumption. reflexivity. Qed.
Lemma glsl_shr_u32_correct es a b : in32 a -> in32 b -> defined_shift b ->
  teval es (t_bin BShr) (e2 (VU32 a) (VU32 b)) = Done (VU32 (shr_u32 a b)).
Proof. intros. rewrite ev_shr_u32, g_shr_u_ok by assumption. reflexivity. Qed.
(* ... and it is NOT defined at amounts >= 32, where WGSL defines the result (amount mod 32): C15 territory *)
Lemma glsl_shl_unmasked es a b : 32 <= b ->
  teval es (t_bin BShl) (e2 (VU32 a) (VU32 b)) = Fail "UB: shift amount negative or >= 32".
Proof. intros. rewrite ev_shl_u32, g_shl_undefined by assumption. reflexivity. Qed.

(* ================= comparisons ================= *)
Lemma glsl_eq_i32_correct es a b : teval es (t_bin BEq) (e2 (VI32 a) (VI32 b)) = Done (VBool (a =? b)).
Proof. tred. reflexivity. Qed.
Lemma glsl_eq_u32_correct es a b : teval es (t_bin BEq) (e2 (VU32 a) (VU32 b)) = Done (VBool (a =? b)).
Proof. tred. reflexivity. Qed.
Lemma glsl_eq_f32_correct es a b : teval es (t_bin BEq) (e2 (VF32 a) (VF32 b)) = Done (VBool (feq a b)).
Proof. tred. reflexivity. Qed.
Lemma glsl_eq_bool_correct es a b : teval es (t_bin BEq) (e2 (VBool a) (VBool b)) = Done (VBool (Bool.eqb a b)).
Proof. tred. destruct a, b; reflexivity. Qed.
Lemma glsl_ne_i32_correct es a b : teval es (t_bin BNe) (e2 (VI32 a) (VI32 b)) = Done (VBool (negb (a =? b))).
Proof. tred. reflexivity. Qed.
Lemma glsl_ne_u32_correct es a b : teval es (t_bin BNe) (e2 (VU32 a) (VU32 b)) = Done (VBool (negb (a =? b))).
Proof. tred. reflexivity. Qed.
Lemma glsl_ne_f32_correct es a b : teval es (t_bin BNe) (e2 (VF32 a) (VF32 b)) = Done (VBool (fne a b)).
Proof. tred. reflexivity. Qed.
Lemma glsl_ne_bool_correct es a b : teval es (t_bin BNe) (e2 (VBool a) (VBool b)) = Done (VBool (negb (Bool.eqb a b))).
Proof. tred. destruct a, b; reflexivity. Qed.
Lemma glsl_lt_i32_correct es a b : teval es (t_bin BLt) (e2 (VI32 a) (VI32 b)) = Done (VBool (lt_i32 a b)).
Proof. tred. reflexivity. Qed.
Lemma glsl_lt_u32_correct es a b : teval es (t_bin BLt) (e2 (VU32 a) (VU32 b)) = Done (VBool (lt_u32 a b)).
Proof. tred. reflexivity. Qed.
Lemma glsl_lt_f32_correct es a b : teval es (t_bin BLt) (e2 (VF32 a) (VF32 b)) = Done (VBool (flt a b)).
Proof. tred. reflexivity. Qed.
Lemma glsl_le_i32_correct es a b : teval es (t_bin BLe) (e2 (VI32 a) (VI32 b)) = Done (VBool (le_i32 a b)).
Proof. tred. reflexivity. Qed.
Lemma glsl_le_u32_correct es a b : teval es (t_bin BLe) (e2 (VU32 a) (VU32 b)) = Done (VBool (le_u32 a b)).
Proof. tred. reflexivity. Qed.
Lemma glsl_le_f32_correct es a b : teval es (t_bin BLe) (e2 (VF32 a) (VF32 b)) = Done (VBool (fle a b)).
Proof. tred. reflexivity. Qed.
Lemma glsl_gt_i32_correct es a b : teval es (t_bin BGt) (e2 (VI32 a) (VI32 b)) = Done (VBool (lt_i32 b a)).
Proof. tred. reflexivity. Qed.
Lemma glsl_gt_u32_correct es a b : teval es (t_bin BGt) (e2 (VU32 a) (VU32 b)) = Done (VBool (lt_u32 b a)).
Proof. tred. reflexivity. Qed.
Lemma glsl_gt_f32_correct es a b : teval es (t_bin BGt) (e2 (VF32 a) (VF32 b)) = Done (VBool (fgt a b)).
Proof. tred. reflexivity. Qed.
Lemma glsl_ge_i32_correct es a b : teval es (t_bin BGe) (e2 (VI32 a) (VI32 b)) = Done (VBool (le_i32 b a)).
Proof. tred. reflexivity. Qed.
Lemma glsl_ge_u32_correct es a b : teval es (t_bin BGe) (e2 (VU32 a) (VU32 b)) = Done (VBool (le_u32 b a)).
Proof. tred. reflexivity. Qed.
Lemma glsl_ge_f32_correct es a b : teval es (t_bin BGe) (e2 (VF32 a) (VF32 b)) = Done (VBool (fge a b)).
Proof. tred. reflexivity. Qed.

(* ================= unary ================= *)
Lemma glsl_neg_i32_correct es a : teval es (t_un UNeg) (e1 (VI32 a)) = Done (VI32 (neg32 a)).
Proof. tred. reflexivity. Qed.
Lemma glsl_neg_f32_correct es a : teval es (t_un UNeg) (e1 (VF32 a)) = Done (VF32 (fneg a)).
Proof. tred. reflexivity. Qed.
Lemma glsl_lognot_bool_correct es a : teval es (t_un ULogNot) (e1 (VBool a)) = Done (VBool (negb a)).
Proof. tred. reflexivity. Qed.
Lemma glsl_bitnot_i32_correct es a : teval es (t_un UBitNot) (e1 (VI32 a)) = Done (VI32 (not32 a)).
Proof. tred. reflexivity. Qed.
Lemma glsl_bitnot_u32_correct es a : teval es (t_un UBitNot) (e1 (VU32 a)) = Done (VU32 (not32 a)).
Proof. tred. reflexivity. Qed.

(* ================= select: (c ? b : a), any operand type and shape, scalar condition ================= *)
Lemma glsl_select_correct es (a b : value) (c : bool) : is_poison a = false -> is_poison b = false ->
  teval es t_select (e3 a b (VBool c)) = Done (if c then b else a).
Proof. intros Ha Hb. destruct a; try discriminate Ha; destruct b; try discriminate Hb; destruct c; reflexivity. Qed.
Lemma glsl_select_i32_correct es a b c : teval es t_select (e3 (VI32 a) (VI32 b) (VBool c)) = Done (VI32 (if c then b else a)).
Proof. rewrite glsl_select_correct by reflexivity. destruct c; reflexivity. Qed.
Lemma glsl_select_u32_correct es a b c : teval es t_select (e3 (VU32 a) (VU32 b) (VBool c)) = Done (VU32 (if c then b else a)).
Proof. rewrite glsl_select_correct by reflexivity. destruct c; reflexivity. Qed.
Lemma glsl_select_f32_correct es a b c : teval es t_select (e3 (VF32 a) (VF32 b) (VBool c)) = Done (VF32 (if c then b else a)).
Proof. rewrite glsl_select_correct by reflexivity. destruct c; reflexivity. Qed.
Lemma glsl_select_bool_correct es a b c : teval es t_select (e3 (VBool a) (VBool b) (VBool c)) = Done (VBool (if c then b else a)).
Proof. rewrite glsl_select_correct by reflexivity. destruct c; reflexivity. Qed.
(* REFUTED: with a vector condition the emitted `c ? b : a` is not GLSL (the condition of ?: must be a scalar bool;
   component-wise selection is mix(a, b, c)) *)
Lemma glsl_select_vector_condition_refuted es a b cs :
  teval es t_select (e3 a b (VVec cs)) = Fail "TYPE: ?: condition must be a scalar bool".
Proof. tred. reflexivity. Qed.
(* what a correct emission would be: mix(a, b, c) selects b where c is true *)
Lemma glsl_mix_select_vec2 es a0 a1 b0 b1 c0 c1 :
  teval es (ECall "mix" [va; vb; vc]) (e3 (VVec [VI32 a0; VI32 a1]) (VVec [VI32 b0; VI32 b1]) (VVec [VBool c0; VBool c1]))
  = Done (VVec [VI32 (if c0 then b0 else a0); VI32 (if c1 then b1 else a1)]).
Proof. tred. destruct c0, c1; reflexivity. Qed.

(* ================= relational ================= *)
Lemma glsl_all_correct es a0 a1 : teval es (t_call1 "all") (e1 (VVec [VBool a0; VBool a1])) = Done (VBool (a0 && a1)).
Proof. tred. destruct a0, a1; reflexivity. Qed.
Lemma glsl_any_correct es a0 a1 : teval es (t_call1 "any") (e1 (VVec [VBool a0; VBool a1])) = Done (VBool (a0 || a1)).
Proof. tred. destruct a0, a1; reflexivity. Qed.

(* ================= integer math ================= *)
Lemma glsl_abs_i32_correct es a : teval es (t_call1 "abs") (e1 (VI32 a)) = Done (VI32 (abs_i32 a)).
Proof. tred. reflexivity. Qed.
(* REFUTED: GLSL has no abs for unsigned operands (genFType, genIType, genDType only) *)
Lemma glsl_abs_u32_refuted es a : teval es (t_call1 "abs") (e1 (VU32 a)) = Fail "TYPE: abs: operand type".
Proof. tred. reflexivity. Qed.
Lemma glsl_sign_i32_correct es a : in32 a -> teval es (t_call1 "sign") (e1 (VI32 a)) = Done (VI32 (sign_i32 a)).
Proof. intros. rewrite ev_sign_i32, g_sign_i_ok by assumption. reflexivity. Qed.
Lemma glsl_min_i32_correct es a b : teval es (t_call2 "min") (e2 (VI32 a) (VI32 b)) = Done (VI32 (min_i32 a b)).
Proof. tred. reflexivity. Qed.
Lemma glsl_min_u32_correct es a b : teval es (t_call2 "min") (e2 (VU32 a) (VU32 b)) = Done (VU32 (min_u32 a b)).
Proof. tred. reflexivity. Qed.
Lemma glsl_max_i32_correct es a b : teval es (t_call2 "max") (e2 (VI32 a) (VI32 b)) = Done (VI32 (max_i32 a b)).
Proof. tred. reflexivity. Qed.
Lemma glsl_max_u32_correct es a b : teval es (t_call2 "max") (e2 (VU32 a) (VU32 b)) = Done (VU32 (max_u32 a b)).
Proof. tred. reflexivity. Qed.
(* clamp: GLSL "results are undefined if minVal > maxVal" *)
Lemma glsl_clamp_i32_correct es a lo hi : sgn lo <= sgn hi ->
  teval es (t_call3 "clamp") (e3 (VI32 a) (VI32 lo) (VI32 hi)) = Done (VI32 (clamp_i32 a lo hi)).
Proof. intros H. rewrite ev_clamp_i32, g_le_i_true by assumption. reflexivity. Qed.
Lemma glsl_clamp_u32_correct es a lo hi : lo <= hi ->
  teval es (t_call3 "clamp") (e3 (VU32 a) (VU32 lo) (VU32 hi)) = Done (VU32 (clamp_u32 a lo hi)).
Proof. intros H. rewrite ev_clamp_u32. destruct (Z.leb_spec lo hi); [reflexivity | lia]. Qed.

Lemma glsl_dot_i32_vec2_correct es a0 a1 b0 b1 :
  teval es (t_int_dot 2) (e2 (VVec [VI32 a0; VI32 a1]) (VVec [VI32 b0; VI32 b1])) = dot_vals [VI32 a0; VI32 a1] [VI32 b0; VI32 b1].
Proof. tred. reflexivity. Qed.
Lemma glsl_dot_i32_vec3_correct es a0 a1 a2 b0 b1 b2 :
  teval es (t_int_dot 3) (e2 (VVec [VI32 a0; VI32 a1; VI32 a2]) (VVec [VI32 b0; VI32 b1; VI32 b2]))
  = dot_vals [VI32 a0; VI32 a1; VI32 a2] [VI32 b0; VI32 b1; VI32 b2].
Proof. tred. reflexivity. Qed.
Lemma glsl_dot_i32_vec4_correct es a0 a1 a2 a3 b0 b1 b2 b3 :
  teval es (t_int_dot 4) (e2 (VVec [VI32 a0; VI32 a1; VI32 a2; VI32 a3]) (VVec [VI32 b0; VI32 b1; VI32 b2; VI32 b3]))
  = dot_vals [VI32 a0; VI32 a1; VI32 a2; VI32 a3] [VI32 b0; VI32 b1; VI32 b2; VI32 b3].
Proof. tred. reflexivity. Qed.
Lemma glsl_dot_u32_vec2_correct es a0 a1 b0 b1 :
  teval es (t_int_dot 2) (e2 (VVec [VU32 a0; VU32 a1]) (VVec [VU32 b0; VU32 b1])) = dot_vals [VU32 a0; VU32 a1] [VU32 b0; VU32 b1].
Proof. tred. reflexivity. Qed.
Lemma glsl_dot_u32_vec3_correct es a0 a1 a2 b0 b1 b2 :
  teval es (t_int_dot 3) (e2 (VVec [VU32 a0; VU32 a1; VU32 a2]) (VVec [VU32 b0; VU32 b1; VU32 b2]))
  = dot_vals [VU32 a0; VU32 a1; VU32 a2] [VU32 b0; VU32 b1; VU32 b2].
Proof. tred. reflexivity. Qed.
Lemma glsl_dot_u32_vec4_correct es a0 a1 a2 a3 b0 b1 b2 b3 :
  teval es (t_int_dot 4) (e2 (VVec [VU32 a0; VU32 a1; VU32 a2; VU32 a3]) (VVec [VU32 b0; VU32 b1; VU32 b2; VU32 b3]))
  = dot_vals [VU32 a0; VU32 a1; VU32 a2; VU32 a3] [VU32 b0; VU32 b1; VU32 b2; VU32 b3].
Proof. tred. reflexivity. Qed.
Lemma glsl_dot_f32_vec2_correct es a0 a1 b0 b1 :
  teval es (t_call2 "dot") (e2 (VVec [VF32 a0; VF32 a1]) (VVec [VF32 b0; VF32 b1])) = dot_vals [VF32 a0; VF32 a1] [VF32 b0; VF32 b1].
Proof. tred. reflexivity. Qed.
Lemma glsl_dot_f32_vec3_correct es a0 a1 a2 b0 b1 b2 :
  teval es (t_call2 "dot") (e2 (VVec [VF32 a0; VF32 a1; VF32 a2]) (VVec [VF32 b0; VF32 b1; VF32 b2]))
  = dot_vals [VF32 a0; VF32 a1; VF32 a2] [VF32 b0; VF32 b1; VF32 b2].
Proof. tred. reflexivity. Qed.
Lemma glsl_dot_f32_vec4_correct es a0 a1 a2 a3 b0 b1 b2 b3 :
  teval es (t_call2 "dot") (e2 (VVec [VF32 a0; VF32 a1; VF32 a2; VF32 a3]) (VVec [VF32 b0; VF32 b1; VF32 b2; VF32 b3]))
  = dot_vals [VF32 a0; VF32 a1; VF32 a2; VF32 a3] [VF32 b0; VF32 b1; VF32 b2; VF32 b3].
Proof. tred. reflexivity. Qed.

(* ---- bit counting ---- *)
Lemma glsl_countOneBits_i32_correct es a : teval es (t_call1 "bitCount") (e1 (VI32 a)) = Done (VI32 (count_one_bits a)).
Proof. rewrite ev_bitCount_i32, g_bitCount_ok. reflexivity. Qed.
Lemma glsl_countOneBits_u32_correct es a :
  teval es (t_ctor_call (TScalar KUint) "bitCount") (e1 (VU32 a)) = Done (VU32 (count_one_bits a)).
Proof. rewrite ev_bitCount_u32, g_bitCount_ok. reflexivity. Qed.
Lemma glsl_reverseBits_i32_correct es a : teval es (t_call1 "bitfieldReverse") (e1 (VI32 a)) = Done (VI32 (reverse_bits a)).
Proof. rewrite ev_bitrev_i32, g_bitfieldReverse_ok. reflexivity. Qed.
Lemma glsl_reverseBits_u32_correct es a : teval es (t_call1 "bitfieldReverse") (e1 (VU32 a)) = Done (VU32 (reverse_bits a)).
Proof. rewrite ev_bitrev_u32, g_bitfieldReverse_ok. reflexivity. Qed.
Lemma glsl_firstLeadingBit_u32_correct es a : in32 a ->
  teval es (t_ctor_call (TScalar KUint) "findMSB") (e1 (VU32 a)) = Done (VU32 (first_leading_bit_u32 a)).
Proof. intros. rewrite ev_findMSB_u32, g_findMSB_u_ok by assumption. reflexivity. Qed.
Lemma glsl_firstLeadingBit_i32_correct es a : in32 a ->
  teval es (t_call1 "findMSB") (e1 (VI32 a)) = Done (VI32 (first_leading_bit_i32 a)).
Proof. intros. rewrite ev_findMSB_i32, g_findMSB_i_ok by assumption. reflexivity. Qed.
Lemma glsl_firstTrailingBit_i32_correct es a : in32 a ->
  teval es (t_call1 "findLSB") (e1 (VI32 a)) = Done (VI32 (first_trailing_bit a)).
Proof. intros. rewrite ev_findLSB_i32, g_findLSB_ok by assumption. reflexivity. Qed.
Lemma glsl_firstTrailingBit_u32_correct es a : in32 a ->
  teval es (t_ctor_call (TScalar KUint) "findLSB") (e1 (VU32 a)) = Done (VU32 (first_trailing_bit a)).
Proof. intros. rewrite ev_findLSB_u32, g_findLSB_ok by assumption. reflexivity. Qed.

(* ---- countLeadingZeros = (31 - findMSB(a)): right bits for unsigned and non-negative operands ... ---- *)
Lemma glsl_countLeadingZeros_u32_bits es a : in32 a ->
  teval es t_clz (e1 (VU32 a)) = Done (VI32 (count_leading_zeros a)).
Proof. intros. rewrite ev_clz_u32, clz_bits by assumption. reflexivity. Qed.
Lemma glsl_countLeadingZeros_i32_nonneg es a : in32 a -> 0 <= sgn a ->
  teval es t_clz (e1 (VI32 a)) = Done (VI32 (count_leading_zeros a)).
Proof. intros. rewrite ev_clz_i32, g_findMSB_i_nonneg, clz_bits by assumption. reflexivity. Qed.
(* ... REFUTED for u32: the expression has type int where uint is required (desktop GLSL converts implicitly, GLSL ES
   rejects the program) ... *)
Lemma glsl_countLeadingZeros_u32_kind_refuted es a : in32 a ->
  teval es t_clz (e1 (VU32 a)) <> Done (VU32 (count_leading_zeros a)).
Proof. intros Ha. rewrite glsl_countLeadingZeros_u32_bits by assumption. discriminate. Qed.
(* ... and REFUTED for negative i32: findMSB of a negative int is the position of its most significant 0 bit *)
Lemma glsl_countLeadingZeros_i32_refuted :
  exists a, in32 a /\ teval false t_clz (e1 (VI32 a)) = Done (VI32 32) /\ count_leading_zeros a = 0.
Proof. exists 4294967295. split; [unfold in32, M32; lia|]. split; vm_compute; reflexivity. Qed.

(* ---- countTrailingZeros = findLSB(a): REFUTED at 0 (WGSL: 32, GLSL: -1); right bits elsewhere ---- *)
Lemma glsl_countTrailingZeros_nonzero es a : in32 a -> a <> 0 ->
  teval es t_ctz (e1 (VI32 a)) = Done (VI32 (count_trailing_zeros a)).
Proof.
  intros Ha E. rewrite ev_ctz_i32, g_findLSB_ok by assumption. unfold first_trailing_bit.
  destruct (Z.eqb_spec a 0); [contradiction|reflexivity].
Qed.
Lemma glsl_countTrailingZeros_refuted :
  teval false t_ctz (e1 (VI32 0)) = Done (VI32 4294967295) /\ teval false t_ctz (e1 (VU32 0)) = Done (VI32 4294967295)
  /\ count_trailing_zeros 0 = 32.
Proof. repeat split; vm_compute; reflexivity. Qed.

Lemma glsl_extractBits_u32_correct es a b c : in32 a -> in32 b -> in32 c ->
  teval es t_extract (e3 (VU32 a) (VU32 b) (VU32 c)) = Done (VU32 (extract_bits_u32 a b c)).
Proof. intros. rewrite ev_extract_u32, g_bfe_u_ok by assumption. reflexivity. Qed.
Lemma glsl_extractBits_i32_correct es a b c : in32 a -> in32 b -> in32 c ->
  teval es t_extract (e3 (VI32 a) (VU32 b) (VU32 c)) = Done (VI32 (extract_bits_i32 a b c)).
Proof. intros. rewrite ev_extract_i32, g_bfe_i_ok by assumption. reflexivity. Qed.
Lemma glsl_insertBits_u32_correct es a nb c d : in32 a -> in32 nb -> in32 c -> in32 d ->
  teval es t_insert (e4 (VU32 a) (VU32 nb) (VU32 c) (VU32 d)) = Done (VU32 (insert_bits a nb c d)).
Proof. intros. rewrite ev_insert_u32, g_bfi_ok by assumption. reflexivity. Qed.
Lemma glsl_insertBits_i32_correct es a nb c d : in32 a -> in32 nb -> in32 c -> in32 d ->
  teval es t_insert (e4 (VI32 a) (VI32 nb) (VU32 c) (VU32 d)) = Done (VI32 (insert_bits a nb c d)).
Proof. intros. rewrite ev_insert_i32, g_bfi_ok by assumption. reflexivity. Qed.

(* ================= float math (binary32 operations of Base/F32.v; see DialectChoices.md) ================= *)
Lemma glsl_abs_f32_correct es a : teval es (t_call1 "abs") (e1 (VF32 a)) = Done (VF32 (fabs a)).
Proof. tred. reflexivity. Qed.
Lemma glsl_sign_f32_correct es a : teval es (t_call1 "sign") (e1 (VF32 a))
  = Done (VF32 (if is_nan_bits a then a else if flt 0 a then 1065353216 else if flt a 0 then 3212836864 else a)).
Proof. tred. reflexivity. Qed.
Lemma glsl_min_f32_correct es a b : teval es (t_call2 "min") (e2 (VF32 a) (VF32 b)) = Done (VF32 (fmin a b)).
Proof. tred. reflexivity. Qed.
Lemma glsl_max_f32_correct es a b : teval es (t_call2 "max") (e2 (VF32 a) (VF32 b)) = Done (VF32 (fmax a b)).
Proof. tred. reflexivity. Qed.
Lemma glsl_clamp_f32_correct es a lo hi : flt hi lo = false ->
  teval es (t_call3 "clamp") (e3 (VF32 a) (VF32 lo) (VF32 hi)) = Done (VF32 (fmin (fmax a lo) hi)).
Proof. intros H. rewrite ev_clamp_f32, H. reflexivity. Qed.
Lemma glsl_floor_f32_correct es a : teval es (t_call1 "floor") (e1 (VF32 a)) = Done (VF32 (ffloor a)).
Proof. tred. reflexivity. Qed.
Lemma glsl_ceil_f32_correct es a : teval es (t_call1 "ceil") (e1 (VF32 a)) = Done (VF32 (fceil a)).
Proof. tred. reflexivity. Qed.
Lemma glsl_trunc_f32_correct es a : teval es (t_call1 "trunc") (e1 (VF32 a)) = Done (VF32 (ftrunc a)).
Proof. tred. reflexivity. Qed.
Lemma glsl_round_f32_correct es a : teval es (t_call1 "round") (e1 (VF32 a)) = Done (VF32 (fround a)).
Proof. tred. reflexivity. Qed.
Lemma glsl_sqrt_f32_correct es a : teval es (t_call1 "sqrt") (e1 (VF32 a)) = Done (VF32 (fsqrt a)).
Proof. tred. reflexivity. Qed.
Lemma glsl_saturate_f32_correct es a :
  teval es (t_saturate 1) (e1 (VF32 a)) = Done (VF32 (fmin (fmax a 0) 1065353216)).
Proof. rewrite ev_saturate, flt_one_zero. reflexivity. Qed.
Lemma glsl_fma_f32_correct es a b c : teval es t_fma_fused (e3 (VF32 a) (VF32 b) (VF32 c)) = Done (VF32 (ffma a b c)).
Proof. tred. reflexivity. Qed.
(* versions without fma(): the unfused form, which WGSL allows ("e1 * e2 + e3", fused or not) *)
Lemma glsl_fma_unfused_f32_correct es a b c :
  teval es t_fma_unfused (e3 (VF32 a) (VF32 b) (VF32 c)) = Done (VF32 (fadd (fmul a b) c)).
Proof. tred. reflexivity. Qed.

(* ================= conversions and bitcasts ================= *)
Lemma glsl_i32_to_u32_correct es a : teval es (t_ctor (TScalar KUint)) (e1 (VI32 a)) = Done (VU32 (u32_of_i32 a)).
Proof. tred. reflexivity. Qed.
Lemma glsl_u32_to_i32_correct es a : teval es (t_ctor (TScalar KInt)) (e1 (VU32 a)) = Done (VI32 (i32_of_u32 a)).
Proof. tred. reflexivity. Qed.
Lemma glsl_i32_to_f32_correct es a : teval es (t_ctor (TScalar KFloat)) (e1 (VI32 a)) = Done (VF32 (f32_of_i32 a)).
Proof. tred. reflexivity. Qed.
Lemma glsl_u32_to_f32_correct es a : teval es (t_ctor (TScalar KFloat)) (e1 (VU32 a)) = Done (VF32 (f32_of_u32 a)).
Proof. tred. reflexivity. Qed.
Lemma glsl_i32_to_bool_correct es a : teval es (t_ctor (TScalar KBool)) (e1 (VI32 a)) = Done (VBool (bool_of_32 a)).
Proof. tred. reflexivity. Qed.
Lemma glsl_u32_to_bool_correct es a : teval es (t_ctor (TScalar KBool)) (e1 (VU32 a)) = Done (VBool (bool_of_32 a)).
Proof. tred. reflexivity. Qed.
Lemma glsl_f32_to_bool_correct es a : teval es (t_ctor (TScalar KBool)) (e1 (VF32 a)) = Done (VBool (negb (feq a 0))).
Proof. tred. reflexivity. Qed.
Lemma glsl_bool_to_i32_correct es a : teval es (t_ctor (TScalar KInt)) (e1 (VBool a)) = Done (VI32 (u32_of_bool a)).
Proof. tred. reflexivity. Qed.
Lemma glsl_bool_to_u32_correct es a : teval es (t_ctor (TScalar KUint)) (e1 (VBool a)) = Done (VU32 (u32_of_bool a)).
Proof. tred. reflexivity. Qed.
Lemma glsl_bool_to_f32_correct es a : teval es (t_ctor (TScalar KFloat)) (e1 (VBool a)) = Done (VF32 (if a then 1065353216 else 0)).
Proof. tred. reflexivity. Qed.
Lemma glsl_f32_to_i32_correct es a : defined_f2i a ->
  teval es (t_ctor (TScalar KInt)) (e1 (VF32 a)) = Done (VI32 (i32_of_f32 a)).
Proof. intros. rewrite ev_f2i, g_f2i_ok by assumption. reflexivity. Qed.
Lemma glsl_f32_to_u32_correct es a : defined_f2u a ->
  teval es (t_ctor (TScalar KUint)) (e1 (VF32 a)) = Done (VU32 (u32_of_f32 a)).
Proof. intros. rewrite ev_f2u, g_f2u_ok by assumption. reflexivity. Qed.
(* outside that range the emitted int(a) / uint(a) is undefined in GLSL (WGSL defines it): C15 territory *)
Lemma glsl_f32_to_i32_unclamped :
  teval false (t_ctor (TScalar KInt)) (e1 (VF32 1333788672)) = Fail "UB: float to int conversion out of range".
Proof. vm_compute. reflexivity. Qed.

Lemma glsl_bitcast_i32_u32_correct es a : teval es (t_ctor (TScalar KUint)) (e1 (VI32 a)) = Done (VU32 a).
Proof. tred. reflexivity. Qed.
Lemma glsl_bitcast_u32_i32_correct es a : teval es (t_ctor (TScalar KInt)) (e1 (VU32 a)) = Done (VI32 a).
Proof. tred. reflexivity. Qed.
Lemma glsl_bitcast_i32_f32_correct es a : teval es (t_call1 "intBitsToFloat") (e1 (VI32 a)) = Done (VF32 a).
Proof. tred. reflexivity. Qed.
Lemma glsl_bitcast_u32_f32_correct es a : teval es (t_call1 "uintBitsToFloat") (e1 (VU32 a)) = Done (VF32 a).
Proof. tred. reflexivity. Qed.
Lemma glsl_bitcast_f32_i32_correct es a : teval es (t_call1 "floatBitsToInt") (e1 (VF32 a)) = Done (VI32 a).
Proof. tred. reflexivity. Qed.
Lemma glsl_bitcast_f32_u32_correct es a : teval es (t_call1 "floatBitsToUint") (e1 (VF32 a)) = Done (VU32 a).
Proof. tred. reflexivity. Qed.

(* ================= vector shapes: component-wise templates =================
   The vector forms of the arithmetic templates apply the scalar operator to corresponding components (GLSL 5.9),
   which is what the IR semantics does (Values.lift2): vector correctness reduces to the scalar lemmas above. *)
Lemma zip_res_ext (f g : value -> value -> result value) l1 l2 :
  (forall x y, In (x, y) (combine l1 l2) -> f x y = g x y) -> zip_res f l1 l2 = zip_res g l1 l2.
Proof.
  revert l2. induction l1 as [|x l1 IH]; intros [|y l2] H; try reflexivity.
  cbn [zip_res]. rewrite (H x y) by (left; reflexivity). destruct (g x y); try reflexivity.
  cbn [rbind]. rewrite IH; [reflexivity|]. intros; apply H; right; assumption.
Qed.

Definition arith_op (o : binop) : bool := match o with BAdd | BSub | BMul | BDiv | BMod => true | _ => false end.

Lemma ev_vec_arith_i32 es o a za b zb : arith_op o = true ->
  teval es (t_bin o) (e2 (VVec (VI32 a :: za)) (VVec (VI32 b :: zb)))
  = (vs <~ zip_res (arith_s o) (VI32 a :: za) (VI32 b :: zb) ;; Done (VVec vs)).
Proof.
  intros Ho. destruct o; try discriminate Ho;
  unfold teval, t_bin, va, vb, e2, env, P0;
  cbn [eval_expr map fst snd lookup scopes_find sc_find st_scopes st_globals String.eqb Ascii.eqb Bool.eqb is_poison rbind p_es
       eval_binop is_mat orb unify base_kind kind_of_scalar sk_eqb lift2];
  destruct (zip_res _ (VI32 a :: za) (VI32 b :: zb)); reflexivity.
Qed.
Lemma ev_vec_arith_u32 es o a za b zb : arith_op o = true ->
  teval es (t_bin o) (e2 (VVec (VU32 a :: za)) (VVec (VU32 b :: zb)))
  = (vs <~ zip_res (arith_s o) (VU32 a :: za) (VU32 b :: zb) ;; Done (VVec vs)).
Proof.
  intros Ho. destruct o; try discriminate Ho;
  unfold teval, t_bin, va, vb, e2, env, P0;
  cbn [eval_expr map fst snd lookup scopes_find sc_find st_scopes st_globals String.eqb Ascii.eqb Bool.eqb is_poison rbind p_es
       eval_binop is_mat orb unify base_kind kind_of_scalar sk_eqb lift2];
  destruct (zip_res _ (VU32 a :: za) (VU32 b :: zb)); reflexivity.
Qed.

(* the IR meaning of a component-wise binary operator on two vectors is Values.lift2 of the scalar meaning *)
Theorem glsl_vec_arith_i32_correct es o o' a za b zb : arith_op o = true ->
  (forall x y, In (x, y) (combine (VI32 a :: za) (VI32 b :: zb)) -> arith_s o x y = arith_scalar o' x y) ->
  teval es (t_bin o) (e2 (VVec (VI32 a :: za)) (VVec (VI32 b :: zb)))
  = lift2 (arith_scalar o') (VVec (VI32 a :: za)) (VVec (VI32 b :: zb)).
Proof. intros Ho H. rewrite ev_vec_arith_i32 by assumption. unfold lift2. rewrite (zip_res_ext _ _ _ _ H). reflexivity. Qed.
Theorem glsl_vec_arith_u32_correct es o o' a za b zb : arith_op o = true ->
  (forall x y, In (x, y) (combine (VU32 a :: za) (VU32 b :: zb)) -> arith_s o x y = arith_scalar o' x y) ->
  teval es (t_bin o) (e2 (VVec (VU32 a :: za)) (VVec (VU32 b :: zb)))
  = lift2 (arith_scalar o') (VVec (VU32 a :: za)) (VVec (VU32 b :: zb)).
Proof. intros Ho H. rewrite ev_vec_arith_u32 by assumption. unfold lift2. rewrite (zip_res_ext _ _ _ _ H). reflexivity. Qed.

Definition ints (l : list Z) : list value := map VI32 l.
Definition uints (l : list Z) : list value := map VU32 l.

Lemma in_combine_ints x y la lb : In (x, y) (combine (ints la) (ints lb)) -> exists p q, x = VI32 p /\ y = VI32 q /\ In (p, q) (combine la lb).
Proof.
  revert lb. induction la as [|a la IH]; intros [|b lb] H; try contradiction.
  destruct H as [H|H]; [inversion H; exists a, b; repeat split; left; reflexivity|].
  destruct (IH lb H) as (p & q & ? & ? & ?). exists p, q. repeat split; try assumption. right; assumption.
Qed.
Lemma in_combine_uints x y la lb : In (x, y) (combine (uints la) (uints lb)) -> exists p q, x = VU32 p /\ y = VU32 q /\ In (p, q) (combine la lb).
Proof.
  revert lb. induction la as [|a la IH]; intros [|b lb] H; try contradiction.
  destruct H as [H|H]; [inversion H; exists a, b; repeat split; left; reflexivity|].
  destruct (IH lb H) as (p & q & ? & ? & ?). exists p, q. repeat split; try assumption. right; assumption.
Qed.

(* vecN<i32> / vecN<u32> for every N (the lists are the components; naga emits N = 2, 3, 4) *)
Theorem glsl_add_i32_vec_correct es a la b lb :
  teval es (t_bin BAdd) (e2 (VVec (ints (a :: la))) (VVec (ints (b :: lb)))) = lift2 (arith_scalar OAdd) (VVec (ints (a :: la))) (VVec (ints (b :: lb))).
Proof.
  apply (glsl_vec_arith_i32_correct es BAdd OAdd a (ints la) b (ints lb)); [reflexivity|].
  intros x y H. destruct (in_combine_ints x y (a :: la) (b :: lb) H) as (p & q & -> & -> & _). reflexivity.
Qed.
Theorem glsl_sub_i32_vec_correct es a la b lb :
  teval es (t_bin BSub) (e2 (VVec (ints (a :: la))) (VVec (ints (b :: lb)))) = lift2 (arith_scalar OSub) (VVec (ints (a :: la))) (VVec (ints (b :: lb))).
Proof.
  apply (glsl_vec_arith_i32_correct es BSub OSub a (ints la) b (ints lb)); [reflexivity|].
  intros x y H. destruct (in_combine_ints x y (a :: la) (b :: lb) H) as (p & q & -> & -> & _). reflexivity.
Qed.
Theorem glsl_mul_i32_vec_correct es a la b lb :
  teval es (t_bin BMul) (e2 (VVec (ints (a :: la))) (VVec (ints (b :: lb)))) = lift2 (arith_scalar OMul) (VVec (ints (a :: la))) (VVec (ints (b :: lb))).
Proof.
  apply (glsl_vec_arith_i32_correct es BMul OMul a (ints la) b (ints lb)); [reflexivity|].
  intros x y H. destruct (in_combine_ints x y (a :: la) (b :: lb) H) as (p & q & -> & -> & _). reflexivity.
Qed.
Theorem glsl_div_i32_vec_correct es a la b lb :
  (forall p q, In (p, q) (combine (a :: la) (b :: lb)) -> in32 p /\ in32 q /\ defined_div_i32 p q) ->
  teval es (t_bin BDiv) (e2 (VVec (ints (a :: la))) (VVec (ints (b :: lb)))) = lift2 (arith_scalar ODiv) (VVec (ints (a :: la))) (VVec (ints (b :: lb))).
Proof.
  intros D. apply (glsl_vec_arith_i32_correct es BDiv ODiv a (ints la) b (ints lb)); [reflexivity|].
  intros x y H. destruct (in_combine_ints x y (a :: la) (b :: lb) H) as (p & q & -> & -> & Hin).
  destruct (D p q Hin) as (Hp & Hq & Hd). cbn [arith_s arith_scalar]. rewrite g_div_i_ok by assumption. reflexivity.
Qed.
Theorem glsl_rem_i32_vec_correct es a la b lb :
  (forall p q, In (p, q) (combine (a :: la) (b :: lb)) -> in32 p /\ in32 q /\ defined_rem_i32 p q) ->
  teval es (t_bin BMod) (e2 (VVec (ints (a :: la))) (VVec (ints (b :: lb)))) = lift2 (arith_scalar ORem) (VVec (ints (a :: la))) (VVec (ints (b :: lb))).
Proof.
  intros D. apply (glsl_vec_arith_i32_correct es BMod ORem a (ints la) b (ints lb)); [reflexivity|].
  intros x y H. destruct (in_combine_ints x y (a :: la) (b :: lb) H) as (p & q & -> & -> & Hin).
  destruct (D p q Hin) as (Hp & Hq & Hd). cbn [arith_s arith_scalar]. rewrite g_mod_i_ok by assumption. reflexivity.
Qed.
Theorem glsl_add_u32_vec_correct es a la b lb :
  teval es (t_bin BAdd) (e2 (VVec (uints (a :: la))) (VVec (uints (b :: lb)))) = lift2 (arith_scalar OAdd) (VVec (uints (a :: la))) (VVec (uints (b :: lb))).
Proof.
  apply (glsl_vec_arith_u32_correct es BAdd OAdd a (uints la) b (uints lb)); [reflexivity|].
  intros x y H. destruct (in_combine_uints x y (a :: la) (b :: lb) H) as (p & q & -> & -> & _). reflexivity.
Qed.
Theorem glsl_mul_u32_vec_correct es a la b lb :
  teval es (t_bin BMul) (e2 (VVec (uints (a :: la))) (VVec (uints (b :: lb)))) = lift2 (arith_scalar OMul) (VVec (uints (a :: la))) (VVec (uints (b :: lb))).
Proof.
  apply (glsl_vec_arith_u32_correct es BMul OMul a (uints la) b (uints lb)); [reflexivity|].
  intros x y H. destruct (in_combine_uints x y (a :: la) (b :: lb) H) as (p & q & -> & -> & _). reflexivity.
Qed.
Theorem glsl_div_u32_vec_correct es a la b lb :
  (forall p q, In (p, q) (combine (a :: la) (b :: lb)) -> defined_div_u32 p q) ->
  teval es (t_bin BDiv) (e2 (VVec (uints (a :: la))) (VVec (uints (b :: lb)))) = lift2 (arith_scalar ODiv) (VVec (uints (a :: la))) (VVec (uints (b :: lb))).
Proof.
  intros D. apply (glsl_vec_arith_u32_correct es BDiv ODiv a (uints la) b (uints lb)); [reflexivity|].
  intros x y H. destruct (in_combine_uints x y (a :: la) (b :: lb) H) as (p & q & -> & -> & Hin).
  cbn [arith_s arith_scalar]. rewrite g_div_u_ok by (apply D; assumption). reflexivity.
Qed.
