(* Tie R of property C05: every expression template that naga emits TODAY (coq/Gen/GlslOpTable.v, regenerated
   from /repo on every run by gen.py `glsloptable`: one micro-compile per operator x scalar kind x shape x
   {GLSL 4.30, GLSL ES 3.10}) is one of the templates proved correct in Glsl/CatalogueProofs.v, or one of the
   templates refuted there (known findings); and the type naga declares for the result is the WGSL result type.
   A changed operator spelling, swapped operands, a dropped or changed cast, a new helper call: the obligation
   fails. *)
From Coq Require Import List ZArith String Bool.
Import ListNotations.
Require Import Naga.Glsl.Syntax Naga.Glsl.Catalogue Naga.Gen.GlslOpTable.
Open Scope string_scope.

Definition classified (r : row) : bool := (in_catalogue r || in_refuted r) && decl_ok r.

Definition unclassified : list row := filter (fun r => negb (classified r)) table.
Definition refuted_rows : list row := filter in_refuted table.

Lemma gen_table_in_catalogue : forallb classified table = true.
Proof. vm_compute. reflexivity. Qed.

(* the probe really covered the operator space (a mutant cannot hide by making probes disappear) *)
Definition has_row (op kind : string) (n : nat) (es : bool) : bool :=
  existsb (fun r => let '(o, k, m, p, _, _) := r in
             String.eqb o op && String.eqb k kind && Nat.eqb m n && (Nat.eqb p 2 || Nat.eqb p (if es then 1 else 0))) table.

Definition must_have : list (string * string) :=
  [("add","i32"); ("add","u32"); ("add","f32"); ("sub","i32"); ("sub","u32"); ("sub","f32"); ("mul","i32"); ("mul","u32");
   ("mul","f32"); ("div","i32"); ("div","u32"); ("div","f32"); ("rem","i32"); ("rem","u32"); ("and","i32"); ("and","u32");
   ("and","bool"); ("or","i32"); ("or","u32"); ("or","bool"); ("xor","i32"); ("xor","u32"); ("shl","i32"); ("shl","u32");
   ("shr","i32"); ("shr","u32"); ("eq","i32"); ("eq","u32"); ("eq","f32"); ("eq","bool"); ("ne","i32"); ("ne","u32");
   ("ne","f32"); ("ne","bool"); ("lt","i32"); ("lt","u32"); ("lt","f32"); ("le","i32"); ("le","u32"); ("le","f32");
   ("gt","i32"); ("gt","u32"); ("gt","f32"); ("ge","i32"); ("ge","u32"); ("ge","f32"); ("neg","i32"); ("neg","f32");
   ("lognot","bool"); ("bitnot","i32"); ("bitnot","u32"); ("select","i32"); ("select","u32"); ("select","f32");
   ("select","bool"); ("abs","i32"); ("abs","f32"); ("sign","i32"); ("sign","f32"); ("min","i32"); ("min","u32");
   ("min","f32"); ("max","i32"); ("max","u32"); ("max","f32"); ("clamp","i32"); ("clamp","u32"); ("clamp","f32");
   ("floor","f32"); ("ceil","f32"); ("trunc","f32"); ("round","f32"); ("sqrt","f32"); ("saturate","f32"); ("fma","f32");
   ("countOneBits","i32"); ("countOneBits","u32"); ("reverseBits","i32"); ("reverseBits","u32");
   ("firstLeadingBit","i32"); ("firstLeadingBit","u32"); ("firstTrailingBit","i32"); ("firstTrailingBit","u32");
   ("countLeadingZeros","i32"); ("countLeadingZeros","u32"); ("countTrailingZeros","i32"); ("countTrailingZeros","u32");
   ("extractBits","i32"); ("extractBits","u32"); ("insertBits","i32"); ("insertBits","u32");
   ("convert_to_u32","i32"); ("convert_to_f32","i32"); ("convert_to_bool","i32"); ("convert_to_i32","u32");
   ("convert_to_f32","u32"); ("convert_to_bool","u32"); ("convert_to_i32","f32"); ("convert_to_u32","f32");
   ("convert_to_bool","f32"); ("convert_to_i32","bool"); ("convert_to_u32","bool"); ("convert_to_f32","bool");
   ("bitcast_to_u32","i32"); ("bitcast_to_f32","i32"); ("bitcast_to_i32","u32"); ("bitcast_to_f32","u32");
   ("bitcast_to_i32","f32"); ("bitcast_to_u32","f32")].

Lemma gen_table_covers_operators :
  forallb (fun ok => forallb (fun n => has_row (fst ok) (snd ok) n false && has_row (fst ok) (snd ok) n true) [1; 2; 3; 4]%nat)
          must_have = true.
Proof. vm_compute. reflexivity. Qed.

Lemma gen_table_vector_only_operators :
  forallb (fun ok => forallb (fun n => has_row (fst ok) (snd ok) n false && has_row (fst ok) (snd ok) n true) [2; 3; 4]%nat)
          [("dot","i32"); ("dot","u32"); ("dot","f32"); ("all","bool"); ("any","bool");
           ("select_scalar_cond","i32"); ("select_scalar_cond","u32"); ("select_scalar_cond","f32")] = true.
Proof. vm_compute. reflexivity. Qed.
