(* Decoder: JSON AST written by lib/glslread.py -> Glsl/Syntax.prog.
   Every node is a JSON array whose first element is its tag. *)
From Coq Require Import List ZArith String Bool.
Import ListNotations.
Require Import Naga.Base.Json Naga.Glsl.Syntax.
Open Scope string_scope.
Open Scope Z_scope.

Inductive res (A : Type) := Ok (a : A) | Err (msg : string).
Arguments Ok {A} a.
Arguments Err {A} msg.
Definition bind {A B} (r : res A) (f : A -> res B) : res B := match r with Ok a => f a | Err m => Err m end.
Notation "x <- e1 ;; e2" := (bind e1 (fun x => e2)) (at level 61, e1 at next level, right associativity).

Fixpoint map_res {A B} (f : A -> res B) (l : list A) : res (list B) :=
  match l with [] => Ok [] | x :: l' => y <- f x ;; ys <- map_res f l' ;; Ok (y :: ys) end.

Definition jnat (j : json) : res nat :=
  match j with JNum z => if z <? 0 then Err "negative number" else Ok (Z.to_nat z) | _ => Err "expected number" end.
Definition jstr (j : json) : res string := match j with JStr s => Ok s | _ => Err "expected string" end.
Definition jarr (j : json) : res (list json) := match j with JArr l => Ok l | _ => Err "expected array" end.

Definition dec_sk (s : string) : res sk :=
  if String.eqb s "int" then Ok KInt else if String.eqb s "uint" then Ok KUint
  else if String.eqb s "float" then Ok KFloat else if String.eqb s "bool" then Ok KBool
  else Err ("unknown scalar kind " ++ s).

Fixpoint dec_ty (fuel : nat) (j : json) : res gty :=
  match fuel with
  | O => Err "type nesting too deep"
  | S f =>
    match j with
    | JArr [JStr t] => if String.eqb t "void" then Ok TVoid else Err ("unknown type tag " ++ t)
    | JArr [JStr t; JStr k] =>
      if String.eqb t "s" then x <- dec_sk k ;; Ok (TScalar x)
      else if String.eqb t "st" then Ok (TStruct k) else Err ("unknown type tag " ++ t)
    | JArr [JStr t; JStr k; n] =>
      if String.eqb t "v" then x <- dec_sk k ;; m <- jnat n ;; Ok (TVec x m) else Err ("unknown type tag " ++ t)
    | JArr [JStr t; JNum c; JNum r] =>
      if String.eqb t "m" then Ok (TMat (Z.to_nat c) (Z.to_nat r)) else Err ("unknown type tag " ++ t)
    | JArr [JStr t; e; n] =>
      if String.eqb t "arr" then
        el <- dec_ty f e ;;
        match n with
        | JNull => Ok (TArr el None)
        | _ => m <- jnat n ;; Ok (TArr el (Some m))
        end
      else Err ("unknown type tag " ++ t)
    | _ => Err "malformed type"
    end
  end.

Definition dec_unop (s : string) : res unop :=
  if String.eqb s "-" then Ok UNeg else if String.eqb s "+" then Ok UPlus
  else if String.eqb s "!" then Ok ULogNot else if String.eqb s "~" then Ok UBitNot
  else Err ("unknown unary operator " ++ s).

Definition dec_binop (s : string) : res binop :=
  if String.eqb s "+" then Ok BAdd else if String.eqb s "-" then Ok BSub else if String.eqb s "*" then Ok BMul
  else if String.eqb s "/" then Ok BDiv else if String.eqb s "%" then Ok BMod
  else if String.eqb s "<<" then Ok BShl else if String.eqb s ">>" then Ok BShr
  else if String.eqb s "&" then Ok BAnd else if String.eqb s "|" then Ok BOr else if String.eqb s "^" then Ok BXor
  else if String.eqb s "&&" then Ok BLAnd else if String.eqb s "||" then Ok BLOr
  else if String.eqb s "==" then Ok BEq else if String.eqb s "!=" then Ok BNe
  else if String.eqb s "<" then Ok BLt else if String.eqb s "<=" then Ok BLe
  else if String.eqb s ">" then Ok BGt else if String.eqb s ">=" then Ok BGe
  else Err ("unknown binary operator " ++ s).

Fixpoint dec_expr (fuel : nat) (j : json) : res expr :=
  match fuel with
  | O => Err "expression nesting too deep"
  | S f =>
    match j with
    | JArr [JStr t; JNum z] =>
      if String.eqb t "int" then Ok (EInt z) else if String.eqb t "uint" then Ok (EUint z)
      else if String.eqb t "float" then Ok (EFloat z) else Err ("unknown expression tag " ++ t)
    | JArr [JStr t; JBool b] => if String.eqb t "bool" then Ok (EBool b) else Err ("unknown expression tag " ++ t)
    | JArr [JStr t; JStr x] => if String.eqb t "var" then Ok (EVar x) else Err ("unknown expression tag " ++ t)
    | JArr [JStr t; JStr o; a] =>
      if String.eqb t "un" then op <- dec_unop o ;; x <- dec_expr f a ;; Ok (EUn op x)
      else if String.eqb t "call" then l <- jarr a ;; xs <- map_res (dec_expr f) l ;; Ok (ECall o xs)
      else Err ("unknown expression tag " ++ t)
    | JArr [JStr t; a; JStr fld] =>
      if String.eqb t "field" then x <- dec_expr f a ;; Ok (EField x fld) else Err ("unknown expression tag " ++ t)
    | JArr [JStr t; JStr o; a; b] =>
      if String.eqb t "bin" then op <- dec_binop o ;; x <- dec_expr f a ;; y <- dec_expr f b ;; Ok (EBin op x y)
      else Err ("unknown expression tag " ++ t)
    | JArr [JStr t; a] =>
      if String.eqb t "length" then x <- dec_expr f a ;; Ok (ELength x) else Err ("unknown expression tag " ++ t)
    | JArr [JStr t; a; b] =>
      if String.eqb t "index" then x <- dec_expr f a ;; y <- dec_expr f b ;; Ok (EIndex x y)
      else if String.eqb t "ctor" then ty <- dec_ty 32 a ;; l <- jarr b ;; xs <- map_res (dec_expr f) l ;; Ok (ECtor ty xs)
      else Err ("unknown expression tag " ++ t)
    | JArr [JStr t; c; a; b] =>
      if String.eqb t "cond" then x <- dec_expr f c ;; y <- dec_expr f a ;; z <- dec_expr f b ;; Ok (ECond x y z)
      else Err ("unknown expression tag " ++ t)
    | _ => Err "malformed expression"
    end
  end.

Definition EFUEL : nat := 600.

Definition dec_opt_expr (j : json) : res (option expr) :=
  match j with JNull => Ok None | _ => e <- dec_expr EFUEL j ;; Ok (Some e) end.

Fixpoint dec_stmt (fuel : nat) (j : json) : res stmt :=
  match fuel with
  | O => Err "statement nesting too deep"
  | S f =>
    let block (b : json) := l <- jarr b ;; map_res (dec_stmt f) l in
    match j with
    | JArr [JStr t] =>
      if String.eqb t "break" then Ok SBreak else if String.eqb t "continue" then Ok SContinue
      else if String.eqb t "discard" then Ok SDiscard else Err ("unknown statement tag " ++ t)
    | JArr [JStr t; a] =>
      if String.eqb t "return" then e <- dec_opt_expr a ;; Ok (SReturn e)
      else if String.eqb t "expr" then e <- dec_expr EFUEL a ;; Ok (SExpr e)
      else if String.eqb t "incr" then e <- dec_expr EFUEL a ;; Ok (SIncr e)
      else if String.eqb t "block" then b <- block a ;; Ok (SBlock b)
      else Err ("unknown statement tag " ++ t)
    | JArr [JStr t; a; b] =>
      if String.eqb t "assign" then l <- dec_expr EFUEL a ;; r <- dec_expr EFUEL b ;; Ok (SAssign l r)
      else if String.eqb t "while" then c <- dec_expr EFUEL a ;; body <- block b ;; Ok (SWhile c body)
      else if String.eqb t "dowhile" then body <- block a ;; c <- dec_expr EFUEL b ;; Ok (SDoWhile body c)
      else if String.eqb t "switch" then
        sel <- dec_expr EFUEL a ;; cs <- jarr b ;;
        cases <- map_res (fun c => match c with
                                   | JArr [JArr labels; body] =>
                                     ls <- map_res dec_opt_expr labels ;; bd <- block body ;; Ok (ls, bd)
                                   | _ => Err "malformed switch case" end) cs ;;
        Ok (SSwitch sel cases)
      else Err ("unknown statement tag " ++ t)
    | JArr [JStr t; a; b; c] =>
      if String.eqb t "decl" then ty <- dec_ty 32 a ;; x <- jstr b ;; i <- dec_opt_expr c ;; Ok (SDecl ty x i)
      else if String.eqb t "if" then cnd <- dec_expr EFUEL a ;; th <- block b ;; el <- block c ;; Ok (SIf cnd th el)
      else Err ("unknown statement tag " ++ t)
    | JArr [JStr t; a; b; c; d] =>
      if String.eqb t "for" then
        i <- block a ;; cnd <- dec_expr EFUEL b ;; st <- block c ;; body <- block d ;; Ok (SFor i cnd st body)
      else Err ("unknown statement tag " ++ t)
    | _ => Err "malformed statement"
    end
  end.

Definition SFUEL : nat := 300.

Definition of_opt {A} (msg : string) (o : option A) : res A := match o with Some a => Ok a | None => Err msg end.

Definition dec_param (j : json) : res param :=
  match j with
  | JArr [JStr q; t; JStr n] =>
    ty <- dec_ty 32 t ;;
    qual <- (if String.eqb q "in" then Ok PIn else if String.eqb q "out" then Ok POut
             else if String.eqb q "inout" then Ok PInout else Err ("unknown parameter qualifier " ++ q)) ;;
    Ok (mkparam qual ty n)
  | _ => Err "malformed parameter"
  end.

Definition dec_func (j : json) : res func :=
  n <- of_opt "function: name" (field_str "name" j) ;;
  rt <- of_opt "function: ret" (field "ret" j) ;; ret <- dec_ty 32 rt ;;
  ps <- of_opt "function: params" (field_arr "params" j) ;; params <- map_res dec_param ps ;;
  b <- of_opt "function: body" (field_arr "body" j) ;; body <- map_res (dec_stmt SFUEL) b ;;
  Ok (mkfunc n ret params body).

Definition dec_sdef (j : json) : res sdef :=
  n <- of_opt "struct: name" (field_str "name" j) ;;
  ms <- of_opt "struct: members" (field_arr "members" j) ;;
  members <- map_res (fun m => match m with
                               | JArr [JStr mn; t] => ty <- dec_ty 32 t ;; Ok (mn, ty)
                               | _ => Err "malformed struct member" end) ms ;;
  Ok (mksdef n members).

Definition dec_gkind (s : string) : res gkind :=
  if String.eqb s "plain" then Ok GPlain else if String.eqb s "const" then Ok GConst
  else if String.eqb s "shared" then Ok GShared else if String.eqb s "buffer" then Ok GBuffer
  else if String.eqb s "uniform" then Ok GUniform else if String.eqb s "builtin" then Ok GBuiltin
  else Err ("unknown global kind " ++ s).

Definition dec_gvar (j : json) : res gvar :=
  n <- of_opt "global: name" (field_str "name" j) ;;
  t <- of_opt "global: ty" (field "ty" j) ;; ty <- dec_ty 32 t ;;
  k <- of_opt "global: kind" (field_str "kind" j) ;; kind <- dec_gkind k ;;
  i <- of_opt "global: init" (field "init" j) ;; init <- dec_opt_expr i ;;
  b <- of_opt "global: block" (field_str "block" j) ;;
  Ok (mkgvar n ty kind init b).

Definition dec_prog (j : json) : res prog :=
  es <- of_opt "program: es" (field_bool "es" j) ;;
  v <- of_opt "program: version" (field_num "version" j) ;;
  ss <- of_opt "program: structs" (field_arr "structs" j) ;; structs <- map_res dec_sdef ss ;;
  gs <- of_opt "program: globals" (field_arr "globals" j) ;; globals <- map_res dec_gvar gs ;;
  fs <- of_opt "program: funcs" (field_arr "funcs" j) ;; funcs <- map_res dec_func fs ;;
  Ok (mkprog es v structs globals funcs).
