(* GLSL 4.60 / ES 3.20 operator and built-in function meaning on run-time values
   (IR/Values.value: 32-bit patterns), transcribed from the GLSL specification:
     4.1.3  integers: "addition, subtraction, multiplication overflow/underflow wraps"
     4.1.10 implicit conversions (desktop only: int->uint, int/uint->float); ES has none
     5.4.1  conversion constructors     5.9 expressions (operators)     8.3/8.8 built-ins
   What the specification leaves undefined evaluates to  Fail "UB: ..." ; what it forbids
   statically evaluates to  Fail "TYPE: ..." ; what this model does not cover is
   Fail "OOF: ..." (out of fragment).  Readings of silent/ambiguous passages are listed in
   Glsl/DialectChoices.md. *)
From Coq Require Import List ZArith String Bool.
Import ListNotations.
Require Import Naga.Base.Bits32 Naga.Base.F32 Naga.IR.Values Naga.Glsl.Syntax.
Open Scope string_scope.
Open Scope Z_scope.

Definition UB {A} (what : string) : result A := Fail ("UB: " ++ what).
Definition TYPE {A} (what : string) : result A := Fail ("TYPE: " ++ what).
Definition OOF {A} (what : string) : result A := Fail ("OOF: " ++ what).

(* ---------------- integer scalars (bit patterns in [0,2^32)) ---------------- *)
Definition g_add (a b : Z) : Z := wrap (a + b).
Definition g_sub (a b : Z) : Z := wrap (a - b).
Definition g_mul (a b : Z) : Z := wrap (a * b).
Definition g_neg (a : Z) : Z := wrap (- a).

(* 5.9: "dividing by zero ... undefined"; the quotient of INT_MIN by -1 is not representable *)
Definition g_div_i (a b : Z) : result Z :=
  if b =? 0 then UB "integer division by zero"
  else if (a =? H32) && (b =? M32 - 1) then UB "integer division overflow (INT_MIN / -1)"
  else Done (wrap (Z.quot (sgn a) (sgn b))).
Definition g_div_u (a b : Z) : result Z :=
  if b =? 0 then UB "integer division by zero" else Done (a / b).
(* 5.9 %: "undefined ... second operand zero"; "results are undefined if one or both operands are negative" *)
Definition g_mod_i (a b : Z) : result Z :=
  if b =? 0 then UB "integer remainder by zero"
  else if (sgn a <? 0) || (sgn b <? 0) then UB "integer % with a negative operand"
  else Done (a mod b).
Definition g_mod_u (a b : Z) : result Z :=
  if b =? 0 then UB "integer remainder by zero" else Done (a mod b).

(* 5.9 shifts: "undefined if the right operand is negative, or greater than or equal to the number of bits" *)
Definition g_shl (a n : Z) : result Z :=
  if (n <? 0) || (32 <=? n) then UB "shift amount negative or >= 32" else Done (wrap (Z.shiftl a n)).
Definition g_shr_u (a n : Z) : result Z :=
  if (n <? 0) || (32 <=? n) then UB "shift amount negative or >= 32" else Done (Z.shiftr a n).
Definition g_shr_i (a n : Z) : result Z :=
  if (n <? 0) || (32 <=? n) then UB "shift amount negative or >= 32" else Done (wrap (Z.shiftr (sgn a) n)).

Definition g_not (a : Z) : Z := M32 - 1 - a.

Definition g_lt_i (a b : Z) : bool := sgn a <? sgn b.
Definition g_le_i (a b : Z) : bool := sgn a <=? sgn b.

(* 8.3 *)
Definition g_abs_i (a : Z) : Z := if sgn a <? 0 then g_neg a else a.
Definition g_sign_i (a : Z) : Z := if 0 <? sgn a then 1 else if sgn a <? 0 then M32 - 1 else 0.
Definition g_min_i (x y : Z) : Z := if g_lt_i y x then y else x.       (* "returns y if y < x, otherwise x" *)
Definition g_max_i (x y : Z) : Z := if g_lt_i x y then y else x.       (* "returns y if x < y, otherwise x" *)
Definition g_min_u (x y : Z) : Z := if y <? x then y else x.
Definition g_max_u (x y : Z) : Z := if x <? y then y else x.

(* 8.8 integer functions *)
Fixpoint bitcount_nat (n : nat) (a : Z) : Z :=
  match n with O => 0 | S n' => (if Z.testbit a (Z.of_nat n') then 1 else 0) + bitcount_nat n' a end.
Definition g_bitCount (a : Z) : Z := bitcount_nat 32 a.

(* index of the most significant 1 bit among bits [0,n), -1 if none *)
Fixpoint msb_nat (n : nat) (a : Z) : Z :=
  match n with O => -1 | S n' => if Z.testbit a (Z.of_nat n') then Z.of_nat n' else msb_nat n' a end.
(* index of the least significant 1 bit among bits [i, i+fuel), -1 if none *)
Fixpoint lsb_from (fuel : nat) (i : Z) (a : Z) : Z :=
  match fuel with O => -1 | S f => if Z.testbit a i then i else lsb_from f (i + 1) a end.

Definition g_findLSB (a : Z) : Z := wrap (lsb_from 32 0 a).                 (* "-1 if value is zero" *)
Definition g_findMSB_u (a : Z) : Z := wrap (msb_nat 32 a).
(* "for negative integers the bit number of the most significant 0 bit; 0 and -1 give -1" *)
Definition g_findMSB_i (a : Z) : Z := if sgn a <? 0 then wrap (msb_nat 32 (g_not a)) else wrap (msb_nat 32 a).

Fixpoint bitrev_nat (n : nat) (a : Z) : Z :=
  match n with
  | O => 0
  | S n' => (if Z.testbit a (Z.of_nat n') then Z.shiftl 1 (31 - Z.of_nat n') else 0) + bitrev_nat n' a
  end.
Definition g_bitfieldReverse (a : Z) : Z := bitrev_nat 32 a.

(* bitfieldExtract(value, int offset, int bits): "if bits is zero the result is zero; undefined if
   offset or bits is negative, or if offset + bits is greater than the number of bits of the operand" *)
Definition bf_defined (off bits : Z) : bool := (0 <=? sgn off) && (0 <=? sgn bits) && (sgn off + sgn bits <=? 32).
Definition g_bfe_u (v off bits : Z) : result Z :=
  if negb (bf_defined off bits) then UB "bitfieldExtract: offset/bits out of range"
  else if bits =? 0 then Done 0 else Done (Z.land (Z.shiftr v off) (Z.ones bits)).
Definition g_bfe_i (v off bits : Z) : result Z :=
  if negb (bf_defined off bits) then UB "bitfieldExtract: offset/bits out of range"
  else if bits =? 0 then Done 0
  else let x := Z.land (Z.shiftr v off) (Z.ones bits) in
       Done (if Z.testbit x (bits - 1) then wrap (x - Z.shiftl 1 bits) else x).
(* bitfieldInsert(base, insert, offset, bits): bits [offset, offset+bits-1] from insert's low bits *)
Definition g_bfi (base ins off bits : Z) : result Z :=
  if negb (bf_defined off bits) then UB "bitfieldInsert: offset/bits out of range"
  else if bits =? 0 then Done base
  else let mask := wrap (Z.shiftl (Z.ones bits) off) in
       Done (Z.lor (Z.land base (g_not mask)) (Z.land (wrap (Z.shiftl ins off)) mask)).

(* ---------------- conversions (5.4.1) ---------------- *)
(* float -> int: "the fractional part is dropped"; a value the target cannot represent is undefined *)
Definition g_f2i (a : Z) : result Z :=
  match z_of_f32_trunc a with
  | None => UB "float to int conversion of NaN or infinity"
  | Some z => if (-2147483648 <=? z) && (z <=? 2147483647) then Done (z mod M32)
              else UB "float to int conversion out of range"
  end.
(* "it is undefined to convert a negative floating-point value to an uint" *)
Definition g_f2u (a : Z) : result Z :=
  match z_of_f32_trunc a with
  | None => UB "float to uint conversion of NaN or infinity"
  | Some z => if flt a 0 then UB "float to uint conversion of a negative value"
              else if z <=? 4294967295 then Done z else UB "float to uint conversion out of range"
  end.

Definition F_ONE : Z := 1065353216.      (* 1.0 *)
Definition F_MONE : Z := 3212836864.     (* -1.0 *)

Definition conv_scalar (k : sk) (v : value) : result value :=
  match k, v with
  | KInt, VI32 x => Done (VI32 x) | KInt, VU32 x => Done (VI32 x)
  | KInt, VF32 x => r <~ g_f2i x ;; Done (VI32 r) | KInt, VBool b => Done (VI32 (if b then 1 else 0))
  | KUint, VI32 x => Done (VU32 x) | KUint, VU32 x => Done (VU32 x)
  | KUint, VF32 x => r <~ g_f2u x ;; Done (VU32 r) | KUint, VBool b => Done (VU32 (if b then 1 else 0))
  | KFloat, VI32 x => Done (VF32 (f32_of_i32 x)) | KFloat, VU32 x => Done (VF32 (f32_of_u32 x))
  | KFloat, VF32 x => Done (VF32 x) | KFloat, VBool b => Done (VF32 (if b then F_ONE else 0))
  | KBool, VI32 x => Done (VBool (negb (x =? 0))) | KBool, VU32 x => Done (VBool (negb (x =? 0)))
  | KBool, VF32 x => Done (VBool (negb (feq x 0))) | KBool, VBool b => Done (VBool b)
  | _, _ => TYPE "constructor argument is not a scalar"
  end.

Definition kind_of_scalar (v : value) : option sk :=
  match v with VI32 _ => Some KInt | VU32 _ => Some KUint | VF32 _ => Some KFloat | VBool _ => Some KBool | _ => None end.

(* kind of a scalar, or of the components of a vector / matrix *)
Definition base_kind (v : value) : option sk :=
  match v with
  | VVec (x :: _) => kind_of_scalar x
  | VMat (VVec (x :: _) :: _) => kind_of_scalar x
  | _ => kind_of_scalar v
  end.

(* implicit conversion of every component to kind k (only int->uint, int->float, uint->float exist) *)
Definition imp_scalar (k : sk) (v : value) : result value :=
  match k, v with
  | KUint, VI32 x => Done (VU32 x)
  | KFloat, VI32 x => Done (VF32 (f32_of_i32 x))
  | KFloat, VU32 x => Done (VF32 (f32_of_u32 x))
  | _, _ => match kind_of_scalar v with
            | Some k' => if sk_eqb k k' then Done v else TYPE "no implicit conversion between these types"
            | None => TYPE "no implicit conversion between these types"
            end
  end.
Definition imp_value (k : sk) (v : value) : result value := lift1 (imp_scalar k) v.

Definition rank (k : sk) : Z := match k with KInt => 1 | KUint => 2 | KFloat => 3 | KBool => 0 end.

(* operands of a binary operator are brought to a common fundamental type (desktop GLSL, 4.1.10);
   GLSL ES has no implicit conversions *)
Definition unify (es : bool) (a b : value) : result (value * value) :=
  match base_kind a, base_kind b with
  | Some ka, Some kb =>
    if sk_eqb ka kb then Done (a, b)
    else if es then TYPE "operands of different fundamental types (GLSL ES has no implicit conversions)"
    else if (rank ka =? 0) || (rank kb =? 0) then TYPE "bool operand mixed with a numeric operand"
    else if rank ka <? rank kb then a' <~ imp_value kb a ;; Done (a', b)
    else b' <~ imp_value ka b ;; Done (a, b')
  | _, _ => Done (a, b)
  end.

(* ---------------- scalar arithmetic by kind ---------------- *)
Definition arith_s (o : binop) (a b : value) : result value :=
  match a, b with
  | VI32 x, VI32 y =>
    match o with
    | BAdd => Done (VI32 (g_add x y)) | BSub => Done (VI32 (g_sub x y)) | BMul => Done (VI32 (g_mul x y))
    | BDiv => r <~ g_div_i x y ;; Done (VI32 r) | BMod => r <~ g_mod_i x y ;; Done (VI32 r)
    | _ => Fail "arith_s: operator"
    end
  | VU32 x, VU32 y =>
    match o with
    | BAdd => Done (VU32 (g_add x y)) | BSub => Done (VU32 (g_sub x y)) | BMul => Done (VU32 (g_mul x y))
    | BDiv => r <~ g_div_u x y ;; Done (VU32 r) | BMod => r <~ g_mod_u x y ;; Done (VU32 r)
    | _ => Fail "arith_s: operator"
    end
  | VF32 x, VF32 y =>
    match o with
    | BAdd => Done (VF32 (fadd x y)) | BSub => Done (VF32 (fsub x y)) | BMul => Done (VF32 (fmul x y))
    | BDiv => Done (VF32 (fdiv x y))
    | BMod => TYPE "operator % on floating-point operands"
    | _ => Fail "arith_s: operator"
    end
  | _, _ => TYPE "arithmetic operator: operand types"
  end.

Definition bit_s (o : binop) (a b : value) : result value :=
  let f x y := match o with BAnd => Z.land x y | BOr => Z.lor x y | _ => Z.lxor x y end in
  match a, b with
  | VI32 x, VI32 y => Done (VI32 (f x y))
  | VU32 x, VU32 y => Done (VU32 (f x y))
  | _, _ => TYPE "bitwise operator: operands must be integers of the same signedness"
  end.

Definition shift_amount (n : value) : result Z :=
  match n with
  | VU32 z => Done z
  | VI32 z => Done (sgn z)
  | _ => TYPE "shift amount must be an integer"
  end.
Definition shl_s (a n : value) : result value :=
  k <~ shift_amount n ;;
  match a with
  | VI32 x => r <~ g_shl x k ;; Done (VI32 r)
  | VU32 x => r <~ g_shl x k ;; Done (VU32 r)
  | _ => TYPE "shift: left operand must be an integer"
  end.
Definition shr_s (a n : value) : result value :=
  k <~ shift_amount n ;;
  match a with
  | VI32 x => r <~ g_shr_i x k ;; Done (VI32 r)
  | VU32 x => r <~ g_shr_u x k ;; Done (VU32 r)
  | _ => TYPE "shift: left operand must be an integer"
  end.

Definition rel_s (o : binop) (a b : value) : result value :=
  match a, b with
  | VI32 x, VI32 y =>
    Done (VBool (match o with BLt => g_lt_i x y | BLe => g_le_i x y | BGt => g_lt_i y x | _ => g_le_i y x end))
  | VU32 x, VU32 y =>
    Done (VBool (match o with BLt => x <? y | BLe => x <=? y | BGt => y <? x | _ => y <=? x end))
  | VF32 x, VF32 y =>
    Done (VBool (match o with BLt => flt x y | BLe => fle x y | BGt => fgt x y | _ => fge x y end))
  | _, _ => TYPE "relational operator: operands must be scalar int, uint or float"
  end.

(* == on any type: all components equal (5.9); float components compare as IEEE (NaN <> NaN) *)
Fixpoint agg_eq (a b : value) {struct a} : result bool :=
  let fix list_eq (l1 l2 : list value) {struct l1} : result bool :=
      match l1, l2 with
      | [], [] => Done true
      | x :: l1', y :: l2' => e <~ agg_eq x y ;; r <~ list_eq l1' l2' ;; Done (e && r)
      | _, _ => TYPE "==: operands of different sizes"
      end in
  match a, b with
  | VBool x, VBool y => Done (Bool.eqb x y)
  | VI32 x, VI32 y | VU32 x, VU32 y => Done (x =? y)
  | VF32 x, VF32 y => Done (feq x y)
  | VVec x, VVec y | VMat x, VMat y | VArr x, VArr y | VStruct x, VStruct y => list_eq x y
  | _, _ => TYPE "==: operands of different types"
  end.

Definition is_vec (v : value) : bool := match v with VVec _ => true | _ => false end.
Definition is_mat (v : value) : bool := match v with VMat _ => true | _ => false end.
Definition is_float_based (v : value) : bool := match base_kind v with Some KFloat => true | _ => false end.

Definition eval_unop (o : unop) (v : value) : result value :=
  match o with
  | UNeg =>
    let f x := match x with VI32 z => Done (VI32 (g_neg z)) | VU32 z => Done (VU32 (g_neg z))
                          | VF32 z => Done (VF32 (fneg z)) | _ => TYPE "unary -: operand type" end in
    match v with VMat cs => r <~ rmap (lift1 f) cs ;; Done (VMat r) | _ => lift1 f v end
  | UPlus =>
    match base_kind v with Some KBool | None => TYPE "unary +: operand type" | _ => Done v end
  | ULogNot => match v with VBool b => Done (VBool (negb b)) | _ => TYPE "!: operand must be a scalar bool" end
  | UBitNot =>
    lift1 (fun x => match x with VI32 z => Done (VI32 (g_not z)) | VU32 z => Done (VU32 (g_not z))
                               | _ => TYPE "~: operand must be an integer" end) v
  end.

Definition eval_binop (es : bool) (o : binop) (a b : value) : result value :=
  match o with
  | BLAnd => match a, b with VBool x, VBool y => Done (VBool (x && y)) | _, _ => TYPE "&&: operands must be scalar bools" end
  | BLOr => match a, b with VBool x, VBool y => Done (VBool (x || y)) | _, _ => TYPE "||: operands must be scalar bools" end
  | BEq => p <~ unify es a b ;; e <~ agg_eq (fst p) (snd p) ;; Done (VBool e)
  | BNe => p <~ unify es a b ;; e <~ agg_eq (fst p) (snd p) ;; Done (VBool (negb e))
  | BLt | BLe | BGt | BGe => p <~ unify es a b ;; rel_s o (fst p) (snd p)
  | BAdd | BSub =>
    if is_mat a || is_mat b then
      (if is_mat a && is_mat b then addsub_value (match o with BAdd => OAdd | _ => OSub end) a b
       else OOF "matrix +/- scalar")
    else p <~ unify es a b ;; lift2 (arith_s o) (fst p) (snd p)
  | BMul =>
    if is_mat a || is_mat b then
      (if is_float_based a && is_float_based b then mul_value a b else TYPE "matrix product with a non-float operand")
    else p <~ unify es a b ;; lift2 (arith_s o) (fst p) (snd p)
  | BDiv =>
    if is_mat a || is_mat b then OOF "matrix division"
    else p <~ unify es a b ;; lift2 (arith_s o) (fst p) (snd p)
  | BMod => p <~ unify es a b ;; lift2 (arith_s o) (fst p) (snd p)
  | BAnd | BOr | BXor => lift2 (bit_s o) a b
  | BShl => if negb (is_vec a) && is_vec b then TYPE "<<: scalar shifted by a vector" else lift2 shl_s a b
  | BShr => if negb (is_vec a) && is_vec b then TYPE ">>: scalar shifted by a vector" else lift2 shr_s a b
  end.

(* ---------------- built-in functions ---------------- *)
Definition f1 (ff : Z -> Z) (v : value) : result value :=
  lift1 (fun x => match x with VF32 z => Done (VF32 (ff z)) | _ => TYPE "built-in expects float operands" end) v.

Definition num2g (fi fu ff : Z -> Z -> Z) (a b : value) : result value :=
  match a, b with
  | VI32 x, VI32 y => Done (VI32 (fi x y)) | VU32 x, VU32 y => Done (VU32 (fu x y))
  | VF32 x, VF32 y => Done (VF32 (ff x y)) | _, _ => TYPE "built-in: operand types differ"
  end.

Definition g_min_s := num2g g_min_i g_min_u fmin.
Definition g_max_s := num2g g_max_i g_max_u fmax.
(* clamp(x,lo,hi) = min(max(x,lo),hi); "results are undefined if minVal > maxVal" *)
Definition clamp_defined (lo hi : value) : bool :=
  match lo, hi with
  | VI32 x, VI32 y => g_le_i x y | VU32 x, VU32 y => x <=? y
  | VF32 x, VF32 y => negb (flt y x)
  | _, _ => true
  end.
Definition g_clamp_s (x lo hi : value) : result value :=
  if clamp_defined lo hi then m <~ g_max_s x lo ;; g_min_s m hi else UB "clamp with minVal > maxVal".

Definition g_abs_s (v : value) : result value :=
  match v with VI32 x => Done (VI32 (g_abs_i x)) | VF32 x => Done (VF32 (fabs x)) | _ => TYPE "abs: operand type" end.
Definition g_sign_f (x : Z) : Z :=
  if is_nan_bits x then x else if flt 0 x then F_ONE else if flt x 0 then F_MONE else x.
Definition g_sign_s (v : value) : result value :=
  match v with VI32 x => Done (VI32 (g_sign_i x)) | VF32 x => Done (VF32 (g_sign_f x)) | _ => TYPE "sign: operand type" end.

Definition int1g (fi fu : Z -> Z) (v : value) : result value :=      (* result always int (genIType) *)
  lift1 (fun x => match x with VI32 z => Done (VI32 (fi z)) | VU32 z => Done (VI32 (fu z))
                             | _ => TYPE "built-in expects integer operands" end) v.
Definition same1g (f : Z -> Z) (v : value) : result value :=         (* result of the operand's type *)
  lift1 (fun x => match x with VI32 z => Done (VI32 (f z)) | VU32 z => Done (VU32 (f z))
                             | _ => TYPE "built-in expects integer operands" end) v.

Definition lift3g (f : value -> value -> value -> result value) (a b c : value) : result value :=
  match a, b, c with
  | VVec l1, VVec l2, VVec l3 =>
    rbind ((fix go l1 l2 l3 := match l1, l2, l3 with
       | [], [], [] => Done []
       | x :: r1, y :: r2, z :: r3 => v <~ f x y z ;; vs <~ go r1 r2 r3 ;; Done (v :: vs)
       | _, _, _ => TYPE "vector operands of different sizes" end) l1 l2 l3) (fun vs => Done (VVec vs))
  | VVec l1, _, _ =>
    if is_vec b || is_vec c then TYPE "built-in: mixed vector/scalar operands"
    else vs <~ rmap (fun x => f x b c) l1 ;; Done (VVec vs)
  | _, _, _ => if is_vec b || is_vec c then TYPE "built-in: mixed scalar/vector operands" else f a b c
  end.

Definition cmp_vec (name : string) (fi fu ff : Z -> Z -> bool) (a b : value) : result value :=
  match a, b with
  | VVec l1, VVec l2 =>
    vs <~ zip_res (fun x y => match x, y with
                              | VI32 p, VI32 q => Done (VBool (fi p q)) | VU32 p, VU32 q => Done (VBool (fu p q))
                              | VF32 p, VF32 q => Done (VBool (ff p q))
                              | _, _ => TYPE (name ++ ": component types") end) l1 l2 ;;
    Done (VVec vs)
  | _, _ => TYPE (name ++ ": operands must be vectors")
  end.

Definition eq_vec (name : string) (neg : bool) (a b : value) : result value :=
  match a, b with
  | VVec l1, VVec l2 =>
    vs <~ zip_res (fun x y => match x, y with
                              | VVec _, _ | _, VVec _ => TYPE (name ++ ": nested vector")
                              | _, _ => e <~ agg_eq x y ;; Done (VBool (xorb neg e)) end) l1 l2 ;;
    Done (VVec vs)
  | _, _ => TYPE (name ++ ": operands must be vectors")
  end.

Definition bools_of_vec (v : value) : result (list bool) :=
  match v with
  | VVec l => rmap (fun x => match x with VBool b => Done b | _ => TYPE "expected a bvec" end) l
  | _ => TYPE "expected a bvec"
  end.

(* mix(x, y, a) with a boolean a: "for a component of a that is false the corresponding component of x
   is returned, for a component that is true the corresponding component of y" *)
Definition g_mix_bool (x y a : value) : result value :=
  match a with
  | VBool b => if is_vec x || is_vec y then TYPE "mix: scalar selector with vector operands" else Done (if b then y else x)
  | VVec cs =>
    match x, y with
    | VVec lx, VVec ly =>
      rbind ((fix go cs lx ly := match cs, lx, ly with
         | [], [], [] => Done []
         | VBool b :: cs', p :: lx', q :: ly' => vs <~ go cs' lx' ly' ;; Done ((if b then q else p) :: vs)
         | _, _, _ => TYPE "mix: operand shapes" end) cs lx ly) (fun vs => Done (VVec vs))
    | _, _ => TYPE "mix: operand shapes"
    end
  | _ => OOF "mix with a float selector"
  end.

Definition as_int_arg (v : value) : result Z :=
  match v with VI32 z => Done z | _ => TYPE "built-in expects an int argument (offset/bits)" end.

Definition bitcast1 (name : string) (from to : sk) (v : value) : result value :=
  lift1 (fun x =>
    match from, x with
    | KFloat, VF32 z | KInt, VI32 z | KUint, VU32 z =>
      Done (match to with KInt => VI32 z | KUint => VU32 z | KFloat => VF32 z | KBool => VBool false end)
    | _, _ => TYPE (name ++ ": operand type")
    end) v.

Definition eval_builtin (name : string) (args : list value) : result value :=
  match args with
  | [a] =>
    if String.eqb name "abs" then lift1 g_abs_s a
    else if String.eqb name "sign" then lift1 g_sign_s a
    else if String.eqb name "floor" then f1 ffloor a
    else if String.eqb name "ceil" then f1 fceil a
    else if String.eqb name "trunc" then f1 ftrunc a
    else if String.eqb name "round" then f1 fround a            (* ties: implementation's choice; see DialectChoices.md *)
    else if String.eqb name "roundEven" then f1 fround a
    else if String.eqb name "sqrt" then f1 fsqrt a
    else if String.eqb name "bitCount" then int1g g_bitCount g_bitCount a
    else if String.eqb name "findLSB" then int1g g_findLSB g_findLSB a
    else if String.eqb name "findMSB" then int1g g_findMSB_i g_findMSB_u a
    else if String.eqb name "bitfieldReverse" then same1g g_bitfieldReverse a
    else if String.eqb name "any" then bs <~ bools_of_vec a ;; Done (VBool (existsb (fun b => b) bs))
    else if String.eqb name "all" then bs <~ bools_of_vec a ;; Done (VBool (forallb (fun b => b) bs))
    else if String.eqb name "not" then bs <~ bools_of_vec a ;; Done (VVec (map (fun b => VBool (negb b)) bs))
    else if String.eqb name "isnan" then
      lift1 (fun x => match x with VF32 z => Done (VBool (is_nan_bits z)) | _ => TYPE "isnan: operand type" end) a
    else if String.eqb name "isinf" then
      lift1 (fun x => match x with VF32 z => Done (VBool (is_inf_bits z)) | _ => TYPE "isinf: operand type" end) a
    else if String.eqb name "floatBitsToInt" then bitcast1 name KFloat KInt a
    else if String.eqb name "floatBitsToUint" then bitcast1 name KFloat KUint a
    else if String.eqb name "intBitsToFloat" then bitcast1 name KInt KFloat a
    else if String.eqb name "uintBitsToFloat" then bitcast1 name KUint KFloat a
    else OOF ("built-in function not modelled: " ++ name)
  | [a; b] =>
    if String.eqb name "min" then (if negb (is_vec a) && is_vec b then TYPE "min: scalar, vector" else lift2 g_min_s a b)
    else if String.eqb name "max" then (if negb (is_vec a) && is_vec b then TYPE "max: scalar, vector" else lift2 g_max_s a b)
    else if String.eqb name "dot" then
      match a, b with
      | VVec l1, VVec l2 => if is_float_based a && is_float_based b then dot_vals l1 l2 else TYPE "dot: float vectors only"
      | VF32 x, VF32 y => Done (VF32 (fmul x y))
      | _, _ => TYPE "dot: operands"
      end
    else if String.eqb name "lessThan" then cmp_vec name g_lt_i Z.ltb flt a b
    else if String.eqb name "lessThanEqual" then cmp_vec name g_le_i Z.leb fle a b
    else if String.eqb name "greaterThan" then cmp_vec name (fun x y => g_lt_i y x) (fun x y => y <? x) fgt a b
    else if String.eqb name "greaterThanEqual" then cmp_vec name (fun x y => g_le_i y x) (fun x y => y <=? x) fge a b
    else if String.eqb name "equal" then eq_vec name false a b
    else if String.eqb name "notEqual" then eq_vec name true a b
    else OOF ("built-in function not modelled: " ++ name)
  | [a; b; c] =>
    if String.eqb name "clamp" then lift3g g_clamp_s a b c
    else if String.eqb name "mix" then g_mix_bool a b c
    else if String.eqb name "fma" then
      lift3g (fun x y z => match x, y, z with VF32 p, VF32 q, VF32 r => Done (VF32 (ffma p q r)) | _, _, _ => TYPE "fma: operands" end) a b c
    else if String.eqb name "bitfieldExtract" then
      o <~ as_int_arg b ;; n <~ as_int_arg c ;;
      lift1 (fun x => match x with VI32 z => r <~ g_bfe_i z o n ;; Done (VI32 r) | VU32 z => r <~ g_bfe_u z o n ;; Done (VU32 r)
                                 | _ => TYPE "bitfieldExtract: operand type" end) a
    else OOF ("built-in function not modelled: " ++ name)
  | [a; b; c; d] =>
    if String.eqb name "bitfieldInsert" then
      o <~ as_int_arg c ;; n <~ as_int_arg d ;;
      lift2 (fun x y => match x, y with
                        | VI32 p, VI32 q => r <~ g_bfi p q o n ;; Done (VI32 r)
                        | VU32 p, VU32 q => r <~ g_bfi p q o n ;; Done (VU32 r)
                        | _, _ => TYPE "bitfieldInsert: operand types" end) a b
    else OOF ("built-in function not modelled: " ++ name)
  | _ => OOF ("built-in function not modelled: " ++ name)
  end.

(* ---------------- constructors ---------------- *)
Fixpoint flat_comps (l : list value) : list value :=
  match l with
  | [] => []
  | VVec xs :: r => xs ++ flat_comps r
  | VMat cs :: r => flat_map (fun c => match c with VVec xs => xs | x => [x] end) cs ++ flat_comps r
  | x :: r => x :: flat_comps r
  end.

Fixpoint chunks (fuel n : nat) (l : list value) : list (list value) :=
  match fuel with
  | O => []
  | S f => match l with [] => [] | _ => firstn n l :: chunks f n (skipn n l) end
  end.

Definition diag_col (r j : nat) (x : value) : value :=
  VVec (map (fun i => if Nat.eqb i j then x else VF32 0) (seq 0 r)).

Definition ctor_vec (k : sk) (n : nat) (args : list value) : result value :=
  match args with
  | [] => TYPE "constructor without arguments"
  | [VVec xs] =>
    if Nat.leb n (List.length xs) then vs <~ rmap (conv_scalar k) (firstn n xs) ;; Done (VVec vs)
    else TYPE "vector constructor: not enough components"
  | [VMat _] => OOF "vector constructed from a matrix"
  | [x] => y <~ conv_scalar k x ;; Done (VVec (repeat y n))
  | _ =>
    let comps := flat_comps args in
    if Nat.eqb (List.length comps) n then vs <~ rmap (conv_scalar k) comps ;; Done (VVec vs)
    else TYPE "vector constructor: wrong number of components"
  end.

Definition ctor_mat (c r : nat) (args : list value) : result value :=
  match args with
  | [] => TYPE "constructor without arguments"
  | [VMat _] => OOF "matrix constructed from a matrix"
  | [VVec _] => TYPE "matrix constructor: not enough components"
  | [x] => y <~ conv_scalar KFloat x ;; Done (VMat (map (fun j => diag_col r j y) (seq 0 c)))
  | _ =>
    let comps := flat_comps args in
    if Nat.eqb (List.length comps) (c * r) then
      vs <~ rmap (conv_scalar KFloat) comps ;; Done (VMat (map VVec (chunks (S (c * r)) r vs)))
    else TYPE "matrix constructor: wrong number of components"
  end.
