(* Abstract syntax of the GLSL subset that naga's GLSL backend emits (property C05).
   Produced by the trusted reader lib/glslread.py (JSON) and decoded by Glsl/Decode.v.
   Types are structured by the reader (int/uint/float/bool, vecN families, matCxR,
   struct names, arrays with the OUTERMOST dimension first). *)
From Coq Require Import List ZArith String Bool.
Import ListNotations.
Open Scope Z_scope.

Inductive sk := KInt | KUint | KFloat | KBool.

Inductive gty :=
| TScalar (k : sk)
| TVec (k : sk) (n : nat)
| TMat (c r : nat)                       (* matCxR: c columns of r floats *)
| TStruct (name : string)
| TArr (elem : gty) (n : option nat)     (* None: runtime-sized (last member of a buffer block) *)
| TVoid
| TUnknown.                              (* type of an operator result: read off the value *)

Inductive unop := UNeg | UPlus | ULogNot | UBitNot.

Inductive binop :=
| BAdd | BSub | BMul | BDiv | BMod
| BShl | BShr | BAnd | BOr | BXor
| BLAnd | BLOr
| BEq | BNe | BLt | BLe | BGt | BGe.

Inductive expr :=
| EInt (bits : Z)                        (* 123  : int literal, as a 32-bit pattern *)
| EUint (bits : Z)                       (* 123u *)
| EFloat (bits : Z)                      (* 1.5  : binary32 pattern, correctly rounded by the reader *)
| EBool (b : bool)
| EVar (x : string)
| EUn (o : unop) (e : expr)
| EBin (o : binop) (a b : expr)
| ECond (c a b : expr)
| ECall (f : string) (args : list expr)  (* built-in or user function *)
| ECtor (t : gty) (args : list expr)     (* constructor: uint(x) ivec3(..) mat2x2(..) S(..) float[4](..) *)
| EField (e : expr) (f : string)         (* struct member or swizzle *)
| EIndex (e : expr) (i : expr)
| ELength (e : expr).                    (* e.length() *)

Inductive stmt :=
| SDecl (t : gty) (x : string) (init : option expr)
| SAssign (lhs rhs : expr)
| SIncr (lhs : expr)                     (* lhs++ (only in generated for-loops) *)
| SExpr (e : expr)
| SIf (c : expr) (a b : list stmt)
| SWhile (c : expr) (body : list stmt)
| SDoWhile (body : list stmt) (c : expr)
| SFor (init : list stmt) (c : expr) (step : list stmt) (body : list stmt)
| SSwitch (sel : expr) (cases : list (list (option expr) * list stmt))   (* labels (None = default), statements *)
| SBreak
| SContinue
| SReturn (e : option expr)
| SDiscard
| SBlock (b : list stmt).

Inductive pqual := PIn | POut | PInout.

Record param := mkparam { p_qual : pqual; p_ty : gty; p_name : string }.

Record func := mkfunc { f_name : string; f_ret : gty; f_params : list param; f_body : list stmt }.

Record sdef := mksdef { s_name : string; s_members : list (string * gty) }.

Inductive gkind := GPlain | GConst | GShared | GBuffer | GUniform | GBuiltin.

(* a global variable; for interface blocks: one global per block (instance name, struct of
   the members) or, for blocks without instance name, one global per member *)
Record gvar := mkgvar { g_name : string; g_ty : gty; g_kind : gkind; g_init : option expr; g_block : string }.

Record prog := mkprog {
  p_es : bool;                           (* GLSL ES: no implicit conversions *)
  p_version : Z;
  p_structs : list sdef;
  p_globals : list gvar;
  p_funcs : list func                    (* includes main *)
}.

Definition sk_eqb (a b : sk) : bool :=
  match a, b with KInt, KInt | KUint, KUint | KFloat, KFloat | KBool, KBool => true | _, _ => false end.
