(* The lexer theorems instantiated at the tables regenerated from /repo. *)
From Coq Require Import List ZArith Bool Lia.
Import ListNotations.
Require Import Naga.Lex.LexModel Naga.Lex.LexProofs Naga.Lex.LexSplit Naga.Lex.LexTrivia Naga.Lex.LexInst
               Naga.Gen.LexTables.
Open Scope Z_scope.

Definition lstrip_go := lex_strip is_letter keyword K.

Lemma L0 : is_letter 0 = false. Proof. vm_compute. reflexivity. Qed.
Lemma Lfffd : is_letter 65533 = false. Proof. vm_compute. reflexivity. Qed.
Lemma L32 : is_letter 32 = false. Proof. vm_compute. reflexivity. Qed.
Lemma L13 : is_letter 13 = false. Proof. vm_compute. reflexivity. Qed.
Lemma L9 : is_letter 9 = false. Proof. vm_compute. reflexivity. Qed.
Lemma L10 : is_letter 10 = false. Proof. vm_compute. reflexivity. Qed.

Definition go_blank_splits := blank_splits is_letter keyword K L0 Lfffd L32 L13 L9 L10.
Definition go_layout_tokens := layout_tokens is_letter keyword K L0 Lfffd L32 L13 L9 L10.
Definition go_respacing_invariance := respacing_invariance is_letter keyword K L0 Lfffd L32 L13 L9 L10.
Definition go_trivia_skipped := trivia_skipped is_letter keyword K.
Definition go_lex_total := lex_total is_letter keyword K.
Definition go_scan_progress := scan_progress is_letter keyword K.
Definition go_lex_token_count := lex_token_count is_letter keyword K.

(* ASCII source text as runes *)
Definition asc (l : list Z) : list ch := map (fun r => mkch r 1) l.
