(* Theorems about the lexer model, for every input (no bound on length). *)
From Coq Require Import List ZArith Bool Lia.
Import ListNotations.
Require Import Naga.Lex.LexModel.
Open Scope Z_scope.

Ltac break_if :=
  match goal with |- context[if ?b then _ else _] => destruct b eqn:? end.
Ltac break_if' :=
  match goal with |- context[if ?b then _ else _] => destruct b end.

Section Proofs.
Variable is_letter : Z -> bool.
Variable keyword : list Z -> option Z.
Variable K : kinds.

Notation scan := (scan_token is_letter keyword K).
Notation lexf := (lex_fuel is_letter keyword K).
Notation number_ := (number is_letter K).
Notation identifier_ := (identifier is_letter keyword K).

Definition rest_of (r : scan_result) : list ch :=
  match r with Tok _ _ rest => rest | Skip rest _ _ _ => rest end.

(* ------------------------------------------------------------------ *)
(* 1. Progress: every scanToken step consumes at least one rune, hence
      Tokenize terminates within |s| steps and yields at most |s|+1 tokens. *)

Lemma while_len p acc s : (length (snd (while p acc s)) <= length s)%nat.
Proof.
  revert acc; induction s as [|c s IH]; intros acc; cbn [while]; [cbn; lia|].
  destruct (p (cp c)); [specialize (IH (c :: acc)); cbn [length]; lia | cbn; lia].
Qed.

Lemma adv_len st : (length (snd (adv st)) <= length (snd st))%nat.
Proof. destruct st as [a [|c s]]; cbn; lia. Qed.

Lemma int_suffix_len st : (length (snd (int_suffix st)) <= length (snd st))%nat.
Proof.
  unfold int_suffix. repeat break_if; try lia.
  - pose proof (adv_len (adv st)); pose proof (adv_len st); lia.
  - apply adv_len.
Qed.

Lemma float_suffix_len st : (length (snd (float_suffix st)) <= length (snd st))%nat.
Proof.
  unfold float_suffix. repeat break_if; try lia.
  - pose proof (adv_len (adv st)); pose proof (adv_len st); lia.
  - apply adv_len.
Qed.

Lemma exponent_len st : (length (snd (exponent st)) <= length (snd st))%nat.
Proof.
  unfold exponent. pose proof (adv_len st).
  break_if.
  - pose proof (adv_len (adv st)). pose proof (while_len is_digit (fst (adv (adv st))) (snd (adv (adv st)))). lia.
  - pose proof (while_len is_digit (fst (adv st)) (snd (adv st))). lia.
Qed.

Lemma number_len c s : (length (snd (number_ c s)) <= length s)%nat.
Proof.
  unfold number.
  break_if.
  - unfold number_hex. cbn [snd].
    pose proof (adv_len ([c], s)) as H1. cbn [snd] in H1.
    set (st1 := adv ([c], s)) in *.
    pose proof (while_len is_hex (fst st1) (snd st1)) as H2.
    pose proof (int_suffix_len (while is_hex (fst st1) (snd st1))). lia.
  - pose proof (while_len is_digit [c] s) as H1.
    set (st1 := while is_digit [c] s) in *.
    unfold number_dec, number_frac.
    repeat break_if; cbn [snd].
    + pose proof (adv_len st1). set (st2 := adv st1) in *.
      pose proof (while_len is_digit (fst st2) (snd st2)). set (st3 := while is_digit (fst st2) (snd st2)) in *.
      pose proof (exponent_len st3). pose proof (float_suffix_len (exponent st3)). lia.
    + pose proof (adv_len st1). set (st2 := adv st1) in *.
      pose proof (while_len is_digit (fst st2) (snd st2)). set (st3 := while is_digit (fst st2) (snd st2)) in *.
      pose proof (float_suffix_len st3). lia.
    + pose proof (exponent_len st1). pose proof (float_suffix_len (exponent st1)). lia.
    + pose proof (adv_len st1). pose proof (adv_len (adv st1)). lia.
    + pose proof (adv_len st1). lia.
    + pose proof (int_suffix_len st1). lia.
Qed.

Lemma identifier_len c s : (length (snd (identifier_ c s)) <= length s)%nat.
Proof. unfold identifier. cbn [snd]. apply while_len. Qed.

Lemma block_comment_len d s l c :
  (length (fst (fst (fst (block_comment d s l c)))) <= length s)%nat.
Proof.
  revert d l c. induction s as [s IH] using (well_founded_induction (well_founded_ltof _ (@length ch))).
  intros d l c. destruct d as [|d]; [destruct s; cbn; lia|].
  destruct s as [|c1 s1]; [cbn; lia|].
  cbn [block_comment].
  repeat break_if.
  - destruct s1 as [|c2 s2]; [cbn; lia|].
    specialize (IH s2). unfold ltof in IH. cbn [length] in *.
    specialize (IH ltac:(lia) (S (S d)) l (c + 2)). lia.
  - destruct s1 as [|c2 s2]; [cbn; lia|].
    specialize (IH s2). unfold ltof in IH. cbn [length] in *.
    specialize (IH ltac:(lia) d l (c + 2)). lia.
  - specialize (IH s1). unfold ltof in IH. cbn [length] in *.
    specialize (IH ltac:(lia) (S d) (l + 1) 1). lia.
  - specialize (IH s1). unfold ltof in IH. cbn [length] in *.
    specialize (IH ltac:(lia) (S d) l (c + 1)). lia.
Qed.

Lemma line_comment_len s c : (length (fst (line_comment s c)) <= length s)%nat.
Proof.
  revert c; induction s as [|c1 s IH]; intros c; cbn [line_comment]; [cbn; lia|].
  break_if; cbn [fst length]; [lia|]. specialize (IH (c + 1)). lia.
Qed.

Lemma tl_len (s : list ch) : (length (tl s) <= length s)%nat.
Proof. destruct s; cbn; lia. Qed.

Theorem scan_progress c s l col : (length (rest_of (scan c s l col)) <= length s)%nat.
Proof.
  unfold scan_token, one, two, three.
  repeat break_if'; cbn [rest_of]; try lia;
  try (destruct s as [|c2 [|c3 s]]; cbn [rest_of length tl]; lia).
  - pose proof (line_comment_len (tl s) (col + 2)). pose proof (tl_len s).
    destruct (line_comment (tl s) (col + 2)). cbn [rest_of fst] in *. lia.
  - pose proof (block_comment_len 1 (tl s) l (col + 2)). pose proof (tl_len s).
    destruct (block_comment 1 (tl s) l (col + 2)) as [[[r l'] c'] b]. cbn [rest_of fst] in *. lia.
  - pose proof (number_len c s). destruct (number_ c s) as [[k a] r]. cbn [rest_of snd] in *. lia.
  - pose proof (identifier_len c s). destruct (identifier_ c s) as [[k a] r]. cbn [rest_of snd] in *. lia.
Qed.

Theorem lex_fuel_enough fuel s l col o :
  (length s <= fuel)%nat -> lexf fuel s l col o <> None.
Proof.
  revert s l col o. induction fuel as [|f IH]; intros s l col o Hlen.
  - destruct s; [cbn; discriminate | cbn in Hlen; lia].
  - destruct s as [|c s]; [cbn; discriminate|].
    cbn [lex_fuel]. pose proof (scan_progress c s l col) as Hp.
    destruct (scan c s l col) as [k consumed rest | rest l' c' closed]; cbn [rest_of] in Hp.
    + specialize (IH rest l (col + Z.of_nat (length consumed)) false ltac:(cbn in Hlen; lia)).
      destruct (lexf f rest l (col + Z.of_nat (length consumed)) false) as [[ts fin]|]; congruence.
    + apply IH. cbn in Hlen; lia.
Qed.

Theorem lex_total s : lex is_letter keyword K s <> None.
Proof.
  unfold lex. pose proof (lex_fuel_enough (length s) s 1 1 false (le_n _)).
  destruct (lexf (length s) s 1 1 false) as [[ts [[l c] o]]|]; congruence.
Qed.

Theorem lex_token_count fuel s l col o ts fin :
  lexf fuel s l col o = Some (ts, fin) -> (length ts <= length s)%nat.
Proof.
  revert s l col o ts fin. induction fuel as [|f IH]; intros s l col o ts fin H.
  - destruct s; cbn in H; [inversion H; cbn; lia | discriminate].
  - destruct s as [|c s]; [cbn in H; inversion H; cbn; lia|].
    cbn [lex_fuel] in H. pose proof (scan_progress c s l col) as Hp.
    destruct (scan c s l col) as [k consumed rest | rest l' c' closed]; cbn [rest_of] in Hp.
    + destruct (lexf f rest l (col + Z.of_nat (length consumed)) false) as [[ts' fin']|] eqn:E; [|discriminate].
      inversion H; subst. apply IH in E. cbn [length]. lia.
    + apply IH in H. cbn [length]. lia.
Qed.

(* fuel beyond |s| changes nothing *)
Lemma lex_fuel_mono fuel s l col o r :
  lexf fuel s l col o = Some r -> forall fuel', (fuel <= fuel')%nat -> lexf fuel' s l col o = Some r.
Proof.
  revert s l col o r. induction fuel as [|f IH]; intros s l col o r H fuel' Hle.
  - destruct s; [|cbn in H; discriminate]. destruct fuel'; cbn in *; exact H.
  - destruct fuel' as [|f']; [lia|].
    destruct s as [|c s]; [cbn in *; exact H|].
    cbn [lex_fuel] in *.
    destruct (scan c s l col) as [k consumed rest | rest l' c' closed].
    + destruct (lexf f rest l (col + Z.of_nat (length consumed)) false) as [[ts fin]|] eqn:E; [|discriminate].
      rewrite (IH _ _ _ _ _ E f' ltac:(lia)). exact H.
    + apply IH with (fuel' := f') in H; [exact H | lia].
Qed.

End Proofs.
