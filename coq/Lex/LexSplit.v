(* Blank characters are hard token boundaries: for EVERY s1, s2
      tokens (s1 ++ blank :: s2) = tokens s1 ++ tokens s2     (kinds and lexemes)
   provided s1 does not end inside a comment.  This is the core of C19's
   "adding or removing whitespace between tokens" and of comment insertion
   (LexTrivia.v).  Also: token kinds/lexemes do not depend on the start position. *)
From Coq Require Import List ZArith Bool Lia.
Import ListNotations.
Require Import Naga.Lex.LexModel Naga.Lex.LexProofs.
Open Scope Z_scope.

Definition blank (r : Z) : bool := (r =? 32) || (r =? 13) || (r =? 9) || (r =? 10).

Lemma blank_cases r : blank r = true -> r = 32 \/ r = 13 \/ r = 9 \/ r = 10.
Proof. unfold blank. intros H. repeat (apply orb_prop in H; destruct H as [H|H]); apply Z.eqb_eq in H; auto. Qed.

Lemma bytes_cons c s : bytes (c :: s) = Z.pos (sz c) + bytes s.
Proof. reflexivity. Qed.

Lemma bytes_nonneg s : 0 <= bytes s.
Proof. induction s as [|c s IH]; [cbn; lia| rewrite bytes_cons; lia]. Qed.

Lemma peek_next_cons2 c1 c2 r : peek_next (c1 :: c2 :: r) = cp c2.
Proof.
  unfold peek_next. rewrite !bytes_cons. pose proof (bytes_nonneg r).
  destruct (Z.leb_spec (Z.pos (sz c1) + (Z.pos (sz c2) + bytes r)) 1); [lia|reflexivity].
Qed.

Lemma peek_next_single c : peek_next [c] = 0 \/ peek_next [c] = 65533.
Proof. unfold peek_next. destruct (bytes [c] <=? 1); auto. Qed.

Lemma peek_next_nil : peek_next [] = 0.
Proof. reflexivity. Qed.

Section Split.
Variable is_letter : Z -> bool.
Variable keyword : list Z -> option Z.
Variable K : kinds.
Hypothesis letter_0 : is_letter 0 = false.
Hypothesis letter_fffd : is_letter 65533 = false.
Hypothesis letter_32 : is_letter 32 = false.
Hypothesis letter_13 : is_letter 13 = false.
Hypothesis letter_9 : is_letter 9 = false.
Hypothesis letter_10 : is_letter 10 = false.

Notation scan := (scan_token is_letter keyword K).
Notation lexf := (lex_fuel is_letter keyword K).
Notation number_ := (number is_letter K).
Notation identifier_ := (identifier is_letter keyword K).

Variable w : ch.
Variable s2 : list ch.
Hypothesis Hw : blank (cp w) = true.
Let t := w :: s2.

Definition extst (st : list ch * list ch) : list ch * list ch := (fst st, snd st ++ t).

Definition ext (r : scan_result) : scan_result :=
  match r with
  | Tok k a rest => Tok k a (rest ++ t)
  | Skip rest l c cl => Skip (rest ++ t) l c cl
  end.

Ltac wcases := destruct (blank_cases _ Hw) as [Hc|[Hc|[Hc|Hc]]].

Ltac bsimp := rewrite ?andb_false_r, ?andb_true_r, ?orb_false_r, ?orb_true_r, ?andb_false_l, ?orb_false_l;
              cbn [andb orb negb].

Lemma while_app p acc s :
  p (cp w) = false -> while p acc (s ++ t) = extst (while p acc s).
Proof.
  intros Hp. revert acc. induction s as [|c s IH]; intros acc.
  - cbn [app]. unfold t at 1. cbn [while]. rewrite Hp. reflexivity.
  - cbn [app while]. destruct (p (cp c)); [apply IH | reflexivity].
Qed.

Lemma digit_w : is_digit (cp w) = false.
Proof. wcases; rewrite Hc; reflexivity. Qed.
Lemma hex_w : is_hex (cp w) = false.
Proof. wcases; rewrite Hc; reflexivity. Qed.
Lemma letter_w : is_letter (cp w) = false.
Proof. wcases; rewrite Hc; assumption. Qed.
Lemma ident_part_w : is_ident_part is_letter (cp w) = false.
Proof. unfold is_ident_part, is_alnum. rewrite letter_w, digit_w. wcases; rewrite Hc; reflexivity. Qed.

Lemma matches_app k s : blank k = false -> matches k (s ++ t) = matches k s.
Proof.
  intros Hk. destruct s as [|c s]; [|reflexivity]. cbn.
  destruct (Z.eqb_spec (cp w) k) as [E|E]; [|reflexivity]. rewrite <- E, Hw in Hk. discriminate.
Qed.

Lemma int_suffix_app st : int_suffix (extst st) = extst (int_suffix st).
Proof.
  destruct st as [acc s]. unfold int_suffix, extst. cbn [fst snd].
  destruct s as [|c1 [|c2 r]].
  - cbn [app peek]. unfold t. cbn [peek]. wcases; rewrite Hc; cbn; reflexivity.
  - cbn [app]. unfold t at 1 2 3. rewrite peek_next_cons2. cbn [peek].
    assert (Hn : ((peek_next [c1] =? 105) || (peek_next [c1] =? 117)) = false)
      by (destruct (peek_next_single c1) as [E|E]; rewrite E; reflexivity).
    rewrite Hn.
    assert (Hn' : ((cp w =? 105) || (cp w =? 117)) = false) by (wcases; rewrite Hc; reflexivity).
    rewrite Hn'. bsimp. destruct ((cp c1 =? 105) || (cp c1 =? 117)); reflexivity.
  - cbn [app]. rewrite !peek_next_cons2. cbn [peek].
    destruct ((cp c1 =? 108) && ((cp c2 =? 105) || (cp c2 =? 117))); [reflexivity|].
    destruct ((cp c1 =? 105) || (cp c1 =? 117)); reflexivity.
Qed.

Lemma float_suffix_app st : float_suffix (extst st) = extst (float_suffix st).
Proof.
  destruct st as [acc s]. unfold float_suffix, extst. cbn [fst snd].
  destruct s as [|c1 [|c2 r]].
  - cbn [app peek]. unfold t. cbn [peek]. wcases; rewrite Hc; cbn; reflexivity.
  - cbn [app]. unfold t at 1 2 3. rewrite peek_next_cons2. cbn [peek].
    assert (Hn : (peek_next [c1] =? 102) = false)
      by (destruct (peek_next_single c1) as [E|E]; rewrite E; reflexivity).
    rewrite Hn.
    assert (Hn' : (cp w =? 102) = false) by (wcases; rewrite Hc; reflexivity).
    rewrite Hn'. bsimp. destruct ((cp c1 =? 102) || (cp c1 =? 104)); reflexivity.
  - cbn [app]. rewrite !peek_next_cons2. cbn [peek].
    destruct ((cp c1 =? 108) && (cp c2 =? 102)); [reflexivity|].
    destruct ((cp c1 =? 102) || (cp c1 =? 104)); reflexivity.
Qed.

Lemma adv_app acc c s : adv (extst (acc, c :: s)) = extst (adv (acc, c :: s)).
Proof. reflexivity. Qed.

Lemma exponent_app st : snd st <> [] -> exponent (extst st) = extst (exponent st).
Proof.
  destruct st as [acc [|c s]]; [intros H; contradiction H; reflexivity|]. intros _.
  unfold exponent. rewrite adv_app. cbn [adv].
  unfold extst at 1 2 3. cbn [fst snd].
  assert (Hp : ((peek (s ++ t) =? 43) || (peek (s ++ t) =? 45)) = ((peek s =? 43) || (peek s =? 45))).
  { destruct s as [|c1 r]; [|reflexivity]. cbn. wcases; rewrite Hc; reflexivity. }
  unfold extst in Hp |- *. cbn [fst snd] in *. rewrite Hp.
  destruct ((peek s =? 43) || (peek s =? 45)).
  - destruct s as [|c1 r].
    + cbn [adv app]. unfold t at 1. cbn [adv fst snd]. exfalso. cbn in Hp. clear -Hp Hw.
      (* peek [] = 0: condition cannot be true *)
      revert Hp. wcases; rewrite Hc; cbn; discriminate.
    + cbn [app adv fst snd]. rewrite (while_app is_digit _ _ digit_w). reflexivity.
  - cbn [fst snd]. rewrite (while_app is_digit _ _ digit_w). reflexivity.
Qed.


Definition ext3 (r : Z * list ch * list ch) : Z * list ch * list ch :=
  let '(k, a, rest) := r in (k, a, rest ++ t).

Lemma peek_app_ne s k : blank k = false -> (peek (s ++ t) =? k) = (peek s =? k) \/ s = [].
Proof. destruct s; [right; reflexivity | left; reflexivity]. Qed.

Lemma peek_t_ne k : blank k = false -> (cp w =? k) = false.
Proof. intros Hk. destruct (Z.eqb_spec (cp w) k) as [E|E]; [|reflexivity]. rewrite <- E, Hw in Hk. discriminate. Qed.

Lemma peek_app_eq s k : blank k = false -> k <> 0 -> (peek (s ++ t) =? k) = (peek s =? k).
Proof.
  intros Hk H0. destruct s as [|c r]; [|reflexivity]. cbn [app peek]. unfold t. cbn [peek].
  rewrite (peek_t_ne k Hk). symmetry. apply Z.eqb_neq. lia.
Qed.

Lemma number_hex_app st : number_hex K (extst st) = ext3 (number_hex K st).
Proof.
  unfold number_hex. change (fst (extst st)) with (fst st). change (snd (extst st)) with (snd st ++ t).
  rewrite (while_app is_hex _ _ hex_w). rewrite int_suffix_app. reflexivity.
Qed.

Lemma number_frac_app st : number_frac K (extst st) = ext3 (number_frac K st).
Proof.
  unfold number_frac. change (fst (extst st)) with (fst st). change (snd (extst st)) with (snd st ++ t).
  rewrite (while_app is_digit _ _ digit_w).
  set (st3 := while is_digit (fst st) (snd st)).
  change (snd (extst st3)) with (snd st3 ++ t).
  rewrite !peek_app_eq by (reflexivity || lia).
  destruct ((peek (snd st3) =? 101) || (peek (snd st3) =? 69)) eqn:E.
  - rewrite exponent_app. { rewrite float_suffix_app. reflexivity. }
    intros Hn. rewrite Hn in E. discriminate.
  - rewrite float_suffix_app. reflexivity.
Qed.

Lemma number_dec_app st : number_dec is_letter K (extst st) = ext3 (number_dec is_letter K st).
Proof.
  unfold number_dec. change (snd (extst st)) with (snd st ++ t).
  rewrite !peek_app_eq by (reflexivity || lia).
  destruct st as [a1 s1]. cbn [snd].
  destruct s1 as [|d1 [|d2 r]].
  - (* nothing left after the digits *)
    cbn [peek]. replace (0 =? 46) with false by reflexivity.
    replace ((0 =? 101) || (0 =? 69)) with false by reflexivity.
    replace (0 =? 108) with false by reflexivity.
    replace ((0 =? 102) || (0 =? 104)) with false by reflexivity.
    cbn [andb]. rewrite int_suffix_app. reflexivity.
  - (* one rune left *)
    cbn [app]. unfold t at 1 2 3. rewrite !peek_next_cons2. cbn [peek].
    rewrite letter_w. rewrite !(peek_t_ne 95), !(peek_t_ne 102) by reflexivity.
    assert (Hl : is_letter (peek_next [d1]) = false) by (destruct (peek_next_single d1) as [E|E]; rewrite E; assumption).
    assert (H95 : (peek_next [d1] =? 95) = false) by (destruct (peek_next_single d1) as [E|E]; rewrite E; reflexivity).
    assert (H102 : (peek_next [d1] =? 102) = false) by (destruct (peek_next_single d1) as [E|E]; rewrite E; reflexivity).
    rewrite Hl, H95, H102. bsimp.
    change (w :: s2) with t. change (a1, d1 :: t) with (extst (a1, [d1])).
    destruct (cp d1 =? 46).
    { rewrite adv_app. apply number_frac_app. }
    destruct ((cp d1 =? 101) || (cp d1 =? 69)).
    { rewrite (exponent_app (a1, [d1])) by discriminate. rewrite float_suffix_app. reflexivity. }
    destruct ((cp d1 =? 102) || (cp d1 =? 104)).
    { reflexivity. }
    rewrite int_suffix_app. reflexivity.
  - (* at least two runes left: lookahead identical *)
    cbn [app]. rewrite !peek_next_cons2. cbn [peek].
    change (a1, d1 :: d2 :: r ++ t) with (extst (a1, d1 :: d2 :: r)).
    destruct ((cp d1 =? 46) && negb (is_letter (cp d2)) && negb (cp d2 =? 95)).
    { rewrite adv_app. apply number_frac_app. }
    destruct ((cp d1 =? 101) || (cp d1 =? 69)).
    { rewrite (exponent_app (a1, d1 :: d2 :: r)) by discriminate. rewrite float_suffix_app. reflexivity. }
    destruct ((cp d1 =? 108) && (cp d2 =? 102)); [reflexivity|].
    destruct ((cp d1 =? 102) || (cp d1 =? 104)); [reflexivity|].
    rewrite int_suffix_app. reflexivity.
Qed.

Lemma number_app c s : number_ c (s ++ t) = ext3 (number_ c s).
Proof.
  unfold number.
  assert (Hhex : ((match s ++ t with [] => false | _ => true end) && ((peek (s ++ t) =? 120) || (peek (s ++ t) =? 88)))
                 = ((match s with [] => false | _ => true end) && ((peek s =? 120) || (peek s =? 88)))).
  { destruct s as [|c0 s0]; [|reflexivity]. cbn [app andb]. unfold t. cbn [peek].
    rewrite !peek_t_ne by reflexivity. reflexivity. }
  rewrite <- !andb_assoc. rewrite Hhex.
  destruct ((cp c =? 48) && ((match s with [] => false | _ => true end) && ((peek s =? 120) || (peek s =? 88)))) eqn:E.
  - destruct s as [|c0 s0]; [rewrite andb_false_r in E; cbn in E; discriminate|].
    change (([c], (c0 :: s0) ++ t)) with (extst ([c], c0 :: s0)).
    rewrite adv_app. apply number_hex_app.
  - rewrite (while_app is_digit [c] s digit_w). apply number_dec_app.
Qed.

Lemma identifier_app c s : identifier_ c (s ++ t) = ext3 (identifier_ c s).
Proof.
  unfold identifier. rewrite (while_app _ [c] s ident_part_w). reflexivity.
Qed.

Lemma line_comment_app s col rest col' :
  line_comment s col = (rest, col') -> rest <> [] -> line_comment (s ++ t) col = (rest ++ t, col').
Proof.
  revert col. induction s as [|c s IH]; intros col H Hne.
  - cbn in H. inversion H; subst. contradiction Hne; reflexivity.
  - cbn [app line_comment] in *. destruct (cp c =? 10).
    + inversion H; subst. reflexivity.
    + apply IH; assumption.
Qed.

Lemma block_comment_app d s l col rest l' col' :
  block_comment d s l col = (rest, l', col', true) ->
  block_comment d (s ++ t) l col = (rest ++ t, l', col', true).
Proof.
  revert d l col. induction s as [s IH] using (well_founded_induction (well_founded_ltof _ (@length ch))).
  intros d l col H. destruct d as [|d].
  { destruct s; cbn in H; inversion H; subst; reflexivity. }
  destruct s as [|c1 s1]; [cbn in H; discriminate|].
  cbn [app]. cbn [block_comment] in H |- *.
  assert (Hpn : forall k, blank k = false -> k <> 0 -> k <> 65533 ->
           (peek_next (c1 :: s1 ++ t) =? k) = (peek_next (c1 :: s1) =? k)).
  { intros k Hk H0 Hf. destruct s1 as [|c2 s1'].
    - cbn [app]. unfold t. rewrite peek_next_cons2. rewrite (peek_t_ne k Hk).
      destruct (peek_next_single c1) as [E|E]; rewrite E; symmetry; apply Z.eqb_neq; lia.
    - cbn [app]. rewrite !peek_next_cons2. reflexivity. }
  rewrite !Hpn by (reflexivity || lia).
  destruct ((cp c1 =? 47) && (peek_next (c1 :: s1) =? 42)).
  { destruct s1 as [|c2 s2']; [discriminate|]. cbn [app].
    apply IH; [unfold ltof; cbn; lia | exact H]. }
  destruct ((cp c1 =? 42) && (peek_next (c1 :: s1) =? 47)).
  { destruct s1 as [|c2 s2']; [discriminate|]. cbn [app].
    apply IH; [unfold ltof; cbn; lia | exact H]. }
  destruct (cp c1 =? 10); (apply IH; [unfold ltof; cbn; lia | exact H]).
Qed.

Lemma block_comment_open d s l col rest l' col' :
  block_comment d s l col = (rest, l', col', false) -> rest = [].
Proof.
  revert d l col. induction s as [s IH] using (well_founded_induction (well_founded_ltof _ (@length ch))).
  intros d l col H. destruct d as [|d].
  { destruct s; cbn in H; discriminate. }
  destruct s as [|c1 s1]; [cbn in H; inversion H; reflexivity|].
  cbn [block_comment] in H.
  destruct ((cp c1 =? 47) && (peek_next (c1 :: s1) =? 42)).
  { destruct s1 as [|c2 s2']; [inversion H; reflexivity|].
    eapply IH; [|exact H]. unfold ltof; cbn; lia. }
  destruct ((cp c1 =? 42) && (peek_next (c1 :: s1) =? 47)).
  { destruct s1 as [|c2 s2']; [inversion H; reflexivity|].
    eapply IH; [|exact H]. unfold ltof; cbn; lia. }
  destruct (cp c1 =? 10); (eapply IH; [|exact H]; unfold ltof; cbn; lia).
Qed.


Definition closed_result (r : scan_result) : Prop :=
  match r with Skip _ _ _ false => False | _ => True end.

Lemma one_app k c s : one k c (s ++ t) = ext (one k c s).
Proof. reflexivity. Qed.

Lemma two_app k r c s : matches r s = true -> two k c (s ++ t) = ext (two k c s).
Proof. destruct s; [discriminate | reflexivity]. Qed.

Lemma three_app k r1 r2 c s :
  matches2 r1 r2 s = true -> three k c (s ++ t) = ext (three k c s).
Proof. destruct s as [|a [|b s]]; try discriminate; reflexivity. Qed.

Lemma matches2_app r1 r2 s : blank r1 = false -> blank r2 = false -> matches2 r1 r2 (s ++ t) = matches2 r1 r2 s.
Proof.
  intros H1 H2. destruct s as [|a [|b s]]; try reflexivity.
  - cbn [app]. unfold t. destruct s2; cbn [matches2]; [reflexivity | rewrite (peek_t_ne r1 H1); reflexivity].
  - cbn [app]. unfold t. cbn [matches2]. rewrite (peek_t_ne r2 H2). apply andb_false_r.
Qed.

Lemma tl_app (s : list ch) : s <> [] -> tl (s ++ t) = tl s ++ t.
Proof. destruct s; [intros H; contradiction H; reflexivity | reflexivity]. Qed.

Lemma matches_ne r s : matches r s = true -> s <> [].
Proof. destruct s; [discriminate | discriminate]. Qed.

Ltac fin_tok :=
  match goal with
  | |- one _ _ (_ ++ t) = _ => apply one_app
  | H : matches ?r ?s = true |- two _ _ (?s ++ t) = _ => apply (two_app _ r); exact H
  | H1 : matches2 ?r1 ?r2 ?s = true |- three _ _ (?s ++ t) = _ =>
      apply (three_app _ r1 r2); exact H1
  end.

Theorem scan_app c s l col :
  closed_result (scan c s l col) -> scan c (s ++ t) l col = ext (scan c s l col).
Proof.
  unfold scan_token.
  rewrite !(matches_app 61), !(matches_app 43), !(matches_app 45), !(matches_app 62),
          !(matches_app 47), !(matches_app 42), !(matches_app 60), !(matches_app 38),
          !(matches_app 124), !(matches2_app 60 61), !(matches2_app 62 61) by reflexivity.
  repeat (match goal with
          | |- closed_result (if ?b then _ else _) -> _ => destruct b eqn:?
          end; try (intros _; fin_tok)).
  - (* line comment *)
    match goal with H : matches 47 s = true |- _ => pose proof (matches_ne _ _ H) as Hne end.
    rewrite (tl_app s Hne).
    destruct (line_comment (tl s) (col + 2)) as [rest col'] eqn:E.
    destruct rest as [|r0 rest]; [intros Hc; contradiction Hc|]. intros _.
    rewrite (line_comment_app _ _ _ _ E) by discriminate. reflexivity.
  - (* block comment *)
    match goal with H : matches 42 s = true |- _ => pose proof (matches_ne _ _ H) as Hne end.
    rewrite (tl_app s Hne).
    destruct (block_comment 1 (tl s) l (col + 2)) as [[[rest l'] col'] cl] eqn:E.
    destruct cl; [|intros Hc; contradiction Hc]. intros _.
    rewrite (block_comment_app _ _ _ _ _ _ _ E). reflexivity.
  - intros _. reflexivity.
  - intros _. reflexivity.
  - intros _. rewrite number_app. destruct (number_ c s) as [[k a] r]. reflexivity.
  - intros _. rewrite identifier_app. destruct (identifier_ c s) as [[k a] r]. reflexivity.
Qed.

Lemma scan_open_rest c s l col rest l' col' :
  scan c s l col = Skip rest l' col' false -> rest = [].
Proof.
  unfold scan_token, one, two, three.
  repeat (match goal with |- (if ?b then _ else _) = _ -> _ => destruct b end;
          try discriminate;
          try (destruct s as [|? [|? ?]]; discriminate)).
  - destruct (line_comment (tl s) (col + 2)) as [r c'] eqn:E. destruct r; [|discriminate].
    intros H; inversion H; reflexivity.
  - destruct (block_comment 1 (tl s) l (col + 2)) as [[[r l0] c0] cl] eqn:E.
    intros H; inversion H; subst. eapply block_comment_open; exact E.
  - destruct (number_ c s) as [[k a] r]; discriminate.
Qed.

(* ------------------------------------------------------------------ *)
(* lexing s ++ t = lexing s, then lexing t from where s ended *)

Theorem lex_fuel_app f s l col o ts l' c' :
  lexf f s l col o = Some (ts, (l', c', false)) ->
  forall f2 ts2 fin, lexf f2 t l' c' false = Some (ts2, fin) ->
  lexf (f + f2) (s ++ t) l col o = Some (ts ++ ts2, fin).
Proof.
  revert s l col o ts. induction f as [|f IH]; intros s l col o ts H f2 ts2 fin H2.
  - destruct s; [|cbn in H; discriminate]. cbn in H. inversion H; subst. exact H2.
  - destruct s as [|c s].
    { cbn in H. inversion H; subst. cbn [app].
      eapply lex_fuel_mono; [exact H2 | lia]. }
    cbn [app]. change (S f + f2)%nat with (S (f + f2)). cbn [lex_fuel] in H |- *.
    destruct (scan c s l col) as [k consumed rest | rest l0 c0 closed] eqn:Es.
    + rewrite scan_app by (rewrite Es; exact I). rewrite Es. cbn [ext].
      destruct (lexf f rest l (col + Z.of_nat (length consumed)) false) as [[ts' fin']|] eqn:E; [|discriminate].
      inversion H; subst.
      rewrite (IH _ _ _ _ _ E f2 ts2 fin H2). reflexivity.
    + destruct closed.
      * rewrite scan_app by (rewrite Es; exact I). rewrite Es. cbn [ext].
        apply IH; assumption.
      * apply scan_open_rest in Es as Hr. subst rest.
        destruct f; cbn in H; inversion H.
Qed.

End Split.

(* ------------------------------------------------------------------ *)
(* token kinds and lexemes do not depend on where (line, column) lexing starts *)

Section PosIndep.
Variable is_letter : Z -> bool.
Variable keyword : list Z -> option Z.
Variable K : kinds.
Notation scan := (scan_token is_letter keyword K).
Notation lexf := (lex_fuel is_letter keyword K).

Definition strip (ts : list token) : list (Z * list ch) := map (fun x => (tkind x, tlex x)) ts.

Lemma line_comment_rest_indep s c1 c2 : fst (line_comment s c1) = fst (line_comment s c2).
Proof.
  revert c1 c2; induction s as [|c s IH]; intros c1 c2; cbn [line_comment]; [reflexivity|].
  destruct (cp c =? 10); [reflexivity | apply IH].
Qed.

Lemma block_comment_rest_indep d s l1 c1 l2 c2 :
  fst (fst (fst (block_comment d s l1 c1))) = fst (fst (fst (block_comment d s l2 c2))) /\
  snd (block_comment d s l1 c1) = snd (block_comment d s l2 c2).
Proof.
  revert d l1 c1 l2 c2. induction s as [s IH] using (well_founded_induction (well_founded_ltof _ (@length ch))).
  intros d l1 c1 l2 c2. destruct d as [|d]; [destruct s; cbn; auto|].
  destruct s as [|a s1]; [cbn; auto|].
  cbn [block_comment].
  destruct ((cp a =? 47) && (peek_next (a :: s1) =? 42)).
  { destruct s1 as [|b s2']; [cbn; auto|]. apply IH. unfold ltof; cbn; lia. }
  destruct ((cp a =? 42) && (peek_next (a :: s1) =? 47)).
  { destruct s1 as [|b s2']; [cbn; auto|]. apply IH. unfold ltof; cbn; lia. }
  destruct (cp a =? 10); apply IH; unfold ltof; cbn; lia.
Qed.

Definition same_shape (r1 r2 : scan_result) : Prop :=
  match r1, r2 with
  | Tok k a rest, Tok k' a' rest' => k = k' /\ a = a' /\ rest = rest'
  | Skip rest _ _ cl, Skip rest' _ _ cl' => rest = rest' /\ cl = cl'
  | _, _ => False
  end.

Lemma scan_pos_indep c s l1 c1 l2 c2 : same_shape (scan c s l1 c1) (scan c s l2 c2).
Proof.
  unfold scan_token, one, two, three.
  repeat (match goal with |- same_shape (if ?b then _ else _) _ => destruct b end;
          try (cbn; auto; fail);
          try (destruct s as [|? [|? ?]]; cbn; auto; fail)).
  - pose proof (line_comment_rest_indep (tl s) (c1 + 2) (c2 + 2)) as H.
    destruct (line_comment (tl s) (c1 + 2)), (line_comment (tl s) (c2 + 2)). cbn in *. subst. auto.
  - pose proof (block_comment_rest_indep 1 (tl s) l1 (c1 + 2) l2 (c2 + 2)) as [H H'].
    destruct (block_comment 1 (tl s) l1 (c1 + 2)) as [[[? ?] ?] ?],
             (block_comment 1 (tl s) l2 (c2 + 2)) as [[[? ?] ?] ?]. cbn in *. subst. auto.
  - destruct (number is_letter K c s) as [[? ?] ?]. cbn; auto.
Qed.

Theorem lex_pos_indep f s l1 c1 l2 c2 o ts1 fin1 :
  lexf f s l1 c1 o = Some (ts1, fin1) ->
  exists ts2 fin2, lexf f s l2 c2 o = Some (ts2, fin2) /\ strip ts1 = strip ts2 /\ snd fin1 = snd fin2.
Proof.
  revert s l1 c1 l2 c2 o ts1 fin1. induction f as [|f IH]; intros s l1 c1 l2 c2 o ts1 fin1 H.
  - destruct s; [|cbn in H; discriminate]. cbn in *. inversion H; subst. eauto.
  - destruct s as [|c s]; [cbn in *; inversion H; subst; eauto|].
    cbn [lex_fuel] in *. pose proof (scan_pos_indep c s l1 c1 l2 c2) as Hs.
    destruct (scan c s l1 c1) as [k a rest|rest la ca cl], (scan c s l2 c2) as [k' a' rest'|rest' lb cb cl'];
      cbn in Hs; try contradiction.
    + destruct Hs as [-> [-> ->]].
      destruct (lexf f rest' l1 (c1 + Z.of_nat (length a')) false) as [[ts fin]|] eqn:E; [|discriminate].
      inversion H; subst.
      destruct (IH _ _ _ l2 (c2 + Z.of_nat (length a')) _ _ _ E) as (ts2 & fin2 & E2 & Hst & Hfin).
      rewrite E2. eexists _, _. split; [reflexivity|]. split; [|exact Hfin].
      cbn [strip map tkind tlex]. f_equal. exact Hst.
    + destruct Hs as [-> ->]. eapply IH; exact H.
Qed.

End PosIndep.
