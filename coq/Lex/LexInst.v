(* The lexer model instantiated with the tables regenerated from /repo, and the
   obligations on those tables (re-checked by coqc whenever the source changes). *)
From Coq Require Import List ZArith Bool String Lia.
Import ListNotations.
Require Import Naga.Lex.LexModel Naga.Gen.LexTables.
Open Scope Z_scope.

Definition in_range (r : Z) (e : Z * Z * Z) : bool :=
  let '(lo, hi, stride) := e in (lo <=? r) && (r <=? hi) && ((r - lo) mod stride =? 0).

Definition is_letter (r : Z) : bool := existsb (in_range r) letter_ranges.

Fixpoint list_eqb (a b : list Z) : bool :=
  match a, b with
  | [], [] => true
  | x :: a', y :: b' => (x =? y) && list_eqb a' b'
  | _, _ => false
  end.

Fixpoint lookup (k : list Z) (tbl : list (list Z * Z)) : option Z :=
  match tbl with
  | [] => None
  | (k', v) :: tbl' => if list_eqb k k' then Some v else lookup k tbl'
  end.

Definition keyword (k : list Z) : option Z := lookup k keywords.

Definition lex_go (s : list ch) := lex is_letter keyword K s.

(* ---- obligations on the regenerated tables ---- *)

(* blank characters, NUL (peek at end of input) and U+FFFD (peekNext at end) are not letters *)
Lemma gen_letters_blind :
  forallb (fun r => negb (is_letter r)) [0; 9; 10; 13; 32; 65533; 95] = true.
Proof. vm_compute. reflexivity. Qed.

(* ASCII letters are letters, ASCII non-letters are not (what the grammar assumes) *)
Definition ascii_letter (r : Z) : bool := ((65 <=? r) && (r <=? 90)) || ((97 <=? r) && (r <=? 122)).
Lemma gen_letters_ascii :
  forallb (fun n => Bool.eqb (is_letter (Z.of_nat n)) (ascii_letter (Z.of_nat n))) (seq 0 128) = true.
Proof. vm_compute. reflexivity. Qed.

Definition kinds_list (k : kinds) : list Z :=
  [kEOF k; kError k; kIdent k; kInt k; kFloat k; kPlus k; kMinus k; kStar k; kSlash k; kPercent k; kAmp k;
   kPipe k; kCaret k; kTilde k; kBang k; kEqual k; kLess k; kGreater k; kDot k; kComma k; kColon k; kSemi k;
   kAt k; kArrow k; kPlusPlus k; kMinusMinus k; kEqEq k; kBangEq k; kLessEq k; kGreaterEq k; kAmpAmp k;
   kPipePipe k; kShl k; kShr k; kPlusEq k; kMinusEq k; kStarEq k; kSlashEq k; kPercentEq k; kAmpEq k;
   kPipeEq k; kCaretEq k; kShlEq k; kShrEq k; kLParen k; kRParen k; kLBrace k; kRBrace k; kLBracket k; kRBracket k].

Fixpoint nodupb (l : list Z) : bool :=
  match l with [] => true | x :: l' => negb (existsb (Z.eqb x) l') && nodupb l' end.

(* token kinds are pairwise distinct, and no keyword kind collides with a scanner kind *)
Lemma gen_kinds_distinct : nodupb (kinds_list K ++ map snd keywords) = true.
Proof. vm_compute. reflexivity. Qed.

Lemma gen_keywords_distinct_lexemes :
  (fix nd (l : list (list Z * Z)) := match l with [] => true
     | (k, _) :: l' => negb (existsb (fun e => list_eqb k (fst e)) l') && nd l' end) keywords = true.
Proof. vm_compute. reflexivity. Qed.

(* every keyword is spelled with identifier characters only, starting with a letter:
   so the identifier scanner is what produces it *)
Lemma gen_keywords_are_identifiers :
  forallb (fun e => match fst e with [] => false
                    | c :: r => is_ident_start is_letter c && forallb (is_ident_part is_letter) r end) keywords = true.
Proof. vm_compute. reflexivity. Qed.

(* the WGSL keywords (WGSL spec, "Keywords") that naga's grammar uses are all in the table *)
Definition str_cps (s : string) : list Z := map (fun a => Z.of_nat (Ascii.nat_of_ascii a)) (list_ascii_of_string s).
Definition spec_keywords : list string :=
  ["alias"; "break"; "case"; "const"; "const_assert"; "continue"; "continuing"; "default"; "diagnostic";
   "discard"; "else"; "enable"; "false"; "fn"; "for"; "if"; "let"; "loop"; "override"; "return"; "struct";
   "switch"; "true"; "var"; "while"]%string.
Lemma gen_spec_keywords_present :
  forallb (fun s => match keyword (str_cps s) with Some _ => true | None => false end) spec_keywords = true.
Proof. vm_compute. reflexivity. Qed.
