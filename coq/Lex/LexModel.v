(* Model of wgsl/internal/parser/lexer.go (all of it).  Definitions only.

   Input: the source as the list of runes Go's utf8.DecodeRuneInString yields,
   each with its byte width (an invalid byte is U+FFFD of width 1).  The model
   is parameterised by [is_letter] (Go's unicode.IsLetter) and by the keyword
   table; both are instantiated from coq/Gen (regenerated from /repo on every
   run) in LexInst.v. *)
From Coq Require Import List ZArith Bool Lia.
Import ListNotations.
Open Scope Z_scope.

Record ch := mkch { cp : Z; sz : positive }.

Record token := mktok { tkind : Z; tlex : list ch; tline : Z; tcol : Z }.

(* token kinds used by the scanner, by name; their numbers come from Gen *)
Record kinds := mkkinds {
  kEOF : Z; kError : Z; kIdent : Z; kInt : Z; kFloat : Z;
  kPlus : Z; kMinus : Z; kStar : Z; kSlash : Z; kPercent : Z; kAmp : Z; kPipe : Z;
  kCaret : Z; kTilde : Z; kBang : Z; kEqual : Z; kLess : Z; kGreater : Z; kDot : Z;
  kComma : Z; kColon : Z; kSemi : Z; kAt : Z; kArrow : Z; kPlusPlus : Z; kMinusMinus : Z;
  kEqEq : Z; kBangEq : Z; kLessEq : Z; kGreaterEq : Z; kAmpAmp : Z; kPipePipe : Z;
  kShl : Z; kShr : Z; kPlusEq : Z; kMinusEq : Z; kStarEq : Z; kSlashEq : Z; kPercentEq : Z;
  kAmpEq : Z; kPipeEq : Z; kCaretEq : Z; kShlEq : Z; kShrEq : Z;
  kLParen : Z; kRParen : Z; kLBrace : Z; kRBrace : Z; kLBracket : Z; kRBracket : Z }.

Definition bytes (s : list ch) : Z := fold_right (fun c n => Z.pos (sz c) + n) 0 s.

Definition peek (s : list ch) : Z := match s with [] => 0 | c :: _ => cp c end.

(* Lexer.peekNext: 0 when at most one byte remains; otherwise the rune after
   the current one, which is U+FFFD when the current rune is the last. *)
Definition peek_next (s : list ch) : Z :=
  if bytes s <=? 1 then 0
  else match s with _ :: c :: _ => cp c | _ => 65533 end.

Definition is_digit (r : Z) : bool := (48 <=? r) && (r <=? 57).
Definition is_hex (r : Z) : bool :=
  is_digit r || ((97 <=? r) && (r <=? 102)) || ((65 <=? r) && (r <=? 70)).

Section Lexer.
Variable is_letter : Z -> bool.
Variable keyword : list Z -> option Z.
Variable K : kinds.

Definition is_alnum (r : Z) : bool := is_letter r || is_digit r.
Definition is_ident_start (r : Z) : bool := is_letter r || (r =? 95).
Definition is_ident_part (r : Z) : bool := is_alnum r || (r =? 95).

(* `for p(l.peek()) { l.advance() }` : acc is the consumed text, reversed *)
Fixpoint while (p : Z -> bool) (acc s : list ch) : list ch * list ch :=
  match s with
  | c :: s' => if p (cp c) then while p (c :: acc) s' else (acc, s)
  | [] => (acc, [])
  end.

Definition adv (st : list ch * list ch) : list ch * list ch :=
  match st with (acc, c :: s') => (c :: acc, s') | (acc, []) => (acc, []) end.

(* optional integer suffix: li lu i u *)
Definition int_suffix (st : list ch * list ch) : list ch * list ch :=
  let s := snd st in
  if (peek s =? 108) && ((peek_next s =? 105) || (peek_next s =? 117)) then adv (adv st)
  else if (peek s =? 105) || (peek s =? 117) then adv st
  else st.

(* optional float suffix: lf f h *)
Definition float_suffix (st : list ch * list ch) : list ch * list ch :=
  let s := snd st in
  if (peek s =? 108) && (peek_next s =? 102) then adv (adv st)
  else if (peek s =? 102) || (peek s =? 104) then adv st
  else st.

Definition exponent (st : list ch * list ch) : list ch * list ch :=
  (* precondition: peek is e/E *)
  let st1 := adv st in
  let st2 := if (peek (snd st1) =? 43) || (peek (snd st1) =? 45) then adv st1 else st1 in
  while is_digit (fst st2) (snd st2).

(* Lexer.number; [first] is the digit already consumed.  Returns kind, consumed (reversed), rest *)
Definition number_hex (st1 : list ch * list ch) : Z * list ch * list ch :=
  (* st1: after consuming 0 and x *)
  let st2 := while is_hex (fst st1) (snd st1) in
  let st3 := int_suffix st2 in
  (kInt K, fst st3, snd st3).

Definition number_frac (st2 : list ch * list ch) : Z * list ch * list ch :=
  (* st2: after consuming the '.' *)
  let st3 := while is_digit (fst st2) (snd st2) in
  let st4 := if (peek (snd st3) =? 101) || (peek (snd st3) =? 69) then exponent st3 else st3 in
  let st5 := float_suffix st4 in
  (kFloat K, fst st5, snd st5).

Definition number_dec (st1 : list ch * list ch) : Z * list ch * list ch :=
  (* st1: after the leading decimal digits *)
  let s1 := snd st1 in
  if (peek s1 =? 46) && negb (is_letter (peek_next s1)) && negb (peek_next s1 =? 95) then
    number_frac (adv st1)
  else if (peek s1 =? 101) || (peek s1 =? 69) then
    let st3 := float_suffix (exponent st1) in
    (kFloat K, fst st3, snd st3)
  else if (peek s1 =? 108) && (peek_next s1 =? 102) then
    let st2 := adv (adv st1) in (kFloat K, fst st2, snd st2)
  else if (peek s1 =? 102) || (peek s1 =? 104) then
    let st2 := adv st1 in (kFloat K, fst st2, snd st2)
  else
    let st2 := int_suffix st1 in (kInt K, fst st2, snd st2).

Definition number (first : ch) (s : list ch) : Z * list ch * list ch :=
  if (cp first =? 48) && (match s with [] => false | _ => true end)
     && ((peek s =? 120) || (peek s =? 88)) then
    number_hex (adv ([first], s))
  else
    number_dec (while is_digit [first] s).

Definition identifier (first : ch) (s : list ch) : Z * list ch * list ch :=
  let st := while is_ident_part [first] s in
  let text := rev (fst st) in
  (match keyword (map cp text) with Some k => k | None => kIdent K end, fst st, snd st).

(* Lexer.blockComment.  Position bookkeeping: every advance does column++;
   a newline sets line++, column=0 before its advance.  Returns rest, line, col
   and whether the comment was closed. *)
Fixpoint block_comment (depth : nat) (s : list ch) (line col : Z) {struct s}
  : list ch * Z * Z * bool :=
  match depth with
  | O => (s, line, col, true)
  | S d =>
    match s with
    | [] => ([], line, col, false)
    | c1 :: s1 =>
      if (cp c1 =? 47) && (peek_next s =? 42) then
        match s1 with
        | _ :: s2 => block_comment (S depth) s2 line (col + 2)
        | [] => ([], line, col + 2, false)
        end
      else if (cp c1 =? 42) && (peek_next s =? 47) then
        match s1 with
        | _ :: s2 => block_comment d s2 line (col + 2)
        | [] => ([], line, col + 2, false)
        end
      else if cp c1 =? 10 then block_comment depth s1 (line + 1) 1
      else block_comment depth s1 line (col + 1)
    end
  end.

Fixpoint line_comment (s : list ch) (col : Z) : list ch * Z :=
  match s with
  | c :: s' => if cp c =? 10 then (s, col) else line_comment s' (col + 1)
  | [] => ([], col)
  end.

Inductive scan_result :=
| Tok (k : Z) (consumed_rev : list ch) (rest : list ch)       (* a token was added *)
| Skip (rest : list ch) (line col : Z) (closed : bool).      (* blank / comment *)

(* l.match(expected) on the rest *)
Definition matches (r : Z) (s : list ch) : bool :=
  match s with c :: _ => cp c =? r | [] => false end.

Definition matches2 (r1 r2 : Z) (s : list ch) : bool :=
  match s with c1 :: c2 :: _ => (cp c1 =? r1) && (cp c2 =? r2) | _ => false end.

Definition one (k : Z) (c : ch) (s : list ch) := Tok k [c] s.
Definition two (k : Z) (c : ch) (s : list ch) :=
  match s with c2 :: s' => Tok k [c2; c] s' | [] => Tok k [c] s end.
Definition three (k : Z) (c : ch) (s : list ch) :=
  match s with c2 :: c3 :: s' => Tok k [c3; c2; c] s' | _ => Tok k [c] s end.

(* Lexer.scanToken on c :: s at (line, col) *)
Definition scan_token (c : ch) (s : list ch) (line col : Z) : scan_result :=
  let r := cp c in
  if r =? 40 then one (kLParen K) c s
  else if r =? 41 then one (kRParen K) c s
  else if r =? 123 then one (kLBrace K) c s
  else if r =? 125 then one (kRBrace K) c s
  else if r =? 91 then one (kLBracket K) c s
  else if r =? 93 then one (kRBracket K) c s
  else if r =? 44 then one (kComma K) c s
  else if r =? 46 then one (kDot K) c s
  else if r =? 58 then one (kColon K) c s
  else if r =? 59 then one (kSemi K) c s
  else if r =? 64 then one (kAt K) c s
  else if r =? 126 then one (kTilde K) c s
  else if r =? 37 then if matches 61 s then two (kPercentEq K) c s else one (kPercent K) c s
  else if r =? 94 then if matches 61 s then two (kCaretEq K) c s else one (kCaret K) c s
  else if r =? 43 then
    if matches 43 s then two (kPlusPlus K) c s
    else if matches 61 s then two (kPlusEq K) c s else one (kPlus K) c s
  else if r =? 45 then
    if matches 45 s then two (kMinusMinus K) c s
    else if matches 61 s then two (kMinusEq K) c s
    else if matches 62 s then two (kArrow K) c s else one (kMinus K) c s
  else if r =? 42 then if matches 61 s then two (kStarEq K) c s else one (kStar K) c s
  else if r =? 47 then
    if matches 47 s then
      let '(rest, col') := line_comment (tl s) (col + 2) in Skip rest line col' (match rest with [] => false | _ => true end)
    else if matches 42 s then
      let '(rest, line', col', closed) := block_comment 1 (tl s) line (col + 2) in Skip rest line' col' closed
    else if matches 61 s then two (kSlashEq K) c s else one (kSlash K) c s
  else if r =? 61 then if matches 61 s then two (kEqEq K) c s else one (kEqual K) c s
  else if r =? 33 then if matches 61 s then two (kBangEq K) c s else one (kBang K) c s
  else if r =? 60 then
    if matches2 60 61 s then three (kShlEq K) c s
    else if matches 60 s then two (kShl K) c s
    else if matches 61 s then two (kLessEq K) c s else one (kLess K) c s
  else if r =? 62 then
    if matches2 62 61 s then three (kShrEq K) c s
    else if matches 62 s then two (kShr K) c s
    else if matches 61 s then two (kGreaterEq K) c s else one (kGreater K) c s
  else if r =? 38 then
    if matches 38 s then two (kAmpAmp K) c s
    else if matches 61 s then two (kAmpEq K) c s else one (kAmp K) c s
  else if r =? 124 then
    if matches 124 s then two (kPipePipe K) c s
    else if matches 61 s then two (kPipeEq K) c s else one (kPipe K) c s
  else if (r =? 32) || (r =? 13) || (r =? 9) then Skip s line (col + 1) true
  else if r =? 10 then Skip s (line + 1) 1 true
  else if is_digit r then let '(k, acc, rest) := number c s in Tok k acc rest
  else if is_ident_start r then let '(k, acc, rest) := identifier c s in Tok k acc rest
  else one (kError K) c s.

(* Lexer.Tokenize without the final EOF token.  Result: tokens and the final
   (line, column, open) where open = the input ended inside a line comment or
   an unterminated block comment.  None = out of fuel (never happens with
   fuel >= length s: LexProofs.lex_fuel_enough). *)
Fixpoint lex_fuel (fuel : nat) (s : list ch) (line col : Z) (open : bool)
  : option (list token * (Z * Z * bool)) :=
  match s with
  | [] => Some ([], (line, col, open))
  | c :: s' =>
    match fuel with
    | O => None
    | S f =>
      match scan_token c s' line col with
      | Tok k consumed rest =>
        let col' := col + Z.of_nat (length consumed) in
        match lex_fuel f rest line col' false with
        | Some (ts, fin) => Some (mktok k (rev consumed) line (col' - bytes consumed) :: ts, fin)
        | None => None
        end
      | Skip rest line' col' closed => lex_fuel f rest line' col' (negb closed)
      end
    end
  end.

Definition lex (s : list ch) : option (list token * bool) :=
  match lex_fuel (length s) s 1 1 false with
  | Some (ts, (l, c, o)) => Some (ts ++ [mktok (kEOF K) [] l c], o)
  | None => None
  end.

End Lexer.
