(* Trivia (blanks, line comments, nested block comments) produce no tokens,
   whatever follows them; together with LexSplit this gives the invariance of
   the token stream under re-spacing and (un)commenting, for ALL inputs. *)
From Coq Require Import List ZArith Bool Lia.
Import ListNotations.
Require Import Naga.Lex.LexModel Naga.Lex.LexProofs Naga.Lex.LexSplit.
Open Scope Z_scope.

Definition slash := mkch 47 1.
Definition star := mkch 42 1.

(* one piece of trivia, as source text *)
Inductive trivia :=
| TBlank (w : ch)                       (* space, tab, CR or LF *)
| TLine (text : list ch) (nl : ch)      (* // text LF            *)
| TBlock (body : list ch).              (* /* body   where body ends with the matching */ *)

Definition render1 (e : trivia) : list ch :=
  match e with
  | TBlank w => [w]
  | TLine text nl => slash :: slash :: text ++ [nl]
  | TBlock body => slash :: star :: body
  end.

(* the comment body closes the comment exactly at its end (nesting respected) *)
Definition closes (body : list ch) : bool :=
  match block_comment 1 body 1 1 with ([], _, _, true) => true | _ => false end.

Definition wf_trivia (e : trivia) : bool :=
  match e with
  | TBlank w => blank (cp w)
  | TLine text nl => forallb (fun c => negb (cp c =? 10)) text && (cp nl =? 10)
  | TBlock body => closes body
  end.

Definition render (tr : list trivia) : list ch := concat (map render1 tr).

Section Trivia.
Variable is_letter : Z -> bool.
Variable keyword : list Z -> option Z.
Variable K : kinds.
Notation scan := (scan_token is_letter keyword K).
Notation lexf := (lex_fuel is_letter keyword K).

Lemma fuel_irrel f1 f2 s l c o :
  (length s <= f1)%nat -> (length s <= f2)%nat -> lexf f1 s l c o = lexf f2 s l c o.
Proof.
  intros H1 H2.
  destruct (lexf (length s) s l c o) as [r|] eqn:E.
  - rewrite (lex_fuel_mono _ _ _ _ _ _ _ _ _ E f1 H1), (lex_fuel_mono _ _ _ _ _ _ _ _ _ E f2 H2). reflexivity.
  - exfalso. eapply lex_fuel_enough; [|exact E]. lia.
Qed.

Lemma line_comment_text text nl s col :
  forallb (fun c => negb (cp c =? 10)) text = true -> cp nl = 10 ->
  line_comment (text ++ nl :: s) col = (nl :: s, col + Z.of_nat (length text)).
Proof.
  revert col. induction text as [|c text IH]; intros col Ht Hn.
  - cbn. rewrite Hn. cbn. f_equal. lia.
  - cbn [forallb] in Ht. apply andb_prop in Ht as [Hc Ht]. cbn [app line_comment].
    apply negb_true_iff in Hc. rewrite Hc. rewrite IH by assumption. f_equal. cbn [length]. lia.
Qed.

(* a comment body that closes at its end closes there whatever follows *)
Lemma block_comment_app_any d body l col l' col' s :
  block_comment d body l col = ([], l', col', true) -> (0 < d)%nat ->
  exists l2 c2, block_comment d (body ++ s) l col = (s, l2, c2, true).
Proof.
  revert d l col. induction body as [body IH] using (well_founded_induction (well_founded_ltof _ (@length ch))).
  intros d l col H Hd. destruct d as [|d]; [lia|].
  destruct body as [|c1 s1]; [cbn in H; discriminate|].
  cbn [app]. cbn [block_comment] in H |- *.
  destruct s1 as [|c2 s1'].
  { (* a single rune cannot close the comment *)
    exfalso. destruct ((cp c1 =? 47) && (peek_next [c1] =? 42)); [discriminate|].
    destruct ((cp c1 =? 42) && (peek_next [c1] =? 47)); [discriminate|].
    destruct (cp c1 =? 10); cbn in H; discriminate. }
  cbn [app]. rewrite !peek_next_cons2 in *.
  destruct ((cp c1 =? 47) && (cp c2 =? 42)).
  { apply IH with (y := s1') in H; [exact H | unfold ltof; cbn; lia | lia]. }
  destruct ((cp c1 =? 42) && (cp c2 =? 47)).
  { destruct d as [|d'].
    - (* depth reaches 0 here: the rest of the body must be empty *)
      destruct s1' as [|x y]; cbn in H; [|discriminate]. cbn [app]. destruct s; cbn; eauto.
    - apply IH with (y := s1') in H; [exact H | unfold ltof; cbn; lia | lia]. }
  destruct (cp c1 =? 10);
    (apply IH with (y := c2 :: s1') in H; [exact H | unfold ltof; cbn; lia | lia]).
Qed.

Lemma scan_blank w s l col :
  blank (cp w) = true -> exists l' c', scan w s l col = Skip s l' c' true.
Proof.
  intros Hw. destruct (blank_cases _ Hw) as [Hc|[Hc|[Hc|Hc]]]; unfold scan_token; rewrite Hc; cbn; eauto.
Qed.

Theorem trivia1_skipped e s l c o :
  wf_trivia e = true ->
  exists n l' c', (1 <= n <= length (render1 e))%nat /\
    forall f, lexf (n + f) (render1 e ++ s) l c o = lexf f s l' c' false.
Proof.
  intros Hwf. destruct e as [w | text nl | body]; cbn [render1 app wf_trivia] in *.
  - destruct (scan_blank w s l c Hwf) as (l' & c' & E). exists 1%nat, l', c'. split; [cbn; lia|].
    intros f. cbn [Nat.add lex_fuel]. rewrite E. reflexivity.
  - apply andb_prop in Hwf as [Ht Hn]. apply Z.eqb_eq in Hn.
    destruct (scan_blank nl s l (c + 2 + Z.of_nat (length text)) ltac:(rewrite Hn; reflexivity)) as (l' & c' & E).
    exists 2%nat, l', c'. split; [cbn [length]; rewrite app_length; cbn; lia|].
    intros f. cbn [Nat.add lex_fuel]. unfold scan_token at 1. cbn [cp slash]. cbn [Z.eqb Pos.eqb matches cp slash tl].
    rewrite <- app_assoc. cbn [app].
    rewrite (line_comment_text text nl s _ Ht Hn). cbn [negb]. cbn [lex_fuel]. rewrite E. reflexivity.
  - unfold closes in Hwf.
    destruct (block_comment 1 body 1 1) as [[[r l0] c0] cl] eqn:E.
    destruct r; [|discriminate]. destruct cl; [|discriminate].
    pose proof (block_comment_rest_indep 1 body 1 1 l (c + 2)) as [Hr Hc]. rewrite E in Hr, Hc. cbn in Hr, Hc.
    destruct (block_comment 1 body l (c + 2)) as [[[r' l1] c1] cl'] eqn:E'. cbn in Hr, Hc. subst r' cl'.
    destruct (block_comment_app_any 1 body l (c + 2) l1 c1 s E' ltac:(lia)) as (l2 & c2 & E2).
    exists 1%nat, l2, c2. split; [cbn; lia|].
    intros f. cbn [Nat.add lex_fuel]. unfold scan_token. cbn [cp slash star]. cbn [Z.eqb Pos.eqb matches cp slash star tl].
    rewrite E2. reflexivity.
Qed.

(* kinds and lexemes of the tokens of s, and whether s ends inside a comment *)
Definition lex_strip (s : list ch) : list (Z * list ch) * bool :=
  match lexf (length s) s 1 1 false with
  | Some (ts, (_, _, o)) => (strip ts, o)
  | None => ([], false)
  end.

Lemma lex_strip_from f s l c ts fin :
  (length s <= f)%nat -> lexf f s l c false = Some (ts, fin) -> lex_strip s = (strip ts, snd fin).
Proof.
  intros Hf H. unfold lex_strip.
  rewrite (fuel_irrel (length s) f s 1 1 false) by lia.
  destruct (lex_pos_indep is_letter keyword K f s l c 1 1 false ts fin H) as (ts2 & fin2 & E2 & Hs & Hfin).
  rewrite E2. destruct fin2 as [[? ?] o2]. destruct fin as [[? ?] o1]. cbn in *. subst. rewrite Hs. reflexivity.
Qed.

Theorem trivia_skipped tr s :
  forallb wf_trivia tr = true -> lex_strip (render tr ++ s) = lex_strip s.
Proof.
  induction tr as [|e tr IH]; intros Hwf; [reflexivity|].
  cbn [forallb] in Hwf. apply andb_prop in Hwf as [He Htr].
  unfold render. cbn [map concat]. rewrite <- app_assoc. fold (render tr).
  rewrite <- (IH Htr). set (s' := render tr ++ s).
  destruct (trivia1_skipped e s' 1 1 false He) as (n & l' & c' & [Hn1 Hn2] & E).
  specialize (E (length (render1 e ++ s') - n)%nat).
  replace (n + (length (render1 e ++ s') - n))%nat with (length (render1 e ++ s')) in E
    by (rewrite app_length; lia).
  unfold lex_strip at 1. rewrite E.
  destruct (lexf (length (render1 e ++ s') - n) s' l' c' false) as [[ts fin]|] eqn:E2.
  - symmetry. destruct fin as [[a b] o].
    rewrite (lex_strip_from (length (render1 e ++ s') - n) s' l' c' ts (a, b, o)); [reflexivity | rewrite app_length; lia | exact E2].
  - exfalso. eapply lex_fuel_enough; [|exact E2]. rewrite app_length. lia.
Qed.

End Trivia.

(* ------------------------------------------------------------------ *)
(* the split theorem in lex_strip form *)
Section SplitStrip.
Variable is_letter : Z -> bool.
Variable keyword : list Z -> option Z.
Variable K : kinds.
Hypothesis letter_0 : is_letter 0 = false.
Hypothesis letter_fffd : is_letter 65533 = false.
Hypothesis letter_32 : is_letter 32 = false.
Hypothesis letter_13 : is_letter 13 = false.
Hypothesis letter_9 : is_letter 9 = false.
Hypothesis letter_10 : is_letter 10 = false.
Notation lexf := (lex_fuel is_letter keyword K).
Notation lstrip := (lex_strip is_letter keyword K).

Theorem blank_splits s1 w s2 :
  blank (cp w) = true -> snd (lstrip s1) = false ->
  lstrip (s1 ++ w :: s2) = (fst (lstrip s1) ++ fst (lstrip s2), snd (lstrip s2)).
Proof.
  intros Hw Hclosed.
  unfold lex_strip in Hclosed.
  destruct (lexf (length s1) s1 1 1 false) as [[ts1 [[l1 c1] o1]]|] eqn:E1;
    [|exfalso; eapply lex_fuel_enough; [|exact E1]; lia].
  cbn in Hclosed. subst o1.
  destruct (lexf (length (w :: s2)) (w :: s2) l1 c1 false) as [[ts2 fin2]|] eqn:E2;
    [|exfalso; eapply lex_fuel_enough; [|exact E2]; lia].
  pose proof (lex_fuel_app is_letter keyword K letter_0 letter_fffd letter_32 letter_13 letter_9 letter_10
                w s2 Hw _ _ _ _ _ _ _ _ E1 _ _ _ E2) as H.
  unfold lex_strip at 1. rewrite app_length. rewrite H.
  destruct fin2 as [[a b] o2]. unfold strip. rewrite map_app. fold (strip ts1) (strip ts2).
  (* tokens of w :: s2 from (l1,c1): w is skipped, then s2 *)
  destruct (scan_blank is_letter keyword K w s2 l1 c1 Hw) as (l' & c' & E3).
  cbn [length lex_fuel] in E2. rewrite E3 in E2. cbn [negb] in E2.
  rewrite (lex_strip_from is_letter keyword K _ s2 l' c' ts2 (a, b, o2) (le_n _) E2).
  unfold lex_strip. rewrite E1. reflexivity.
Qed.


(* A layout: pieces of source text, each followed by one blank and then any
   amount of further trivia.  Its token stream is the concatenation of the
   pieces' token streams -- the blanks/comments chosen do not matter. *)
Definition layout (ps : list (list ch * ch * list trivia)) : list ch :=
  concat (map (fun '(p, w, tr) => p ++ w :: render tr) ps).

Definition layout_ok (ps : list (list ch * ch * list trivia)) : Prop :=
  Forall (fun '(p, w, tr) => snd (lstrip p) = false /\ blank (cp w) = true /\ forallb wf_trivia tr = true) ps.

Theorem layout_tokens ps :
  layout_ok ps ->
  lstrip (layout ps) = (concat (map (fun '(p, _, _) => fst (lstrip p)) ps), false).
Proof.
  induction ps as [|[[p w] tr] ps IH]; intros Hok.
  - reflexivity.
  - inversion Hok as [|x xs Hx Hrest]; subst. cbn beta iota in Hx. destruct Hx as [Hp [Hw Htr]].
    unfold layout. cbn [map concat]. fold (layout ps). rewrite <- app_assoc. cbn [app].
    rewrite (blank_splits p w _ Hw Hp).
    rewrite (trivia_skipped is_letter keyword K tr (layout ps) Htr).
    rewrite (IH Hrest). reflexivity.
Qed.

Corollary respacing_invariance ps1 ps2 :
  layout_ok ps1 -> layout_ok ps2 ->
  map (fun '(p, _, _) => p) ps1 = map (fun '(p, _, _) => p) ps2 ->
  lstrip (layout ps1) = lstrip (layout ps2).
Proof.
  intros H1 H2 Hp. rewrite (layout_tokens ps1 H1), (layout_tokens ps2 H2). f_equal.
  clear H1 H2. revert ps2 Hp. induction ps1 as [|[[p w] tr] ps1 IH]; intros [|[[p' w'] tr'] ps2] Hp;
    try discriminate; [reflexivity|].
  cbn [map] in Hp. inversion Hp; subst. cbn [map concat]. f_equal. apply IH. assumption.
Qed.

End SplitStrip.
