(* C18: soundness of the checker run on real compiler output (tie V), and the hash
   written by ComputeRetailHash verifies. *)
From Coq Require Import List ZArith Bool Lia.
Import ListNotations.
Require Import Naga.Dxil.BitsModel Naga.Dxil.BitsProofs Naga.Dxil.BitstreamModel Naga.Dxil.BitstreamProofs Naga.Dxil.DxbcModel Naga.Dxil.DxbcProofs
               Naga.Dxil.Md5Model Naga.Dxil.MetaModel Naga.Dxil.MetaProofs Naga.Dxil.CheckModel.
Open Scope Z_scope.

Lemma list_eqb_eq : forall a b, list_eqb a b = true <-> a = b.
Proof.
  induction a as [|x a IH]; destruct b as [|y b]; cbn [list_eqb]; split; intros H; try discriminate; auto.
  - apply andb_prop in H. destruct H as [H1 H2]. apply Z.eqb_eq in H1. apply IH in H2. congruence.
  - inversion H; subst. rewrite Z.eqb_refl. cbn [andb]. apply IH. reflexivity.
Qed.

(* what an accepted container guarantees *)
Theorem check_container_sound : forall steps b r, check_container steps b = Some r ->
  exists d ps,
    parse b = Some (d, ps) /\ b = build d ps /\ zlen b = total_size ps /\ length d = 16%nat /\
    r_parts r = map (fun p => (p_fourcc p, zlen (p_data p))) ps /\
    (* digest field *)
    (r_digest r = DRetail -> d = retail_md5 steps (skipn 20 b)) /\
    (r_digest r = DBypass -> d = bypass_digest) /\
    (* HASH part *)
    (r_hash_part_ok r = true ->
       exists pd a h, find_part FourCC_DXIL ps = Some pd /\ parse_program (p_data pd) = Some a /\
                      find_part FourCC_HASH ps = Some h /\ p_data h = [0; 0; 0; 0] ++ md5 steps (pg_bitcode a)) /\
    (* bitstream and index check *)
    (forall l, r_stream r = Ok l ->
       exists pd a, find_part FourCC_DXIL ps = Some pd /\ parse_program (p_data pd) = Some a /\ dec_bytes (pg_bitcode a) = Ok l /\
                    bits_of_bytes (pg_bitcode a) = enc_stream l /\ items_wf l /\ items_fits 2 32 l) /\
    (r_meta r = Some (Some None) ->
       exists l refs, r_stream r = Ok l /\ meta_refs l = Some refs /\ Forall ref_in_range refs).
Proof.
  intros steps b r H. unfold check_container in H.
  destruct (parse b) as [[d ps]|] eqn:P; [|discriminate].
  destruct (parse_sound b d ps P) as (Hb & Hd & _ & _ & Ht & _).
  exists d, ps. inversion H; subst r; clear H.
  cbn [r_parts r_digest r_hash_part_ok r_stream r_meta].
  split; [reflexivity|]. split; [exact Hb|]. split; [congruence|]. split; [exact Hd|]. split; [reflexivity|].
  split; [|split; [|split; [|split]]].
  - unfold classify_digest. destruct (list_eqb d (retail_md5 steps (skipn 20 b))) eqn:E.
    + intros _. apply list_eqb_eq. exact E.
    + destruct (list_eqb d bypass_digest); discriminate.
  - unfold classify_digest. destruct (list_eqb d (retail_md5 steps (skipn 20 b))); [discriminate|].
    destruct (list_eqb d bypass_digest) eqn:E; [|discriminate]. intros _. apply list_eqb_eq. exact E.
  - unfold opt_bind. destruct (find_part FourCC_DXIL ps) as [pd|] eqn:F1; [|discriminate].
    destruct (parse_program (p_data pd)) as [a|] eqn:F2; [|discriminate].
    destruct (find_part FourCC_HASH ps) as [h|] eqn:F3; [|discriminate].
    intros E. apply list_eqb_eq in E. exists pd, a, h. unfold shader_hash_body in E. auto.
  - intros l. unfold opt_bind. destruct (find_part FourCC_DXIL ps) as [pd|] eqn:F1; [|discriminate].
    destruct (parse_program (p_data pd)) as [a|] eqn:F2; [|discriminate].
    intros E. exists pd, a. destruct (dec_bytes_sound _ _ E) as (? & _ & ? & ?). repeat split; auto.
  - unfold opt_bind. destruct (find_part FourCC_DXIL ps) as [pd|] eqn:F1; [|discriminate].
    destruct (parse_program (p_data pd)) as [a|] eqn:F2; [|discriminate].
    destruct (dec_bytes (pg_bitcode a)) as [l|e q] eqn:D; [|discriminate].
    intros E. assert (Hm : meta_ok l = true) by (unfold meta_ok; inversion E as [E']; rewrite E'; reflexivity).
    destruct (meta_check_sound l Hm) as (_ & _ & _ & refs & _ & _ & R & F).
    exists l, refs. auto.
Qed.

(* ---- the digest ComputeRetailHash writes verifies ---- *)

Lemma state_bytes_length : forall st, length (state_bytes st) = 16%nat.
Proof. intros [[[a b] c] d]. reflexivity. Qed.

Lemma retail_md5_length : forall steps data, length (retail_md5 steps data) = 16%nat.
Proof. intros. unfold retail_md5. apply state_bytes_length. Qed.

Lemma md5_length : forall steps data, length (md5 steps data) = 16%nat.
Proof. intros. unfold md5. apply state_bytes_length. Qed.

Lemma skipn_20_build : forall d ps, length d = 16%nat ->
  skipn 20 (build d ps) =
  le16 1 ++ le16 0 ++ le32 (total_size ps mod two32) ++ le32 (zlen ps mod two32) ++
  flat_map (fun o => le32 (o mod two32)) (part_offsets (header_size (zlen ps)) ps) ++ flat_map part_bytes ps.
Proof.
  intros d ps Hd. unfold build.
  destruct d as [|d0 [|d1 [|d2 [|d3 [|d4 [|d5 [|d6 [|d7 [|d8 [|d9 [|d10 [|d11 [|d12 [|d13 [|d14 [|d15 [|]]]]]]]]]]]]]]]]]; try discriminate.
  reflexivity.
Qed.

Theorem retail_hash_verifies : forall steps d ps, length d = 16%nat ->
  exists d', compute_retail_hash steps (build d ps) = build d' ps /\ length d' = 16%nat /\
             d' = retail_md5 steps (skipn 20 (build d' ps)) /\
             classify_digest steps (build d' ps) d' = DRetail.
Proof.
  intros steps d ps Hd.
  exists (retail_md5 steps (skipn 20 (build d ps))).
  pose proof (retail_md5_length steps (skipn 20 (build d ps))) as Hl.
  assert (Hlen : zlen (build d ps) <? 20 = false).
  { rewrite build_length by exact Hd. pose proof (parts_size_nonneg ps).
    unfold total_size, header_size, zlen. apply Z.ltb_ge. lia. }
  assert (Hsk : skipn 20 (build (retail_md5 steps (skipn 20 (build d ps))) ps) = skipn 20 (build d ps)).
  { rewrite !skipn_20_build by assumption. reflexivity. }
  split; [|split; [exact Hl|split]].
  - unfold compute_retail_hash. rewrite Hlen. apply set_digest_build; assumption.
  - rewrite Hsk. reflexivity.
  - unfold classify_digest. rewrite Hsk.
    replace (list_eqb _ _) with true; [reflexivity|]. symmetry. apply list_eqb_eq. reflexivity.
Qed.

Theorem bypass_hash_verifies : forall d ps, length d = 16%nat ->
  set_bypass_hash (build d ps) = build bypass_digest ps.
Proof. intros. unfold set_bypass_hash. apply set_digest_build; [assumption | reflexivity]. Qed.
