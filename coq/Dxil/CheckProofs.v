(* C18: soundness of the checker run on real compiler output (tie V), and the hash
   written by ComputeRetailHash verifies. *)
From Coq Require Import List ZArith Bool Lia Permutation.
From Coq Require String.
Import ListNotations.
Require Import Naga.Dxil.BitsModel Naga.Dxil.BitsProofs Naga.Dxil.BitstreamModel Naga.Dxil.BitstreamProofs Naga.Dxil.DxbcModel Naga.Dxil.DxbcProofs
               Naga.Dxil.Md5Model Naga.Dxil.MetaModel Naga.Dxil.MetaProofs Naga.Dxil.CheckModel.
Open Scope Z_scope.

Lemma list_eqb_eq : forall a b, list_eqb a b = true <-> a = b.
Proof.
  induction a as [|x a IH]; destruct b as [|y b]; cbn [list_eqb]; split; intros H; try discriminate; auto.
  - apply andb_prop in H. destruct H as [H1 H2]. apply Z.eqb_eq in H1. apply IH in H2. congruence.
  - inversion H; subst. rewrite Z.eqb_refl. cbn [andb]. apply IH. reflexivity.
Qed.

(* what an accepted container guarantees *)
Theorem check_container_sound : forall steps b r, check_container steps b = Some r ->
  exists d ps,
    parse b = Some (d, ps) /\ b = build d ps /\ zlen b = total_size ps /\ length d = 16%nat /\
    r_parts r = map (fun p => (p_fourcc p, zlen (p_data p))) ps /\
    (* digest field *)
    (r_digest r = DRetail -> d = retail_md5 steps (skipn 20 b)) /\
    (r_digest r = DBypass -> d = bypass_digest) /\
    (* HASH part *)
    (r_hash_part_ok r = true ->
       exists pd a h, find_part FourCC_DXIL ps = Some pd /\ parse_program (p_data pd) = Some a /\
                      find_part FourCC_HASH ps = Some h /\ p_data h = [0; 0; 0; 0] ++ md5 steps (pg_bitcode a)) /\
    (* bitstream and index check *)
    (forall l, r_stream r = Ok l ->
       exists pd a, find_part FourCC_DXIL ps = Some pd /\ parse_program (p_data pd) = Some a /\ dec_bytes (pg_bitcode a) = Ok l /\
                    bits_of_bytes (pg_bitcode a) = enc_stream l /\ items_wf l /\ items_fits 2 32 l) /\
    (r_meta r = Some (Some None) ->
       exists l refs, r_stream r = Ok l /\ meta_refs l = Some refs /\ Forall ref_in_range refs).
Proof.
  intros steps b r H. unfold check_container in H.
  destruct (parse b) as [[d ps]|] eqn:P; [|discriminate].
  destruct (parse_sound b d ps P) as (Hb & Hd & _ & _ & Ht & _).
  exists d, ps. inversion H; subst r; clear H.
  cbn [r_parts r_digest r_hash_part_ok r_stream r_meta].
  split; [reflexivity|]. split; [exact Hb|]. split; [congruence|]. split; [exact Hd|]. split; [reflexivity|].
  split; [|split; [|split; [|split]]].
  - unfold classify_digest. destruct (list_eqb d (retail_md5 steps (skipn 20 b))) eqn:E.
    + intros _. apply list_eqb_eq. exact E.
    + destruct (list_eqb d bypass_digest); discriminate.
  - unfold classify_digest. destruct (list_eqb d (retail_md5 steps (skipn 20 b))); [discriminate|].
    destruct (list_eqb d bypass_digest) eqn:E; [|discriminate]. intros _. apply list_eqb_eq. exact E.
  - unfold opt_bind. destruct (find_part FourCC_DXIL ps) as [pd|] eqn:F1; [|discriminate].
    destruct (parse_program (p_data pd)) as [a|] eqn:F2; [|discriminate].
    destruct (find_part FourCC_HASH ps) as [h|] eqn:F3; [|discriminate].
    intros E. apply list_eqb_eq in E. exists pd, a, h. unfold shader_hash_body in E. auto.
  - intros l. unfold opt_bind. destruct (find_part FourCC_DXIL ps) as [pd|] eqn:F1; [|discriminate].
    destruct (parse_program (p_data pd)) as [a|] eqn:F2; [|discriminate].
    intros E. exists pd, a. destruct (dec_bytes_sound _ _ E) as (? & _ & ? & ?). repeat split; auto.
  - unfold opt_bind. destruct (find_part FourCC_DXIL ps) as [pd|] eqn:F1; [|discriminate].
    destruct (parse_program (p_data pd)) as [a|] eqn:F2; [|discriminate].
    destruct (dec_bytes (pg_bitcode a)) as [l|e q] eqn:D; [|discriminate].
    intros E. assert (Hm : meta_ok l = true) by (unfold meta_ok; inversion E as [E']; rewrite E'; reflexivity).
    destruct (meta_check_sound l Hm) as (_ & _ & _ & refs & _ & _ & R & F).
    exists l, refs. auto.
Qed.

(* ---- the digest ComputeRetailHash writes verifies ---- *)

Lemma state_bytes_length : forall st, length (state_bytes st) = 16%nat.
Proof. intros [[[a b] c] d]. reflexivity. Qed.

Lemma retail_md5_length : forall steps data, length (retail_md5 steps data) = 16%nat.
Proof. intros. unfold retail_md5. apply state_bytes_length. Qed.

Lemma md5_length : forall steps data, length (md5 steps data) = 16%nat.
Proof. intros. unfold md5. apply state_bytes_length. Qed.

Lemma skipn_20_build : forall d ps, length d = 16%nat ->
  skipn 20 (build d ps) =
  le16 1 ++ le16 0 ++ le32 (total_size ps mod two32) ++ le32 (zlen ps mod two32) ++
  flat_map (fun o => le32 (o mod two32)) (part_offsets (header_size (zlen ps)) ps) ++ flat_map part_bytes ps.
Proof.
  intros d ps Hd. unfold build.
  destruct d as [|d0 [|d1 [|d2 [|d3 [|d4 [|d5 [|d6 [|d7 [|d8 [|d9 [|d10 [|d11 [|d12 [|d13 [|d14 [|d15 [|]]]]]]]]]]]]]]]]]; try discriminate.
  reflexivity.
Qed.

Theorem retail_hash_verifies : forall steps d ps, length d = 16%nat ->
  exists d', compute_retail_hash steps (build d ps) = build d' ps /\ length d' = 16%nat /\
             d' = retail_md5 steps (skipn 20 (build d' ps)) /\
             classify_digest steps (build d' ps) d' = DRetail.
Proof.
  intros steps d ps Hd.
  exists (retail_md5 steps (skipn 20 (build d ps))).
  pose proof (retail_md5_length steps (skipn 20 (build d ps))) as Hl.
  assert (Hlen : zlen (build d ps) <? 20 = false).
  { rewrite build_length by exact Hd. pose proof (parts_size_nonneg ps).
    unfold total_size, header_size, zlen. apply Z.ltb_ge. lia. }
  assert (Hsk : skipn 20 (build (retail_md5 steps (skipn 20 (build d ps))) ps) = skipn 20 (build d ps)).
  { rewrite !skipn_20_build by assumption. reflexivity. }
  split; [|split; [exact Hl|split]].
  - unfold compute_retail_hash. rewrite Hlen. apply set_digest_build; assumption.
  - rewrite Hsk. reflexivity.
  - unfold classify_digest. rewrite Hsk.
    replace (list_eqb _ _) with true; [reflexivity|]. symmetry. apply list_eqb_eq. reflexivity.
Qed.

Theorem bypass_hash_verifies : forall d ps, length d = 16%nat ->
  set_bypass_hash (build d ps) = build bypass_digest ps.
Proof. intros. unfold set_bypass_hash. apply set_digest_build; [assumption | reflexivity]. Qed.


(* ---- the element-level consistency rules of the interface parts (PSV0 vs itself, PSV0 vs
   ISG1 / OSG1 / PSG1) mean what they say ---- *)

Lemma key_eqb_eq : forall a b, key_eqb a b = true -> a = b.
Proof.
  intros [[[[a1 a2] a3] a4] a5] [[[[b1 b2] b3] b4] b5] H. unfold key_eqb in H.
  repeat (apply andb_prop in H; destruct H as [H ?]).
  repeat match goal with E : (_ =? _) = true |- _ => apply Z.eqb_eq in E end. congruence.
Qed.

Lemma remove_key_perm : forall k l l', remove_key k l = Some l' -> Permutation l (k :: l').
Proof.
  intros k l. induction l as [|x l IH]; intros l' H; cbn [remove_key] in H; [discriminate|].
  destruct (key_eqb k x) eqn:E.
  - apply key_eqb_eq in E. inversion H; subst. apply Permutation_refl.
  - destruct (remove_key k l) as [r|] eqn:R; [|discriminate]. inversion H; subst.
    eapply perm_trans; [apply perm_skip; apply IH; reflexivity|]. apply perm_swap.
Qed.

(* accepted = the two key lists are rearrangements of each other *)
Lemma perm_check_sound : forall a b, perm_check a b = true -> Permutation a b.
Proof.
  induction a as [|k a IH]; intros b H; cbn [perm_check] in H.
  - destruct b; [constructor | discriminate].
  - destruct (remove_key k b) as [b'|] eqn:R; [|discriminate].
    apply Permutation_sym. eapply perm_trans; [apply remove_key_perm; exact R|].
    apply perm_skip. apply Permutation_sym. apply IH. exact H.
Qed.

Lemma max_top_nonneg : forall l, 0 <= max_top l.
Proof. induction l as [|e l IH]; cbn [max_top fold_right]; [lia|]. fold (max_top l). lia. Qed.

(* the vector count the rules demand is an upper bound of every element's top row ... *)
Lemma max_top_upper : forall l e, In e l -> pe_top e <= max_top l.
Proof.
  induction l as [|x l IH]; intros e H; [contradiction|]. cbn [max_top fold_right]. fold (max_top l).
  destruct H as [->|H]; [lia|]. specialize (IH e H). lia.
Qed.

(* ... and it is attained by an allocated element (or no row is used at all) *)
Lemma max_top_attained : forall l, max_top l = 0 \/ exists e, In e l /\ pe_alloc e = true /\ pe_start_row e + pe_rows e = max_top l.
Proof.
  induction l as [|x l IH]; [left; reflexivity|]. cbn [max_top fold_right]. fold (max_top l).
  pose proof (max_top_nonneg l) as Hn.
  destruct (Z.max_spec (pe_top x) (max_top l)) as [[Hlt ->]|[Hge ->]].
  - destruct IH as [IH|(e & Hin & Ha & He)]; [left; exact IH|]. right. exists e. split; [right; exact Hin|]. split; assumption.
  - unfold pe_top in *. destruct (pe_alloc x) eqn:A.
    + right. exists x. split; [left; reflexivity|]. split; [exact A | reflexivity].
    + left. reflexivity.
Qed.

Lemma max_top_covers : forall l e, In e l -> pe_alloc e = true -> pe_start_row e + pe_rows e <= max_top l.
Proof. intros l e Hin Ha. pose proof (max_top_upper l e Hin) as H. unfold pe_top in H. rewrite Ha in H. exact H. Qed.

Lemma no_overlap_sound : forall l, no_overlap l = true -> ForallOrdPairs (fun a b => pe_overlap a b = false) l.
Proof.
  induction l as [|x l IH]; intros H; [constructor|]. cbn [no_overlap] in H. apply andb_prop in H. destruct H as [H1 H2].
  constructor; [|apply IH; exact H2].
  rewrite forallb_forall in H1. apply Forall_forall. intros y Hy. specialize (H1 y Hy). apply negb_true_iff in H1. exact H1.
Qed.

Lemma first_failed_none : forall l, first_failed l = None -> Forall (fun x : bool * String.string => fst x = true) l.
Proof.
  induction l as [|x l IH]; intros H; [constructor|]. cbn [first_failed fold_right] in H. fold (first_failed l) in H.
  destruct (fst x) eqn:E; [|discriminate]. constructor; [exact E | apply IH; exact H].
Qed.

Lemma first_err_none : forall l, first_err l = None -> Forall (fun x : option String.string => x = None) l.
Proof.
  induction l as [|x l IH]; intros H; [constructor|]. cbn [first_err fold_right] in H. fold (first_err l) in H.
  destruct x; [discriminate|]. constructor; [reflexivity | apply IH; exact H].
Qed.

(* what the rules establish about the signature elements PSV0 stores *)
Record sig_consistent (s : psv_sigs) (isg osg : list sig_elem) (psg : option (list sig_elem)) : Prop := mkSigConsistent {
  (* every element lies inside the rows / lanes / semantic index table it claims *)
  sc_fits : Forall (fun e => pe_fits (ps_nsem s) e = true) (ps_ins s ++ ps_outs s ++ ps_patch s);
  (* SigInputVectors = 1 + the highest row an allocated input element reaches (0 if none) *)
  sc_vin : ps_vin s = max_top (ps_ins s);
  sc_vin_covers : forall e, In e (ps_ins s) -> pe_alloc e = true -> pe_start_row e + pe_rows e <= ps_vin s;
  sc_vin_tight : ps_vin s = 0 \/ exists e, In e (ps_ins s) /\ pe_alloc e = true /\ pe_start_row e + pe_rows e = ps_vin s;
  (* SigOutputVectors[stream] likewise, per output stream *)
  sc_vouts : Forall (fun p => snd p = max_top (on_stream (fst p) (ps_outs s))) (combine [0; 1; 2; 3] (ps_vouts s));
  sc_vouts_cover : forall k v e, In (k, v) (combine [0; 1; 2; 3] (ps_vouts s)) -> In e (ps_outs s) -> pe_stream e = k ->
                   pe_alloc e = true -> pe_start_row e + pe_rows e <= v;
  (* no two allocated elements of a signature claim the same lane of the same row *)
  sc_disjoint : ForallOrdPairs (fun a b => pe_overlap a b = false) (ps_ins s) /\
                ForallOrdPairs (fun a b => pe_overlap a b = false) (ps_outs s) /\
                ForallOrdPairs (fun a b => pe_overlap a b = false) (ps_patch s);
  (* element for element (up to order) PSV0 and the signature parts agree on stream, register row,
     component lanes, component type and semantic index *)
  sc_isg : Permutation (map pe_key (ps_ins s)) (map se_key isg);
  sc_osg : Permutation (map pe_key (ps_outs s)) (map se_key osg);
  sc_psg : forall l, psg = Some l -> Permutation (map pe_key (ps_patch s)) (map se_key l)
}.

Lemma sig_rules_list_sound : forall s isg osg psg,
  first_failed (sig_rules_list s isg osg psg) = None -> sig_consistent s isg osg psg.
Proof.
  intros s isg osg psg H. apply first_failed_none in H. unfold sig_rules_list in H.
  repeat match goal with H : Forall _ (_ :: _) |- _ => inversion H; subst; clear H end.
  cbn [fst] in *.
  match goal with H : (ps_vin s =? _) = true |- _ => apply Z.eqb_eq in H; rename H into Hvin end.
  match goal with H : vectors_ok _ _ = true |- _ => rename H into Hvo end.
  match goal with H : forallb (pe_fits _) _ = true |- _ => rename H into Hfit end.
  match goal with H : (_ && _ && _)%bool = true |- _ =>
    apply andb_prop in H; destruct H as [H Hov3]; apply andb_prop in H; destruct H as [Hov1 Hov2] end.
  assert (Hvouts : Forall (fun p => snd p = max_top (on_stream (fst p) (ps_outs s))) (combine [0; 1; 2; 3] (ps_vouts s))).
  { unfold vectors_ok in Hvo. rewrite forallb_forall in Hvo. apply Forall_forall. intros p Hp. apply Z.eqb_eq. apply Hvo. exact Hp. }
  constructor.
  - rewrite forallb_forall in Hfit. apply Forall_forall. exact Hfit.
  - exact Hvin.
  - intros e Hin Ha. rewrite Hvin. apply max_top_covers; assumption.
  - rewrite Hvin. apply max_top_attained.
  - exact Hvouts.
  - intros k v e Hkv Hin Hs Ha. rewrite Forall_forall in Hvouts. specialize (Hvouts (k, v) Hkv). cbn [fst snd] in Hvouts. subst v.
    apply max_top_covers; [|exact Ha]. unfold on_stream. apply filter_In. split; [exact Hin|]. apply Z.eqb_eq. exact Hs.
  - repeat split; apply no_overlap_sound; assumption.
  - apply perm_check_sound. assumption.
  - apply perm_check_sound. assumption.
  - intros l ->. apply perm_check_sound. assumption.
Qed.

Definition psv_declares_elements (pv : list Z) : bool := 0 <? u8_at pv 32 + u8_at pv 33 + u8_at pv 34.

Theorem sig_rules_sound : forall isg osg psg pv, sig_rules isg osg psg pv = None ->
  (psv_declares_elements pv = true ->
     sig_consistent (psv_sigs_of pv) (sig_part_elems isg) (sig_part_elems osg)
                    (match psg with Some d => Some (sig_part_elems d) | None => None end)) /\
  (psv_declares_elements pv = false ->
     ps_vin (psv_sigs_of pv) = 0 /\ Forall (fun v => v = 0) (ps_vouts (psv_sigs_of pv))).
Proof.
  intros isg osg psg pv H. unfold sig_rules in H. unfold psv_declares_elements.
  destruct (0 <? u8_at pv 32 + u8_at pv 33 + u8_at pv 34) eqn:E.
  - split; [|discriminate]. intros _. apply sig_rules_list_sound. exact H.
  - split; [discriminate|]. intros _.
    destruct (forallb (Z.eqb 0) (ps_vin (psv_sigs_of pv) :: ps_vouts (psv_sigs_of pv))) eqn:F; [|discriminate].
    cbn [forallb] in F. apply andb_prop in F. destruct F as [F1 F2]. apply Z.eqb_eq in F1. split; [congruence|].
    rewrite forallb_forall in F2. apply Forall_forall. intros v Hv. specialize (F2 v Hv). apply Z.eqb_eq in F2. congruence.
Qed.

(* an accepted interface check: the three parts exist and the element rules hold between them *)
Theorem sig_check_sound : forall ps kind, snd (sig_check ps kind) = None ->
  exists pi po pv, find_part FourCC_ISG1 ps = Some pi /\ find_part FourCC_OSG1 ps = Some po /\ find_part FourCC_PSV0 ps = Some pv /\
    sig_rules (p_data pi) (p_data po) (match find_part FourCC_PSG1 ps with Some pp => Some (p_data pp) | None => None end) (p_data pv) = None.
Proof.
  intros ps kind H. unfold sig_check in H.
  destruct (find_part FourCC_ISG1 ps) as [pi|] eqn:F1; [|discriminate].
  destruct (find_part FourCC_OSG1 ps) as [po|] eqn:F2; [|destruct (sig_part_check (p_data pi)); discriminate].
  destruct (find_part FourCC_PSV0 ps) as [pv|] eqn:F3;
    [|destruct (sig_part_check (p_data pi)); destruct (sig_part_check (p_data po)); discriminate].
  destruct (sig_part_check (p_data pi)) as [nin ein]. destruct (sig_part_check (p_data po)) as [nout eout].
  destruct (psv_part_check (p_data pv)) as [info epsv]. cbn [snd] in H.
  apply first_err_none in H.
  repeat match goal with H : Forall _ (_ :: _) |- _ => inversion H; subst; clear H end.
  exists pi, po, pv. repeat split; try reflexivity. assumption.
Qed.

Theorem check_container_sig_sound : forall steps b r, check_container steps b = Some r -> snd (r_sig r) = None ->
  exists d ps pi po pv,
    parse b = Some (d, ps) /\ b = build d ps /\
    find_part FourCC_ISG1 ps = Some pi /\ find_part FourCC_OSG1 ps = Some po /\ find_part FourCC_PSV0 ps = Some pv /\
    let psg := match find_part FourCC_PSG1 ps with Some pp => Some (sig_part_elems (p_data pp)) | None => None end in
    (psv_declares_elements (p_data pv) = true ->
       sig_consistent (psv_sigs_of (p_data pv)) (sig_part_elems (p_data pi)) (sig_part_elems (p_data po)) psg) /\
    (psv_declares_elements (p_data pv) = false ->
       ps_vin (psv_sigs_of (p_data pv)) = 0 /\ Forall (fun v => v = 0) (ps_vouts (psv_sigs_of (p_data pv)))).
Proof.
  intros steps b r H Hs. unfold check_container in H.
  destruct (parse b) as [[d ps]|] eqn:P; [|discriminate].
  destruct (parse_sound b d ps P) as (Hb & _).
  inversion H; subst r; clear H. cbn [r_sig] in Hs.
  destruct (sig_check_sound _ _ Hs) as (pi & po & pv & F1 & F2 & F3 & R).
  exists d, ps, pi, po, pv. repeat (split; [first [reflexivity | assumption]|]).
  cbv zeta. destruct (sig_rules_sound _ _ _ _ R) as [A B].
  destruct (find_part FourCC_PSG1 ps); split; assumption.
Qed.
