(* C18: bit-level vocabulary shared by the bitstream writer model, the abstract
   encoder and the reader.  Definitions only. *)
From Coq Require Import List ZArith Bool Lia.
Import ListNotations.
Open Scope Z_scope.

(* w bits of v, least significant first (the order in which bitcode/writer.go
   puts them on the wire: WriteBits ors `data << bufBits`). *)
Fixpoint bits_of (w : nat) (v : Z) : list bool :=
  match w with
  | O => []
  | S w' => Z.odd v :: bits_of w' (Z.div2 v)
  end.

Fixpoint val_of (l : list bool) : Z :=
  match l with
  | [] => 0
  | b :: l' => Z.b2z b + 2 * val_of l'
  end.

Definition zeros (n : nat) : list bool := repeat false n.

(* little-endian bytes <-> bits *)
Definition bits_of_bytes (l : list Z) : list bool := flat_map (bits_of 8) l.

Definition le32 (v : Z) : list Z :=
  [v mod 256; (v / 256) mod 256; (v / 65536) mod 256; (v / 16777216) mod 256].

Definition le16 (v : Z) : list Z := [v mod 256; (v / 256) mod 256].

Fixpoint le_val (l : list Z) : Z :=
  match l with
  | [] => 0
  | b :: l' => b + 256 * le_val l'
  end.

(* number of zero bits Align32 inserts at bit position p *)
Definition padlen (p : Z) : nat := Z.to_nat ((32 - p mod 32) mod 32).

(* take w bits off the front *)
Fixpoint take (w : nat) (bs : list bool) : option (list bool * list bool) :=
  match w with
  | O => Some ([], bs)
  | S w' =>
    match bs with
    | [] => None
    | b :: bs' =>
      match take w' bs' with
      | Some (h, t) => Some (b :: h, t)
      | None => None
      end
    end
  end.

Fixpoint all_false (l : list bool) : bool :=
  match l with
  | [] => true
  | b :: l' => negb b && all_false l'
  end.
