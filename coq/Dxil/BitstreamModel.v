(* C18: model of dxil/internal/bitcode/writer.go (LLVM 3.7 bitstream writer),
   an abstract encoder of block/record trees, and a reader for the format.
   Definitions only.

   Three layers:
   1. the WRITER MACHINE: state and operations transcribed from writer.go
      (data bytes, 64-bit accumulator `buf`, `bufBits`, abbreviation width,
      block stack with size offsets, length back-patch in ExitBlock);
   2. the ABSTRACT ENCODER: bit lists for VBR values, records and nested
      blocks (the block length is written directly);
   3. the READER: position-tracking decoder of the same format (magic,
      abbreviation ids, ENTER_SUBBLOCK/END_BLOCK, alignment, block lengths,
      UNABBREV_RECORD); abbreviation ids >= 4 and DEFINE_ABBREV are rejected
      because the writer defines no abbreviations (serialize.go uses
      EmitRecord only). *)
From Coq Require Import List ZArith Bool Lia.
Import ListNotations.
Require Import Naga.Dxil.BitsModel.
Open Scope Z_scope.

(* ------------------------------------------------------------------ *)
(* 1. Writer machine (writer.go)                                       *)

Definition two32 := 4294967296.
Definition two64 := 18446744073709551616.

Record wstate := mkW {
  wdata : list Z;            (* data []byte *)
  wbuf : Z;                  (* buf uint64 *)
  wbits : Z;                 (* bufBits uint *)
  waw : Z;                   (* abbrevWidth uint *)
  wblocks : list (Z * Z)     (* blocks: (outer abbrevWidth, sizeOffset), innermost first *)
}.

Definition new_writer (aw : Z) : wstate := mkW [] 0 0 aw [].

(* Go shifts: x << s and x >> s on a 64-bit unsigned, s an arbitrary uint *)
Definition shl64 (x s : Z) : Z := if s <? 64 then (x * 2 ^ s) mod two64 else 0.
Definition shr64 (x s : Z) : Z := if s <? 64 then x / 2 ^ s else 0.
Definition shl32 (x s : Z) : Z := if s <? 32 then (x * 2 ^ s) mod two32 else 0.

(* flushDword *)
Definition flush_dword (s : wstate) : wstate :=
  mkW (wdata s ++ le32 (wbuf s mod two32)) (wbuf s / two32) (wbits s - 32) (waw s) (wblocks s).

(* WriteBits(data uint32, width uint) *)
Definition write_bits (s : wstate) (d w : Z) : wstate :=
  let s1 := mkW (wdata s) (Z.lor (wbuf s) (shl64 d (wbits s))) (wbits s + w) (waw s) (wblocks s) in
  if wbits s1 >=? 32 then flush_dword s1 else s1.

(* WriteFixed(value uint64, width uint); width-32 is computed on uint (wraps) *)
Definition write_fixed (s : wstate) (v w : Z) : wstate :=
  if w =? 0 then s
  else if v >? 4294967295
       then write_bits (write_bits s (v mod two32) w) ((v / two32) mod two32) ((w - 32) mod two64)
       else write_bits s (v mod two32) w.

(* WriteVBR(value uint64, width uint): tag := uint32(1) << (width-1); mask := tag-1;
   the loop runs while value > mask.  Go does not terminate for width = 1 and
   value > 0: the model returns None when the fuel (65 iterations) runs out. *)
Definition vbr_sh (w : Z) : Z := (w - 1) mod two64.
Definition vbr_tag (w : Z) : Z := shl32 1 (vbr_sh w).
Definition vbr_mask (w : Z) : Z := (vbr_tag w - 1) mod two32.

Fixpoint write_vbr_go (fuel : nat) (s : wstate) (v w : Z) : option wstate :=
  if v >? vbr_mask w then
    match fuel with
    | O => None
    | S f => write_vbr_go f (write_bits s (Z.lor (Z.land v (vbr_mask w)) (vbr_tag w)) w) (shr64 v (vbr_sh w)) w
    end
  else Some (write_bits s (v mod two32) w).

Definition write_vbr (s : wstate) (v w : Z) : option wstate := write_vbr_go 65 s v w.

(* EncodeSignedVBR(value int64) uint64 *)
Definition encode_signed_vbr (v : Z) : Z :=
  if v >=? 0 then (v * 2) mod two64 else Z.lor (((- v) mod two64 * 2) mod two64) 1.

(* EncodeChar6; None = panic *)
Definition encode_char6 (c : Z) : option Z :=
  if (97 <=? c) && (c <=? 122) then Some (c - 97)
  else if (65 <=? c) && (c <=? 90) then Some (26 + (c - 65))
  else if (48 <=? c) && (c <=? 57) then Some (52 + (c - 48))
  else if c =? 46 then Some 62
  else if c =? 95 then Some 63
  else None.

Definition is_char6 (c : Z) : bool :=
  ((97 <=? c) && (c <=? 122)) || ((65 <=? c) && (c <=? 90)) || ((48 <=? c) && (c <=? 57)) || (c =? 46) || (c =? 95).

(* Align32 *)
Definition align32 (s : wstate) : wstate :=
  if wbits s >? 0 then flush_dword (mkW (wdata s) (wbuf s) 32 (waw s) (wblocks s)) else s.

Definition emit_abbrev_id (s : wstate) (id : Z) : wstate := write_bits s id (waw s).

Definition bind {A B} (o : option A) (f : A -> option B) : option B :=
  match o with Some x => f x | None => None end.

(* EnterBlock(blockID, abbrevLen) *)
Definition enter_block (s : wstate) (id nw : Z) : option wstate :=
  bind (write_vbr (emit_abbrev_id s 1) id 8) (fun s1 =>
  bind (write_vbr s1 nw 4) (fun s2 =>
  let s3 := align32 s2 in
  Some (mkW (wdata s3 ++ [0; 0; 0; 0]) (wbuf s3) (wbits s3) nw
            ((waw s3, Z.of_nat (length (wdata s3))) :: wblocks s3)))).

(* binary.LittleEndian.PutUint32(data[off:], v) *)
Definition patch32 (data : list Z) (off : Z) (v : Z) : list Z :=
  firstn (Z.to_nat off) data ++ le32 v ++ skipn (Z.to_nat off + 4) data.

(* ExitBlock; None = index-out-of-range panic on an empty block stack *)
Definition exit_block (s : wstate) : option wstate :=
  let s1 := align32 (emit_abbrev_id s 0) in
  match wblocks s1 with
  | [] => None
  | (oaw, off) :: rest =>
    let body_start := off + 4 in
    let body_size := Z.of_nat (length (wdata s1)) - body_start in
    let word_size := Z.quot body_size 4 in
    Some (mkW (patch32 (wdata s1) off (word_size mod two32)) (wbuf s1) (wbits s1) oaw rest)
  end.

Fixpoint write_vbrs (s : wstate) (vs : list Z) (w : Z) : option wstate :=
  match vs with
  | [] => Some s
  | v :: vs' => bind (write_vbr s v w) (fun s' => write_vbrs s' vs' w)
  end.

(* EmitRecord(code, values) *)
Definition emit_record (s : wstate) (code : Z) (vals : list Z) : option wstate :=
  bind (write_vbr (emit_abbrev_id s 3) code 6) (fun s1 =>
  bind (write_vbr s1 (Z.of_nat (length vals)) 6) (fun s2 =>
  write_vbrs s2 vals 6)).

(* Bytes() *)
Definition writer_bytes (s : wstate) : list Z := wdata (if wbits s >? 0 then align32 s else s).

Inductive wop :=
| OBits (d w : Z)
| OFixed (v w : Z)
| OVbr (v w : Z)
| OChar6 (c : Z)
| OAlign
| OEnter (id nw : Z)
| OExit
| ORecord (code : Z) (vals : list Z)
| OBlob (code : Z) (vals : list Z) (blob : list Z).

Definition run_op (s : wstate) (o : wop) : option wstate :=
  match o with
  | OBits d w => Some (write_bits s d w)
  | OFixed v w => Some (write_fixed s v w)
  | OVbr v w => write_vbr s v w
  | OChar6 c => bind (encode_char6 c) (fun e => Some (write_bits s e 6))
  | OAlign => Some (align32 s)
  | OEnter id nw => enter_block s id nw
  | OExit => exit_block s
  | ORecord code vals => emit_record s code vals
  | OBlob code vals blob => emit_record s code (vals ++ blob)
  end.

Fixpoint run_ops (s : wstate) (ops : list wop) : option wstate :=
  match ops with
  | [] => Some s
  | o :: ops' => bind (run_op s o) (fun s' => run_ops s' ops')
  end.

(* run with Len() observed after every op (what the Go hook reports) *)
Fixpoint run_ops_lens (s : wstate) (ops : list wop) (acc : list Z) : option (wstate * list Z) :=
  match ops with
  | [] => Some (s, rev acc)
  | o :: ops' => bind (run_op s o) (fun s' => run_ops_lens s' ops' (Z.of_nat (length (wdata s')) :: acc))
  end.

(* ------------------------------------------------------------------ *)
(* 2. Abstract encoder                                                 *)

(* VBR(w) of v >= 0: chunks of w-1 data bits, high bit = continuation *)
Fixpoint enc_vbr_fuel (fuel : nat) (w : nat) (v : Z) : list bool :=
  let m := 2 ^ Z.of_nat (w - 1) in
  match fuel with
  | O => bits_of w v
  | S f => if v <? m then bits_of w v
           else bits_of w (v mod m + m) ++ enc_vbr_fuel f w (v / m)
  end.

Definition enc_vbr (w : nat) (v : Z) : list bool := enc_vbr_fuel (S (Z.to_nat (Z.log2 v))) w v.

(* a bitstream tree: records and nested blocks *)
Inductive item :=
| Rec (code : Z) (ops : list Z)
| Blk (id : Z) (aw : nat) (body : list item).

Definition enc_ops (ops : list Z) : list bool := flat_map (enc_vbr 6) ops.

Definition enc_record (w : nat) (code : Z) (ops : list Z) : list bool :=
  bits_of w 3 ++ enc_vbr 6 code ++ enc_vbr 6 (Z.of_nat (length ops)) ++ enc_ops ops.

Definition blk_header (w : nat) (id : Z) (nw : nat) : list bool :=
  bits_of w 1 ++ enc_vbr 8 id ++ enc_vbr 4 (Z.of_nat nw).

(* position at which the body of a block starts when its header starts at pos:
   header, padding to a 32-bit boundary, 32-bit length word *)
Definition blk_body_start (w : nat) (pos : Z) (id : Z) (nw : nat) : Z :=
  let p1 := pos + Z.of_nat (length (blk_header w id nw)) in
  p1 + Z.of_nat (padlen p1) + 32.

(* a block whose header starts at absolute bit position pos, given the
   encoding `body` of its items (which start at blk_body_start) *)
Definition enc_block (w : nat) (pos : Z) (id : Z) (nw : nat) (body : list bool) : list bool :=
  let hdr := blk_header w id nw in
  let p1 := pos + Z.of_nat (length hdr) in
  let inner := body ++ bits_of nw 0 in
  let pad2 := zeros (padlen (blk_body_start w pos id nw + Z.of_nat (length inner))) in
  hdr ++ zeros (padlen p1) ++ bits_of 32 ((Z.of_nat (length (inner ++ pad2)) / 32) mod two32) ++ inner ++ pad2.

(* items one after the other, each encoded by f at its own position *)
Definition enc_list_with (f : Z -> item -> list bool) : list item -> Z -> list bool :=
  fix go (l : list item) (p : Z) : list bool :=
    match l with
    | [] => []
    | x :: l' => f p x ++ go l' (p + Z.of_nat (length (f p x)))
    end.

(* encoding of an item that starts at absolute bit position pos *)
Fixpoint enc_item (w : nat) (pos : Z) (it : item) {struct it} : list bool :=
  match it with
  | Rec code ops => enc_record w code ops
  | Blk id nw body => enc_block w pos id nw (enc_list_with (enc_item nw) body (blk_body_start w pos id nw))
  end.

Definition enc_items (w : nat) (pos : Z) (l : list item) : list bool := enc_list_with (enc_item w) l pos.

Definition magic_bits : list bool := bits_of 8 66 ++ bits_of 8 67 ++ bits_of 8 192 ++ bits_of 8 222.

(* the whole stream: 'B' 'C' 0xC0 0xDE, then items at abbreviation width 2 *)
Definition enc_stream (l : list item) : list bool := magic_bits ++ enc_items 2 32 l.

(* writer operations that serialize a tree (what serialize.go does with the writer) *)
Fixpoint ops_of_item (it : item) {struct it} : list wop :=
  match it with
  | Rec code ops => [ORecord code ops]
  | Blk id nw body =>
    OEnter id (Z.of_nat nw) ::
    (fix go (l : list item) : list wop :=
       match l with [] => [] | x :: l' => ops_of_item x ++ go l' end) body ++ [OExit]
  end.

Fixpoint ops_of_items (l : list item) : list wop :=
  match l with [] => [] | x :: l' => ops_of_item x ++ ops_of_items l' end.

Definition magic_ops : list wop := [OBits 66 8; OBits 67 8; OBits 192 8; OBits 222 8].

(* Serialize's use of the writer: NewWriter(2), magic, the tree, Bytes() *)
Definition serialize_tree (l : list item) : option (list Z) :=
  bind (run_ops (new_writer 2) (magic_ops ++ ops_of_items l)) (fun s => Some (writer_bytes s)).

(* ------------------------------------------------------------------ *)
(* 3. Reader                                                           *)

Definition rstate := (Z * list bool)%type.   (* absolute bit position, remaining bits *)

Definition rtake (w : nat) (r : rstate) : option (list bool * rstate) :=
  match take w (snd r) with
  | Some (h, t) => Some (h, (fst r + Z.of_nat w, t))
  | None => None
  end.

Definition read_fixed (w : nat) (r : rstate) : option (Z * rstate) :=
  match rtake w r with Some (h, r') => Some (val_of h, r') | None => None end.

(* VBR(w): bit by bit; k = data bits left in the current chunk, pw = weight of the next
   data bit.  Only the canonical encoding is accepted: a chunk after the first one must
   carry a non-zero data part when it is the last (first = this is the first chunk,
   nz = a 1 was seen in the data bits of the current chunk). *)
Fixpoint read_vbr_bits (w : nat) (k : nat) (first nz : bool) (pw acc : Z) (n : Z) (bs : list bool) : option (Z * Z * list bool) :=
  match bs with
  | [] => None
  | b :: bs' =>
    match k with
    | O => if b then read_vbr_bits w (w - 1) false false pw acc (n + 1) bs'
           else if first || nz then Some (acc, n + 1, bs') else None
    | S k' => read_vbr_bits w k' first (nz || b) (2 * pw) (acc + Z.b2z b * pw) (n + 1) bs'
    end
  end.

Definition read_vbr (w : nat) (r : rstate) : option (Z * rstate) :=
  match read_vbr_bits w (w - 1) true false 1 0 0 (snd r) with
  | Some (v, n, bs') => Some (v, (fst r + n, bs'))
  | None => None
  end.

(* LLVM's decodeSignRotatedValue on 64 bits, result as a signed integer *)
Definition decode_signed_vbr (u : Z) : Z :=
  if Z.even u then u / 2
  else if u =? 1 then - 2 ^ 63
  else - (u / 2).

Definition decode_char6 (e : Z) : Z :=
  if e <? 26 then e + 97 else if e <? 52 then e - 26 + 65 else if e <? 62 then e - 52 + 48
  else if e =? 62 then 46 else 95.

(* skip to the next 32-bit boundary; the padding must be zero *)
Definition read_align (r : rstate) : option rstate :=
  match rtake (padlen (fst r)) r with
  | Some (h, r') => if all_false h then Some r' else None
  | None => None
  end.

Fixpoint read_ops (fuel : nat) (n : Z) (r : rstate) : option (list Z * rstate) :=
  if n <=? 0 then Some ([], r)
  else match fuel with
       | O => None
       | S f =>
         match read_vbr 6 r with
         | Some (v, r1) =>
           match read_ops f (n - 1) r1 with
           | Some (vs, r2) => Some (v :: vs, r2)
           | None => None
           end
         | None => None
         end
       end.

(* why a stream was rejected *)
Inductive rerr :=
| EFuel | ETruncated | EEndAtTop | EDefineAbbrev | EUndefAbbrev (id : Z) | EBadAbbrevWidth (w : Z)
| EBadPadding | EBlockLen (declared actual : Z) | EMagic | EUnaligned.

Inductive res (A : Type) := Ok (x : A) | Err (e : rerr) (pos : Z).
Arguments Ok {A}. Arguments Err {A}.

(* one item at the front of r (known to be non-empty), then the remaining items
   through `rec` (the reader with less fuel) *)
Definition dec_body (ops_fuel : nat) (rec : bool -> nat -> rstate -> res (list item * rstate))
                    (top : bool) (w : nat) (r : rstate) : res (list item * rstate) :=
  match read_fixed w r with
  | None => Err ETruncated (fst r)
  | Some (id, r1) =>
    if id =? 0 then
      if top then Err EEndAtTop (fst r)
      else match read_align r1 with
           | Some r2 => Ok ([], r2)
           | None => Err EBadPadding (fst r1)
           end
    else if id =? 1 then
      match read_vbr 8 r1 with
      | None => Err ETruncated (fst r1)
      | Some (bid, r2) =>
        match read_vbr 4 r2 with
        | None => Err ETruncated (fst r2)
        | Some (nw, r3) =>
          if (nw <? 2) || (nw >? 32) then Err (EBadAbbrevWidth nw) (fst r2) else
          match read_align r3 with
          | None => Err EBadPadding (fst r3)
          | Some r4 =>
            match read_fixed 32 r4 with
            | None => Err ETruncated (fst r4)
            | Some (len, r5) =>
              match rec false (Z.to_nat nw) r5 with
              | Err e p => Err e p
              | Ok (body, r6) =>
                if fst r6 =? fst r5 + 32 * len then
                  match rec top w r6 with
                  | Err e p => Err e p
                  | Ok (rest, r7) => Ok (Blk bid (Z.to_nat nw) body :: rest, r7)
                  end
                else Err (EBlockLen len ((fst r6 - fst r5) / 32)) (fst r4)
              end
            end
          end
        end
      end
    else if id =? 2 then Err EDefineAbbrev (fst r)
    else if id =? 3 then
      match read_vbr 6 r1 with
      | None => Err ETruncated (fst r1)
      | Some (code, r2) =>
        match read_vbr 6 r2 with
        | None => Err ETruncated (fst r2)
        | Some (n, r3) =>
          match read_ops ops_fuel n r3 with
          | None => Err ETruncated (fst r3)
          | Some (ops, r4) =>
            match rec top w r4 with
            | Err e p => Err e p
            | Ok (rest, r5) => Ok (Rec code ops :: rest, r5)
            end
          end
        end
      end
    else Err (EUndefAbbrev id) (fst r)
  end.

(* items of one block (top = false: until END_BLOCK) or of the top level
   (top = true: until the input is exhausted) *)
Fixpoint dec_items (fuel : nat) (top : bool) (w : nat) (r : rstate) : res (list item * rstate) :=
  match fuel with
  | O => Err EFuel (fst r)
  | S f =>
    match snd r with
    | [] => if top then Ok ([], r) else Err ETruncated (fst r)
    | _ :: _ => dec_body f (dec_items f) top w r
    end
  end.

Definition dec_stream_fuel (fuel : nat) (bs : list bool) : res (list item) :=
  match take 32 bs with
  | None => Err EMagic 0
  | Some (m, rest) =>
    if val_of m =? 3737142082 (* 0xDEC04342 = 'B' 'C' 0xC0 0xDE little endian *) then
      match dec_items fuel true 2 (32, rest) with
      | Ok (l, _) => Ok l
      | Err e p => Err e p
      end
    else Err EMagic 0
  end.

Definition dec_stream (bs : list bool) : res (list item) := dec_stream_fuel (S (length bs)) bs.

(* reading the bytes the compiler returned: length must be a multiple of 4 *)
Definition dec_bytes (l : list Z) : res (list item) :=
  if Z.of_nat (length l) mod 4 =? 0 then dec_stream (bits_of_bytes l) else Err EUnaligned (8 * Z.of_nat (length l)).

(* sizes used as fuel bounds *)
Fixpoint item_size (it : item) : nat :=
  match it with
  | Rec _ ops => S (length ops)
  | Blk _ _ body => S ((fix go (l : list item) : nat := match l with [] => 1%nat | x :: l' => (item_size x + go l')%nat end) body)
  end.

Fixpoint items_size (l : list item) : nat :=
  match l with [] => 1%nat | x :: l' => (item_size x + items_size l')%nat end.

(* every block's body length in 32-bit words fits the uint32 length field
   ("block size always fits in uint32", writer.go ExitBlock) *)
Definition block_words (w : nat) (pos : Z) (id : Z) (nw : nat) (body : list bool) : Z :=
  let inner := body ++ bits_of nw 0 in
  Z.of_nat (length (inner ++ zeros (padlen (blk_body_start w pos id nw + Z.of_nat (length inner))))) / 32.

Definition fits_list_with (f : Z -> item -> Prop) (g : Z -> item -> list bool) : list item -> Z -> Prop :=
  fix go (l : list item) (p : Z) : Prop :=
    match l with
    | [] => True
    | x :: l' => f p x /\ go l' (p + Z.of_nat (length (g p x)))
    end.

Fixpoint item_fits (w : nat) (pos : Z) (it : item) {struct it} : Prop :=
  match it with
  | Rec _ _ => True
  | Blk id nw body =>
    block_words w pos id nw (enc_list_with (enc_item nw) body (blk_body_start w pos id nw)) < two32 /\
    fits_list_with (item_fits nw) (enc_item nw) body (blk_body_start w pos id nw)
  end.

Definition items_fits (w : nat) (pos : Z) (l : list item) : Prop :=
  fits_list_with (item_fits w) (enc_item w) l pos.

(* well-formed trees: what the writer's preconditions and Go's types demand *)
Fixpoint item_wf (it : item) : Prop :=
  match it with
  | Rec code ops => 0 <= code /\ Forall (fun v => 0 <= v) ops
  | Blk id nw body =>
    0 <= id /\ (2 <= nw <= 32)%nat /\
    (fix go (l : list item) : Prop := match l with [] => True | x :: l' => item_wf x /\ go l' end) body
  end.

Fixpoint items_wf (l : list item) : Prop :=
  match l with [] => True | x :: l' => item_wf x /\ items_wf l' end.
