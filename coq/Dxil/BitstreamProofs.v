(* C18: the abstract encoder and the reader are inverse: fixed-width fields,
   VBR, signed VBR, char6, alignment, records, nested blocks, whole streams. *)
From Coq Require Import List ZArith Bool Lia.
Import ListNotations.
Require Import Naga.Dxil.BitsModel Naga.Dxil.BitsProofs Naga.Dxil.BitstreamModel.
Open Scope Z_scope.

(* ---------------- fixed width ---------------- *)

Lemma read_fixed_bits : forall w v p rest, 0 <= v < 2 ^ Z.of_nat w ->
  read_fixed w (p, bits_of w v ++ rest) = Some (v, (p + Z.of_nat w, rest)).
Proof.
  intros w v p rest Hv. unfold read_fixed, rtake. cbn [fst snd].
  pose proof (take_app (bits_of w v) rest) as T. rewrite bits_of_length in T. rewrite T.
  rewrite val_of_bits_of, Z.mod_small by lia. reflexivity.
Qed.

(* every value and every width: the reader returns the value modulo 2^w *)
Lemma read_fixed_bits_mod : forall w v p rest,
  read_fixed w (p, bits_of w v ++ rest) = Some (v mod 2 ^ Z.of_nat w, (p + Z.of_nat w, rest)).
Proof.
  intros w v p rest. unfold read_fixed, rtake. cbn [fst snd].
  pose proof (take_app (bits_of w v) rest) as T. rewrite bits_of_length in T. rewrite T.
  rewrite val_of_bits_of. reflexivity.
Qed.

(* ---------------- VBR ---------------- *)

Definition nzb (x : Z) : bool := negb (x =? 0).

Lemma read_vbr_data : forall w k x first nz pw acc n tl, 0 <= x < 2 ^ Z.of_nat k ->
  read_vbr_bits w k first nz pw acc n (bits_of k x ++ tl) =
  match tl with
  | [] => None
  | _ => read_vbr_bits w 0 first (nz || nzb x) (pw * 2 ^ Z.of_nat k) (acc + x * pw) (n + Z.of_nat k) tl
  end.
Proof.
  induction k; intros x first nz pw acc n tl Hx.
  - change (Z.of_nat 0) with 0 in *. rewrite Z.pow_0_r in *. assert (x = 0) by lia. subst x.
    cbn [bits_of app]. rewrite Z.mul_1_r, Z.add_0_r, Z.add_0_r. unfold nzb. cbn [Z.eqb negb]. rewrite orb_false_r.
    destruct tl; reflexivity.
  - cbn [bits_of app read_vbr_bits].
    rewrite Nat2Z.inj_succ, Z.pow_succ_r in * by lia.
    rewrite IHk.
    + destruct tl; [reflexivity|].
      f_equal; try lia.
      * rewrite <- orb_assoc. f_equal. unfold nzb. rewrite div2_div.
        pose proof (Z.div_mod x 2 ltac:(lia)) as E. pose proof (Z.mod_pos_bound x 2 ltac:(lia)).
        destruct (Z.odd x) eqn:O.
        -- cbn [orb]. destruct (Z.eqb_spec x 0); [subst; discriminate | reflexivity].
        -- cbn [orb]. rewrite Zmod_odd, O in E.
           destruct (Z.eqb_spec (x / 2) 0), (Z.eqb_spec x 0); try reflexivity; lia.
      * rewrite div2_div, odd_mod.
        pose proof (Z.div_mod x 2 ltac:(lia)). nia.
    + rewrite div2_div. split; [apply Z.div_pos; lia | apply Z.div_lt_upper_bound; lia].
Qed.

Lemma chunk_bits : forall w d flag, (1 <= w)%nat -> 0 <= d < 2 ^ Z.of_nat (w - 1) -> 0 <= flag <= 1 ->
  bits_of w (d + flag * 2 ^ Z.of_nat (w - 1)) = bits_of (w - 1) d ++ [Z.odd flag].
Proof.
  intros w d flag Hw Hd Hf.
  replace w with ((w - 1) + 1)%nat at 1 by lia.
  rewrite bits_of_combine by lia. reflexivity.
Qed.

Lemma pow2_w1 : forall w, (2 <= w)%nat -> 2 <= 2 ^ Z.of_nat (w - 1).
Proof.
  intros w Hw. replace (w - 1)%nat with (S (w - 2))%nat by lia.
  rewrite Nat2Z.inj_succ, Z.pow_succ_r by lia.
  pose proof (Z.pow_pos_nonneg 2 (Z.of_nat (w - 2)) ltac:(lia) ltac:(lia)). lia.
Qed.

Lemma enc_vbr_fuel_read : forall fuel w v first pw acc n rest, (2 <= w)%nat -> 0 <= v < 2 ^ Z.of_nat fuel ->
  first = true \/ 0 < v ->
  read_vbr_bits w (w - 1) first false pw acc n (enc_vbr_fuel fuel w v ++ rest) =
  Some (acc + v * pw, n + Z.of_nat (length (enc_vbr_fuel fuel w v)), rest).
Proof.
  induction fuel; intros w v first pw acc n rest Hw Hv Hfz.
  - change (Z.of_nat 0) with 0 in Hv. rewrite Z.pow_0_r in Hv. assert (v = 0) by lia. subst v.
    destruct Hfz as [->|?]; [|lia].
    cbn [enc_vbr_fuel]. rewrite bits_of_length.
    pose proof (pow2_w1 w Hw).
    pose proof (chunk_bits w 0 0 ltac:(lia)) as C. rewrite Z.mul_0_l, Z.add_0_r in C.
    rewrite C by lia.
    rewrite <- app_assoc. rewrite read_vbr_data by lia.
    cbn [app read_vbr_bits Z.odd orb]. repeat (f_equal; try lia).
  - cbn [enc_vbr_fuel].
    set (m := 2 ^ Z.of_nat (w - 1)).
    assert (Hm : 2 <= m) by (apply pow2_w1; exact Hw).
    destruct (Z.ltb_spec v m) as [Hlt|Hge].
    + rewrite bits_of_length.
      pose proof (chunk_bits w v 0 ltac:(lia)) as C. rewrite Z.mul_0_l, Z.add_0_r in C.
      rewrite C by (fold m; lia).
      rewrite <- app_assoc. rewrite read_vbr_data by (fold m; lia).
      cbn [app read_vbr_bits Z.odd orb].
      assert (Hok : first || nzb v = true).
      { destruct Hfz as [->|Hp]; [reflexivity|]. unfold nzb. destruct (Z.eqb_spec v 0); [lia|]. apply orb_true_r. }
      rewrite Hok. repeat (f_equal; try lia).
    + rewrite app_length, bits_of_length.
      pose proof (Z.mod_pos_bound v m ltac:(lia)) as Hmod.
      pose proof (chunk_bits w (v mod m) 1 ltac:(lia)) as C. rewrite Z.mul_1_l in C. fold m in C.
      rewrite C by lia.
      rewrite <- !app_assoc. rewrite read_vbr_data by (fold m; lia).
      cbn [app read_vbr_bits Z.odd]. fold m.
      assert (Hq : 0 < v / m) by (apply Z.div_str_pos; lia).
      rewrite IHfuel.
      * pose proof (Z.div_mod v m ltac:(lia)). repeat (f_equal; try nia).
      * lia.
      * rewrite Nat2Z.inj_succ, Z.pow_succ_r in Hv by lia.
        split; [lia|]. apply Z.div_lt_upper_bound; try lia. nia.
      * right. exact Hq.
Qed.

Lemma enc_vbr_fuel_ok : forall v, 0 <= v -> 0 <= v < 2 ^ Z.of_nat (S (Z.to_nat (Z.log2 v))).
Proof.
  intros v Hv. split; [lia|].
  rewrite Nat2Z.inj_succ, Z2Nat.id by apply Z.log2_nonneg.
  destruct (Z.eq_dec v 0) as [->|Hn].
  - cbn. lia.
  - apply Z.log2_spec. lia.
Qed.

Theorem vbr_roundtrip_bits : forall w v rest, (2 <= w)%nat -> 0 <= v ->
  read_vbr_bits w (w - 1) true false 1 0 0 (enc_vbr w v ++ rest) = Some (v, Z.of_nat (length (enc_vbr w v)), rest).
Proof.
  intros w v rest Hw Hv. unfold enc_vbr.
  rewrite enc_vbr_fuel_read by (try lia; try (apply enc_vbr_fuel_ok; lia); left; reflexivity).
  repeat (f_equal; try lia).
Qed.

(* VBR round trip: every value >= 0, every width >= 2 *)
Theorem vbr_roundtrip : forall w v p rest, (2 <= w)%nat -> 0 <= v ->
  read_vbr w (p, enc_vbr w v ++ rest) = Some (v, (p + Z.of_nat (length (enc_vbr w v)), rest)).
Proof.
  intros w v p rest Hw Hv. unfold read_vbr. cbn [fst snd].
  rewrite vbr_roundtrip_bits by lia. reflexivity.
Qed.

(* the encoding does not depend on the fuel once it suffices *)
Lemma enc_vbr_fuel_indep : forall f1 f2 w v, (2 <= w)%nat ->
  0 <= v < 2 ^ Z.of_nat f1 -> v < 2 ^ Z.of_nat f2 -> enc_vbr_fuel f1 w v = enc_vbr_fuel f2 w v.
Proof.
  induction f1; intros f2 w v Hw H1 H2.
  - change (Z.of_nat 0) with 0 in H1. rewrite Z.pow_0_r in H1. assert (v = 0) by lia. subst.
    destruct f2; cbn [enc_vbr_fuel]; [reflexivity|].
    pose proof (pow2_w1 w Hw). destruct (Z.ltb_spec 0 (2 ^ Z.of_nat (w - 1))); [reflexivity | lia].
  - destruct f2.
    + change (Z.of_nat 0) with 0 in H2. rewrite Z.pow_0_r in H2. assert (v = 0) by lia. subst.
      cbn [enc_vbr_fuel]. pose proof (pow2_w1 w Hw).
      destruct (Z.ltb_spec 0 (2 ^ Z.of_nat (w - 1))); [reflexivity | lia].
    + cbn [enc_vbr_fuel].
      set (m := 2 ^ Z.of_nat (w - 1)).
      assert (Hm : 2 <= m) by (apply pow2_w1; exact Hw).
      destruct (Z.ltb_spec v m); [reflexivity|]. f_equal.
      rewrite Nat2Z.inj_succ, Z.pow_succ_r in * by lia.
      apply IHf1; try assumption.
      * split; [apply Z.div_pos; lia|]. apply Z.div_lt_upper_bound; try lia. nia.
      * apply Z.div_lt_upper_bound; try lia. nia.
Qed.

Lemma enc_vbr_of_fuel : forall f w v, (2 <= w)%nat -> 0 <= v < 2 ^ Z.of_nat f -> enc_vbr_fuel f w v = enc_vbr w v.
Proof.
  intros f w v Hw Hv. unfold enc_vbr. apply enc_vbr_fuel_indep; try assumption. apply enc_vbr_fuel_ok. lia.
Qed.

(* ---- inversion: what the strict VBR reader accepts is the canonical encoding ---- *)

Lemma read_vbr_data_inv : forall w k first nz pw acc n bs r,
  read_vbr_bits w k first nz pw acc n bs = Some r ->
  exists x tl, bs = bits_of k x ++ tl /\ 0 <= x < 2 ^ Z.of_nat k /\ tl <> [] /\
    read_vbr_bits w 0 first (nz || nzb x) (pw * 2 ^ Z.of_nat k) (acc + x * pw) (n + Z.of_nat k) tl = Some r.
Proof.
  induction k; intros first nz pw acc n bs r H.
  - exists 0, bs. cbn [bits_of app]. change (Z.of_nat 0) with 0. rewrite Z.pow_0_r.
    split; [reflexivity|]. split; [lia|]. split; [destruct bs; [discriminate | discriminate]|].
    unfold nzb. cbn [Z.eqb negb]. rewrite orb_false_r, Z.mul_1_r, Z.add_0_r, Z.add_0_r. exact H.
  - destruct bs as [|b bs]; [discriminate|]. cbn [read_vbr_bits] in H.
    destruct (IHk _ _ _ _ _ _ _ H) as (x & tl & -> & Hx & Htl & Hr).
    exists (Z.b2z b + 2 * x), tl.
    rewrite Nat2Z.inj_succ, Z.pow_succ_r by lia.
    split; [|split; [destruct b; cbn [Z.b2z]; lia | split; [exact Htl|]]].
    + cbn [bits_of app]. f_equal; [|f_equal].
      * rewrite Z.odd_add_mul_2. destruct b; reflexivity.
      * rewrite div2_div. replace (Z.b2z b + 2 * x) with (x * 2 + Z.b2z b) by lia.
        rewrite Z.div_add_l by lia. replace (Z.b2z b / 2) with 0 by (destruct b; reflexivity).
        rewrite Z.add_0_r. reflexivity.
    + replace (nz || nzb (Z.b2z b + 2 * x)) with (nz || b || nzb x).
      2:{ rewrite <- orb_assoc. f_equal. unfold nzb.
          destruct b; cbn [Z.b2z orb].
          - destruct (Z.eqb_spec (1 + 2 * x) 0); [lia | reflexivity].
          - destruct (Z.eqb_spec x 0), (Z.eqb_spec (0 + 2 * x) 0); try reflexivity; lia. }
      replace (pw * (2 * 2 ^ Z.of_nat k)) with (2 * pw * 2 ^ Z.of_nat k) by lia.
      replace (acc + (Z.b2z b + 2 * x) * pw) with (acc + Z.b2z b * pw + x * (2 * pw)) by lia.
      replace (n + Z.succ (Z.of_nat k)) with (n + 1 + Z.of_nat k) by lia.
      exact Hr.
Qed.

Lemma read_vbr_bits_inv : forall len w bs first pw acc n v' n' rest, (2 <= w)%nat -> (length bs <= len)%nat ->
  read_vbr_bits w (w - 1) first false pw acc n bs = Some (v', n', rest) ->
  exists v, 0 <= v /\ (first = true \/ 0 < v) /\ v' = acc + v * pw /\
            bs = enc_vbr_fuel (S (Z.to_nat (Z.log2 v))) w v ++ rest /\
            n' = n + Z.of_nat (length (enc_vbr_fuel (S (Z.to_nat (Z.log2 v))) w v)).
Proof.
  induction len; intros w bs first pw acc n v' n' rest Hw Hlen H.
  - destruct bs; [|cbn [length] in Hlen; lia]. destruct (w - 1)%nat; discriminate.
  - destruct (read_vbr_data_inv _ _ _ _ _ _ _ _ _ H) as (x & tl & -> & Hx & Htl & Hr).
    cbn [orb] in Hr.
    set (m := 2 ^ Z.of_nat (w - 1)) in *.
    assert (Hm : 2 <= m) by (apply pow2_w1; exact Hw).
    destruct tl as [|b tl]; [congruence|]. cbn [read_vbr_bits] in Hr.
    destruct b.
    + (* continuation *)
      assert (Hl : (length tl <= len)%nat).
      { rewrite app_length, bits_of_length in Hlen. cbn [length] in Hlen. lia. }
      destruct (IHlen w tl false _ _ _ _ _ _ Hw Hl Hr) as (q & Hq0 & Hqp & Hv & Htl' & Hn).
      destruct Hqp as [?|Hqp]; [discriminate|].
      exists (x + q * m).
      assert (Hpos : 0 < x + q * m) by nia.
      split; [lia|]. split; [right; exact Hpos|]. split; [rewrite Hv; fold m; lia|].
      assert (Hfuel : 0 <= x + q * m < 2 ^ Z.of_nat (S (Z.to_nat (Z.log2 (x + q * m))))) by (apply enc_vbr_fuel_ok; lia).
      remember (S (Z.to_nat (Z.log2 (x + q * m)))) as F.
      destruct F as [|F]; [discriminate|].
      cbn [enc_vbr_fuel]. fold m.
      destruct (Z.ltb_spec (x + q * m) m) as [?|_]; [nia|].
      assert (Hdiv : (x + q * m) / m = q) by (rewrite Z.div_add by lia; rewrite Z.div_small by lia; lia).
      assert (Hmodx : (x + q * m) mod m = x) by (rewrite Z.mod_add by lia; apply Z.mod_small; lia).
      rewrite Hdiv, Hmodx.
      assert (Hq : enc_vbr_fuel F w q = enc_vbr_fuel (S (Z.to_nat (Z.log2 q))) w q).
      { apply enc_vbr_fuel_indep; try assumption.
        - rewrite Nat2Z.inj_succ, Z.pow_succ_r in Hfuel by lia. split; [lia|]. nia.
        - apply enc_vbr_fuel_ok. lia. }
      rewrite Hq.
      pose proof (chunk_bits w x 1 ltac:(lia)) as C. rewrite Z.mul_1_l in C. fold m in C. rewrite C by lia.
      split.
      * rewrite Htl'. rewrite <- !app_assoc. reflexivity.
      * rewrite Hn. rewrite !app_length, bits_of_length. cbn [length]. lia.
    + (* last chunk *)
      destruct (first || nzb x) eqn:Hok; [|discriminate].
      inversion Hr; subst v' n' rest. clear Hr.
      exists x. split; [lia|]. split.
      { destruct first; [left; reflexivity|]. right. cbn [orb] in Hok. unfold nzb in Hok.
        destruct (Z.eqb_spec x 0); [discriminate | lia]. }
      split; [reflexivity|].
      assert (Hfuel : 0 <= x < 2 ^ Z.of_nat (S (Z.to_nat (Z.log2 x)))) by (apply enc_vbr_fuel_ok; lia).
      remember (S (Z.to_nat (Z.log2 x))) as F.
      destruct F as [|F]; [discriminate|].
      cbn [enc_vbr_fuel]. fold m.
      destruct (Z.ltb_spec x m) as [_|?]; [|lia].
      pose proof (chunk_bits w x 0 ltac:(lia)) as C. rewrite Z.mul_0_l, Z.add_0_r in C. rewrite C by (fold m; lia).
      split; [rewrite <- app_assoc; reflexivity|].
      rewrite app_length, bits_of_length. cbn [length]. lia.
Qed.

(* what read_vbr accepts is the canonical VBR encoding of the value it returns *)
Theorem read_vbr_sound : forall w r v r', (2 <= w)%nat -> read_vbr w r = Some (v, r') ->
  0 <= v /\ snd r = enc_vbr w v ++ snd r' /\ fst r' = fst r + Z.of_nat (length (enc_vbr w v)).
Proof.
  intros w [p bs] v [p' rest] Hw H. unfold read_vbr in H. cbn [fst snd] in *.
  destruct (read_vbr_bits w (w - 1) true false 1 0 0 bs) as [[[v0 n0] bs0]|] eqn:E; [|discriminate].
  inversion H; subst v0 p' bs0. clear H.
  destruct (read_vbr_bits_inv (length bs) w bs true 1 0 0 v n0 rest Hw (le_n _) E) as (q & Hq0 & _ & Hv & Hbs & Hn).
  assert (v = q) by lia. subst q.
  split; [exact Hq0|]. unfold enc_vbr. split; [exact Hbs | lia].
Qed.

Lemma enc_vbr_fuel_nonempty : forall fuel w v, (1 <= w)%nat -> (1 <= length (enc_vbr_fuel fuel w v))%nat.
Proof.
  intros fuel w v Hw. destruct fuel; cbn [enc_vbr_fuel].
  - rewrite bits_of_length. lia.
  - destruct (v <? 2 ^ Z.of_nat (w - 1)); [|rewrite app_length]; rewrite bits_of_length; lia.
Qed.

Lemma enc_vbr_nonempty : forall w v, (1 <= w)%nat -> (1 <= length (enc_vbr w v))%nat.
Proof. intros. apply enc_vbr_fuel_nonempty; lia. Qed.

(* ---------------- signed VBR (zig-zag with the LLVM reader's decoding) ---------------- *)

Theorem signed_vbr_roundtrip : forall v, - 2 ^ 63 <= v < 2 ^ 63 ->
  decode_signed_vbr (encode_signed_vbr v) = v /\ 0 <= encode_signed_vbr v < 2 ^ 64.
Proof.
  intros v Hv. unfold encode_signed_vbr, decode_signed_vbr, two64.
  change (2 ^ 63) with 9223372036854775808 in *. change (2 ^ 64) with 18446744073709551616.
  destruct (Z.geb_spec v 0) as [Hp|Hn].
  - rewrite Z.mod_small by lia.
    rewrite Z.even_mul. cbn [Z.even orb]. rewrite Bool.orb_true_r.
    rewrite Z.div_mul by lia. lia.
  - rewrite (Z.mod_small (- v)) by lia.
    destruct (Z.eq_dec v (-9223372036854775808)) as [->|Hne].
    + vm_compute. split; [reflexivity | split; [discriminate | reflexivity]].
    + rewrite (Z.mod_small (- v * 2)) by lia.
      replace (Z.lor (- v * 2) 1) with (- v * 2 + 1).
      2:{ rewrite Z.lor_comm. change 2 with (2 ^ 1) at 2. rewrite lor_add_disjoint by (try lia; cbn; lia).
          change (2 ^ 1) with 2. lia. }
      replace (- v * 2 + 1) with (1 + 2 * (- v)) by lia.
      rewrite Z.even_add_mul_2. cbn [Z.even].
      destruct (Z.eqb_spec (1 + 2 * - v) 1) as [E|E]; [lia|].
      replace (1 + 2 * - v) with (- v * 2 + 1) by lia.
      rewrite Z.div_add_l by lia. change (1 / 2) with 0. lia.
Qed.

(* ---------------- char6 ---------------- *)

Theorem char6_roundtrip : forall c, is_char6 c = true ->
  exists e, encode_char6 c = Some e /\ 0 <= e < 64 /\ decode_char6 e = c.
Proof.
  intros c H. unfold is_char6 in H. unfold encode_char6, decode_char6.
  destruct (Z.leb_spec 97 c), (Z.leb_spec c 122); cbn [andb orb] in *;
  try (eexists; split; [reflexivity|]; split; [lia|];
       repeat match goal with |- context [?a <? ?b] => destruct (Z.ltb_spec a b); try lia end; fail).
  all: destruct (Z.leb_spec 65 c), (Z.leb_spec c 90); cbn [andb orb] in *;
  try (eexists; split; [reflexivity|]; split; [lia|];
       repeat match goal with |- context [?a <? ?b] => destruct (Z.ltb_spec a b); try lia end; fail).
  all: destruct (Z.leb_spec 48 c), (Z.leb_spec c 57); cbn [andb orb] in *;
  try (eexists; split; [reflexivity|]; split; [lia|];
       repeat match goal with |- context [?a <? ?b] => destruct (Z.ltb_spec a b); try lia end; fail).
  all: destruct (Z.eqb_spec c 46); cbn [orb] in *;
  try (subst; eexists; split; [reflexivity|]; split; [lia|]; reflexivity).
  all: destruct (Z.eqb_spec c 95); cbn [orb] in *; try discriminate;
  try (subst; eexists; split; [reflexivity|]; split; [lia|]; reflexivity).
Qed.

Theorem encode_char6_iff : forall c, is_char6 c = true <-> exists e, encode_char6 c = Some e.
Proof.
  intros c. unfold is_char6, encode_char6.
  destruct ((97 <=? c) && (c <=? 122)); cbn [orb]; [split; eauto|].
  destruct ((65 <=? c) && (c <=? 90)); cbn [orb]; [split; eauto|].
  destruct ((48 <=? c) && (c <=? 57)); cbn [orb]; [split; eauto|].
  destruct (c =? 46); cbn [orb]; [split; eauto|].
  destruct (c =? 95); cbn [orb]; [split; eauto|].
  split; [discriminate | intros [e He]; discriminate].
Qed.

(* ---------------- alignment ---------------- *)

Lemma read_align_zeros : forall p rest,
  read_align (p, zeros (padlen p) ++ rest) = Some (p + Z.of_nat (padlen p), rest).
Proof.
  intros p rest. unfold read_align, rtake. cbn [fst snd].
  pose proof (take_app (zeros (padlen p)) rest) as T. rewrite zeros_length in T. rewrite T.
  rewrite all_false_zeros. reflexivity.
Qed.

Theorem align32_pos : forall p, 0 <= p -> (p + Z.of_nat (padlen p)) mod 32 = 0.
Proof. intros p Hp. apply padlen_spec. exact Hp. Qed.

(* ---------------- records ---------------- *)

Lemma read_ops_enc : forall ops fuel p rest, Forall (fun v => 0 <= v) ops -> (length ops <= fuel)%nat ->
  read_ops fuel (Z.of_nat (length ops)) (p, enc_ops ops ++ rest) =
  Some (ops, (p + Z.of_nat (length (enc_ops ops)), rest)).
Proof.
  induction ops as [|v ops IH]; intros fuel p rest Hwf Hf.
  - destruct fuel; cbn [read_ops length enc_ops flat_map app]; change (Z.of_nat 0) with 0; cbn [Z.leb Z.compare];
      rewrite Z.add_0_r; reflexivity.
  - destruct fuel as [|f]; [cbn [length] in Hf; lia|].
    inversion Hwf as [|? ? Hv Hwf']; subst.
    cbn [read_ops length].
    destruct (Z.leb_spec (Z.of_nat (S (length ops))) 0) as [H0|H0]; [lia|].
    unfold enc_ops in *. cbn [flat_map]. rewrite <- app_assoc.
    rewrite vbr_roundtrip by lia.
    replace (Z.of_nat (S (length ops)) - 1) with (Z.of_nat (length ops)) by lia.
    rewrite IH by (try assumption; cbn [length] in Hf; lia).
    rewrite app_length. repeat (f_equal; try lia).
Qed.

(* ---------------- nested induction over trees ---------------- *)

Fixpoint item_ind' (P : item -> Prop)
    (HR : forall code ops, P (Rec code ops))
    (HB : forall id nw body, Forall P body -> P (Blk id nw body)) (x : item) {struct x} : P x :=
  match x with
  | Rec code ops => HR code ops
  | Blk id nw body =>
    HB id nw body ((fix go (l : list item) : Forall P l :=
                      match l with
                      | [] => Forall_nil P
                      | y :: l' => Forall_cons y (item_ind' P HR HB y) (go l')
                      end) body)
  end.

Lemma item_size_blk : forall id nw body, item_size (Blk id nw body) = S (items_size body).
Proof. reflexivity. Qed.

Lemma item_wf_blk : forall id nw body, item_wf (Blk id nw body) <-> (0 <= id /\ (2 <= nw <= 32)%nat /\ items_wf body).
Proof. intros. reflexivity. Qed.

Lemma enc_item_blk : forall w pos id nw body,
  enc_item w pos (Blk id nw body) = enc_block w pos id nw (enc_items nw (blk_body_start w pos id nw) body).
Proof. reflexivity. Qed.

Lemma enc_items_cons : forall w p x l,
  enc_items w p (x :: l) = enc_item w p x ++ enc_items w (p + Z.of_nat (length (enc_item w p x))) l.
Proof. reflexivity. Qed.

Lemma item_fits_blk : forall w pos id nw body,
  item_fits w pos (Blk id nw body) <->
  (block_words w pos id nw (enc_items nw (blk_body_start w pos id nw) body) < two32 /\
   items_fits nw (blk_body_start w pos id nw) body).
Proof. intros. reflexivity. Qed.

Lemma items_fits_cons : forall w p x l,
  items_fits w p (x :: l) <-> (item_fits w p x /\ items_fits w (p + Z.of_nat (length (enc_item w p x))) l).
Proof. intros. reflexivity. Qed.

Lemma pow2_ge : forall w, (2 <= w)%nat -> 4 <= 2 ^ Z.of_nat w.
Proof.
  intros w Hw. replace w with (2 + (w - 2))%nat by lia.
  rewrite Nat2Z.inj_add, Z.pow_add_r by lia. change (2 ^ Z.of_nat 2) with 4.
  pose proof (Z.pow_pos_nonneg 2 (Z.of_nat (w - 2)) ltac:(lia) ltac:(lia)). lia.
Qed.

Lemma bits_of_nonempty : forall w v, (1 <= w)%nat -> exists b tl, bits_of w v = b :: tl.
Proof. intros w v Hw. destruct w; [lia|]. cbn [bits_of]. eauto. Qed.

Lemma items_size_pos : forall l, (1 <= items_size l)%nat.
Proof. induction l; cbn [items_size]; lia. Qed.

Lemma item_size_pos : forall x, (1 <= item_size x)%nat.
Proof. destruct x; [cbn [item_size] | rewrite item_size_blk]; lia. Qed.

(* the step the reader makes on one encoded item *)
Definition item_step (x : item) : Prop :=
  forall f top w p k, 0 <= p -> (2 <= w <= 32)%nat -> item_wf x -> item_fits w p x -> (item_size x <= f)%nat ->
  dec_items (S f) top w (p, enc_item w p x ++ k) =
  match dec_items f top w (p + Z.of_nat (length (enc_item w p x)), k) with
  | Ok (rest, r) => Ok (x :: rest, r)
  | Err e q => Err e q
  end.

Lemma dec_items_nonempty : forall f top w p b tl,
  dec_items (S f) top w (p, b :: tl) = dec_body f (dec_items f) top w (p, b :: tl).
Proof. reflexivity. Qed.

(* position of the end of a block body: a multiple of 32 *)
Lemma blk_body_start_aligned : forall w pos id nw, 0 <= pos -> blk_body_start w pos id nw mod 32 = 0 /\ 0 <= blk_body_start w pos id nw.
Proof.
  intros w pos id nw Hp. unfold blk_body_start.
  set (p1 := pos + Z.of_nat (length (blk_header w id nw))).
  assert (0 <= p1) by (unfold p1; lia).
  pose proof (padlen_spec p1 ltac:(lia)) as [A B].
  split; [|lia].
  replace (p1 + Z.of_nat (padlen p1) + 32) with (p1 + Z.of_nat (padlen p1) + 1 * 32) by lia.
  rewrite Z.mod_add by lia. exact A.
Qed.

(* items of a block followed by END_BLOCK and its alignment *)
Definition list_step (l : list item) : Prop :=
  forall fuel w p k, 0 <= p -> (2 <= w <= 32)%nat -> items_wf l -> items_fits w p l -> (items_size l <= fuel)%nat ->
  dec_items fuel false w
    (p, enc_items w p l ++ bits_of w 0 ++ zeros (padlen (p + Z.of_nat (length (enc_items w p l ++ bits_of w 0)))) ++ k) =
  Ok (l, (p + Z.of_nat (length (enc_items w p l ++ bits_of w 0))
            + Z.of_nat (padlen (p + Z.of_nat (length (enc_items w p l ++ bits_of w 0)))), k)).

Lemma list_step_of_items : forall l, Forall item_step l -> list_step l.
Proof.
  induction l as [|x l IH]; intros HF; unfold list_step; intros fuel w p k Hp Hw Hwf Hfit Hfuel.
  - cbn [items_size] in Hfuel. destruct fuel as [|f]; [lia|].
    unfold enc_items. cbn [enc_list_with app].
    destruct (bits_of_nonempty w 0 ltac:(lia)) as (b & tl & E).
    rewrite E. cbn [app]. rewrite dec_items_nonempty. rewrite <- E.
    change (bits_of w 0 ++ ?z ++ k) with (bits_of w 0 ++ (z ++ k)).
    unfold dec_body.
    assert (E2 : (b :: tl) ++ zeros (padlen (p + Z.of_nat (length (bits_of w 0)))) ++ k =
                 bits_of w 0 ++ zeros (padlen (p + Z.of_nat (length (bits_of w 0)))) ++ k) by (rewrite E; reflexivity).
    cbn [app] in E2. rewrite E2.
    pose proof (pow2_ge w ltac:(lia)).
    rewrite read_fixed_bits by lia.
    cbn [Z.eqb]. rewrite bits_of_length. rewrite read_align_zeros. reflexivity.
  - inversion HF as [|? ? Hx HFl]; subst.
    specialize (IH HFl).
    cbn [items_size] in Hfuel.
    pose proof (items_size_pos l). pose proof (item_size_pos x).
    destruct fuel as [|f]; [lia|].
    rewrite enc_items_cons. rewrite <- !app_assoc.
    destruct Hwf as [Hwx Hwl]. apply items_fits_cons in Hfit. destruct Hfit as [Hfx Hfl].
    rewrite (Hx f false w p _ Hp Hw Hwx Hfx ltac:(lia)).
    unfold list_step in IH.
    assert (Hp' : 0 <= p + Z.of_nat (length (enc_item w p x))) by lia.
    specialize (IH f w _ k Hp' Hw Hwl Hfl ltac:(lia)).
    rewrite (app_length (enc_item w p x)), Nat2Z.inj_add, Z.add_assoc.
    rewrite IH. reflexivity.
Qed.

Lemma enc_block_length_aligned : forall w pos id nw body, 0 <= pos ->
  let inner := body ++ bits_of nw 0 in
  let pad2 := zeros (padlen (blk_body_start w pos id nw + Z.of_nat (length inner))) in
  Z.of_nat (length (inner ++ pad2)) mod 32 = 0.
Proof.
  intros w pos id nw body Hp inner pad2.
  pose proof (blk_body_start_aligned w pos id nw Hp) as [A B].
  pose proof (padlen_spec (blk_body_start w pos id nw + Z.of_nat (length inner)) ltac:(lia)) as [C D].
  unfold pad2. rewrite app_length, zeros_length, Nat2Z.inj_add.
  set (bs := blk_body_start w pos id nw) in *.
  set (q := Z.of_nat (padlen (bs + Z.of_nat (length inner)))) in *.
  replace (bs + Z.of_nat (length inner) + q) with (Z.of_nat (length inner) + q + bs) in C by lia.
  rewrite <- Z.add_mod_idemp_r in C by lia. rewrite A, Z.add_0_r in C. exact C.
Qed.

Lemma enc_block_eq : forall w pos id nw body,
  enc_block w pos id nw body =
  bits_of w 1 ++ enc_vbr 8 id ++ enc_vbr 4 (Z.of_nat nw) ++
  zeros (padlen (pos + Z.of_nat (length (blk_header w id nw)))) ++
  bits_of 32 (block_words w pos id nw body mod two32) ++
  body ++ bits_of nw 0 ++
  zeros (padlen (blk_body_start w pos id nw + Z.of_nat (length (body ++ bits_of nw 0)))) .
Proof.
  intros. unfold enc_block, block_words, blk_header. cbv zeta. rewrite <- !app_assoc. reflexivity.
Qed.

Lemma block_words_32 : forall w pos id nw body, 0 <= pos ->
  32 * block_words w pos id nw body =
  Z.of_nat (length (body ++ bits_of nw 0)) +
  Z.of_nat (padlen (blk_body_start w pos id nw + Z.of_nat (length (body ++ bits_of nw 0)))).
Proof.
  intros w pos id nw body Hp.
  pose proof (enc_block_length_aligned w pos id nw body Hp) as Hmod. cbv zeta in Hmod.
  unfold block_words. cbv zeta.
  set (n := Z.of_nat (length ((body ++ bits_of nw 0) ++ zeros (padlen (blk_body_start w pos id nw + Z.of_nat (length (body ++ bits_of nw 0))))))) in *.
  pose proof (Z.div_mod n 32 ltac:(lia)).
  assert (n = Z.of_nat (length (body ++ bits_of nw 0)) + Z.of_nat (padlen (blk_body_start w pos id nw + Z.of_nat (length (body ++ bits_of nw 0))))).
  { unfold n. rewrite app_length, zeros_length. lia. }
  lia.
Qed.

Theorem item_step_all : forall x, item_step x.
Proof.
  induction x as [code ops | id nw body IHb] using item_ind'; unfold item_step;
    intros f top w p k Hp Hw Hwf Hfit Hf.
  - (* record *)
    cbn [item_wf] in Hwf. destruct Hwf as [Hc Hops]. cbn [item_size] in Hf.
    cbn [enc_item]. unfold enc_record. rewrite <- !app_assoc.
    destruct (bits_of_nonempty w 3 ltac:(lia)) as (b & tl & E).
    assert (E2 : forall z, bits_of w 3 ++ z = b :: (tl ++ z)) by (intros; rewrite E; reflexivity).
    rewrite E2, dec_items_nonempty, <- E2. unfold dec_body.
    pose proof (pow2_ge w ltac:(lia)).
    rewrite read_fixed_bits by lia. cbn [Z.eqb Pos.eqb].
    rewrite vbr_roundtrip by lia.
    rewrite vbr_roundtrip by lia.
    rewrite read_ops_enc by (try assumption; lia).
    rewrite !app_length, bits_of_length.
    match goal with |- match dec_items f top w (?a, k) with _ => _ end = match dec_items f top w (?b, k) with _ => _ end =>
      replace a with b by lia end.
    reflexivity.
  - (* block *)
    apply item_wf_blk in Hwf. destruct Hwf as (Hid & Hnw & Hwb).
    apply item_fits_blk in Hfit. destruct Hfit as (Hwords & Hfb).
    rewrite item_size_blk in Hf.
    change (items_wf body) in Hwb.
    change (block_words w p id nw (enc_items nw (blk_body_start w p id nw) body) < two32) in Hwords.
    change (items_fits nw (blk_body_start w p id nw) body) in Hfb.
    rewrite enc_item_blk.
    set (body_bits := enc_items nw (blk_body_start w p id nw) body) in *.
    rewrite enc_block_eq. rewrite <- !app_assoc.
    pose proof (block_words_32 w p id nw body_bits Hp) as H32.
    set (L := block_words w p id nw body_bits) in *.
    assert (HL0 : 0 <= L) by (unfold L, block_words; cbv zeta; apply Z.div_pos; lia).
    destruct (bits_of_nonempty w 1 ltac:(lia)) as (b & tl & E).
    assert (E2 : forall z, bits_of w 1 ++ z = b :: (tl ++ z)) by (intros; rewrite E; reflexivity).
    rewrite E2, dec_items_nonempty, <- E2. unfold dec_body.
    pose proof (pow2_ge w ltac:(lia)).
    rewrite read_fixed_bits by lia. cbn [Z.eqb Pos.eqb].
    rewrite vbr_roundtrip by lia.
    rewrite vbr_roundtrip by lia.
    destruct (Z.ltb_spec (Z.of_nat nw) 2) as [?|_]; [lia|].
    destruct (Z.gtb_spec (Z.of_nat nw) 32) as [?|_]; [lia|]. cbn [orb].
    set (p1 := p + Z.of_nat (length (blk_header w id nw))) in *.
    assert (Hp1 : p + Z.of_nat w + Z.of_nat (length (enc_vbr 8 id)) + Z.of_nat (length (enc_vbr 4 (Z.of_nat nw))) = p1).
    { unfold p1, blk_header. rewrite !app_length, bits_of_length. lia. }
    rewrite Hp1.
    rewrite read_align_zeros.
    assert (Hbs : p1 + Z.of_nat (padlen p1) + 32 = blk_body_start w p id nw) by reflexivity.
    rewrite (Z.mod_small L two32) by (unfold two32 in *; lia).
    rewrite read_fixed_bits by (change (Z.of_nat 32) with 32; unfold two32 in *; change (2 ^ 32) with 4294967296; lia).
    change (Z.of_nat 32) with 32. rewrite Hbs. rewrite Nat2Z.id.
    pose proof (blk_body_start_aligned w p id nw Hp) as [Hal Hbs0].
    pose proof (list_step_of_items body IHb) as LS. unfold list_step in LS.
    specialize (LS f nw (blk_body_start w p id nw) k Hbs0 Hnw Hwb Hfb ltac:(lia)).
    fold body_bits in LS. try rewrite <- !app_assoc in LS.
    rewrite LS. cbn [fst snd].
    rewrite <- Z.add_assoc, <- H32.
    rewrite Z.eqb_refl.
    match goal with |- match dec_items f top w (?a, k) with _ => _ end = match dec_items f top w (?b, k) with _ => _ end =>
      replace b with a end.
    + reflexivity.
    + rewrite H32. rewrite !app_length, !bits_of_length, !zeros_length.
      unfold p1, blk_header in *. rewrite !app_length, bits_of_length in *. lia.
Qed.

(* ---------------- whole streams ---------------- *)

Lemma dec_top : forall l fuel p, 0 <= p -> items_wf l -> items_fits 2 p l -> (items_size l <= fuel)%nat ->
  dec_items fuel true 2 (p, enc_items 2 p l) = Ok (l, (p + Z.of_nat (length (enc_items 2 p l)), [])).
Proof.
  induction l as [|x l IH]; intros fuel p Hp Hwf Hfit Hfuel.
  - cbn [items_size] in Hfuel. destruct fuel; [lia|].
    unfold enc_items. cbn [enc_list_with dec_items snd fst length]. rewrite Z.add_0_r. reflexivity.
  - cbn [items_size] in Hfuel. pose proof (items_size_pos l). pose proof (item_size_pos x).
    destruct fuel as [|f]; [lia|].
    destruct Hwf as [Hwx Hwl]. apply items_fits_cons in Hfit. destruct Hfit as [Hfx Hfl].
    rewrite enc_items_cons.
    rewrite (item_step_all x f true 2%nat p _ Hp ltac:(lia) Hwx Hfx ltac:(lia)).
    rewrite IH by (try assumption; lia).
    rewrite app_length, Nat2Z.inj_add, Z.add_assoc. reflexivity.
Qed.

Lemma magic_val : val_of magic_bits = 3737142082 /\ length magic_bits = 32%nat.
Proof. vm_compute. split; reflexivity. Qed.

Theorem stream_roundtrip_fuel : forall l fuel, items_wf l -> items_fits 2 32 l -> (items_size l <= fuel)%nat ->
  dec_stream_fuel fuel (enc_stream l) = Ok l.
Proof.
  intros l fuel Hwf Hfit Hfuel. unfold dec_stream_fuel, enc_stream.
  destruct magic_val as [Hv Hl].
  pose proof (take_app magic_bits (enc_items 2 32 l)) as T. rewrite Hl in T. rewrite T.
  rewrite Hv. cbn [Z.eqb Pos.eqb].
  rewrite dec_top by (try assumption; lia). reflexivity.
Qed.

Definition size_le_len (x : item) : Prop := forall w p, (item_size x <= length (enc_item w p x))%nat.

Lemma enc_ops_length : forall ops, (length ops <= length (enc_ops ops))%nat.
Proof.
  induction ops as [|v ops IH]; [cbn; lia|].
  unfold enc_ops in *. cbn [flat_map length]. rewrite app_length.
  pose proof (enc_vbr_nonempty 6 v ltac:(lia)). lia.
Qed.

Lemma items_size_le_len : forall l, Forall size_le_len l -> forall w p, (items_size l <= S (length (enc_items w p l)))%nat.
Proof.
  induction l as [|x l IH]; intros HF w p.
  - cbn. lia.
  - inversion HF as [|? ? Hx HFl]; subst.
    rewrite enc_items_cons, app_length. cbn [items_size].
    specialize (IH HFl w (p + Z.of_nat (length (enc_item w p x)))). specialize (Hx w p). lia.
Qed.

Lemma size_le_len_all : forall x, size_le_len x.
Proof.
  induction x as [code ops | id nw body IHb] using item_ind'; unfold size_le_len; intros w p.
  - cbn [item_size enc_item]. unfold enc_record. rewrite !app_length.
    pose proof (enc_ops_length ops). pose proof (enc_vbr_nonempty 6 code ltac:(lia)).
    pose proof (enc_vbr_nonempty 6 (Z.of_nat (length ops)) ltac:(lia)). lia.
  - rewrite item_size_blk, enc_item_blk, enc_block_eq. rewrite !app_length, !bits_of_length.
    pose proof (items_size_le_len body IHb nw (blk_body_start w p id nw)).
    pose proof (enc_vbr_nonempty 8 id ltac:(lia)). lia.
Qed.

(* stream round trip: every well-formed tree whose block lengths fit the 32-bit length field *)
Theorem stream_roundtrip : forall l, items_wf l -> items_fits 2 32 l -> dec_stream (enc_stream l) = Ok l.
Proof.
  intros l Hwf Hfit. unfold dec_stream. apply stream_roundtrip_fuel; try assumption.
  unfold enc_stream. rewrite app_length.
  pose proof (items_size_le_len l ltac:(apply Forall_forall; intros; apply size_le_len_all) 2%nat 32). lia.
Qed.

Theorem bytes_roundtrip : forall bytes l, bits_of_bytes bytes = enc_stream l -> Z.of_nat (length bytes) mod 4 = 0 ->
  items_wf l -> items_fits 2 32 l -> dec_bytes bytes = Ok l.
Proof.
  intros bytes l Hb Hm Hwf Hfit. unfold dec_bytes. rewrite Hm. cbn [Z.eqb]. rewrite Hb.
  apply stream_roundtrip; assumption.
Qed.

(* ================= soundness of the reader: accepted bits are canonical ================= *)

Lemma read_fixed_inv : forall w r v r', read_fixed w r = Some (v, r') ->
  snd r = bits_of w v ++ snd r' /\ 0 <= v < 2 ^ Z.of_nat w /\ fst r' = fst r + Z.of_nat w.
Proof.
  intros w [p bs] v [p' rest] H. unfold read_fixed, rtake in H. cbn [fst snd] in *.
  destruct (take w bs) as [[h t]|] eqn:T; [|discriminate].
  inversion H; subst v p' rest. clear H.
  destruct (take_some _ _ _ _ T) as [-> Hl].
  pose proof (val_of_bound h) as B. rewrite Hl in B.
  rewrite <- Hl at 1. rewrite bits_of_val_of. auto.
Qed.

Lemma read_align_inv : forall r r', read_align r = Some r' ->
  snd r = zeros (padlen (fst r)) ++ snd r' /\ fst r' = fst r + Z.of_nat (padlen (fst r)).
Proof.
  intros [p bs] [p' rest] H. unfold read_align, rtake in H. cbn [fst snd] in *.
  destruct (take (padlen p) bs) as [[h t]|] eqn:T; [|discriminate].
  destruct (all_false h) eqn:A; [|discriminate].
  inversion H; subst p' rest. clear H.
  destruct (take_some _ _ _ _ T) as [-> Hl].
  apply all_false_is_zeros in A. rewrite Hl in A. rewrite <- A. auto.
Qed.

Lemma read_ops_inv : forall fuel n r ops r', read_ops fuel n r = Some (ops, r') -> 0 <= n ->
  snd r = enc_ops ops ++ snd r' /\ Forall (fun v => 0 <= v) ops /\ n = Z.of_nat (length ops) /\
  fst r' = fst r + Z.of_nat (length (enc_ops ops)).
Proof.
  induction fuel; intros n r ops r' H Hn.
  - cbn [read_ops] in H. destruct (Z.leb_spec n 0); [|discriminate].
    inversion H; subst. cbn [enc_ops flat_map app length]. repeat split; auto; lia.
  - cbn [read_ops] in H. destruct (Z.leb_spec n 0).
    + inversion H; subst. cbn [enc_ops flat_map app length]. repeat split; auto; lia.
    + destruct (read_vbr 6 r) as [[v r1]|] eqn:V; [|discriminate].
      destruct (read_ops fuel (n - 1) r1) as [[vs r2]|] eqn:R; [|discriminate].
      inversion H; subst ops r'. clear H.
      destruct (read_vbr_sound 6 r v r1 ltac:(lia) V) as (Hv & Hs & Hp).
      destruct (IHfuel _ _ _ _ R ltac:(lia)) as (Hs2 & Hf & Hl & Hp2).
      unfold enc_ops in *. cbn [flat_map length]. rewrite app_length, <- app_assoc.
      rewrite Hs, Hs2. repeat split; auto; lia.
Qed.

(* terminator of an item list: END_BLOCK + alignment inside a block, nothing at top level *)
Definition term (top : bool) (w : nat) (pe : Z) : list bool :=
  if top then [] else bits_of w 0 ++ zeros (padlen (pe + Z.of_nat w)).

Theorem dec_items_sound : forall fuel top w p bs l p' rest, 0 <= p -> (2 <= w <= 32)%nat ->
  dec_items fuel top w (p, bs) = Ok (l, (p', rest)) ->
  bs = enc_items w p l ++ term top w (p + Z.of_nat (length (enc_items w p l))) ++ rest /\
  p' = p + Z.of_nat (length (enc_items w p l)) + Z.of_nat (length (term top w (p + Z.of_nat (length (enc_items w p l))))) /\
  items_wf l /\ items_fits w p l /\ (top = true -> rest = []).
Proof.
  induction fuel; intros top w p bs l p' rest Hp Hw H; [discriminate|].
  cbn [dec_items fst snd] in H.
  destruct bs as [|b0 bs0].
  - destruct top; [|discriminate]. inversion H; subst. unfold enc_items, term. cbn [enc_list_with app length].
    repeat split; auto; try lia; try exact I.
  - remember (b0 :: bs0) as bs eqn:Ebs. clear Ebs b0 bs0.
    unfold dec_body in H.
    destruct (read_fixed w (p, bs)) as [[id r1]|] eqn:F; [|discriminate].
    destruct (read_fixed_inv _ _ _ _ F) as (Hs1 & Hid & Hp1). cbn [fst snd] in Hs1, Hp1.
    destruct (Z.eqb_spec id 0) as [->|Hn0].
    { (* END_BLOCK *)
      destruct top; [discriminate|].
      destruct (read_align r1) as [r2|] eqn:A; [|discriminate].
      inversion H; subst l r2. clear H.
      destruct (read_align_inv _ _ A) as (Hs2 & Hp2). cbn [fst snd] in Hs2, Hp2.
      rewrite Hp1 in Hs2, Hp2.
      unfold enc_items, term. cbn [enc_list_with app length]. rewrite Z.add_0_r.
      rewrite Hs1, Hs2. rewrite app_length, bits_of_length, zeros_length, <- app_assoc.
      repeat split; auto; try lia; try exact I; try discriminate. }
    destruct (Z.eqb_spec id 1) as [->|Hn1].
    { (* ENTER_SUBBLOCK *)
      destruct (read_vbr 8 r1) as [[bid r2]|] eqn:V1; [|discriminate].
      destruct (read_vbr 4 r2) as [[nw r3]|] eqn:V2; [|discriminate].
      destruct (Z.ltb_spec nw 2); [discriminate|]. destruct (Z.gtb_spec nw 32); [discriminate|]. cbn [orb] in H.
      destruct (read_align r3) as [r4|] eqn:A; [|discriminate].
      destruct (read_fixed 32 r4) as [[len r5]|] eqn:F2; [|discriminate].
      destruct r5 as [p5 bs5].
      destruct (dec_items fuel false (Z.to_nat nw) (p5, bs5)) as [[body [p6 bs6]]|e q] eqn:D1; [|discriminate].
      cbn [fst] in H.
      destruct (Z.eqb_spec p6 (p5 + 32 * len)) as [Hlen|]; [|discriminate].
      destruct (dec_items fuel top w (p6, bs6)) as [[restl [p7 bs7]]|e q] eqn:D2; [|discriminate].
      inversion H; subst l p7 bs7. clear H.
      destruct (read_vbr_sound 8 _ _ _ ltac:(lia) V1) as (Hbid & Hs2 & Hp2).
      destruct (read_vbr_sound 4 _ _ _ ltac:(lia) V2) as (Hnw & Hs3 & Hp3).
      destruct (read_align_inv _ _ A) as (Hs4 & Hp4).
      destruct (read_fixed_inv _ _ _ _ F2) as (Hs5 & Hlenr & Hp5). cbn [fst snd] in Hs5, Hp5.
      set (nwn := Z.to_nat nw) in *.
      assert (Hnwn : Z.of_nat nwn = nw) by (unfold nwn; lia).
      assert (Hnwr : (2 <= nwn <= 32)%nat) by lia.
      assert (Hhdr : fst r3 = p + Z.of_nat (length (blk_header w bid nwn))).
      { unfold blk_header. rewrite !app_length, bits_of_length, Hnwn. lia. }
      assert (Hp5' : p5 = blk_body_start w p bid nwn).
      { unfold blk_body_start. rewrite <- Hhdr. change (Z.of_nat 32) with 32 in Hp5. lia. }
      pose proof (blk_body_start_aligned w p bid nwn Hp) as [Hal Hbs0].
      destruct (IHfuel false nwn p5 bs5 body p6 bs6 ltac:(lia) Hnwr D1) as (Hb5 & Hp6 & Hwfb & Hfb & _).
      set (body_bits := enc_items nwn p5 body) in *.
      unfold term in Hb5, Hp6. rewrite app_length, bits_of_length, zeros_length in Hp6.
      replace (p5 + Z.of_nat (length body_bits) + Z.of_nat nwn) with (p5 + Z.of_nat (length body_bits + nwn)) in Hb5, Hp6 by lia.
      (* the declared length is the block's word count *)
      pose proof (block_words_32 w p bid nwn body_bits Hp) as H32.
      rewrite <- Hp5' in H32. rewrite app_length, bits_of_length in H32.
      assert (HL : len = block_words w p bid nwn body_bits) by lia.
      assert (Hp6' : 0 <= p6) by lia.
      destruct (IHfuel top w p6 bs6 restl p' rest Hp6' Hw D2) as (Hb6 & Hpp & Hwfr & Hfr & Htop).
      assert (Hitem : enc_item w p (Blk bid nwn body) =
                      bits_of w 1 ++ enc_vbr 8 bid ++ enc_vbr 4 nw ++ zeros (padlen (fst r3)) ++ bits_of 32 len ++
                      body_bits ++ bits_of nwn 0 ++ zeros (padlen (p5 + Z.of_nat (length body_bits + nwn)))).
      { rewrite enc_item_blk, enc_block_eq. rewrite <- Hp5'. fold body_bits. rewrite <- HL.
        rewrite (Z.mod_small len) by (unfold two32; change (2 ^ Z.of_nat 32) with 4294967296 in Hlenr; lia).
        rewrite Hnwn, <- Hhdr. rewrite app_length, bits_of_length. reflexivity. }
      assert (Hilen : p + Z.of_nat (length (enc_item w p (Blk bid nwn body))) = p6).
      { rewrite Hitem. rewrite !app_length, !bits_of_length, !zeros_length.
        change (Z.of_nat 32) with 32 in Hp5. lia. }
      rewrite enc_items_cons, Hilen.
      rewrite (app_length (enc_item w p (Blk bid nwn body))), Nat2Z.inj_add, Z.add_assoc, Hilen.
      split; [|split; [|split; [|split]]].
      - rewrite <- app_assoc, Hitem, <- !app_assoc.
        rewrite Hs1, Hs2, Hs3, Hs4, Hs5, Hb5, <- !app_assoc. fold body_bits.
        rewrite Hb6. reflexivity.
      - exact Hpp.
      - split; [|exact Hwfr]. apply item_wf_blk. auto.
      - apply items_fits_cons. split.
        + apply item_fits_blk. rewrite <- Hp5'. fold body_bits. split; [|exact Hfb].
          rewrite <- HL. unfold two32. change (2 ^ Z.of_nat 32) with 4294967296 in Hlenr. lia.
        + rewrite Hilen. exact Hfr.
      - exact Htop. }
    destruct (Z.eqb_spec id 2) as [|Hn2]; [discriminate|].
    destruct (Z.eqb_spec id 3) as [->|Hn3]; [|discriminate].
    (* UNABBREV_RECORD *)
    destruct (read_vbr 6 r1) as [[code r2]|] eqn:V1; [|discriminate].
    destruct (read_vbr 6 r2) as [[n r3]|] eqn:V2; [|discriminate].
    destruct (read_ops fuel n r3) as [[ops r4]|] eqn:O; [|discriminate].
    destruct r4 as [p4 bs4].
    destruct (dec_items fuel top w (p4, bs4)) as [[restl [p7 bs7]]|e q] eqn:D2; [|discriminate].
    inversion H; subst l p7 bs7. clear H.
    destruct (read_vbr_sound 6 _ _ _ ltac:(lia) V1) as (Hcode & Hs2 & Hp2).
    destruct (read_vbr_sound 6 _ _ _ ltac:(lia) V2) as (Hn & Hs3 & Hp3).
    destruct (read_ops_inv _ _ _ _ _ O Hn) as (Hs4 & Hfo & Hnl & Hp4). cbn [fst snd] in Hs4, Hp4.
    assert (Hp4' : 0 <= p4) by lia.
    destruct (IHfuel top w p4 bs4 restl p' rest Hp4' Hw D2) as (Hb4 & Hpp & Hwfr & Hfr & Htop).
    assert (Hilen : p + Z.of_nat (length (enc_item w p (Rec code ops))) = p4).
    { cbn [enc_item]. unfold enc_record. rewrite !app_length, bits_of_length, <- Hnl. lia. }
    rewrite enc_items_cons, Hilen.
    rewrite (app_length (enc_item w p (Rec code ops))), Nat2Z.inj_add, Z.add_assoc, Hilen.
    split; [|split; [|split; [|split]]].
    + cbn [enc_item]. unfold enc_record. rewrite <- !app_assoc, <- Hnl.
      rewrite Hs1, Hs2, Hs3, Hs4, Hb4. reflexivity.
    + exact Hpp.
    + split; [|exact Hwfr]. cbn [item_wf]. auto.
    + apply items_fits_cons. split; [exact I|]. rewrite Hilen. exact Hfr.
    + exact Htop.
Qed.

(* whatever the stream reader accepts is exactly the canonical encoding of the tree it
   returns: magic, abbreviation ids, canonical VBRs, zero padding to 32-bit boundaries,
   and block length words equal to the body length in words *)
Theorem dec_stream_sound : forall bs l, dec_stream bs = Ok l ->
  bs = enc_stream l /\ items_wf l /\ items_fits 2 32 l.
Proof.
  intros bs l H. unfold dec_stream, dec_stream_fuel in H.
  destruct (take 32 bs) as [[m rest]|] eqn:T; [|discriminate].
  destruct (Z.eqb_spec (val_of m) 3737142082) as [Hm|]; [|discriminate].
  destruct (dec_items (S (length bs)) true 2 (32, rest)) as [[l0 [p' r']]|e q] eqn:D; [|discriminate].
  inversion H; subst l0. clear H.
  destruct (take_some _ _ _ _ T) as [-> Hl].
  destruct (dec_items_sound _ true 2%nat 32 rest l p' r' ltac:(lia) ltac:(lia) D) as (Hb & _ & Hwf & Hfit & Htop).
  rewrite (Htop eq_refl) in Hb. unfold term in Hb. cbn [app] in Hb. rewrite app_nil_r in Hb.
  split; [|split; assumption].
  unfold enc_stream. rewrite Hb. f_equal.
  destruct magic_val as [Hv Hml].
  rewrite <- (bits_of_val_of m), Hl, Hm. symmetry.
  rewrite <- (bits_of_val_of magic_bits), Hml, Hv. reflexivity.
Qed.

Theorem dec_bytes_sound : forall bytes l, dec_bytes bytes = Ok l ->
  bits_of_bytes bytes = enc_stream l /\ Z.of_nat (length bytes) mod 4 = 0 /\ items_wf l /\ items_fits 2 32 l.
Proof.
  intros bytes l H. unfold dec_bytes in H.
  destruct (Z.eqb_spec (Z.of_nat (length bytes) mod 4) 0) as [Hm|]; [|discriminate].
  destruct (dec_stream_sound _ _ H) as (Hb & Hwf & Hfit). auto.
Qed.
