(* C18: the DXBC container development in one import: model of container.go /
   hash.go, strict parser, and their theorems. *)
Require Export Naga.Dxil.DxbcModel Naga.Dxil.DxbcProofs Naga.Dxil.Md5Model.
