(* C18: the DXBC container writer and the strict parser are inverse; layout facts. *)
From Coq Require Import List ZArith Bool Lia ZifyBool.
Import ListNotations.
Require Import Naga.Dxil.BitsModel Naga.Dxil.BitsProofs Naga.Dxil.DxbcModel.
Open Scope Z_scope.

Ltac Zify.zify_post_hook ::= Z.to_euclidean_division_equations.

Definition byte (b : Z) : Prop := 0 <= b < 256.

Lemma is_byte_spec : forall b, is_byte b = true <-> byte b.
Proof. intros b. unfold is_byte, byte. lia. Qed.

Lemma forallb_bytes : forall l, forallb is_byte l = true <-> Forall byte l.
Proof.
  intros l. rewrite forallb_forall, Forall_forall. split; intros H x Hx; apply is_byte_spec, H, Hx.
Qed.

Lemma le32_bytes : forall v, Forall byte (le32 v).
Proof. intros v. unfold le32, byte. repeat constructor; lia. Qed.

Lemma le16_bytes : forall v, Forall byte (le16 v).
Proof. intros v. unfold le16, byte. repeat constructor; lia. Qed.

Lemma le32_le_val : forall a b c d, byte a -> byte b -> byte c -> byte d ->
  le32 (le_val [a; b; c; d]) = [a; b; c; d] /\ 0 <= le_val [a; b; c; d] < two32.
Proof.
  intros a b c d Ha Hb Hc Hd. unfold le32, le_val, byte, two32 in *.
  split; [|lia]. repeat f_equal; lia.
Qed.

Lemma le16_le_val : forall a b, byte a -> byte b -> le16 (le_val [a; b]) = [a; b] /\ 0 <= le_val [a; b] < 65536.
Proof.
  intros a b Ha Hb. unfold le16, le_val, byte in *. split; [|lia]. repeat f_equal; lia.
Qed.

Lemma le_val_le16 : forall v, 0 <= v < 65536 -> le_val (le16 v) = v.
Proof. intros v Hv. unfold le16, le_val. lia. Qed.

Lemma read32_le32 : forall v r, 0 <= v < two32 -> read32 (le32 v ++ r) = Some (v, r).
Proof.
  intros v r Hv. unfold le32. cbn [app read32].
  pose proof (le_val_le32 v ltac:(unfold two32 in Hv; change (2 ^ 32) with 4294967296; lia)) as E.
  unfold le32 in E. rewrite E. reflexivity.
Qed.

Lemma read16_le16 : forall v r, 0 <= v < 65536 -> read16 (le16 v ++ r) = Some (v, r).
Proof.
  intros v r Hv. unfold le16. cbn [app read16].
  pose proof (le_val_le16 v Hv) as E. unfold le16 in E. rewrite E. reflexivity.
Qed.

Lemma read32_inv : forall l v r, read32 l = Some (v, r) -> Forall byte l ->
  l = le32 v ++ r /\ 0 <= v < two32 /\ Forall byte r.
Proof.
  intros l v r H Hb. destruct l as [|a [|b [|c [|d rest]]]]; try discriminate.
  assert (Hv : v = le_val [a; b; c; d] /\ r = rest) by (change (Some (le_val [a; b; c; d], rest) = Some (v, r)) in H; split; congruence).
  destruct Hv as [-> ->]. clear H.
  inversion Hb as [|? ? Ha Hb1]; subst. inversion Hb1 as [|? ? Hbb Hb2]; subst.
  inversion Hb2 as [|? ? Hc Hb3]; subst. inversion Hb3 as [|? ? Hd Hb4]; subst.
  destruct (le32_le_val a b c d Ha Hbb Hc Hd) as [E R]. rewrite E. auto.
Qed.

Lemma read16_inv : forall l v r, read16 l = Some (v, r) -> Forall byte l ->
  l = le16 v ++ r /\ 0 <= v < 65536 /\ Forall byte r.
Proof.
  intros l v r H Hb. destruct l as [|a [|b rest]]; try discriminate.
  assert (Hv : v = le_val [a; b] /\ r = rest) by (change (Some (le_val [a; b], rest) = Some (v, r)) in H; split; congruence).
  destruct Hv as [-> ->]. clear H.
  inversion Hb as [|? ? Ha Hb1]; subst. inversion Hb1 as [|? ? Hbb Hb2]; subst.
  destruct (le16_le_val a b Ha Hbb) as [E R]. rewrite E. auto.
Qed.

Lemma split_at_app : forall a r, split_at (zlen a) (a ++ r) = Some (a, r).
Proof.
  intros a r. unfold split_at, zlen. rewrite app_length.
  destruct (Z.ltb_spec (Z.of_nat (length a)) 0); [lia|].
  destruct (Z.ltb_spec (Z.of_nat (length a + length r)) (Z.of_nat (length a))); [lia|]. cbn [orb].
  rewrite Nat2Z.id, firstn_app, firstn_all, Nat.sub_diag, skipn_app, skipn_all, Nat.sub_diag.
  cbn [firstn skipn app]. rewrite app_nil_r. reflexivity.
Qed.

Lemma split_at_inv : forall n l a r, split_at n l = Some (a, r) -> l = a ++ r /\ zlen a = n.
Proof.
  intros n l a r H. unfold split_at in H.
  destruct (Z.ltb_spec n 0); [discriminate|]. destruct (Z.ltb_spec (zlen l) n); [discriminate|].
  cbn [orb] in H. inversion H; subst. split; [symmetry; apply firstn_skipn|].
  unfold zlen in *. rewrite firstn_length. lia.
Qed.

(* ---------------- sizes ---------------- *)

Lemma part_bytes_length : forall p, zlen (part_bytes p) = part_size p.
Proof. intros p. unfold part_bytes, part_size, zlen. rewrite !app_length, !le32_length. lia. Qed.

Lemma parts_bytes_length : forall ps, zlen (flat_map part_bytes ps) = parts_size ps.
Proof.
  induction ps as [|p ps IH]; [reflexivity|]. cbn [flat_map parts_size].
  unfold zlen in *. rewrite app_length, Nat2Z.inj_add, IH. pose proof (part_bytes_length p). unfold zlen in *. lia.
Qed.

Lemma part_offsets_length : forall ps pos, length (part_offsets pos ps) = length ps.
Proof. induction ps; intros; cbn [part_offsets length]; auto. Qed.

Lemma offsets_bytes_length : forall offs, zlen (flat_map (fun o => le32 (o mod two32)) offs) = 4 * zlen offs.
Proof.
  induction offs as [|o offs IH]; [reflexivity|]. cbn [flat_map]. unfold zlen in *.
  rewrite app_length, le32_length. cbn [length]. lia.
Qed.

Lemma parts_size_nonneg : forall ps, 0 <= parts_size ps.
Proof. induction ps as [|p ps IH]; cbn [parts_size]; unfold part_size, zlen in *; lia. Qed.

Theorem build_length : forall d ps, length d = 16%nat -> zlen (build d ps) = total_size ps.
Proof.
  intros d ps Hd. unfold build, total_size, header_size.
  unfold zlen at 1. rewrite !app_length, !le32_length. cbn [le16 length]. rewrite Hd.
  pose proof (offsets_bytes_length (part_offsets (32 + 4 * zlen ps) ps)) as Ho.
  pose proof (parts_bytes_length ps) as Hp. unfold zlen in *.
  rewrite part_offsets_length in Ho. lia.
Qed.

(* ---------------- build then parse ---------------- *)

Definition part_ok (p : part) : Prop :=
  0 <= p_fourcc p < two32 /\ Forall byte (p_data p) /\ zlen (p_data p) < two32.

Lemma part_bytes_bytes : forall p, part_ok p -> Forall byte (part_bytes p).
Proof.
  intros p (_ & Hb & _). unfold part_bytes. apply Forall_app. split; [apply le32_bytes|].
  apply Forall_app. split; [apply le32_bytes | exact Hb].
Qed.

Lemma flat_map_bytes : forall {A} (f : A -> list Z) l, (forall x, In x l -> Forall byte (f x)) -> Forall byte (flat_map f l).
Proof.
  intros A f l H. induction l as [|x l IH]; [constructor|]. cbn [flat_map]. apply Forall_app. split.
  - apply H. left. reflexivity.
  - apply IH. intros y Hy. apply H. right. exact Hy.
Qed.

Lemma read32s_offsets : forall offs r, Forall (fun o => 0 <= o < two32) offs ->
  read32s (length offs) (flat_map (fun o => le32 (o mod two32)) offs ++ r) = Some (offs, r).
Proof.
  induction offs as [|o offs IH]; intros r H; [reflexivity|].
  inversion H as [|? ? Ho H']; subst. cbn [length read32s flat_map]. rewrite <- app_assoc.
  rewrite Z.mod_small by exact Ho. rewrite read32_le32 by exact Ho. rewrite IH by exact H'. reflexivity.
Qed.

Lemma parse_parts_build : forall ps pos, Forall part_ok ps ->
  parse_parts (part_offsets pos ps) pos (flat_map part_bytes ps) = Some ps.
Proof.
  induction ps as [|p ps IH]; intros pos H; [reflexivity|].
  inversion H as [|? ? Hp H']; subst. destruct Hp as (Hf & Hb & Hs).
  cbn [part_offsets parse_parts flat_map]. rewrite Z.eqb_refl.
  unfold part_bytes. rewrite <- !app_assoc.
  rewrite Z.mod_small by exact Hf. rewrite read32_le32 by exact Hf.
  assert (0 <= zlen (p_data p)) by (unfold zlen; lia).
  rewrite Z.mod_small by lia. rewrite read32_le32 by lia.
  rewrite split_at_app.
  replace (pos + 8 + zlen (p_data p)) with (pos + part_size p) by (unfold part_size; lia).
  rewrite IH by exact H'. destruct p; reflexivity.
Qed.

Lemma part_offsets_bound : forall ps pos, 0 <= pos ->
  Forall (fun o => pos <= o /\ o <= pos + parts_size ps) (part_offsets pos ps).
Proof.
  induction ps as [|p ps IH]; intros pos Hp; [constructor|].
  cbn [part_offsets parts_size]. pose proof (parts_size_nonneg ps).
  assert (8 <= part_size p) by (unfold part_size, zlen; lia).
  constructor; [lia|].
  eapply Forall_impl; [|apply (IH (pos + part_size p)); lia]. cbn beta. intros o (? & ?). lia.
Qed.

Theorem dxbc_roundtrip : forall d ps, length d = 16%nat -> Forall byte d -> Forall part_ok ps ->
  total_size ps < two32 -> parse (build d ps) = Some (d, ps).
Proof.
  intros d ps Hd Hdb Hps Htot.
  pose proof (build_length d ps Hd) as Hlen.
  pose proof (parts_size_nonneg ps) as Hpsz.
  assert (Hn : 0 <= zlen ps) by (unfold zlen; lia).
  assert (Hbytes : forallb is_byte (build d ps) = true).
  { apply forallb_bytes. unfold build.
    repeat (apply Forall_app; split); try apply le32_bytes; try apply le16_bytes; try exact Hdb.
    - apply flat_map_bytes. intros; apply le32_bytes.
    - apply flat_map_bytes. intros p Hp. apply part_bytes_bytes. rewrite Forall_forall in Hps. apply Hps, Hp. }
  unfold parse. rewrite Hbytes. cbn [negb]. rewrite Hlen.
  unfold build. unfold total_size, header_size in *.
  rewrite read32_le32 by (vm_compute; split; [discriminate | reflexivity]).
  rewrite Z.eqb_refl. cbn [negb].
  replace 16 with (zlen d) by (unfold zlen; rewrite Hd; reflexivity). rewrite split_at_app.
  rewrite read16_le16 by lia. rewrite read16_le16 by lia. cbn [Z.eqb Pos.eqb andb negb].
  rewrite Z.mod_small by lia. rewrite read32_le32 by lia.
  rewrite Z.eqb_refl. cbn [negb].
  rewrite Z.mod_small by lia. rewrite read32_le32 by lia.
  match goal with |- context [zlen ?l <? 4 * zlen ps] => assert (Hl : 4 * zlen ps <= zlen l) end.
  { unfold zlen at 2. rewrite app_length, Nat2Z.inj_add.
    pose proof (offsets_bytes_length (part_offsets (32 + 4 * zlen ps) ps)) as Ho. unfold zlen in Ho at 1.
    rewrite Ho. unfold zlen at 2. rewrite part_offsets_length. fold (zlen ps). lia. }
  destruct (Z.ltb_spec (zlen (flat_map (fun o : Z => le32 (o mod two32)) (part_offsets (32 + 4 * zlen ps) ps) ++ flat_map part_bytes ps)) (4 * zlen ps)); [lia|].
  unfold zlen at 1. rewrite Nat2Z.id.
  rewrite <- (part_offsets_length ps (32 + 4 * zlen ps)).
  rewrite read32s_offsets.
  - rewrite parse_parts_build by exact Hps. reflexivity.
  - eapply Forall_impl; [|apply part_offsets_bound; lia]. cbn beta. intros o (? & ?). lia.
Qed.

(* ---------------- parse then build (soundness of the parser) ---------------- *)

Lemma read32s_inv : forall n l offs r, read32s n l = Some (offs, r) -> Forall byte l ->
  l = flat_map (fun o => le32 (o mod two32)) offs ++ r /\ length offs = n /\
  Forall (fun o => 0 <= o < two32) offs /\ Forall byte r.
Proof.
  induction n; intros l offs r H Hb.
  - cbn [read32s] in H. inversion H; subst. auto.
  - cbn [read32s] in H. destruct (read32 l) as [[v l1]|] eqn:E1; try discriminate.
    destruct (read32s n l1) as [[vs l2]|] eqn:E2; try discriminate.
    assert (Ho : offs = v :: vs /\ r = l2) by (split; congruence). destruct Ho as [-> ->].
    destruct (read32_inv _ _ _ E1 Hb) as (-> & Hv & Hb1).
    destruct (IHn _ _ _ E2 Hb1) as (-> & Hl & Hf & Hb2).
    cbn [flat_map length]. rewrite Z.mod_small by exact Hv. rewrite <- app_assoc.
    repeat split; auto.
Qed.

Lemma parse_parts_inv : forall offs pos l ps, parse_parts offs pos l = Some ps -> Forall byte l ->
  l = flat_map part_bytes ps /\ offs = part_offsets pos ps /\ Forall part_ok ps.
Proof.
  induction offs as [|o offs IH]; intros pos l ps H Hb.
  - cbn [parse_parts] in H. destruct l; try discriminate. inversion H; subst. auto.
  - cbn [parse_parts] in H. destruct (Z.eqb_spec o pos) as [->|]; try discriminate.
    destruct (read32 l) as [[fc l1]|] eqn:E1; try discriminate.
    destruct (read32 l1) as [[sz l2]|] eqn:E2; try discriminate.
    destruct (split_at sz l2) as [[d l3]|] eqn:E3; try discriminate.
    destruct (parse_parts offs (pos + 8 + sz) l3) as [ps'|] eqn:E4; try discriminate.
    inversion H; subst. clear H.
    destruct (read32_inv _ _ _ E1 Hb) as (-> & Hfc & Hb1).
    destruct (read32_inv _ _ _ E2 Hb1) as (-> & Hsz & Hb2).
    destruct (split_at_inv _ _ _ _ E3) as (-> & Hlen).
    apply Forall_app in Hb2. destruct Hb2 as [Hbd Hb3].
    destruct (IH _ _ _ E4 Hb3) as (-> & -> & Hok).
    cbn [flat_map part_offsets].
    assert (Hpb : part_bytes (mkPart fc d) = le32 fc ++ le32 sz ++ d).
    { unfold part_bytes. cbn [p_fourcc p_data]. rewrite Hlen, !Z.mod_small by lia. reflexivity. }
    rewrite Hpb, <- !app_assoc. unfold part_size. cbn [p_data]. rewrite Hlen.
    split; [reflexivity|]. split; [f_equal; f_equal; lia|].
    constructor; [|exact Hok]. unfold part_ok. cbn [p_fourcc p_data]. rewrite Hlen. repeat split; auto; lia.
Qed.

(* an accepted byte string IS the canonical serialization of what was parsed *)
Theorem parse_sound : forall b d ps, parse b = Some (d, ps) ->
  b = build d ps /\ length d = 16%nat /\ Forall byte d /\ Forall part_ok ps /\
  total_size ps = zlen b /\ total_size ps < two32.
Proof.
  intros b d ps H. unfold parse in H.
  destruct (forallb is_byte b) eqn:Hby; cbn [negb] in H; try discriminate.
  apply forallb_bytes in Hby.
  destruct (read32 b) as [[magic b1]|] eqn:E1; try discriminate.
  destruct (Z.eqb_spec magic FourCC_DXBC) as [->|]; cbn [negb] in H; try discriminate.
  destruct (split_at 16 b1) as [[dg b2]|] eqn:E2; try discriminate.
  destruct (read16 b2) as [[vmaj b3]|] eqn:E3; try discriminate.
  destruct (read16 b3) as [[vmin b4]|] eqn:E4; try discriminate.
  destruct (Z.eqb_spec vmaj 1) as [->|]; cbn [andb negb] in H; try discriminate.
  destruct (Z.eqb_spec vmin 0) as [->|]; cbn [negb] in H; try discriminate.
  destruct (read32 b4) as [[fsize b5]|] eqn:E5; try discriminate.
  destruct (Z.eqb_spec fsize (zlen b)) as [Hfs|]; cbn [negb] in H; try discriminate.
  destruct (read32 b5) as [[n b6]|] eqn:E6; try discriminate.
  destruct (Z.ltb_spec (zlen b6) (4 * n)); try discriminate.
  destruct (read32s (Z.to_nat n) b6) as [[offs b7]|] eqn:E7; try discriminate.
  destruct (parse_parts offs (header_size n) b7) as [ps'|] eqn:E8; try discriminate.
  assert (Hd : d = dg /\ ps = ps') by (split; congruence). destruct Hd as [-> ->]. clear H.
  destruct (read32_inv _ _ _ E1 Hby) as (Eb & _ & Hb1).
  destruct (split_at_inv _ _ _ _ E2) as (-> & Hdl).
  apply Forall_app in Hb1. destruct Hb1 as [Hdb Hb2].
  destruct (read16_inv _ _ _ E3 Hb2) as (-> & _ & Hb3).
  destruct (read16_inv _ _ _ E4 Hb3) as (-> & _ & Hb4).
  destruct (read32_inv _ _ _ E5 Hb4) as (-> & Hfsr & Hb5).
  destruct (read32_inv _ _ _ E6 Hb5) as (-> & Hn & Hb6).
  destruct (read32s_inv _ _ _ _ E7 Hb6) as (-> & Hol & Hof & Hb7).
  destruct (parse_parts_inv _ _ _ _ E8 Hb7) as (-> & -> & Hok).
  rewrite part_offsets_length in Hol.
  assert (Hnn : n = zlen ps') by (unfold zlen; lia).
  assert (Hd16 : length dg = 16%nat) by (unfold zlen in Hdl; lia).
  assert (Hb : b = build dg ps').
  { rewrite Eb. unfold build. subst n. f_equal. f_equal. f_equal. f_equal.
    assert (Ht : fsize = total_size ps').
    { rewrite Hfs. rewrite <- (build_length dg ps' Hd16). rewrite Eb. unfold build, zlen.
      rewrite !app_length, !le32_length. reflexivity. }
    rewrite Ht. rewrite (Z.mod_small (total_size ps')) by (rewrite <- Ht; exact Hfsr).
    rewrite (Z.mod_small (zlen ps')) by exact Hn. reflexivity. }
  split; [exact Hb|]. split; [exact Hd16|]. split; [exact Hdb|]. split; [exact Hok|].
  assert (Hzl : zlen b = total_size ps') by (rewrite Hb at 1; apply build_length; exact Hd16).
  split; [symmetry; exact Hzl|]. rewrite <- Hzl, <- Hfs. apply Hfsr.
Qed.

(* ---------------- layout facts ---------------- *)

Lemma offsets_chain_build : forall ps pos, offsets_chain (part_offsets pos ps) ps.
Proof.
  induction ps as [|p ps IH]; intros pos; [exact I|].
  destruct ps as [|q ps]; [exact I|].
  cbn [part_offsets] in *. cbn [offsets_chain]. unfold part_size, zlen.
  split; [lia|]. split; [lia|]. apply (IH (pos + (8 + Z.of_nat (length (p_data p))))).
Qed.

Lemma part_offsets_in_bounds_gen : forall ps pos lo hi, lo <= pos -> pos + parts_size ps <= hi ->
  Forall2 (fun o p => lo <= o /\ o + 8 + zlen (p_data p) <= hi) (part_offsets pos ps) ps.
Proof.
  induction ps as [|p ps IH]; intros pos lo hi Hlo Hhi; [constructor|].
  cbn [part_offsets parts_size] in *. pose proof (parts_size_nonneg ps).
  assert (8 <= part_size p) by (unfold part_size, zlen; lia).
  constructor; [unfold part_size in *; lia|].
  apply IH; lia.
Qed.

Lemma part_offsets_in_bounds : forall ps pos,
  Forall2 (fun o p => pos <= o /\ o + 8 + zlen (p_data p) <= pos + parts_size ps) (part_offsets pos ps) ps.
Proof. intros. apply part_offsets_in_bounds_gen; lia. Qed.

(* file size, offsets in bounds, strictly increasing, offset_{i+1} = offset_i + 8 + size_i;
   the first part starts right after the offset table *)
Theorem dxbc_sizes_consistent : forall d ps, length d = 16%nat ->
  let offs := part_offsets (header_size (zlen ps)) ps in
  zlen (build d ps) = total_size ps /\
  length offs = length ps /\
  offsets_chain offs ps /\
  Forall2 (fun o p => header_size (zlen ps) <= o /\ o + 8 + zlen (p_data p) <= total_size ps) offs ps /\
  (forall o offs', offs = o :: offs' -> o = 32 + 4 * zlen ps).
Proof.
  intros d ps Hd offs. split; [apply build_length; exact Hd|]. split; [apply part_offsets_length|].
  split; [apply offsets_chain_build|]. split; [apply part_offsets_in_bounds|].
  intros o offs' H. unfold offs in H. destruct ps; cbn [part_offsets] in H; [discriminate|].
  inversion H; subst. reflexivity.
Qed.

(* the same facts for any byte string the parser accepts *)
Corollary parsed_sizes_consistent : forall b d ps, parse b = Some (d, ps) ->
  b = build d ps /\ zlen b = total_size ps /\
  offsets_chain (part_offsets (header_size (zlen ps)) ps) ps /\
  Forall2 (fun o p => header_size (zlen ps) <= o /\ o + 8 + zlen (p_data p) <= zlen b)
          (part_offsets (header_size (zlen ps)) ps) ps.
Proof.
  intros b d ps H. destruct (parse_sound b d ps H) as (Hb & Hd & _ & _ & Ht & _).
  split; [exact Hb|]. split; [congruence|]. split; [apply offsets_chain_build|].
  rewrite <- Ht. apply part_offsets_in_bounds.
Qed.

(* ---------------- digest and program header ---------------- *)

Theorem set_digest_build : forall d d' ps, length d = 16%nat -> length d' = 16%nat ->
  set_digest d' (build d ps) = build d' ps.
Proof.
  intros d d' ps Hd Hd'. unfold set_digest. rewrite build_length by exact Hd.
  pose proof (parts_size_nonneg ps). assert (0 <= zlen ps) by (unfold zlen; lia).
  destruct (Z.ltb_spec (total_size ps) 20); [unfold total_size, header_size in *; lia|].
  unfold build.
  change (le32 FourCC_DXBC) with [FourCC_DXBC mod 256; (FourCC_DXBC / 256) mod 256; (FourCC_DXBC / 65536) mod 256; (FourCC_DXBC / 16777216) mod 256].
  cbn [app firstn]. f_equal. f_equal. f_equal. f_equal.
  destruct d as [|d0 [|d1 [|d2 [|d3 [|d4 [|d5 [|d6 [|d7 [|d8 [|d9 [|d10 [|d11 [|d12 [|d13 [|d14 [|d15 [|]]]]]]]]]]]]]]]]]; try discriminate.
  reflexivity.
Qed.

Definition program_ok (kind major minor : Z) (bc : list Z) : Prop :=
  0 <= kind < 65536 /\ 0 <= major < 4096 /\ 0 <= minor < 16 /\ zlen bc mod 4 = 0 /\ 24 + zlen bc < two32.

Lemma program_version_fields : forall k ma mi, 0 <= k < 65536 -> 0 <= ma < 4096 -> 0 <= mi < 16 ->
  program_version k ma mi = k * 65536 + ma * 16 + mi.
Proof.
  intros k ma mi Hk Hma Hmi. unfold program_version, two32.
  rewrite !Z.mod_small by lia.
  replace (k * 65536) with (k * 2 ^ 16) by lia. replace (ma * 16) with (ma * 2 ^ 4) by lia.
  rewrite (Z.lor_comm (k * 2 ^ 16)). rewrite lor_add_disjoint by lia.
  rewrite Z.lor_comm.
  replace (ma * 2 ^ 4 + k * 2 ^ 16) with ((ma + k * 4096) * 2 ^ 4) by lia.
  rewrite lor_add_disjoint by lia. lia.
Qed.

(* the program header AddDXILPart writes decodes to the stage kind and shader model it was given *)
Theorem program_header_roundtrip : forall k ma mi bc, program_ok k ma mi bc ->
  parse_program (program_bytes k ma mi bc) = Some (mkProg k ma mi mi bc).
Proof.
  intros k ma mi bc (Hk & Hma & Hmi & Hal & Hsz).
  assert (Hz : 0 <= zlen bc) by (unfold zlen; lia).
  unfold program_bytes, parse_program.
  rewrite program_version_fields by assumption.
  rewrite read32_le32 by (unfold two32; lia).
  rewrite (Z.mod_small (zlen bc)) by (unfold two32 in *; lia).
  rewrite (Z.mod_small (24 + zlen bc)) by (unfold two32 in *; lia).
  rewrite read32_le32 by (unfold two32 in *; lia).
  rewrite read32_le32 by (unfold two32; lia).
  assert (Hdv : Z.lor 256 mi = 256 + mi).
  { rewrite Z.lor_comm. change 256 with (1 * 2 ^ 8). rewrite lor_add_disjoint by lia. lia. }
  rewrite Hdv.
  rewrite read32_le32 by (unfold two32; lia).
  rewrite read32_le32 by (unfold two32; lia).
  rewrite read32_le32 by (unfold two32 in *; lia).
  rewrite !Z.eqb_refl. cbn [andb].
  destruct (Z.eqb_spec (zlen bc mod 4) 0); [|lia].
  destruct (Z.eqb_spec ((256 + mi) / 256) 1); [|lia].
  destruct (Z.eqb_spec ((k * 65536 + ma * 16 + mi) / 4294967296) 0); [|lia].
  cbn [andb]. f_equal. f_equal; lia.
Qed.

Theorem program_header_sound : forall dt g, parse_program dt = Some g -> Forall byte dt ->
  zlen dt = 24 + zlen (pg_bitcode g) /\ zlen (pg_bitcode g) mod 4 = 0 /\
  0 <= pg_minor g < 16 /\ 0 <= pg_major g < 4096 /\ 0 <= pg_kind g < 65536 /\
  exists ver dver, dt = le32 ver ++ le32 ((24 + zlen (pg_bitcode g)) / 4) ++ le32 1279875140 ++ le32 dver ++
                        le32 16 ++ le32 (zlen (pg_bitcode g)) ++ pg_bitcode g /\
                   ver = pg_kind g * 65536 + pg_major g * 16 + pg_minor g /\ dver = 256 + pg_dxil_minor g.
Proof.
  intros dt g H Hb. unfold parse_program in H.
  destruct (read32 dt) as [[ver d1]|] eqn:E1; try discriminate.
  destruct (read32 d1) as [[words d2]|] eqn:E2; try discriminate.
  destruct (read32 d2) as [[magic d3]|] eqn:E3; try discriminate.
  destruct (read32 d3) as [[dver d4]|] eqn:E4; try discriminate.
  destruct (read32 d4) as [[off d5]|] eqn:E5; try discriminate.
  destruct (read32 d5) as [[sz bc]|] eqn:E6; try discriminate.
  destruct ((magic =? 1279875140) && (off =? 16) && (sz =? zlen bc) && (words =? (24 + sz) / 4) &&
            (sz mod 4 =? 0) && (dver / 256 =? 1) && (ver / 4294967296 =? 0)) eqn:C; try discriminate.
  inversion H; subst g; clear H. cbn [pg_kind pg_major pg_minor pg_dxil_minor pg_bitcode].
  repeat (apply andb_prop in C; destruct C as [C ?]).
  destruct (read32_inv _ _ _ E1 Hb) as (-> & Hver & Hb1).
  destruct (read32_inv _ _ _ E2 Hb1) as (-> & _ & Hb2).
  destruct (read32_inv _ _ _ E3 Hb2) as (-> & _ & Hb3).
  destruct (read32_inv _ _ _ E4 Hb3) as (-> & Hdver & Hb4).
  destruct (read32_inv _ _ _ E5 Hb4) as (-> & _ & Hb5).
  destruct (read32_inv _ _ _ E6 Hb5) as (-> & _ & _).
  assert (magic = 1279875140) by lia. assert (off = 16) by lia. assert (sz = zlen bc) by lia.
  assert (words = (24 + sz) / 4) by lia. subst.
  unfold two32 in *.
  split; [unfold zlen; rewrite !app_length, !le32_length; lia|].
  split; [lia|]. split; [lia|]. split; [lia|]. split; [lia|].
  exists ver, dver. split; [reflexivity|]. split; lia.
Qed.
