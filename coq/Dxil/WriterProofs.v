(* C18: the writer machine (bitcode/writer.go) refines the abstract encoder:
   WriteBits/WriteVBR/Align32/EmitRecord append exactly the abstract bits;
   EnterBlock/ExitBlock back-patch the correct block length; serializing a tree
   through the machine yields the bytes of the abstract stream encoding. *)
From Coq Require Import List ZArith Bool Lia.
Import ListNotations.
Require Import Naga.Dxil.BitsModel Naga.Dxil.BitsProofs Naga.Dxil.BitstreamModel Naga.Dxil.BitstreamProofs.
Open Scope Z_scope.

Definition Inv (s : wstate) : Prop :=
  0 <= wbits s < 32 /\ 0 <= wbuf s < 2 ^ wbits s /\ Z.of_nat (length (wdata s)) mod 4 = 0.

Definition pending (s : wstate) : list bool := bits_of (Z.to_nat (wbits s)) (wbuf s).
Definition wabs (s : wstate) : list bool := bits_of_bytes (wdata s) ++ pending s.
Definition wpos (s : wstate) : Z := 8 * Z.of_nat (length (wdata s)) + wbits s.

(* s' is s with `bits` appended (and nothing else changed) *)
Definition appends (s s' : wstate) (bits : list bool) : Prop :=
  exists X, wdata s' = wdata s ++ X /\ waw s' = waw s /\ wblocks s' = wblocks s /\ Inv s' /\
            bits_of_bytes X ++ pending s' = pending s ++ bits.

Lemma appends_refl : forall s, Inv s -> appends s s [].
Proof. intros s H. exists []. rewrite !app_nil_r. cbn [bits_of_bytes flat_map app]. auto. Qed.

Lemma appends_trans : forall s1 s2 s3 b1 b2, appends s1 s2 b1 -> appends s2 s3 b2 -> appends s1 s3 (b1 ++ b2).
Proof.
  intros s1 s2 s3 b1 b2 (X1 & D1 & A1 & B1 & I1 & E1) (X2 & D2 & A2 & B2 & I2 & E2).
  exists (X1 ++ X2). rewrite D2, D1, app_assoc. repeat split; try congruence; try apply I2.
  rewrite bits_of_bytes_app, <- app_assoc, E2, app_assoc, E1, app_assoc. reflexivity.
Qed.

Lemma appends_pos : forall s s' b, Inv s -> appends s s' b -> wpos s' = wpos s + Z.of_nat (length b).
Proof.
  intros s s' b Hi (X & D & _ & _ & I' & E).
  apply (f_equal (@length bool)) in E. rewrite !app_length in E. unfold pending in E.
  rewrite !bits_of_length, bits_of_bytes_length in E.
  unfold wpos. rewrite D, app_length. destruct Hi as [? _]. destruct I' as [? _]. lia.
Qed.

Lemma appends_abs : forall s s' b, appends s s' b -> wabs s' = wabs s ++ b.
Proof.
  intros s s' b (X & D & _ & _ & _ & E). unfold wabs. rewrite D, bits_of_bytes_app, <- !app_assoc, E. reflexivity.
Qed.

Lemma pow2_pos : forall n, 0 <= n -> 0 < 2 ^ n.
Proof. intros. apply Z.pow_pos_nonneg; lia. Qed.

Lemma pow2_mono : forall a b, 0 <= a <= b -> 2 ^ a <= 2 ^ b.
Proof. intros. apply Z.pow_le_mono_r; lia. Qed.

(* ---------------- WriteBits ---------------- *)

Lemma write_bits_appends : forall s d w, Inv s -> 0 <= w <= 32 -> 0 <= d < 2 ^ w ->
  appends s (write_bits s d w) (bits_of (Z.to_nat w) d).
Proof.
  intros s d w (Hb & Hbuf & Hlen) Hw Hd.
  unfold write_bits. cbn [wbits wdata wbuf waw wblocks].
  set (bb := wbits s) in *. set (buf := wbuf s) in *.
  assert (Hsh : shl64 d bb = d * 2 ^ bb).
  { unfold shl64. destruct (Z.ltb_spec bb 64); [|lia]. apply Z.mod_small.
    pose proof (pow2_pos bb ltac:(lia)).
    assert (d * 2 ^ bb < 2 ^ w * 2 ^ bb) by nia.
    rewrite <- Z.pow_add_r in H1 by lia.
    pose proof (pow2_mono (w + bb) 64 ltac:(lia)). unfold two64. change (2 ^ 64) with 18446744073709551616 in *. nia. }
  rewrite Hsh. rewrite lor_add_disjoint by lia.
  set (buf' := buf + d * 2 ^ bb).
  assert (Hbuf' : 0 <= buf' < 2 ^ (bb + w)).
  { unfold buf'. pose proof (pow2_pos bb ltac:(lia)). rewrite Z.pow_add_r by lia. nia. }
  assert (Hcomb : bits_of (Z.to_nat bb + Z.to_nat w) buf' = bits_of (Z.to_nat bb) buf ++ bits_of (Z.to_nat w) d).
  { unfold buf'. replace (2 ^ bb) with (2 ^ Z.of_nat (Z.to_nat bb)) by (rewrite Z2Nat.id by lia; reflexivity).
    apply bits_of_combine. rewrite Z2Nat.id by lia. lia. }
  destruct (Z.geb_spec (bb + w) 32) as [Hge|Hlt].
  - (* flush *)
    exists (le32 (buf' mod two32)). unfold flush_dword. cbn [wbits wdata wbuf waw wblocks].
    repeat split; try reflexivity; cbn [wbits wdata wbuf]; try lia.
    + apply Z.div_pos; [lia | unfold two32; lia].
    + apply Z.div_lt_upper_bound; [unfold two32; lia|].
      replace (two32 * 2 ^ (bb + w - 32)) with (2 ^ (bb + w)); [lia|].
      unfold two32. change 4294967296 with (2 ^ 32). rewrite <- Z.pow_add_r by lia. f_equal. lia.
    + rewrite app_length, le32_length, Nat2Z.inj_add. change (Z.of_nat 4) with (1 * 4).
      rewrite Z.mod_add by lia. exact Hlen.
    + unfold pending. cbn [wbits wbuf]. rewrite le32_bits.
      unfold two32. change 4294967296 with (2 ^ Z.of_nat 32). rewrite bits_of_mod.
      fold bb. fold buf. rewrite <- Hcomb.
      replace (Z.to_nat bb + Z.to_nat w)%nat with (32 + Z.to_nat (bb + w - 32))%nat by lia.
      rewrite bits_of_add. reflexivity.
  - exists []. cbn [wbits wdata wbuf waw wblocks]. rewrite app_nil_r.
    repeat split; try reflexivity; cbn [wbits wdata wbuf]; try lia; try exact Hlen.
    unfold pending. cbn [wbits wbuf bits_of_bytes flat_map app]. fold bb. fold buf.
    rewrite <- Hcomb. f_equal. lia.
Qed.

(* ---------------- Align32 ---------------- *)

Lemma wpos_mod : forall s, Inv s -> wpos s mod 32 = wbits s.
Proof.
  intros s (Hb & _ & Hlen). unfold wpos.
  pose proof (Z.div_mod (Z.of_nat (length (wdata s))) 4 ltac:(lia)) as E. rewrite Hlen in E.
  rewrite E. replace (8 * (4 * (Z.of_nat (length (wdata s)) / 4) + 0) + wbits s)
    with (wbits s + (Z.of_nat (length (wdata s)) / 4) * 32) by lia.
  rewrite Z.mod_add by lia. apply Z.mod_small. lia.
Qed.

Lemma align32_appends : forall s, Inv s ->
  appends s (align32 s) (zeros (padlen (wpos s))) /\ wbits (align32 s) = 0 /\ wbuf (align32 s) = 0.
Proof.
  intros s Hi. pose proof (wpos_mod s Hi) as Hm. destruct Hi as (Hb & Hbuf & Hlen).
  unfold align32. destruct (Z.gtb_spec (wbits s) 0) as [Hpos|Hz].
  - unfold flush_dword. cbn [wbits wdata wbuf waw wblocks].
    assert (Hlt : wbuf s < two32).
    { pose proof (pow2_mono (wbits s) 32 ltac:(lia)). unfold two32. change (2 ^ 32) with 4294967296 in *. lia. }
    split; [|split; [lia | apply Z.div_small; lia]].
    exists (le32 (wbuf s mod two32)). cbn [wbits wdata wbuf waw wblocks].
    repeat split; try reflexivity; cbn [wbits wdata wbuf]; try lia.
    + rewrite Z.div_small by lia. lia.
    + rewrite Z.div_small by lia. change (2 ^ (32 - 32)) with 1. lia.
    + rewrite app_length, le32_length, Nat2Z.inj_add. change (Z.of_nat 4) with (1 * 4).
      rewrite Z.mod_add by lia. exact Hlen.
    + unfold pending. cbn [wbits wbuf]. change (Z.to_nat (32 - 32)) with 0%nat. cbn [bits_of]. rewrite app_nil_r.
      rewrite le32_bits, Z.mod_small by lia.
      unfold padlen. rewrite Hm.
      rewrite (Z.mod_small (32 - wbits s)) by lia.
      replace 32%nat with (Z.to_nat (wbits s) + Z.to_nat (32 - wbits s))%nat by lia.
      rewrite bits_of_add. f_equal.
      rewrite Z2Nat.id by lia. rewrite Z.div_small by lia. apply bits_of_zero.
  - assert (Hz0 : wbits s = 0) by lia.
    assert (wbuf s = 0) by (rewrite Hz0 in Hbuf; change (2 ^ 0) with 1 in Hbuf; lia).
    split; [|split; assumption].
    rewrite padlen_aligned by lia. cbn [zeros repeat].
    apply appends_refl. repeat split; lia.
Qed.

(* ---------------- WriteVBR ---------------- *)

Lemma vbr_consts : forall w, 2 <= w <= 32 ->
  vbr_sh w = w - 1 /\ vbr_tag w = 2 ^ (w - 1) /\ vbr_mask w = 2 ^ (w - 1) - 1.
Proof.
  intros w Hw. unfold vbr_mask, vbr_tag, vbr_sh, shl32.
  rewrite (Z.mod_small (w - 1) two64) by (unfold two64; lia).
  destruct (Z.ltb_spec (w - 1) 32); [|lia].
  pose proof (pow2_pos (w - 1) ltac:(lia)).
  pose proof (pow2_mono (w - 1) 31 ltac:(lia)). change (2 ^ 31) with 2147483648 in *.
  rewrite Z.mul_1_l. rewrite (Z.mod_small (2 ^ (w - 1))) by (unfold two32; lia).
  repeat split; try reflexivity. apply Z.mod_small. unfold two32. lia.
Qed.

Lemma write_vbr_go_appends : forall fuel s v w, Inv s -> 2 <= w <= 32 -> 0 <= v < 2 ^ Z.of_nat fuel -> v < two64 ->
  exists s', write_vbr_go fuel s v w = Some s' /\ appends s s' (enc_vbr_fuel fuel (Z.to_nat w) v).
Proof.
  induction fuel; intros s v w Hi Hw Hv H64.
  - change (Z.of_nat 0) with 0 in Hv. rewrite Z.pow_0_r in Hv. assert (v = 0) by lia. subst.
    destruct (vbr_consts w Hw) as (Esh & Etag & Emask).
    cbn [write_vbr_go enc_vbr_fuel]. rewrite Emask.
    pose proof (pow2_pos (w - 1) ltac:(lia)).
    destruct (Z.gtb_spec 0 (2 ^ (w - 1) - 1)); [lia|].
    eexists; split; [reflexivity|]. change (0 mod two32) with 0.
    apply write_bits_appends; try assumption; try lia; try (split; [lia | apply pow2_pos; lia]).
  - destruct (vbr_consts w Hw) as (Esh & Etag & Emask).
    cbn [write_vbr_go enc_vbr_fuel]. rewrite Emask, Etag, Esh.
    replace (Z.of_nat (Z.to_nat w - 1)) with (w - 1) by lia.
    set (m := 2 ^ (w - 1)) in *.
    assert (Hm : 2 <= m).
    { unfold m. replace (w - 1) with (Z.succ (w - 2)) by lia. rewrite Z.pow_succ_r by lia.
      pose proof (pow2_pos (w - 2) ltac:(lia)). lia. }
    assert (Hm31 : m <= 2147483648).
    { unfold m. pose proof (pow2_mono (w - 1) 31 ltac:(lia)). change (2 ^ 31) with 2147483648 in *. lia. }
    assert (Hmw : 2 * m = 2 ^ w).
    { unfold m. replace w with (Z.succ (w - 1)) at 2 by lia. rewrite Z.pow_succ_r by lia. reflexivity. }
    destruct (Z.gtb_spec v (m - 1)) as [Hgt|Hle]; destruct (Z.ltb_spec v m) as [Hlt|Hge]; try lia.
    + (* continuation chunk *)
      assert (Hland : Z.land v (m - 1) = v mod m).
      { unfold m. replace (2 ^ (w - 1) - 1) with (Z.ones (w - 1)) by (rewrite Z.ones_equiv; lia).
        apply Z.land_ones. lia. }
      pose proof (Z.mod_pos_bound v m ltac:(lia)) as Hmod.
      assert (Hchunk : Z.lor (Z.land v (m - 1)) m = v mod m + m).
      { rewrite Hland. replace m with (1 * 2 ^ (w - 1)) at 2 by (unfold m; lia).
        rewrite lor_add_disjoint by (fold m; lia). fold m. lia. }
      rewrite Hchunk.
      assert (Hshr : shr64 v (w - 1) = v / m).
      { unfold shr64. destruct (Z.ltb_spec (w - 1) 64); [reflexivity | lia]. }
      rewrite Hshr.
      pose proof (write_bits_appends s (v mod m + m) w Hi ltac:(lia) ltac:(lia)) as A1.
      assert (I1 : Inv (write_bits s (v mod m + m) w)) by (destruct A1 as (? & ? & ? & ? & ? & ?); assumption).
      rewrite Nat2Z.inj_succ, Z.pow_succ_r in Hv by lia.
      assert (Hv' : 0 <= v / m < 2 ^ Z.of_nat fuel).
      { split; [apply Z.div_pos; lia|]. apply Z.div_lt_upper_bound; try lia. nia. }
      assert (H64' : v / m < two64).
      { apply Z.div_lt_upper_bound; try lia. unfold two64 in *. nia. }
      destruct (IHfuel (write_bits s (v mod m + m) w) (v / m) w I1 Hw Hv' H64') as (s' & E & A2).
      exists s'. split; [exact E|].
      eapply appends_trans; eassumption.
    + (* last chunk *)
      eexists; split; [reflexivity|].
      rewrite (Z.mod_small v two32) by (unfold two32; lia).
      apply write_bits_appends; try assumption; lia.
Qed.

Lemma write_vbr_appends : forall s v w, Inv s -> 2 <= w <= 32 -> 0 <= v < two64 ->
  exists s', write_vbr s v w = Some s' /\ appends s s' (enc_vbr (Z.to_nat w) v).
Proof.
  intros s v w Hi Hw Hv. unfold write_vbr, enc_vbr.
  assert (Hv65 : 0 <= v < 2 ^ Z.of_nat 65).
  { unfold two64 in Hv. change (2 ^ Z.of_nat 65) with 36893488147419103232. lia. }
  destruct (write_vbr_go_appends 65 s v w Hi Hw Hv65 ltac:(lia)) as (s' & E & A).
  exists s'. split; [exact E|].
  rewrite (enc_vbr_fuel_indep (S (Z.to_nat (Z.log2 v))) 65 (Z.to_nat w) v); try assumption; try lia.
  apply enc_vbr_fuel_ok. lia.
Qed.

(* ---------------- EmitRecord ---------------- *)

Definition u64 (v : Z) : Prop := 0 <= v < two64.

Lemma write_vbrs_appends : forall vals s, Inv s -> Forall u64 vals ->
  exists s', write_vbrs s vals 6 = Some s' /\ appends s s' (enc_ops vals).
Proof.
  induction vals as [|v vals IH]; intros s Hi Hv.
  - exists s. split; [reflexivity|]. apply appends_refl. exact Hi.
  - inversion Hv as [|? ? Hv1 Hv2]; subst. cbn [write_vbrs].
    destruct (write_vbr_appends s v 6 Hi ltac:(lia) Hv1) as (s1 & E1 & A1).
    rewrite E1. cbn [bind].
    assert (I1 : Inv s1) by (destruct A1 as (? & ? & ? & ? & ? & ?); assumption).
    destruct (IH s1 I1 Hv2) as (s2 & E2 & A2).
    exists s2. split; [exact E2|]. unfold enc_ops. cbn [flat_map].
    eapply appends_trans; eassumption.
Qed.

Lemma appends_inv : forall s s' b, appends s s' b -> Inv s'.
Proof. intros s s' b (? & ? & ? & ? & ? & ?). assumption. Qed.

Lemma appends_aw : forall s s' b, appends s s' b -> waw s' = waw s.
Proof. intros s s' b (? & ? & ? & ? & ? & ?). assumption. Qed.

Lemma emit_abbrev_appends : forall s w id, Inv s -> waw s = Z.of_nat w -> (2 <= w <= 32)%nat -> 0 <= id < 4 ->
  appends s (emit_abbrev_id s id) (bits_of w id).
Proof.
  intros s w id Hi Haw Hw Hid. unfold emit_abbrev_id. rewrite Haw.
  pose proof (write_bits_appends s id (Z.of_nat w) Hi ltac:(lia)) as A.
  rewrite Nat2Z.id in A. apply A. pose proof (pow2_ge w ltac:(lia)). lia.
Qed.

Lemma emit_record_appends : forall s w code vals, Inv s -> waw s = Z.of_nat w -> (2 <= w <= 32)%nat ->
  u64 code -> Forall u64 vals -> u64 (Z.of_nat (length vals)) ->
  exists s', emit_record s code vals = Some s' /\ appends s s' (enc_record w code vals).
Proof.
  intros s w code vals Hi Haw Hw Hc Hv Hn. unfold emit_record, enc_record.
  pose proof (emit_abbrev_appends s w 3 Hi Haw Hw ltac:(lia)) as A0.
  destruct (write_vbr_appends _ code 6 (appends_inv _ _ _ A0) ltac:(lia) Hc) as (s1 & E1 & A1).
  rewrite E1. cbn [bind].
  destruct (write_vbr_appends _ (Z.of_nat (length vals)) 6 (appends_inv _ _ _ A1) ltac:(lia) Hn) as (s2 & E2 & A2).
  rewrite E2. cbn [bind].
  destruct (write_vbrs_appends vals s2 (appends_inv _ _ _ A2) Hv) as (s3 & E3 & A3).
  exists s3. split; [exact E3|].
  eapply appends_trans; [exact A0|]. eapply appends_trans; [exact A1|]. eapply appends_trans; eassumption.
Qed.

(* ---------------- EnterBlock / ExitBlock ---------------- *)

Lemma enter_block_spec : forall s w id nw, Inv s -> waw s = Z.of_nat w -> (2 <= w <= 32)%nat ->
  u64 id -> (2 <= nw <= 32)%nat ->
  exists X1,
    enter_block s id (Z.of_nat nw) =
      Some (mkW (wdata s ++ X1 ++ [0; 0; 0; 0]) 0 0 (Z.of_nat nw)
                ((waw s, Z.of_nat (length (wdata s ++ X1))) :: wblocks s)) /\
    bits_of_bytes X1 = pending s ++ blk_header w id nw ++ zeros (padlen (wpos s + Z.of_nat (length (blk_header w id nw)))) /\
    Z.of_nat (length (wdata s ++ X1)) mod 4 = 0.
Proof.
  intros s w id nw Hi Haw Hw Hid Hnw. unfold enter_block.
  pose proof (emit_abbrev_appends s w 1 Hi Haw Hw ltac:(lia)) as A0.
  destruct (write_vbr_appends _ id 8 (appends_inv _ _ _ A0) ltac:(lia) Hid) as (s1 & E1 & A1).
  rewrite E1. cbn [bind].
  assert (Hnw64 : u64 (Z.of_nat nw)) by (unfold u64, two64; lia).
  destruct (write_vbr_appends _ (Z.of_nat nw) 4 (appends_inv _ _ _ A1) ltac:(lia) Hnw64) as (s2 & E2 & A2).
  rewrite E2. cbn [bind].
  destruct (align32_appends s2 (appends_inv _ _ _ A2)) as (A3 & Hb3 & Hbuf3).
  pose proof (appends_trans _ _ _ _ _ A0 (appends_trans _ _ _ _ _ A1 A2)) as A012.
  pose proof (appends_pos _ _ _ Hi A012) as Hpos.
  pose proof (appends_trans _ _ _ _ _ A012 A3) as A.
  rewrite Hpos in A.
  change (bits_of w 1 ++ enc_vbr (Z.to_nat 8) id ++ enc_vbr (Z.to_nat 4) (Z.of_nat nw)) with (blk_header w id nw) in A.
  destruct A as (X & D & Aw & Bl & I3 & E).
  exists X. rewrite D, Hb3, Hbuf3, Aw, Bl. rewrite <- app_assoc. split; [reflexivity|]. split.
  - unfold pending in E at 1. rewrite Hb3 in E. cbn [Z.to_nat bits_of] in E. rewrite app_nil_r in E.
    exact E.
  - rewrite <- D. apply I3.
Qed.

Lemma patch32_at : forall D a b c d B v,
  patch32 (D ++ [a; b; c; d] ++ B) (Z.of_nat (length D)) v = D ++ le32 v ++ B.
Proof.
  intros. unfold patch32. rewrite Nat2Z.id.
  rewrite firstn_app, firstn_all, Nat.sub_diag. cbn [firstn]. rewrite app_nil_r.
  f_equal. f_equal.
  rewrite skipn_app. rewrite skipn_all2 by lia.
  replace (length D + 4 - length D)%nat with 4%nat by lia. reflexivity.
Qed.

Lemma exit_block_spec : forall s nw oaw rest D B, Inv s -> waw s = Z.of_nat nw -> (2 <= nw <= 32)%nat ->
  wblocks s = (oaw, Z.of_nat (length D)) :: rest -> wdata s = D ++ [0; 0; 0; 0] ++ B ->
  exists Xe,
    exit_block s = Some (mkW (D ++ le32 ((Z.of_nat (length (B ++ Xe)) / 4) mod two32) ++ B ++ Xe) 0 0 oaw rest) /\
    bits_of_bytes Xe = pending s ++ bits_of nw 0 ++ zeros (padlen (wpos s + Z.of_nat nw)) /\
    Z.of_nat (length (D ++ [0; 0; 0; 0] ++ B ++ Xe)) mod 4 = 0.
Proof.
  intros s nw oaw rest D B Hi Haw Hnw Hbl Hd. unfold exit_block.
  pose proof (emit_abbrev_appends s nw 0 Hi Haw Hnw ltac:(lia)) as A0.
  destruct (align32_appends _ (appends_inv _ _ _ A0)) as (A1 & Hb1 & Hbuf1).
  pose proof (appends_pos _ _ _ Hi A0) as Hpos. rewrite bits_of_length in Hpos.
  pose proof (appends_trans _ _ _ _ _ A0 A1) as A. rewrite Hpos in A.
  destruct A as (X & Dd & Aw & Bl & I1 & E).
  exists X. rewrite Bl, Hbl, Dd, Hd, Hb1, Hbuf1.
  replace ((D ++ [0; 0; 0; 0] ++ B) ++ X) with (D ++ [0; 0; 0; 0] ++ (B ++ X)) by (rewrite <- !app_assoc; reflexivity).
  rewrite patch32_at.
  split; [|split].
  - f_equal. f_equal. f_equal. f_equal. f_equal.
    rewrite !app_length. cbn [length].
    replace (Z.of_nat (length D + (4 + (length B + length X))) - (Z.of_nat (length D) + 4))
      with (Z.of_nat (length B + length X)) by lia.
    rewrite Z.quot_div_nonneg by lia. reflexivity.
  - unfold pending in E at 1. rewrite Hb1 in E. cbn [Z.to_nat bits_of] in E. rewrite app_nil_r in E.
    exact E.
  - destruct I1 as (_ & _ & Hl). rewrite Dd, Hd in Hl. rewrite <- !app_assoc in Hl. exact Hl.
Qed.

(* the back-patched length word is the number of 32-bit words the block body occupies
   (size offset 4-aligned, as EnterBlock leaves it: enter_block_spec) *)
Theorem block_len_correct : forall s nw oaw rest D B, Inv s -> waw s = Z.of_nat nw -> (2 <= nw <= 32)%nat ->
  wblocks s = (oaw, Z.of_nat (length D)) :: rest -> wdata s = D ++ [0; 0; 0; 0] ++ B ->
  Z.of_nat (length D) mod 4 = 0 ->
  exists s' body, exit_block s = Some s' /\
    wdata s' = D ++ le32 ((Z.of_nat (length body) / 4) mod two32) ++ body /\
    firstn (length B) body = B /\
    Z.of_nat (length body) mod 4 = 0 /\
    wbits s' = 0 /\ waw s' = oaw /\ wblocks s' = rest /\
    (Z.of_nat (length body) / 4 < two32 ->
     4 * le_val (firstn 4 (skipn (length D) (wdata s'))) = Z.of_nat (length (wdata s')) - Z.of_nat (length D) - 4).
Proof.
  intros s nw oaw rest D B Hi Haw Hnw Hbl Hd HD.
  destruct (exit_block_spec s nw oaw rest D B Hi Haw Hnw Hbl Hd) as (Xe & E & _ & Hl).
  eexists. exists (B ++ Xe). split; [exact E|]. cbn [wdata wbits waw wblocks].
  assert (Hbody : Z.of_nat (length (B ++ Xe)) mod 4 = 0).
  { rewrite !app_length in Hl. cbn [length] in Hl. rewrite !Nat2Z.inj_add in Hl.
    rewrite app_length, Nat2Z.inj_add.
    rewrite <- Z.add_mod_idemp_l in Hl by lia. rewrite HD in Hl.
    replace (0 + (Z.of_nat 4 + (Z.of_nat (length B) + Z.of_nat (length Xe))))
      with (Z.of_nat (length B) + Z.of_nat (length Xe) + 1 * 4) in Hl by lia.
    rewrite Z.mod_add in Hl by lia. exact Hl. }
  repeat split; try reflexivity; try assumption.
  - rewrite firstn_app, firstn_all, Nat.sub_diag. cbn [firstn]. apply app_nil_r.
  - intros Hfit.
    rewrite skipn_app, skipn_all, Nat.sub_diag. cbn [skipn app].
    change (le32 ?v ++ ?b) with ([v mod 256; (v / 256) mod 256; (v / 65536) mod 256; (v / 16777216) mod 256] ++ b).
    cbn [app firstn].
    assert (H0 : 0 <= Z.of_nat (length (B ++ Xe)) / 4) by (apply Z.div_pos; lia).
    rewrite (Z.mod_small (Z.of_nat (length (B ++ Xe)) / 4) two32) by lia.
    pose proof (le_val_le32 (Z.of_nat (length (B ++ Xe)) / 4) ltac:(unfold two32 in *; change (2 ^ 32) with 4294967296; lia)) as LV.
    unfold le32 in LV. rewrite LV.
    rewrite !app_length. cbn [length].
    pose proof (Z.div_mod (Z.of_nat (length (B ++ Xe))) 4 ltac:(lia)).
    rewrite app_length in *. lia.
Qed.

(* ---------------- trees through the machine ---------------- *)

(* what Go's types force on a tree handed to the writer *)
Fixpoint item_mwf (it : item) {struct it} : Prop :=
  match it with
  | Rec code ops => u64 code /\ Forall u64 ops /\ u64 (Z.of_nat (length ops))
  | Blk id nw body =>
    u64 id /\ (2 <= nw <= 32)%nat /\
    (fix go (l : list item) : Prop := match l with [] => True | x :: l' => item_mwf x /\ go l' end) body
  end.

Fixpoint items_mwf (l : list item) : Prop :=
  match l with [] => True | x :: l' => item_mwf x /\ items_mwf l' end.

Lemma ops_of_item_blk : forall id nw body,
  ops_of_item (Blk id nw body) = OEnter id (Z.of_nat nw) :: ops_of_items body ++ [OExit].
Proof. reflexivity. Qed.

Lemma run_ops_app : forall a b s, run_ops s (a ++ b) = bind (run_ops s a) (fun s' => run_ops s' b).
Proof.
  induction a as [|o a IH]; intros b s; cbn [app run_ops bind]; [reflexivity|].
  destruct (run_op s o); cbn [bind]; [apply IH | reflexivity].
Qed.

Definition item_run (x : item) : Prop :=
  forall s w, Inv s -> waw s = Z.of_nat w -> (2 <= w <= 32)%nat -> item_mwf x ->
  exists s', run_ops s (ops_of_item x) = Some s' /\ appends s s' (enc_item w (wpos s) x).

Definition items_run (l : list item) : Prop :=
  forall s w, Inv s -> waw s = Z.of_nat w -> (2 <= w <= 32)%nat -> items_mwf l ->
  exists s', run_ops s (ops_of_items l) = Some s' /\ appends s s' (enc_items w (wpos s) l).

Lemma items_run_of : forall l, Forall item_run l -> items_run l.
Proof.
  induction l as [|x l IH]; intros HF; unfold items_run; intros s w Hi Haw Hw Hm.
  - exists s. split; [reflexivity|]. apply appends_refl. exact Hi.
  - inversion HF as [|? ? Hx HFl]; subst. destruct Hm as [Hmx Hml].
    cbn [ops_of_items]. rewrite run_ops_app.
    destruct (Hx s w Hi Haw Hw Hmx) as (s1 & E1 & A1). rewrite E1. cbn [bind].
    pose proof (appends_pos _ _ _ Hi A1) as Hpos.
    destruct (IH HFl s1 w (appends_inv _ _ _ A1) ltac:(rewrite (appends_aw _ _ _ A1); exact Haw) Hw Hml) as (s2 & E2 & A2).
    exists s2. split; [exact E2|]. rewrite enc_items_cons. rewrite Hpos in A2.
    eapply appends_trans; eassumption.
Qed.

Theorem item_run_all : forall x, item_run x.
Proof.
  induction x as [code ops | id nw body IHb] using item_ind'; unfold item_run; intros s w Hi Haw Hw Hm.
  - destruct Hm as (Hc & Ho & Hn). cbn [ops_of_item run_ops run_op enc_item].
    destruct (emit_record_appends s w code ops Hi Haw Hw Hc Ho Hn) as (s' & E & A).
    rewrite E. cbn [bind]. exists s'. split; [reflexivity | exact A].
  - destruct Hm as (Hid & Hnw & Hmb). change (items_mwf body) in Hmb.
    rewrite ops_of_item_blk. cbn [run_ops run_op].
    destruct (enter_block_spec s w id nw Hi Haw Hw Hid Hnw) as (X1 & E1 & B1 & L1).
    rewrite E1. cbn [bind].
    set (s1 := mkW (wdata s ++ X1 ++ [0; 0; 0; 0]) 0 0 (Z.of_nat nw) ((waw s, Z.of_nat (length (wdata s ++ X1))) :: wblocks s)).
    assert (I1 : Inv s1).
    { unfold Inv, s1. cbn [wbits wbuf wdata]. repeat split; try lia.
      rewrite app_assoc, app_length, Nat2Z.inj_add. cbn [length]. change (Z.of_nat 4) with (1 * 4).
      rewrite Z.mod_add by lia. exact L1. }
    assert (Hpos1 : wpos s1 = blk_body_start w (wpos s) id nw).
    { unfold wpos, s1. cbn [wdata wbits]. unfold blk_body_start.
      apply (f_equal (@length bool)) in B1. rewrite bits_of_bytes_length, !app_length, zeros_length in B1.
      unfold pending in B1. rewrite bits_of_length in B1.
      destruct Hi as ((? & ?) & _). rewrite !app_length. cbn [length]. unfold wpos in *. lia. }
    rewrite run_ops_app.
    destruct (items_run_of body IHb s1 nw I1 eq_refl Hnw Hmb) as (s2 & E2 & A2).
    rewrite E2. cbn [bind run_ops run_op].
    pose proof (appends_pos _ _ _ I1 A2) as Hpos2.
    destruct A2 as (X2 & D2 & Aw2 & Bl2 & I2 & Eb2).
    assert (Hd2 : wdata s2 = (wdata s ++ X1) ++ [0; 0; 0; 0] ++ X2).
    { rewrite D2. unfold s1. cbn [wdata]. rewrite <- !app_assoc. reflexivity. }
    destruct (exit_block_spec s2 nw (waw s) (wblocks s) (wdata s ++ X1) X2 I2 ltac:(rewrite Aw2; reflexivity) Hnw
                ltac:(rewrite Bl2; reflexivity) Hd2) as (Xe & E3 & Be & Le).
    rewrite E3. cbn [bind]. eexists. split; [reflexivity|].
    exists (X1 ++ le32 ((Z.of_nat (length (X2 ++ Xe)) / 4) mod two32) ++ X2 ++ Xe).
    cbn [wdata waw wblocks]. split; [rewrite <- !app_assoc; reflexivity|]. split; [reflexivity|]. split; [reflexivity|].
    split.
    + unfold Inv. cbn [wbits wbuf wdata]. repeat split; try lia.
      rewrite <- !app_assoc in *. rewrite !app_length in *. rewrite le32_length. cbn [length] in *. exact Le.
    + unfold pending at 1. cbn [wbits wbuf Z.to_nat bits_of]. rewrite app_nil_r.
      rewrite enc_item_blk, enc_block_eq.
      rewrite !bits_of_bytes_app, le32_bits, B1, Be.
      assert (Hp1nil : pending s1 = []) by reflexivity. rewrite Hp1nil in Eb2. cbn [app] in Eb2.
      rewrite <- !app_assoc.
      f_equal. unfold blk_header. rewrite <- !app_assoc. f_equal. f_equal. f_equal. f_equal.
      rewrite Hpos1 in *.
      set (body_bits := enc_items nw (blk_body_start w (wpos s) id nw) body) in *.
      assert (Hbits : bits_of_bytes X2 ++ bits_of_bytes Xe =
                      body_bits ++ bits_of nw 0 ++
                      zeros (padlen (blk_body_start w (wpos s) id nw + Z.of_nat (length (body_bits ++ bits_of nw 0))))).
      { rewrite Be, app_assoc, Eb2. f_equal. f_equal. f_equal. f_equal.
        rewrite Hpos2, app_length, bits_of_length. lia. }
      f_equal.
      * (* the length word *)
        apply bits_of_ext. f_equal. f_equal.
        unfold block_words. cbv zeta.
        match goal with |- _ = Z.of_nat (length ?l) / 32 =>
          assert (Hlen8 : length l = (8 * length (X2 ++ Xe))%nat)
            by (rewrite <- app_assoc, <- Hbits, <- bits_of_bytes_app, bits_of_bytes_length; reflexivity);
          rewrite Hlen8 end.
        rewrite Nat2Z.inj_mul. change (Z.of_nat 8) with 8. change 32 with (8 * 4).
        rewrite Z.div_mul_cancel_l by lia. reflexivity.
      * rewrite <- Be. exact Hbits.
Qed.


(* Serialize's use of the writer (NewWriter(2), magic, tree, Bytes()): the bytes are the
   abstract stream encoding, zero-padded to the next 32-bit boundary by Bytes() *)
Theorem serialize_refines : forall l, items_mwf l ->
  exists bytes, serialize_tree l = Some bytes /\
    bits_of_bytes bytes = enc_stream l ++ zeros (padlen (Z.of_nat (length (enc_stream l)))) /\
    Z.of_nat (length bytes) mod 4 = 0.
Proof.
  intros l Hm. unfold serialize_tree. rewrite run_ops_app.
  assert (Hmagic : run_ops (new_writer 2) magic_ops = Some (mkW [66; 67; 192; 222] 0 0 2 [])) by (vm_compute; reflexivity).
  rewrite Hmagic. cbn [bind].
  set (s0 := mkW [66; 67; 192; 222] 0 0 2 []).
  assert (I0 : Inv s0) by (unfold Inv, s0; cbn [wbits wbuf wdata length]; repeat split; try lia; reflexivity).
  destruct (items_run_of l ltac:(apply Forall_forall; intros; apply item_run_all) s0 2%nat I0 eq_refl ltac:(lia) Hm)
    as (s1 & E1 & A1).
  rewrite E1. cbn [bind]. eexists. split; [reflexivity|].
  assert (Hpos0 : wpos s0 = 32) by reflexivity. rewrite Hpos0 in A1.
  pose proof (appends_pos _ _ _ I0 A1) as Hpos1. rewrite Hpos0 in Hpos1.
  pose proof (appends_inv _ _ _ A1) as I1.
  destruct (align32_appends s1 I1) as (A2 & Hb2 & _).
  pose proof (appends_trans _ _ _ _ _ A1 A2) as A.
  assert (Hbytes : writer_bytes s1 = wdata (align32 s1)).
  { unfold writer_bytes. destruct (Z.gtb_spec (wbits s1) 0) as [?|Hz]; [reflexivity|].
    unfold align32. destruct (Z.gtb_spec (wbits s1) 0); [lia | reflexivity]. }
  rewrite Hbytes.
  destruct A as (X & D & _ & _ & I2 & E).
  assert (Hp0 : pending s0 = []) by reflexivity. rewrite Hp0 in E. cbn [app] in E.
  unfold pending in E. rewrite Hb2 in E. cbn [Z.to_nat bits_of] in E. rewrite app_nil_r in E.
  split; [|apply I2].
  rewrite D, bits_of_bytes_app, E. unfold s0. cbn [wdata].
  assert (Hm32 : bits_of_bytes [66; 67; 192; 222] = magic_bits) by (vm_compute; reflexivity).
  rewrite Hm32. unfold enc_stream. rewrite <- app_assoc. f_equal. f_equal. f_equal. f_equal.
  rewrite Hpos1, app_length. destruct magic_val as [_ Hl]. rewrite Hl. lia.
Qed.

(* blocks end on a 32-bit boundary *)
Lemma enc_block_end_aligned : forall w pos id nw body, 0 <= pos ->
  (pos + Z.of_nat (length (enc_block w pos id nw body))) mod 32 = 0.
Proof.
  intros w pos id nw body Hp.
  pose proof (block_words_32 w pos id nw body Hp) as H32.
  pose proof (blk_body_start_aligned w pos id nw Hp) as [Hal _].
  rewrite enc_block_eq. rewrite !app_length, !bits_of_length, !zeros_length.
  unfold blk_body_start in Hal. unfold blk_header in *. rewrite !app_length, bits_of_length in *.
  match goal with |- ?g mod 32 = 0 => match type of Hal with ?h mod 32 = 0 =>
    replace g with (h + block_words w pos id nw body * 32) by lia end end.
  rewrite Z.mod_add by lia. exact Hal.
Qed.

Definition is_block (x : item) : bool := match x with Blk _ _ _ => true | Rec _ _ => false end.

Lemma enc_items_blocks_aligned : forall l w p, 0 <= p -> p mod 32 = 0 -> forallb is_block l = true ->
  (p + Z.of_nat (length (enc_items w p l))) mod 32 = 0.
Proof.
  induction l as [|x l IH]; intros w p Hp Hal Hb.
  - unfold enc_items. cbn [enc_list_with length]. rewrite Z.add_0_r. exact Hal.
  - cbn [forallb] in Hb. apply andb_prop in Hb. destruct Hb as [Hx Hl].
    rewrite enc_items_cons, app_length, Nat2Z.inj_add, Z.add_assoc.
    apply IH; try assumption; try lia.
    destruct x as [|id nw body]; [discriminate|]. rewrite enc_item_blk. apply enc_block_end_aligned. exact Hp.
Qed.

(* every stream of top-level blocks (Serialize emits exactly one MODULE block) needs no final padding *)
Theorem serialize_blocks : forall l, items_mwf l -> forallb is_block l = true ->
  exists bytes, serialize_tree l = Some bytes /\ bits_of_bytes bytes = enc_stream l /\ Z.of_nat (length bytes) mod 4 = 0.
Proof.
  intros l Hm Hb. destruct (serialize_refines l Hm) as (bytes & E & B & L).
  exists bytes. split; [exact E|]. split; [|exact L].
  rewrite B. rewrite padlen_aligned; [apply app_nil_r|].
  unfold enc_stream. rewrite app_length. destruct magic_val as [_ Hl]. rewrite Hl.
  rewrite Nat2Z.inj_add. change (Z.of_nat 32) with 32.
  apply enc_items_blocks_aligned; try lia; try reflexivity. exact Hb.
Qed.

Lemma mwf_wf_item : forall x, item_mwf x -> item_wf x.
Proof.
  induction x as [code ops | id nw body IHb] using item_ind'; intros H.
  - destruct H as ((? & ?) & Ho & _). split; [lia|]. eapply Forall_impl; [|exact Ho]. intros a (? & ?). lia.
  - destruct H as ((? & ?) & Hnw & Hb). split; [lia|]. split; [exact Hnw|].
    induction body as [|y body IH]; [exact I|].
    inversion IHb; subst. destruct Hb as [Hy Hb]. split; [auto | apply IH; assumption].
Qed.

Lemma mwf_wf : forall l, items_mwf l -> items_wf l.
Proof. induction l as [|x l IH]; [auto|]. intros [Hx Hl]. split; [apply mwf_wf_item; exact Hx | apply IH; exact Hl]. Qed.

(* end to end: what the reader returns on the bytes the writer machine produced is the tree *)
Theorem writer_reader_roundtrip : forall l, items_mwf l -> forallb is_block l = true -> items_fits 2 32 l ->
  exists bytes, serialize_tree l = Some bytes /\ dec_bytes bytes = Ok l.
Proof.
  intros l Hm Hb Hf. destruct (serialize_blocks l Hm Hb) as (bytes & E & B & L).
  exists bytes. split; [exact E|]. apply bytes_roundtrip; try assumption. apply mwf_wf. exact Hm.
Qed.

(* ---------------- alignment invariant of the machine ---------------- *)

Theorem align32_inv : forall s, Inv s ->
  wbits (align32 s) = 0 /\ Z.of_nat (length (wdata (align32 s))) mod 4 = 0 /\ wpos (align32 s) mod 32 = 0.
Proof.
  intros s Hi. destruct (align32_appends s Hi) as (A & Hb & _).
  pose proof (appends_inv _ _ _ A) as I2. split; [exact Hb|]. split; [apply I2|].
  rewrite wpos_mod by exact I2. exact Hb.
Qed.

(* block bodies start and end 32-bit aligned *)
Theorem block_body_aligned : forall s w id nw, Inv s -> waw s = Z.of_nat w -> (2 <= w <= 32)%nat ->
  u64 id -> (2 <= nw <= 32)%nat ->
  exists s1, enter_block s id (Z.of_nat nw) = Some s1 /\ wbits s1 = 0 /\ wpos s1 mod 32 = 0 /\ Inv s1.
Proof.
  intros s w id nw Hi Haw Hw Hid Hnw.
  destruct (enter_block_spec s w id nw Hi Haw Hw Hid Hnw) as (X1 & E & _ & L).
  eexists. split; [exact E|]. cbn [wbits].
  assert (I1 : Inv (mkW (wdata s ++ X1 ++ [0; 0; 0; 0]) 0 0 (Z.of_nat nw) ((waw s, Z.of_nat (length (wdata s ++ X1))) :: wblocks s))).
  { unfold Inv. cbn [wbits wbuf wdata]. repeat split; try lia.
    rewrite app_assoc, app_length, Nat2Z.inj_add. cbn [length]. change (Z.of_nat 4) with (1 * 4).
    rewrite Z.mod_add by lia. exact L. }
  split; [reflexivity|]. split; [|exact I1]. rewrite wpos_mod by exact I1. reflexivity.
Qed.

(* ---------------- WriteFixed ---------------- *)

Theorem write_fixed_appends : forall s v w, Inv s -> 0 <= w <= 32 -> 0 <= v < 2 ^ w ->
  appends s (write_fixed s v w) (bits_of (Z.to_nat w) v).
Proof.
  intros s v w Hi Hw Hv. unfold write_fixed.
  destruct (Z.eqb_spec w 0) as [->|Hn].
  - change (2 ^ 0) with 1 in Hv. cbn [Z.to_nat bits_of]. apply appends_refl. exact Hi.
  - pose proof (pow2_mono w 32 ltac:(lia)). change (2 ^ 32) with 4294967296 in *.
    destruct (Z.gtb_spec v 4294967295); [lia|].
    rewrite Z.mod_small by (unfold two32; lia). apply write_bits_appends; assumption.
Qed.

(* "For values > 32 bits wide, the value is split across two WriteBits calls": the split
   writes `width` bits for the low half and `width-32` more for the high half, i.e.
   2*width-32 bits in total.  No caller in /repo uses a width
   above 32 (serialize.go never calls WriteFixed), so this is a latent defect of the
   writer, not of dxil.Compile's output. *)
Theorem write_fixed_wide_refuted :
  exists s v w, Inv s /\ 32 < w <= 64 /\ 0 <= v < 2 ^ w /\
    wabs (write_fixed s v w) <> wabs s ++ bits_of (Z.to_nat w) v /\
    length (wabs (write_fixed s v w)) = (length (wabs s) + 2 * Z.to_nat w - 32)%nat.
Proof.
  exists (new_writer 2), 4294967296, 40.
  split; [unfold Inv; cbn; lia|]. split; [lia|]. split; [cbn; lia|]. split.
  - vm_compute. discriminate.
  - vm_compute. reflexivity.
Qed.
