(* C18: lemmas about the bit-level vocabulary. *)
From Coq Require Import List ZArith Bool Lia.
Import ListNotations.
Require Import Naga.Dxil.BitsModel.
Open Scope Z_scope.

Lemma bits_of_length : forall w v, length (bits_of w v) = w.
Proof. induction w; intros; cbn [bits_of length]; auto. Qed.

Lemma div2_div : forall v, Z.div2 v = v / 2.
Proof. intros. apply Z.div2_div. Qed.

Lemma odd_mod : forall v, Z.b2z (Z.odd v) = v mod 2.
Proof. intros. rewrite Zmod_odd. destruct (Z.odd v); reflexivity. Qed.

Lemma val_of_bits_of : forall w v, val_of (bits_of w v) = v mod 2 ^ (Z.of_nat w).
Proof.
  induction w; intros v.
  - change (Z.of_nat 0) with 0. rewrite Z.pow_0_r, Z.mod_1_r. reflexivity.
  - cbn [bits_of val_of]. rewrite IHw, odd_mod, div2_div.
    rewrite Nat2Z.inj_succ, Z.pow_succ_r by lia.
    rewrite Z.rem_mul_r by lia. lia.
Qed.

Lemma val_of_bound : forall l, 0 <= val_of l < 2 ^ Z.of_nat (length l).
Proof.
  induction l as [|b l IH]; cbn [val_of length].
  - change (Z.of_nat 0) with 0. rewrite Z.pow_0_r. lia.
  - rewrite Nat2Z.inj_succ, Z.pow_succ_r by lia. destruct b; cbn [Z.b2z]; lia.
Qed.

Lemma val_of_app : forall a b, val_of (a ++ b) = val_of a + 2 ^ Z.of_nat (length a) * val_of b.
Proof.
  induction a as [|x a IH]; intros b; cbn [val_of app length].
  - change (Z.of_nat 0) with 0. rewrite Z.pow_0_r. lia.
  - rewrite IH, Nat2Z.inj_succ, Z.pow_succ_r by lia. lia.
Qed.

Lemma bits_of_val_of : forall l, bits_of (length l) (val_of l) = l.
Proof.
  induction l as [|b l IH]; cbn [val_of length bits_of]; auto.
  f_equal.
  - rewrite Z.odd_add_mul_2. destruct b; reflexivity.
  - rewrite div2_div.
    replace (Z.b2z b + 2 * val_of l) with (val_of l * 2 + Z.b2z b) by lia.
    rewrite Z.div_add_l by lia.
    replace (Z.b2z b / 2) with 0 by (destruct b; reflexivity).
    rewrite Z.add_0_r. exact IH.
Qed.

Lemma bits_of_add : forall a b v,
  bits_of (a + b) v = bits_of a v ++ bits_of b (v / 2 ^ Z.of_nat a).
Proof.
  induction a; intros b v.
  - cbn [Nat.add bits_of app]. change (Z.of_nat 0) with 0. rewrite Z.pow_0_r, Z.div_1_r. reflexivity.
  - cbn [Nat.add bits_of app]. f_equal. rewrite IHa. f_equal. f_equal.
    rewrite div2_div, Nat2Z.inj_succ, Z.pow_succ_r by lia.
    rewrite Z.div_div by lia. reflexivity.
Qed.

Lemma bits_of_mod : forall w v, bits_of w (v mod 2 ^ Z.of_nat w) = bits_of w v.
Proof.
  intros w v.
  pose proof (bits_of_val_of (bits_of w v)) as H.
  rewrite bits_of_length, val_of_bits_of in H. exact H.
Qed.

Lemma bits_of_ext : forall w v v', v mod 2 ^ Z.of_nat w = v' mod 2 ^ Z.of_nat w -> bits_of w v = bits_of w v'.
Proof. intros w v v' H. rewrite <- (bits_of_mod w v), <- (bits_of_mod w v'), H. reflexivity. Qed.

Lemma bits_of_combine : forall a b x y, 0 <= x < 2 ^ Z.of_nat a ->
  bits_of (a + b) (x + y * 2 ^ Z.of_nat a) = bits_of a x ++ bits_of b y.
Proof.
  intros a b x y Hx. rewrite bits_of_add. f_equal.
  - apply bits_of_ext. rewrite Z.mod_add by lia. reflexivity.
  - f_equal. rewrite Z.div_add by lia. rewrite Z.div_small by lia. lia.
Qed.

Lemma bits_of_zero : forall w, bits_of w 0 = zeros w.
Proof. induction w; cbn [bits_of zeros repeat]; auto. unfold zeros in IHw. cbn. rewrite IHw. reflexivity. Qed.

Lemma zeros_length : forall n, length (zeros n) = n.
Proof. intros. apply repeat_length. Qed.

Lemma val_of_zeros : forall n, val_of (zeros n) = 0.
Proof. induction n; cbn [zeros repeat val_of]; auto. unfold zeros in IHn. rewrite IHn. reflexivity. Qed.

Lemma all_false_zeros : forall n, all_false (zeros n) = true.
Proof. induction n; cbn; auto. Qed.

Lemma all_false_is_zeros : forall l, all_false l = true -> l = zeros (length l).
Proof.
  induction l as [|b l IH]; cbn; auto. intros H. apply andb_prop in H. destruct H as [Hb Hl].
  destruct b; try discriminate. f_equal. apply IH, Hl.
Qed.

Lemma take_app : forall h t, take (length h) (h ++ t) = Some (h, t).
Proof. induction h as [|b h IH]; intros t; cbn [length take app]; auto. rewrite IH. reflexivity. Qed.

Lemma take_some : forall w bs h t, take w bs = Some (h, t) -> bs = h ++ t /\ length h = w.
Proof.
  induction w; intros bs h t H; cbn [take] in H.
  - inversion H; subst. auto.
  - destruct bs as [|b bs]; try discriminate.
    destruct (take w bs) as [[h' t']|] eqn:E; try discriminate.
    inversion H; subst. apply IHw in E. destruct E as [-> E]. cbn. auto.
Qed.

Lemma bits_of_bytes_app : forall a b, bits_of_bytes (a ++ b) = bits_of_bytes a ++ bits_of_bytes b.
Proof. intros. unfold bits_of_bytes. apply flat_map_app. Qed.

Lemma bits_of_bytes_length : forall l, length (bits_of_bytes l) = (8 * length l)%nat.
Proof.
  induction l as [|b l IH]; auto. unfold bits_of_bytes in *. cbn [flat_map].
  rewrite app_length, IH, bits_of_length. cbn [length]. lia.
Qed.

Lemma le32_bits : forall v, bits_of_bytes (le32 v) = bits_of 32 v.
Proof.
  intros v. unfold le32, bits_of_bytes. cbn [flat_map]. rewrite app_nil_r.
  change 32%nat with (8 + (8 + (8 + 8)))%nat.
  rewrite !bits_of_add.
  change (2 ^ Z.of_nat 8) with 256.
  rewrite !Z.div_div by lia.
  change (256 * 256) with 65536. change (65536 * 256) with 16777216.
  pose proof (bits_of_mod 8) as M. change (2 ^ Z.of_nat 8) with 256 in M.
  rewrite !M. reflexivity.
Qed.

Lemma le32_length : forall v, length (le32 v) = 4%nat.
Proof. reflexivity. Qed.

Lemma le_val_le32 : forall v, 0 <= v < 2 ^ 32 -> le_val (le32 v) = v.
Proof.
  intros v Hv. unfold le32. cbn [le_val].
  pose proof (Z.div_mod v 256 ltac:(lia)).
  pose proof (Z.div_mod (v / 256) 256 ltac:(lia)).
  pose proof (Z.div_mod (v / 256 / 256) 256 ltac:(lia)).
  rewrite Z.div_div in * by lia.
  change (256 * 256) with 65536 in *.
  replace (v / 16777216) with (v / 65536 / 256) by (rewrite Z.div_div by lia; reflexivity).
  assert (v / 65536 / 256 < 256).
  { rewrite Z.div_div by lia. apply Z.div_lt_upper_bound; lia. }
  assert (0 <= v / 65536 / 256) by (apply Z.div_pos; [apply Z.div_pos|]; lia).
  rewrite (Z.mod_small (v / 65536 / 256)) by lia. lia.
Qed.

Lemma padlen_spec : forall p, 0 <= p -> (p + Z.of_nat (padlen p)) mod 32 = 0 /\ (Z.of_nat (padlen p) < 32).
Proof.
  intros p Hp. unfold padlen.
  pose proof (Z.mod_pos_bound p 32 ltac:(lia)).
  pose proof (Z.mod_pos_bound (32 - p mod 32) 32 ltac:(lia)).
  rewrite Z2Nat.id by lia. split; [|lia].
  destruct (Z.eq_dec (p mod 32) 0) as [E|E].
  - rewrite E. change ((32 - 0) mod 32) with 0. rewrite Z.add_0_r. exact E.
  - rewrite (Z.mod_small (32 - p mod 32)) by lia.
    rewrite (Z.div_mod p 32) at 1 by lia.
    replace (32 * (p / 32) + p mod 32 + (32 - p mod 32)) with ((p / 32 + 1) * 32) by lia.
    apply Z.mod_mul. lia.
Qed.

Lemma padlen_aligned : forall p, p mod 32 = 0 -> padlen p = 0%nat.
Proof. intros p H. unfold padlen. rewrite H. reflexivity. Qed.

(* or-ing a value shifted above the bits of a is addition *)
Lemma lor_add_disjoint : forall a b n, 0 <= n -> 0 <= a < 2 ^ n -> Z.lor a (b * 2 ^ n) = a + b * 2 ^ n.
Proof.
  intros a b n Hn Ha.
  rewrite <- Z.shiftl_mul_pow2 by lia.
  assert (L : Z.land a (Z.shiftl b n) = 0).
  { apply Z.bits_inj'. intros m Hm. rewrite Z.land_spec, Z.bits_0.
    destruct (Z.lt_ge_cases m n) as [Hlt|Hge].
    - rewrite Z.shiftl_spec_low by lia. apply andb_false_r.
    - rewrite <- (Z.mod_small a (2 ^ n)) by lia.
      rewrite Z.mod_pow2_bits_high by lia. reflexivity. }
  rewrite <- Z.lxor_lor by exact L. rewrite <- Z.add_nocarry_lxor by exact L. reflexivity.
Qed.
