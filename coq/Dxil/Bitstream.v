(* C18: the bitstream development in one import: model of bitcode/writer.go,
   abstract encoder, reader, and their theorems. *)
Require Export Naga.Dxil.BitsModel Naga.Dxil.BitsProofs Naga.Dxil.BitstreamModel Naga.Dxil.BitstreamProofs Naga.Dxil.WriterProofs.
