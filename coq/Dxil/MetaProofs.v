(* C18: the index checker is sound: when it accepts, every reference it collected
   (type ids, value ids, basic-block indices, metadata ids, attribute groups, counts)
   is within its bound. *)
From Coq Require Import List ZArith Bool Lia.
Import ListNotations.
Require Import Naga.Dxil.BitsModel Naga.Dxil.BitstreamModel Naga.Dxil.MetaModel.
Open Scope Z_scope.

Definition ref_in_range (r : ref) : Prop := 0 <= r_idx r < r_bound r.

Lemma ref_ok_spec : forall r, ref_ok r = true <-> ref_in_range r.
Proof. intros r. unfold ref_ok, ref_in_range. lia. Qed.

Lemma first_bad_none : forall l, first_bad l = None <-> Forall ref_in_range l.
Proof.
  induction l as [|r l IH]; cbn [first_bad]; [split; auto|].
  destruct (ref_ok r) eqn:E.
  - rewrite IH. split; intros H; [constructor; [apply ref_ok_spec; exact E | exact H] | inversion H; assumption].
  - split; [discriminate|]. intros H. inversion H as [|? ? Hr _]; subst. apply ref_ok_spec in Hr. congruence.
Qed.

Lemma first_bad_some : forall l r, first_bad l = Some r -> In r l /\ ~ ref_in_range r.
Proof.
  induction l as [|x l IH]; intros r H; cbn [first_bad] in H; [discriminate|].
  destruct (ref_ok x) eqn:E.
  - destruct (IH r H) as [Hi Hn]. split; [right; exact Hi | exact Hn].
  - inversion H; subst. split; [left; reflexivity|]. intros Hr. apply ref_ok_spec in Hr. congruence.
Qed.

Theorem meta_check_sound : forall l, meta_ok l = true ->
  exists id aw body refs, l = [Blk id aw body] /\ id = 8 /\ meta_refs l = Some refs /\ Forall ref_in_range refs.
Proof.
  intros l H. unfold meta_ok, meta_check in H.
  destruct (meta_refs l) as [refs|] eqn:E; [|discriminate].
  destruct (first_bad refs) eqn:F; [discriminate|].
  apply first_bad_none in F.
  unfold meta_refs in E.
  destruct l as [|x l']; [discriminate|].
  destruct x as [c o|id aw body]; [discriminate|].
  destruct id as [|p|p]; try discriminate.
  do 4 (destruct p; try discriminate).
  destruct l' as [|y l'']; [|discriminate].
  exists 8, aw, body, refs. repeat split; auto.
Qed.

(* a rejected module has a concrete out-of-range reference *)
Theorem meta_check_complete : forall l r, meta_check l = Some (Some r) ->
  exists refs, meta_refs l = Some refs /\ In r refs /\ ~ ref_in_range r.
Proof.
  intros l r H. unfold meta_check in H. destruct (meta_refs l) as [refs|]; [|discriminate].
  inversion H as [F]. exists refs. split; [reflexivity|]. apply first_bad_some. exact F.
Qed.

(* the relative operands of the instruction records serialize.go emits are among the
   collected references: a binary operation at value number cur with operand deltas
   d0, d1 requires cur-d0 and cur-d1 (mod 2^32, as LLVM's reader computes them) to be
   defined values of the function *)
Lemma inst_refs_binop : forall t cur final nbb d0 d1 opc rest,
  inst_refs t cur final nbb (2, d0 :: d1 :: opc :: rest) =
  Some [mkRef 2 ((cur - d0) mod two32m) final; mkRef 2 ((cur - d1) mod two32m) final].
Proof.
  intros. unfold inst_refs. cbn [Z.eqb Pos.eqb].
  assert (zlen' (d0 :: d1 :: opc :: rest) <? 3 = false).
  { unfold zlen'. cbn [List.length]. apply Z.ltb_ge. rewrite !Nat2Z.inj_succ. lia. }
  rewrite H. reflexivity.
Qed.
