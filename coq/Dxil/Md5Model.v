(* C18: model of dxil/internal/container/hash.go: the MD5 block transform
   (md5Transform, ff/gg/hh/ii), the "retail" modified MD5 of INF-0004
   (retailMD5 / retailMD5Block), standard MD5 (RFC 1321; what crypto/md5
   computes for the HASH part), ComputeRetailHash, SetBypassHash and
   WriteShaderHashPart.  Definitions only.  The 64-step table is a parameter:
   the check instantiates it with the table regenerated from hash.go. *)
From Coq Require Import List ZArith Bool Lia.
Import ListNotations.
Require Import Naga.Dxil.BitsModel Naga.Dxil.DxbcModel.
Open Scope Z_scope.

Definition add32 (a b : Z) : Z := (a + b) mod two32.
Definition not32 (x : Z) : Z := (two32 - 1 - x) mod two32.
(* (a << s) | (a >> (32 - s)) on uint32, s : uint8 *)
Definition rotl32 (x s : Z) : Z := Z.lor ((x * 2 ^ s) mod two32) (x / 2 ^ (32 - s)).

Definition fF (b c d : Z) : Z := Z.lor (Z.land b c) (Z.land (not32 b) d).
Definition fG (b c d : Z) : Z := Z.lor (Z.land b d) (Z.land c (not32 d)).
Definition fH (b c d : Z) : Z := Z.lxor (Z.lxor b c) d.
Definition fI (b c d : Z) : Z := Z.lxor c (Z.lor b (not32 d)).

(* one step: round function number (0..3), message word index, shift, constant *)
Definition md5_step := (Z * Z * Z * Z)%type.

Definition round_fn (r : Z) : Z -> Z -> Z -> Z :=
  if r =? 0 then fF else if r =? 1 then fG else if r =? 2 then fH else fI.

(* ff/gg/hh/ii: a += f(b,c,d) + x + ac; a = rotl(a, s); return a + b *)
Definition step_val (r : Z) (a b c d x s ac : Z) : Z :=
  add32 (rotl32 (add32 a (add32 (add32 (round_fn r b c d) x) ac)) s) b.

Definition md5_state := (Z * Z * Z * Z)%type.

(* md5Transform: `a = ff(a,b,c,d,..); d = ff(d,a,b,c,..); c = ..; b = ..` is
   the rotation (a,b,c,d) := (d, new, b, c) after every step *)
Fixpoint md5_steps_run (steps : list md5_step) (x : list Z) (st : md5_state) : md5_state :=
  match steps with
  | [] => st
  | (r, k, s, ac) :: steps' =>
    let '(a, b, c, d) := st in
    md5_steps_run steps' x (d, step_val r a b c d (nth (Z.to_nat k) x 0) s ac, b, c)
  end.

Definition md5_transform (steps : list md5_step) (st : md5_state) (x : list Z) : md5_state :=
  let '(a0, b0, c0, d0) := st in
  let '(a, b, c, d) := md5_steps_run steps x st in
  (add32 a0 a, add32 b0 b, add32 c0 c, add32 d0 d).

Definition md5_init : md5_state := (1732584193, 4023233417, 2562383102, 271733878).

Definition state_bytes (st : md5_state) : list Z :=
  let '(a, b, c, d) := st in le32 a ++ le32 b ++ le32 c ++ le32 d.

(* bytesToUint32s on a 64-byte block *)
Fixpoint words_of (n : nat) (l : list Z) : list Z :=
  match n with
  | O => []
  | S n' =>
    match l with
    | a :: b :: c :: d :: rest => le_val [a; b; c; d] :: words_of n' rest
    | _ => 0 :: words_of n' []
    end
  end.

(* run the transform over consecutive 64-byte blocks of l (length l = 64 * n) *)
Fixpoint md5_blocks (steps : list md5_step) (n : nat) (st : md5_state) (l : list Z) : md5_state :=
  match n with
  | O => st
  | S n' => md5_blocks steps n' (md5_transform steps st (words_of 16 (firstn 64 l))) (skipn 64 l)
  end.

(* ---- standard MD5 (RFC 1321): message ++ 0x80 ++ zeros ++ 64-bit bit length ---- *)
Definition md5_pad (len : Z) : list Z :=
  let r := len mod 64 in
  let padn := if r <? 56 then 56 - r else 120 - r in
  128 :: repeat 0 (Z.to_nat (padn - 1)) ++ le32 ((len * 8) mod two32) ++ le32 (((len * 8) / two32) mod two32).

Definition md5 (steps : list md5_step) (data : list Z) : list Z :=
  let msg := data ++ md5_pad (zlen data) in
  state_bytes (md5_blocks steps (Z.to_nat (zlen msg / 64)) md5_init msg).

(* ---- retail hash (retailMD5): the padded stream differs from MD5 only in the
   final block(s): the last block is  [bitcount(4 bytes)] ++ tail ++ padding ++
   [1 | bytecount<<1 (4 bytes)]  (one-block case) or the tail and padding are
   split over two blocks with the count words in the last one. ---- *)
Definition md5_padding (n : Z) : list Z :=   (* first n bytes of md5Padding = {0x80, 0, 0, ...} *)
  if n <=? 0 then [] else 128 :: repeat 0 (Z.to_nat (n - 1)).

Definition fit (n : nat) (l : list Z) : list Z := firstn n (l ++ repeat 0 n).

Definition retail_tail_blocks (data_tail : list Z) (byte_count : Z) : list Z :=
  let left_over := byte_count mod 64 in
  let x0 := le32 ((byte_count * 8) mod two32) in
  let x15 := le32 (Z.lor 1 ((byte_count * 2) mod two32)) in
  if left_over <? 56 then
    (* one final block: x[0] = bits, bytes 4.. = tail, then padAmount bytes of padding, x[15] *)
    let pad_amount := 56 - left_over in
    x0 ++ fit 56 (data_tail ++ md5_padding pad_amount) ++ x15
  else
    (* two final blocks *)
    let pad_amount := 120 - left_over in
    fit 64 (data_tail ++ md5_padding (pad_amount - 56)) ++
    x0 ++ fit 56 (skipn (Z.to_nat (pad_amount - 56)) (md5_padding 64) ++ []) ++ x15.

Definition retail_md5 (steps : list md5_step) (data : list Z) : list Z :=
  let byte_count := zlen data mod two32 in
  let full := byte_count / 64 in
  let tail := skipn (Z.to_nat (64 * full)) data in
  let st := md5_blocks steps (Z.to_nat full) md5_init data in
  let last := retail_tail_blocks tail byte_count in
  state_bytes (md5_blocks steps (Z.to_nat (zlen last / 64)) st last).

(* ComputeRetailHash: digest of bytes 20..end into bytes 4..20 *)
Definition compute_retail_hash (steps : list md5_step) (b : list Z) : list Z :=
  if zlen b <? 20 then b else set_digest (retail_md5 steps (skipn 20 b)) b.

Definition bypass_digest : list Z := repeat 1 16%nat.
Definition set_bypass_hash (b : list Z) : list Z := set_digest bypass_digest b.

(* the HASH part body WriteShaderHashPart produces for a given bitcode *)
Definition shader_hash_body (steps : list md5_step) (bitcode : list Z) : list Z :=
  [0; 0; 0; 0] ++ md5 steps bitcode.

(* ---- WriteShaderHashPart, on the part list of a container built by Container.Bytes:
   the last DXIL part and the last HASH part are located; when the DXIL body has a
   24-byte program header whose bitcode offset/size are in range and the HASH body has
   at least 20 bytes, the HASH body becomes flags(0) ++ MD5(bitcode) ++ rest. ---- *)
Fixpoint last_part (fc : Z) (ps : list part) : option part :=
  match ps with
  | [] => None
  | p :: ps' =>
    match last_part fc ps' with
    | Some q => Some q
    | None => if p_fourcc p =? fc then Some p else None
    end
  end.

Definition dxil_bitcode_of (d : list Z) : option (list Z) :=
  if zlen d <? 24 then None else
  let off := (le_val (firstn 4 (skipn 16 d)) + 8) mod two32 in
  let sz := le_val (firstn 4 (skipn 20 d)) in
  if zlen d <? (off + sz) mod two32 then None
  else Some (firstn (Z.to_nat sz) (skipn (Z.to_nat off) d)).

(* replace the data of the last part with FourCC fc *)
Fixpoint update_last (fc : Z) (d : list Z) (ps : list part) : list part * bool :=
  match ps with
  | [] => ([], false)
  | p :: ps' =>
    let '(ps2, done) := update_last fc d ps' in
    if done then (p :: ps2, true)
    else if p_fourcc p =? fc then (mkPart fc d :: ps2, true) else (p :: ps2, false)
  end.

Definition write_shader_hash_parts (steps : list md5_step) (ps : list part) : list part :=
  match last_part FourCC_DXIL ps, last_part FourCC_HASH ps with
  | Some dx, Some h =>
    if zlen (p_data h) <? 20 then ps else
    match dxil_bitcode_of (p_data dx) with
    | Some bc => fst (update_last FourCC_HASH (shader_hash_body steps bc ++ skipn 20 (p_data h)) ps)
    | None => ps
    end
  | _, _ => ps
  end.
