(* C18: the checker run on the bytes dxil.Compile returned (tie V): container
   structure, hash fields, program headers, bitstream parse.  Definitions only;
   soundness statements are in Dxil/CheckProofs.v. *)
From Coq Require Import List ZArith Bool String.
Local Notation length := List.length.
Import ListNotations.
Require Import Naga.Dxil.BitsModel Naga.Dxil.BitstreamModel Naga.Dxil.DxbcModel Naga.Dxil.Md5Model Naga.Dxil.MetaModel.
Open Scope Z_scope.

Fixpoint list_eqb (a b : list Z) : bool :=
  match a, b with
  | [], [] => true
  | x :: a', y :: b' => (x =? y) && list_eqb a' b'
  | _, _ => false
  end.

Inductive digest_kind := DRetail | DBypass | DBad.

Definition classify_digest (steps : list md5_step) (b digest : list Z) : digest_kind :=
  if list_eqb digest (retail_md5 steps (skipn 20 b)) then DRetail
  else if list_eqb digest bypass_digest then DBypass
  else DBad.

(* the part order dxil.Compile produces: SFI0, ISG1, OSG1, [PSG1], PSV0, STAT, HASH, DXIL *)
Definition expected_order (fcs : list Z) : bool :=
  list_eqb fcs [FourCC_SFI0; FourCC_ISG1; FourCC_OSG1; FourCC_PSV0; FourCC_STAT; FourCC_HASH; FourCC_DXIL]
  || list_eqb fcs [FourCC_SFI0; FourCC_ISG1; FourCC_OSG1; FourCC_PSG1; FourCC_PSV0; FourCC_STAT; FourCC_HASH; FourCC_DXIL].

(* ---- structural checks of the signature parts (signature.go EncodeSignature) and of
   PSV0 (psv.go EncodePSV0); error = Some message ---- *)

Definition u32_at (d : list Z) (off : Z) : Z := le_val (firstn 4 (skipn (Z.to_nat off) d)).
Definition u8_at (d : list Z) (off : Z) : Z := nth (Z.to_nat off) d (-1).

(* a NUL byte occurs at or after off, inside d *)
Definition nul_terminated_at (d : list Z) (off : Z) : bool :=
  (0 <=? off) && (off <? zlen d) && existsb (Z.eqb 0) (skipn (Z.to_nat off) d).

Fixpoint sig_elems_ok (d : list Z) (fixed : Z) (n : nat) (base : Z) : option string :=
  match n with
  | O => None
  | S n' =>
    if negb (u32_at d base =? 0) then Some ("signature element stream is not 0"%string)
    else if negb ((fixed <=? u32_at d (base + 4)) && nul_terminated_at d (u32_at d (base + 4))) then Some ("signature semantic name offset outside the string table"%string)
    else if negb (u32_at d (base + 16) <=? 3) then Some ("signature component type out of range"%string)
    else if negb ((u8_at d (base + 24) <=? 15) && (1 <=? u8_at d (base + 24))) then Some ("signature component mask empty or above 0xF"%string)
    else if negb (u8_at d (base + 25) <=? 15) then Some ("signature read/write mask above 0xF"%string)
    else if negb ((u8_at d (base + 26) =? 0) && (u8_at d (base + 27) =? 0) && (u32_at d (base + 28) =? 0)) then Some ("signature element padding / min precision not zero"%string)
    else sig_elems_ok d fixed n' (base + 32)
  end.

(* returns (element count, error) *)
Definition sig_part_check (d : list Z) : Z * option string :=
  if zlen d <? 8 then (0, Some ("signature part shorter than its header"%string)) else
  let n := u32_at d 0 in
  let fixed := 8 + 32 * n in
  if negb (u32_at d 4 =? 8) then (n, Some ("signature ParamOffset is not 8"%string))
  else if zlen d <? fixed then (n, Some ("signature elements exceed the part"%string))
  else if negb (zlen d mod 4 =? 0) then (n, Some ("signature part not 4-byte aligned"%string))
  else if (n =? 0) && negb (zlen d =? 8) then (n, Some ("empty signature with trailing bytes"%string))
  else (n, sig_elems_ok d fixed (Z.to_nat n) 8).

Fixpoint psv_resources_ok (d : list Z) (n : nat) (base : Z) : option string :=
  match n with
  | O => None
  | S n' =>
    if negb ((1 <=? u32_at d base) && (u32_at d base <=? 9)) then Some ("PSV0 resource type out of range"%string)
    else if negb (u32_at d (base + 8) <=? u32_at d (base + 12)) then Some ("PSV0 resource lower bound above upper bound"%string)
    else if negb ((1 <=? u32_at d (base + 16)) && (u32_at d (base + 16) <=? 16)) then Some ("PSV0 resource kind out of range"%string)
    else psv_resources_ok d n' (base + 24)
  end.

Record psv_info := mkPsv { psv_stage : Z; psv_sig_in : Z; psv_sig_out : Z; psv_sig_patch : Z; psv_nres : Z;
                           psv_entry_name : list Z; psv_threads : list Z }.

Fixpoint take_until_nul (l : list Z) : list Z :=
  match l with
  | [] => []
  | b :: l' => if b =? 0 then [] else b :: take_until_nul l'
  end.

(* walks the part exactly as EncodePSV0 lays it out; the part must end where the walk ends *)
Definition psv_part_check (d : list Z) : option psv_info * option string :=
  if zlen d <? 4 + 52 + 4 then (None, Some ("PSV0 shorter than runtime info"%string)) else
  if negb (u32_at d 0 =? 52) then (None, Some ("PSV0 runtime info size is not 52 (PSVRuntimeInfo3)"%string)) else
  let rti := 4 in
  let stage := u8_at d (rti + 24) in
  let sin := u8_at d (rti + 28) in let sout := u8_at d (rti + 29) in let spatch := u8_at d (rti + 30) in
  let vin := u8_at d (rti + 31) in let vout := u8_at d (rti + 32) in
  let entry_off := u32_at d (rti + 48) in
  let p0 := 4 + 52 in
  let nres := u32_at d p0 in
  let p1 := p0 + 4 in
  if (0 <? nres) && negb (u32_at d p1 =? 24) then (None, Some ("PSV0 resource record size is not 24"%string)) else
  let p2 := if 0 <? nres then p1 + 4 + 24 * nres else p1 in
  if zlen d <? p2 + 4 then (None, Some ("PSV0 truncated in resource table"%string)) else
  let strsz := u32_at d p2 in
  let p3 := p2 + 4 + strsz in
  if negb (strsz mod 4 =? 0) then (None, Some ("PSV0 string table size not 4-byte aligned"%string)) else
  if zlen d <? p3 + 4 then (None, Some ("PSV0 truncated in string table"%string)) else
  let strtab := firstn (Z.to_nat strsz) (skipn (Z.to_nat (p2 + 4)) d) in
  let nsem := u32_at d p3 in
  let p4 := p3 + 4 + 4 * nsem in
  let nsig := sin + sout + spatch in
  let p5 := if 0 <? nsig then p4 + 4 + 16 * nsig else p4 in
  if (0 <? nsig) && negb (u32_at d p4 =? 16) then (None, Some ("PSV0 signature element size is not 16"%string)) else
  let dep := if (0 <? nsig) && (0 <? vin) && (0 <? vout) then 4 * (((vout + 7) / 8) * vin * 4) else 0 in
  let info := mkPsv stage sin sout spatch nres (take_until_nul (skipn (Z.to_nat entry_off) strtab))
                    [u32_at d (rti + 36); u32_at d (rti + 40); u32_at d (rti + 44)] in
  if (0 <? spatch) && (zlen d =? p4 + 4 + 16 * (sin + sout) + dep)
  then (Some info, Some ("PSV0 declares primitive/patch-constant signature elements but stores none"%string))
  else if (zlen d <? p5 + dep) && ((p5 + dep - zlen d) mod 16 =? 0) && (p4 + 4 + dep <=? zlen d)
  then (Some info, Some ("PSV0 declares more signature elements than it stores"%string))
  else if negb (zlen d =? p5 + dep) then (Some info, Some ("PSV0 part does not end where its tables end"%string))
  else if negb ((entry_off <? strsz) && nul_terminated_at strtab entry_off) then (Some info, Some ("PSV0 entry function name offset outside the string table"%string))
  else (Some info, psv_resources_ok d (Z.to_nat nres) (p1 + 4)).

(* ---- consistency of the signature elements PSV0 stores, with PSV0's own vector counts and with
   the ISG1 / OSG1 / PSG1 parts (DxilPipelineStateValidation.h PSVSignatureElement0 and
   DxilSignature::NumVectorsUsed: the vector count of a signature is the maximum of
   StartRow + Rows over its allocated elements of the stream) ---- *)

Record psv_elem := mkPE { pe_semoff : Z; pe_semidx : Z; pe_rows : Z; pe_start_row : Z; pe_cols : Z; pe_start_col : Z;
                          pe_alloc : bool; pe_kind : Z; pe_ctype : Z; pe_stream : Z }.

(* one 16-byte PSVSignatureElement0 at base; semtab = offset of the first semantic index *)
Definition psv_elem_at (d : list Z) (semtab : Z) (base : Z) : psv_elem :=
  let cs := u8_at d (base + 10) in
  mkPE (u32_at d (base + 4)) (u32_at d (semtab + 4 * u32_at d (base + 4)))
       (u8_at d (base + 8)) (u8_at d (base + 9)) (cs mod 16) ((cs / 16) mod 4) (Z.testbit cs 6)
       (u8_at d (base + 11)) (u8_at d (base + 12)) ((u8_at d (base + 14) / 16) mod 4).

Fixpoint psv_elems (d : list Z) (semtab : Z) (n : nat) (base : Z) : list psv_elem :=
  match n with
  | O => []
  | S n' => psv_elem_at d semtab base :: psv_elems d semtab n' (base + 16)
  end.

(* offsets inside PSV0, computed as psv_part_check walks the part *)
Definition psv_semcount_offset (d : list Z) : Z :=
  let nres := u32_at d 56 in
  let p2 := if 0 <? nres then 60 + 4 + 24 * nres else 60 in
  p2 + 4 + u32_at d p2.
Definition psv_semtab_offset (d : list Z) : Z := psv_semcount_offset d + 4.
Definition psv_sigelem_offset (d : list Z) : Z :=
  psv_semcount_offset d + 4 + 4 * u32_at d (psv_semcount_offset d) + 4.

Record sig_elem := mkSE { se_stream : Z; se_semidx : Z; se_sysval : Z; se_ctype : Z; se_reg : Z; se_mask : Z }.

Definition sig_elem_at (d : list Z) (base : Z) : sig_elem :=
  mkSE (u32_at d base) (u32_at d (base + 8)) (u32_at d (base + 12)) (u32_at d (base + 16)) (u32_at d (base + 20)) (u8_at d (base + 24)).

Fixpoint sig_elems (d : list Z) (n : nat) (base : Z) : list sig_elem :=
  match n with
  | O => []
  | S n' => sig_elem_at d base :: sig_elems d n' (base + 32)
  end.

Definition sig_part_elems (d : list Z) : list sig_elem := sig_elems d (Z.to_nat (u32_at d 0)) 8.

(* what the two encodings of one element must agree on: stream, register row, component lanes,
   component type, semantic index.  An element that is not allocated (SV_Depth, SV_Coverage, ...)
   has register 0xFFFFFFFF in the signature part and its lanes start at column 0. *)
Definition sig_key := (Z * Z * Z * Z * Z)%type.

Definition pe_lanes (e : psv_elem) : Z := ((2 ^ pe_cols e - 1) * 2 ^ pe_start_col e) mod 16.

Definition pe_key (e : psv_elem) : sig_key :=
  if pe_alloc e then (pe_stream e, pe_start_row e, pe_lanes e, pe_ctype e, pe_semidx e)
  else (pe_stream e, 4294967295, (2 ^ pe_cols e - 1) mod 16, pe_ctype e, pe_semidx e).

Definition se_key (e : sig_elem) : sig_key := (se_stream e, se_reg e, se_mask e, se_ctype e, se_semidx e).

Definition key_eqb (a b : sig_key) : bool :=
  let '(a1, a2, a3, a4, a5) := a in let '(b1, b2, b3, b4, b5) := b in
  (a1 =? b1) && (a2 =? b2) && (a3 =? b3) && (a4 =? b4) && (a5 =? b5).

Fixpoint remove_key (k : sig_key) (l : list sig_key) : option (list sig_key) :=
  match l with
  | [] => None
  | x :: l' => if key_eqb k x then Some l'
               else match remove_key k l' with Some r => Some (x :: r) | None => None end
  end.

(* a is a rearrangement of b *)
Fixpoint perm_check (a b : list sig_key) : bool :=
  match a with
  | [] => match b with [] => true | _ => false end
  | k :: a' => match remove_key k b with Some b' => perm_check a' b' | None => false end
  end.

(* first row above an allocated element; 0 for an element that takes no row *)
Definition pe_top (e : psv_elem) : Z := if pe_alloc e then pe_start_row e + pe_rows e else 0.

Definition max_top (l : list psv_elem) : Z := fold_right (fun e acc => Z.max (pe_top e) acc) 0 l.

Definition on_stream (s : Z) (l : list psv_elem) : list psv_elem := filter (fun e => pe_stream e =? s) l.

(* an element lies inside the 4-lane rows it claims, and its semantic indices inside the table *)
Definition pe_fits (nsem : Z) (e : psv_elem) : bool :=
  (1 <=? pe_rows e) && (1 <=? pe_cols e) && (pe_cols e <=? 4) && (pe_start_col e + pe_cols e <=? 4) &&
  (pe_semoff e + pe_rows e <=? nsem).

(* two allocated elements of one stream claim the same lane of the same row *)
Definition pe_overlap (a b : psv_elem) : bool :=
  pe_alloc a && pe_alloc b && (pe_stream a =? pe_stream b) &&
  (pe_start_row a <? pe_start_row b + pe_rows b) && (pe_start_row b <? pe_start_row a + pe_rows a) &&
  negb (Z.land (pe_lanes a) (pe_lanes b) =? 0).

Fixpoint no_overlap (l : list psv_elem) : bool :=
  match l with
  | [] => true
  | x :: l' => forallb (fun y => negb (pe_overlap x y)) l' && no_overlap l'
  end.

Definition vectors_ok (vouts : list Z) (outs : list psv_elem) : bool :=
  forallb (fun p => snd p =? max_top (on_stream (fst p) outs)) (combine [0; 1; 2; 3] vouts).

(* the PSV0 fields the rules read *)
Record psv_sigs := mkPsvSigs { ps_vin : Z; ps_vouts : list Z; ps_nsem : Z;
                               ps_ins : list psv_elem; ps_outs : list psv_elem; ps_patch : list psv_elem }.

Definition psv_sigs_of (d : list Z) : psv_sigs :=
  let sin := u8_at d 32 in let sout := u8_at d 33 in let spatch := u8_at d 34 in
  let semtab := psv_semtab_offset d in let off := psv_sigelem_offset d in
  mkPsvSigs (u8_at d 35) [u8_at d 36; u8_at d 37; u8_at d 38; u8_at d 39] (u32_at d (psv_semcount_offset d))
            (psv_elems d semtab (Z.to_nat sin) off)
            (psv_elems d semtab (Z.to_nat sout) (off + 16 * sin))
            (psv_elems d semtab (Z.to_nat spatch) (off + 16 * (sin + sout))).

(* the rules, in the order they are reported; psg = None when the container has no PSG1 part
   (then PSV0 must not store primitive / patch-constant elements either: counted by sig_check) *)
Definition sig_rules_list (s : psv_sigs) (isg osg : list sig_elem) (psg : option (list sig_elem)) : list (bool * string) :=
  [ (forallb (pe_fits (ps_nsem s)) (ps_ins s ++ ps_outs s ++ ps_patch s),
     "PSV0 signature element outside its register row or semantic index table"%string);
    (ps_vin s =? max_top (ps_ins s),
     "PSV0 SigInputVectors is not the highest row used by its allocated input elements"%string);
    (vectors_ok (ps_vouts s) (ps_outs s),
     "PSV0 SigOutputVectors is not the highest row used by its allocated output elements"%string);
    (no_overlap (ps_ins s) && no_overlap (ps_outs s) && no_overlap (ps_patch s),
     "PSV0 signature elements overlap in a register row"%string);
    (perm_check (map pe_key (ps_ins s)) (map se_key isg),
     "PSV0 input elements disagree with ISG1 (register row, component mask, component type or semantic index)"%string);
    (perm_check (map pe_key (ps_outs s)) (map se_key osg),
     "PSV0 output elements disagree with OSG1 (register row, component mask, component type or semantic index)"%string);
    (match psg with Some l => perm_check (map pe_key (ps_patch s)) (map se_key l) | None => true end,
     "PSV0 primitive / patch-constant elements disagree with PSG1 (register row, component mask, component type or semantic index)"%string) ].

Definition first_failed (l : list (bool * string)) : option string :=
  fold_right (fun (x : bool * string) (acc : option string) => if fst x then acc else Some (snd x)) None l.

(* PSV0 stores its element tables only when it declares at least one element (EncodePSV0);
   without them the vector counts must be zero *)
Definition sig_rules (isg osg : list Z) (psg : option (list Z)) (pv : list Z) : option string :=
  let s := psv_sigs_of pv in
  if 0 <? u8_at pv 32 + u8_at pv 33 + u8_at pv 34 then
    first_failed (sig_rules_list s (sig_part_elems isg) (sig_part_elems osg)
                                 (match psg with Some d => Some (sig_part_elems d) | None => None end))
  else if forallb (Z.eqb 0) (ps_vin s :: ps_vouts s) then None
  else Some ("PSV0 stores no signature elements but declares input / output vectors"%string).

Definition first_err (l : list (option string)) : option string :=
  fold_right (fun x acc => match x with Some e => Some e | None => acc end) None l.

(* all interface parts of a container, and their mutual consistency *)
Definition sig_check (ps : list part) (prog_kind : Z) : option psv_info * option string :=
  let chk fc := match find_part fc ps with Some p => Some (sig_part_check (p_data p)) | None => None end in
  match chk FourCC_ISG1, chk FourCC_OSG1, find_part FourCC_PSV0 ps with
  | Some (nin, ein), Some (nout, eout), Some pv =>
    let '(info, epsv) := psv_part_check (p_data pv) in
    let npatch := match chk FourCC_PSG1 with Some (n, _) => n | None => 0 end in
    let epatch := match chk FourCC_PSG1 with Some (_, e) => e | None => None end in
    (info,
     first_err [ein; eout; epatch; epsv;
                match info with
                | Some i =>
                  if negb (psv_stage i =? prog_kind) then Some ("PSV0 shader stage differs from the program header kind"%string)
                  else if (0 <? psv_sig_in i + psv_sig_out i + psv_sig_patch i) &&
                          negb ((psv_sig_in i =? nin) && (psv_sig_out i =? nout) && (psv_sig_patch i =? npatch))
                       then Some ("PSV0 signature element counts differ from ISG1/OSG1/PSG1"%string)
                  else None
                | None => None
                end;
                (* element-level agreement; meaningful once the structural walks above succeeded *)
                match find_part FourCC_ISG1 ps, find_part FourCC_OSG1 ps with
                | Some pi, Some po =>
                  sig_rules (p_data pi) (p_data po)
                            (match find_part FourCC_PSG1 ps with Some pp => Some (p_data pp) | None => None end) (p_data pv)
                | _, _ => None
                end])
  | _, _, _ => (None, Some ("ISG1, OSG1 or PSV0 part missing"%string))
  end.


Record report := mkReport {
  r_parts : list (Z * Z);            (* fourcc, data size *)
  r_order_ok : bool;
  r_digest : digest_kind;
  r_dxil : option program;           (* program header of the DXIL part *)
  r_stat : option program;           (* program header of the STAT part *)
  r_stat_same_bitcode : bool;
  r_hash_part_ok : bool;             (* HASH body = flags 0 ++ md5(bitcode) *)
  r_sfi0_ok : bool;                  (* SFI0 body is 8 bytes *)
  r_stream : res (list item);        (* parse of the DXIL bitcode *)
  r_meta : option (option (option ref));   (* index check of the parsed module: None = stream did not parse *)
  r_sig : option psv_info * option string  (* interface parts *)
}.

Definition opt_bind {A B} (o : option A) (f : A -> option B) : option B :=
  match o with Some x => f x | None => None end.

Definition check_container (steps : list md5_step) (b : list Z) : option report :=
  match parse b with
  | None => None
  | Some (digest, ps) =>
    let dx := opt_bind (find_part FourCC_DXIL ps) (fun p => parse_program (p_data p)) in
    let st := opt_bind (find_part FourCC_STAT ps) (fun p => parse_program (p_data p)) in
    Some (mkReport
      (map (fun p => (p_fourcc p, zlen (p_data p))) ps)
      (expected_order (map p_fourcc ps))
      (classify_digest steps b digest)
      dx st
      (match dx, st with
       | Some a, Some c => list_eqb (pg_bitcode a) (pg_bitcode c) && (pg_kind a =? pg_kind c) && (pg_major a =? pg_major c)
                           && (pg_minor a =? pg_minor c) && (pg_dxil_minor a =? pg_dxil_minor c)
       | _, _ => false
       end)
      (match dx, find_part FourCC_HASH ps with
       | Some a, Some h => list_eqb (p_data h) (shader_hash_body steps (pg_bitcode a))
       | _, _ => false
       end)
      (match find_part FourCC_SFI0 ps with Some p => zlen (p_data p) =? 8 | None => false end)
      (match dx with Some a => dec_bytes (pg_bitcode a) | None => Err EMagic 0 end)
      (match dx with
       | Some a => match dec_bytes (pg_bitcode a) with Ok l => Some (meta_check l) | Err _ _ => None end
       | None => None
       end)
      (sig_check ps (match dx with Some a => pg_kind a | None => -1 end)))
  end.

(* tree statistics *)
Fixpoint item_stats (it : item) {struct it} : Z * Z * Z :=   (* records, blocks, depth *)
  match it with
  | Rec _ _ => (1, 0, 0)
  | Blk _ _ body =>
    let '(r, b, d) :=
      (fix go (l : list item) : Z * Z * Z :=
         match l with
         | [] => (0, 0, 0)
         | x :: l' => let '(r1, b1, d1) := item_stats x in let '(r2, b2, d2) := go l' in (r1 + r2, b1 + b2, Z.max d1 d2)
         end) body in
    (r, b + 1, d + 1)
  end.

Definition items_stats (l : list item) : Z * Z * Z :=
  fold_right (fun x acc => let '(r1, b1, d1) := item_stats x in let '(r2, b2, d2) := acc in (r1 + r2, b1 + b2, Z.max d1 d2)) (0, 0, 0) l.
