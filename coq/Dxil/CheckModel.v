(* C18: the checker run on the bytes dxil.Compile returned (tie V): container
   structure, hash fields, program headers, bitstream parse.  Definitions only;
   soundness statements are in Dxil/CheckProofs.v. *)
From Coq Require Import List ZArith Bool String.
Local Notation length := List.length.
Import ListNotations.
Require Import Naga.Dxil.BitsModel Naga.Dxil.BitstreamModel Naga.Dxil.DxbcModel Naga.Dxil.Md5Model Naga.Dxil.MetaModel.
Open Scope Z_scope.

Fixpoint list_eqb (a b : list Z) : bool :=
  match a, b with
  | [], [] => true
  | x :: a', y :: b' => (x =? y) && list_eqb a' b'
  | _, _ => false
  end.

Inductive digest_kind := DRetail | DBypass | DBad.

Definition classify_digest (steps : list md5_step) (b digest : list Z) : digest_kind :=
  if list_eqb digest (retail_md5 steps (skipn 20 b)) then DRetail
  else if list_eqb digest bypass_digest then DBypass
  else DBad.

(* the part order dxil.Compile produces: SFI0, ISG1, OSG1, [PSG1], PSV0, STAT, HASH, DXIL *)
Definition expected_order (fcs : list Z) : bool :=
  list_eqb fcs [FourCC_SFI0; FourCC_ISG1; FourCC_OSG1; FourCC_PSV0; FourCC_STAT; FourCC_HASH; FourCC_DXIL]
  || list_eqb fcs [FourCC_SFI0; FourCC_ISG1; FourCC_OSG1; FourCC_PSG1; FourCC_PSV0; FourCC_STAT; FourCC_HASH; FourCC_DXIL].

(* ---- structural checks of the signature parts (signature.go EncodeSignature) and of
   PSV0 (psv.go EncodePSV0); error = Some message ---- *)

Definition u32_at (d : list Z) (off : Z) : Z := le_val (firstn 4 (skipn (Z.to_nat off) d)).
Definition u8_at (d : list Z) (off : Z) : Z := nth (Z.to_nat off) d (-1).

(* a NUL byte occurs at or after off, inside d *)
Definition nul_terminated_at (d : list Z) (off : Z) : bool :=
  (0 <=? off) && (off <? zlen d) && existsb (Z.eqb 0) (skipn (Z.to_nat off) d).

Fixpoint sig_elems_ok (d : list Z) (fixed : Z) (n : nat) (base : Z) : option string :=
  match n with
  | O => None
  | S n' =>
    if negb (u32_at d base =? 0) then Some ("signature element stream is not 0"%string)
    else if negb ((fixed <=? u32_at d (base + 4)) && nul_terminated_at d (u32_at d (base + 4))) then Some ("signature semantic name offset outside the string table"%string)
    else if negb (u32_at d (base + 16) <=? 3) then Some ("signature component type out of range"%string)
    else if negb ((u8_at d (base + 24) <=? 15) && (1 <=? u8_at d (base + 24))) then Some ("signature component mask empty or above 0xF"%string)
    else if negb (u8_at d (base + 25) <=? 15) then Some ("signature read/write mask above 0xF"%string)
    else if negb ((u8_at d (base + 26) =? 0) && (u8_at d (base + 27) =? 0) && (u32_at d (base + 28) =? 0)) then Some ("signature element padding / min precision not zero"%string)
    else sig_elems_ok d fixed n' (base + 32)
  end.

(* returns (element count, error) *)
Definition sig_part_check (d : list Z) : Z * option string :=
  if zlen d <? 8 then (0, Some ("signature part shorter than its header"%string)) else
  let n := u32_at d 0 in
  let fixed := 8 + 32 * n in
  if negb (u32_at d 4 =? 8) then (n, Some ("signature ParamOffset is not 8"%string))
  else if zlen d <? fixed then (n, Some ("signature elements exceed the part"%string))
  else if negb (zlen d mod 4 =? 0) then (n, Some ("signature part not 4-byte aligned"%string))
  else if (n =? 0) && negb (zlen d =? 8) then (n, Some ("empty signature with trailing bytes"%string))
  else (n, sig_elems_ok d fixed (Z.to_nat n) 8).

Fixpoint psv_resources_ok (d : list Z) (n : nat) (base : Z) : option string :=
  match n with
  | O => None
  | S n' =>
    if negb ((1 <=? u32_at d base) && (u32_at d base <=? 9)) then Some ("PSV0 resource type out of range"%string)
    else if negb (u32_at d (base + 8) <=? u32_at d (base + 12)) then Some ("PSV0 resource lower bound above upper bound"%string)
    else if negb ((1 <=? u32_at d (base + 16)) && (u32_at d (base + 16) <=? 16)) then Some ("PSV0 resource kind out of range"%string)
    else psv_resources_ok d n' (base + 24)
  end.

Record psv_info := mkPsv { psv_stage : Z; psv_sig_in : Z; psv_sig_out : Z; psv_sig_patch : Z; psv_nres : Z;
                           psv_entry_name : list Z; psv_threads : list Z }.

Fixpoint take_until_nul (l : list Z) : list Z :=
  match l with
  | [] => []
  | b :: l' => if b =? 0 then [] else b :: take_until_nul l'
  end.

(* walks the part exactly as EncodePSV0 lays it out; the part must end where the walk ends *)
Definition psv_part_check (d : list Z) : option psv_info * option string :=
  if zlen d <? 4 + 52 + 4 then (None, Some ("PSV0 shorter than runtime info"%string)) else
  if negb (u32_at d 0 =? 52) then (None, Some ("PSV0 runtime info size is not 52 (PSVRuntimeInfo3)"%string)) else
  let rti := 4 in
  let stage := u8_at d (rti + 24) in
  let sin := u8_at d (rti + 28) in let sout := u8_at d (rti + 29) in let spatch := u8_at d (rti + 30) in
  let vin := u8_at d (rti + 31) in let vout := u8_at d (rti + 32) in
  let entry_off := u32_at d (rti + 48) in
  let p0 := 4 + 52 in
  let nres := u32_at d p0 in
  let p1 := p0 + 4 in
  if (0 <? nres) && negb (u32_at d p1 =? 24) then (None, Some ("PSV0 resource record size is not 24"%string)) else
  let p2 := if 0 <? nres then p1 + 4 + 24 * nres else p1 in
  if zlen d <? p2 + 4 then (None, Some ("PSV0 truncated in resource table"%string)) else
  let strsz := u32_at d p2 in
  let p3 := p2 + 4 + strsz in
  if negb (strsz mod 4 =? 0) then (None, Some ("PSV0 string table size not 4-byte aligned"%string)) else
  if zlen d <? p3 + 4 then (None, Some ("PSV0 truncated in string table"%string)) else
  let strtab := firstn (Z.to_nat strsz) (skipn (Z.to_nat (p2 + 4)) d) in
  let nsem := u32_at d p3 in
  let p4 := p3 + 4 + 4 * nsem in
  let nsig := sin + sout + spatch in
  let p5 := if 0 <? nsig then p4 + 4 + 16 * nsig else p4 in
  if (0 <? nsig) && negb (u32_at d p4 =? 16) then (None, Some ("PSV0 signature element size is not 16"%string)) else
  let dep := if (0 <? nsig) && (0 <? vin) && (0 <? vout) then 4 * (((vout + 7) / 8) * vin * 4) else 0 in
  let info := mkPsv stage sin sout spatch nres (take_until_nul (skipn (Z.to_nat entry_off) strtab))
                    [u32_at d (rti + 36); u32_at d (rti + 40); u32_at d (rti + 44)] in
  if (0 <? spatch) && (zlen d =? p4 + 4 + 16 * (sin + sout) + dep)
  then (Some info, Some ("PSV0 declares primitive/patch-constant signature elements but stores none"%string))
  else if negb (zlen d =? p5 + dep) then (Some info, Some ("PSV0 part does not end where its tables end"%string))
  else if negb ((entry_off <? strsz) && nul_terminated_at strtab entry_off) then (Some info, Some ("PSV0 entry function name offset outside the string table"%string))
  else (Some info, psv_resources_ok d (Z.to_nat nres) (p1 + 4)).

Definition first_err (l : list (option string)) : option string :=
  fold_right (fun x acc => match x with Some e => Some e | None => acc end) None l.

(* all interface parts of a container, and their mutual consistency *)
Definition sig_check (ps : list part) (prog_kind : Z) : option psv_info * option string :=
  let chk fc := match find_part fc ps with Some p => Some (sig_part_check (p_data p)) | None => None end in
  match chk FourCC_ISG1, chk FourCC_OSG1, find_part FourCC_PSV0 ps with
  | Some (nin, ein), Some (nout, eout), Some pv =>
    let '(info, epsv) := psv_part_check (p_data pv) in
    let npatch := match chk FourCC_PSG1 with Some (n, _) => n | None => 0 end in
    let epatch := match chk FourCC_PSG1 with Some (_, e) => e | None => None end in
    (info,
     first_err [ein; eout; epatch; epsv;
                match info with
                | Some i =>
                  if negb (psv_stage i =? prog_kind) then Some ("PSV0 shader stage differs from the program header kind"%string)
                  else if (0 <? psv_sig_in i + psv_sig_out i + psv_sig_patch i) &&
                          negb ((psv_sig_in i =? nin) && (psv_sig_out i =? nout) && (psv_sig_patch i =? npatch))
                       then Some ("PSV0 signature element counts differ from ISG1/OSG1/PSG1"%string)
                  else None
                | None => None
                end])
  | _, _, _ => (None, Some ("ISG1, OSG1 or PSV0 part missing"%string))
  end.


Record report := mkReport {
  r_parts : list (Z * Z);            (* fourcc, data size *)
  r_order_ok : bool;
  r_digest : digest_kind;
  r_dxil : option program;           (* program header of the DXIL part *)
  r_stat : option program;           (* program header of the STAT part *)
  r_stat_same_bitcode : bool;
  r_hash_part_ok : bool;             (* HASH body = flags 0 ++ md5(bitcode) *)
  r_sfi0_ok : bool;                  (* SFI0 body is 8 bytes *)
  r_stream : res (list item);        (* parse of the DXIL bitcode *)
  r_meta : option (option (option ref));   (* index check of the parsed module: None = stream did not parse *)
  r_sig : option psv_info * option string  (* interface parts *)
}.

Definition opt_bind {A B} (o : option A) (f : A -> option B) : option B :=
  match o with Some x => f x | None => None end.

Definition check_container (steps : list md5_step) (b : list Z) : option report :=
  match parse b with
  | None => None
  | Some (digest, ps) =>
    let dx := opt_bind (find_part FourCC_DXIL ps) (fun p => parse_program (p_data p)) in
    let st := opt_bind (find_part FourCC_STAT ps) (fun p => parse_program (p_data p)) in
    Some (mkReport
      (map (fun p => (p_fourcc p, zlen (p_data p))) ps)
      (expected_order (map p_fourcc ps))
      (classify_digest steps b digest)
      dx st
      (match dx, st with
       | Some a, Some c => list_eqb (pg_bitcode a) (pg_bitcode c) && (pg_kind a =? pg_kind c) && (pg_major a =? pg_major c)
                           && (pg_minor a =? pg_minor c) && (pg_dxil_minor a =? pg_dxil_minor c)
       | _, _ => false
       end)
      (match dx, find_part FourCC_HASH ps with
       | Some a, Some h => list_eqb (p_data h) (shader_hash_body steps (pg_bitcode a))
       | _, _ => false
       end)
      (match find_part FourCC_SFI0 ps with Some p => zlen (p_data p) =? 8 | None => false end)
      (match dx with Some a => dec_bytes (pg_bitcode a) | None => Err EMagic 0 end)
      (match dx with
       | Some a => match dec_bytes (pg_bitcode a) with Ok l => Some (meta_check l) | Err _ _ => None end
       | None => None
       end)
      (sig_check ps (match dx with Some a => pg_kind a | None => -1 end)))
  end.

(* tree statistics *)
Fixpoint item_stats (it : item) {struct it} : Z * Z * Z :=   (* records, blocks, depth *)
  match it with
  | Rec _ _ => (1, 0, 0)
  | Blk _ _ body =>
    let '(r, b, d) :=
      (fix go (l : list item) : Z * Z * Z :=
         match l with
         | [] => (0, 0, 0)
         | x :: l' => let '(r1, b1, d1) := item_stats x in let '(r2, b2, d2) := go l' in (r1 + r2, b1 + b2, Z.max d1 d2)
         end) body in
    (r, b + 1, d + 1)
  end.

Definition items_stats (l : list item) : Z * Z * Z :=
  fold_right (fun x acc => let '(r1, b1, d1) := item_stats x in let '(r2, b2, d2) := acc in (r1 + r2, b1 + b2, Z.max d1 d2)) (0, 0, 0) l.
