(* C18: the checker run on the bytes dxil.Compile returned (tie V): container
   structure, hash fields, program headers, bitstream parse.  Definitions only;
   soundness statements are in Dxil/CheckProofs.v. *)
From Coq Require Import List ZArith Bool String.
Import ListNotations.
Require Import Naga.Dxil.BitsModel Naga.Dxil.BitstreamModel Naga.Dxil.DxbcModel Naga.Dxil.Md5Model.
Open Scope Z_scope.

Fixpoint list_eqb (a b : list Z) : bool :=
  match a, b with
  | [], [] => true
  | x :: a', y :: b' => (x =? y) && list_eqb a' b'
  | _, _ => false
  end.

Inductive digest_kind := DRetail | DBypass | DBad.

Definition classify_digest (steps : list md5_step) (b digest : list Z) : digest_kind :=
  if list_eqb digest (retail_md5 steps (skipn 20 b)) then DRetail
  else if list_eqb digest bypass_digest then DBypass
  else DBad.

(* the part order dxil.Compile produces: SFI0, ISG1, OSG1, [PSG1], PSV0, STAT, HASH, DXIL *)
Definition expected_order (fcs : list Z) : bool :=
  list_eqb fcs [FourCC_SFI0; FourCC_ISG1; FourCC_OSG1; FourCC_PSV0; FourCC_STAT; FourCC_HASH; FourCC_DXIL]
  || list_eqb fcs [FourCC_SFI0; FourCC_ISG1; FourCC_OSG1; FourCC_PSG1; FourCC_PSV0; FourCC_STAT; FourCC_HASH; FourCC_DXIL].

Record report := mkReport {
  r_parts : list (Z * Z);            (* fourcc, data size *)
  r_order_ok : bool;
  r_digest : digest_kind;
  r_dxil : option program;           (* program header of the DXIL part *)
  r_stat : option program;           (* program header of the STAT part *)
  r_stat_same_bitcode : bool;
  r_hash_part_ok : bool;             (* HASH body = flags 0 ++ md5(bitcode) *)
  r_sfi0_ok : bool;                  (* SFI0 body is 8 bytes *)
  r_stream : res (list item)         (* parse of the DXIL bitcode *)
}.

Definition opt_bind {A B} (o : option A) (f : A -> option B) : option B :=
  match o with Some x => f x | None => None end.

Definition check_container (steps : list md5_step) (b : list Z) : option report :=
  match parse b with
  | None => None
  | Some (digest, ps) =>
    let dx := opt_bind (find_part FourCC_DXIL ps) (fun p => parse_program (p_data p)) in
    let st := opt_bind (find_part FourCC_STAT ps) (fun p => parse_program (p_data p)) in
    Some (mkReport
      (map (fun p => (p_fourcc p, zlen (p_data p))) ps)
      (expected_order (map p_fourcc ps))
      (classify_digest steps b digest)
      dx st
      (match dx, st with
       | Some a, Some c => list_eqb (pg_bitcode a) (pg_bitcode c) && (pg_kind a =? pg_kind c) && (pg_major a =? pg_major c)
                           && (pg_minor a =? pg_minor c) && (pg_dxil_minor a =? pg_dxil_minor c)
       | _, _ => false
       end)
      (match dx, find_part FourCC_HASH ps with
       | Some a, Some h => list_eqb (p_data h) (shader_hash_body steps (pg_bitcode a))
       | _, _ => false
       end)
      (match find_part FourCC_SFI0 ps with Some p => zlen (p_data p) =? 8 | None => false end)
      (match dx with Some a => dec_bytes (pg_bitcode a) | None => Err EMagic 0 end))
  end.

(* tree statistics *)
Fixpoint item_stats (it : item) {struct it} : Z * Z * Z :=   (* records, blocks, depth *)
  match it with
  | Rec _ _ => (1, 0, 0)
  | Blk _ _ body =>
    let '(r, b, d) :=
      (fix go (l : list item) : Z * Z * Z :=
         match l with
         | [] => (0, 0, 0)
         | x :: l' => let '(r1, b1, d1) := item_stats x in let '(r2, b2, d2) := go l' in (r1 + r2, b1 + b2, Z.max d1 d2)
         end) body in
    (r, b + 1, d + 1)
  end.

Definition items_stats (l : list item) : Z * Z * Z :=
  fold_right (fun x acc => let '(r1, b1, d1) := item_stats x in let '(r2, b2, d2) := acc in (r1 + r2, b1 + b2, Z.max d1 d2)) (0, 0, 0) l.
