(* C18: obligations on the definitions regenerated from /repo (Gen/DxilConsts.v):
   the constants hard-wired in the Coq models are the ones in the Go sources. *)
From Coq Require Import List ZArith String Bool.
Import ListNotations.
Require Import Naga.Dxil.BitsModel Naga.Dxil.DxbcModel Naga.Dxil.Md5Model Naga.Dxil.Md5Table Naga.Gen.DxilConsts.
Open Scope Z_scope.

Fixpoint lookup (k : string) (l : list (string * Z)) : option Z :=
  match l with
  | [] => None
  | (k', v) :: l' => if String.eqb k k' then Some v else lookup k l'
  end.

Definition has (l : list (string * Z)) (kv : string * Z) : bool :=
  match lookup (fst kv) l with Some v => v =? snd kv | None => false end.

(* abbreviation ids the reader/writer models use: END_BLOCK 0, ENTER_SUBBLOCK 1, DEFINE_ABBREV 2, UNABBREV_RECORD 3 *)
Lemma gen_abbrev_ids_ok :
  forallb (has gen_abbrev_ids) [("EndBlock", 0); ("EnterSubblock", 1); ("DefineAbbrev", 2); ("UnabbrevRecord", 3)]%string = true.
Proof. vm_compute. reflexivity. Qed.

(* FourCC codes of the container model *)
Lemma gen_fourcc_ok :
  forallb (has gen_fourcc)
    [("DXBC", FourCC_DXBC); ("DXIL", FourCC_DXIL); ("SFI0", FourCC_SFI0); ("HASH", FourCC_HASH);
     ("ISG1", FourCC_ISG1); ("OSG1", FourCC_OSG1); ("PSV0", FourCC_PSV0); ("PSG1", FourCC_PSG1);
     ("STAT", FourCC_STAT)]%string = true.
Proof. vm_compute. reflexivity. Qed.

(* program-header shader kinds per stage: pixel 0, vertex 1, compute 5, mesh 13, amplification 14 *)
Lemma gen_stage_kind_ok :
  forallb (has gen_stage_kind) [("fragment", 0); ("vertex", 1); ("compute", 5); ("mesh", 13); ("task", 14)]%string = true
  /\ forallb (has gen_shader_kinds) [("PixelShader", 0); ("VertexShader", 1); ("ComputeShader", 5); ("MeshShader", 13); ("AmplificationShader", 14)]%string = true.
Proof. vm_compute. split; reflexivity. Qed.

(* the 64 steps of md5Transform are the RFC 1321 steps; the initial state is RFC 1321's *)
Lemma gen_md5_steps_ok : gen_md5_steps = rfc_steps /\ gen_md5_init = rfc_init.
Proof. vm_compute. split; reflexivity. Qed.

Lemma gen_md5_init_model_ok :
  md5_init = (nth 0 gen_md5_init 0, nth 1 gen_md5_init 0, nth 2 gen_md5_init 0, nth 3 gen_md5_init 0).
Proof. vm_compute. reflexivity. Qed.

Lemma gen_bypass_ok : gen_bypass_hash = bypass_digest.
Proof. vm_compute. reflexivity. Qed.

(* AddDXILPart / AddSTATPart store exactly the six header words the model writes *)
Lemma gen_program_header_ok :
  gen_dxil_header_stores =
    [(0, "version"); (4, "wordSize"); (8, "0x4C495844"); (12, "dxilVersion"); (16, "16"); (20, "uint32(len(bitcodeData))")]%string
  /\ gen_stat_header_stores =
    [(0, "version"); (4, "wordSize"); (8, "0x4C495844"); (12, "uint32(0x100)|minorVer"); (16, "16"); (20, "uint32(len(bitcodeData))")]%string
  /\ gen_dxil_header_defs =
    [("version", "(shaderKind << 16) | (majorVer << 4) | minorVer"); ("totalSize", "6*4 + uint32(len(bitcodeData))");
     ("wordSize", "totalSize / 4"); ("dxilVersion", "uint32(0x100) | minorVer")]%string
  /\ firstn 3 gen_stat_header_defs = firstn 3 gen_dxil_header_defs.
Proof. vm_compute. repeat split; reflexivity. Qed.

(* LLVM block ids / record codes the index checker (Dxil/MetaModel.v) uses *)
Lemma gen_serialize_consts_ok :
  forallb (has gen_serialize_consts)
    [("blockInfoID", 0); ("moduleBlockID", 8); ("paramAttrID", 9); ("paramAttrGrpID", 10); ("constBlockID", 11);
     ("functionBlockID", 12); ("valueSymtabID", 14); ("metadataBlockID", 15); ("typeBlockID", 17);
     ("moduleCodeVersion", 1); ("moduleCodeTriple", 2); ("moduleCodeDataLayout", 3); ("moduleCodeGlobalVar", 7);
     ("moduleCodeFunction", 8); ("paramattrCodeEntry", 2); ("paramattrGrpCodeEntry", 3);
     ("typeCodeNumEntry", 1); ("typeCodeVoid", 2); ("typeCodeFloat", 3); ("typeCodeDouble", 4); ("typeCodeLabel", 5);
     ("typeCodeInteger", 7); ("typeCodePointer", 8); ("typeCodeHalf", 10); ("typeCodeArray", 11); ("typeCodeVector", 12);
     ("typeCodeMetadata", 16); ("typeCodeStructAnon", 18); ("typeCodeStructName", 19); ("typeCodeStructNamed", 20);
     ("typeCodeFuncType", 21);
     ("constCodeSetType", 1); ("constCodeNull", 2); ("constCodeUndef", 3); ("constCodeInteger", 4); ("constCodeFloat", 6);
     ("constCodeAggregate", 7); ("constCodeData", 22);
     ("funcCodeDeclareBlocks", 1); ("funcCodeInstBinop", 2); ("funcCodeInstCast", 3); ("funcCodeInstRet", 10);
     ("funcCodeInstBr", 11); ("funcCodeInstSelect", 29); ("funcCodeInstCmp2", 28); ("funcCodeInstCall", 34);
     ("funcCodeInstAlloca", 19); ("funcCodeInstLoad", 20); ("funcCodeInstGEP", 43); ("funcCodeInstStore", 44);
     ("funcCodeInstAtomicRMW", 38); ("funcCodeInstCmpXchg", 46); ("funcCodeInstPhi", 16);
     ("metadataString", 1); ("metadataValue", 2); ("metadataNode", 3); ("metadataName", 4); ("metadataNamedNode", 10);
     ("metadataKind", 6); ("vstCodeEntry", 1); ("vstCodeBBEntry", 2)]%string = true.
Proof. vm_compute. reflexivity. Qed.

(* RFC 1321 appendix A.5 test suite on the model instantiated with the regenerated steps *)
Definition hex_of_bytes (l : list Z) : list Z := l.
Example md5_empty : md5 gen_md5_steps [] =
  [212; 29; 140; 217; 143; 0; 178; 4; 233; 128; 9; 152; 236; 248; 66; 126].
Proof. vm_compute. reflexivity. Qed.
Example md5_abc : md5 gen_md5_steps [97; 98; 99] =
  [144; 1; 80; 152; 60; 210; 79; 176; 214; 150; 63; 125; 40; 225; 127; 114].
Proof. vm_compute. reflexivity. Qed.
(* 80 digits "1234567890" x 8 : 57edf4a22be3c955ac49da2e2107b67a (two padding blocks) *)
Example md5_digits :
  md5 gen_md5_steps (flat_map (fun _ => [49; 50; 51; 52; 53; 54; 55; 56; 57; 48]) (seq 0 8)) =
  [87; 237; 244; 162; 43; 227; 201; 85; 172; 73; 218; 46; 33; 7; 182; 122].
Proof. vm_compute. reflexivity. Qed.
