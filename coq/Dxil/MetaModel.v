(* C18: index validity of a parsed DXIL module: every operand that names a type,
   a value, a basic block, a metadata node or an attribute group refers to a
   defined one.  The record layouts are those module/serialize.go emits (LLVM 3.7
   bitcode, relative value ids, version 1).  Definitions only.

   meta_refs computes, for a module tree, the list of all (index, bound) pairs
   that must satisfy 0 <= index < bound, or an error when the tree does not have
   the shape serialize.go produces (unknown record code, record too short, ...). *)
From Coq Require Import List ZArith Bool String.
Import ListNotations.
Require Import Naga.Dxil.BitsModel Naga.Dxil.BitstreamModel.
Open Scope Z_scope.

Definition zlen' {A} (l : list A) : Z := Z.of_nat (List.length l).
Definition nthz (l : list Z) (i : Z) : Z := nth (Z.to_nat i) l (-1).

Inductive merr :=
| MShape (what : string)            (* not the shape serialize.go emits *)
| MRecord (block code : Z).         (* unknown or too-short record in a block *)

Record ref := mkRef { r_what : Z; r_idx : Z; r_bound : Z }.
(* r_what: 1 type id, 2 value id, 3 basic block, 4 metadata node, 5 attribute group/entry, 6 count *)

(* ---- pass 1: tables ---- *)

Definition recs_of (body : list item) : list (Z * list Z) :=
  flat_map (fun x => match x with Rec c ops => [(c, ops)] | Blk _ _ _ => [] end) body.

Definition blocks_of (id : Z) (body : list item) : list (list item) :=
  flat_map (fun x => match x with Blk i _ b => if i =? id then [b] else [] | Rec _ _ => [] end) body.

Definition is_type_def (c : Z) : bool := negb ((c =? 1) || (c =? 19)).

Record tables := mkTables {
  t_types : list (Z * list Z);      (* type-defining records in order *)
  t_numentry : list Z;              (* operands of NUMENTRY records *)
  t_gvars : list (list Z);
  t_funcs : list (list Z);
  t_nconsts : Z;
  t_nmd : Z;
  t_groups : list Z;                (* attribute group ids *)
  t_nattr : Z;
  t_bodies : list (list item)       (* FUNCTION_BLOCK bodies in order *)
}.

Definition count_if {A} (f : A -> bool) (l : list A) : Z := zlen' (filter f l).

Definition collect (body : list item) : tables :=
  let trecs := flat_map recs_of (blocks_of 17 body) in
  let crecs := flat_map recs_of (blocks_of 11 body) in
  let mrecs := flat_map recs_of (blocks_of 15 body) in
  let top := recs_of body in
  mkTables
    (filter (fun r => is_type_def (fst r)) trecs)
    (flat_map (fun r => if fst r =? 1 then snd r else []) trecs)
    (map snd (filter (fun r => fst r =? 7) top))
    (map snd (filter (fun r => fst r =? 8) top))
    (count_if (fun r => negb (fst r =? 1)) crecs)
    (count_if (fun r => (fst r =? 1) || (fst r =? 2) || (fst r =? 3)) mrecs)
    (map (fun r => nthz (snd r) 0) (filter (fun r => fst r =? 3) (flat_map recs_of (blocks_of 10 body))))
    (count_if (fun r => fst r =? 2) (flat_map recs_of (blocks_of 9 body)))
    (blocks_of 12 body).

Definition ntypes (t : tables) : Z := zlen' (t_types t).
Definition ngv (t : tables) : Z := zlen' (t_gvars t).
Definition nfn (t : tables) : Z := zlen' (t_funcs t).
Definition nvals (t : tables) : Z := ngv t + nfn t + t_nconsts t.

Definition type_at (t : tables) (i : Z) : Z * list Z :=
  if (0 <=? i) && (i <? ntypes t) then nth (Z.to_nat i) (t_types t) (0, []) else (0, []).

(* a function type: FUNCTION record (21) [vararg, ret, params...], possibly behind a POINTER (8) *)
Definition fn_type_of (t : tables) (i : Z) : option (list Z) :=
  let '(c, ops) := type_at t i in
  if c =? 21 then Some ops
  else if c =? 8 then (let '(c2, ops2) := type_at t (nthz ops 0) in if c2 =? 21 then Some ops2 else None)
  else None.

Definition fn_nparams (ft : list Z) : Z := zlen' ft - 2.
Definition fn_returns_value (t : tables) (ft : list Z) : bool := negb (fst (type_at t (nthz ft 1)) =? 2).

(* ---- references of module-level records ---- *)

Definition tref (t : tables) (i : Z) : ref := mkRef 1 i (ntypes t).
Definition vref (i bound : Z) : ref := mkRef 2 i bound.

Definition type_record_refs (t : tables) (r : Z * list Z) : option (list ref) :=
  let '(c, ops) := r in
  if (c =? 2) || (c =? 3) || (c =? 4) || (c =? 5) || (c =? 10) || (c =? 16) then Some []
  else if c =? 7 then (if zlen' ops <? 1 then None else Some [])
  else if c =? 8 then (if zlen' ops <? 2 then None else Some [tref t (nthz ops 0)])
  else if (c =? 11) || (c =? 12) then (if zlen' ops <? 2 then None else Some [tref t (nthz ops 1)])
  else if (c =? 18) || (c =? 20) then (if zlen' ops <? 1 then None else Some (map (tref t) (skipn 1 ops)))
  else if c =? 21 then (if zlen' ops <? 2 then None else Some (map (tref t) (skipn 1 ops)))
  else None.

Definition gvar_refs (t : tables) (ops : list Z) : option (list ref) :=
  if zlen' ops <? 6 then None else
  Some (tref t (nthz ops 0) ::
        (if nthz ops 2 =? 0 then []
         else [mkRef 2 (nthz ops 2 - 1 - (ngv t + nfn t)) (t_nconsts t)])).

Definition func_refs (t : tables) (ops : list Z) : option (list ref) :=
  if zlen' ops <? 5 then None else
  match fn_type_of t (nthz ops 0) with
  | None => None
  | Some _ => Some [tref t (nthz ops 0); mkRef 5 (nthz ops 4) (t_nattr t + 1)]
  end.

Definition const_record_refs (t : tables) (r : Z * list Z) : option (list ref) :=
  let '(c, ops) := r in
  if c =? 1 then (if zlen' ops <? 1 then None else Some [tref t (nthz ops 0)])
  else if (c =? 2) || (c =? 3) then Some []
  else if (c =? 4) || (c =? 6) then (if zlen' ops <? 1 then None else Some [])
  else if c =? 7 then Some (map (fun v => vref v (nvals t)) ops)
  else if c =? 22 then Some []
  else None.

Definition md_record_refs (t : tables) (r : Z * list Z) : option (list ref) :=
  let '(c, ops) := r in
  if (c =? 1) || (c =? 4) then Some []
  else if c =? 2 then (if zlen' ops <? 2 then None else Some [tref t (nthz ops 0); vref (nthz ops 1) (nvals t)])
  else if c =? 3 then Some (map (fun m => mkRef 4 m (t_nmd t + 1)) ops)
  else if c =? 10 then Some (map (fun m => mkRef 4 m (t_nmd t)) ops)
  else if c =? 6 then (if zlen' ops <? 1 then None else Some [])
  else None.

Definition vst_record_refs (t : tables) (r : Z * list Z) : option (list ref) :=
  let '(c, ops) := r in
  if c =? 1 then (if zlen' ops <? 1 then None else Some [vref (nthz ops 0) (ngv t + nfn t)])
  else if c =? 2 then Some []
  else None.

Definition attr_record_refs (t : tables) (r : Z * list Z) : option (list ref) :=
  let '(c, ops) := r in
  if c =? 2 then Some (map (fun g => mkRef 5 (if existsb (Z.eqb g) (t_groups t) then 0 else -1) 1) ops) else None.

(* ---- function bodies ---- *)

Definition two32m := 4294967296.
Definition rel (cur d : Z) : Z := (cur - d) mod two32m.     (* LLVM: InstNum - (unsigned)Record[i] *)

(* does the instruction define a value?  None = unknown code / malformed *)
Definition inst_has_value (t : tables) (cur : Z) (r : Z * list Z) : option bool :=
  let '(c, ops) := r in
  if (c =? 2) || (c =? 3) || (c =? 28) || (c =? 29) || (c =? 19) || (c =? 20) || (c =? 43) || (c =? 16)
     || (c =? 26) || (c =? 27) || (c =? 38) || (c =? 46) then Some true
  else if (c =? 44) || (c =? 11) || (c =? 10) then Some false
  else if c =? 34 then
    (if zlen' ops <? 4 then None else
     match fn_type_of t (nthz ops 2) with Some ft => Some (fn_returns_value t ft) | None => None end)
  else None.

Fixpoint count_values (t : tables) (cur : Z) (rs : list (Z * list Z)) : option Z :=
  match rs with
  | [] => Some cur
  | r :: rs' =>
    match inst_has_value t cur r with
    | Some hv => count_values t (if hv then cur + 1 else cur) rs'
    | None => None
    end
  end.

Fixpoint phi_refs (t : tables) (cur final nbb : Z) (ops : list Z) : list ref :=
  match ops with
  | v :: bb :: ops' => vref ((cur - decode_signed_vbr v) mod two32m) final :: mkRef 3 bb nbb :: phi_refs t cur final nbb ops'
  | _ => []
  end.

Definition inst_refs (t : tables) (cur final nbb : Z) (r : Z * list Z) : option (list ref) :=
  let '(c, ops) := r in
  let v i := vref (rel cur (nthz ops i)) final in
  let n := zlen' ops in
  if c =? 2 then (if n <? 3 then None else Some [v 0; v 1])
  else if c =? 3 then (if n <? 3 then None else Some [v 0; tref t (nthz ops 1)])
  else if c =? 28 then (if n <? 3 then None else Some [v 0; v 1])
  else if c =? 29 then (if n <? 3 then None else Some [v 0; v 1; v 2])
  else if c =? 10 then (if n =? 0 then Some [] else Some [v 0])
  else if c =? 11 then (if n =? 1 then Some [mkRef 3 (nthz ops 0) nbb]
                        else if n =? 3 then Some [mkRef 3 (nthz ops 0) nbb; mkRef 3 (nthz ops 1) nbb; v 2] else None)
  else if c =? 26 then (if n <? 2 then None else Some [v 0])
  else if c =? 27 then (if n <? 3 then None else Some [v 0; v 1])
  else if c =? 19 then (if n <? 4 then None else Some [tref t (nthz ops 0); tref t (nthz ops 1); vref (nthz ops 2) final])
  else if c =? 20 then (if n <? 4 then None else Some [v 0; tref t (nthz ops 1)])
  else if c =? 43 then (if n <? 3 then None else Some (tref t (nthz ops 1) :: map (fun d => vref (rel cur d) final) (skipn 2 ops)))
  else if c =? 44 then (if n <? 4 then None else Some [v 0; v 1])
  else if c =? 38 then (if n <? 6 then None else Some [v 0; v 1])
  else if c =? 46 then (if n <? 6 then None else Some [v 0; v 1; v 2])
  else if c =? 34 then
    (if n <? 4 then None else
     match fn_type_of t (nthz ops 2) with
     | None => None
     | Some ft =>
       Some (tref t (nthz ops 2) ::
             mkRef 2 (rel cur (nthz ops 3) - ngv t) (nfn t) ::                (* the callee is a function *)
             mkRef 6 (n - 4) (fn_nparams ft + 1) :: mkRef 6 (fn_nparams ft) (n - 4 + 1) ::   (* argument count *)
             map (fun d => vref (rel cur d) final) (skipn 4 ops))
     end)
  else if c =? 16 then (if (n <? 3) || negb (Z.odd n) then None else Some (tref t (nthz ops 0) :: phi_refs t cur final nbb (skipn 1 ops)))
  else None.

Fixpoint insts_refs (t : tables) (cur final nbb : Z) (rs : list (Z * list Z)) : option (list ref) :=
  match rs with
  | [] => Some []
  | r :: rs' =>
    match inst_refs t cur final nbb r, inst_has_value t cur r with
    | Some l, Some hv =>
      match insts_refs t (if hv then cur + 1 else cur) final nbb rs' with
      | Some l' => Some (l ++ l')
      | None => None
      end
    | _, _ => None
    end
  end.

(* one FUNCTION_BLOCK with the MODULE_CODE_FUNCTION record it belongs to *)
Definition body_refs (t : tables) (fops : list Z) (body : list item) : option (list ref) :=
  match fn_type_of t (nthz fops 0), recs_of body with
  | Some ft, (1, [nbb]) :: insts =>
    let start := nvals t + fn_nparams ft in
    match count_values t start insts with
    | Some final => insts_refs t start final nbb insts
    | None => None
    end
  | _, _ => None
  end.

Fixpoint concat_opt {A} (l : list (option (list A))) : option (list A) :=
  match l with
  | [] => Some []
  | Some x :: l' => match concat_opt l' with Some y => Some (x ++ y) | None => None end
  | None :: _ => None
  end.

Definition defined_funcs (t : tables) : list (list Z) := filter (fun ops => nthz ops 2 =? 0) (t_funcs t).

(* all references of a module (top level must be exactly one MODULE block, id 8) *)
Definition meta_refs (l : list item) : option (list ref) :=
  match l with
  | [Blk 8 _ body] =>
    let t := collect body in
    if negb (Nat.eqb (List.length (defined_funcs t)) (List.length (t_bodies t))) then None else
    concat_opt (
      [Some (map (fun n => mkRef 6 (n - ntypes t) 1) (t_numentry t) ++ map (fun n => mkRef 6 (ntypes t - n) 1) (t_numentry t))] ++
      map (type_record_refs t) (t_types t) ++
      map (gvar_refs t) (t_gvars t) ++
      map (func_refs t) (t_funcs t) ++
      map (attr_record_refs t) (flat_map recs_of (blocks_of 9 body)) ++
      map (const_record_refs t) (flat_map recs_of (blocks_of 11 body)) ++
      map (md_record_refs t) (flat_map recs_of (blocks_of 15 body)) ++
      map (vst_record_refs t) (flat_map recs_of (blocks_of 14 body)) ++
      map (fun p => body_refs t (fst p) (snd p)) (combine (defined_funcs t) (t_bodies t)))
  | _ => None
  end.

Definition ref_ok (r : ref) : bool := (0 <=? r_idx r) && (r_idx r <? r_bound r).

Fixpoint first_bad (l : list ref) : option ref :=
  match l with
  | [] => None
  | r :: l' => if ref_ok r then first_bad l' else Some r
  end.

(* the checker: Some None = all indices defined; Some (Some r) = r is out of range; None = shape error *)
Definition meta_check (l : list item) : option (option ref) :=
  match meta_refs l with
  | Some refs => Some (first_bad refs)
  | None => None
  end.

Definition meta_ok (l : list item) : bool :=
  match meta_check l with Some None => true | _ => false end.
