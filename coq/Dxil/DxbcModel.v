(* C18: model of dxil/internal/container/container.go (DXBC container writer:
   Container.Bytes, AddDXILPart / AddSTATPart program header, AddFeaturesPart,
   AddHashPart) and a strict parser for the same layout.  Definitions only. *)
From Coq Require Import List ZArith Bool Lia.
Import ListNotations.
Require Import Naga.Dxil.BitsModel.
Open Scope Z_scope.

Definition two32 := 4294967296.

Record part := mkPart { p_fourcc : Z; p_data : list Z }.

Definition fourcc (a b c d : Z) : Z := a + 256 * b + 65536 * c + 16777216 * d.
Definition FourCC_DXBC := fourcc 68 88 66 67.
Definition FourCC_DXIL := fourcc 68 88 73 76.
Definition FourCC_SFI0 := fourcc 83 70 73 48.
Definition FourCC_HASH := fourcc 72 65 83 72.
Definition FourCC_ISG1 := fourcc 73 83 71 49.
Definition FourCC_OSG1 := fourcc 79 83 71 49.
Definition FourCC_PSV0 := fourcc 80 83 86 48.
Definition FourCC_PSG1 := fourcc 80 83 71 49.
Definition FourCC_STAT := fourcc 83 84 65 84.

Definition zlen {A} (l : list A) : Z := Z.of_nat (length l).

(* ---------------- writer (Container.Bytes) ---------------- *)

Definition part_bytes (p : part) : list Z :=
  le32 (p_fourcc p mod two32) ++ le32 (zlen (p_data p) mod two32) ++ p_data p.

Definition part_size (p : part) : Z := 8 + zlen (p_data p).

Fixpoint parts_size (ps : list part) : Z :=
  match ps with [] => 0 | p :: ps' => part_size p + parts_size ps' end.

(* offsets of the parts when the first one starts at pos *)
Fixpoint part_offsets (pos : Z) (ps : list part) : list Z :=
  match ps with [] => [] | p :: ps' => pos :: part_offsets (pos + part_size p) ps' end.

Definition header_size (n : Z) : Z := 32 + 4 * n.

Definition total_size (ps : list part) : Z := header_size (zlen ps) + parts_size ps.

(* the container with a given 16-byte digest field *)
Definition build (digest : list Z) (ps : list part) : list Z :=
  le32 FourCC_DXBC ++ digest ++ le16 1 ++ le16 0 ++
  le32 (total_size ps mod two32) ++ le32 (zlen ps mod two32) ++
  flat_map (fun o => le32 (o mod two32)) (part_offsets (header_size (zlen ps)) ps) ++
  flat_map part_bytes ps.

(* Container.Bytes(): digest = 16 zero bytes *)
Definition container_bytes (ps : list part) : list Z := build (repeat 0 16%nat) ps.

(* copy(containerData[4:20], d) for len(containerData) >= 20 *)
Definition set_digest (d : list Z) (b : list Z) : list Z :=
  if zlen b <? 20 then b else firstn 4 b ++ d ++ skipn 20 b.

(* AddDXILPart / AddSTATPart: 24-byte program header + bitcode *)
Definition program_version (kind major minor : Z) : Z :=
  Z.lor (Z.lor ((kind * 65536) mod two32) ((major * 16) mod two32)) minor.

Definition program_bytes (kind major minor : Z) (bitcode : list Z) : list Z :=
  le32 (program_version kind major minor) ++
  le32 (((24 + zlen bitcode mod two32) mod two32) / 4) ++
  le32 1279875140 (* 0x4C495844 "DXIL" *) ++
  le32 (Z.lor 256 minor) ++
  le32 16 ++
  le32 (zlen bitcode mod two32) ++
  bitcode.

Definition dxil_part kind major minor bitcode := mkPart FourCC_DXIL (program_bytes kind major minor bitcode).
Definition stat_part kind major minor bitcode := mkPart FourCC_STAT (program_bytes kind major minor bitcode).
Definition features_part (f : Z) : part := mkPart FourCC_SFI0 (le32 (f mod two32) ++ le32 ((f / two32) mod two32)).
Definition hash_part : part := mkPart FourCC_HASH (repeat 0 20%nat).

(* ---------------- parser ---------------- *)

Definition is_byte (b : Z) : bool := (0 <=? b) && (b <? 256).

(* split off n bytes *)
Definition split_at (n : Z) (l : list Z) : option (list Z * list Z) :=
  if (n <? 0) || (zlen l <? n) then None else Some (firstn (Z.to_nat n) l, skipn (Z.to_nat n) l).

Definition read32 (l : list Z) : option (Z * list Z) :=
  match l with
  | a :: b :: c :: d :: rest => Some (le_val [a; b; c; d], rest)
  | _ => None
  end.

Definition read16 (l : list Z) : option (Z * list Z) :=
  match l with
  | a :: b :: rest => Some (le_val [a; b], rest)
  | _ => None
  end.

Fixpoint read32s (n : nat) (l : list Z) : option (list Z * list Z) :=
  match n with
  | O => Some ([], l)
  | S n' =>
    match read32 l with
    | Some (v, l1) =>
      match read32s n' l1 with
      | Some (vs, l2) => Some (v :: vs, l2)
      | None => None
      end
    | None => None
    end
  end.

(* parts laid out back to back: each recorded offset must be the running position *)
Fixpoint parse_parts (offs : list Z) (pos : Z) (l : list Z) : option (list part) :=
  match offs with
  | [] => match l with [] => Some [] | _ => None end
  | o :: offs' =>
    if o =? pos then
      match read32 l with
      | Some (fc, l1) =>
        match read32 l1 with
        | Some (sz, l2) =>
          match split_at sz l2 with
          | Some (d, l3) =>
            match parse_parts offs' (pos + 8 + sz) l3 with
            | Some ps => Some (mkPart fc d :: ps)
            | None => None
            end
          | None => None
          end
        | None => None
        end
      | None => None
      end
    else None
  end.

(* parse: Some (digest, parts) iff the bytes are a canonical DXBC container *)
Definition parse (b : list Z) : option (list Z * list part) :=
  if negb (forallb is_byte b) then None else
  match read32 b with
  | Some (magic, b1) =>
    if negb (magic =? FourCC_DXBC) then None else
    match split_at 16 b1 with
    | Some (digest, b2) =>
      match read16 b2 with
      | Some (vmaj, b3) =>
        match read16 b3 with
        | Some (vmin, b4) =>
          if negb ((vmaj =? 1) && (vmin =? 0)) then None else
          match read32 b4 with
          | Some (fsize, b5) =>
            if negb (fsize =? zlen b) then None else
            match read32 b5 with
            | Some (n, b6) =>
              if zlen b6 <? 4 * n then None else
              match read32s (Z.to_nat n) b6 with
              | Some (offs, b7) =>
                match parse_parts offs (header_size n) b7 with
                | Some ps => Some (digest, ps)
                | None => None
                end
              | None => None
              end
            | None => None
            end
          | None => None
          end
        | None => None
        end
      | None => None
      end
    | None => None
    end
  | None => None
  end.

(* the program header of a DXIL / STAT part *)
Record program := mkProg { pg_kind : Z; pg_major : Z; pg_minor : Z; pg_dxil_minor : Z; pg_bitcode : list Z }.

Definition parse_program (d : list Z) : option program :=
  match read32 d with
  | Some (ver, d1) =>
    match read32 d1 with
    | Some (words, d2) =>
      match read32 d2 with
      | Some (magic, d3) =>
        match read32 d3 with
        | Some (dver, d4) =>
          match read32 d4 with
          | Some (off, d5) =>
            match read32 d5 with
            | Some (sz, bc) =>
              if (magic =? 1279875140) && (off =? 16) && (sz =? zlen bc) && (words =? (24 + sz) / 4)
                 && (sz mod 4 =? 0) && (dver / 256 =? 1) && (ver / 4294967296 =? 0)
              then Some (mkProg (ver / 65536) ((ver / 16) mod 4096) (ver mod 16) (dver mod 256) bc)
              else None
            | None => None
            end
          | None => None
          end
        | None => None
        end
      | None => None
      end
    | None => None
    end
  | None => None
  end.

Fixpoint find_part (fc : Z) (ps : list part) : option part :=
  match ps with
  | [] => None
  | p :: ps' => if p_fourcc p =? fc then Some p else find_part fc ps'
  end.

Fixpoint count_part (fc : Z) (ps : list part) : Z :=
  match ps with
  | [] => 0
  | p :: ps' => (if p_fourcc p =? fc then 1 else 0) + count_part fc ps'
  end.

(* declarative layout facts (what dxbc_sizes_consistent states) *)
Fixpoint offsets_chain (offs : list Z) (ps : list part) : Prop :=
  match offs, ps with
  | o1 :: ((o2 :: _) as offs'), p :: ps' => o2 = o1 + 8 + zlen (p_data p) /\ o1 < o2 /\ offsets_chain offs' ps'
  | [_], [_] => True
  | [], [] => True
  | _, _ => False
  end.
