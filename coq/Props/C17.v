(* Property C17: resource bindings and stage interfaces survive translation exactly.
   Theorems only; models and proofs are in coq/Iface/. *)
From Coq Require Import List ZArith String Bool Permutation.
Import ListNotations.
Require Import Naga.IR.Syntax Naga.Spv.Binary.
Require Import Naga.Iface.Reach Naga.Iface.ReachGo Naga.Iface.SpvSpec Naga.Iface.SpvIface Naga.Iface.SpvIfaceProofs Naga.Iface.TextBindings
               Naga.Iface.SpvGenTies.
Local Open Scope string_scope.
Local Open Scope list_scope.
Local Open Scope Z_scope.

(* ---- which globals an entry point uses (model of collectUsedGlobalVars), every module ---- *)

(* g is in the executable set  <->  a call path leads from the entry function to a function whose
   expressions name g.  No assumption on the call graph (cycles allowed). *)
Theorem c17_used_globals_correct : forall m ep g,
  In g (used_globals m ep) <->
  exists f, call_path m (ep_func ep) f /\ In (EGlobalVariable g) (f_exprs f).
Proof. exact used_globals_correct. Qed.
Print Assumptions c17_used_globals_correct.

Theorem c17_used_globals_each_once : forall m ep, NoDup (used_globals m ep).
Proof. exact used_globals_nodup. Qed.
Print Assumptions c17_used_globals_each_once.

(* fuel: as many saturation rounds as the module has functions suffice; more change nothing *)
Theorem c17_reach_fuel_enough : forall m S0 fuel,
  Forall (fun h => (h < List.length (m_functions m))%nat) S0 -> (List.length (m_functions m) <= fuel)%nat ->
  forall h, In h (reach_fuel m fuel S0) <-> In h (reach m S0).
Proof. exact reach_fuel_enough. Qed.
Print Assumptions c17_reach_fuel_enough.

(* the Go traversal itself (depth-first, visited set, out-of-range handles skipped), run with a fuel of
   (calls in the entry function + call statements in the module + 1), terminates and yields exactly that set *)
Theorem c17_go_traversal_equals_reach : forall m ep,
  exists l, go_used_globals m (List.length (raw_calls (ep_func ep)) + call_count m + 1) (ep_func ep) = Some l /\
            forall g, In g l <-> In g (used_globals m ep).
Proof. exact go_traversal_equals_reach. Qed.
Print Assumptions c17_go_traversal_equals_reach.

(* ---- the verified SPIR-V interface checker (run on every emitted binary) ---- *)

(* an empty mismatch list means the binary has exactly the expected interface *)
Theorem c17_spv_checker_sound : forall fps m h is,
  check_spv_iface fps m (h, is) = [] -> iface_spec fps m h is.
Proof. exact check_spv_iface_sound. Qed.
Print Assumptions c17_spv_checker_sound.

(* interface_exact: from SPIR-V 1.4 the non-Input/Output part of each OpEntryPoint interface is exactly
   the variables of the globals the entry point reaches through the call graph, each once; before 1.4 it is empty *)
Theorem c17_interface_exact : forall fps m h is ep,
  check_spv_iface fps m (h, is) = [] ->
  In ep (m_entry_points m) -> compilable ep = true ->
  exists a, find_eps is (ep_name ep) = [a] /\ NoDup (ea_iface a) /\
    let vars := module_vars is in
    (V_1_4 <= version h ->
       forall id, In id (other_ids_of vars (ea_iface a)) <->
                  exists g f, call_path m (ep_func ep) f /\ In (EGlobalVariable g) (f_exprs f) /\
                              lookup_handle g (global_map m vars) = Some id) /\
    (version h < V_1_4 -> other_ids_of vars (ea_iface a) = []).
Proof. exact interface_exact. Qed.
Print Assumptions c17_interface_exact.

(* ---- binding-map lookups of the text back ends ---- *)

(* HLSL getBindTarget: present -> mapped; absent with FakeMissingBindings -> (space = group, register = binding) *)
Theorem c17_hlsl_lookup_semantics : forall o k,
  (forall t, lookup k (h_map o) = Some t -> hlsl_bind_target o (Some k) = t) /\
  (lookup k (h_map o) = None -> h_fake o = true ->
     hlsl_bind_target o (Some k) = ((if fst k <=? 255 then fst k else 0), snd k)) /\
  (lookup k (h_map o) = None -> h_fake o = false -> hlsl_bind_target o (Some k) = (0, 0)).
Proof.
  intros o k. split; [|split].
  - intros t. apply hlsl_lookup_present.
  - apply hlsl_lookup_absent_fake.
  - apply hlsl_lookup_absent_nofake.
Qed.
Print Assumptions c17_hlsl_lookup_semantics.

Theorem c17_hlsl_fake_injective : forall o k1 k2, h_map o = [] -> h_fake o = true ->
  fst k1 <= 255 -> fst k2 <= 255 ->
  hlsl_bind_target o (Some k1) = hlsl_bind_target o (Some k2) -> k1 = k2.
Proof. exact hlsl_fake_injective. Qed.
Print Assumptions c17_hlsl_fake_injective.

(* the statement "absent without the flag is an error" (the option's documentation) does not hold of the
   model of the code: two different resources silently share register 0 of space 0 *)
Theorem c17_hlsl_missing_binding_is_error_refuted :
  exists o k1 k2, k1 <> k2 /\ lookup k1 (h_map o) = None /\ lookup k2 (h_map o) = None /\ h_fake o = false /\
                  hlsl_bind_target o (Some k1) = hlsl_bind_target o (Some k2).
Proof. exists (mk_hopts [] false), (0, 1), (1, 2). repeat split; try reflexivity. discriminate. Qed.
Print Assumptions c17_hlsl_missing_binding_is_error_refuted.

(* MSL: explicit per-entry-point map *)
Theorem c17_msl_lookup_semantics : forall o m ep rm k kind,
  lookup_ep ep (m_per_ep o) = Some rm ->
  (forall t n, lookup k rm = Some t -> target_slot t kind = Some n -> msl_slot_of o m ep k kind = MSlot n) /\
  (lookup k rm = None -> m_fake o = true -> msl_slot_of o m ep k kind = MFake) /\
  (lookup k rm = None -> m_fake o = false -> msl_slot_of o m ep k kind = MSlot (snd k)).
Proof.
  intros o m ep rm k kind He. split; [|split].
  - intros t n Hl Ht. eapply msl_lookup_present; eauto.
  - intros. eapply msl_lookup_absent_fake; eauto.
  - intros. eapply msl_lookup_absent_nofake; eauto.
Qed.
Print Assumptions c17_msl_lookup_semantics.

(* MSL automatic numbering (no map, no fake): the rank among the bound globals of the same kind, ... *)
Theorem c17_msl_auto_slot : forall o m ep k kind,
  lookup_ep ep (m_per_ep o) = None -> m_fake o = false -> 0 <= kind <= 2 ->
  In (k, kind) (bound_entries m) -> (forall kind', In (k, kind') (bound_entries m) -> kind' = kind) ->
  msl_slot_of o m ep k kind = MSlot (rank (bound_entries m) k kind mod 256).
Proof. exact msl_auto_slot. Qed.
Print Assumptions c17_msl_auto_slot.

(* ... which never gives one slot to two resources, and does not depend on declaration order *)
Theorem c17_msl_auto_injective : forall m k1 k2 kind,
  In (k1, kind) (bound_entries m) -> In (k2, kind) (bound_entries m) -> k1 <> k2 ->
  (List.length (bound_entries m) < 256)%nat ->
  rank (bound_entries m) k1 kind mod 256 <> rank (bound_entries m) k2 kind mod 256.
Proof. exact msl_auto_injective. Qed.
Print Assumptions c17_msl_auto_injective.

Theorem c17_msl_auto_order_independent : forall es es' k kind,
  Permutation es es' -> rank es k kind = rank es' k kind.
Proof. exact msl_auto_order_independent. Qed.
Print Assumptions c17_msl_auto_order_independent.

(* GLSL lookupBinding *)
Theorem c17_glsl_lookup_semantics : forall o k mp,
  gl_map o = Some mp ->
  (forall n, glsl_explicit_locations o = true -> lookup k mp = Some n -> glsl_binding o (Some k) = Some n) /\
  (lookup k mp = None -> glsl_binding o (Some k) = None) /\
  (glsl_explicit_locations o = false -> glsl_binding o (Some k) = None).
Proof.
  intros o k mp Hm. split; [|split].
  - intros n Hv Hl. eapply glsl_lookup_present; eauto.
  - intros. eapply glsl_lookup_absent; eauto.
  - intros. now apply glsl_lookup_old_version.
Qed.
Print Assumptions c17_glsl_lookup_semantics.

Theorem c17_glsl_map_injective : forall o mp k1 k2 n,
  gl_map o = Some mp ->
  (forall ka kb na nb, lookup ka mp = Some na -> lookup kb mp = Some nb -> na = nb -> ka = kb) ->
  glsl_binding o (Some k1) = Some n -> glsl_binding o (Some k2) = Some n -> k1 = k2.
Proof. exact glsl_map_injective. Qed.
Print Assumptions c17_glsl_map_injective.

(* the statement "layout qualifiers follow the *BindingBase options" does not hold of the model of the code *)
Theorem c17_glsl_binding_base_refuted :
  exists mp ma mi es b, glsl_binding (mk_gopts mp ma mi es 0 0 0 0) b = glsl_binding (mk_gopts mp ma mi es 4 4 4 4) b /\
                        glsl_binding (mk_gopts mp ma mi es 0 0 0 0) b <> None.
Proof. exists (Some [((0, 0), 3)]), 4, 50, false, (Some (0, 0)). split; [reflexivity | discriminate]. Qed.
Print Assumptions c17_glsl_binding_base_refuted.

(* ---- non-vacuity: a module with a call chain main -> f0 -> f1 where only f1 names global 1, and a
   binary for it that the checker accepts and a mutated one (DescriptorSet/Binding swapped) it rejects ---- *)

Definition ex_f1 := mkfunc "f1" [] None [] [EGlobalVariable 1%nat] [] [] [].
Definition ex_f0 := mkfunc "f0" [] None [] [] [] [SIf 0%nat [SCall 1%nat [] None] []] [].
Definition ex_main := mkfunc "main" [] None [] [EGlobalVariable 0%nat] [] [SLoop [SCall 0%nat [] None] [] None] [].
Definition ex_mod :=
  mkmodule [mkty "" (TScalar (mkscalar Float 4))] []
           [mkglobal "a" SpUniform (Some (1, 2)) 0%nat None None 0; mkglobal "b" SpStorage (Some (0, 3)) 0%nat None None 1;
            mkglobal "c" SpPrivate None 0%nat None None 0]
           [] [ex_f0; ex_f1] [mkep "main" StCompute [8; 4; 1] ex_main] [].

Example c17_example_go_traversal :
  go_used_globals ex_mod 10 ex_main = Some [0%nat; 1%nat].
Proof. vm_compute. reflexivity. Qed.

Example c17_example_used : used_globals ex_mod (mkep "main" StCompute [8; 4; 1] ex_main) = [0%nat; 1%nat].
Proof. vm_compute. reflexivity. Qed.

(* "main" = 0x6e69616d, then a nul word *)
Definition ex_bin (set_a bind_a : Z) : list instr :=
  [ {| opcode := 15; operands := [5; 100; 1852399981; 0; 10; 11] |};
    {| opcode := 16; operands := [100; 17; 8; 4; 1] |};
    {| opcode := 71; operands := [10; 34; set_a] |}; {| opcode := 71; operands := [10; 33; bind_a] |};
    {| opcode := 71; operands := [11; 34; 0] |}; {| opcode := 71; operands := [11; 33; 3] |};
    {| opcode := 71; operands := [11; 24] |};
    {| opcode := 59; operands := [50; 10; 2] |}; {| opcode := 59; operands := [51; 11; 12] |};
    {| opcode := 59; operands := [52; 12; 6] |} ].
Definition ex_hdr := {| magic := 119734787; version := 66560; generator := 0; bound := 200; schema := 0 |}.

Example c17_example_accept : check_spv_iface false ex_mod (ex_hdr, ex_bin 1 2) = [].
Proof. vm_compute. reflexivity. Qed.
Example c17_example_reject_swapped : check_spv_iface false ex_mod (ex_hdr, ex_bin 2 1) <> [].
Proof. vm_compute. discriminate. Qed.
Example c17_example_msl_auto :
  let m := ex_mod in
  msl_slot_of (mk_mopts [] false) m "main" (1, 2) 0 = MSlot 1 /\ msl_slot_of (mk_mopts [] false) m "main" (0, 3) 0 = MSlot 0.
Proof. vm_compute. split; reflexivity. Qed.
