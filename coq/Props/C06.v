(* Property C06: compile-time evaluation agrees with run-time evaluation.
   Models: Fold/FoldModel.v (function-scope folder), Fold/ModEvalModel.v (module-scope
   evaluators), Fold/FoldFloat.v (float hook, Flocq); specification: Fold/WgslConst.v
   (WGSL const-expressions; values = the run-time operations of Base/Bits32).
   Every theorem quantifies over ALL operand values (and all tree shapes where stated) and
   over every instantiation F of the float hook.  `_partial` = only part of the property
   holds; `_refuted` = the faithful model violates the property, with a witness that
   checks/c06.py replays on naga. *)
From Coq Require Import ZArith Bool List.
Import ListNotations.
Require Import Naga.Base.Bits32 Naga.Fold.GoArith Naga.Fold.FoldModel Naga.Fold.ModEvalModel Naga.Fold.WgslConst
               Naga.Fold.FoldProofs Naga.Fold.FoldBits Naga.Fold.FoldTree Naga.Fold.FoldAbstract Naga.Fold.FoldErrors
               Naga.Fold.FoldRefuted Naga.Fold.ModEvalProofs Naga.Fold.FoldFloat Naga.Fold.FoldFloatProofs.
Open Scope Z_scope.

(* ================= 1. whole expression trees, function scope ================= *)

(* For every tree over concrete i32/u32/bool literals (all binary/unary operators incl. && ||,
   i32()/u32()/bool(), abs min max clamp sign, the bit-counting builtins, select): if WGSL
   defines the const value w (no shader-creation error) then w is a well-formed 32-bit value
   and whenever naga's folder substitutes a literal it is exactly w. *)
Theorem c06_fold_tree_sound :
  forall (F : float_ops) e, concrete_tree e = true -> forall w, wgsl_eval e = Ok w ->
  wf_val w /\ forall v, fold_expr F e = Some v -> v = lit_of_wval w.
Proof. exact fold_tree_sound. Qed.
Print Assumptions c06_fold_tree_sound.

(* ... and that const value is the value the same expression yields at run time *)
Theorem c06_const_value_is_runtime_value :
  forall (F : float_ops) e w, concrete_tree e = true -> wgsl_eval e = Ok w -> rt_eval e = Ok w.
Proof. exact wgsl_eval_is_runtime. Qed.
Print Assumptions c06_const_value_is_runtime_value.

(* one operator application, any operand kinds (the lemma under the tree theorem) *)
Theorem c06_fold_binary_sound :
  forall (F : float_ops) op x y w, wf_val x -> wf_val y -> wgsl_binary op x y = Ok w ->
  wf_val w /\ forall v, try_fold_binary_op F op (lit_of_wval x) (lit_of_wval y) = Some v -> v = lit_of_wval w.
Proof. exact binary_sound. Qed.
Print Assumptions c06_fold_binary_sound.

(* ================= 2. per operator and type: fold = Bits32 run-time operation ================= *)
(* (the strong form: the folder DOES fold and the literal IS the run-time result; it implies
   fold_sound_<op>_<ty> : fold = Some v -> v = <Bits32 op>) *)
Theorem c06_fold_add_i32 : forall (F : float_ops) a b, try_fold_binary_op F BAdd (LI32 a) (LI32 b) = Some (LI32 (add32 a b)).
Proof. exact fold_add_i32. Qed.
Theorem c06_fold_sub_i32 : forall (F : float_ops) a b, try_fold_binary_op F BSub (LI32 a) (LI32 b) = Some (LI32 (sub32 a b)).
Proof. exact fold_sub_i32. Qed.
Theorem c06_fold_mul_i32 : forall (F : float_ops) a b, try_fold_binary_op F BMul (LI32 a) (LI32 b) = Some (LI32 (mul32 a b)).
Proof. exact fold_mul_i32. Qed.
Theorem c06_fold_div_i32 : forall (F : float_ops) a b, in32 a -> in32 b ->
  try_fold_binary_op F BDiv (LI32 a) (LI32 b) = if b =? 0 then None else Some (LI32 (div_i32 a b)).
Proof. exact fold_div_i32. Qed.
Theorem c06_fold_mod_i32 : forall (F : float_ops) a b, in32 a -> in32 b ->
  try_fold_binary_op F BMod (LI32 a) (LI32 b) = if b =? 0 then None else Some (LI32 (rem_i32 a b)).
Proof. exact fold_mod_i32. Qed.
Theorem c06_fold_and_i32 : forall (F : float_ops) a b, in32 a -> in32 b -> try_fold_binary_op F BAnd (LI32 a) (LI32 b) = Some (LI32 (and32 a b)).
Proof. exact fold_and_i32. Qed.
Theorem c06_fold_or_i32 : forall (F : float_ops) a b, in32 a -> in32 b -> try_fold_binary_op F BOr (LI32 a) (LI32 b) = Some (LI32 (or32 a b)).
Proof. exact fold_or_i32. Qed.
Theorem c06_fold_xor_i32 : forall (F : float_ops) a b, in32 a -> in32 b -> try_fold_binary_op F BXor (LI32 a) (LI32 b) = Some (LI32 (xor32 a b)).
Proof. exact fold_xor_i32. Qed.
Theorem c06_fold_shl_i32_partial : forall (F : float_ops) a n, in32 n -> n < 32 -> try_fold_binary_op F BShl (LI32 a) (LU32 n) = Some (LI32 (shl32 a n)).
Proof. exact fold_shl_i32. Qed.
Theorem c06_fold_shr_i32_partial : forall (F : float_ops) a n, in32 a -> in32 n -> n < 32 -> try_fold_binary_op F BShr (LI32 a) (LU32 n) = Some (LI32 (shr_i32 a n)).
Proof. exact fold_shr_i32. Qed.
Theorem c06_fold_lt_i32 : forall (F : float_ops) a b, try_fold_binary_op F BLt (LI32 a) (LI32 b) = Some (LBool (lt_i32 a b)).
Proof. exact fold_lt_i32. Qed.
Theorem c06_fold_le_i32 : forall (F : float_ops) a b, try_fold_binary_op F BLe (LI32 a) (LI32 b) = Some (LBool (le_i32 a b)).
Proof. exact fold_le_i32. Qed.
Theorem c06_fold_eq_i32 : forall (F : float_ops) a b, in32 a -> in32 b -> try_fold_binary_op F BEq (LI32 a) (LI32 b) = Some (LBool (a =? b)).
Proof. exact fold_eq_i32. Qed.

Theorem c06_fold_add_u32 : forall (F : float_ops) a b, try_fold_binary_op F BAdd (LU32 a) (LU32 b) = Some (LU32 (add32 a b)).
Proof. exact fold_add_u32. Qed.
Theorem c06_fold_sub_u32 : forall (F : float_ops) a b, try_fold_binary_op F BSub (LU32 a) (LU32 b) = Some (LU32 (sub32 a b)).
Proof. exact fold_sub_u32. Qed.
Theorem c06_fold_mul_u32 : forall (F : float_ops) a b, try_fold_binary_op F BMul (LU32 a) (LU32 b) = Some (LU32 (mul32 a b)).
Proof. exact fold_mul_u32. Qed.
Theorem c06_fold_div_u32 : forall (F : float_ops) a b, in32 a -> in32 b ->
  try_fold_binary_op F BDiv (LU32 a) (LU32 b) = if b =? 0 then None else Some (LU32 (div_u32 a b)).
Proof. exact fold_div_u32. Qed.
Theorem c06_fold_mod_u32 : forall (F : float_ops) a b, in32 a -> in32 b ->
  try_fold_binary_op F BMod (LU32 a) (LU32 b) = if b =? 0 then None else Some (LU32 (rem_u32 a b)).
Proof. exact fold_mod_u32. Qed.
Theorem c06_fold_and_u32 : forall (F : float_ops) a b, in32 a -> in32 b -> try_fold_binary_op F BAnd (LU32 a) (LU32 b) = Some (LU32 (and32 a b)).
Proof. exact fold_and_u32. Qed.
Theorem c06_fold_or_u32 : forall (F : float_ops) a b, in32 a -> in32 b -> try_fold_binary_op F BOr (LU32 a) (LU32 b) = Some (LU32 (or32 a b)).
Proof. exact fold_or_u32. Qed.
Theorem c06_fold_xor_u32 : forall (F : float_ops) a b, in32 a -> in32 b -> try_fold_binary_op F BXor (LU32 a) (LU32 b) = Some (LU32 (xor32 a b)).
Proof. exact fold_xor_u32. Qed.
Theorem c06_fold_shl_u32_partial : forall (F : float_ops) a n, in32 n -> n < 32 -> try_fold_binary_op F BShl (LU32 a) (LU32 n) = Some (LU32 (shl32 a n)).
Proof. exact fold_shl_u32. Qed.
Theorem c06_fold_shr_u32_partial : forall (F : float_ops) a n, in32 a -> in32 n -> n < 32 -> try_fold_binary_op F BShr (LU32 a) (LU32 n) = Some (LU32 (shr_u32 a n)).
Proof. exact fold_shr_u32. Qed.
Theorem c06_fold_lt_u32 : forall (F : float_ops) a b, try_fold_binary_op F BLt (LU32 a) (LU32 b) = Some (LBool (lt_u32 a b)).
Proof. exact fold_lt_u32. Qed.

Theorem c06_fold_neg_i32 : forall (F : float_ops) a, try_fold_unary_op F UNeg (LI32 a) = Some (LI32 (neg32 a)).
Proof. exact fold_neg_i32. Qed.
Theorem c06_fold_bnot_i32 : forall (F : float_ops) a, in32 a -> try_fold_unary_op F UBNot (LI32 a) = Some (LI32 (not32 a)).
Proof. exact fold_bnot_i32. Qed.
Theorem c06_fold_bnot_u32 : forall (F : float_ops) a, in32 a -> try_fold_unary_op F UBNot (LU32 a) = Some (LU32 (not32 a)).
Proof. exact fold_bnot_u32. Qed.

Theorem c06_fold_abs_i32 : forall (F : float_ops) a, in32 a -> try_fold_scalar_math F MAbs [LI32 a] = Some (LI32 (abs_i32 a)).
Proof. exact fold_abs_i32. Qed.
Theorem c06_fold_sign_i32 : forall (F : float_ops) a, in32 a -> try_fold_scalar_math F MSign [LI32 a] = Some (LI32 (sign_i32 a)).
Proof. exact fold_sign_i32. Qed.
Theorem c06_fold_min_i32 : forall (F : float_ops) a b, in32 a -> in32 b -> try_fold_scalar_math F MMin [LI32 a; LI32 b] = Some (LI32 (min_i32 a b)).
Proof. exact fold_min_i32. Qed.
Theorem c06_fold_max_i32 : forall (F : float_ops) a b, in32 a -> in32 b -> try_fold_scalar_math F MMax [LI32 a; LI32 b] = Some (LI32 (max_i32 a b)).
Proof. exact fold_max_i32. Qed.
Theorem c06_fold_min_u32 : forall (F : float_ops) a b, in32 a -> in32 b -> try_fold_scalar_math F MMin [LU32 a; LU32 b] = Some (LU32 (min_u32 a b)).
Proof. exact fold_min_u32. Qed.
Theorem c06_fold_max_u32 : forall (F : float_ops) a b, in32 a -> in32 b -> try_fold_scalar_math F MMax [LU32 a; LU32 b] = Some (LU32 (max_u32 a b)).
Proof. exact fold_max_u32. Qed.
Theorem c06_fold_clamp_i32_partial : forall (F : float_ops) e lo hi, in32 e -> in32 lo -> in32 hi -> lt_i32 hi lo = false ->
  try_fold_scalar_math F MClamp [LI32 e; LI32 lo; LI32 hi] = Some (LI32 (clamp_i32 e lo hi)).
Proof. exact fold_clamp_i32. Qed.
Theorem c06_fold_clamp_u32_partial : forall (F : float_ops) e lo hi, in32 e -> in32 lo -> in32 hi -> lt_u32 hi lo = false ->
  try_fold_scalar_math F MClamp [LU32 e; LU32 lo; LU32 hi] = Some (LU32 (clamp_u32 e lo hi)).
Proof. exact fold_clamp_u32. Qed.
Theorem c06_fold_count_one_bits : forall (F : float_ops) a, try_fold_scalar_math F MCountOneBits [LU32 a] = Some (LU32 (count_one_bits a)).
Proof. exact fold_popcount_u32. Qed.
Theorem c06_fold_count_leading_zeros : forall (F : float_ops) a, try_fold_scalar_math F MCountLeadingZeros [LU32 a] = Some (LU32 (count_leading_zeros a)).
Proof. exact fold_clz_u32. Qed.
Theorem c06_fold_count_trailing_zeros : forall (F : float_ops) a, try_fold_scalar_math F MCountTrailingZeros [LU32 a] = Some (LU32 (count_trailing_zeros a)).
Proof. exact fold_ctz_u32. Qed.
Theorem c06_fold_reverse_bits : forall (F : float_ops) a, try_fold_scalar_math F MReverseBits [LU32 a] = Some (LU32 (reverse_bits a)).
Proof. exact fold_reverse_u32. Qed.
Theorem c06_fold_first_leading_bit_i32 : forall (F : float_ops) a, in32 a -> try_fold_scalar_math F MFirstLeadingBit [LI32 a] = Some (LI32 (first_leading_bit_i32 a)).
Proof. exact fold_flb_i32. Qed.
Theorem c06_fold_first_leading_bit_u32 : forall (F : float_ops) a, in32 a -> try_fold_scalar_math F MFirstLeadingBit [LU32 a] = Some (LU32 (first_leading_bit_u32 a)).
Proof. exact fold_flb_u32. Qed.
Theorem c06_fold_first_trailing_bit : forall (F : float_ops) a, try_fold_scalar_math F MFirstTrailingBit [LU32 a] = Some (LU32 (first_trailing_bit a)).
Proof. exact fold_ftb_u32. Qed.

(* conversions between i32, u32 and bool *)
Theorem c06_fold_u32_of_i32 : forall (F : float_ops) a, in32 a -> try_fold_as F (LI32 a) TU32 = Some (LU32 (u32_of_i32 a)).
Proof. exact fold_as_u32_of_i32. Qed.
Theorem c06_fold_i32_of_u32 : forall (F : float_ops) a, in32 a -> try_fold_as F (LU32 a) TI32 = Some (LI32 (i32_of_u32 a)).
Proof. exact fold_as_i32_of_u32. Qed.
Theorem c06_fold_bool_of_i32 : forall (F : float_ops) a, in32 a -> try_fold_as F (LI32 a) TBool = Some (LBool (bool_of_32 a)).
Proof. exact fold_as_bool_of_i32. Qed.

(* ================= 3. AbstractInt ================= *)
(* + - * on abstract operands: when WGSL's AbstractInt result exists (no 64-bit overflow) the fold is it *)
Theorem c06_fold_abstract_arith_partial :
  forall (F : float_ops) op a b w, (op = BAdd \/ op = BSub \/ op = BMul) -> wgsl_binary_ai op a b = Ok w ->
  try_fold_binary_op F op (LAI a) (LAI b) = Some (lit_of_wval w).
Proof. exact fold_ai_arith. Qed.
Theorem c06_fold_abstract_div_partial :
  forall (F : float_ops) a b w, in_s64 a -> in_s64 b -> wgsl_binary_ai BDiv a b = Ok w -> try_fold_binary_op F BDiv (LAI a) (LAI b) = Some (lit_of_wval w).
Proof. exact fold_ai_div. Qed.
(* abstract -> concrete conversion is right on representable values (and only there: c06_concretize_refuted) *)
Theorem c06_concretize_i32_partial :
  forall (F : float_ops) v, in_i32_range v = true -> ai_to TI32 v = Ok (VI32 (wrap v)) /\ concretize_abstract_int F v TI32 = LI32 (wrap v).
Proof. exact concretize_representable_i32. Qed.
Theorem c06_concretize_u32_partial :
  forall (F : float_ops) v, in_u32_range v = true -> ai_to TU32 v = Ok (VU32 v) /\ concretize_abstract_int F v TU32 = LU32 v.
Proof. exact concretize_representable_u32. Qed.
Theorem c06_concretize_pair_i32_partial :
  forall (F : float_ops) v b, in_i32_range v = true -> concretize_literal_to F (LAI v) (LI32 b) = LI32 (wrap v).
Proof. exact concretize_literal_to_i32. Qed.

(* ================= 4. errors ================= *)
(* integer division / remainder by zero is never replaced by a value: all dividends, both signednesses *)
Theorem c06_div_by_zero_not_folded :
  forall (F : float_ops) a, in32 a ->
  try_fold_binary_op F BDiv (LI32 a) (LI32 0) = None /\ try_fold_binary_op F BMod (LI32 a) (LI32 0) = None /\
  try_fold_binary_op F BDiv (LU32 a) (LU32 0) = None /\ try_fold_binary_op F BMod (LU32 a) (LU32 0) = None.
Proof. exact div_zero_not_folded. Qed.
Theorem c06_wgsl_div_zero_error_not_folded :
  forall (F : float_ops) op a b, in32 a -> in32 b -> (op = BDiv \/ op = BMod) ->
  (wgsl_binary op (VI32 a) (VI32 b) = Err RDivZero -> try_fold_binary_op F op (LI32 a) (LI32 b) = None) /\
  (wgsl_binary op (VU32 a) (VU32 b) = Err RDivZero -> try_fold_binary_op F op (LU32 a) (LU32 b) = None).
Proof. exact wgsl_div_zero_not_folded. Qed.
Theorem c06_module_div_by_zero_is_error : forall a, mod_binop BDiv a 0 = None /\ mod_binop BMod a 0 = None.
Proof. exact mod_div_zero_error. Qed.

(* every other WGSL const-expression error is NOT reported: refutations with witnesses *)
Theorem c06_shift_amount_refuted :                   (* 1u << 32u  folds to 0; run time: 1; WGSL: error *)
  forall (F : float_ops), exists a n v, in32 a /\ in32 n /\ try_fold_binary_op F BShl (LU32 a) (LU32 n) = Some v /\
                          v <> LU32 (shl32 a n) /\ wgsl_binary BShl (VU32 a) (VU32 n) = Err RShiftTooLarge.
Proof. exact shl_u32_amount_refuted. Qed.
Theorem c06_shift_right_amount_refuted :             (* -8i >> 33u folds to -1; run time: -4 *)
  forall (F : float_ops), exists a n v, in32 a /\ in32 n /\ try_fold_binary_op F BShr (LI32 a) (LU32 n) = Some v /\
                          v <> LI32 (shr_i32 a n) /\ wgsl_binary BShr (VI32 a) (VU32 n) = Err RShiftTooLarge.
Proof. exact shr_i32_amount_refuted. Qed.
Theorem c06_shift_left_overflow_refuted :            (* 1i << 31u *)
  forall (F : float_ops), exists a n v, try_fold_binary_op F BShl (LI32 a) (LU32 n) = Some v /\ wgsl_binary BShl (VI32 a) (VU32 n) = Err RShlOverflow.
Proof. exact shl_i32_overflow_refuted. Qed.
Theorem c06_division_overflow_refuted :              (* (-2147483648) / (-1) *)
  forall (F : float_ops), exists v, try_fold_binary_op F BDiv (LI32 INT_MIN_BITS) (LI32 ALL_ONES) = Some v /\
                      wgsl_binary BDiv (VI32 INT_MIN_BITS) (VI32 ALL_ONES) = Err RDivOverflow.
Proof. exact div_overflow_refuted. Qed.
Theorem c06_clamp_refuted :                          (* clamp(0i, 5i, 3i) folds to 5; run time: 3 *)
  forall (F : float_ops), exists e lo hi v, try_fold_scalar_math F MClamp [LI32 e; LI32 lo; LI32 hi] = Some v /\
                              v <> LI32 (clamp_i32 e lo hi) /\ wgsl_math MClamp [VI32 e; VI32 lo; VI32 hi] = Err RClampLowHigh.
Proof. exact clamp_refuted. Qed.
Theorem c06_abstract_overflow_refuted :              (* 9223372036854775807 + 1 *)
  forall (F : float_ops), exists a b v, try_fold_ast_binary F BAdd (LAI a) (LAI b) = Some v /\ wgsl_binary BAdd (VAI a) (VAI b) = Err RAbstractOverflow.
Proof. exact abstract_overflow_refuted. Qed.
Theorem c06_concretize_refuted :                     (* let x : i32 = 2147483648;  let y : u32 = -1; *)
  forall (F : float_ops), concretize_abstract_int F 2147483648 TI32 = LI32 INT_MIN_BITS /\ ai_to TI32 2147483648 = Err RNotRepresentable /\
            concretize_abstract_int F (-1) TU32 = LU32 ALL_ONES /\ ai_to TU32 (-1) = Err RNotRepresentable.
Proof. exact concretize_refuted. Qed.
Theorem c06_abstract_builtin_refuted :               (* min(0, 2147483648) = -2147483648, max(0, -2147483649) = 2147483647, sign(2147483648) = -1 *)
  forall (F : float_ops),
  fold_expr F (CMath2 MMin (CLit (LAI 0)) (CLit (LAI 2147483648))) = Some (LI32 INT_MIN_BITS) /\
  wgsl_eval (CMath2 MMin (CLit (LAI 0)) (CLit (LAI 2147483648))) = Ok (VAI 0) /\
  fold_expr F (CMath2 MMax (CLit (LAI 0)) (CUn UNeg (CLit (LAI 2147483649)))) = Some (LI32 2147483647) /\
  wgsl_eval (CMath2 MMax (CLit (LAI 0)) (CUn UNeg (CLit (LAI 2147483649)))) = Ok (VAI 0) /\
  fold_expr F (CMath1 MSign (CLit (LAI 2147483648))) = Some (LI32 ALL_ONES) /\
  wgsl_eval (CMath1 MSign (CLit (LAI 2147483648))) = Ok (VAI 1).
Proof. exact abstract_builtin_refuted. Qed.
Theorem c06_abstract_shift_type_refuted :            (* let x = 1 << 2u;  is a u32 *)
  forall (F : float_ops), fold_let F (CBin BShl (CLit (LAI 1)) (CLit (LU32 2))) = Some (LU32 4) /\
            wgsl_as_default (wgsl_eval (CBin BShl (CLit (LAI 1)) (CLit (LU32 2)))) = Ok (VI32 4).
Proof. exact abstract_shift_type_refuted. Qed.

(* ================= 5. module scope (const declarations, switch selectors, array sizes, const_assert, workgroup_size) ===== *)
(* evalConstantIntExpr never wraps intermediate results: it is right exactly as long as none leaves its 32-bit range *)
Theorem c06_module_eval_partial :
  forall (F : float_ops) e x k v, mod_tree e = true -> wgsl_eval e = Ok x -> eval_constant_int e = Some (k, v) -> eval_exact e = true -> rep x k v.
Proof. exact eval_constant_int_sound. Qed.
Print Assumptions c06_module_eval_partial.
Theorem c06_module_const_partial :
  forall (F : float_ops) e m w, mod_tree e = true -> eval_exact e = true -> wgsl_eval e = Ok w ->
  mod_const_binary None e = Some m -> m.(mc_lit) = lit_of_wval w.
Proof. exact mod_const_binary_sound. Qed.
Theorem c06_switch_selector_partial :
  forall (F : float_ops) e l w, mod_tree e = true -> eval_exact e = true -> wgsl_eval e = Ok w -> mod_switch_value e = Some l -> l = lit_of_wval w.
Proof. exact mod_switch_value_sound. Qed.
Theorem c06_array_size_partial :
  forall (F : float_ops) e w n, mod_tree e = true -> eval_exact e = true -> wgsl_eval e = Ok w -> mod_array_size e = ASize n -> n = payload w.
Proof. exact mod_array_size_sound. Qed.

Theorem c06_module_const_refuted :                   (* const c = (4294967295u + 1u) / 2u;  is 2147483648; WGSL and run time: 0 *)
  exists m, mod_const_binary None e_u32_wrap = Some m /\ m.(mc_lit) = LU32 2147483648 /\
            wgsl_eval e_u32_wrap = Ok (VU32 0) /\ rt_eval e_u32_wrap = Ok (VU32 0) /\ eval_exact e_u32_wrap = false.
Proof. exact mod_const_nowrap_refuted. Qed.
Theorem c06_module_const_i32_refuted :               (* const c = (2147483647i + 1i) / 2i;  is 1073741824; run time: -1073741824 *)
  exists m, mod_const_binary None e_i32_wrap = Some m /\ m.(mc_lit) = LI32 1073741824 /\
            wgsl_eval e_i32_wrap = Ok (VI32 (i32_of (-1073741824))) /\ rt_eval e_i32_wrap = Ok (VI32 (i32_of (-1073741824))).
Proof. exact mod_const_nowrap_i32_refuted. Qed.
Theorem c06_module_bitnot_refuted :                  (* const c = (~0u) >> 1u;  is 4294967295; WGSL: 2147483647 *)
  exists m, mod_const_binary None e_not_shr = Some m /\ m.(mc_lit) = LU32 ALL_ONES /\ wgsl_eval e_not_shr = Ok (VU32 2147483647).
Proof. exact mod_const_bitnot_refuted. Qed.
Theorem c06_module_mixed_type_refuted :              (* const c = 1u + 2;  is an i32 *)
  exists m, mod_const_binary None (CBin BAdd (CLit (LU32 1)) (CLit (LAI 2))) = Some m /\ m.(mc_lit) = LI32 3 /\
            wgsl_eval (CBin BAdd (CLit (LU32 1)) (CLit (LAI 2))) = Ok (VU32 3).
Proof. exact mod_const_mixed_type_refuted. Qed.
Theorem c06_switch_selector_refuted :
  mod_switch_value e_u32_wrap = Some (LU32 2147483648) /\ wgsl_eval e_u32_wrap = Ok (VU32 0).
Proof. exact mod_switch_refuted. Qed.
Theorem c06_array_size_refuted :
  mod_array_size (CBin BShl (CLit (LU32 1)) (CLit (LU32 32))) = ASize 0 /\
  mod_array_size (CBin BSub (CLit (LU32 0)) (CLit (LU32 1))) = AError /\
  mod_array_size (CMath2 MMin (CLit (LAI 2)) (CLit (LAI 3))) = ARuntime /\
  mod_array_size (CBin BDiv (CLit (LAI 4)) (CLit (LAI 0))) = ARuntime.
Proof. exact mod_array_size_refuted. Qed.
Theorem c06_const_assert_refuted :                   (* const_assert 4294967295u + 1u == 0u;  "fails" *)
  let e := CBin BEq (CBin BAdd (CLit (LU32 4294967295)) (CLit (LU32 1))) (CLit (LU32 0)) in
  try_eval_constant_bool e = Some false /\ wgsl_eval e = Ok (VBool true).
Proof. exact const_assert_refuted. Qed.
Theorem c06_workgroup_size_refuted :                 (* @workgroup_size(8u), (1 << 3), (2u * 4u) all give 1 *)
  mod_workgroup_dim (CLit (LU32 8)) = 1 /\ wgsl_eval (CLit (LU32 8)) = Ok (VU32 8) /\
  mod_workgroup_dim (CBin BShl (CLit (LAI 1)) (CLit (LAI 3))) = 1 /\ wgsl_eval (CBin BShl (CLit (LAI 1)) (CLit (LAI 3))) = Ok (VAI 8) /\
  mod_workgroup_dim (CBin BMul (CLit (LU32 2)) (CLit (LU32 4))) = 1 /\ wgsl_eval (CBin BMul (CLit (LU32 2)) (CLit (LU32 4))) = Ok (VU32 8).
Proof. exact workgroup_size_refuted. Qed.
Theorem c06_vector_const_refuted :                   (* vec % returns the left operand; signed / is unsigned 64-bit; / by zero gives 0; < is false *)
  eval_scalar_arith_bits BMod 7 4 = 7 /\ rem_i32 7 4 = 3 /\
  eval_scalar_arith_bits BDiv (u64 (-6)) 2 = 9223372036854775805 /\ div_i32 (i32_of (-6)) 2 = i32_of (-3) /\
  eval_scalar_arith_bits BDiv 7 0 = 0 /\ eval_scalar_cmp_bits BLt 1 2 = false.
Proof. exact vector_arith_refuted. Qed.

(* ================= 6. floats (Flocq; these theorems depend on the axioms of Coq's Reals) ================= *)
(* f32 + - * folded the way naga does it -- operands widened to Go float64, the operation in float64, the
   result narrowed with float32(...) -- is exactly the WGSL run-time f32 operation (one correctly rounded
   operation), for ALL finite operand bit patterns: same value, same sign of zero, same overflow to infinity.
   (binary64 has 53 >= 2*24+1 bits: Flocq's round_round_plus_FLT; the product of two binary32 numbers is exact in binary64) *)
Theorem c06_fold_f32_arith_is_runtime :
  forall op a b, (op = BAdd \/ op = BSub \/ op = BMul) -> finite_bits32 a -> finite_bits32 b ->
  fbin op (LF32 a) (LF32 b) = f32_rt op a b /\ fbin_ast op (LF32 a) (LF32 b) = f32_rt op a b.
Proof. exact fold_f32_arith_is_runtime. Qed.
Print Assumptions c06_fold_f32_arith_is_runtime.
Theorem c06_f32_add_via_f64 :
  forall x y : f32, BinarySingleNaN.is_finite x = true -> BinarySingleNaN.is_finite y = true ->
  f32_of_f64 (BinarySingleNaN.Bplus BinarySingleNaN.mode_NE (f64_of_f32 x) (f64_of_f32 y)) = BinarySingleNaN.Bplus BinarySingleNaN.mode_NE x y.
Proof. exact f32_add_via_f64. Qed.
(* roundToF16 does not produce f16 values in the subnormal range, and rounds ties up *)
Theorem c06_round_to_f16_subnormal_refuted :
  round_to_f16_bits 897589248 = 897589248 /\ ieee_round_to_f16_bits 897589248 = 897581056.
Proof. exact round_to_f16_subnormal_refuted. Qed.
Theorem c06_round_to_f16_tie_refuted :
  round_to_f16_bits 1065357312 = 1065361408 /\ ieee_round_to_f16_bits 1065357312 = 1065353216.
Proof. exact round_to_f16_tie_refuted. Qed.

(* `const c = 7i / (1i / 2i);` is the f32 14.0: the integer evaluator's failure triggers a floating-point re-evaluation *)
Theorem c06_module_float_fallback_refuted :
  let e := CBin BDiv (CLit (LI32 7)) (CBin BDiv (CLit (LI32 1)) (CLit (LI32 2))) in
  mod_const_binary None e = None /\ mod_const_float_fallback e = Some 1096810496 /\ wgsl_eval e = Err RDivZero.
Proof. exact mod_const_float_fallback_refuted. Qed.

(* ================= non-vacuity ================= *)
(* a tree exercising every node kind, with a defined const value, that the folder folds *)
Example c06_example :
  let e := CSelect (CLit (LI32 1))
                   (CBin BAdd (CMath3 MClamp (CUn UNeg (CLit (LI32 7))) (CUn UNeg (CLit (LI32 3))) (CLit (LI32 9)))
                              (CAs TI32 (CBin BShr (CUn UBNot (CLit (LU32 0))) (CLit (LU32 28)))))
                   (CBin BLAnd (CBin BLt (CLit (LU32 1)) (CLit (LU32 2))) (CLit (LBool true))) in
  concrete_tree e = true /\ wgsl_eval e = Ok (VI32 12) /\ rt_eval e = Ok (VI32 12).
Proof. vm_compute. repeat split; reflexivity. Qed.
Example c06_example_fold :
  forall (F : float_ops), fold_expr F (CBin BAdd (CMath3 MClamp (CUn UNeg (CLit (LI32 7))) (CUn UNeg (CLit (LI32 3))) (CLit (LI32 9)))
                                   (CAs TI32 (CBin BShr (CUn UBNot (CLit (LU32 0))) (CLit (LU32 28))))) = Some (LI32 12).
Proof. intros F. vm_compute. reflexivity. Qed.
Example c06_example_float :    (* 0.1f + 0.2f *)
  finite_bits32 1036831949 /\ finite_bits32 1045220557 /\ fbin BAdd (LF32 1036831949) (LF32 1045220557) = Some (LF32 1050253722).
Proof. vm_compute. repeat split; reflexivity. Qed.
Example c06_example_module :
  let e := CBin BMul (CBin BSub (CLit (LU32 7)) (CLit (LU32 2))) (CLit (LU32 3)) in
  mod_tree e = true /\ eval_exact e = true /\ wgsl_eval e = Ok (VU32 15) /\ eval_constant_int e = Some (KUint, 15).
Proof. vm_compute. repeat split; reflexivity. Qed.
