(* C13 — IR-to-IR passes preserve program behaviour.

   Reference semantics: IR/Sem.v [run_entry fuel m ep globals args].
   Models of the passes of ir/compact.go: Passes/Compact.v (tied to the Go code on every
   run of the check: model applied to the module before the pass = module after the pass).

   Proved here, for ALL modules satisfying the executable hypothesis [module_wf]
   (operands precede their users, statement operands in range) and ALL inputs:
     - the general renumbering lemma (expression arenas of all functions + function arena),
     - CompactExpressions: behaviour preserved, result well-formed, idempotent,
     - CompactUnused: behaviour preserved when only functions are removed (_partial:
       assumes that no global is removed - evaluated by the check on every module;
       removing a global renumbers memory cells).
   Direction: refinement (a run of the source that terminates with a result is reproduced
   with the same result and the same fuel); a dead expression that fails in the source
   (e.g. an out-of-bounds Load under an Emit) is not evaluated after the pass.

     - CompactUnused, FULL statement (functions AND globals removed): behaviour preserved up
       to the order-preserving renaming of memory cells (Passes/CellRename*.v: values carry
       cells inside pointers; every value operator of the reference semantics commutes with
       the renaming); for inputs and results without pointers the results are equal;
     - CompactUnused and CompactConstants idempotent (no hypotheses).

   Not proved (model tie + differential execution only, see checks/c13.py):
   behaviour preservation of CompactConstants, CompactTypes, ReorderTypes, DeduplicateEmits,
   InlineUserFunctions (modelled in Passes/Inline.v, tied structurally), sroa/mem2reg/dce. *)
From Coq Require Import List Arith Bool String ZArith.
Import ListNotations.
Require Import Naga.IR.Syntax Naga.IR.Values Naga.IR.Sem.
Require Import Naga.Passes.Remap Naga.Passes.Compact Naga.Passes.RenameSound.
Require Import Naga.Passes.CompactExprProofs Naga.Passes.CompactExprIdem Naga.Passes.CompactUnusedProofs.
Require Import Naga.Passes.CellRenameOps Naga.Passes.CellRenameSound Naga.Passes.CompactUnusedIdem
               Naga.Passes.CompactConstIdem Naga.Passes.CompactUnusedFull.
Require Import Naga.Passes.Inline Naga.Passes.InlineProofs Naga.Passes.InlineStale.

(* The general lemma.  m' is m with every function renumbered through some live set
   (fspec: the live set is closed under operands and contains every statement operand;
   the new arena is the live part of the old one with handles replaced by their rank;
   Emit ranges are adjusted and empty ones dropped) and function handle i moved to rf i. *)
Theorem c13_rename_sound :
  forall (m m' : module) (rf : nat -> nat) (fused : nat -> Prop),
    m_types m' = m_types m -> m_globals m' = m_globals m ->
    m_constants m' = m_constants m -> m_global_exprs m' = m_global_exprs m ->
    (forall i f, fused i -> nth_error (m_functions m) i = Some f ->
                 exists f', nth_error (m_functions m') (rf i) = Some f' /\ frel rf fused f f') ->
    (forall i e, nth_error (m_entry_points m) i = Some e ->
                 exists e', nth_error (m_entry_points m') i = Some e' /\ frel rf fused (ep_func e) (ep_func e')) ->
    forall fuel ep gs args res,
      run_entry fuel m ep gs args = Done res -> run_entry fuel m' ep gs args = Done res.
Proof. exact sim_run_entry. Qed.
Print Assumptions c13_rename_sound.

Theorem c13_compact_expressions_sound :
  forall m, module_wf m ->
  forall fuel ep gs args res,
    run_entry fuel m ep gs args = Done res ->
    run_entry fuel (compact_expressions m) ep gs args = Done res.
Proof. exact compact_expressions_sound. Qed.
Print Assumptions c13_compact_expressions_sound.

Theorem c13_compact_expressions_idempotent :
  forall m, module_wf m -> compact_expressions (compact_expressions m) = compact_expressions m.
Proof. exact compact_expressions_idempotent. Qed.
Print Assumptions c13_compact_expressions_idempotent.

Theorem c13_compact_expressions_wf :
  forall m, module_wf m -> module_known m = true -> module_wf (compact_expressions m).
Proof. exact compact_expressions_wf. Qed.
Print Assumptions c13_compact_expressions_wf.

Theorem c13_module_wfb_sound : forall m, module_wfb m = true -> module_wf m.
Proof. exact module_wfb_sound. Qed.
Print Assumptions c13_module_wfb_sound.

(* [reach] (the work-list computation of the live functions) is call-closed *)
Theorem c13_used_functions_closed :
  forall m, calls_in_rangeb m = true -> calls_closedb m (used_functions m) = true.
Proof. exact used_functions_closed. Qed.
Print Assumptions c13_used_functions_closed.

(* missing for the full statement: removal of globals (renumbering of memory cells needs a
   simulation up to a cell renaming instead of equality of values) *)
Theorem c13_compact_unused_sound_partial :
  forall m, module_wf m -> calls_in_rangeb m = true ->
  all_true (used_globals m (used_functions m)) = true ->
  forall fuel ep gs args res,
    run_entry fuel m ep gs args = Done res ->
    run_entry fuel (compact_unused m) ep gs args = Done res.
Proof. exact compact_unused_functions_sound. Qed.
Print Assumptions c13_compact_unused_sound_partial.

(* ---- non-vacuity: a module with a dead expression and an unreachable function ---- *)
Open Scope string_scope.
Definition ex_u32 : ty := mkty "" (TScalar (mkscalar Uint 4)).
Definition ex_main : func :=
  mkfunc "main" [] None []
         [EGlobalVariable 0; ELiteral (LU32 7); ELiteral (LU32 5); EBinary BAdd 2 2; ELoad 0; EBinary BMul 4 3]
         []
         [SCall 1 [] None; SEmit 1 2; SEmit 3 6; SStore 0 5; SReturn None]
         [].
Definition ex_dead : func := mkfunc "dead" [] None [] [ELiteral (LU32 1)] [] [SReturn None] [].
Definition ex_live : func :=
  mkfunc "live" [] None [] [EGlobalVariable 0; ELiteral (LU32 3)] [] [SStore 0 1; SReturn None] [].
Definition ex_module : module :=
  mkmodule [ex_u32] [] [mkglobal "g" SpPrivate None 0 None None 0] []
           [ex_dead; ex_live] [mkep "main" StCompute [1; 1; 1]%Z ex_main] [].

Example ex_wf : module_wfb ex_module = true /\ module_known ex_module = true.
Proof. vm_compute. split; reflexivity. Qed.

Example ex_runs : run_entry 20 ex_module 0 [None] [] = Done ([VU32 30], None).
Proof. vm_compute. reflexivity. Qed.

Example ex_compact_expressions_changes :
  map (fun e => List.length (f_exprs (ep_func e))) (m_entry_points (compact_expressions ex_module)) = [5%nat]
  /\ run_entry 20 (compact_expressions ex_module) 0 [None] [] = Done ([VU32 30], None).
Proof. vm_compute. split; reflexivity. Qed.

Example ex_compact_unused_changes :
  calls_in_rangeb ex_module = true
  /\ all_true (used_globals ex_module (used_functions ex_module)) = true
  /\ map f_name (m_functions (compact_unused ex_module)) = ["live"]
  /\ run_entry 20 (compact_unused ex_module) 0 [None] [] = Done ([VU32 30], None).
Proof. vm_compute. repeat split; reflexivity. Qed.

(* ====================================================================== *)
(* Round 3: removal of globals (cell renaming), idempotence                 *)

(* The general lemma for dropping global variables.  m' is m with the globals outside [ug]
   dropped (order kept) and [EGlobalVariable g] renumbered to [rank ug g] in every function
   ([frel_g]); the module-scope expression arena mentions no global.  Memory cell c of m is
   cell [rank (cell_live m ug) c] of m'; [vren]/[oren] rename the cells inside pointers,
   [vok]/[ook] say that every pointer names a live cell.  For ALL such m, m', fuel, inputs. *)
Theorem c13_cell_rename_sound :
  forall (m m' : module) (ug : nat -> bool),
    m_types m' = m_types m -> m_constants m' = m_constants m -> m_global_exprs m' = m_global_exprs m ->
    m_globals m' = keep ug (m_globals m) ->
    forallb not_globalvar (m_global_exprs m) = true ->
    (forall i f, nth_error (m_functions m) i = Some f ->
                 exists f', nth_error (m_functions m') i = Some f' /\ frel_g m ug f f') ->
    (forall i e, nth_error (m_entry_points m) i = Some e ->
                 exists e', nth_error (m_entry_points m') i = Some e' /\ frel_g m ug (ep_func e) (ep_func e')) ->
    forall fuel ep gs args cells ret,
      forallb (ook (cell_live m ug)) gs = true -> forallb (vok (cell_live m ug)) args = true ->
      run_entry fuel m ep gs args = Done (cells, ret) ->
      run_entry fuel m' ep (gren m ug gs) (map (vren (cell_live m ug)) args)
      = Done (map (vren (cell_live m ug)) (keep ug cells), oren (cell_live m ug) ret).
Proof. exact cell_sim_run_entry. Qed.
Print Assumptions c13_cell_rename_sound.

(* CompactUnused, full: functions and globals removed.  Inputs: contents for the globals of m
   and arguments, without pointers (what a harness can supply); the compacted module gets the
   contents of the kept globals.  Result: the final contents of the kept globals and the
   returned value, with the cells inside pointers renamed. *)
Theorem c13_compact_unused_sound :
  forall m, module_wf m -> calls_in_rangeb m = true -> gexprs_closedb m = true ->
  forall fuel ep gs args cells ret,
    forallb opfree gs = true -> forallb pfree args = true ->
    run_entry fuel m ep gs args = Done (cells, ret) ->
    let ug := uget (used_globals m (used_functions m)) in
    run_entry fuel (compact_unused m) ep (keep ug gs) args
    = Done (map (vren (cu_live m)) (keep ug cells), option_map (vren (cu_live m)) ret).
Proof. exact compact_unused_sound. Qed.
Print Assumptions c13_compact_unused_sound.

(* the same for inputs that may contain pointers to live cells *)
Theorem c13_compact_unused_sound_cells :
  forall m, module_wf m -> calls_in_rangeb m = true -> gexprs_closedb m = true ->
  forall fuel ep gs args cells ret,
    forallb (ook (cu_live m)) gs = true -> forallb (vok (cu_live m)) args = true ->
    run_entry fuel m ep gs args = Done (cells, ret) ->
    run_entry fuel (compact_unused m) ep
              (map (oren (cu_live m)) (keep (uget (used_globals m (used_functions m))) gs)) (map (vren (cu_live m)) args)
    = Done (map (vren (cu_live m)) (keep (uget (used_globals m (used_functions m))) cells), oren (cu_live m) ret).
Proof. exact compact_unused_sound_cells. Qed.
Print Assumptions c13_compact_unused_sound_cells.

(* no pointers in the results (every well-typed module: pointers cannot be stored or returned):
   literally the same observable results *)
Theorem c13_compact_unused_sound_pfree :
  forall m, module_wf m -> calls_in_rangeb m = true -> gexprs_closedb m = true ->
  forall fuel ep gs args cells ret,
    forallb opfree gs = true -> forallb pfree args = true ->
    run_entry fuel m ep gs args = Done (cells, ret) ->
    forallb pfree cells = true -> opfree ret = true ->
    let ug := uget (used_globals m (used_functions m)) in
    run_entry fuel (compact_unused m) ep (keep ug gs) args = Done (keep ug cells, ret).
Proof. exact compact_unused_sound_pfree. Qed.
Print Assumptions c13_compact_unused_sound_pfree.

Theorem c13_compact_unused_idempotent :
  forall m, compact_unused (compact_unused m) = compact_unused m.
Proof. exact compact_unused_idempotent. Qed.
Print Assumptions c13_compact_unused_idempotent.

Theorem c13_compact_constants_idempotent :
  forall m, compact_constants (compact_constants m) = compact_constants m.
Proof. exact compact_constants_idempotent. Qed.
Print Assumptions c13_compact_constants_idempotent.

(* ---- non-vacuity: dead global 0 and 2, live global 1 (written through a local pointer and
        by a helper), a dead function, a local variable (its cell moves from 3 to 1) ---- *)
Definition ex2_main : func :=
  mkfunc "main" [] None [mklocal "t" 0 None]
         [EGlobalVariable 1; ELiteral (LU32 7); ELocalVariable 0; ELoad 0; EBinary BAdd 3 1; ELoad 2; EBinary BAdd 5 4]
         []
         [SCall 1 [] None; SStore 2 1; SEmit 3 7; SStore 0 6; SReturn None]
         [].
Definition ex2_live : func :=
  mkfunc "live" [] None [] [EGlobalVariable 1; ELiteral (LU32 3)] [] [SStore 0 1; SReturn None] [].
Definition ex2_dead : func :=
  mkfunc "dead" [] None [] [EGlobalVariable 2; ELiteral (LU32 1)] [] [SStore 0 1; SReturn None] [].
Definition ex2_module : module :=
  mkmodule [ex_u32] []
           [mkglobal "a" SpPrivate None 0 None None 0; mkglobal "b" SpPrivate None 0 None None 0;
            mkglobal "c" SpPrivate None 0 None None 0] []
           [ex2_dead; ex2_live] [mkep "main" StCompute [1; 1; 1]%Z ex2_main] [].

Example ex2_hypotheses :
  module_wfb ex2_module = true /\ calls_in_rangeb ex2_module = true /\ gexprs_closedb ex2_module = true
  /\ forallb opfree [Some (VU32 11); Some (VU32 22); None] = true.
Proof. vm_compute. repeat split; reflexivity. Qed.

Example ex2_runs :
  run_entry 20 ex2_module 0 [Some (VU32 11); Some (VU32 22); None] [] = Done ([VU32 11; VU32 17; VU32 0], None)
  /\ map g_name (m_globals (compact_unused ex2_module)) = ["b"]
  /\ map f_name (m_functions (compact_unused ex2_module)) = ["live"]
  /\ keep (uget (used_globals ex2_module (used_functions ex2_module))) [Some (VU32 11); Some (VU32 22); None] = [Some (VU32 22)]
  /\ run_entry 20 (compact_unused ex2_module) 0 [Some (VU32 22)] [] = Done ([VU32 17], None)
  /\ compact_unused (compact_unused ex2_module) = compact_unused ex2_module.
Proof. vm_compute. repeat split; reflexivity. Qed.

(* ====================================================================== *)
(* InlineUserFunctions (model Passes/Inline.v of ir/inline.go with the nil policy, tied
   structurally to the Go pass on every run).  Proved for ALL modules:                      *)

(* after the pass no StmtCall to a function of the module is left in any body *)
Theorem c13_inline_no_calls :
  forall m m', inline_user_functions m = Some m' ->
  forall f, In f (all_funcs m') ->
  forall h, In h (block_calls (f_body f)) -> (List.length (m_functions m') <= h)%nat.
Proof. exact inline_no_calls. Qed.
Print Assumptions c13_inline_no_calls.

(* module-scope data untouched, arenas of functions and entry points keep their length *)
Theorem c13_inline_frame :
  forall m m', inline_user_functions m = Some m' ->
  m_types m' = m_types m /\ m_constants m' = m_constants m /\ m_globals m' = m_globals m
  /\ m_global_exprs m' = m_global_exprs m /\ m_overrides m' = m_overrides m
  /\ List.length (m_functions m') = List.length (m_functions m)
  /\ List.length (m_entry_points m') = List.length (m_entry_points m).
Proof. exact inline_frame. Qed.
Print Assumptions c13_inline_frame.

(* [inline_wf] in the form "module_wf is preserved" is FALSE for the faithful model: the caller's
   ExprCallResult at handle r becomes Load(p) of the return slot with p > r (an operand that
   follows its user), and that Load is covered by no Emit (the check reads such Loads as
   "evaluated when used", Passes/Lenient.v) *)
Theorem c13_inline_wf_refuted :
  exists m m', module_wfb m = true /\ inline_user_functions m = Some m' /\ module_wfb m' = false.
Proof. exact inline_breaks_fwd_free. Qed.
Print Assumptions c13_inline_wf_refuted.

(* statement kinds whose operands the pass leaves in the callee's numbering (recorded findings
   inline:unremapped:KIND), against a Store, which is moved into the copied block *)
Theorem c13_inline_keeps_unknown_statements :
  forall base n t refs, String.eqb t "StmtImageStore" = false -> rstmt base n (SOther t refs) = SOther t refs.
Proof. exact rstmt_keeps_other. Qed.
Theorem c13_inline_keeps_compare_operand :
  forall base n p f c v r, exists p' v' r', rstmt base n (SAtomic p f (Some c) v r) = SAtomic p' f (Some c) v' r'.
Proof. exact rstmt_keeps_compare. Qed.
Theorem c13_inline_moves_store :
  forall base n p v, (p < n)%nat -> (v < n)%nat -> rstmt base n (SStore p v) = SStore (base + p)%nat (base + v)%nat.
Proof. exact rstmt_moves_store. Qed.
