(* C13 — IR-to-IR passes preserve program behaviour.

   Reference semantics: IR/Sem.v [run_entry fuel m ep globals args].
   Models of the passes of ir/compact.go: Passes/Compact.v (tied to the Go code on every
   run of the check: model applied to the module before the pass = module after the pass).

   Proved here, for ALL modules satisfying the executable hypothesis [module_wf]
   (operands precede their users, statement operands in range) and ALL inputs:
     - the general renumbering lemma (expression arenas of all functions + function arena),
     - CompactExpressions: behaviour preserved, result well-formed, idempotent,
     - CompactUnused: behaviour preserved when only functions are removed (_partial:
       assumes that no global is removed - evaluated by the check on every module;
       removing a global renumbers memory cells).
   Direction: refinement (a run of the source that terminates with a result is reproduced
   with the same result and the same fuel); a dead expression that fails in the source
   (e.g. an out-of-bounds Load under an Emit) is not evaluated after the pass.

   Not proved (model tie + differential execution only, see checks/c13.py):
   CompactConstants, CompactTypes, ReorderTypes, DeduplicateEmits, InlineUserFunctions,
   sroa/mem2reg/dce. *)
From Coq Require Import List Arith Bool String ZArith.
Import ListNotations.
Require Import Naga.IR.Syntax Naga.IR.Values Naga.IR.Sem.
Require Import Naga.Passes.Remap Naga.Passes.Compact Naga.Passes.RenameSound.
Require Import Naga.Passes.CompactExprProofs Naga.Passes.CompactExprIdem Naga.Passes.CompactUnusedProofs.

(* The general lemma.  m' is m with every function renumbered through some live set
   (fspec: the live set is closed under operands and contains every statement operand;
   the new arena is the live part of the old one with handles replaced by their rank;
   Emit ranges are adjusted and empty ones dropped) and function handle i moved to rf i. *)
Theorem c13_rename_sound :
  forall (m m' : module) (rf : nat -> nat) (fused : nat -> Prop),
    m_types m' = m_types m -> m_globals m' = m_globals m ->
    m_constants m' = m_constants m -> m_global_exprs m' = m_global_exprs m ->
    (forall i f, fused i -> nth_error (m_functions m) i = Some f ->
                 exists f', nth_error (m_functions m') (rf i) = Some f' /\ frel rf fused f f') ->
    (forall i e, nth_error (m_entry_points m) i = Some e ->
                 exists e', nth_error (m_entry_points m') i = Some e' /\ frel rf fused (ep_func e) (ep_func e')) ->
    forall fuel ep gs args res,
      run_entry fuel m ep gs args = Done res -> run_entry fuel m' ep gs args = Done res.
Proof. exact sim_run_entry. Qed.
Print Assumptions c13_rename_sound.

Theorem c13_compact_expressions_sound :
  forall m, module_wf m ->
  forall fuel ep gs args res,
    run_entry fuel m ep gs args = Done res ->
    run_entry fuel (compact_expressions m) ep gs args = Done res.
Proof. exact compact_expressions_sound. Qed.
Print Assumptions c13_compact_expressions_sound.

Theorem c13_compact_expressions_idempotent :
  forall m, module_wf m -> compact_expressions (compact_expressions m) = compact_expressions m.
Proof. exact compact_expressions_idempotent. Qed.
Print Assumptions c13_compact_expressions_idempotent.

Theorem c13_compact_expressions_wf :
  forall m, module_wf m -> module_known m = true -> module_wf (compact_expressions m).
Proof. exact compact_expressions_wf. Qed.
Print Assumptions c13_compact_expressions_wf.

Theorem c13_module_wfb_sound : forall m, module_wfb m = true -> module_wf m.
Proof. exact module_wfb_sound. Qed.
Print Assumptions c13_module_wfb_sound.

(* [reach] (the work-list computation of the live functions) is call-closed *)
Theorem c13_used_functions_closed :
  forall m, calls_in_rangeb m = true -> calls_closedb m (used_functions m) = true.
Proof. exact used_functions_closed. Qed.
Print Assumptions c13_used_functions_closed.

(* missing for the full statement: removal of globals (renumbering of memory cells needs a
   simulation up to a cell renaming instead of equality of values) *)
Theorem c13_compact_unused_sound_partial :
  forall m, module_wf m -> calls_in_rangeb m = true ->
  all_true (used_globals m (used_functions m)) = true ->
  forall fuel ep gs args res,
    run_entry fuel m ep gs args = Done res ->
    run_entry fuel (compact_unused m) ep gs args = Done res.
Proof. exact compact_unused_functions_sound. Qed.
Print Assumptions c13_compact_unused_sound_partial.

(* ---- non-vacuity: a module with a dead expression and an unreachable function ---- *)
Open Scope string_scope.
Definition ex_u32 : ty := mkty "" (TScalar (mkscalar Uint 4)).
Definition ex_main : func :=
  mkfunc "main" [] None []
         [EGlobalVariable 0; ELiteral (LU32 7); ELiteral (LU32 5); EBinary BAdd 2 2; ELoad 0; EBinary BMul 4 3]
         []
         [SCall 1 [] None; SEmit 1 2; SEmit 3 6; SStore 0 5; SReturn None]
         [].
Definition ex_dead : func := mkfunc "dead" [] None [] [ELiteral (LU32 1)] [] [SReturn None] [].
Definition ex_live : func :=
  mkfunc "live" [] None [] [EGlobalVariable 0; ELiteral (LU32 3)] [] [SStore 0 1; SReturn None] [].
Definition ex_module : module :=
  mkmodule [ex_u32] [] [mkglobal "g" SpPrivate None 0 None None 0] []
           [ex_dead; ex_live] [mkep "main" StCompute [1; 1; 1]%Z ex_main] [].

Example ex_wf : module_wfb ex_module = true /\ module_known ex_module = true.
Proof. vm_compute. split; reflexivity. Qed.

Example ex_runs : run_entry 20 ex_module 0 [None] [] = Done ([VU32 30], None).
Proof. vm_compute. reflexivity. Qed.

Example ex_compact_expressions_changes :
  map (fun e => List.length (f_exprs (ep_func e))) (m_entry_points (compact_expressions ex_module)) = [5%nat]
  /\ run_entry 20 (compact_expressions ex_module) 0 [None] [] = Done ([VU32 30], None).
Proof. vm_compute. split; reflexivity. Qed.

Example ex_compact_unused_changes :
  calls_in_rangeb ex_module = true
  /\ all_true (used_globals ex_module (used_functions ex_module)) = true
  /\ map f_name (m_functions (compact_unused ex_module)) = ["live"]
  /\ run_entry 20 (compact_unused ex_module) 0 [None] [] = Done ([VU32 30], None).
Proof. vm_compute. repeat split; reflexivity. Qed.
