(* Property C11 — diagnosed classes of invalid programs are always rejected, at the right
   place.  Proved here, for ALL inputs of each leaf decision procedure (models transliterated
   from wgsl/internal/lower/lower.go, tied to /repo by Diag/DiagInst.v + Gen/DiagTables.v):
   the procedure implements the WGSL rule.
   The quantifier "every syntactic site" of the property is NOT a theorem (no model of the
   whole lowerer exists): it is covered by site enumeration on the implementation, see
   checks/c11.py.  Hence every statement about the whole property is `_partial`. *)
From Coq Require Import List ZArith Bool String.
Import ListNotations.
Require Import Naga.Diag.SwizzleModel Naga.Diag.SwizzleProofs Naga.Diag.BalanceModel Naga.Diag.BalanceProofs
               Naga.Diag.LeafModel Naga.Diag.LeafProofs.
Open Scope Z_scope.

(* ---- swizzles: the validation accepts exactly the WGSL vector-access names, with the right components *)
Theorem c11_swizzle_model_eq_spec : forall member w, 0 <= w < 256 ->
  swizzle_model member w = swizzle_spec member w.
Proof. exact swizzle_model_eq_spec. Qed.
Print Assumptions c11_swizzle_model_eq_spec.

Theorem c11_swizzle_mixed_rejected : forall member w c d i j, 0 <= w < 256 ->
  In c member -> In d member -> xyzw_index c = Some i -> rgba_index d = Some j ->
  swizzle_model member w = None.
Proof. exact swizzle_mixed_rejected. Qed.
Print Assumptions c11_swizzle_mixed_rejected.

Theorem c11_swizzle_too_wide_rejected : forall member w c i, 0 <= w < 256 ->
  In c member -> swizzle_component c = Some i -> w <= i ->
  swizzle_model member w = None.
Proof. exact swizzle_too_wide_rejected. Qed.
Print Assumptions c11_swizzle_too_wide_rejected.

(* ---- delimiters: whatever the grammar, as long as delimiters are introduced in matched pairs *)
Theorem c11_grammar_implies_balanced : forall l, wf l -> balanced l = true.
Proof. exact wf_balanced. Qed.
Print Assumptions c11_grammar_implies_balanced.

(* ... and conversely: `balanced` is exactly the token-level language of matched delimiters *)
Theorem c11_balanced_iff_grammar : forall l, balanced l = true <-> wf l.
Proof. exact balanced_iff_wf. Qed.
Print Assumptions c11_balanced_iff_grammar.

Theorem c11_one_delimiter_deleted_unbalanced : forall l i t,
  balanced l = true -> nth_error l i = Some t -> is_delim t = true ->
  balanced (remove_nth i l) = false /\
  exists j, first_bad (remove_nth i l) = Some j /\ (i <= j <= List.length (remove_nth i l))%nat.
Proof. intros l i t Hb Hn Hd. split; [exact (balanced_remove_delim l i t Hb Hn Hd)|exact (first_bad_after_remove l i t Hb Hn Hd)]. Qed.
Print Assumptions c11_one_delimiter_deleted_unbalanced.

Theorem c11_one_delimiter_inserted_unbalanced : forall l i t,
  balanced l = true -> (i <= List.length l)%nat -> is_delim t = true ->
  balanced (insert_nth i t l) = false /\
  exists j, first_bad (insert_nth i t l) = Some j /\ (i <= j <= List.length (insert_nth i t l))%nat.
Proof. intros l i t Hb Hi Hd. split; [exact (balanced_insert_delim l i t Hb Hd)|exact (first_bad_after_insert l i t Hb Hi Hd)]. Qed.
Print Assumptions c11_one_delimiter_inserted_unbalanced.

Theorem c11_edited_program_underivable : forall l i t,
  wf l -> is_delim t = true ->
  (nth_error l i = Some t -> ~ wf (remove_nth i l)) /\ ~ wf (insert_nth i t l).
Proof. intros l i t Hw Hd. split; [intros Hn; exact (edited_not_wf_remove l i t Hw Hn Hd)|exact (edited_not_wf_insert l i t Hw Hd)]. Qed.
Print Assumptions c11_edited_program_underivable.

(* ---- @group/@binding: the pairing test equals the rule for every attribute list *)
Theorem c11_pairing_model_eq_spec : forall attrs, pairing_model attrs = pairing_spec attrs.
Proof. exact pairing_model_eq_spec. Qed.
Print Assumptions c11_pairing_model_eq_spec.

(* ---- array element count: an error exactly for non-positive counts; equal to the rule below 2^32 *)
Theorem c11_array_size_error_iff_nonpositive : forall v, array_size_model (Some v) = SizeError <-> v <= 0.
Proof. exact array_size_error_iff_nonpositive. Qed.
Print Assumptions c11_array_size_error_iff_nonpositive.

Theorem c11_array_size_model_eq_spec : forall v, v < two32 -> array_size_model (Some v) = array_size_spec v.
Proof. exact array_size_model_eq_spec. Qed.
Print Assumptions c11_array_size_model_eq_spec.

(* ---- @workgroup_size ---- *)
Theorem c11_workgroup_size_model_eq_spec : forall names,
  wg_model names = true <->
  (exists s, entry_stage names = Some s /\ needs_wg s = true) /\ ~ In "workgroup_size"%string names.
Proof. exact wg_model_spec. Qed.
Print Assumptions c11_workgroup_size_model_eq_spec.

(* ---- constant integer division ---- *)
Theorem c11_const_div_error_iff_zero_divisor : forall op l r, const_div_model op l r = None <-> r = 0.
Proof. exact const_div_error_iff. Qed.
Print Assumptions c11_const_div_error_iff_zero_divisor.

Theorem c11_const_div_value : forall l r, int64 l -> int64 r -> r <> 0 -> ~ (l = - two63 /\ r = -1) ->
  const_div_model true l r = Some (Z.quot l r) /\ const_div_model false l r = Some (Z.rem l r).
Proof. exact const_div_value. Qed.
Print Assumptions c11_const_div_value.

(* ---- positions ---- *)
Theorem c11_pos_in_source_is_an_offset : forall lines line col,
  Forall (fun x => 0 <= x) lines -> pos_in_source lines line col = true ->
  0 <= offset_of lines line col < total_len lines.
Proof. exact pos_in_source_offset. Qed.
Print Assumptions c11_pos_in_source_is_an_offset.

Theorem c11_pos_within_decl_within_enclosing : forall sl sc el ec sl' sc' el' ec' line col,
  pos_le sl' sc' sl sc = true -> pos_le el ec el' ec' = true ->
  pos_within_span sl sc el ec line col = true -> pos_within_span sl' sc' el' ec' line col = true.
Proof. exact pos_within_span_mono. Qed.
Print Assumptions c11_pos_within_decl_within_enclosing.

(* ---- non-vacuity ---- *)
(* `.xyz` on a vec3 is accepted with components 0,1,2; `.xg` and `.w` on a vec3 are rejected *)
Example c11_example_swizzle :
  swizzle_model [120; 121; 122] 3 = Some [0; 1; 2] /\ swizzle_model [120; 103] 3 = None /\ swizzle_model [119] 3 = None /\
  swizzle_model [98; 103; 114; 97] 4 = Some [2; 1; 0; 3].
Proof. vm_compute. repeat split; reflexivity. Qed.

(* `f ( a [ 1 ] ) { }` is derivable and balanced; dropping the `]` fails at the `)` that follows *)
Example c11_example_balance :
  let l := [TOther; TOpen Paren; TOther; TOpen Bracket; TOther; TClose Bracket; TClose Paren; TOpen Brace; TClose Brace] in
  balanced l = true /\ first_bad (remove_nth 5 l) = Some 5%nat /\ first_bad (remove_nth 1 l) = Some 5%nat /\
  first_bad (remove_nth 8 l) = Some 8%nat.
Proof. vm_compute. repeat split; reflexivity. Qed.

Example c11_example_wf : wf [TOther; TOpen Paren; TOther; TClose Paren].
Proof. apply (wf_app [TOther] [TOpen Paren; TOther; TClose Paren]); [constructor|]. apply (wf_wrap Paren [TOther]). constructor. Qed.

Example c11_example_leaf :
  pairing_model [{| aname := "group"; aargs := [ALit] |}] = true /\
  pairing_model [{| aname := "binding"; aargs := [ALit] |}; {| aname := "group"; aargs := [ALit] |}] = false /\
  array_size_model (Some 0) = SizeError /\ array_size_model (Some (-1)) = SizeError /\ array_size_model (Some 4) = SizeConst 4 /\
  pairing_model [{| aname := "group"; aargs := [AOther] |}] = true /\
  wg_model ["compute"%string] = true /\ wg_model ["workgroup_size"; "compute"]%string = false /\ wg_model ["fragment"%string] = false /\
  const_div_model true 7 0 = None /\ const_div_model false (-7) 2 = Some (-1) /\
  pos_in_source [10; 0; 5] 3 6 = true /\ pos_in_source [10; 0; 5] 3 7 = false /\ pos_in_source [10; 0; 5] 4 1 = false.
Proof. vm_compute. repeat split; reflexivity. Qed.

(* ---- parser part (coq/Parse/ParserDiag.v over the model of parser.go; fragment of Parse/ParserPrint.v:
   identifiers, literals, operators, calls, indexing, member access, parentheses).
   `_partial`: stated for these two productions of the modelled grammar, not for every production; the
   general statement (every missing closer in every production) is covered by the edit enumeration of checks/c11.py. *)
Require Import Naga.Parse.Ast Naga.Parse.ParserModel Naga.Parse.ParserProofs Naga.Parse.ParserPrint Naga.Parse.ParserDiag.
Open Scope string_scope.
Open Scope list_scope.

(* `( e` followed by a token that can neither continue e nor close the parenthesis: error "expected )" at THAT token *)
Theorem c11_missing_close_paren_is_error_partial : forall N er e ts rest lp,
  prints 0 e ts -> follow 0 rest -> tkind lp = TkLeftParen ->
  tk_eqb (hd_kind rest) TkRightParen = false ->
  (List.length (lp :: ts ++ rest) <= N)%nat ->
  expression (st N er false (lp :: ts ++ rest)) =
    Err (PErr (EExpected TkRightParen) (N - List.length rest)) (st N er false rest).
Proof. exact missing_close_paren_is_error. Qed.
Print Assumptions c11_missing_close_paren_is_error_partial.

(* `let x = e` followed by a token that can neither continue e nor end the statement: error "expected ;" at THAT token *)
Theorem c11_missing_semicolon_is_error_partial : forall N er e ts rest lett x eq,
  tkind lett = TkLet -> is_ident x = true -> tkind eq = TkEqual ->
  prints 0 e ts -> follow 0 rest -> tk_eqb (hd_kind rest) TkSemicolon = false ->
  (List.length (lett :: x :: eq :: ts ++ rest) <= N)%nat ->
  statement (st N er false (lett :: x :: eq :: ts ++ rest)) =
    Err (PErr (EExpected TkSemicolon) (N - List.length rest)) (st N er false rest).
Proof. exact missing_semicolon_is_error. Qed.
Print Assumptions c11_missing_semicolon_is_error_partial.

(* every error of every sub-parser points at the token that is current when it fails, never before its start *)
Theorem c11_parse_error_not_before_start :
  progresses expression /\ progresses typeSpec /\ progresses statement /\ progresses block /\ progresses declaration.
Proof. exact parse_progress. Qed.
Print Assumptions c11_parse_error_not_before_start.

(* REFUTED on the faithful model (and on naga: replayed by checks/c11.py): three classes of malformed text are accepted *)
Definition is_template_closer (k : tk) : bool :=
  tk_eqb k TkGreater || tk_eqb k TkGreaterGreater || tk_eqb k TkGreaterEqual || tk_eqb k TkGreaterGreaterEqual.

(* a template list `<` that is never closed:  var x : vec3 < f32 = 1 ; *)
Theorem c11_unclosed_template_list_refuted : exists ts ds,
  parse ts = Parsed ds [] /\
  existsb (fun t => tk_eqb (tkind t) TkLess) ts = true /\ existsb (fun t => is_template_closer (tkind t)) ts = false.
Proof. exists w_unclosed_template. eexists. split; [exact unclosed_template_accepted|split; reflexivity]. Qed.
Print Assumptions c11_unclosed_template_list_refuted.

(* a malformed attribute argument is dropped:  `@workgroup_size(8, 4 STAR ) fn main() {}` (STAR = the token `*`) parses like @workgroup_size(8) *)
Theorem c11_malformed_attribute_argument_refuted : exists ts,
  parse ts = Parsed [DFunction "main" [] None [] [mkattr "workgroup_size" [ELit TkIntLiteral "8"]] []] [] /\
  existsb (fun t => tk_eqb (tkind t) TkStar) ts = true.
Proof. exists w_attr_arg_dropped. split; [exact attr_arg_dropped_accepted|reflexivity]. Qed.
Print Assumptions c11_malformed_attribute_argument_refuted.

(* call arguments after an expression that is neither a name nor a type are parsed and dropped:
   fn f() { a[0](1, nosuch); }  parses like  fn f() { a[0]; }  (the undeclared `nosuch` is never seen again) *)
Theorem c11_call_arguments_dropped_refuted : exists ts,
  parse ts = Parsed [DFunction "f" [] None [] [] [SExpr (EIndex (EIdent "a") (ELit TkIntLiteral "0"))]] [] /\
  existsb (fun t => String.eqb (tlex t) "nosuch") ts = true.
Proof. exists w_call_args_dropped. split; [exact call_args_dropped_accepted|reflexivity]. Qed.
Print Assumptions c11_call_arguments_dropped_refuted.
