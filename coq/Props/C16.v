(* C16 — User identifiers never clash with target keywords, helpers or each other.

   Property theorems only.  Models: Namer/Namer.v (the three namers of
   hlsl|msl|glsl/internal/codegen), tables: Gen/Keywords.v (regenerated from /repo on
   every run), specification word lists: Namer/Spec{Hlsl,Msl,Glsl}.v.

   Statements quantify over ALL sequences of namer operations (Call / Reserve / Enter
   / Leave = call / reserve / namespace) and ALL labels (arbitrary code-point strings).
   Strings are lists of code points. *)
From Coq Require Import List ZArith Bool NArith String.
Import ListNotations.
Require Import Naga.Namer.Namer Naga.Namer.NamerProofs Naga.Namer.SanitizeProofs Naga.Namer.NamerInv.
Require Import Naga.Gen.Keywords.
Require Import Naga.Namer.SpecBase Naga.Namer.SpecHlsl Naga.Namer.SpecMsl Naga.Namer.SpecGlsl.
Require Import Naga.Namer.NamerInst.
Open Scope Z_scope.

(* ---- the key lemma: base ++ "_" ++ decimal(n) decomposes uniquely ---- *)
Theorem c16_suffix_unique_decomposition : forall b1 n1 b2 n2,
  suffix_form b1 n1 = suffix_form b2 n2 -> b1 = b2 /\ n1 = n2.
Proof. exact suffix_form_inj. Qed.
Print Assumptions c16_suffix_unique_decomposition.

(* ---- sanitize: for every label the base is non-empty ASCII [A-Za-z0-9_]+, has no
        trailing '_' and no "__" (all three backends) ---- *)
Theorem c16_sanitize_ascii : forall l,
  good_base (sanitize HLSL l) /\ good_base (sanitize MSL l) /\ good_base (sanitize GLSL l).
Proof. intro l. exact (conj (HLSL_good l) (conj (MSL_good l) (GLSL_good l))). Qed.
Print Assumptions c16_sanitize_ascii.

(* ---- namer_inv, HLSL: after ANY operation sequence from newNamer()'s state,
   names issued from one `unique` map (one scope) are pairwise distinct; every issued name
   is recorded in a scope, is non-empty ASCII [A-Za-z0-9_]+, is not a word of naga's tables
   (case-insensitively for the case-insensitive set), is not an HLSL keyword or reserved word of
   the specification list, contains no "__", is not a temporary `_e<digits>`, and if it ends in a
   digit it has the shape x_<digits>. ---- *)
Theorem c16_namer_inv_hlsl : forall ops st outs,
  run HLSL hlsl_start ops = (st, outs) ->
  (forall f, In f (frames st) -> NoDup (issued f)) /\
  (forall n, In (Some n) outs -> recorded st n /\ issued_ok HLSL hlsl_spec [] n).
Proof. intros ops st outs H. exact (hlsl_inv hlsl_start ops st outs hlsl_start_ok H). Qed.
Print Assumptions c16_namer_inv_hlsl.

Theorem c16_namer_inv_glsl : forall ops st outs,
  run GLSL plain_start ops = (st, outs) ->
  (forall f, In f (frames st) -> NoDup (issued f)) /\
  (forall n, In (Some n) outs -> recorded st n /\ issued_ok GLSL glsl_spec [] n).
Proof. intros ops st outs H. exact (glsl_inv plain_start ops st outs (plain_start_ok GLSL) H). Qed.
Print Assumptions c16_namer_inv_glsl.

(* MSL: the same, except that an issued name may be one of the three table words of shape
   x_<digits> (M_PI_2, M_PI_4, M_SQRT1_2) — see c16_msl_keyword_free_refuted. PARTIAL in that clause. *)
Theorem c16_namer_inv_msl_partial : forall ops st outs,
  run MSL plain_start ops = (st, outs) ->
  (forall f, In f (frames st) -> NoDup (issued f)) /\
  (forall n, In (Some n) outs -> recorded st n /\ issued_ok MSL msl_spec msl_exceptions n).
Proof. intros ops st outs H. exact (msl_inv plain_start ops st outs (plain_start_ok MSL) H). Qed.
Print Assumptions c16_namer_inv_msl_partial.

(* REFUTED (finding): the MSL namer can issue a word of its own reserved table. *)
Definition s_M_PI : str := z_of_string "M_PI".
Theorem c16_msl_keyword_free_refuted : exists ops n,
  In (Some n) (snd (run MSL plain_start ops)) /\ is_kw MSL n = true.
Proof.
  exists [Call s_M_PI; Call s_M_PI; Call s_M_PI], (z_of_string "M_PI_2").
  vm_compute. split; [right; right; left; reflexivity | reflexivity].
Qed.
Print Assumptions c16_msl_keyword_free_refuted.

(* ---- HLSL: case-insensitive keywords and the helper names reserved by newNamer() ---- *)
Theorem c16_hlsl_case_insensitive_and_helpers : forall ops st outs n,
  run HLSL hlsl_start ops = (st, outs) -> In (Some n) outs ->
  (forall k, In k hlsl_spec_ci -> lower n <> lower k) /\ ~ In n hlsl_helpers.
Proof.
  intros ops st outs n H Hin. destruct (c16_namer_inv_hlsl ops st outs H) as [_ H2].
  destruct (H2 n Hin) as [_ Hio]. destruct (io_not_table_kw _ _ _ _ Hio) as [K | []].
  split; [intros k Hk; apply hlsl_not_ci; assumption | apply hlsl_not_helper; exact K].
Qed.
Print Assumptions c16_hlsl_case_insensitive_and_helpers.

(* REFUTED (finding): the fixed-width scalar type names of HLSL (int64_t, uint64_t, float16_t, ...) are
   not escaped: they are missing from the table and do not end in a digit. *)
Theorem c16_hlsl_sized_types_refuted : forall k, In k hlsl_sized_types ->
  In (Some k) (snd (run HLSL hlsl_start [Call k])).
Proof.
  intros k Hin. repeat (destruct Hin as [<- | Hin]; [vm_compute; left; reflexivity|]). destruct Hin.
Qed.
Print Assumptions c16_hlsl_sized_types_refuted.

(* ---- identifier grammar [A-Za-z_][A-Za-z0-9_]* ---- *)
Theorem c16_ident_grammar_msl : forall ops st outs n,
  run MSL plain_start ops = (st, outs) -> In (Some n) outs -> ident_ok n = true.
Proof.
  intros ops st outs n H Hin.
  eapply (namer_ident_ok MSL MSL_good); [apply plain_start_ok | apply plain_start_first | | exact H | exact Hin].
  intros l _. apply msl_sanitize_first.
Qed.
Print Assumptions c16_ident_grammar_msl.

Theorem c16_ident_grammar_glsl : forall ops st outs n,
  run GLSL plain_start ops = (st, outs) -> In (Some n) outs -> ident_ok n = true.
Proof.
  intros ops st outs n H Hin.
  eapply (namer_ident_ok GLSL GLSL_good); [apply plain_start_ok | apply plain_start_first | | exact H | exact Hin].
  intros l _. apply glsl_sanitize_first.
Qed.
Print Assumptions c16_ident_grammar_glsl.

(* HLSL: PARTIAL — for labels without ':' '<' '>' ',' (every WGSL identifier is such a label) *)
Theorem c16_ident_grammar_hlsl_partial : forall ops st outs n,
  (forall l, In l (labels ops) -> no_sep l = true) ->
  run HLSL hlsl_start ops = (st, outs) -> In (Some n) outs -> ident_ok n = true.
Proof.
  intros ops st outs n Hl H Hin.
  eapply (namer_ident_ok HLSL HLSL_good); [apply hlsl_start_ok | apply hlsl_start_first | | exact H | exact Hin].
  intros l Hi. apply hlsl_sanitize_first. apply Hl. exact Hi.
Qed.
Print Assumptions c16_ident_grammar_hlsl_partial.

(* REFUTED for arbitrary labels: HLSL sanitize(":1") = "1" (separators are skipped while the
   buffer is empty, after the leading-digit strip); not reachable from a WGSL identifier. *)
Theorem c16_ident_grammar_hlsl_refuted : exists l n,
  In (Some n) (snd (run HLSL hlsl_start [Call l])) /\ ident_ok n = false.
Proof. exists (z_of_string ":1"), (z_of_string "1_"). vm_compute. split; [left; reflexivity | reflexivity]. Qed.
Print Assumptions c16_ident_grammar_hlsl_refuted.

(* ---- namespace(body) / a fresh member namer leaves the outer scope untouched ---- *)
Theorem c16_namespace_restores : forall B body st st' outs,
  flat body = true -> run B st (Enter :: body ++ [Leave]) = (st', outs) ->
  cur st' = cur st /\ stack st' = stack st.
Proof. exact namespace_restores. Qed.
Print Assumptions c16_namespace_restores.

(* ---- REFUTED (findings): spellings the backends generate themselves without asking the
        namer can be issued for a user label ---- *)
(* GLSL 4.60 section 3.7: identifiers starting with "gl_" are reserved *)
Theorem c16_glsl_gl_prefix_refuted : exists l n,
  In (Some n) (snd (run GLSL plain_start [Call l])) /\ has_gl_prefix n = true.
Proof. exists (z_of_string "gl_foo"), (z_of_string "gl_foo"). vm_compute. split; [left; reflexivity | reflexivity]. Qed.
Print Assumptions c16_glsl_gl_prefix_refuted.

(* glsl writer: uniform/storage block variables are spelled _group_<g>_binding_<b>_<vs|fs|cs> *)
Definition glsl_block_var (g b : N) (stage : string) : str :=
  z_of_string "_group_" ++ dec g ++ z_of_string "_binding_" ++ dec b ++ z_of_string "_" ++ z_of_string stage.
Theorem c16_glsl_block_var_refuted : exists l,
  fst (call GLSL [] l) = glsl_block_var 0 1 "fs".
Proof. exists (z_of_string "_group_0_binding_1_fs"). vm_compute. reflexivity. Qed.
Print Assumptions c16_glsl_block_var_refuted.

(* msl writer: the entry-point result is bound to the fixed name `_tmp` *)
Theorem c16_msl_tmp_refuted : fst (call MSL [] (z_of_string "_tmp")) = z_of_string "_tmp".
Proof. vm_compute. reflexivity. Qed.
Print Assumptions c16_msl_tmp_refuted.

(* hlsl writer: struct constructors are spelled "Construct" ++ <issued struct name> *)
Theorem c16_hlsl_construct_refuted :
  let m := hlsl_init HLSL hlsl_helpers in
  let '(foo, m1) := call HLSL m (z_of_string "Foo") in
  fst (call HLSL m1 (z_of_string "ConstructFoo")) = z_of_string "Construct" ++ foo.
Proof. vm_compute. reflexivity. Qed.
Print Assumptions c16_hlsl_construct_refuted.

(* ---- non-vacuity: concrete non-trivial runs ---- *)
Definition zs := z_of_string.
Example c16_example_hlsl :
  snd (run HLSL hlsl_start
         [Call (zs "float"); Call (zs "float_"); Call (zs "naga_div"); Call (zs "TEXTURE2D");
          Enter; Call (zs "a1"); Call (zs "a1"); Leave; Call (zs "a1"); Call [233; 116; 233]; Call (zs "x__y")])
  = [Some (zs "float_"); Some (zs "float_1"); Some (zs "naga_div_1"); Some (zs "TEXTURE2D_");
     None; Some (zs "a1_"); Some (zs "a1_1"); None; Some (zs "a1_"); Some (zs "u00e9_t_u00e9_"); Some (zs "x_y")].
Proof. vm_compute. reflexivity. Qed.

Example c16_example_msl_glsl :
  snd (run MSL plain_start [Call (zs "main"); Call (zs "main_"); Call (zs "1x:y"); Call []; Call (zs "_")])
  = [Some (zs "main_"); Some (zs "main_1"); Some (zs "x_y"); Some (zs "unnamed"); Some (zs "unnamed_1")]
  /\
  snd (run GLSL plain_start [Call (zs "main"); Call (zs "sampler2D"); Call (zs "a b"); Call (zs ":q")])
  = [Some (zs "main_"); Some (zs "sampler2D_"); Some (zs "a_b"); Some (zs "_q")].
Proof. vm_compute. split; reflexivity. Qed.
