(* Property C19 (lexical part): meaning-neutral re-spacing and (un)commenting
   cannot change the token stream -- for every source text, of any length. *)
From Coq Require Import List ZArith Bool.
Import ListNotations.
Require Import Naga.Lex.LexModel Naga.Lex.LexSplit Naga.Lex.LexTrivia Naga.Lex.LexInst Naga.Lex.LexFinal Naga.Gen.LexTables.
Open Scope Z_scope.

(* a blank is a hard token boundary *)
Theorem c19_blank_is_token_boundary :
  forall s1 w s2, blank (cp w) = true -> snd (lstrip_go s1) = false ->
  lstrip_go (s1 ++ w :: s2) = (fst (lstrip_go s1) ++ fst (lstrip_go s2), snd (lstrip_go s2)).
Proof. exact go_blank_splits. Qed.
Print Assumptions c19_blank_is_token_boundary.

(* blanks, line comments and (nested) block comments yield no token, whatever follows *)
Theorem c19_trivia_produces_no_tokens :
  forall tr s, forallb wf_trivia tr = true -> lstrip_go (render tr ++ s) = lstrip_go s.
Proof. exact go_trivia_skipped. Qed.
Print Assumptions c19_trivia_produces_no_tokens.

(* two layouts of the same pieces of text, with any blanks/comments between them, lex identically *)
Theorem c19_respacing_invariance :
  forall ps1 ps2,
  layout_ok is_letter keyword K ps1 -> layout_ok is_letter keyword K ps2 ->
  map (fun '(p, _, _) => p) ps1 = map (fun '(p, _, _) => p) ps2 ->
  lstrip_go (layout ps1) = lstrip_go (layout ps2).
Proof. exact go_respacing_invariance. Qed.
Print Assumptions c19_respacing_invariance.

(* non-vacuity: `a/**/+b` pieces with a nested comment containing a star-slash look-alike *)
Example c19_example :
  let a := asc [97] in let plus := asc [43] in let b := asc [98; 59] in
  let sp := mkch 32 1 in let nl := mkch 10 1 in
  (* body: blank, x, an opening marker, star, blank, slash-star-slash, a quote, the closing marker *)
  let body := asc [32; 120; 47; 42; 42; 32; 47; 34; 42; 47; 42; 47] in
  let ps1 := [(a, sp, []); (plus, sp, []); (b, nl, [])] in
  let ps2 := [(a, nl, [TBlock body; TBlank sp]); (plus, sp, [TLine (asc [47; 42; 34]) nl]); (b, sp, [])] in
  forallb wf_trivia [TBlock body; TLine (asc [47; 42; 34]) nl] = true /\
  lstrip_go (layout ps2) = lstrip_go (layout ps1) /\
  length (fst (lstrip_go (layout ps2))) = 4%nat.
Proof. vm_compute. repeat split; reflexivity. Qed.
