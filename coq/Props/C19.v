(* Property C19 (lexical part): meaning-neutral re-spacing and (un)commenting
   cannot change the token stream -- for every source text, of any length. *)
From Coq Require Import List ZArith Bool.
Import ListNotations.
Require Import Naga.Lex.LexModel Naga.Lex.LexSplit Naga.Lex.LexTrivia Naga.Lex.LexInst Naga.Lex.LexFinal Naga.Gen.LexTables.
Open Scope Z_scope.

(* a blank is a hard token boundary *)
Theorem c19_blank_is_token_boundary :
  forall s1 w s2, blank (cp w) = true -> snd (lstrip_go s1) = false ->
  lstrip_go (s1 ++ w :: s2) = (fst (lstrip_go s1) ++ fst (lstrip_go s2), snd (lstrip_go s2)).
Proof. exact go_blank_splits. Qed.
Print Assumptions c19_blank_is_token_boundary.

(* blanks, line comments and (nested) block comments yield no token, whatever follows *)
Theorem c19_trivia_produces_no_tokens :
  forall tr s, forallb wf_trivia tr = true -> lstrip_go (render tr ++ s) = lstrip_go s.
Proof. exact go_trivia_skipped. Qed.
Print Assumptions c19_trivia_produces_no_tokens.

(* two layouts of the same pieces of text, with any blanks/comments between them, lex identically *)
Theorem c19_respacing_invariance :
  forall ps1 ps2,
  layout_ok is_letter keyword K ps1 -> layout_ok is_letter keyword K ps2 ->
  map (fun '(p, _, _) => p) ps1 = map (fun '(p, _, _) => p) ps2 ->
  lstrip_go (layout ps1) = lstrip_go (layout ps2).
Proof. exact go_respacing_invariance. Qed.
Print Assumptions c19_respacing_invariance.

(* non-vacuity: `a/**/+b` pieces with a nested comment containing a star-slash look-alike *)
Example c19_example :
  let a := asc [97] in let plus := asc [43] in let b := asc [98; 59] in
  let sp := mkch 32 1 in let nl := mkch 10 1 in
  (* body: blank, x, an opening marker, star, blank, slash-star-slash, a quote, the closing marker *)
  let body := asc [32; 120; 47; 42; 42; 32; 47; 34; 42; 47; 42; 47] in
  let ps1 := [(a, sp, []); (plus, sp, []); (b, nl, [])] in
  let ps2 := [(a, nl, [TBlock body; TBlank sp]); (plus, sp, [TLine (asc [47; 42; 34]) nl]); (b, sp, [])] in
  forallb wf_trivia [TBlock body; TLine (asc [47; 42; 34]) nl] = true /\
  lstrip_go (layout ps2) = lstrip_go (layout ps1) /\
  length (fst (lstrip_go (layout ps2))) = 4%nat.
Proof. vm_compute. repeat split; reflexivity. Qed.

(* ---- parser part (coq/Parse): redundant parentheses, trailing commas, precedence and associativity.
   `prints d e ts`: ts is a token rendering of expression e for a position of precedence depth d in which any
   sub-expression may carry any number of redundant parentheses and call argument lists may end in a comma
   (Parse/ParserPrint.v).  Fragment: identifiers, literals, unary/binary operators, calls, indexing, member
   access, parentheses; type constructors / bitcast (template lists) are outside these theorems. *)
From Coq Require Import String.
Require Import Naga.Parse.Ast Naga.Parse.ParserModel Naga.Parse.ParserPrint.
Open Scope string_scope.
Open Scope list_scope.

(* every rendering of e is parsed to exactly e, whatever follows it (a token that cannot continue an expression) *)
Theorem c19_every_rendering_parses_to_its_ast : forall N er inf e ts rest,
  prints 0 e ts -> follow 0 rest -> (List.length (ts ++ rest) <= N)%nat ->
  expression (st N er inf (ts ++ rest)) = Ok e (st N er inf rest).
Proof. exact parse_prints. Qed.
Print Assumptions c19_every_rendering_parses_to_its_ast.

(* a rendering of any depth wrapped in ( ) is a rendering for every depth: parentheses may be added anywhere *)
Theorem c19_parentheses_allowed_anywhere : forall d d' e ts lp rp,
  prints d e ts -> (d <= 11)%nat -> (d' <= 11)%nat -> tkind lp = TkLeftParen -> tkind rp = TkRightParen ->
  prints d' e (lp :: ts ++ [rp]).
Proof. exact prints_wrap. Qed.
Print Assumptions c19_parentheses_allowed_anywhere.

(* `e` and `( e )` give the same AST (the AST has no parenthesis node) *)
Theorem c19_redundant_parens_same_ast : forall N er inf e ts rest lp rp,
  prints 0 e ts -> follow 0 rest -> tkind lp = TkLeftParen -> tkind rp = TkRightParen ->
  (List.length (lp :: ts ++ rp :: rest) <= N)%nat ->
  expression (st N er inf (ts ++ rest)) = Ok e (st N er inf rest) /\
  expression (st N er inf (lp :: ts ++ rp :: rest)) = Ok e (st N er inf rest).
Proof. exact redundant_parens_same_ast. Qed.
Print Assumptions c19_redundant_parens_same_ast.

(* `f(a1, ..., an)` and `f(a1, ..., an,)` give the same AST *)
Theorem c19_trailing_comma_same_ast : forall N er inf fid lp rp c f args tas rest,
  is_ident fid = true -> tlex fid = f -> String.eqb f "bitcast" = false ->
  tkind lp = TkLeftParen -> tkind rp = TkRightParen -> tkind c = TkComma ->
  Forall2 (prints 0) args tas -> args <> [] -> follow 0 rest ->
  (List.length (fid :: lp :: join c tas ++ c :: rp :: rest) <= N)%nat ->
  expression (st N er inf (fid :: lp :: join c tas ++ rp :: rest)) = Ok (ECall f args) (st N er inf rest) /\
  expression (st N er inf (fid :: lp :: join c tas ++ c :: rp :: rest)) = Ok (ECall f args) (st N er inf rest).
Proof. exact trailing_comma_same_ast. Qed.
Print Assumptions c19_trailing_comma_same_ast.

(* print/parse round trip: `render` writes parentheses exactly where the depth of the position exceeds the
   precedence of the sub-expression (left operands at their own level, right operands one level tighter); the parser
   recovers the tree.  So precedence and associativity of the parser are those of the level table. *)
Theorem c19_parse_render_round_trip : forall N er inf e rest,
  wf_expr e -> follow 0 rest -> (List.length (render 0 e ++ rest) <= N)%nat ->
  expression (st N er inf (render 0 e ++ rest)) = Ok e (st N er inf rest).
Proof. exact parse_render. Qed.
Print Assumptions c19_parse_render_round_trip.

(* the precedence chain logicalOr ... multiplicative of parser.go is the generic chain over the level table *)
Theorem c19_precedence_chain_is_level_table : forall E T TB s, logicalOr E T TB s = lv 10 0 (unary E T TB) s.
Proof. exact logicalOr_lv. Qed.
Print Assumptions c19_precedence_chain_is_level_table.

(* non-vacuity: (a + b) * -c[0] : the printer parenthesises the sum and nothing else; a - (b - c) keeps its parentheses *)
Example c19_render_example :
  let a := EIdent "a" in let b := EIdent "b" in let c := EIdent "c" in
  let e1 := EBinary (EBinary a TkPlus b) TkStar (EUnary TkMinus (EIndex c (ELit TkIntLiteral "0"))) in
  let e2 := EBinary a TkMinus (EBinary b TkMinus c) in
  let e3 := EBinary (EBinary a TkMinus b) TkMinus c in
  wf_expr e1 /\ wf_expr e2 /\
  map tkind (render 0 e1) = [TkLeftParen; TkIdent; TkPlus; TkIdent; TkRightParen; TkStar; TkMinus; TkIdent; TkLeftBracket; TkIntLiteral; TkRightBracket] /\
  map tkind (render 0 e2) = [TkIdent; TkMinus; TkLeftParen; TkIdent; TkMinus; TkIdent; TkRightParen] /\
  map tkind (render 0 e3) = [TkIdent; TkMinus; TkIdent; TkMinus; TkIdent] /\
  expression (st 20 [] false (render 0 e1 ++ [mktoken TkSemicolon ";"])) = Ok e1 (st 20 [] false [mktoken TkSemicolon ";"]).
Proof. vm_compute. repeat split; try reflexivity; try discriminate; auto. Qed.

(* ---- parser part, TYPE expressions (coq/Parse/ParserTypes.v): template lists and the split of `>>`, `>=`, `>>=`.
   `rend t ts c`: the tokens ts followed by c adjacent template closers render the type t (names, name<T>, array<T>,
   array<T, n> with n any rendering of an additive expression, ptr<space, T[, access]>, nested without bound; trailing
   commas where the parser takes them).  `closers c cs`: cs cuts c adjacent closers into tokens, each `>` or `>>`, in any
   way; `closers_eq c cs`: the same when `=` follows, the last token being `=`, `>=` or `>>=`. *)
Require Import Naga.Parse.ParserTypes.

(* every rendering of t, whatever the spelling of its adjacent closers, is parsed by typeSpec to exactly t and leaves
   exactly the tokens that follow (any tokens; after a bare name: anything but `<`) *)
Theorem c19_type_rendering_parses_to_its_type : forall N er inf t ts c cs rest,
  rend t ts c -> closers c cs -> (c = 0%nat -> tk_eqb (hd_kind rest) TkLess = false) ->
  (List.length (ts ++ cs ++ rest) <= N)%nat ->
  typeSpec (st N er inf (ts ++ cs ++ rest)) = Ok t (st N er inf rest).
Proof. exact typeSpec_rend. Qed.
Print Assumptions c19_type_rendering_parses_to_its_type.

(* ... and when `=` follows: `T> =`, `T>=`, `T>> =`, `T> >=`, `T>>=` all give t and leave an `=` as the current token *)
Theorem c19_type_rendering_before_equal : forall N er inf t ts c cs rest,
  rend t ts c -> closers_eq c cs -> (List.length (ts ++ cs ++ rest) <= N)%nat ->
  exists e, tkind e = TkEqual /\ typeSpec (st N er inf (ts ++ cs ++ rest)) = Ok t (st N er inf (e :: rest)).
Proof. exact typeSpec_rend_eq. Qed.
Print Assumptions c19_type_rendering_before_equal.

(* the fuel-indexed statement behind both: `cl c l l'` = c successive template closes (one `>` CHARACTER each) turn the
   token list l into l'; enough fuel = the number of tokens (n for the recursion, N for the loops); the nesting depth of
   the type is at most that *)
Theorem c19_type_rendering_enough_fuel : forall N er inf t ts c, rend t ts c -> forall n l l',
  cl c l l' -> (c = 0%nat -> tk_eqb (hd_kind l) TkLess = false) ->
  (List.length (ts ++ l) <= n)%nat -> (List.length (ts ++ l) <= N)%nat ->
  pT n (st N er inf (ts ++ l)) = Ok t (st N er inf l').
Proof. exact parse_rend. Qed.
Print Assumptions c19_type_rendering_enough_fuel.

Theorem c19_type_depth_at_most_tokens : forall t ts c, rend t ts c -> (tdepth t <= List.length ts)%nat.
Proof. exact rend_depth. Qed.
Print Assumptions c19_type_depth_at_most_tokens.

(* cutting c adjacent closers into `>` / `>>` tokens in any way is c successive closes *)
Theorem c19_any_cut_of_closers_closes : forall c cs, closers c cs -> forall rest, cl c (cs ++ rest) rest.
Proof. exact closers_cl. Qed.
Print Assumptions c19_any_cut_of_closers_closes.

(* declaration contexts: `: T = e` after the name in `var` / `override` (var_tail) and `let` / `const` (let_tail),
   every spelling of the closers and of the `=` (separate, `>=`, `>>=`), every rendering of the initialiser *)
Theorem c19_var_type_and_initialiser : forall N er inf colon t ts c cs e te rest,
  tkind colon = TkColon -> rend t ts c -> closers_eq c cs -> prints 0 e te -> follow 0 rest ->
  (List.length (colon :: ts ++ cs ++ te ++ rest) <= N)%nat ->
  var_tail (st N er inf (colon :: ts ++ cs ++ te ++ rest)) = Ok (Some t, Some e) (st N er inf rest).
Proof. exact var_tail_rend. Qed.
Print Assumptions c19_var_type_and_initialiser.

Theorem c19_let_type_and_initialiser : forall N er inf colon t ts c cs e te rest,
  tkind colon = TkColon -> rend t ts c -> closers_eq c cs -> prints 0 e te -> follow 0 rest ->
  (List.length (colon :: ts ++ cs ++ te ++ rest) <= N)%nat ->
  let_tail (st N er inf (colon :: ts ++ cs ++ te ++ rest)) = Ok (Some t, e) (st N er inf rest).
Proof. exact let_tail_rend. Qed.
Print Assumptions c19_let_type_and_initialiser.

(* var_tail / let_tail are what varDecl_rest / constDecl_rest run after the name *)
Theorem c19_let_tail_is_constDecl : forall ek isc s,
  constDecl_rest ek isc s =
  bind (take TkIdent ek) (fun name => bind let_tail (fun ti => bind expect_semicolon (fun _ =>
    ret (mkconst (tlex name) (fst ti) (snd ti) isc)))) s.
Proof. exact constDecl_rest_tail. Qed.
Print Assumptions c19_let_tail_is_constDecl.

(* non-vacuity: `: ptr<function, array<vec2<f32>, 4>>= &v;` - the array count is followed by `>>=`; the spellings
   `>>=`, `> >=`, `>> =`, `> > =` all parse to the same declaration tail *)
Example c19_type_example :
  let k := fun kd s => mktoken kd s in
  let lt := k TkLess "<" in let cm := k TkComma "," in let gt := k TkGreater ">" in
  let inner := [k TkVec2 "vec2"; lt; k TkF32 "f32"] in
  let arr := k TkArray "array" :: lt :: inner ++ [gt] ++ cm :: [k TkIntLiteral "4"] in
  let ts := k TkPtr "ptr" :: lt :: k TkIdent "function" :: cm :: arr in
  let t := TyPtr "function" (TyArray (TyNamed "vec2" [TyNamed "f32" []]) (Some (ELit TkIntLiteral "4"))) "" in
  let e := EUnary TkAmpersand (EIdent "v") in
  let te := [k TkAmpersand "&"; k TkIdent "v"] in
  let semi := [k TkSemicolon ";"] in
  rend t ts 2 /\
  closers_eq 2 ([] ++ [k TkGreaterGreaterEqual ">>="]) /\ closers_eq 2 ([gt] ++ [k TkGreaterEqual ">="]) /\
  closers_eq 2 ([k TkGreaterGreater ">>"] ++ [k TkEqual "="]) /\ closers_eq 2 ([gt; gt] ++ [k TkEqual "="]) /\
  let_tail (st 40 [] false (k TkColon ":" :: ts ++ [k TkGreaterGreaterEqual ">>="] ++ te ++ semi)) = Ok (Some t, e) (st 40 [] false semi) /\
  let_tail (st 40 [] false (k TkColon ":" :: ts ++ [gt; k TkGreaterEqual ">="] ++ te ++ semi)) = Ok (Some t, e) (st 40 [] false semi) /\
  let_tail (st 40 [] false (k TkColon ":" :: ts ++ [gt; gt; k TkEqual "="] ++ te ++ semi)) = Ok (Some t, e) (st 40 [] false semi).
Proof.
  cbv zeta. repeat split; try (vm_compute; reflexivity).
  - apply (R_ptr (mktoken TkPtr "ptr") (mktoken TkLess "<") (mktoken TkIdent "function") (mktoken TkComma ",")
             (TyArray (TyNamed "vec2" [TyNamed "f32" []]) (Some (ELit TkIntLiteral "4")))); try reflexivity.
    apply (R_array_n (mktoken TkArray "array") (mktoken TkLess "<") (TyNamed "vec2" [TyNamed "f32" []])
             [mktoken TkVec2 "vec2"; mktoken TkLess "<"; mktoken TkF32 "f32"] 1 [mktoken TkGreater ">"] (mktoken TkComma ",")
             (ELit TkIntLiteral "4") [mktoken TkIntLiteral "4"]); try reflexivity.
    + apply (R_param (mktoken TkVec2 "vec2") (mktoken TkLess "<") (TyNamed "f32" []) [mktoken TkF32 "f32"] 0); try reflexivity.
      apply (R_named (mktoken TkF32 "f32")). reflexivity.
    + apply C_one; [reflexivity|apply C_nil].
    + apply (prints_lit (mktoken TkIntLiteral "4") 8); [reflexivity|repeat constructor].
  - apply CE_gge; [apply C_nil|reflexivity].
  - apply CE_ge; [apply C_one; [reflexivity|apply C_nil]|reflexivity].
  - apply CE_sep; [apply C_two; [reflexivity|apply C_nil]|reflexivity].
  - apply CE_sep; [apply C_one; [reflexivity|apply C_one; [reflexivity|apply C_nil]]|reflexivity].
Qed.
