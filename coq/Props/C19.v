(* Property C19 (lexical part): meaning-neutral re-spacing and (un)commenting
   cannot change the token stream -- for every source text, of any length. *)
From Coq Require Import List ZArith Bool.
Import ListNotations.
Require Import Naga.Lex.LexModel Naga.Lex.LexSplit Naga.Lex.LexTrivia Naga.Lex.LexInst Naga.Lex.LexFinal Naga.Gen.LexTables.
Open Scope Z_scope.

(* a blank is a hard token boundary *)
Theorem c19_blank_is_token_boundary :
  forall s1 w s2, blank (cp w) = true -> snd (lstrip_go s1) = false ->
  lstrip_go (s1 ++ w :: s2) = (fst (lstrip_go s1) ++ fst (lstrip_go s2), snd (lstrip_go s2)).
Proof. exact go_blank_splits. Qed.
Print Assumptions c19_blank_is_token_boundary.

(* blanks, line comments and (nested) block comments yield no token, whatever follows *)
Theorem c19_trivia_produces_no_tokens :
  forall tr s, forallb wf_trivia tr = true -> lstrip_go (render tr ++ s) = lstrip_go s.
Proof. exact go_trivia_skipped. Qed.
Print Assumptions c19_trivia_produces_no_tokens.

(* two layouts of the same pieces of text, with any blanks/comments between them, lex identically *)
Theorem c19_respacing_invariance :
  forall ps1 ps2,
  layout_ok is_letter keyword K ps1 -> layout_ok is_letter keyword K ps2 ->
  map (fun '(p, _, _) => p) ps1 = map (fun '(p, _, _) => p) ps2 ->
  lstrip_go (layout ps1) = lstrip_go (layout ps2).
Proof. exact go_respacing_invariance. Qed.
Print Assumptions c19_respacing_invariance.

(* non-vacuity: `a/**/+b` pieces with a nested comment containing a star-slash look-alike *)
Example c19_example :
  let a := asc [97] in let plus := asc [43] in let b := asc [98; 59] in
  let sp := mkch 32 1 in let nl := mkch 10 1 in
  (* body: blank, x, an opening marker, star, blank, slash-star-slash, a quote, the closing marker *)
  let body := asc [32; 120; 47; 42; 42; 32; 47; 34; 42; 47; 42; 47] in
  let ps1 := [(a, sp, []); (plus, sp, []); (b, nl, [])] in
  let ps2 := [(a, nl, [TBlock body; TBlank sp]); (plus, sp, [TLine (asc [47; 42; 34]) nl]); (b, sp, [])] in
  forallb wf_trivia [TBlock body; TLine (asc [47; 42; 34]) nl] = true /\
  lstrip_go (layout ps2) = lstrip_go (layout ps1) /\
  length (fst (lstrip_go (layout ps2))) = 4%nat.
Proof. vm_compute. repeat split; reflexivity. Qed.

(* ---- parser part (coq/Parse): redundant parentheses, trailing commas, precedence and associativity.
   `prints d e ts`: ts is a token rendering of expression e for a position of precedence depth d in which any
   sub-expression may carry any number of redundant parentheses and call argument lists may end in a comma
   (Parse/ParserPrint.v).  Fragment: identifiers, literals, unary/binary operators, calls, indexing, member
   access, parentheses; type constructors / bitcast (template lists) are outside these theorems. *)
From Coq Require Import String.
Require Import Naga.Parse.Ast Naga.Parse.ParserModel Naga.Parse.ParserPrint.
Open Scope string_scope.
Open Scope list_scope.

(* every rendering of e is parsed to exactly e, whatever follows it (a token that cannot continue an expression) *)
Theorem c19_every_rendering_parses_to_its_ast : forall N er inf e ts rest,
  prints 0 e ts -> follow 0 rest -> (List.length (ts ++ rest) <= N)%nat ->
  expression (st N er inf (ts ++ rest)) = Ok e (st N er inf rest).
Proof. exact parse_prints. Qed.
Print Assumptions c19_every_rendering_parses_to_its_ast.

(* a rendering of any depth wrapped in ( ) is a rendering for every depth: parentheses may be added anywhere *)
Theorem c19_parentheses_allowed_anywhere : forall d d' e ts lp rp,
  prints d e ts -> (d <= 11)%nat -> (d' <= 11)%nat -> tkind lp = TkLeftParen -> tkind rp = TkRightParen ->
  prints d' e (lp :: ts ++ [rp]).
Proof. exact prints_wrap. Qed.
Print Assumptions c19_parentheses_allowed_anywhere.

(* `e` and `( e )` give the same AST (the AST has no parenthesis node) *)
Theorem c19_redundant_parens_same_ast : forall N er inf e ts rest lp rp,
  prints 0 e ts -> follow 0 rest -> tkind lp = TkLeftParen -> tkind rp = TkRightParen ->
  (List.length (lp :: ts ++ rp :: rest) <= N)%nat ->
  expression (st N er inf (ts ++ rest)) = Ok e (st N er inf rest) /\
  expression (st N er inf (lp :: ts ++ rp :: rest)) = Ok e (st N er inf rest).
Proof. exact redundant_parens_same_ast. Qed.
Print Assumptions c19_redundant_parens_same_ast.

(* `f(a1, ..., an)` and `f(a1, ..., an,)` give the same AST *)
Theorem c19_trailing_comma_same_ast : forall N er inf fid lp rp c f args tas rest,
  is_ident fid = true -> tlex fid = f -> String.eqb f "bitcast" = false ->
  tkind lp = TkLeftParen -> tkind rp = TkRightParen -> tkind c = TkComma ->
  Forall2 (prints 0) args tas -> args <> [] -> follow 0 rest ->
  (List.length (fid :: lp :: join c tas ++ c :: rp :: rest) <= N)%nat ->
  expression (st N er inf (fid :: lp :: join c tas ++ rp :: rest)) = Ok (ECall f args) (st N er inf rest) /\
  expression (st N er inf (fid :: lp :: join c tas ++ c :: rp :: rest)) = Ok (ECall f args) (st N er inf rest).
Proof. exact trailing_comma_same_ast. Qed.
Print Assumptions c19_trailing_comma_same_ast.

(* print/parse round trip: `render` writes parentheses exactly where the depth of the position exceeds the
   precedence of the sub-expression (left operands at their own level, right operands one level tighter); the parser
   recovers the tree.  So precedence and associativity of the parser are those of the level table. *)
Theorem c19_parse_render_round_trip : forall N er inf e rest,
  wf_expr e -> follow 0 rest -> (List.length (render 0 e ++ rest) <= N)%nat ->
  expression (st N er inf (render 0 e ++ rest)) = Ok e (st N er inf rest).
Proof. exact parse_render. Qed.
Print Assumptions c19_parse_render_round_trip.

(* the precedence chain logicalOr ... multiplicative of parser.go is the generic chain over the level table *)
Theorem c19_precedence_chain_is_level_table : forall E T TB s, logicalOr E T TB s = lv 10 0 (unary E T TB) s.
Proof. exact logicalOr_lv. Qed.
Print Assumptions c19_precedence_chain_is_level_table.

(* non-vacuity: (a + b) * -c[0] : the printer parenthesises the sum and nothing else; a - (b - c) keeps its parentheses *)
Example c19_render_example :
  let a := EIdent "a" in let b := EIdent "b" in let c := EIdent "c" in
  let e1 := EBinary (EBinary a TkPlus b) TkStar (EUnary TkMinus (EIndex c (ELit TkIntLiteral "0"))) in
  let e2 := EBinary a TkMinus (EBinary b TkMinus c) in
  let e3 := EBinary (EBinary a TkMinus b) TkMinus c in
  wf_expr e1 /\ wf_expr e2 /\
  map tkind (render 0 e1) = [TkLeftParen; TkIdent; TkPlus; TkIdent; TkRightParen; TkStar; TkMinus; TkIdent; TkLeftBracket; TkIntLiteral; TkRightBracket] /\
  map tkind (render 0 e2) = [TkIdent; TkMinus; TkLeftParen; TkIdent; TkMinus; TkIdent; TkRightParen] /\
  map tkind (render 0 e3) = [TkIdent; TkMinus; TkIdent; TkMinus; TkIdent] /\
  expression (st 20 [] false (render 0 e1 ++ [mktoken TkSemicolon ";"])) = Ok e1 (st 20 [] false [mktoken TkSemicolon ";"]).
Proof. vm_compute. repeat split; try reflexivity; try discriminate; auto. Qed.
